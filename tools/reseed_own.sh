#!/bin/bash
# Re-run only the named checks against stored seeded changes, keeping the stored results of
# the other checks.  usage: tools/reseed_own.sh <parallelism> <seed-glob>...   (check = the seed's property,
# plus the cross-checks listed below)
cd "$(dirname "$0")/.."
P=$1; shift
for G in "$@"; do ls -d seeded/$G/; done | while read d; do
  name=$(basename $d); pid=${name%%_*}
  checks=$pid
  [ "$name" = "C25_r2_2" ] && checks="C25 C14"
  [ "$name" = "C30_r2_1" ] && checks="C30 C20"
  [ "$name" = "C32_r2_2" ] && checks="C32 C30"
  [ "$name" = "C50_2" ] && checks="C50 C38"
  echo "$pid $d $name $checks"
done | xargs -P $P -L 1 bash -c 'timeout 3000 tools/seedtest.py $0 $1 $2 ${@:3} --checks-only --merge 2>&1 | grep "stored\|does not apply" | sed "s|/verif/seeded/||"'
