#!/bin/bash
# Re-run the registered checks against every stored seeded change (checks only; the change
# was confirmed when it was stored).  usage: tools/reseed_all.sh [parallelism] [name-glob]
cd "$(dirname "$0")/.."
P=${1:-3}; G=${2:-*}
ls -d seeded/$G/ | while read d; do
  name=$(basename $d); pid=${name%%_*}
  checks=$pid
  case $pid in C01|C02|C03) checks="C01 C02 C03";; C23|C32) checks="C23 C32";; esac
  [ "$name" = "C50_2" ] && checks="C50 C38"
  [ "$name" = "C02_r2_1" ] && checks="C02 C25 C12 C14"
  [ "$name" = "C11_r2_2" ] && checks="C11 C01 C02 C03"
  echo "$pid $d $name $checks"
done | xargs -P $P -L 1 bash -c 'timeout 3000 tools/seedtest.py $0 $1 $2 ${@:3} --checks-only 2>&1 | grep "stored\|does not apply" | sed "s|/verif/seeded/||"'
python3 tools/gen_design_tables.py
