#!/usr/bin/env python3
"""Run every registered check (quick by default) N-wide; print a summary table."""
import concurrent.futures as cf, glob, json, os, subprocess, sys, time
V = os.path.dirname(os.path.dirname(os.path.abspath(__file__)))
tier = sys.argv[1] if len(sys.argv) > 1 else "quick"
width = int(sys.argv[2]) if len(sys.argv) > 2 else 4
only = sys.argv[3:] 
ids = sorted(os.path.basename(p)[:-5] for p in glob.glob(os.path.join(V, "spec", "C*.json")))
if only: ids = [i for i in ids if i in only]
def run(pid):
    t0 = time.time()
    r = subprocess.run(["./check", pid, "--tier", tier], cwd=V, stdout=subprocess.PIPE, stderr=subprocess.PIPE, text=True)
    return pid, r.returncode, time.time() - t0, r.stdout.strip().splitlines(), r.stderr.strip().splitlines()[-1:] 
bad = 0
with cf.ThreadPoolExecutor(width) as ex:
    for pid, rc, dt, out, err in ex.map(run, ids):
        if rc != 0: bad += 1
        print("%-4s rc=%d %6.1fs %s %s" % (pid, rc, dt, " | ".join(l for l in out if l.startswith(("VIOLATION", "KNOWN"))), " ".join(err)), flush=True)
print("total", len(ids), "failing", bad)
sys.exit(1 if bad else 0)
