#!/usr/bin/env python3
"""Confirm a seeded change and run checks against it.

  tools/seedtest.py <Cxx> <dir with patch.diff, demo_test.go, notes.md> <name> [check ids...]

In a scratch worktree of /repo: apply patch -> go build ./... -> tests of touched packages
(must pass) -> demo (must FAIL) -> revert -> demo (must PASS) -> re-apply -> run
`VERIF_REPO=<wt> ./check <id> --no-evidence` for each check id (default: the property) ->
remove the worktree.  On success the change is stored under /verif/seeded/<name>/ with meta.json.
"""
import json, os, re, shutil, subprocess, sys, time
V = os.path.dirname(os.path.dirname(os.path.abspath(__file__)))
CHECKS_ONLY = "--checks-only" in sys.argv
if CHECKS_ONLY:
    sys.argv.remove("--checks-only")
MERGE = "--merge" in sys.argv   # keep the stored results of checks that are not re-run
if MERGE:
    sys.argv.remove("--merge")
pid, src, name = sys.argv[1], os.path.abspath(sys.argv[2]), sys.argv[3]
checks = sys.argv[4:] or [pid]
wt = "/tmp/wt_seed_%s" % name
import hashlib
TAG = hashlib.sha1(os.path.realpath(wt).encode()).hexdigest()[:8]
env = dict(os.environ, GOFLAGS="-mod=mod", GOPROXY="off")
def sh(cmd, cwd=wt, timeout=1500):
    r = subprocess.run(cmd, cwd=cwd, env=env, shell=True, stdout=subprocess.PIPE, stderr=subprocess.STDOUT, text=True, timeout=timeout)
    return r.returncode, r.stdout
subprocess.run("git -C /repo worktree remove --force %s 2>/dev/null; git -C /repo worktree prune; git -C /repo worktree add --detach %s" % (wt, wt), shell=True, stdout=subprocess.DEVNULL, stderr=subprocess.DEVNULL)
import atexit
atexit.register(lambda: subprocess.run("git -C /repo worktree remove --force %s; git -C /repo worktree prune; rm -rf /verif/build/ext_%s /verif/build/run/*_%s" % (wt, TAG, TAG), shell=True, stdout=subprocess.DEVNULL, stderr=subprocess.DEVNULL))
meta = {"property": pid, "name": name, "ran": [], "confirmed": False}
if CHECKS_ONLY and os.path.exists(os.path.join(src, "meta.json")):
    meta = json.load(open(os.path.join(src, "meta.json")))
try:
    patch = os.path.join(src, "patch.diff")
    demo = os.path.join(src, "demo_test.go")
    rc, out = sh("git apply %s" % patch)
    if rc: raise SystemExit("patch does not apply: " + out)
    touched = sorted({os.path.dirname(l[6:].strip()) for l in open(patch) if l.startswith("+++ b/")})
    first = open(demo).readline()
    m = re.search(r"([\w./-]+/[\w./-]+|\bgrpc root\b|root package)", first)
    demodir = None
    # the demo's first-line comment names its package directory: take the longest token that is one
    for cand in re.findall(r"[\w][\w./-]*", first):
        cand = cand.rstrip("./")
        if cand and os.path.isdir(os.path.join(wt, cand)) and not cand.startswith("/"):
            if demodir is None or len(cand) > len(demodir):
                demodir = cand
    src_ = open(demo).read()
    m2 = re.search(r"(?m)^package\s+(\w+)", src_)
    if m2 and m2.group(1) in ("grpc", "grpc_test"):
        demodir = "."   # root package, whatever else the comment mentions
    if demodir is None and re.search(r"\broot\b", first):
        demodir = "."
    if demodir is None:
        # fall back to the package clause: package grpc / grpc_test => root
        src_ = open(demo).read()
        m2 = re.search(r"(?m)^package\s+(\w+)", src_)
        if m2 and m2.group(1) in ("grpc", "grpc_test"):
            demodir = "."
    if demodir is None:
        demodir = touched[0]
    meta["demo_dir"] = demodir
    if CHECKS_ONLY:
        raise StopIteration
    rc, out = sh("go build $(go list -f '{{if and (ne .Name \"main\") .GoFiles}}{{.ImportPath}}{{end}}' ./...)")
    meta["ran"].append({"cmd": "go build ./...", "rc": rc})
    if rc: raise SystemExit("build fails with patch: " + out[-2000:])
    pk = " ".join("./" + t for t in touched)
    rc, out = sh("go test -count=1 -vet=off %s" % pk)
    meta["ran"].append({"cmd": "go test -count=1 " + pk, "rc": rc, "tail": out[-300:]})
    if rc: raise SystemExit("existing package tests FAIL with the patch (change is not admissible): " + out[-2000:])
    dst = os.path.join(wt, demodir, "zz_seed_demo_test.go")
    shutil.copyfile(demo, dst)
    rc1, out1 = sh("go test -count=1 -vet=off -run 'Seed|seed|Demo|demo|ZZ|Zz' ./%s" % demodir)
    if "no tests to run" in out1:
        rc1, out1 = sh("go test -count=1 -vet=off ./%s" % demodir)
    meta["ran"].append({"cmd": "demo with patch", "rc": rc1, "tail": out1[-300:]})
    os.remove(dst)
    sh("git apply -R %s" % patch)
    shutil.copyfile(demo, dst)
    rc2, out2 = sh("go test -count=1 -vet=off -run 'Seed|seed|Demo|demo|ZZ|Zz' ./%s" % demodir)
    if "no tests to run" in out2:
        rc2, out2 = sh("go test -count=1 -vet=off ./%s" % demodir)
    meta["ran"].append({"cmd": "demo without patch", "rc": rc2, "tail": out2[-300:]})
    os.remove(dst)
    if not (rc1 != 0 and rc2 == 0):
        raise SystemExit("demo does not discriminate: with patch rc=%d, without rc=%d\n%s" % (rc1, rc2, out2[-1500:]))
    meta["confirmed"] = True
    sh("git apply %s" % patch)
except StopIteration:
    pass
try:
    meta["checks"] = dict(meta.get("checks", {})) if MERGE else {}
    meta["checked_at_repo_head"] = subprocess.run("git -C /repo rev-parse --short HEAD", shell=True, stdout=subprocess.PIPE, text=True).stdout.strip()
    for c in checks:
        t0 = time.time()
        r = subprocess.run(["./check", c, "--no-evidence"], cwd=V, env=dict(env, VERIF_REPO=wt), stdout=subprocess.PIPE, stderr=subprocess.PIPE, text=True)
        lines = [l for l in r.stdout.splitlines() if l.startswith(("VIOLATION", "KNOWN"))]
        meta["checks"][c] = {"rc": r.returncode, "lines": lines, "wall_s": round(time.time() - t0, 1), "stderr_tail": r.stderr.strip().splitlines()[-1:]}
        print(c, "rc=%d" % r.returncode, lines, r.stderr.strip().splitlines()[-1:])
    meta["detected_by"] = [c for c, v in meta["checks"].items() if v["rc"] == 1]
    out = os.path.join(V, "seeded", name)
    os.makedirs(out, exist_ok=True)
    if os.path.realpath(src) != os.path.realpath(out):
        shutil.copyfile(patch, os.path.join(out, "patch.diff"))
        shutil.copyfile(demo, os.path.join(out, "demo_test.go"))
        if os.path.exists(os.path.join(src, "notes.md")):
            shutil.copyfile(os.path.join(src, "notes.md"), os.path.join(out, "notes.md"))
    notes = open(os.path.join(src, "notes.md")).read() if os.path.exists(os.path.join(src, "notes.md")) else ""
    meta["needs_to_manifest"] = notes[:1500]
    json.dump(meta, open(os.path.join(out, "meta.json"), "w"), indent=1)
    print("stored", out, "detected_by", meta["detected_by"])
except Exception:
    raise
