#!/usr/bin/env python3
"""Compile every driver test binary once (go test -run '^$') so quick checks start warm."""
import glob, json, os, subprocess, sys
sys.path.insert(0, os.path.dirname(os.path.abspath(__file__)))
import runner
seen = {}
for p in sorted(glob.glob(os.path.join(runner.VERIF, "spec", "C*.json"))):
    s = json.load(open(p))
    d = s["driver"]
    key = (d["kind"], d.get("module_dir", ""), d["pkg"])
    seen.setdefault(key, []).append(s)
procs = []
for key, specs in seen.items():
    # one overlay per package containing all driver files of that package
    s = dict(specs[0]); d = dict(s["driver"]); files = []
    for x in specs:
        for f in x["driver"]["files"]:
            if f not in files: files.append(f)
    d["files"] = files; s["driver"] = d
    wd = os.path.join(runner.BUILD, "warm", "_".join(k.replace("/", "_") for k in key if k))
    os.makedirs(wd, exist_ok=True)
    if d["kind"] == "inpkg":
        ov, moddir = runner.build_overlay(s, wd)
        cmd = ["go", "test", "-tags", "verif", "-overlay", ov, "-run", "^$", "-count=1", "-vet=off", "./" + d["pkg"]]
        cwd = moddir
    else:
        cwd = runner.ext_module_ready(d['pkg'])
        cmd = ["go", "test", "-tags", "verif", "-run", "^$", "-count=1", "-vet=off", "./" + d["pkg"]]
    r = subprocess.run(cmd, cwd=cwd, env=runner.goenv(), stdout=subprocess.PIPE, stderr=subprocess.STDOUT, text=True)
    print("warm", key, "rc", r.returncode)
    if r.returncode != 0:
        print(r.stdout[-2000:])
        sys.exit(1)
