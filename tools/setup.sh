#!/bin/bash
# Offline setup after a fresh restore: full .vo build of the Coq development from
# clean, then warm the Go build cache for every driver package.
set -e
cd "$(dirname "$0")/.."
export GOFLAGS=-mod=mod GOPROXY=off
mkdir -p build evidence
( cd coq && rm -f Makefile.coq Makefile.coq.conf && find . -name '*.vo' -o -name '*.vok' -o -name '*.vos' -o -name '*.glob' -o -name '.*.aux' | xargs -r rm -f )
python3 - <<'PY'
import sys; sys.path.insert(0, "tools")
import runner
ok, err = runner.ensure_coq_built(None)
if not ok:
    print(err); sys.exit(1)
print("coq development built")
PY
python3 tools/warm.py
