#!/usr/bin/env python3
"""Runner for the /verif checks (DESIGN.md §3, §5, A.4).

  ./check Cxx [--tier quick|thorough] [--replay FILE] [--keep]

Steps of one check:
  1. the Coq development is built (full .vo build; a failure here is exit 2 =
     infrastructure, it cannot be caused by /repo);
  2. props/Cxx.v is re-checked by coqc and its `Print Assumptions` output is
     parsed: every axiom must be on the allow-list;
  3. the Go driver of the property is compiled against /repo's *current working
     tree* (in-package drivers are injected with `go test -overlay`) and run;
  4. the recorded cases are emitted as cases_*.v and evaluated by vm_compute
     against the model: correspondence (model trace = implementation trace)
     and the property predicate on the implementation's own trace;
  5. decision, shrinking, evidence, VIOLATION / KNOWN-FINDING lines.
"""
import argparse
import concurrent.futures as cf
import fcntl
import hashlib
import json
import os
import re
import shutil
import subprocess
import sys
import time

VERIF = os.path.dirname(os.path.dirname(os.path.abspath(__file__)))
REPO = os.environ.get("VERIF_REPO", "/repo")
COQ = os.path.join(VERIF, "coq")
BUILD = os.path.join(VERIF, "build")
# VERIF_REPO=<scratch worktree> runs a check against a mutated copy of the repository
# (used for mutation sanity tests); scratch state is then kept apart from the real runs.
RUNTAG = "" if os.path.realpath(REPO) == "/repo" else "_" + hashlib.sha1(os.path.realpath(REPO).encode()).hexdigest()[:8]
QFLAGS = ["-Q", "lib", "VLib", "-Q", "model", "VModel", "-Q", "proof", "VProof", "-Q", "props", "VProps"]

# Axioms that may appear under Print Assumptions: only ones declared by the
# standard library (DESIGN.md §8).  Anything else fails the check.
STD_AXIOM_PREFIXES = (
    "PrimFloat.", "PrimInt63.", "Uint63.", "FloatAxioms.", "FloatOps.", "Sint63.",
    "ClassicalDedekindReals.", "FunctionalExtensionality.functional_extensionality_dep",
    "Classical_Prop.classic", "Eqdep.Eq_rect_eq.eq_rect_eq", "JMeq.JMeq_eq",
    "ProofIrrelevance.proof_irrelevance", "Uint63Axioms.", "CarryType.", "CRelationClasses.",
)
# primitive types/operations are listed by Print Assumptions but are not axioms
PRIMITIVE_OK = re.compile(r"^(float|int|add|sub|mul|div|sqrt|opp|abs|eqb|ltb|leb|compare|of_uint63|"
                          r"normfr_mantissa|frshiftexp|ldshiftexp|next_up|next_down|classify|"
                          r"PrimFloat\.\w+|PrimInt63\.\w+|Uint63\.\w+)$")


# Coq.Floats.FloatAxioms / Uint63Axioms names as Print Assumptions prints them (unqualified)
STD_FLOAT_AXIOMS = {
    "mul_spec", "ltb_spec", "leb_spec", "eqb_spec", "add_spec", "sub_spec", "opp_spec", "abs_spec",
    "div_spec", "sqrt_spec", "compare_spec", "of_uint63_spec", "Prim2SF_valid", "SF2Prim_Prim2SF",
    "Prim2SF_SF2Prim", "normfr_mantissa_spec", "frshiftexp_spec", "ldshiftexp_spec", "next_up_spec",
    "next_down_spec", "classify_spec", "sig_forall_dec", "sig_not_dec", "functional_extensionality_dep",
    "Leibniz.Equal.equal_spec",
}


def log(*a):
    print(*a, file=sys.stderr, flush=True)


def goenv():
    e = dict(os.environ)
    e["GOFLAGS"] = "-mod=mod"
    e["GOPROXY"] = "off"
    e.pop("GOTOOLCHAIN", None) if e.get("GOTOOLCHAIN") == "local" else None
    e.pop("GOSUMDB", None) if e.get("GOSUMDB") == "off" else None
    return e


def load_spec(pid):
    with open(os.path.join(VERIF, "spec", pid + ".json")) as f:
        return json.load(f)


# ---------------------------------------------------------------- Coq build

def coq_sources():
    out = []
    for d in ("lib", "model", "proof", "props"):
        p = os.path.join(COQ, d)
        if os.path.isdir(p):
            for fn in sorted(os.listdir(p)):
                if fn.endswith(".v"):
                    out.append(d + "/" + fn)
    return out


FORBIDDEN = re.compile(r"\b(Admitted|admit|Axiom|Axioms|Parameter|Parameters|Conjecture|Conjectures|"
                       r"Admit\s+Obligations|bypass_check|native_compute)\b|Unset\s+Guard|Unset\s+Positivity|"
                       r"Unset\s+Universe\s+Checking|type-in-type|impredicative-set")


def strip_coq_comments(s):
    out, depth, i = [], 0, 0
    while i < len(s):
        if s.startswith("(*", i):
            depth += 1
            i += 2
        elif s.startswith("*)", i) and depth > 0:
            depth -= 1
            i += 2
        else:
            if depth == 0:
                out.append(s[i])
            i += 1
    return "".join(out)


def lint_coq(rels=None):
    """No Admitted/admit/Axiom/Parameter/... anywhere, no Variable/Hypothesis outside a Section."""
    bad = []
    for rel in (rels if rels is not None else coq_sources()):
        src = strip_coq_comments(open(os.path.join(COQ, rel)).read())
        for m in FORBIDDEN.finditer(src):
            bad.append("%s: forbidden token %r" % (rel, m.group(0)))
        depth = 0
        for line in src.splitlines():
            s = line.strip()
            if re.match(r"^Section\b", s):
                depth += 1
            elif re.match(r"^End\b", s) and depth > 0:
                depth -= 1  # modules are not used in this development
            elif depth == 0 and re.match(r"^(Variable|Variables|Hypothesis|Hypotheses|Context)\b", s):
                bad.append("%s: %s outside a Section" % (rel, s.split()[0]))
    return bad


ROOTS = {"VLib": "lib", "VModel": "model", "VProof": "proof", "VProps": "props"}
REQ_RE = re.compile(r"From\s+(VLib|VModel|VProof|VProps)\s+Require\s+(?:Import\s+|Export\s+)?([\w\s]+?)\.(?:\s|$)")


def direct_deps(rel):
    src = strip_coq_comments(open(os.path.join(COQ, rel)).read())
    deps = []
    for m in REQ_RE.finditer(src):
        for name in m.group(2).split():
            deps.append("%s/%s.v" % (ROOTS[m.group(1)], name))
    return deps


def closure(rels):
    order, seen = [], set()

    def visit(r):
        if r in seen:
            return
        seen.add(r)
        if not os.path.exists(os.path.join(COQ, r)):
            raise RuntimeError("missing Coq source " + r)
        for d in direct_deps(r):
            visit(d)
        order.append(r)
    for r in rels:
        visit(r)
    return order


def spec_targets(spec):
    t = ["model/%s.v" % spec["engine"], spec.get("props_file", "props/%s.v" % spec["id"])]
    return t + spec.get("extra_coq", [])


def ensure_coq_built(spec=None):
    """Full .vo build (plain coqc, no -vos) of the dependency closure of the property's
    files, in dependency order, recompiling what is stale.  With spec=None: everything,
    through coq_makefile + make (this is what setup_cmd does)."""
    os.makedirs(BUILD, exist_ok=True)
    lock = open(os.path.join(BUILD, ".coqlock"), "w")
    fcntl.flock(lock, fcntl.LOCK_EX)
    try:
        if spec is None:
            bad = lint_coq()
            if bad:
                return False, "\n".join(bad)
            srcs = coq_sources()
            proj = "-Q lib VLib\n-Q model VModel\n-Q proof VProof\n-Q props VProps\n" + "\n".join(srcs) + "\n"
            open(os.path.join(COQ, "_CoqProject"), "w").write(proj)
            subprocess.run(["coq_makefile", "-f", "_CoqProject", "-o", "Makefile.coq"], cwd=COQ, check=True,
                           stdout=subprocess.DEVNULL, stderr=subprocess.DEVNULL)
            r = subprocess.run(["timeout", "5400", "make", "-f", "Makefile.coq", "-j16"], cwd=COQ,
                               stdout=subprocess.PIPE, stderr=subprocess.STDOUT, text=True)
            if r.returncode != 0:
                return False, r.stdout[-4000:]
            return True, ""
        try:
            order = closure(spec_targets(spec))
        except RuntimeError as e:
            return False, str(e)
        bad = lint_coq(order)
        if bad:
            return False, "\n".join(bad)
        rebuilt = set()
        for rel in order:
            src = os.path.join(COQ, rel)
            vo = src[:-2] + ".vo"
            stale = (not os.path.exists(vo)) or os.path.getmtime(vo) < os.path.getmtime(src) \
                or any(d in rebuilt or os.path.getmtime(os.path.join(COQ, d)[:-2] + ".vo") > os.path.getmtime(vo)
                       for d in direct_deps(rel))
            if stale:
                r = subprocess.run(["timeout", "1800", "coqc"] + QFLAGS + [rel], cwd=COQ,
                                   stdout=subprocess.PIPE, stderr=subprocess.STDOUT, text=True)
                if r.returncode != 0:
                    return False, "coqc %s failed:\n%s" % (rel, r.stdout[-3000:])
                rebuilt.add(rel)
        return True, ""
    finally:
        fcntl.flock(lock, fcntl.LOCK_UN)
        lock.close()


def check_props(spec):
    """Re-run coqc on props/Cxx.v, parse Print Assumptions."""
    rel = spec.get("props_file", "props/%s.v" % spec["id"])
    src = strip_coq_comments(open(os.path.join(COQ, rel)).read())
    theorems = re.findall(r"^\s*(?:Theorem|Lemma|Corollary|Example)\s+([\w']+)", src, re.M)
    # compile to a scratch .vo so a concurrently running make is not disturbed
    scratch = os.path.join(BUILD, "props_" + spec["id"] + RUNTAG)
    os.makedirs(scratch, exist_ok=True)
    r = subprocess.run(["timeout", "900", "coqc"] + QFLAGS + ["-o", os.path.join(scratch, os.path.basename(rel)[:-2] + ".vo"), rel],
                       cwd=COQ, stdout=subprocess.PIPE, stderr=subprocess.PIPE, text=True)
    if r.returncode != 0:
        return {"ok": False, "error": (r.stderr or r.stdout)[-3000:], "theorems": theorems}
    axioms, closed = [], 0
    blocks = re.split(r"(?m)^(?=Closed under the global context|Axioms:)", r.stdout)
    for b in blocks:
        if b.startswith("Closed under"):
            closed += 1
        elif b.startswith("Axioms:"):
            for m in re.finditer(r"(?m)^([A-Za-z_][\w.']*)\s*(?::|$)", b[len("Axioms:"):]):
                axioms.append(m.group(1))
    axioms = sorted(set(axioms))
    unexpected = [a for a in axioms if not (a.startswith(STD_AXIOM_PREFIXES) or PRIMITIVE_OK.match(a)
                                            or a in STD_FLOAT_AXIOMS
                                            or a in spec.get("allowed_axioms", []))]
    nprint = len(re.findall(r"Print\s+Assumptions", src))
    return {"ok": not unexpected, "theorems": theorems, "axioms": axioms, "unexpected": unexpected,
            "closed": closed, "print_assumptions": nprint,
            "error": ("unexpected axioms: " + ", ".join(unexpected)) if unexpected else ""}


def run_coqchk(spec):
    """Thorough tier: re-check the compiled closure of props/Cxx.vo with the independent
    checker; cached by the content hash of the closure's sources."""
    order = closure(spec_targets(spec))
    h = hashlib.sha1()
    for rel in order:
        h.update(rel.encode())
        h.update(open(os.path.join(COQ, rel), "rb").read())
    cdir = os.path.join(BUILD, "coqchk")
    os.makedirs(cdir, exist_ok=True)
    cf_ = os.path.join(cdir, "%s_%s.txt" % (spec["id"], h.hexdigest()[:16]))
    if os.path.exists(cf_):
        out = open(cf_).read()
    else:
        lock = open(os.path.join(BUILD, ".coqlock"), "w")
        fcntl.flock(lock, fcntl.LOCK_SH)
        try:
            r = subprocess.run(["timeout", "7200", "coqchk", "-silent", "-o"] + QFLAGS + ["VProps." + spec["id"]],
                               cwd=COQ, stdout=subprocess.PIPE, stderr=subprocess.STDOUT, text=True)
        finally:
            fcntl.flock(lock, fcntl.LOCK_UN)
            lock.close()
        out = r.stdout
        if r.returncode != 0:
            return {"ok": False, "output": out[-3000:]}
        open(cf_, "w").write(out)
    m = re.search(r"\* Axioms:(.*?)\n\s*\n\* ", out, re.S)
    axioms = []
    if m and "<none>" not in m.group(1):
        axioms = [x.strip() for x in m.group(1).strip().splitlines() if x.strip()]
    bad = [k for k in ("type-in-type", "unsafe (co)fixpoints", "positivity is assumed")
           if not re.search(re.escape(k) + r":\s*<none>", out)]
    return {"ok": not bad, "axioms": axioms, "output": out[-1500:], "unsafe": bad}


# ---------------------------------------------------------------- Go driver

def pkg_name_of(dirpath):
    for fn in sorted(os.listdir(dirpath)):
        if fn.endswith(".go") and not fn.endswith("_test.go"):
            for line in open(os.path.join(dirpath, fn), errors="replace"):
                m = re.match(r"^package\s+(\w+)", line)
                if m:
                    return m.group(1)
    raise RuntimeError("no package clause in " + dirpath)


def build_overlay(spec, workdir):
    d = spec["driver"]
    moddir = os.path.join(REPO, d.get("module_dir", ""))
    pkgdir = os.path.join(moddir, d["pkg"])
    srcdir = os.path.join(VERIF, "drivers", "inpkg", d.get("module_dir", ""), d["pkg"])
    pkgname = d.get("pkgname") or pkg_name_of(pkgdir)
    tmpl = open(os.path.join(VERIF, "drivers", "common", "zz_verif_common_test.go.tmpl")).read()
    common = os.path.join(workdir, "zz_verif_common_test.go")
    open(common, "w").write(tmpl.replace("package PKGNAME", "package " + pkgname))
    rep = {os.path.join(pkgdir, "zz_verif_common_test.go"): common}
    for fn in d["files"]:
        rep[os.path.join(pkgdir, fn)] = os.path.join(srcdir, fn)
    ov = os.path.join(workdir, "overlay.json")
    json.dump({"Replace": rep}, open(ov, "w"), indent=1)
    return ov, moddir


def ext_module_ready(pkg=None):
    """The ext harness module lives in /verif/drivers/ext and `replace`s grpc to /repo.
    Each ext test package gets a generated copy of the common driver code."""
    ext = os.path.join(VERIF, "drivers", "ext")
    if RUNTAG:
        alt = os.path.join(BUILD, "ext" + RUNTAG)
        subprocess.run(["rsync", "-a", "--delete", "--exclude", "go.mod", "--exclude", "go.sum", ext + "/", alt + "/"], check=True)
        ext = alt
    if pkg:
        pdir = os.path.join(ext, pkg)
        pkgname = None
        for fn in sorted(os.listdir(pdir)):
            if fn.endswith("_test.go") and fn != "zz_verif_common_test.go":
                for line in open(os.path.join(pdir, fn)):
                    m = re.match(r"^package\s+(\w+)", line)
                    if m:
                        pkgname = m.group(1)
                        break
            if pkgname:
                break
        tmpl = open(os.path.join(VERIF, "drivers", "common", "zz_verif_common_test.go.tmpl")).read()
        body = tmpl.replace("package PKGNAME", "package " + pkgname)
        cp = os.path.join(pdir, "zz_verif_common_test.go")
        if not os.path.exists(cp) or open(cp).read() != body:
            open(cp, "w").write(body)
    # go.mod is generated from /repo/go.mod so that the harness resolves exactly the
    # dependency versions the repository pins (all are in the offline module cache)
    rm = open(os.path.join(REPO, "go.mod")).read()
    rm = re.sub(r"(?m)^module\s+\S+", "module google.golang.org/grpc/verifharness", rm, count=1)
    rm += "\nrequire google.golang.org/grpc v0.0.0\n\nreplace google.golang.org/grpc => %s\n" % REPO
    gm = os.path.join(ext, "go.mod")
    if not os.path.exists(gm) or open(gm).read() != rm:
        open(gm, "w").write(rm)
    gosum = os.path.join(ext, "go.sum")
    src = os.path.join(REPO, "go.sum")
    if os.path.exists(src):
        if not os.path.exists(gosum) or open(gosum).read() != open(src).read():
            shutil.copyfile(src, gosum)
    return ext


def run_driver(spec, workdir, tier, seed, replay=None, cases=None, out_name="cases.jsonl"):
    d = spec["driver"]
    out = os.path.join(workdir, out_name)
    if os.path.exists(out):
        os.remove(out)
    env = goenv()
    env.update({"VERIF_OUT": out, "VERIF_SEED": str(seed), "VERIF_TIER": tier})
    env.pop("VERIF_REPLAY", None)
    env.pop("VERIF_CASES", None)
    if replay:
        env["VERIF_REPLAY"] = replay
    if cases:
        env["VERIF_CASES"] = str(cases)
    for k, v in d.get("env", {}).items():
        env[k] = v
    to = str(d.get("timeout_s", 900 if tier == "quick" else 3600))
    if d["kind"] == "inpkg":
        ov, moddir = build_overlay(spec, workdir)
        cmd = ["go", "test", "-tags", "verif", "-overlay", ov, "-run", "^%s$" % d["test"], "-count=1",
               "-vet=off", "-timeout", to + "s", "./" + d["pkg"]]
        cwd = moddir
    else:
        cwd = ext_module_ready(d["pkg"])
        cmd = ["go", "test", "-tags", "verif", "-run", "^%s$" % d["test"], "-count=1", "-vet=off",
               "-timeout", to + "s", "./" + d["pkg"]]
    if tier == "thorough" and d.get("race"):
        cmd.insert(2, "-race")
    t0 = time.time()
    r = subprocess.run(cmd, cwd=cwd, env=env, stdout=subprocess.PIPE, stderr=subprocess.STDOUT, text=True)
    dt = time.time() - t0
    res = {"cmd": " ".join(cmd), "cwd": cwd, "rc": r.returncode, "output": r.stdout[-6000:], "wall_s": dt,
           "out": out, "build_failed": False, "cases": []}
    if r.returncode != 0 and ("[build failed]" in r.stdout or "[setup failed]" in r.stdout):
        res["build_failed"] = True
        return res
    res["crashed_case"] = None
    if os.path.exists(out):
        pending = None
        with open(out) as f:
            for line in f:
                line = line.strip()
                if line:
                    try:
                        c = json.loads(line)
                    except json.JSONDecodeError:
                        continue  # truncated last line after a crash
                    if c.get("pending"):
                        pending = c
                    else:
                        res["cases"].append(c)
                        if pending is not None and pending.get("idx") == c.get("idx"):
                            pending = None
        res["crashed_case"] = pending  # announced but never completed: the process died in it
    return res


# ---------------------------------------------------------------- Coq evaluation of cases

def zlit(x):
    return str(x) if x >= 0 else "(%d)" % x


def wlit(w):
    return "[" + ";".join(zlit(x) for x in w) + "]"


def case_lit(c):
    return "mkcase %s [%s] [%s]" % (wlit(c["cfg"]), ";".join(wlit(o) for o in c["ops"]),
                                    ";".join(wlit(o) for o in c["obs"]))


def case_ints(c):
    return len(c["cfg"]) + sum(len(o) + 1 for o in c["ops"]) + sum(len(o) + 1 for o in c["obs"]) + 3


def eval_shard(args):
    spec, workdir, k, idxs, cases = args
    fn = os.path.join(workdir, "cases_%s_%d.v" % (spec["id"], k))
    with open(fn, "w") as f:
        f.write("From Coq Require Import List ZArith.\nImport ListNotations.\n")
        f.write("From VLib Require Import Codec.\nFrom VModel Require Import %s.\nOpen Scope Z_scope.\n" % spec["engine"])
        f.write("Definition cases : list case := [\n")
        f.write(";\n".join(case_lit(cases[i]) for i in idxs))
        f.write("].\n")
        f.write("Definition R := Eval vm_compute in summarize (map %s cases).\nPrint R.\n" % spec["check_fn"])
    r = subprocess.run(["bash", "-c", "ulimit -s unlimited 2>/dev/null; exec timeout 1800 coqc " +
                        " ".join(QFLAGS) + " " + fn],
                       cwd=COQ, stdout=subprocess.PIPE, stderr=subprocess.PIPE, text=True)
    for ext in (".vo", ".vok", ".vos", ".glob"):
        p = fn[:-2] + ext
        if os.path.exists(p):
            os.remove(p)
    aux = os.path.join(workdir, ".cases_%s_%d.aux" % (spec["id"], k))
    if os.path.exists(aux):
        os.remove(aux)
    if r.returncode != 0:
        return {"error": (r.stderr or r.stdout)[-2000:], "file": fn}
    txt = " ".join(r.stdout.split())
    m = re.search(r"R = \((\d+), \[(.*?)\]\) : ", txt)
    if not m:
        return {"error": "unparsable coqc output: " + txt[:500], "file": fn}
    n = int(m.group(1))
    nums = [int(x) for x in re.findall(r"-?\d+", m.group(2))]
    if n != len(idxs) or len(nums) % 4:
        return {"error": "summary mismatch n=%d idxs=%d" % (n, len(idxs)), "file": fn}
    verdicts = []
    for j in range(0, len(nums), 4):
        li, kind, a, b = nums[j:j + 4]
        verdicts.append((idxs[li], kind, a, b))
    return {"verdicts": verdicts}


def eval_cases(spec, workdir, cases, shard_ints=40000, workers=16):
    """Returns dict idx -> list of (kind, a, b) for non-agreeing cases (a case can have several
    false clauses and a correspondence break at once); raises on coq error."""
    shards, cur, cur_n = [], [], 0
    for i, c in enumerate(cases):
        n = case_ints(c)
        if cur and cur_n + n > shard_ints:
            shards.append(cur)
            cur, cur_n = [], 0
        cur.append(i)
        cur_n += n
    if cur:
        shards.append(cur)
    out = {}
    with cf.ThreadPoolExecutor(max_workers=workers) as ex:
        for res in ex.map(eval_shard, [(spec, workdir, k, idxs, cases) for k, idxs in enumerate(shards)]):
            if "error" in res:
                raise RuntimeError("coqc failed on generated cases (%s): %s" % (res["file"], res["error"]))
            for (i, kind, a, b) in res["verdicts"]:
                out.setdefault(i, []).append((kind, a, b))
    return out


# ---------------------------------------------------------------- findings

def load_known():
    p = os.path.join(VERIF, "findings", "known_findings.json")
    if not os.path.exists(p):
        return []
    return json.load(open(p))


def known_match(known, pid, kind, clause):
    """A finding is matched by property + the narrow clause id the engine assigns
    to exactly that witness class (see DESIGN.md A.5); `fixed` entries suppress nothing."""
    if kind != 2:
        return None
    for k in known:
        if k.get("property") == pid and k.get("status", "open") == "open" and clause in k.get("clauses", []):
            return k
    return None


# ---------------------------------------------------------------- shrinking

def shrink(spec, workdir, tier, seed, case, target, rounds=8):
    """Delta-debug the op list of a failing case: keep the shortest list on which the
    implementation (re-executed through the driver) still yields the same verdict kind/clause."""
    kind, clause = target
    best = case
    for rnd in range(rounds):
        ops = best["ops"]
        n = len(ops)
        if n <= 1:
            break
        cands = []
        chunk = max(1, n // 2)
        while chunk >= 1 and len(cands) < 24:
            for s in range(0, n, chunk):
                c = ops[:s] + ops[s + chunk:]
                if c and len(cands) < 24:
                    cands.append(c)
            if chunk == 1:
                break
            chunk //= 2
        rp = os.path.join(workdir, "shrink_in.jsonl")
        with open(rp, "w") as f:
            for c in cands:
                f.write(json.dumps({"cfg": best["cfg"], "ops": c}) + "\n")
        res = run_driver(spec, workdir, tier, seed, replay=rp, out_name="shrink_out.jsonl")
        if res["build_failed"] or not res["cases"]:
            break
        try:
            v = eval_cases(spec, workdir, res["cases"])
        except RuntimeError:
            break
        good = [res["cases"][i] for i, vs in v.items()
                if any(k == kind and (kind != 2 or a == clause) for (k, a, b) in vs)]
        if not good:
            break
        nb = min(good, key=lambda c: len(c["ops"]))
        if len(nb["ops"]) >= len(best["ops"]):
            break
        best = nb
    return best


# ---------------------------------------------------------------- main

def case_hash(c):
    return hashlib.sha1(json.dumps([c["cfg"], c["ops"]], separators=(",", ":")).encode()).hexdigest()


def write_replay(pid, name, payload):
    d = os.path.join(BUILD, "replay", pid + RUNTAG)
    os.makedirs(d, exist_ok=True)
    p = os.path.join(d, name)
    json.dump(payload, open(p, "w"), indent=1)
    return p


def sample_of(c, maxops=6):
    return {"cfg": c["cfg"][:40], "ops": [o[:24] for o in c["ops"][:maxops]],
            "obs": [o[:24] for o in c["obs"][:maxops]], "n_ops": len(c["ops"])}


def main():
    ap = argparse.ArgumentParser()
    ap.add_argument("pid")
    ap.add_argument("--tier", default=os.environ.get("VERIF_TIER", "quick"))
    ap.add_argument("--replay")
    ap.add_argument("--keep", action="store_true")
    ap.add_argument("--no-evidence", action="store_true")
    a = ap.parse_args()
    pid, tier = a.pid, a.tier
    if tier not in ("quick", "thorough"):
        tier = "quick"
    try:
        seed = int(os.environ.get("VERIF_SEED", "1"))
    except ValueError:
        seed = 1
    t0 = time.time()
    spec = load_spec(pid)
    workdir = os.path.join(BUILD, "run", pid + RUNTAG + ("_replay" if a.replay else ""))
    shutil.rmtree(workdir, ignore_errors=True)
    os.makedirs(workdir, exist_ok=True)

    ok, err = ensure_coq_built(spec)
    if not ok:
        log("INFRASTRUCTURE: the Coq development does not build:\n" + err)
        return 2
    props = check_props(spec)
    violations = []   # (replay_path, suffix, description)
    known_lines = []
    chk = None
    if tier == "thorough" and props["ok"] and not a.replay:
        chk = run_coqchk(spec)
        if not chk["ok"]:
            props = dict(props, ok=False, error="coqchk rejects the compiled development: " + chk["output"][-500:])

    if not props["ok"]:
        # a theorem of this property no longer checks (cannot be caused by /repo; kept for the contract)
        p = write_replay(pid, "proof_broken.json", {"property": pid, "broken": "props/%s.v" % pid,
                                                     "error": props["error"]})
        violations.append((p, " no-failing-input-found", "proof obligation does not check: " + props["error"][:300]))

    # ---- driver
    replay_cases = None
    if a.replay:
        rp = json.load(open(a.replay))
        rc = rp.get("case") or rp
        rfile = os.path.join(workdir, "replay_in.jsonl")
        open(rfile, "w").write(json.dumps({"cfg": rc["cfg"], "ops": rc["ops"]}) + "\n")
        replay_cases = rfile
    corpus_dir = os.path.join(VERIF, "corpus", pid)
    res = run_driver(spec, workdir, tier, seed, replay=replay_cases)
    cases = res["cases"]
    # corpus of minimised past failures runs too
    if not a.replay and os.path.isdir(corpus_dir) and not res["build_failed"]:
        cfile = os.path.join(workdir, "corpus_in.jsonl")
        n = 0
        with open(cfile, "w") as f:
            for fn in sorted(os.listdir(corpus_dir)):
                if fn.endswith(".json"):
                    c = json.load(open(os.path.join(corpus_dir, fn)))
                    c = c.get("case") or c
                    f.write(json.dumps({"cfg": c["cfg"], "ops": c["ops"]}) + "\n")
                    n += 1
        if n:
            r2 = run_driver(spec, workdir, tier, seed, replay=cfile, out_name="corpus_out.jsonl")
            cases = r2["cases"] + cases

    verdicts = {}
    driver_problem = None
    if res["build_failed"]:
        driver_problem = "driver does not build against the working tree"
    elif res["rc"] != 0 and not cases:
        driver_problem = "driver failed before recording any case"
    elif res["rc"] != 0:
        driver_problem = "driver exited non-zero (crash, deadlock or timeout inside the implementation)"
    if driver_problem and not cases and not res.get("crashed_case"):
        p = write_replay(pid, "driver_broken.json", {"property": pid, "broken": "corr:" + spec["engine"],
                                                      "problem": driver_problem, "cmd": res["cmd"],
                                                      "output": res["output"]})
        violations.append((p, " no-failing-input-found", driver_problem))
    panics = [c for c in cases if c.get("panic")]
    if cases:
        try:
            verdicts = eval_cases(spec, workdir, cases)
        except RuntimeError as e:
            log("INFRASTRUCTURE: " + str(e))
            return 2
    if driver_problem and (cases or res.get("crashed_case")):
        p = write_replay(pid, "driver_crash.json", {"property": pid, "broken": "corr:" + spec["engine"],
                                                     "failure": driver_problem + " while executing the case below",
                                                     "cmd": res["cmd"], "output": res["output"],
                                                     "case": res.get("crashed_case") or cases[-1]})
        violations.append((p, "" if res.get("crashed_case") else " no-failing-input-found", driver_problem))

    known = load_known()
    bad = [i for i, vs in verdicts.items() if any(k == 3 for (k, _, _) in vs)]
    if bad:
        log("INFRASTRUCTURE: BadCase verdicts (harness/codec bug) for cases %s" % bad[:5])
        write_replay(pid, "badcase.json", {"case": cases[bad[0]]})
        return 2

    propfails = sorted((i, a_, b_) for i, vs in verdicts.items() for (k, a_, b_) in vs if k == 2)
    disagrees = sorted((i, a_) for i, vs in verdicts.items() for (k, a_, b_) in vs if k == 1)
    known_hits = {}
    unlisted = []
    for (i, clause, aux) in propfails:
        km = known_match(known, pid, 2, clause)
        if km:
            known_hits.setdefault(km["id"], []).append(i)
        else:
            unlisted.append((i, clause, aux))
    for kid, idxs in known_hits.items():
        k = [x for x in known if x["id"] == kid][0]
        known_lines.append("KNOWN-FINDING: property=%s %s (%d case(s) this run, e.g. case %d)" %
                           (pid, k["text"], len(idxs), cases[idxs[0]]["idx"]))
    for c in panics:
        p = write_replay(pid, "panic_%d.json" % c["idx"], {"property": pid, "engine": spec["engine"],
                                                           "failure": "panic in implementation: " + c["panic"],
                                                           "seed": seed, "tier": tier, "case": c})
        violations.append((p, "", "panic: " + c["panic"][:200]))
    if unlisted:
        i, clause, aux = unlisted[0]
        small = cases[i]
        if not a.replay:
            small = shrink(spec, workdir, tier, seed, cases[i], (2, clause))
        p = write_replay(pid, "propfail_clause%d.json" % clause,
                         {"property": pid, "engine": spec["engine"], "failure": "property clause %d false on the "
                          "implementation's own trace (aux=%d): %s" % (clause, aux, spec.get("clauses", {}).get(str(clause), "")),
                          "seed": seed, "tier": tier, "case": small, "original_ops": len(cases[i]["ops"])})
        violations.append((p, "", "clause %d fails on implementation trace" % clause))
    elif disagrees and not violations:
        # the model no longer describes the code: search for a concrete failing input
        found = None
        if not a.replay:
            sres = run_driver(spec, workdir, "search", seed + 7919, out_name="search.jsonl")
            if sres["cases"]:
                try:
                    sv = eval_cases(spec, workdir, sres["cases"])
                    for j, vs in sorted(sv.items()):
                        for (k, cl, aux) in vs:
                            if k == 2 and not known_match(known, pid, 2, cl):
                                found = (sres["cases"][j], cl, aux)
                                break
                        if found:
                            break
                except RuntimeError:
                    pass
        if found:
            c, cl, aux = found
            small = shrink(spec, workdir, tier, seed, c, (2, cl))
            p = write_replay(pid, "propfail_clause%d.json" % cl,
                             {"property": pid, "engine": spec["engine"], "failure": "property clause %d false on the "
                              "implementation's own trace (found by search after a correspondence break)" % cl,
                              "seed": seed + 7919, "tier": "search", "case": small})
            violations.append((p, "", "clause %d fails (search)" % cl))
        else:
            i, at = disagrees[0]
            small = cases[i] if a.replay else shrink(spec, workdir, tier, seed, cases[i], (1, 0))
            p = write_replay(pid, "corr_break.json",
                             {"property": pid, "broken": "corr:" + spec["engine"],
                              "failure": "model and implementation differ (first differing observation index %d); "
                                         "theorems of props/%s.v are about the model and no longer cover this code" % (at, pid),
                              "seed": seed, "tier": tier, "case": small, "n_disagreeing_cases": len(disagrees)})
            violations.append((p, " no-failing-input-found", "correspondence broken"))

    # ---- evidence
    seen, distinct_nt = set(), 0
    for c in cases:
        h = case_hash(c)
        if h not in seen:
            seen.add(h)
            if c.get("nontrivial"):
                distinct_nt += 1
    hist = {}
    for c in cases:
        for o in c["ops"]:
            k = str(o[0]) if o else "empty"
            hist[k] = hist.get(k, 0) + 1
    tags = {}
    for c in cases:
        for t in c.get("tags") or []:
            tags[t] = tags.get(t, 0) + 1
    nth = len(props.get("theorems", []))
    wall = time.time() - t0
    ev = {
        "property_id": pid, "tier": tier, "seed": seed, "level": "proof",
        "coverage": {
            "obligations": nth, "discharged": nth if props["ok"] else 0,
            "checker_cmd": "make -C coq -f Makefile.coq (full .vo build) && coqc %s props/%s.v" % (" ".join(QFLAGS), pid),
            "trusted_base": ["Coq 8.16.1 kernel + vm_compute", "axioms reported by Print Assumptions: " +
                             (", ".join(props.get("axioms", [])) or "none (closed under the global context)"),
                             "hand-written model coq/model/%s.v tied to /repo by the correspondence run of this check" % spec["engine"],
                             "Go driver " + ", ".join(spec["driver"]["files"]), "tools/runner.py"] + spec.get("trusted_extra", []),
            "theorems": props.get("theorems", []),
            "evaluations": len(cases), "distinct_nontrivial": distinct_nt,
            "rule": spec.get("nontrivial_rule", ""),
            "samples": [sample_of(c) for c in cases[:2]] or [{"note": "no case recorded"}],
            "traces_validated_against_impl": len(cases) - len(disagrees),
            "disagreements": len(disagrees), "property_failures_on_impl": len(propfails),
            "known_findings_hit": {k: len(v) for k, v in known_hits.items()},
            "op_histogram": hist, "tag_histogram": tags,
            "total_ops": sum(len(c["ops"]) for c in cases),
            "driver_cmd": res["cmd"], "driver_wall_s": round(res["wall_s"], 2),
            "coqchk": ({"ran": True, "axioms": chk.get("axioms", []), "ok": chk["ok"]} if chk else {"ran": False}),
        },
        "assumptions": spec.get("assumptions", []),
        "wall_s": round(wall, 2), "violations": len(violations),
    }
    if not a.no_evidence and not a.replay and not RUNTAG:
        os.makedirs(os.path.join(VERIF, "evidence"), exist_ok=True)
        json.dump(ev, open(os.path.join(VERIF, "evidence", pid + ".json"), "w"), indent=1)

    for l in known_lines:
        print(l)
    if a.replay and cases:
        print(json.dumps({"replayed_case": sample_of(cases[0], 50), "verdict": verdicts.get(0, "agree")}, indent=1))
    if violations:
        p, suffix, desc = violations[0]
        log("check %s: %s" % (pid, desc))
        print("VIOLATION property=%s replay=%s%s" % (pid, p, suffix))
        return 1
    log("check %s ok: %d cases, %d non-trivial, %d theorems, %.1fs" % (pid, len(cases), distinct_nt, nth, wall))
    if not a.keep:
        shutil.rmtree(workdir, ignore_errors=True)
    return 0


if __name__ == "__main__":
    sys.exit(main())
