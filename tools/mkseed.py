#!/usr/bin/env python3
"""tools/mkseed.py Cxx [n] : create scratch worktree /tmp/seed/Cxx and prompt file /tmp/seed/prompt_Cxx.txt"""
import json, os, subprocess, sys
pid = sys.argv[1]; n = sys.argv[2] if len(sys.argv) > 2 else "3"
t = open('/verif/tools/seed_prompt.txt').read()
os.makedirs('/tmp/seed/out', exist_ok=True)
subprocess.run("git -C /repo worktree remove --force /tmp/seed/%s 2>/dev/null; git -C /repo worktree prune; git -C /repo worktree add --detach /tmp/seed/%s" % (pid, pid), shell=True, stdout=subprocess.DEVNULL, stderr=subprocess.DEVNULL)
for l in open('/verif/properties.jsonl'):
    p = json.loads(l)
    if p['id'] == pid:
        s = (t.replace('__WT__', '/tmp/seed/' + pid).replace('__ID__', pid).replace('__TITLE__', p['title'])
             .replace('__STATEMENT__', p['statement']).replace('__QUANT__', p['quantifier']['text'])
             .replace('__FILES__', ', '.join(p['anchors']['files'])).replace('__N__', n))
        open('/tmp/seed/prompt_%s.txt' % pid, 'w').write(s)
        print("ok", pid)
