#!/usr/bin/env python3
"""tools/commit_engine.py Cxx [Cyy ...] -- stage every file the given properties need
(spec, props, Coq closure, driver files), regenerate MANIFEST.json, commit."""
import json, os, subprocess, sys
sys.path.insert(0, os.path.dirname(os.path.abspath(__file__)))
import runner
V = runner.VERIF
files = set()
for pid in sys.argv[1:]:
    s = runner.load_spec(pid)
    files.add("spec/%s.json" % pid)
    for rel in runner.closure(runner.spec_targets(s)):
        files.add("coq/" + rel)
    d = s["driver"]
    if d["kind"] == "inpkg":
        for f in d["files"]:
            files.add(os.path.join("drivers/inpkg", d.get("module_dir", ""), d["pkg"], f))
    else:
        ext = os.path.join("drivers/ext", d["pkg"])
        for fn in os.listdir(os.path.join(V, ext)):
            if fn != "zz_verif_common_test.go":
                files.add(os.path.join(ext, fn))
    ev = "evidence/%s.json" % pid
    if os.path.exists(os.path.join(V, ev)):
        files.add(ev)
subprocess.run(["git", "add", "--"] + sorted(files) + ["findings/known_findings.json"], cwd=V, check=True)
subprocess.run([sys.executable, "tools/gen_manifest.py"], cwd=V, check=True)
subprocess.run(["git", "add", "MANIFEST.json", "tools"], cwd=V, check=True)
subprocess.run(["git", "commit", "-q", "-m", "engines: " + " ".join(sys.argv[1:])], cwd=V, check=True)
print("committed", len(files), "files")
