(* Generic case encoding shared by every engine (DESIGN.md A.1).
   An operation / observation is a [word] = list Z; a case is what the Go
   driver recorded from the implementation: configuration, operations, and
   the implementation's observations.  No proofs in this file. *)
From Coq Require Import List ZArith Bool.
Import ListNotations.
Open Scope Z_scope.

Definition word := list Z.
Record case := mkcase { c_cfg : word; c_ops : list word; c_obs : list word }.

(* Disagree i      : model and implementation differ first at observation i
   PropFail cl i   : clause cl of the property is false on the implementation's
                     own trace (i = position/aux information)
   BadCase         : the case does not decode (harness bug, never a verdict on /repo) *)
Inductive verdict := Agree | Disagree (i : Z) | PropFail (clause : Z) (i : Z) | BadCase
  | Many (fails : list (Z * Z)) (dis : option Z).
(* Many fs d : several things are wrong with one case: every false clause (first occurrence
   of each clause id, with its aux) and the first differing observation, if any.  Reporting
   all of them keeps a known finding's clause from hiding another clause's failure or a
   correspondence break in the same case. *)

Fixpoint word_eqb (a b : word) : bool :=
  match a, b with
  | [], [] => true
  | x :: a', y :: b' => Z.eqb x y && word_eqb a' b'
  | _, _ => false
  end.

Fixpoint words_eqb (a b : list word) : bool :=
  match a, b with
  | [], [] => true
  | x :: a', y :: b' => word_eqb x y && words_eqb a' b'
  | _, _ => false
  end.

(* index of the first differing observation, None when equal *)
Fixpoint first_diff_from (i : Z) (a b : list word) : option Z :=
  match a, b with
  | [], [] => None
  | x :: a', y :: b' => if word_eqb x y then first_diff_from (i + 1) a' b' else Some i
  | _, _ => Some i
  end.
Definition first_diff := first_diff_from 0.

(* first false clause in a list of (clause id, aux, ok) *)
Fixpoint first_fail (l : list (Z * Z * bool)) : option (Z * Z) :=
  match l with
  | [] => None
  | (c, i, ok) :: l' => if ok then first_fail l' else Some (c, i)
  end.

(* every false clause, first occurrence per clause id *)
Fixpoint seen_clause (c : Z) (l : list (Z * Z)) : bool :=
  match l with
  | [] => false
  | (c', _) :: r => Z.eqb c c' || seen_clause c r
  end.
Fixpoint all_fails_acc (acc : list (Z * Z)) (l : list (Z * Z * bool)) : list (Z * Z) :=
  match l with
  | [] => rev acc
  | (c, i, ok) :: r => if ok then all_fails_acc acc r
                       else if seen_clause c acc then all_fails_acc acc r
                       else all_fails_acc ((c, i) :: acc) r
  end.
Definition all_fails := all_fails_acc [].

(* Standard verdict: the property on the implementation trace (every false clause) and
   correspondence (first differing observation), both reported. *)
Definition decide (model_obs : option (list word)) (impl_obs : list word)
           (clauses : list (Z * Z * bool)) : verdict :=
  let fs := all_fails clauses in
  match model_obs with
  | None => match fs with [] => BadCase | [(c, i)] => PropFail c i | _ => Many fs None end
  | Some m =>
    match fs, first_diff m impl_obs with
    | [], None => Agree
    | [], Some i => Disagree i
    | [(c, i)], None => PropFail c i
    | _, d => Many fs d
    end
  end.

(* (index, kind, a, b): kind 1 = Disagree, 2 = PropFail, 3 = BadCase *)
Fixpoint summarize_from (i : Z) (vs : list verdict) : list (Z * Z * Z * Z) :=
  match vs with
  | [] => []
  | Agree :: r => summarize_from (i + 1) r
  | Disagree k :: r => (i, 1, k, 0) :: summarize_from (i + 1) r
  | PropFail c k :: r => (i, 2, c, k) :: summarize_from (i + 1) r
  | BadCase :: r => (i, 3, 0, 0) :: summarize_from (i + 1) r
  | Many fs d :: r =>
    map (fun f => (i, 2, fst f, snd f)) fs ++
    match d with Some k => [(i, 1, k, 0)] | None => [] end ++ summarize_from (i + 1) r
  end.
Definition summarize (vs : list verdict) : Z * list (Z * Z * Z * Z) :=
  (Z.of_nat (length vs), summarize_from 0 vs).

(* byte strings travel as [len; b0; ...; b(len-1)] inside a word *)
Fixpoint take_n (n : nat) (l : list Z) : option (list Z * list Z) :=
  match n with
  | O => Some ([], l)
  | S n' => match l with
            | [] => None
            | x :: l' => match take_n n' l' with
                         | Some (a, r) => Some (x :: a, r)
                         | None => None
                         end
            end
  end.
Definition get_bytes (l : list Z) : option (list Z * list Z) :=
  match l with
  | [] => None
  | n :: r => if n <? 0 then None else take_n (Z.to_nat n) r
  end.
Definition put_bytes (b : list Z) : list Z := Z.of_nat (length b) :: b.

Definition b2z (b : bool) : Z := if b then 1 else 0.
Definition z2b (z : Z) : bool := negb (z =? 0).
