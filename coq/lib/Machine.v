(* Machine integers over Z: explicit wrap-around (DESIGN.md §4). *)
From Coq Require Import ZArith.
Open Scope Z_scope.

Definition u8  (x : Z) : Z := x mod 2^8.
Definition u32 (x : Z) : Z := x mod 2^32.
Definition u64 (x : Z) : Z := x mod 2^64.
Definition i32 (x : Z) : Z := (x + 2^31) mod 2^32 - 2^31.
Definition i64 (x : Z) : Z := (x + 2^63) mod 2^64 - 2^63.

Definition max_i64 : Z := 2^63 - 1.
Definition min_i64 : Z := - 2^63.
Definition max_u32 : Z := 2^32 - 1.
Definition max_i32 : Z := 2^31 - 1.

Definition in_i64 (x : Z) : bool := (min_i64 <=? x) && (x <=? max_i64).
Definition in_u32 (x : Z) : bool := (0 <=? x) && (x <=? max_u32).
Definition in_i32 (x : Z) : bool := (- 2^31 <=? x) && (x <=? max_i32).

(* Go's truncated division and remainder on signed integers *)
Definition goquot (a b : Z) : Z := Z.quot a b.
Definition gorem (a b : Z) : Z := Z.rem a b.
