(* Proofs for C15 (model/Keepalive.v). *)
From Coq Require Import List ZArith Bool Lia.
From VLib Require Import Codec Machine.
From VModel Require Import Keepalive.
Import ListNotations.
Open Scope Z_scope.

Definition cfg_ok (c : kcfg) : Prop := 0 < kc_time c /\ 0 < kc_timeout c.

(* ================= Part A: the loop ================= *)
Record kinv (c : kcfg) (s : kst) : Prop := {
  i_left : 0 <= k_left s;
  i_timer : k_closed s = false -> k_dorm s = false -> k_prev s + kc_time c <= k_timer s /\ k_now s <= k_timer s;
  i_out : k_out s = true -> k_prev s + kc_time c <= k_ping s /\ k_timer s + k_left s = k_ping s + kc_timeout c;
  i_dorm : k_dorm s = true -> k_prev s + kc_time c <= k_now s /\ k_out s = false;
  i_closed : k_closed s = true -> k_last s <= k_prev s /\ k_prev s + kc_time c + kc_timeout c <= k_timer s /\
                                 k_out s = true /\ k_left s = 0 }.

Lemma kinv_init c : cfg_ok c -> kinv c (kinit c).
Proof. intros [A B]. constructor; cbn; intros; try discriminate; try lia. Qed.

Lemma ping_inv c s t : cfg_ok c -> kinv c s -> k_closed s = false ->
  k_prev s + kc_time c <= t -> (k_out s = true -> t = k_timer s) ->
  kinv c (fst (ping_and_sleep c s t)).
Proof.
  intros [Ct Co] I Cl Ht Hout. unfold ping_and_sleep. cbn [fst].
  destruct (k_out s) eqn:O; cbn [negb].
  - (* ping still outstanding: only the timer is re-armed *)
    destruct (i_out _ _ I O) as [P1 P2]. pose proof (i_left _ _ I). specialize (Hout eq_refl). subst t.
    constructor; cbn; intros; try discriminate; try lia.
  - constructor; cbn; intros; try discriminate; try lia.
Qed.

Lemma fire_inv c s : cfg_ok c -> kinv c s -> k_closed s = false -> k_dorm s = false ->
  kinv c (fst (fire c s)).
Proof.
  intros C I Cl D. pose proof C as [Ct Co]. unfold fire.
  pose proof (i_left _ _ I) as L. pose proof (i_timer _ _ I Cl D) as [T T'].
  destruct (Z.ltb_spec (k_prev s) (k_last s)).
  - constructor; cbn; intros; try discriminate; try lia.
  - destruct (k_out s && (k_left s <=? 0)) eqn:E.
    + apply andb_true_iff in E as [O E]. apply Z.leb_le in E. destruct (i_out _ _ I O) as [P1 P2].
      constructor; cbn; intros; try discriminate; try lia; try (repeat split; auto; lia).
    + destruct ((k_streams s <? 1) && negb (kc_permit c)).
      * constructor; cbn; intros; try discriminate; try lia; try (split; [lia|reflexivity]).
      * apply ping_inv; auto.
Qed.

Lemma closed_frozen_adv fuel c s target : k_closed s = true ->
  let s' := fst (advance fuel c s target) in
  k_closed s' = true /\ k_last s' = k_last s /\ k_prev s' = k_prev s /\ k_timer s' = k_timer s /\
  k_ping s' = k_ping s /\ k_out s' = k_out s /\ k_left s' = k_left s /\ k_dorm s' = k_dorm s /\
  snd (advance fuel c s target) = [].
Proof. intros H. destruct fuel; cbn; [auto 10|]. rewrite H. cbn. auto 10. Qed.

(* the checker that the clauses run over the events of one op: a close event must come more than
   Time after the last read (lv) and exactly Timeout after the last ping (p) *)
Fixpoint chk (c : kcfg) (lv p : Z) (l : list (Z * Z)) : bool * Z :=
  match l with
  | [] => (true, p)
  | (tg, v) :: r =>
    if tg =? 6 then chk c lv v r
    else if tg =? 8 then
      let '(b, p') := chk c lv p r in ((lv + kc_time c <? v) && (v =? p + kc_timeout c) && b, p')
    else chk c lv p r
  end.
Lemma chk_app c lv p a b : chk c lv p (a ++ b) =
  let '(b1, p1) := chk c lv p a in let '(b2, p2) := chk c lv p1 b in (b1 && b2, p2).
Proof.
  revert p. induction a as [|[tg v] a IH]; intros p; cbn [app chk].
  - destruct (chk c lv p b). reflexivity.
  - destruct (tg =? 6); [apply IH|]. destruct (tg =? 8); [|apply IH].
    rewrite IH. destruct (chk c lv p a) as [b1 p1]. destruct (chk c lv p1 b) as [b2 p2].
    rewrite <- !andb_assoc. reflexivity.
Qed.


Lemma fire_shape c s : k_closed s = false -> k_dorm s = false ->
  k_now (fst (fire c s)) = k_timer s /\
  (snd (fire c s) = [] /\ k_ping (fst (fire c s)) = k_ping s /\ k_closed (fst (fire c s)) = false
   \/ snd (fire c s) = [(6, k_timer s)] /\ k_ping (fst (fire c s)) = k_timer s /\ k_closed (fst (fire c s)) = false
   \/ snd (fire c s) = [(8, k_timer s)] /\ k_ping (fst (fire c s)) = k_ping s /\ k_closed (fst (fire c s)) = true
      /\ k_timer (fst (fire c s)) = k_timer s).
Proof.
  intros _ _. unfold fire. destruct (k_prev s <? k_last s); [cbn; auto 10|].
  destruct (k_out s && (k_left s <=? 0)); [cbn; auto 10|].
  destruct ((k_streams s <? 1) && negb (kc_permit c)); [cbn; auto 10|].
  unfold ping_and_sleep. destruct (k_out s); cbn; auto 10.
Qed.

Lemma advance_ok fuel c : cfg_ok c -> forall s target, kinv c s -> k_now s <= target ->
  let r := advance fuel c s target in
  kinv c (fst r) /\ (k_now s <= k_now (fst r)) /\
  forall lv, (k_closed (fst r) = true -> lv = k_last (fst r)) -> chk c lv (k_ping s) (snd r) = (true, k_ping (fst r)).
Proof.
  intros C. induction fuel as [|f IH]; intros s target I Hn; cbv zeta; cbn [advance].
  - cbn. split; [exact I|]. split; [lia|]. intros; reflexivity.
  - destruct (k_closed s || k_dorm s || (target <=? k_timer s)) eqn:E.
    + cbn [fst snd chk]. split; [|split; [cbn; lia|intros; reflexivity]].
      apply orb_true_iff in E.
      destruct I as [A B D F G]. constructor; cbn; auto.
      * intros H1 H2. destruct (B H1 H2) as [B1 B2]. split; [exact B1|].
        destruct E as [E|E]; [rewrite H1, H2 in E; discriminate|]. apply Z.leb_le in E. exact E.
      * intros H. destruct (F H). split; [lia|auto].
    + apply orb_false_iff in E as [E E3]. apply orb_false_iff in E as [E1 E2].
      pose proof (fire_inv c s C I E1 E2) as I1.
      destruct (fire_shape c s E1 E2) as [Hnow Hf].
      destruct (i_timer _ _ I E1 E2) as [_ Hnt].
      destruct (fire c s) as [s1 e1]. cbn [fst snd] in *.
      assert (Hn1 : k_now s1 <= target).
      { rewrite Hnow. destruct (Z.leb_spec target (k_timer s)); [discriminate|lia]. }
      specialize (IH s1 target I1 Hn1). cbv zeta in IH. destruct IH as (IH1 & IH2 & IH3).
      pose proof (closed_frozen_adv f c s1 target) as Fz.
      destruct (advance f c s1 target) as [s2 e2]. cbn [fst snd] in *.
      split; [exact IH1|]. split; [lia|].
      intros lv Hlv. rewrite chk_app.
      destruct Hf as [(-> & Hp & _)|[(-> & Hp & _)|(-> & Hp & Hc & Ht)]].
      * cbn [chk]. rewrite <- Hp. rewrite (IH3 lv Hlv). reflexivity.
      * cbn [chk Z.eqb Pos.eqb]. rewrite <- Hp. rewrite (IH3 lv Hlv). reflexivity.
      * cbn [chk Z.eqb Pos.eqb].
        destruct (Fz Hc) as (F1 & F2 & F3 & F4 & F5 & F6 & F7 & F8 & F9). subst e2. cbn [chk].
        rewrite (Hlv F1), F2, F5, Hp.
        destruct (i_closed _ _ I1 Hc) as (G1 & G2 & G3 & G4). destruct (i_out _ _ I1 G3) as [P1 P2].
        destruct C as [Ct Co]. rewrite Ht in *.
        destruct (Z.ltb_spec (k_last s1 + kc_time c) (k_timer s)); [|lia].
        destruct (Z.eqb_spec (k_timer s) (k_ping s + kc_timeout c)); [reflexivity|lia].
Qed.

Ltac act_fin := cbn; split; [reflexivity|]; split; [intros; discriminate|]; split;
  [first [left; split; reflexivity | right; split; reflexivity]|first [reflexivity|assumption]].

Lemma act_ok c s o : cfg_ok c -> kinv c s ->
  let r := act c s o in
  kinv c (fst r) /\ k_now (fst r) = k_now s /\
  (k_closed s = true -> fst r = s /\ snd r = []) /\
  (snd r = [] /\ k_ping (fst r) = k_ping s \/ snd r = [(6, k_now s)] /\ k_ping (fst r) = k_now s) /\
  k_closed (fst r) = k_closed s.
Proof.
  intros C I. cbv zeta. unfold act. destruct (k_closed s) eqn:Cl; [cbn; auto 10|].
  assert (Same : forall l st ak, kinv c (mkk (k_now s) l (k_prev s) (k_out s) (k_left s) (k_timer s) (k_dorm s) st false ak (k_ping s))).
  { intros l st ak. destruct I as [A B D F G]. rewrite Cl in *. constructor; cbn; auto. intros; discriminate. }
  destruct o; cbn [fst snd].
  - split; [exact I|]. act_fin.
  - split; [apply Same|]. act_fin.
  - destruct (k_dorm s) eqn:Dm.
    + destruct (i_dorm _ _ I Dm) as [D1 D2]. split.
      * apply ping_inv; [exact C | apply Same | reflexivity | cbn; lia | cbn; rewrite D2; intros; discriminate].
      * unfold ping_and_sleep. cbn. rewrite D2. act_fin.
    + split; [apply Same|]. act_fin.
  - destruct (0 <? k_streams s); (split; [first [apply Same|exact I]|act_fin]).
  - split; [apply Same|]. act_fin.
  - split; [apply Same|]. act_fin.
Qed.

Lemma kstep_ok c s x o : cfg_ok c -> 0 <= x -> kinv c s ->
  let r := kstep c s x o in
  kinv c (fst r) /\
  forall lv, (k_closed (fst r) = true -> lv = k_last (fst r)) -> chk c lv (k_ping s) (snd r) = (true, k_ping (fst r)).
Proof.
  intros C Hx I. cbv zeta. unfold kstep.
  destruct (advance_ok (fuel_for c (1000 * x + 1)) c C s (k_now s + (1000 * x + 1)) I ltac:(lia)) as (A1 & A2 & A3).
  destruct (advance (fuel_for c (1000 * x + 1)) c s (k_now s + (1000 * x + 1))) as [s1 e1]. cbn [fst snd] in *.
  destruct (act_ok c s1 o C A1) as (B1 & B2 & B3 & B4 & B5).
  destruct (act c s1 o) as [s2 e2]. cbn [fst snd] in *.
  split; [exact B1|]. intros lv Hlv. rewrite chk_app.
  destruct (k_closed s1) eqn:Cl.
  - destruct (B3 eq_refl) as [-> ->]. rewrite (A3 lv (fun _ => Hlv Cl)). reflexivity.
  - assert (A3' : chk c lv (k_ping s) e1 = (true, k_ping s1)).
    { apply A3. intros; discriminate. }
    rewrite A3'.
    destruct B4 as [(-> & P)|(-> & P)]; cbn [chk Z.eqb Pos.eqb]; rewrite P; reflexivity.
Qed.

(* ---- readable consequences ---- *)
Fixpoint kreach (c : kcfg) (s : kst) (ops : list (Z * kop)) : kst :=
  match ops with [] => s | (x, o) :: r => kreach c (fst (kstep c s x o)) r end.
Definition xs_ok (ops : list (Z * kop)) : Prop := Forall (fun e => 0 <= fst e) ops.

Lemma kinv_reach c ops : cfg_ok c -> forall s, xs_ok ops -> kinv c s -> kinv c (kreach c s ops).
Proof.
  intros C. induction ops as [|[x o] ops IH]; intros s X I; cbn [kreach]; [exact I|].
  inversion X; subst. apply IH; auto. apply (kstep_ok c s x o C H1 I).
Qed.

(* whatever the timeline: a transport closed by keepalive had read nothing during the
   Time + Timeout before the close, and the close came exactly Timeout after the last ping
   (k_timer is the instant of the close) *)
Theorem healthy_never_killed c ops : cfg_ok c -> xs_ok ops ->
  let s := kreach c (kinit c) ops in
  k_closed s = true ->
  k_last s + kc_time c + kc_timeout c <= k_timer s /\ k_timer s = k_ping s + kc_timeout c.
Proof.
  intros C X s Cl. pose proof (kinv_reach c ops C (kinit c) X (kinv_init c C)) as I. fold s in I.
  destruct (i_closed _ _ I Cl) as (A & B & O & L). destruct (i_out _ _ I O) as [P1 P2]. lia.
Qed.

(* the timer after a read has been noticed: next firing Time after that read *)
Lemma fire_observes_read c s : k_prev s < k_last s ->
  snd (fire c s) = [] /\ k_timer (fst (fire c s)) = Z.max (k_timer s) (k_last s + kc_time c) /\
  k_prev (fst (fire c s)) = k_last s /\ k_out (fst (fire c s)) = false.
Proof. intros H. unfold fire. destruct (Z.ltb_spec (k_prev s) (k_last s)); [cbn; auto|lia]. Qed.

(* a firing with nothing read since the last one, no ping outstanding and keepalive applicable
   sends the ping *)
Lemma fire_pings c s : k_last s <= k_prev s -> k_out s = false ->
  (kc_permit c = true \/ 1 <= k_streams s) ->
  snd (fire c s) = [(6, k_timer s)] /\ k_out (fst (fire c s)) = true /\ k_ping (fst (fire c s)) = k_timer s.
Proof.
  intros H O A. unfold fire. destruct (Z.ltb_spec (k_prev s) (k_last s)); [lia|]. rewrite O. cbn [andb].
  assert (E : (k_streams s <? 1) && negb (kc_permit c) = false).
  { destruct A as [A|A]; [rewrite A; apply andb_false_r|]. destruct (Z.ltb_spec (k_streams s) 1); [lia|reflexivity]. }
  rewrite E. unfold ping_and_sleep. rewrite O. cbn. auto.
Qed.

(* ... and from a ping on, if nothing more is read and keepalive stays applicable, the transport
   is closed exactly Timeout after the ping *)
Lemma advance_S f c s target : advance (S f) c s target =
  if k_closed s || k_dorm s || (target <=? k_timer s) then
    (mkk target (k_last s) (k_prev s) (k_out s) (k_left s) (k_timer s) (k_dorm s) (k_streams s) (k_closed s) (k_ack s) (k_ping s), [])
  else let '(s1, e1) := fire c s in let '(s2, e2) := advance f c s1 target in (s2, e1 ++ e2).
Proof. reflexivity. Qed.

Lemma ping_to_close c : cfg_ok c -> forall k s target, kinv c s ->
  k_closed s = false -> k_dorm s = false -> k_out s = true -> k_last s <= k_prev s ->
  (kc_permit c = true \/ 1 <= k_streams s) ->
  k_left s <= Z.of_nat k * kc_time c -> k_timer s + k_left s < target ->
  let r := advance (S k) c s target in
  k_closed (fst r) = true /\ k_timer (fst r) = k_ping s + kc_timeout c /\
  exists pre, snd r = pre ++ [(8, k_ping s + kc_timeout c)].
Proof.
  intros C. pose proof C as [Ct Co]. induction k as [|k IH]; intros s target I Cl D O R A L T; cbv zeta;
    pose proof (i_left _ _ I) as L0; destruct (i_out _ _ I O) as [P1 P2];
    rewrite advance_S; rewrite Cl, D; cbn [orb]; (destruct (Z.leb_spec target (k_timer s)); [lia|]).
  - (* timeoutLeft = 0: this firing closes *)
    assert (Z0 : k_left s = 0) by lia.
    assert (F : fire c s = (mkk (k_timer s) (k_last s) (k_prev s) (k_out s) (k_left s) (k_timer s) false (k_streams s) true (k_ack s) (k_ping s), [(8, k_timer s)])).
    { unfold fire. destruct (Z.ltb_spec (k_prev s) (k_last s)); [lia|]. rewrite O. cbn [andb].
      destruct (Z.leb_spec (k_left s) 0); [reflexivity|lia]. }
    rewrite F. cbn. repeat split; try lia. exists []. cbn. f_equal. f_equal. lia.
  - destruct (Z.eq_dec (k_left s) 0) as [Z0|Z0].
    + assert (F : fire c s = (mkk (k_timer s) (k_last s) (k_prev s) (k_out s) (k_left s) (k_timer s) false (k_streams s) true (k_ack s) (k_ping s), [(8, k_timer s)])).
      { unfold fire. destruct (Z.ltb_spec (k_prev s) (k_last s)); [lia|]. rewrite O. cbn [andb].
        destruct (Z.leb_spec (k_left s) 0); [reflexivity|lia]. }
      rewrite F.
      match goal with |- context [advance (S k) c ?s1 target] =>
        destruct (closed_frozen_adv (S k) c s1 target eq_refl) as (F1 & _ & _ & F4 & _ & _ & _ & _ & F9);
        destruct (advance (S k) c s1 target) as [s2 e2] end.
      cbn [fst snd] in *. subst e2. rewrite F4. cbn. repeat split; auto; try lia. exists []. cbn. f_equal. f_equal. lia.
    + assert (E : (k_streams s <? 1) && negb (kc_permit c) = false).
      { destruct A as [A|A]; [rewrite A; apply andb_false_r|]. destruct (Z.ltb_spec (k_streams s) 1); [lia|reflexivity]. }
      pose proof (fire_inv c s C I Cl D) as I1.
      assert (F : fire c s = (mkk (k_timer s) (k_last s) (k_prev s) true (k_left s - Z.min (kc_time c) (k_left s))
                                  (k_timer s + Z.min (kc_time c) (k_left s)) false (k_streams s) false (k_ack s) (k_ping s), [])).
      { unfold fire. destruct (Z.ltb_spec (k_prev s) (k_last s)); [lia|]. rewrite O. cbn [andb].
        destruct (Z.leb_spec (k_left s) 0); [lia|]. rewrite E. unfold ping_and_sleep. rewrite O. cbn. reflexivity. }
      rewrite F in *. cbn [fst] in I1.
      match goal with |- context [advance (S k) c ?s1 target] =>
        specialize (IH s1 target I1 eq_refl eq_refl eq_refl) end.
      cbn [k_last k_prev k_streams k_left k_timer k_ping] in IH.
      assert (H1 : k_left s - Z.min (kc_time c) (k_left s) <= Z.of_nat k * kc_time c).
      { rewrite Nat2Z.inj_succ in L. destruct (Z.min_spec (kc_time c) (k_left s)) as [[_ ->]|[_ ->]]; lia. }
      assert (H2 : k_timer s + Z.min (kc_time c) (k_left s) + (k_left s - Z.min (kc_time c) (k_left s)) < target) by lia.
      specialize (IH R A H1 H2). cbv zeta in IH.
      match goal with |- context [advance (S k) c ?s1 target] => destruct (advance (S k) c s1 target) as [s2 e2] end.
      cbn [fst snd] in *. destruct IH as (J1 & J2 & pre & J3). repeat split; auto. exists pre. exact J3.
Qed.

(* the literal dead-peer bound fails after a wake-up from dormancy that follows a read the loop
   has not looked at: Time = 10 s, Timeout = 5 s, no stream; a byte at 92.002 s while dormant; a
   stream at 192.003 s.  Ping at the wake-up, the stale read cancels it at +5 s, second ping,
   close at 202.003 s = wake-up + min(Time, Timeout) + Timeout instead of wake-up + Timeout *)
Lemma dormancy_bound_refuted :
  krun (mkkc 10000 5000 false) (kinit (mkkc 10000 5000 false))
       [(12, KWait); (80, KRead); (100, KOpen); (4, KWait); (0, KWait); (4, KWait); (1, KWait); (10, KWait)] =
  [[12001]; [92002]; [192003; 6; 192003]; [196004]; [196005]; [200006; 6; 197003]; [201007]; [211008; 8; 202003]].
Proof. vm_compute. reflexivity. Qed.

(* ================= Part B: the ledger ================= *)
Definition policy_gap (c : pcfg) (s : pst) : Z :=
  if (p_streams s <? 1) && negb (pc_permit c) then two_hours else pc_min c.

(* a ping that respects the policy (first ping ever, or at least the gap after the previous
   one) never adds a strike, hence never triggers the GOAWAY *)
Theorem no_false_goaway c s : 0 <= p_strikes s <= 2 ->
  (p_lastping s < 0 \/ p_lastping s + policy_gap c s <= p_now s) ->
  snd (on_ping c s) = [] /\ p_strikes (fst (on_ping c s)) <= p_strikes s /\ p_goaway (fst (on_ping c s)) = p_goaway s.
Proof.
  intros S H. unfold on_ping, policy_gap in *. destruct (p_reset s); [cbn; repeat split; auto; lia|].
  assert (E : too_early (p_lastping s) (if (p_streams s <? 1) && negb (pc_permit c) then two_hours else pc_min c) (p_now s) = false).
  { unfold too_early. destruct (Z.leb_spec 0 (p_lastping s)); [|reflexivity]. cbn [andb].
    destruct H as [H|H]; [lia|]. destruct (Z.ltb_spec (p_now s) (p_lastping s + (if (p_streams s <? 1) && negb (pc_permit c) then two_hours else pc_min c))); [lia|reflexivity]. }
  rewrite E. destruct (Z.ltb_spec 2 (p_strikes s)); [lia|]. cbn. repeat split; auto; lia.
Qed.

(* the third too-early ping in a row, with no headers/data written by the server in between
   (resetPingStrikes not set), is answered by GOAWAY(ENHANCE_YOUR_CALM) *)
Theorem third_strike c s : p_reset s = false -> p_strikes s = 2 ->
  0 <= p_lastping s -> p_now s < p_lastping s + policy_gap c s ->
  snd (on_ping c s) = [(7, 11)] /\ p_goaway (fst (on_ping c s)) = true.
Proof.
  intros R S L H. unfold on_ping, policy_gap in *. rewrite R.
  assert (E : too_early (p_lastping s) (if (p_streams s <? 1) && negb (pc_permit c) then two_hours else pc_min c) (p_now s) = true).
  { unfold too_early. destruct (Z.leb_spec 0 (p_lastping s)); [|lia]. cbn [andb]. apply Z.ltb_lt. exact H. }
  rewrite E, S. cbn. auto.
Qed.
(* each too-early ping without reset adds exactly one strike (below the limit) *)
Theorem strike_counts c s : p_reset s = false -> 0 <= p_strikes s < 2 ->
  0 <= p_lastping s -> p_now s < p_lastping s + policy_gap c s ->
  snd (on_ping c s) = [] /\ p_strikes (fst (on_ping c s)) = p_strikes s + 1 /\ p_reset (fst (on_ping c s)) = false.
Proof.
  intros R S L H. unfold on_ping, policy_gap in *. rewrite R.
  assert (E : too_early (p_lastping s) (if (p_streams s <? 1) && negb (pc_permit c) then two_hours else pc_min c) (p_now s) = true).
  { unfold too_early. destruct (Z.leb_spec 0 (p_lastping s)); [|lia]. cbn [andb]. apply Z.ltb_lt. exact H. }
  rewrite E. assert (U : u8 (p_strikes s + 1) = p_strikes s + 1).
  { unfold u8. apply Z.mod_small. lia. }
  rewrite U. destruct (Z.ltb_spec 2 (p_strikes s + 1)); [lia|]. cbn. auto.
Qed.

(* ================= bridge ================= *)
Definition okc (c : Z * Z * bool) : bool := finding_clause (fst (fst c)) || snd c.

Lemma pairs_flat l : forall n, (length l <= n)%nat -> pairs n (flat l) = l.
Proof.
  induction l as [|[a b] l IH]; intros n Hn; [destruct n; reflexivity|].
  destruct n; [cbn in Hn; lia|]. cbn [flat flat_map app pairs fst snd]. f_equal. apply IH. cbn in Hn. lia.
Qed.
Lemma evs_flat n l : evs (n :: flat l) = l.
Proof.
  unfold evs. apply pairs_flat. unfold flat. induction l as [|[a b] l IH]; cbn [flat_map length app]; lia.
Qed.

Lemma fold_chk c lv hw l : forall cl0 p0 pf,
  forallb okc cl0 = true -> chk c lv p0 l = (true, pf) ->
  forallb okc (fst (fold_left (kcl_step c lv hw) l (cl0, p0))) = true /\
  snd (fold_left (kcl_step c lv hw) l (cl0, p0)) = pf.
Proof.
  induction l as [|[tg v] l IH]; intros cl0 p0 pf H0 H; cbn [fold_left chk] in *.
  - inversion H; subst. auto.
  - assert (E0 : kcl_step c lv hw (cl0, p0) (tg, v) =
                 if tg =? 6 then (cl0, v)
                 else if tg =? 8 then
                   (cl0 ++ [ (2, v, lv + kc_time c <? v); (3, v, v =? p0 + kc_timeout c) ] ++
                           (if 0 <=? hw then [ (4, v, v <=? hw + kc_timeout c) ] else []), p0)
                 else (cl0, p0)) by reflexivity.
    rewrite E0. clear E0. destruct (tg =? 6); [apply IH; auto|].
    destruct (tg =? 8); [|apply IH; auto].
    destruct (chk c lv p0 l) as [b p'] eqn:E. injection H as Hb Hp.
    apply andb_true_iff in Hb as [Hb Hb3]. apply andb_true_iff in Hb as [Hb1 Hb2].
    rewrite Hb3, Hp in E.
    apply IH; auto. rewrite !forallb_app, H0. cbn [forallb andb]. unfold okc at 1 2. cbn [fst snd finding_clause Z.eqb Pos.eqb orb].
    rewrite Hb1, Hb2. cbn [andb]. destruct (0 <=? hw); reflexivity.
Qed.

Lemma kclause_ok c s h x o : cfg_ok c -> 0 <= x -> kinv c s -> h_ping h = k_ping s ->
  let r := kstep c s x o in
  let q := kclause c s h x o (k_now (fst r) :: flat (snd r)) in
  forallb okc (fst q) = true /\ h_ping (snd q) = k_ping (fst r).
Proof.
  intros C Hx I Hp. cbv zeta. unfold kclause. rewrite evs_flat.
  destruct (kstep_ok c s x o C Hx I) as [_ K]. cbv zeta in K.
  specialize (K (k_last (fst (kstep c s x o))) (fun _ => eq_refl)).
  match goal with |- context [fold_left (kcl_step c ?lv ?hw) ?l ([], h_ping h)] =>
    destruct (fold_chk c lv hw l [] (h_ping h) (k_ping (fst (kstep c s x o))) eq_refl) as [F1 F2];
    [rewrite Hp; exact K|];
    destruct (fold_left (kcl_step c lv hw) l ([], h_ping h)) as [cl p] end.
  cbn [fst snd] in *. auto.
Qed.

Lemma kclauses_run c : cfg_ok c -> forall ops s h, xs_ok ops -> kinv c s -> h_ping h = k_ping s ->
  forallb okc (kclauses c s h ops (krun c s ops)) = true.
Proof.
  intros C. induction ops as [|[x o] ops IH]; intros s h X I Hp; cbn [krun kclauses]; [reflexivity|].
  inversion X; subst. cbn [fst] in *.
  destruct (kclause_ok c s h x o C H1 I Hp) as [A B]. cbv zeta in A, B.
  pose proof (proj1 (kstep_ok c s x o C H1 I)) as I'.
  destruct (kstep c s x o) as [s' ev] eqn:K. cbn [fst snd] in *. cbn [kclauses]. rewrite ?K. cbn [fst].
  destruct (kclause c s h x o (k_now s' :: flat ev)) as [cl h']. cbn [fst snd] in *.
  rewrite forallb_app, A. apply IH; auto.
Qed.

(* ---- ledger ---- *)
Definition pinv (s : pst) : Prop := p_goaway s = false -> 0 <= p_strikes s <= 2.

Lemma u8_small v : 0 <= v <= 2 -> u8 (v + 1) = v + 1.
Proof. intros H. unfold u8. apply Z.mod_small. lia. Qed.

Lemma pstep_ok c s x o : pinv s ->
  let r := pstep c s x o in
  pinv (fst r) /\ forallb okc (pclause c s x o (p_now (fst r) :: flat (snd r))) = true.
Proof.
  intros I. cbv zeta. unfold pclause. rewrite evs_flat. unfold pstep.
  destruct (p_goaway s) eqn:G.
  - cbn [fst snd]. split; [intros H; congruence|]. destruct o; reflexivity.
  - specialize (I G).
    destruct o; cbn [fst snd existsb]; try (split; [intros _; cbn; exact I|reflexivity]).
    + (* PING *)
      unfold on_ping. cbn [p_reset p_streams p_lastping p_now p_strikes p_goaway].
      destruct (p_reset s) eqn:R.
      * cbn [fst snd existsb negb andb orb]. split; [intros _; cbn; lia|reflexivity].
      * cbn [negb andb].
        set (gap := if (p_streams s <? 1) && negb (pc_permit c) then two_hours else pc_min c).
        destruct (too_early (p_lastping s) gap (p_now s + 1000 * x + 1)) eqn:E.
        -- rewrite (u8_small _ I).
           destruct (Z.ltb_spec 2 (p_strikes s + 1)).
           ++ cbn [fst snd existsb Z.eqb Pos.eqb orb negb]. split; [intros H0; discriminate|].
              cbn. rewrite orb_true_r. reflexivity.
           ++ cbn [fst snd existsb negb orb]. split; [intros _; cbn; lia|].
              destruct (Z.eqb_spec (p_strikes s) 2); [lia|]. reflexivity.
        -- destruct (Z.ltb_spec 2 (p_strikes s)); [lia|].
           cbn [fst snd existsb negb orb]. split; [intros _; cbn; lia|reflexivity].
    + (* finish *)
      cbn [p_streams p_now p_lastping p_strikes p_reset].
      destruct (0 <? p_streams s); cbn [fst snd existsb];
        (split; [unfold pinv; cbn [fst p_strikes p_goaway]; intros _; exact I|reflexivity]).
Qed.

Lemma pclauses_run c : forall ops s, pinv s -> forallb okc (pclauses c s ops (prun c s ops)) = true.
Proof.
  induction ops as [|[x o] ops IH]; intros s I; cbn [prun pclauses]; [reflexivity|].
  destruct (pstep_ok c s x o I) as [A B]. cbv zeta in A, B.
  destruct (pstep c s x o) as [s' ev] eqn:K. cbn [fst snd] in *. cbn [pclauses]. rewrite ?K. cbn [fst].
  rewrite forallb_app, B. apply IH, A.
Qed.

Lemma decode_kop_x w x o : decode_kop w = Some (x, o) -> 0 <= x.
Proof.
  unfold decode_kop. destruct w as [|k [|x0 [|]]]; try discriminate.
  destruct (in_x x0) eqn:E; [|discriminate]. unfold in_x in E. apply andb_true_iff in E as [E _]. apply Z.leb_le in E.
  intros H. assert (x = x0).
  { repeat match type of H with match ?k with _ => _ end = _ => destruct k; try discriminate end; inversion H; reflexivity. }
  lia.
Qed.
Lemma decode_all_xs ws : forall os, decode_all decode_kop ws = Some os -> xs_ok os.
Proof.
  induction ws as [|w ws IH]; intros os H; cbn [decode_all] in H; [inversion H; constructor|].
  destruct (decode_kop w) as [[x o]|] eqn:E; [|discriminate].
  destruct (decode_all decode_kop ws) as [os'|]; [|discriminate]. inversion H; subst.
  constructor; [exact (decode_kop_x _ _ _ E)|apply IH; reflexivity].
Qed.

Definition wf (cfg : word) (ops : list word) : bool :=
  match run cfg ops with Some _ => true | None => false end.

Theorem model_trace_holds cfg ops : wf cfg ops = true ->
  exists obs, run cfg ops = Some obs /\ holds_b cfg ops obs = true.
Proof.
  unfold wf. destruct (run cfg ops) as [obs|] eqn:R; [|discriminate]. intros _. exists obs. split; [reflexivity|].
  unfold run in R. unfold holds_b, clauses. fold okc.
  destruct cfg as [|m [|a [|b [|d [|]]]]]; try discriminate;
    destruct m as [|[p|p|]|p]; try discriminate.
  - destruct (ms_ok a && ((b =? 0) || (b =? 1))); [|discriminate].
    destruct (decode_all decode_pop ops) as [os|]; [|discriminate]. inversion R; subst.
    apply pclauses_run. intros _. cbn. lia.
  - destruct (ms_ok a && ms_ok b && ((d =? 0) || (d =? 1))) eqn:E; [|discriminate].
    destruct (decode_all decode_kop ops) as [os|] eqn:D; [|discriminate]. inversion R; subst.
    apply andb_true_iff in E as [E _]. apply andb_true_iff in E as [E1 E2].
    assert (C : cfg_ok (mkkc a b (d =? 1))).
    { unfold ms_ok in *. split; cbn.
      - apply andb_true_iff in E1 as [E1 _]. apply andb_true_iff in E1 as [E1 _]. apply Z.leb_le in E1. lia.
      - apply andb_true_iff in E2 as [E2 _]. apply andb_true_iff in E2 as [E2 _]. apply Z.leb_le in E2. lia. }
    apply kclauses_run; auto; [apply (decode_all_xs _ _ D)|apply kinv_init, C].
Qed.
