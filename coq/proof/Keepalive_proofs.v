(* Proofs for C15 (model/Keepalive.v). *)
From Coq Require Import List ZArith Bool Lia.
From VLib Require Import Codec Machine.
From VModel Require Import Keepalive.
Import ListNotations.
Open Scope Z_scope.

Definition cfg_ok (c : kcfg) : Prop := 0 < kc_time c /\ 0 < kc_timeout c.

(* ================= Part A: the loop ================= *)
Record kinv (c : kcfg) (s : kst) : Prop := {
  i_left : 0 <= k_left s;
  i_timer : k_closed s = false -> k_dorm s = false -> k_prev s + kc_time c <= k_timer s /\ k_now s <= k_timer s;
  i_out : k_out s = true -> k_prev s + kc_time c <= k_ping s /\ k_timer s + k_left s = k_ping s + kc_timeout c;
  i_dorm : k_dorm s = true -> k_prev s + kc_time c <= k_now s /\ k_out s = false;
  i_closed : k_closed s = true -> k_last s <= k_prev s /\ k_prev s + kc_time c + kc_timeout c <= k_timer s /\
                                 k_out s = true /\ k_left s = 0;
  i_str : 0 <= k_streams s }.

Lemma kinv_init c : cfg_ok c -> kinv c (kinit c).
Proof. intros [A B]. constructor; cbn; intros; try discriminate; try lia. Qed.

Lemma ping_inv c s t : cfg_ok c -> kinv c s -> k_closed s = false ->
  k_prev s + kc_time c <= t -> (k_out s = true -> t = k_timer s) ->
  kinv c (fst (ping_and_sleep c s t)).
Proof.
  intros [Ct Co] I Cl Ht Hout. unfold ping_and_sleep. cbn [fst]. pose proof (i_str _ _ I) as St.
  destruct (k_out s) eqn:O; cbn [negb].
  - (* ping still outstanding: only the timer is re-armed *)
    destruct (i_out _ _ I O) as [P1 P2]. pose proof (i_left _ _ I). specialize (Hout eq_refl). subst t.
    constructor; cbn; intros; try discriminate; try lia.
  - constructor; cbn; intros; try discriminate; try lia.
Qed.

Lemma fire_inv c s : cfg_ok c -> kinv c s -> k_closed s = false -> k_dorm s = false ->
  kinv c (fst (fire c s)).
Proof.
  intros C I Cl D. pose proof C as [Ct Co]. unfold fire.
  pose proof (i_left _ _ I) as L. pose proof (i_timer _ _ I Cl D) as [T T']. pose proof (i_str _ _ I) as St.
  destruct (Z.ltb_spec (k_prev s) (k_last s)).
  - constructor; cbn; intros; try discriminate; try lia.
  - destruct (k_out s && (k_left s <=? 0)) eqn:E.
    + apply andb_true_iff in E as [O E]. apply Z.leb_le in E. destruct (i_out _ _ I O) as [P1 P2].
      constructor; cbn; intros; try discriminate; try lia; try (repeat split; auto; lia).
    + destruct ((k_streams s <? 1) && negb (kc_permit c)).
      * constructor; cbn; intros; try discriminate; try lia; try (split; [lia|reflexivity]).
      * apply ping_inv; auto.
Qed.

Lemma closed_frozen_adv fuel c s target : k_closed s = true ->
  let s' := fst (advance fuel c s target) in
  k_closed s' = true /\ k_last s' = k_last s /\ k_prev s' = k_prev s /\ k_timer s' = k_timer s /\
  k_ping s' = k_ping s /\ k_out s' = k_out s /\ k_left s' = k_left s /\ k_dorm s' = k_dorm s /\
  snd (advance fuel c s target) = [].
Proof. intros H. destruct fuel; cbn; [auto 10|]. rewrite H. cbn. auto 10. Qed.

(* the checker that the clauses run over the events of one op: a close event must come more than
   Time after the last read (lv), exactly Timeout after the last ping (p), and no later than
   hw + Timeout when a stale wake-up is on record (hw >= 0) *)
Fixpoint chk (c : kcfg) (lv hw p : Z) (l : list (Z * Z)) : bool * Z :=
  match l with
  | [] => (true, p)
  | (tg, v) :: r =>
    if tg =? 6 then chk c lv hw v r
    else if tg =? 8 then
      let '(b, p') := chk c lv hw p r in
      ((lv + kc_time c <? v) && (v =? p + kc_timeout c) && ((hw <? 0) || (v <=? hw + kc_timeout c)) && b, p')
    else chk c lv hw p r
  end.
Lemma chk_app c lv hw p a b : chk c lv hw p (a ++ b) =
  let '(b1, p1) := chk c lv hw p a in let '(b2, p2) := chk c lv hw p1 b in (b1 && b2, p2).
Proof.
  revert p. induction a as [|[tg v] a IH]; intros p; cbn [app chk].
  - destruct (chk c lv hw p b). reflexivity.
  - destruct (tg =? 6); [apply IH|]. destruct (tg =? 8); [|apply IH].
    rewrite IH. destruct (chk c lv hw p a) as [b1 p1]. destruct (chk c lv hw p1 b) as [b2 p2].
    rewrite <- !andb_assoc. reflexivity.
Qed.

Lemma fire_shape c s : k_closed s = false -> k_dorm s = false ->
  k_now (fst (fire c s)) = k_timer s /\
  (snd (fire c s) = [] /\ k_ping (fst (fire c s)) = k_ping s /\ k_closed (fst (fire c s)) = false
   \/ snd (fire c s) = [(6, k_timer s)] /\ k_ping (fst (fire c s)) = k_timer s /\ k_closed (fst (fire c s)) = false
   \/ snd (fire c s) = [(8, k_timer s)] /\ k_ping (fst (fire c s)) = k_ping s /\ k_closed (fst (fire c s)) = true
      /\ k_timer (fst (fire c s)) = k_timer s).
Proof.
  intros _ _. unfold fire. destruct (k_prev s <? k_last s); [cbn; auto 10|].
  destruct (k_out s && (k_left s <=? 0)); [cbn; auto 10|].
  destruct ((k_streams s <? 1) && negb (kc_permit c)); [cbn; auto 10|].
  unfold ping_and_sleep. destruct (k_out s); cbn; auto 10.
Qed.

Definition final_ok (s : kst) (lv hw : Z) : Prop :=
  k_closed s = true -> lv = k_last s /\ (hw < 0 \/ k_ping s = hw).

Lemma advance_ok fuel c : cfg_ok c -> forall s target, kinv c s -> k_now s <= target ->
  let r := advance fuel c s target in
  kinv c (fst r) /\ (k_now s <= k_now (fst r)) /\
  forall lv hw, final_ok (fst r) lv hw -> chk c lv hw (k_ping s) (snd r) = (true, k_ping (fst r)).
Proof.
  intros C. induction fuel as [|f IH]; intros s target I Hn; cbv zeta; cbn [advance].
  - cbn. split; [exact I|]. split; [lia|]. intros; reflexivity.
  - destruct (k_closed s || k_dorm s || (target <=? k_timer s)) eqn:E.
    + cbn [fst snd chk]. split; [|split; [cbn; lia|intros; reflexivity]].
      apply orb_true_iff in E.
      destruct I as [A B D F G S]. constructor; cbn; auto.
      * intros H1 H2. destruct (B H1 H2) as [B1 B2]. split; [exact B1|].
        destruct E as [E|E]; [rewrite H1, H2 in E; discriminate|]. apply Z.leb_le in E. exact E.
      * intros H. destruct (F H). split; [lia|auto].
    + apply orb_false_iff in E as [E E3]. apply orb_false_iff in E as [E1 E2].
      pose proof (fire_inv c s C I E1 E2) as I1.
      destruct (fire_shape c s E1 E2) as [Hnow Hf].
      destruct (i_timer _ _ I E1 E2) as [_ Hnt].
      destruct (fire c s) as [s1 e1]. cbn [fst snd] in *.
      assert (Hn1 : k_now s1 <= target).
      { rewrite Hnow. destruct (Z.leb_spec target (k_timer s)); [discriminate|lia]. }
      specialize (IH s1 target I1 Hn1). cbv zeta in IH. destruct IH as (IH1 & IH2 & IH3).
      pose proof (closed_frozen_adv f c s1 target) as Fz.
      destruct (advance f c s1 target) as [s2 e2]. cbn [fst snd] in *.
      split; [exact IH1|]. split; [lia|].
      intros lv hw Hlv. rewrite chk_app.
      destruct Hf as [(-> & Hp & _)|[(-> & Hp & _)|(-> & Hp & Hc & Ht)]].
      * cbn [chk]. rewrite <- Hp. rewrite (IH3 lv hw Hlv). reflexivity.
      * cbn [chk Z.eqb Pos.eqb]. rewrite <- Hp. rewrite (IH3 lv hw Hlv). reflexivity.
      * cbn [chk Z.eqb Pos.eqb].
        destruct (Fz Hc) as (F1 & F2 & F3 & F4 & F5 & F6 & F7 & F8 & F9). subst e2. cbn [chk].
        destruct (Hlv F1) as (L1 & L3). rewrite F5, Hp in L3. rewrite L1, F2, F5, Hp.
        destruct (i_closed _ _ I1 Hc) as (G1 & G2 & G3 & G4). destruct (i_out _ _ I1 G3) as [P1 P2].
        destruct C as [Ct Co]. rewrite Ht in *.
        assert (X1 : (k_last s1 + kc_time c <? k_timer s) = true) by (apply Z.ltb_lt; lia).
        assert (X2 : (k_timer s =? k_ping s + kc_timeout c) = true) by (apply Z.eqb_eq; lia).
        assert (X3 : (hw <? 0) || (k_timer s <=? hw + kc_timeout c) = true).
        { destruct (Z.ltb_spec hw 0); [reflexivity|]. destruct L3 as [L3|L3]; [lia|]. cbn. apply Z.leb_le. lia. }
        rewrite X1, X2, X3. reflexivity.
Qed.

Ltac act_fin := cbn; split; [reflexivity|]; split; [intros; discriminate|]; split;
  [first [left; split; reflexivity | right; split; reflexivity]|first [reflexivity|assumption]].

Lemma act_ok c s o : cfg_ok c -> kinv c s ->
  let r := act c s o in
  kinv c (fst r) /\ k_now (fst r) = k_now s /\
  (k_closed s = true -> fst r = s /\ snd r = []) /\
  (snd r = [] /\ k_ping (fst r) = k_ping s \/ snd r = [(6, k_now s)] /\ k_ping (fst r) = k_now s) /\
  k_closed (fst r) = k_closed s.
Proof.
  intros C I. cbv zeta. unfold act. destruct (k_closed s) eqn:Cl; [cbn; auto 10|].
  pose proof (i_str _ _ I) as St.
  assert (Same : forall l st ak dr, 0 <= st -> kinv c (mkk (k_now s) l (k_prev s) (k_out s) (k_left s) (k_timer s) (k_dorm s) st false ak (k_ping s) dr)).
  { intros l st ak dr Hst. destruct I as [A B D F G S]. rewrite Cl in *. constructor; cbn; auto. intros; discriminate. }
  destruct o; cbn [fst snd].
  - split; [exact I|]. act_fin.
  - split; [apply Same; lia|]. act_fin.
  - destruct (k_drain s) eqn:Dr; [split; [exact I|act_fin]|].
    destruct (k_dorm s) eqn:Dm.
    + destruct (i_dorm _ _ I Dm) as [D1 D2]. destruct C as [Ct Co] eqn:EC.
      destruct (Z.ltb_spec (k_prev s) (k_last s)).
      * (* a byte was read while dormant *)
        assert (I2 : kinv c (mkk (k_now s) (k_last s) (k_last s) false (k_left s) (Z.max (k_now s) (k_last s + kc_time c)) false
                                 (k_streams s + 1) false (k_ack s) (k_ping s) false)).
        { pose proof (i_left _ _ I). constructor; cbn; intros; try discriminate; try lia. }
        cbn [k_timer k_now].
        destruct (Z.leb_spec (Z.max (k_now s) (k_last s + kc_time c)) (k_now s)) as [Hm|Hm].
        -- assert (Tm : Z.max (k_now s) (k_last s + kc_time c) = k_now s) by lia.
           split; [apply fire_inv; auto|].
           unfold fire. cbn [k_prev k_last k_out k_timer k_streams andb]. rewrite Z.ltb_irrefl.
           destruct (Z.ltb_spec (k_streams s + 1) 1); [pose proof (i_str _ _ I); lia|]. cbn [andb].
           unfold ping_and_sleep. cbn. rewrite Tm. act_fin.
        -- split; [exact I2|]. act_fin.
      * split.
        -- apply ping_inv; [exact C | apply Same; lia | reflexivity | cbn; lia | cbn; rewrite D2; intros; discriminate].
        -- unfold ping_and_sleep. cbn. rewrite D2. act_fin.
    + split; [apply Same; lia|]. act_fin.
  - destruct ((0 <? k_streams s) && negb (k_drain s && (k_streams s =? 1))) eqn:E.
    + apply andb_true_iff in E as [E _]. apply Z.ltb_lt in E. split; [apply Same; lia|act_fin].
    + split; [exact I|act_fin].
  - split; [apply Same; lia|]. act_fin.
  - split; [apply Same; lia|]. act_fin.
  - destruct (Z.leb_spec 1 (k_streams s)); (split; [first [apply Same; lia|exact I]|act_fin]).
Qed.

(* a transport that is closed at the end of a step was closed before it or the step shows the close *)
Lemma advance_close_seen fuel c : forall s target,
  k_closed (fst (advance fuel c s target)) = true ->
  k_closed s = true \/ existsb is_close (snd (advance fuel c s target)) = true.
Proof.
  induction fuel as [|f IH]; intros s target; cbn [advance]; [cbn; auto|].
  destruct (k_closed s || k_dorm s || (target <=? k_timer s)) eqn:E; [cbn; auto|].
  apply orb_false_iff in E as [E _]. apply orb_false_iff in E as [E1 E2].
  destruct (fire_shape c s E1 E2) as [_ Hf].
  destruct (fire c s) as [s1 e1]. cbn [fst snd] in *.
  specialize (IH s1 target). destruct (advance f c s1 target) as [s2 e2]. cbn [fst snd] in *.
  intros Hc. right. rewrite existsb_app.
  destruct Hf as [(-> & _ & Hn)|[(-> & _ & Hn)|(-> & _)]]; [| |reflexivity];
    (destruct (IH Hc) as [H|H]; [congruence|rewrite H; apply orb_true_r]).
Qed.

Lemma kstep_close_seen c s x o : cfg_ok c -> 0 <= x -> kinv c s ->
  k_closed (fst (kstep c s x o)) = true ->
  k_closed s = true \/ existsb is_close (snd (kstep c s x o)) = true.
Proof.
  intros C Hx I. unfold kstep.
  pose proof (proj1 (advance_ok (fuel_for c (1000 * x + 1)) c C s (k_now s + (1000 * x + 1)) I ltac:(lia))) as A1.
  pose proof (advance_close_seen (fuel_for c (1000 * x + 1)) c s (k_now s + (1000 * x + 1))) as H.
  destruct (advance (fuel_for c (1000 * x + 1)) c s (k_now s + (1000 * x + 1))) as [s1 e1]. cbn [fst snd] in *.
  destruct (act_ok c s1 o C A1) as (_ & _ & _ & _ & B5).
  destruct (act c s1 o) as [s2 e2]. cbn [fst snd] in *. intros Hc. rewrite B5 in Hc.
  destruct (H Hc) as [H1|H1]; [left; exact H1|right]. rewrite existsb_app, H1. reflexivity.
Qed.

Lemma kstep_ok c s x o : cfg_ok c -> 0 <= x -> kinv c s ->
  let r := kstep c s x o in
  kinv c (fst r) /\
  forall lv hw, final_ok (fst r) lv hw -> chk c lv hw (k_ping s) (snd r) = (true, k_ping (fst r)).
Proof.
  intros C Hx I. cbv zeta. unfold kstep.
  destruct (advance_ok (fuel_for c (1000 * x + 1)) c C s (k_now s + (1000 * x + 1)) I ltac:(lia)) as (A1 & A2 & A3).
  destruct (advance (fuel_for c (1000 * x + 1)) c s (k_now s + (1000 * x + 1))) as [s1 e1]. cbn [fst snd] in *.
  destruct (act_ok c s1 o C A1) as (B1 & B2 & B3 & B4 & B5).
  destruct (act c s1 o) as [s2 e2]. cbn [fst snd] in *.
  split; [exact B1|]. intros lv hw Hlv. rewrite chk_app.
  destruct (k_closed s1) eqn:Cl.
  - destruct (B3 eq_refl) as [-> ->]. rewrite (A3 lv hw Hlv). reflexivity.
  - assert (A3' : chk c lv hw (k_ping s) e1 = (true, k_ping s1)).
    { apply A3. intros H. rewrite Cl in H. discriminate. }
    rewrite A3'.
    destruct B4 as [(-> & P)|(-> & P)]; cbn [chk Z.eqb Pos.eqb]; rewrite P; reflexivity.
Qed.

(* ---- readable consequences ---- *)
Fixpoint kreach (c : kcfg) (s : kst) (ops : list (Z * kop)) : kst :=
  match ops with [] => s | (x, o) :: r => kreach c (fst (kstep c s x o)) r end.
Definition xs_ok (ops : list (Z * kop)) : Prop := Forall (fun e => 0 <= fst e) ops.

Lemma kinv_reach c ops : cfg_ok c -> forall s, xs_ok ops -> kinv c s -> kinv c (kreach c s ops).
Proof.
  intros C. induction ops as [|[x o] ops IH]; intros s X I; cbn [kreach]; [exact I|].
  inversion X; subst. apply IH; auto. apply (kstep_ok c s x o C H1 I).
Qed.

(* whatever the timeline: a transport closed by keepalive had read nothing during the
   Time + Timeout before the close, and the close came exactly Timeout after the last ping
   (k_timer is the instant of the close) *)
Theorem healthy_never_killed c ops : cfg_ok c -> xs_ok ops ->
  let s := kreach c (kinit c) ops in
  k_closed s = true ->
  k_last s + kc_time c + kc_timeout c <= k_timer s /\ k_timer s = k_ping s + kc_timeout c.
Proof.
  intros C X s Cl. pose proof (kinv_reach c ops C (kinit c) X (kinv_init c C)) as I. fold s in I.
  destruct (i_closed _ _ I Cl) as (A & B & O & L). destruct (i_out _ _ I O) as [P1 P2]. lia.
Qed.

(* the timer after a read has been noticed: next firing Time after that read *)
Lemma fire_observes_read c s : k_prev s < k_last s ->
  snd (fire c s) = [] /\ k_timer (fst (fire c s)) = Z.max (k_timer s) (k_last s + kc_time c) /\
  k_prev (fst (fire c s)) = k_last s /\ k_out (fst (fire c s)) = false.
Proof. intros H. unfold fire. destruct (Z.ltb_spec (k_prev s) (k_last s)); [cbn; auto|lia]. Qed.

(* a firing with nothing read since the last one, no ping outstanding and keepalive applicable
   sends the ping *)
Lemma fire_pings c s : k_last s <= k_prev s -> k_out s = false ->
  (kc_permit c = true \/ 1 <= k_streams s) ->
  snd (fire c s) = [(6, k_timer s)] /\ k_out (fst (fire c s)) = true /\ k_ping (fst (fire c s)) = k_timer s.
Proof.
  intros H O A. unfold fire. destruct (Z.ltb_spec (k_prev s) (k_last s)); [lia|]. rewrite O. cbn [andb].
  assert (E : (k_streams s <? 1) && negb (kc_permit c) = false).
  { destruct A as [A|A]; [rewrite A; apply andb_false_r|]. destruct (Z.ltb_spec (k_streams s) 1); [lia|reflexivity]. }
  rewrite E. unfold ping_and_sleep. rewrite O. cbn. auto.
Qed.

(* ... and from a ping on, if nothing more is read and keepalive stays applicable, the transport
   is closed exactly Timeout after the ping *)
Lemma advance_S f c s target : advance (S f) c s target =
  if k_closed s || k_dorm s || (target <=? k_timer s) then
    (mkk target (k_last s) (k_prev s) (k_out s) (k_left s) (k_timer s) (k_dorm s) (k_streams s) (k_closed s) (k_ack s) (k_ping s) (k_drain s), [])
  else let '(s1, e1) := fire c s in let '(s2, e2) := advance f c s1 target in (s2, e1 ++ e2).
Proof. reflexivity. Qed.

Lemma ping_to_close c : cfg_ok c -> forall k s target, kinv c s ->
  k_closed s = false -> k_dorm s = false -> k_out s = true -> k_last s <= k_prev s ->
  (kc_permit c = true \/ 1 <= k_streams s) ->
  k_left s <= Z.of_nat k * kc_time c -> k_timer s + k_left s < target ->
  let r := advance (S k) c s target in
  k_closed (fst r) = true /\ k_timer (fst r) = k_ping s + kc_timeout c /\
  exists pre, snd r = pre ++ [(8, k_ping s + kc_timeout c)].
Proof.
  intros C. pose proof C as [Ct Co]. induction k as [|k IH]; intros s target I Cl D O R A L T; cbv zeta;
    pose proof (i_left _ _ I) as L0; destruct (i_out _ _ I O) as [P1 P2];
    rewrite advance_S; rewrite Cl, D; cbn [orb]; (destruct (Z.leb_spec target (k_timer s)); [lia|]).
  - (* timeoutLeft = 0: this firing closes *)
    assert (Z0 : k_left s = 0) by lia.
    assert (F : fire c s = (mkk (k_timer s) (k_last s) (k_prev s) (k_out s) (k_left s) (k_timer s) false (k_streams s) true (k_ack s) (k_ping s) (k_drain s), [(8, k_timer s)])).
    { unfold fire. destruct (Z.ltb_spec (k_prev s) (k_last s)); [lia|]. rewrite O. cbn [andb].
      destruct (Z.leb_spec (k_left s) 0); [reflexivity|lia]. }
    rewrite F. cbn. repeat split; try lia. exists []. cbn. f_equal. f_equal. lia.
  - destruct (Z.eq_dec (k_left s) 0) as [Z0|Z0].
    + assert (F : fire c s = (mkk (k_timer s) (k_last s) (k_prev s) (k_out s) (k_left s) (k_timer s) false (k_streams s) true (k_ack s) (k_ping s) (k_drain s), [(8, k_timer s)])).
      { unfold fire. destruct (Z.ltb_spec (k_prev s) (k_last s)); [lia|]. rewrite O. cbn [andb].
        destruct (Z.leb_spec (k_left s) 0); [reflexivity|lia]. }
      rewrite F.
      match goal with |- context [advance (S k) c ?s1 target] =>
        destruct (closed_frozen_adv (S k) c s1 target eq_refl) as (F1 & _ & _ & F4 & _ & _ & _ & _ & F9);
        destruct (advance (S k) c s1 target) as [s2 e2] end.
      cbn [fst snd] in *. subst e2. rewrite F4. cbn. repeat split; auto; try lia. exists []. cbn. f_equal. f_equal. lia.
    + assert (E : (k_streams s <? 1) && negb (kc_permit c) = false).
      { destruct A as [A|A]; [rewrite A; apply andb_false_r|]. destruct (Z.ltb_spec (k_streams s) 1); [lia|reflexivity]. }
      pose proof (fire_inv c s C I Cl D) as I1.
      assert (F : fire c s = (mkk (k_timer s) (k_last s) (k_prev s) true (k_left s - Z.min (kc_time c) (k_left s))
                                  (k_timer s + Z.min (kc_time c) (k_left s)) false (k_streams s) false (k_ack s) (k_ping s) (k_drain s), [])).
      { unfold fire. destruct (Z.ltb_spec (k_prev s) (k_last s)); [lia|]. rewrite O. cbn [andb].
        destruct (Z.leb_spec (k_left s) 0); [lia|]. rewrite E. unfold ping_and_sleep. rewrite O. cbn. reflexivity. }
      rewrite F in *. cbn [fst] in I1.
      match goal with |- context [advance (S k) c ?s1 target] =>
        specialize (IH s1 target I1 eq_refl eq_refl eq_refl) end.
      cbn [k_last k_prev k_streams k_left k_timer k_ping] in IH.
      assert (H1 : k_left s - Z.min (kc_time c) (k_left s) <= Z.of_nat k * kc_time c).
      { rewrite Nat2Z.inj_succ in L. destruct (Z.min_spec (kc_time c) (k_left s)) as [[_ ->]|[_ ->]]; lia. }
      assert (H2 : k_timer s + Z.min (kc_time c) (k_left s) + (k_left s - Z.min (kc_time c) (k_left s)) < target) by lia.
      specialize (IH R A H1 H2). cbv zeta in IH.
      match goal with |- context [advance (S k) c ?s1 target] => destruct (advance (S k) c s1 target) as [s2 e2] end.
      cbn [fst snd] in *. destruct IH as (J1 & J2 & pre & J3). repeat split; auto. exists pre. exact J3.
Qed.

(* the witness of the former stale-read defect: Time = 10 s, Timeout = 5 s, no stream; a byte at
   92.002 s while dormant; a stream at 192.003 s.  One ping, at the wake-up (the byte is more
   than Time old), and the silent peer is closed at 197.003 s = max(t0 + Time, a) + Timeout *)
Lemma dormancy_wake_bound_witness :
  krun (mkkc 10000 5000 false) (kinit (mkkc 10000 5000 false))
       [(12, KWait); (80, KRead); (100, KOpen); (4, KWait); (0, KWait); (4, KWait); (1, KWait); (10, KWait)] =
  [[12001]; [92002]; [192003; 6; 192003]; [196004]; [196005]; [200006; 8; 197003]; [201007]; [211008]].
Proof. vm_compute. reflexivity. Qed.

(* the witness against the first repair: Time 2 s, Timeout 1 s, dormant; a byte at 3.002 s, a
   stream at 3.003 s.  No ping on wake-up: the peer was heard 1 ms ago; the ping comes at
   5.002 s = t0 + Time and the still silent peer is closed at 6.002 s, not at 4.003 s *)
Lemma wake_does_not_kill_recently_heard_peer :
  krun (mkkc 2000 1000 false) (kinit (mkkc 2000 1000 false))
       [(1, KWait); (2, KRead); (0, KOpen); (1, KWait); (1, KWait); (1, KWait)] =
  [[1001]; [3002]; [3003]; [4004]; [5005; 6; 5002]; [6006; 8; 6002]].
Proof. vm_compute. reflexivity. Qed.

(* wake-up from dormancy, in general: with an unobserved byte (prev < last) no ping is sent
   before last + Time; without one the ping goes out at once *)
Lemma wake_step c s : cfg_ok c -> kinv c s -> k_closed s = false -> k_dorm s = true -> k_drain s = false ->
  let r := act c s KOpen in
  k_dorm (fst r) = false /\
  (k_prev s < k_last s ->
     k_prev (fst r) = k_last s /\
     (k_now s < k_last s + kc_time c -> snd r = [] /\ k_out (fst r) = false /\ k_timer (fst r) = k_last s + kc_time c) /\
     (k_last s + kc_time c <= k_now s -> snd r = [(6, k_now s)] /\ k_ping (fst r) = k_now s /\ k_out (fst r) = true)) /\
  (k_last s <= k_prev s -> snd r = [(6, k_now s)] /\ k_ping (fst r) = k_now s /\ k_out (fst r) = true /\
                           k_timer (fst r) + k_left (fst r) = k_now s + kc_timeout c).
Proof.
  intros C I Cl D Dr. cbv zeta. unfold act. rewrite Cl, D, Dr. destruct (i_dorm _ _ I D) as [_ O]. pose proof (i_str _ _ I) as St.
  destruct (Z.ltb_spec (k_prev s) (k_last s)) as [H|H].
  - cbn [k_timer k_now].
    destruct (Z.leb_spec (Z.max (k_now s) (k_last s + kc_time c)) (k_now s)) as [Hm|Hm].
    + unfold fire. cbn [k_prev k_last k_out k_timer k_streams andb]. rewrite Z.ltb_irrefl.
      destruct (Z.ltb_spec (k_streams s + 1) 1); [lia|]. cbn [andb]. unfold ping_and_sleep. cbn.
      assert (Tm : Z.max (k_now s) (k_last s + kc_time c) = k_now s) by lia. rewrite Tm.
      split; [reflexivity|]. split; [|intros; lia]. intros _. split; [reflexivity|]. split; [intros; lia|]. auto.
    + cbn. split; [reflexivity|]. split; [|intros; lia]. intros _. split; [reflexivity|]. split; [|intros; lia].
      intros _. repeat split; lia.
  - unfold ping_and_sleep. cbn. rewrite O. cbn. split; [reflexivity|]. split; [intros; lia|]. intros _. repeat split; lia.
Qed.

(* a graceful GOAWAY received while a stream is open is a read and nothing else for the loop:
   the transport is draining, every loop variable is as before.  fire / advance do not look at
   k_drain, so steps (1)-(3) above (stated for every state) are the dead-peer bound of a
   draining transport as well *)
Lemma goaway_only_a_read c s : k_closed s = false -> 1 <= k_streams s ->
  let r := act c s KGoAway in
  snd r = [] /\ k_drain (fst r) = true /\ k_last (fst r) = k_now s /\ k_closed (fst r) = false /\
  k_timer (fst r) = k_timer s /\ k_out (fst r) = k_out s /\ k_left (fst r) = k_left s /\
  k_prev (fst r) = k_prev s /\ k_dorm (fst r) = k_dorm s /\ k_streams (fst r) = k_streams s.
Proof.
  intros Cl St. cbv zeta. unfold act. rewrite Cl. destruct (Z.leb_spec 1 (k_streams s)); [|lia]. cbn. auto 12.
Qed.

(* the witness of the dead peer behind a draining transport: Time 5 s, Timeout 2 s; a stream at
   1 ms, GOAWAY at 2 ms, then silence: ping at 5.002 s = GOAWAY + Time, closed at 7.002 s *)
Lemma draining_dead_peer_witness :
  krun (mkkc 5000 2000 false) (kinit (mkkc 5000 2000 false)) [(0, KOpen); (0, KGoAway); (5, KWait); (3, KWait)] =
  [[1]; [2]; [5003; 6; 5002]; [8004; 8; 7002]].
Proof. vm_compute. reflexivity. Qed.

(* ================= Part B: the ledger ================= *)
Definition policy_gap (c : pcfg) (s : pst) : Z :=
  if (p_streams s <? 1) && negb (pc_permit c) then two_hours else pc_min c.

(* a ping that respects the policy (first ping ever, or at least the gap after the previous
   one) never adds a strike, hence never triggers the GOAWAY *)
Theorem no_false_goaway c s : 0 <= p_strikes s <= 2 ->
  (p_lastping s < 0 \/ p_lastping s + policy_gap c s <= p_now s) ->
  snd (on_ping c s) = [] /\ p_strikes (fst (on_ping c s)) <= p_strikes s /\ p_goaway (fst (on_ping c s)) = p_goaway s.
Proof.
  intros S H. unfold on_ping, policy_gap in *. destruct (p_reset s); [cbn; repeat split; auto; lia|].
  assert (E : too_early (p_lastping s) (if (p_streams s <? 1) && negb (pc_permit c) then two_hours else pc_min c) (p_now s) = false).
  { unfold too_early. destruct (Z.leb_spec 0 (p_lastping s)); [|reflexivity]. cbn [andb].
    destruct H as [H|H]; [lia|]. destruct (Z.ltb_spec (p_now s) (p_lastping s + (if (p_streams s <? 1) && negb (pc_permit c) then two_hours else pc_min c))); [lia|reflexivity]. }
  rewrite E. destruct (Z.ltb_spec 2 (p_strikes s)); [lia|]. cbn. repeat split; auto; lia.
Qed.

(* the third too-early ping in a row, with no headers/data written by the server in between
   (resetPingStrikes not set), is answered by GOAWAY(ENHANCE_YOUR_CALM) *)
Theorem third_strike c s : p_reset s = false -> p_strikes s = 2 ->
  0 <= p_lastping s -> p_now s < p_lastping s + policy_gap c s ->
  snd (on_ping c s) = [(7, 11)] /\ p_goaway (fst (on_ping c s)) = true.
Proof.
  intros R S L H. unfold on_ping, policy_gap in *. rewrite R.
  assert (E : too_early (p_lastping s) (if (p_streams s <? 1) && negb (pc_permit c) then two_hours else pc_min c) (p_now s) = true).
  { unfold too_early. destruct (Z.leb_spec 0 (p_lastping s)); [|lia]. cbn [andb]. apply Z.ltb_lt. exact H. }
  rewrite E, S. cbn. auto.
Qed.
(* each too-early ping without reset adds exactly one strike (below the limit) *)
Theorem strike_counts c s : p_reset s = false -> 0 <= p_strikes s < 2 ->
  0 <= p_lastping s -> p_now s < p_lastping s + policy_gap c s ->
  snd (on_ping c s) = [] /\ p_strikes (fst (on_ping c s)) = p_strikes s + 1 /\ p_reset (fst (on_ping c s)) = false.
Proof.
  intros R S L H. unfold on_ping, policy_gap in *. rewrite R.
  assert (E : too_early (p_lastping s) (if (p_streams s <? 1) && negb (pc_permit c) then two_hours else pc_min c) (p_now s) = true).
  { unfold too_early. destruct (Z.leb_spec 0 (p_lastping s)); [|lia]. cbn [andb]. apply Z.ltb_lt. exact H. }
  rewrite E. assert (U : u8 (p_strikes s + 1) = p_strikes s + 1).
  { unfold u8. apply Z.mod_small. lia. }
  rewrite U. destruct (Z.ltb_spec 2 (p_strikes s + 1)); [lia|]. cbn. auto.
Qed.

(* ================= bridge ================= *)
Definition okc (c : Z * Z * bool) : bool := finding_clause (fst (fst c)) || snd c.

Lemma pairs_flat l : forall n, (length l <= n)%nat -> pairs n (flat l) = l.
Proof.
  induction l as [|[a b] l IH]; intros n Hn; [destruct n; reflexivity|].
  destruct n; [cbn in Hn; lia|]. cbn [flat flat_map app pairs fst snd]. f_equal. apply IH. cbn in Hn. lia.
Qed.
Lemma evs_flat n l : evs (n :: flat l) = l.
Proof.
  unfold evs. apply pairs_flat. unfold flat. induction l as [|[a b] l IH]; cbn [flat_map length app]; lia.
Qed.

Lemma fold_chk c lv hw l : forall cl0 p0 pf,
  forallb okc cl0 = true -> chk c lv hw p0 l = (true, pf) ->
  forallb okc (fst (fold_left (kcl_step c lv hw) l (cl0, p0))) = true /\
  snd (fold_left (kcl_step c lv hw) l (cl0, p0)) = pf.
Proof.
  induction l as [|[tg v] l IH]; intros cl0 p0 pf H0 H; cbn [fold_left chk] in *.
  - inversion H; subst. auto.
  - assert (E0 : kcl_step c lv hw (cl0, p0) (tg, v) =
                 if tg =? 6 then (cl0, v)
                 else if tg =? 8 then
                   (cl0 ++ [ (2, v, (0 <=? hw) || (lv + kc_time c <? v)); (3, v, v =? p0 + kc_timeout c);
                             (4, v, (hw <? 0) || (v <=? hw + kc_timeout c));
                             (5, v, (hw <? 0) || (lv + kc_time c <? v)) ], p0)
                 else (cl0, p0)) by reflexivity.
    rewrite E0. clear E0. destruct (tg =? 6); [apply IH; auto|].
    destruct (tg =? 8); [|apply IH; auto].
    destruct (chk c lv hw p0 l) as [b p'] eqn:E. injection H as Hb Hp.
    apply andb_true_iff in Hb as [Hb Hb4]. apply andb_true_iff in Hb as [Hb Hb3]. apply andb_true_iff in Hb as [Hb1 Hb2].
    rewrite Hb4, Hp in E.
    apply IH; auto. rewrite !forallb_app, H0. cbn [forallb andb]. unfold okc. cbn [fst snd finding_clause orb].
    rewrite Hb1, Hb2, Hb3, !orb_true_r. reflexivity.
Qed.

(* a stale wake-up on record: hw = max(t0 + Time, a) is when the ping goes out (or went out);
   nothing can cancel it *)
Definition winv (s : kst) (hw : Z) : Prop :=
  hw < 0 \/ (k_closed s = true /\ k_ping s = hw) \/
  (k_closed s = false /\ k_dorm s = false /\ 1 <= k_streams s /\ k_ack s = false /\ k_last s <= k_prev s /\
   ((k_out s = false /\ k_timer s = hw) \/ (k_out s = true /\ k_ping s = hw))).

Lemma winv_fire c s hw : winv s hw -> k_closed s = false -> k_dorm s = false -> winv (fst (fire c s)) hw.
Proof.
  intros [H|[(H & _)|(_ & _ & St & A & L & O)]] Cl Dm; [left; exact H|congruence|]. right. unfold fire.
  destruct (Z.ltb_spec (k_prev s) (k_last s)); [lia|].
  destruct O as [(O & T)|(O & P)]; rewrite O; cbn [andb].
  - destruct (Z.ltb_spec (k_streams s) 1); [lia|]. cbn [andb]. unfold ping_and_sleep. rewrite O, A. cbn.
    right. repeat split; auto; try (right; split; [reflexivity|exact T]).
  - destruct (k_left s <=? 0); [cbn; left; auto|].
    destruct (Z.ltb_spec (k_streams s) 1); [lia|]. cbn [andb]. unfold ping_and_sleep. rewrite O. cbn.
    right. repeat split; auto.
Qed.
Lemma winv_advance fuel c : forall s target hw, winv s hw -> winv (fst (advance fuel c s target)) hw.
Proof.
  induction fuel as [|f IH]; intros s target hw W; cbn [advance]; [exact W|].
  destruct (k_closed s || k_dorm s || (target <=? k_timer s)) eqn:E.
  - cbn [fst]. destruct W as [H|[H|H]]; [left; exact H|right; left; exact H|right; right; exact H].
  - apply orb_false_iff in E as [E _]. apply orb_false_iff in E as [E1 E2].
    pose proof (winv_fire c s hw W E1 E2) as W1. destruct (fire c s) as [s1 e1]. cbn [fst] in W1.
    specialize (IH s1 target hw W1). destruct (advance f c s1 target) as [s2 e2]. exact IH.
Qed.

Definition hw_next (c : kcfg) (s1 : kst) (o : kop) (hw : Z) : Z :=
  if match o with
     | KOpen => negb (k_drain s1) && k_dorm s1 && negb (k_closed s1) && (k_prev s1 <? k_last s1) && negb (k_ack s1)
     | _ => false
     end then Z.max (k_now s1) (k_last s1 + kc_time c)
  else match o with KRead | KCloseStream | KAckOn | KGoAway => -1 | _ => hw end.

Lemma winv_act c s1 o hw : cfg_ok c -> kinv c s1 -> winv s1 hw -> winv (fst (act c s1 o)) (hw_next c s1 o hw).
Proof.
  intros C I W. unfold hw_next, act. pose proof (i_str _ _ I) as St.
  destruct (k_closed s1) eqn:Cl.
  - rewrite andb_false_r. cbn [negb andb fst].
    destruct o; cbn [andb]; try (left; lia); exact W.
  - destruct o; cbn [fst].
    + exact W.
    + left; lia.
    + destruct (k_drain s1) eqn:Dr; cbn [negb andb fst]; [exact W|].
      destruct (k_dorm s1) eqn:Dm.
      * cbn [negb andb]. destruct (i_dorm _ _ I Dm) as [_ O].
        destruct (Z.ltb_spec (k_prev s1) (k_last s1)) as [H|H]; cbn [andb].
        -- destruct (k_ack s1) eqn:A; cbn [negb].
           ++ destruct W as [H0|[(H0 & _)|(_ & H0 & _)]]; [left; exact H0|congruence|congruence].
           ++ right. right. cbn [k_timer k_now].
              destruct (Z.leb_spec (Z.max (k_now s1) (k_last s1 + kc_time c)) (k_now s1)) as [Hm|Hm].
              ** assert (Tm : Z.max (k_now s1) (k_last s1 + kc_time c) = k_now s1) by lia.
                 unfold fire. cbn [k_prev k_last k_out k_timer k_streams andb]. rewrite Z.ltb_irrefl.
                 destruct (Z.ltb_spec (k_streams s1 + 1) 1); [lia|]. cbn [andb]. unfold ping_and_sleep. cbn.
                 repeat split; auto; try lia; try (right; split; reflexivity).
              ** cbn. repeat split; auto; try lia; try (left; split; reflexivity).
        -- destruct W as [H0|[(H0 & _)|(_ & H0 & _)]]; [left; exact H0|congruence|congruence].
      * cbn [andb]. destruct W as [H|[(H & _)|(_ & D & S1 & A & L & O)]]; [left; exact H|congruence|].
        right. right. cbn. repeat split; auto; lia.
    + left; lia.
    + left; lia.
    + destruct W as [H|[(H & _)|(_ & D & S1 & A & L & O)]]; [left; exact H|congruence|].
      right. right. cbn. repeat split; auto.
    + left; lia.
Qed.

Lemma kclause_ok c s h x o : cfg_ok c -> 0 <= x -> kinv c s -> h_ping h = k_ping s -> winv s (h_wake h) ->
  (k_closed s = true -> h_seen h = true) ->
  let r := kstep c s x o in
  let q := kclause c s h x o (k_now (fst r) :: flat (snd r)) in
  forallb okc (fst q) = true /\ h_ping (snd q) = k_ping (fst r) /\ winv (fst r) (h_wake (snd q)) /\
  (k_closed (fst r) = true -> h_seen (snd q) = true).
Proof.
  intros C Hx I Hp W Sn. cbv zeta. unfold kclause. rewrite evs_flat.
  assert (Sn' : k_closed (fst (kstep c s x o)) = true -> h_seen h || existsb is_close (snd (kstep c s x o)) = true).
  { intros Hc. destruct (kstep_close_seen c s x o C Hx I Hc) as [H|H]; [rewrite (Sn H); reflexivity|rewrite H; apply orb_true_r]. }
  destruct (kstep_ok c s x o C Hx I) as [_ K]. cbv zeta in K.
  set (s1 := fst (advance (fuel_for c (1000 * x + 1)) c s (k_now s + (1000 * x + 1)))).
  fold (hw_next c s1 o (h_wake h)).
  assert (W' : winv (fst (kstep c s x o)) (hw_next c s1 o (h_wake h))).
  { unfold kstep. pose proof (winv_advance (fuel_for c (1000 * x + 1)) c s (k_now s + (1000 * x + 1)) _ W) as W1.
    pose proof (proj1 (advance_ok (fuel_for c (1000 * x + 1)) c C s (k_now s + (1000 * x + 1)) I ltac:(lia))) as I1.
    fold s1 in W1, I1. subst s1.
    destruct (advance (fuel_for c (1000 * x + 1)) c s (k_now s + (1000 * x + 1))) as [sa ea]. cbn [fst] in *.
    pose proof (winv_act c sa o _ C I1 W1) as W2. destruct (act c sa o) as [sb eb]. exact W2. }
  specialize (K (k_last (fst (kstep c s x o))) (hw_next c s1 o (h_wake h))).
  assert (F : final_ok (fst (kstep c s x o)) (k_last (fst (kstep c s x o))) (hw_next c s1 o (h_wake h))).
  { intros Hc. split; [reflexivity|]. destruct W' as [H|[(_ & P)|(H & _)]]; [left; exact H|right; exact P|congruence]. }
  specialize (K F).
  match goal with |- context [fold_left (kcl_step c ?lv ?hw) ?l ([], h_ping h)] =>
    destruct (fold_chk c lv hw l [] (h_ping h) (k_ping (fst (kstep c s x o))) eq_refl) as [F1 F2];
    [rewrite Hp; exact K|];
    destruct (fold_left (kcl_step c lv hw) l ([], h_ping h)) as [cl p] end.
  cbn [fst snd h_ping h_wake h_seen] in *. repeat split; auto.
  rewrite forallb_app, F1. cbn [forallb andb]. unfold okc. cbn [fst snd finding_clause orb].
  destruct (k_closed (fst (kstep c s x o))); [rewrite (Sn' eq_refl)|]; reflexivity.
Qed.

Lemma kclauses_run c : cfg_ok c -> forall ops s h, xs_ok ops -> kinv c s -> h_ping h = k_ping s -> winv s (h_wake h) ->
  (k_closed s = true -> h_seen h = true) ->
  forallb okc (kclauses c s h ops (krun c s ops)) = true.
Proof.
  intros C. induction ops as [|[x o] ops IH]; intros s h X I Hp W Sn; cbn [krun kclauses]; [reflexivity|].
  inversion X; subst. cbn [fst] in *.
  destruct (kclause_ok c s h x o C H1 I Hp W Sn) as (A & B & W' & Sn'). cbv zeta in A, B, W', Sn'.
  pose proof (proj1 (kstep_ok c s x o C H1 I)) as I'.
  destruct (kstep c s x o) as [s' ev] eqn:K. cbn [fst snd] in *. cbn [kclauses]. rewrite ?K. cbn [fst].
  destruct (kclause c s h x o (k_now s' :: flat ev)) as [cl h']. cbn [fst snd] in *.
  rewrite forallb_app, A. apply IH; auto.
Qed.

(* what clause 8 asks of an implementation trace holds of every model trace: a transport that the
   loop has closed shows the close event in the observations *)
Definition shows_close (obs : list word) : bool := existsb (fun ob => existsb is_close (evs ob)) obs.
Lemma closed_shown_from c ops : cfg_ok c -> forall s, xs_ok ops -> kinv c s ->
  k_closed (kreach c s ops) = true -> k_closed s = true \/ shows_close (krun c s ops) = true.
Proof.
  intros C. induction ops as [|[x o] ops IH]; intros s X I; cbn [kreach krun]; [auto|].
  inversion X; subst. cbn [fst] in *.
  pose proof (proj1 (kstep_ok c s x o C H1 I)) as I'.
  pose proof (kstep_close_seen c s x o C H1 I) as K.
  destruct (kstep c s x o) as [s' ev]. cbn [fst snd] in *.
  intros Hc. unfold shows_close. cbn [existsb]. rewrite evs_flat.
  destruct (IH s' H2 I' Hc) as [H|H].
  - destruct (K H) as [K1|K1]; [left; exact K1|right; rewrite K1; reflexivity].
  - right. unfold shows_close in H. rewrite H. apply orb_true_r.
Qed.
Theorem closed_shown c ops : cfg_ok c -> xs_ok ops ->
  k_closed (kreach c (kinit c) ops) = true -> shows_close (krun c (kinit c) ops) = true.
Proof.
  intros C X Hc. destruct (closed_shown_from c ops C (kinit c) X (kinv_init c C) Hc) as [H|H]; [discriminate|exact H].
Qed.

(* ================= the dead-peer bound, assembled ================= *)
(* keepalive is applicable: a stream is open or PermitWithoutStream is set *)
Definition applicable (c : kcfg) (s : kst) : bool := kc_permit c || (1 <=? k_streams s).
(* the moment keepalive last became applicable along a timeline (0 = from the start) *)
Definition a_next (c : kcfg) (s s' : kst) (a : Z) : Z :=
  if applicable c s' && negb (applicable c s) then k_now s' else a.
Fixpoint appl_from (c : kcfg) (s : kst) (a : Z) (ops : list (Z * kop)) : Z :=
  match ops with
  | [] => a
  | (x, o) :: r => let s' := fst (kstep c s x o) in appl_from c s' (a_next c s s' a) r
  end.
Definition appl_since (c : kcfg) (ops : list (Z * kop)) : Z := appl_from c (kinit c) 0 ops.

(* a = the moment keepalive last became applicable.  While the loop runs: the timer is never
   more than Time ahead; as long as no ping is outstanding (or a read is still to be noticed) it
   is due no later than last read + Time; an outstanding ping was sent no later than
   max(last read + Time, a); a closed transport was closed no later than that + Timeout; a
   dormant loop means keepalive is not applicable *)
Record dinv (c : kcfg) (s : kst) (a : Z) : Prop := {
  d_last : k_last s <= k_now s;
  d_ping : k_ping s <= k_now s;
  d_a : a <= k_now s;
  d_near : k_closed s = false -> k_dorm s = false -> k_timer s <= k_now s + kc_time c;
  d_due : k_closed s = false -> k_dorm s = false -> (k_out s = false \/ k_prev s < k_last s) ->
          k_timer s <= k_last s + kc_time c;
  d_pinged : k_closed s = false -> k_dorm s = false -> k_out s = true -> k_last s <= k_prev s ->
             k_ping s <= Z.max (k_last s + kc_time c) a;
  d_closed : k_closed s = true -> k_timer s <= Z.max (k_last s + kc_time c) a + kc_timeout c;
  d_closed_now : k_closed s = true -> k_timer s <= k_now s;
  d_dorm : k_dorm s = true -> applicable c s = false }.

Ltac dsolve :=
  constructor; cbn; intros; try discriminate;
  repeat match goal with H : _ \/ _ |- _ => destruct H; try discriminate end; try lia.

Lemma dinv_init c : cfg_ok c -> dinv c (kinit c) 0.
Proof. intros [A B]. dsolve. Qed.

Lemma dinv_mono c s a a' : a <= a' -> a' <= k_now s -> dinv c s a -> dinv c s a'.
Proof. intros H H' [D1 D2 Da D3 D4 D5 D6 D6n D7]. constructor; auto; intros; [specialize (D5 H0 H1 H2 H3)|specialize (D6 H0)]; lia. Qed.

Lemma fire_dinv c s a : cfg_ok c -> kinv c s -> dinv c s a -> k_closed s = false -> k_dorm s = false ->
  dinv c (fst (fire c s)) a.
Proof.
  intros [Ct Co] I D Cl Dm. unfold fire.
  pose proof (i_timer _ _ I Cl Dm) as [T1 T2]. pose proof (i_left _ _ I) as L.
  destruct D as [D1 D2 Da D3 D4 D5 D6 D6n D7]. specialize (D3 Cl Dm). specialize (D4 Cl Dm). specialize (D5 Cl Dm).
  destruct (Z.ltb_spec (k_prev s) (k_last s)) as [H|H].
  - assert (k_timer s <= k_last s + kc_time c) by (apply D4; right; exact H). dsolve.
  - destruct (k_out s && (k_left s <=? 0)) eqn:E.
    + apply andb_true_iff in E as [O E]. apply Z.leb_le in E. destruct (i_out _ _ I O) as [P1 P2].
      specialize (D5 O H). dsolve.
    + destruct ((k_streams s <? 1) && negb (kc_permit c)) eqn:A.
      * apply andb_true_iff in A as [A1 A2]. apply Z.ltb_lt in A1. apply negb_true_iff in A2.
        dsolve. unfold applicable. cbn. rewrite A2. destruct (Z.leb_spec 1 (k_streams s)); [lia|reflexivity].
      * unfold ping_and_sleep. destruct (k_out s) eqn:O; cbn [negb andb].
        -- specialize (D5 eq_refl H). dsolve.
        -- assert (k_timer s <= k_last s + kc_time c) by (apply D4; left; reflexivity).
           destruct (k_ack s); dsolve.
Qed.

Lemma fire_streams c s : k_streams (fst (fire c s)) = k_streams s.
Proof.
  unfold fire. destruct (k_prev s <? k_last s); [reflexivity|]. destruct (k_out s && (k_left s <=? 0)); [reflexivity|].
  destruct ((k_streams s <? 1) && negb (kc_permit c)); reflexivity.
Qed.

Lemma advance_dinv fuel c a : cfg_ok c -> forall s target, kinv c s -> dinv c s a -> k_now s <= target ->
  dinv c (fst (advance fuel c s target)) a /\ k_streams (fst (advance fuel c s target)) = k_streams s.
Proof.
  intros C. induction fuel as [|f IH]; intros s target I D Hn; cbn [advance]; [cbn; auto|].
  destruct (k_closed s || k_dorm s || (target <=? k_timer s)) eqn:E.
  - cbn [fst]. split; [|reflexivity]. destruct D as [D1 D2 Da D3 D4 D5 D6 D6n D7].
    constructor; cbn; auto; try lia; [intros H1 H2; specialize (D3 H1 H2); lia|intros H1; specialize (D6n H1); lia].
  - apply orb_false_iff in E as [E E3]. apply orb_false_iff in E as [E1 E2].
    pose proof (fire_inv c s C I E1 E2) as I1. pose proof (fire_dinv c s a C I D E1 E2) as D1.
    pose proof (fire_streams c s) as S1.
    destruct (fire_shape c s E1 E2) as [Hnow _]. destruct (i_timer _ _ I E1 E2) as [_ Hnt].
    destruct (fire c s) as [s1 e1]. cbn [fst snd] in *.
    assert (Hn1 : k_now s1 <= target) by (rewrite Hnow; destruct (Z.leb_spec target (k_timer s)); [discriminate|lia]).
    specialize (IH s1 target I1 D1 Hn1). destruct (advance f c s1 target) as [s2 e2]. cbn [fst] in *.
    destruct IH as [IH1 IH2]. split; [exact IH1|congruence].
Qed.

Ltac dsolve2 :=
  constructor; cbn; intros; try discriminate;
  repeat match goal with
         | H : _ \/ _ |- _ => destruct H; try discriminate
         | H : ?A -> _, H' : ?A |- _ => specialize (H H')
         | H : ?A \/ ?B -> _, H' : ?A |- _ => specialize (H (or_introl H'))
         | H : ?A \/ ?B -> _, H' : ?B |- _ => specialize (H (or_intror H'))
         end; try lia; try (unfold applicable; cbn; assumption).

Lemma a_next_bounds c s s' a : a <= k_now s' -> a <= a_next c s s' a <= k_now s'.
Proof. intros H. unfold a_next. destruct (applicable c s' && negb (applicable c s)); lia. Qed.

(* every action but a wake-up from dormancy keeps the invariant with the same a *)
Lemma act_dinv_same c s o a : cfg_ok c -> kinv c s -> dinv c s a ->
  (o = KOpen -> k_closed s = false -> k_drain s = false -> k_dorm s = true -> False) ->
  dinv c (fst (act c s o)) a.
Proof.
  intros [Ct Co] I D NW. unfold act. destruct (k_closed s) eqn:Cl; [exact D|].
  pose proof (i_str _ _ I) as St.
  destruct D as [D1 D2 Da D3 D4 D5 D6 D6n D7]. unfold applicable in *.
  destruct o; cbn [fst].
  - constructor; auto.
  - dsolve2.
  - destruct (k_drain s) eqn:Dr; [constructor; auto|].
    destruct (k_dorm s) eqn:Dm; [exfalso; apply NW; auto|]. dsolve2.
  - destruct ((0 <? k_streams s) && negb (k_drain s && (k_streams s =? 1))) eqn:E;
      [|constructor; auto].
    apply andb_true_iff in E as [E _]. apply Z.ltb_lt in E. dsolve2.
  - dsolve2.
  - dsolve2.
  - destruct (Z.leb_spec 1 (k_streams s)); [dsolve2|constructor; auto; cbn [fst]; unfold applicable; intros Hd; destruct (proj1 (orb_false_iff _ _) (D7 Hd)) as [Pm _]; rewrite Pm; destruct (Z.leb_spec 1 (k_streams s)); [lia|reflexivity]].
Qed.

(* the wake-up: keepalive becomes applicable now *)
Lemma act_dinv_wake c s a : cfg_ok c -> kinv c s -> dinv c s a ->
  k_closed s = false -> k_drain s = false -> k_dorm s = true ->
  dinv c (fst (act c s KOpen)) (k_now s) /\ applicable c s = false /\ applicable c (fst (act c s KOpen)) = true /\
  k_now (fst (act c s KOpen)) = k_now s.
Proof.
  intros [Ct Co] I D Cl Dr Dm. pose proof (i_str _ _ I) as St. destruct (i_dorm _ _ I Dm) as [Q1 Q2].
  pose proof (i_left _ _ I) as L.
  destruct D as [D1 D2 Da D3 D4 D5 D6 D6n D7]. specialize (D7 Dm).
  assert (App : forall v, 0 <= v -> kc_permit c || (1 <=? v + 1) = true).
  { intros v Hv. destruct (Z.leb_spec 1 (v + 1)); [apply orb_true_r|lia]. }
  unfold act. rewrite Cl, Dr, Dm. unfold applicable in *.
  destruct (Z.ltb_spec (k_prev s) (k_last s)) as [H|H].
  - cbn [k_timer k_now].
    destruct (Z.leb_spec (Z.max (k_now s) (k_last s + kc_time c)) (k_now s)) as [Hm|Hm].
    + assert (Tm : Z.max (k_now s) (k_last s + kc_time c) = k_now s) by lia.
      unfold fire. cbn [k_prev k_last k_out k_timer k_streams andb]. rewrite Z.ltb_irrefl.
      destruct (Z.ltb_spec (k_streams s + 1) 1); [lia|]. cbn [andb]. unfold ping_and_sleep. cbn [k_out negb andb k_ack k_last k_prev k_left k_streams k_ping k_drain fst]. rewrite Tm.
      split; [|cbn; auto]. destruct (k_ack s); dsolve2.
    + cbn [fst]. split; [|cbn; auto]. dsolve2.
  - unfold ping_and_sleep. cbn [fst k_out k_ack k_last k_prev k_left k_streams k_ping k_drain k_now]. rewrite Q2. cbn [negb andb].
    split; [|cbn; auto]. destruct (k_ack s); dsolve2.
Qed.

Lemma act_streams_dorm s o : k_closed s = false ->
  (o = KOpen /\ k_drain s = false /\ k_dorm s = true) \/
  (o = KOpen -> k_closed s = false -> k_drain s = false -> k_dorm s = true -> False).
Proof.
  intros Cl. destruct o; try (right; intros; discriminate).
  destruct (k_drain s) eqn:Dr; [right; intros; discriminate|]. destruct (k_dorm s) eqn:Dm; [left; auto|right; intros; discriminate].
Qed.

Lemma act_dinv c s o a : cfg_ok c -> kinv c s -> dinv c s a ->
  dinv c (fst (act c s o)) (a_next c s (fst (act c s o)) a).
Proof.
  intros C I D. destruct (act_ok c s o C I) as (_ & Hn & Hc & _ & _). cbv zeta in Hn, Hc.
  destruct (k_closed s) eqn:Cl.
  - destruct (Hc eq_refl) as [E _]. rewrite E. unfold a_next. rewrite andb_negb_r. exact D.
  - destruct (act_streams_dorm s o Cl) as [(-> & Dr & Dm)|NW].
    + destruct (act_dinv_wake c s a C I D Cl Dr Dm) as (W & A1 & A2 & A3).
      unfold a_next. rewrite A1, A2, A3. exact W.
    + pose proof (act_dinv_same c s o a C I D NW) as W.
      pose proof (a_next_bounds c s (fst (act c s o)) a) as B. rewrite Hn in B. specialize (B (d_a _ _ _ D)).
      apply (dinv_mono c _ a); [lia|rewrite Hn; lia|exact W].
Qed.

Lemma kstep_dinv c s x o a : cfg_ok c -> 0 <= x -> kinv c s -> dinv c s a ->
  dinv c (fst (kstep c s x o)) (a_next c s (fst (kstep c s x o)) a).
Proof.
  intros C Hx I D. unfold kstep.
  destruct (advance_ok (fuel_for c (1000 * x + 1)) c C s (k_now s + (1000 * x + 1)) I ltac:(lia)) as (A1 & _ & _).
  destruct (advance_dinv (fuel_for c (1000 * x + 1)) c a C s (k_now s + (1000 * x + 1)) I D ltac:(lia)) as (A2 & A3).
  destruct (advance (fuel_for c (1000 * x + 1)) c s (k_now s + (1000 * x + 1))) as [s1 e1]. cbn [fst snd] in *.
  pose proof (act_dinv c s1 o a C A1 A2) as B.
  destruct (act c s1 o) as [s2 e2]. cbn [fst snd] in *.
  unfold a_next in *. unfold applicable in *. rewrite A3 in B. exact B.
Qed.

Lemma dinv_reach c : cfg_ok c -> forall ops s a, xs_ok ops -> kinv c s -> dinv c s a ->
  dinv c (kreach c s ops) (appl_from c s a ops).
Proof.
  intros C. induction ops as [|[x o] ops IH]; intros s a X I D; cbn [kreach appl_from]; [exact D|].
  inversion X; subst. cbn [fst] in *. apply IH; auto.
  - apply (kstep_ok c s x o C H1 I).
  - apply kstep_dinv; auto.
Qed.

(* The dead-peer sentence of C15.  For EVERY timeline: let t0 be the instant of the last byte
   received (k_last: the last KRead / GOAWAY / ping ack of the timeline) and a the moment
   keepalive last became applicable (a stream open or PermitWithoutStream; 0 if from the start).
   If keepalive is still applicable and the clock has passed max(t0 + Time, a) + Timeout, the
   transport is closed, and it was closed (k_timer = the instant of the close) no later than
   max(t0 + Time, a) + Timeout. *)
Theorem dead_peer_closed c ops : cfg_ok c -> xs_ok ops ->
  let s := kreach c (kinit c) ops in
  let t0 := k_last s in
  let a := appl_since c ops in
  applicable c s = true ->
  Z.max (t0 + kc_time c) a + kc_timeout c < k_now s ->
  k_closed s = true /\ k_timer s <= Z.max (t0 + kc_time c) a + kc_timeout c /\
  shows_close (krun c (kinit c) ops) = true.
Proof.
  intros C X s t0 a App Late.
  cut (k_closed s = true /\ k_timer s <= Z.max (t0 + kc_time c) a + kc_timeout c).
  { intros [H1 H2]. repeat split; auto. apply closed_shown; auto. }
  pose proof C as [Ct Co].
  pose proof (kinv_reach c ops C (kinit c) X (kinv_init c C)) as I.
  pose proof (dinv_reach c C ops (kinit c) 0 X (kinv_init c C) (dinv_init c C)) as D.
  fold s in I, D. fold (appl_since c ops) in D. fold a in D. subst t0.
  destruct (k_closed s) eqn:Cl; [split; [reflexivity|apply (d_closed _ _ _ D Cl)]|]. exfalso.
  destruct (k_dorm s) eqn:Dm; [rewrite (d_dorm _ _ _ D Dm) in App; discriminate|].
  destruct (i_timer _ _ I Cl Dm) as [T1 T2]. pose proof (i_left _ _ I) as L.
  destruct (k_out s) eqn:O.
  - destruct (Z.ltb_spec (k_prev s) (k_last s)) as [H|H].
    + pose proof (d_due _ _ _ D Cl Dm (or_intror H)). lia.
    + pose proof (d_pinged _ _ _ D Cl Dm O H). destruct (i_out _ _ I O) as [_ P2]. lia.
  - pose proof (d_due _ _ _ D Cl Dm (or_introl O)). lia.
Qed.

(* "a connection that receives some byte at least once every Time is never closed by keepalive":
   at the end of EVERY timeline (hence at every op boundary of every timeline), a transport whose
   last received byte is less than Time + Timeout old is not closed *)
Theorem healthy_alive c ops : cfg_ok c -> xs_ok ops ->
  let s := kreach c (kinit c) ops in
  k_now s < k_last s + kc_time c + kc_timeout c -> k_closed s = false.
Proof.
  intros C X s H. destruct (k_closed s) eqn:Cl; [|reflexivity]. exfalso.
  pose proof (healthy_never_killed c ops C X) as K. cbv zeta in K. fold s in K. destruct (K Cl) as [K1 _].
  pose proof (dinv_reach c C ops (kinit c) 0 X (kinv_init c C) (dinv_init c C)) as D. fold s in D.
  pose proof (d_closed_now _ _ _ D Cl). lia.
Qed.

(* ---- ledger ---- *)
Definition pinv (s : pst) : Prop := p_goaway s = false -> 0 <= p_strikes s <= 2.

Lemma u8_small v : 0 <= v <= 2 -> u8 (v + 1) = v + 1.
Proof. intros H. unfold u8. apply Z.mod_small. lia. Qed.

Lemma pstep_ok c s x o : pinv s ->
  let r := pstep c s x o in
  pinv (fst r) /\ forallb okc (pclause c s x o (p_now (fst r) :: flat (snd r))) = true.
Proof.
  intros I. cbv zeta. unfold pclause. rewrite evs_flat. unfold pstep.
  destruct (p_goaway s) eqn:G.
  - cbn [fst snd]. split; [intros H; congruence|]. destruct o; reflexivity.
  - specialize (I G).
    destruct o; cbn [fst snd existsb]; try (split; [intros _; cbn; exact I|reflexivity]).
    + (* PING *)
      unfold on_ping. cbn [p_reset p_streams p_lastping p_now p_strikes p_goaway].
      destruct (p_reset s) eqn:R.
      * cbn [fst snd existsb negb andb orb]. split; [intros _; cbn; lia|reflexivity].
      * cbn [negb andb].
        set (gap := if (p_streams s <? 1) && negb (pc_permit c) then two_hours else pc_min c).
        destruct (too_early (p_lastping s) gap (p_now s + 1000 * x + 1)) eqn:E.
        -- rewrite (u8_small _ I).
           destruct (Z.ltb_spec 2 (p_strikes s + 1)).
           ++ cbn [fst snd existsb Z.eqb Pos.eqb orb negb]. split; [intros H0; discriminate|].
              cbn. rewrite orb_true_r. reflexivity.
           ++ cbn [fst snd existsb negb orb]. split; [intros _; cbn; lia|].
              destruct (Z.eqb_spec (p_strikes s) 2); [lia|]. reflexivity.
        -- destruct (Z.ltb_spec 2 (p_strikes s)); [lia|].
           cbn [fst snd existsb negb orb]. split; [intros _; cbn; lia|reflexivity].
    + (* finish *)
      cbn [p_streams p_now p_lastping p_strikes p_reset].
      destruct (0 <? p_streams s); cbn [fst snd existsb];
        (split; [unfold pinv; cbn [fst p_strikes p_goaway]; intros _; exact I|reflexivity]).
Qed.

Lemma pclauses_run c : forall ops s, pinv s -> forallb okc (pclauses c s ops (prun c s ops)) = true.
Proof.
  induction ops as [|[x o] ops IH]; intros s I; cbn [prun pclauses]; [reflexivity|].
  destruct (pstep_ok c s x o I) as [A B]. cbv zeta in A, B.
  destruct (pstep c s x o) as [s' ev] eqn:K. cbn [fst snd] in *. cbn [pclauses]. rewrite ?K. cbn [fst].
  rewrite forallb_app, B. apply IH, A.
Qed.

(* ---- the ledger over whole timelines ---- *)
Fixpoint preach (c : pcfg) (s : pst) (ops : list (Z * pop)) : pst :=
  match ops with [] => s | (x, o) :: r => preach c (fst (pstep c s x o)) r end.
(* a client that respects the policy: every PING comes at least MinTime after the previous one
   while it has streams (or PermitWithoutStream), at least two hours after it otherwise *)
Fixpoint polite (c : pcfg) (s : pst) (ops : list (Z * pop)) : Prop :=
  match ops with
  | [] => True
  | (x, o) :: r =>
    (o = PPing -> p_lastping s < 0 \/ p_lastping s + policy_gap c s <= p_now s + 1000 * x + 1) /\
    polite c (fst (pstep c s x o)) r
  end.

Lemma polite_ping c s : p_strikes s = 0 -> (p_lastping s < 0 \/ p_lastping s + policy_gap c s <= p_now s) ->
  snd (on_ping c s) = [] /\ p_strikes (fst (on_ping c s)) = 0 /\ p_goaway (fst (on_ping c s)) = p_goaway s.
Proof.
  intros S H. unfold on_ping, policy_gap in *. destruct (p_reset s); [cbn; auto|].
  assert (E : too_early (p_lastping s) (if (p_streams s <? 1) && negb (pc_permit c) then two_hours else pc_min c) (p_now s) = false).
  { unfold too_early. destruct (Z.leb_spec 0 (p_lastping s)); [|reflexivity]. cbn [andb].
    destruct H as [H|H]; [lia|]. destruct (Z.ltb_spec (p_now s) (p_lastping s + (if (p_streams s <? 1) && negb (pc_permit c) then two_hours else pc_min c))); [lia|reflexivity]. }
  rewrite E, S. cbn. auto.
Qed.

(* "A server never sends GOAWAY ENHANCE_YOUR_CALM to a client whose consecutive pings are ..."
   over whole timelines: with a polite client, whatever else happens (streams opened, finished,
   waits), no GOAWAY is ever sent and no strike is ever recorded *)
Theorem polite_never_goaway c ops : forall s, p_goaway s = false -> p_strikes s = 0 -> polite c s ops ->
  p_goaway (preach c s ops) = false /\ p_strikes (preach c s ops) = 0 /\
  Forall (fun ob => evs ob = []) (prun c s ops).
Proof.
  induction ops as [|[x o] ops IH]; intros s G S P; cbn [preach prun polite] in *; [auto|].
  destruct P as [P1 P2].
  assert (K : p_goaway (fst (pstep c s x o)) = false /\ p_strikes (fst (pstep c s x o)) = 0 /\ snd (pstep c s x o) = []).
  { unfold pstep. rewrite G. destruct o; cbn [fst snd p_goaway p_strikes]; auto.
    - set (s1 := mkp _ _ _ _ _ _).
      destruct (polite_ping c s1) as (A & B & C0); [exact S|exact (P1 eq_refl)|]. rewrite C0. auto.
    - cbn [p_streams p_now p_lastping p_strikes p_reset]. destruct (0 <? p_streams s); cbn [fst snd p_goaway p_strikes]; auto. }
  destruct K as (K1 & K2 & K3). destruct (pstep c s x o) as [s' ev]. cbn [fst snd] in *. subst ev.
  destruct (IH s' K1 K2 P2) as (A & B & C0). repeat split; auto.
Qed.

Lemma early_ping_step c s x : p_goaway s = false -> p_reset s = false -> 0 <= p_strikes s -> 0 <= p_lastping s ->
  p_now s + 1000 * x + 1 < p_lastping s + policy_gap c s ->
  pstep c s x PPing =
  if p_strikes s <? 2
  then (mkp (p_now s + 1000 * x + 1) (p_now s + 1000 * x + 1) (p_strikes s + 1) false (p_streams s) false, [])
  else if p_strikes s =? 2
  then (mkp (p_now s + 1000 * x + 1) (p_now s + 1000 * x + 1) 3 false (p_streams s) true, [(7, 11)])
  else pstep c s x PPing.
Proof.
  intros G R S L H. destruct (Z.ltb_spec (p_strikes s) 2) as [S2|S2]; [|destruct (Z.eqb_spec (p_strikes s) 2) as [S3|S3]; [|reflexivity]].
  - unfold pstep. rewrite G. unfold on_ping. cbn [p_reset p_now p_lastping p_strikes p_streams p_goaway]. rewrite R.
    unfold policy_gap in H.
    assert (E : too_early (p_lastping s) (if (p_streams s <? 1) && negb (pc_permit c) then two_hours else pc_min c) (p_now s + 1000 * x + 1) = true).
    { unfold too_early. destruct (Z.leb_spec 0 (p_lastping s)); [|lia]. cbn [andb]. apply Z.ltb_lt. exact H. }
    rewrite E. rewrite (u8_small (p_strikes s)) by lia. destruct (Z.ltb_spec 2 (p_strikes s + 1)); [lia|]. reflexivity.
  - unfold pstep. rewrite G. unfold on_ping. cbn [p_reset p_now p_lastping p_strikes p_streams p_goaway]. rewrite R.
    unfold policy_gap in H.
    assert (E : too_early (p_lastping s) (if (p_streams s <? 1) && negb (pc_permit c) then two_hours else pc_min c) (p_now s + 1000 * x + 1) = true).
    { unfold too_early. destruct (Z.leb_spec 0 (p_lastping s)); [|lia]. cbn [andb]. apply Z.ltb_lt. exact H. }
    rewrite E, S3. cbn. reflexivity.
Qed.

(* "it does send it after a third too-early ping that is not separated from the previous ones by
   server-sent headers or data": from any state without strikes, three pings in a row (nothing
   but time between them), each too early for the policy: the first two are tolerated, the third
   is answered by GOAWAY(ENHANCE_YOUR_CALM = 11) *)
Theorem three_early_pings c s x1 x2 x3 :
  p_goaway s = false -> p_reset s = false -> p_strikes s = 0 -> 0 <= p_lastping s <= p_now s ->
  0 <= x1 -> 0 <= x2 -> 0 <= x3 ->
  p_now s + 1000 * x1 + 1 < p_lastping s + policy_gap c s ->
  1000 * x2 + 1 < policy_gap c s -> 1000 * x3 + 1 < policy_gap c s ->
  exists t1 t2 t3, prun c s [(x1, PPing); (x2, PPing); (x3, PPing)] = [[t1]; [t2]; [t3; 7; 11]] /\
                   p_goaway (preach c s [(x1, PPing); (x2, PPing); (x3, PPing)]) = true.
Proof.
  intros G R S L X1 X2 X3 H1 H2 H3.
  pose proof (early_ping_step c s x1 G R ltac:(lia) ltac:(lia) H1) as E1. rewrite S in E1. cbn [Z.ltb Z.compare] in E1.
  set (s1 := mkp (p_now s + 1000 * x1 + 1) (p_now s + 1000 * x1 + 1) (0 + 1) false (p_streams s) false) in E1.
  assert (G1 : policy_gap c s1 = policy_gap c s) by reflexivity.
  pose proof (early_ping_step c s1 x2 eq_refl eq_refl ltac:(unfold s1; cbn [p_strikes]; lia) ltac:(unfold s1; cbn [p_lastping]; lia) ltac:(rewrite G1; unfold s1; cbn [p_lastping p_now]; lia)) as E2.
  cbn [p_strikes s1 Z.add Z.ltb Z.compare Pos.compare Pos.compare_cont p_now p_streams] in E2.
  set (s2 := mkp (p_now s + 1000 * x1 + 1 + 1000 * x2 + 1) (p_now s + 1000 * x1 + 1 + 1000 * x2 + 1) 2 false (p_streams s) false) in E2.
  change (pstep c s1 x2 PPing = (s2, [])) in E2.
  assert (G2 : policy_gap c s2 = policy_gap c s) by reflexivity.
  pose proof (early_ping_step c s2 x3 eq_refl eq_refl ltac:(unfold s2; cbn [p_strikes]; lia) ltac:(unfold s2; cbn [p_lastping]; lia) ltac:(rewrite G2; unfold s2; cbn [p_lastping p_now]; lia)) as E3.
  cbn [p_strikes s2 Z.ltb Z.eqb Z.compare Pos.compare Pos.compare_cont Pos.eqb p_now p_streams] in E3.
  do 3 eexists. cbn [prun preach]. rewrite E1. cbn [fst snd]. rewrite E2. cbn [fst snd]. rewrite E3. cbn [fst snd flat flat_map app p_now p_goaway].
  split; reflexivity.
Qed.

Lemma decode_kop_x w x o : decode_kop w = Some (x, o) -> 0 <= x.
Proof.
  unfold decode_kop. destruct w as [|k [|x0 [|]]]; try discriminate.
  destruct (in_x x0) eqn:E; [|discriminate]. unfold in_x in E. apply andb_true_iff in E as [E _]. apply Z.leb_le in E.
  intros H. assert (x = x0).
  { repeat match type of H with match ?k with _ => _ end = _ => destruct k; try discriminate end; inversion H; reflexivity. }
  lia.
Qed.
Lemma decode_all_xs ws : forall os, decode_all decode_kop ws = Some os -> xs_ok os.
Proof.
  induction ws as [|w ws IH]; intros os H; cbn [decode_all] in H; [inversion H; constructor|].
  destruct (decode_kop w) as [[x o]|] eqn:E; [|discriminate].
  destruct (decode_all decode_kop ws) as [os'|]; [|discriminate]. inversion H; subst.
  constructor; [exact (decode_kop_x _ _ _ E)|apply IH; reflexivity].
Qed.

Definition wf (cfg : word) (ops : list word) : bool :=
  match run cfg ops with Some _ => true | None => false end.

Theorem model_trace_holds cfg ops : wf cfg ops = true ->
  exists obs, run cfg ops = Some obs /\ holds_b cfg ops obs = true.
Proof.
  unfold wf. destruct (run cfg ops) as [obs|] eqn:R; [|discriminate]. intros _. exists obs. split; [reflexivity|].
  unfold run in R. unfold holds_b, clauses. fold okc.
  destruct cfg as [|m [|a [|b [|d [|]]]]]; try discriminate;
    destruct m as [|[p|p|]|p]; try discriminate.
  - destruct (ms_ok a && ((b =? 0) || (b =? 1))); [|discriminate].
    destruct (decode_all decode_pop ops) as [os|]; [|discriminate]. inversion R; subst.
    apply pclauses_run. intros _. cbn. lia.
  - destruct (ms_ok a && ms_ok b && ((d =? 0) || (d =? 1))) eqn:E; [|discriminate].
    destruct (decode_all decode_kop ops) as [os|] eqn:D; [|discriminate]. inversion R; subst.
    apply andb_true_iff in E as [E _]. apply andb_true_iff in E as [E1 E2].
    assert (C : cfg_ok (mkkc a b (d =? 1))).
    { unfold ms_ok in *. split; cbn.
      - apply andb_true_iff in E1 as [E1 _]. apply andb_true_iff in E1 as [E1 _]. apply Z.leb_le in E1. lia.
      - apply andb_true_iff in E2 as [E2 _]. apply andb_true_iff in E2 as [E2 _]. apply Z.leb_le in E2. lia. }
    apply kclauses_run; auto; [apply (decode_all_xs _ _ D)|apply kinv_init, C|left; cbn; lia].
Qed.
