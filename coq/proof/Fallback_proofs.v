From Coq Require Import List ZArith Bool Lia.
From VLib Require Import Codec Machine.
From VModel Require Import XdsWatch Fallback.
Import ListNotations.
Open Scope Z_scope.

Lemma updv_same f k v : updv f k v k = v.
Proof. unfold updv. rewrite Z.eqb_refl. reflexivity. Qed.
Lemma updv_other f k v x : x <> k -> updv f k v x = f x.
Proof. unfold updv. intro H. destruct (x =? k) eqn:E; [apply Z.eqb_eq in E; contradiction|reflexivity]. Qed.

(* ---------- fallback ---------- *)

Lemma first_closed_spec s : forall cands j, first_closed s cands = j -> j <> -1 ->
  (forall x, In x cands -> x <> -1) ->
  exists pre post, cands = pre ++ j :: post /\ open (sv s j) = false /\
                   forall x, In x pre -> open (sv s x) = true.
Proof.
  induction cands as [|c r IH]; intros j H Hj Hc; cbn [first_closed] in H; [congruence|].
  destruct (open (sv s c)) eqn:Eo.
  - destruct (IH j H Hj) as (pre & post & E1 & E2 & E3); [intros x Hx; apply Hc; right; exact Hx|].
    exists (c :: pre), post. subst r. split; [reflexivity|]. split; [exact E2|].
    intros x [Hx|Hx]; [subst; exact Eo|apply E3; exact Hx].
  - subst j. exists [], r. split; [reflexivity|]. split; [exact Eo|]. intros x [].
Qed.

Definition cands (nsrv f : Z) : list Z := filter (fun j => (f <? j) && (j <? nsrv)) all_srv.

(* handleADSStreamFailure: either nothing happens, or some watched resource has no cached value
   and a channel is created to the first server below the failing one that has none yet,
   which becomes the active server *)
Lemma failure_spec nsrv s f s' b : failure nsrv s f = (s', b) ->
  (b = [] /\ s' = s) \/
  (exists j pre post, b = [j] /\ uncached s = true /\ cands nsrv f = pre ++ j :: post /\
     f < j < nsrv /\ open (sv s j) = false /\ (forall x, In x pre -> open (sv s x) = true) /\
     active s' = j /\ open (sv s' j) = true /\ (forall x, x <> j -> sv s' x = sv s x)).
Proof.
  unfold failure. fold (cands nsrv f). destruct (uncached s) eqn:Eu; [|intro H; inversion H; left; tauto].
  destruct (first_closed s (cands nsrv f) =? -1) eqn:Ej; [intro H; inversion H; left; tauto|].
  apply Z.eqb_neq in Ej. intro H; inversion H; subst s' b; clear H. right.
  assert (Hc: forall x, In x (cands nsrv f) -> x <> -1 /\ f < x < nsrv).
  { intros x Hx. unfold cands in Hx. apply filter_In in Hx. destruct Hx as [Hx1 Hx2].
    apply andb_true_iff in Hx2. destruct Hx2 as [A B]. apply Z.ltb_lt in A, B.
    unfold all_srv in Hx1. cbn in Hx1. lia. }
  destruct (first_closed_spec s (cands nsrv f) _ eq_refl Ej) as (pre & post & E1 & E2 & E3).
  { intros x Hx. apply (Hc x Hx). }
  set (j := first_closed s (cands nsrv f)) in *.
  exists j, pre, post. split; [reflexivity|]. split; [reflexivity|]. split; [exact E1|].
  assert (Hin: In j (cands nsrv f)) by (rewrite E1; apply in_or_app; right; left; reflexivity).
  split; [apply (Hc j Hin)|]. split; [exact E2|]. split; [exact E3|].
  cbn [active sv]. split; [reflexivity|]. split; [rewrite updv_same; reflexivity|].
  intros x Hx. apply updv_other. exact Hx.
Qed.

Lemma send_open s o c : forall x, open (sv (fst (send s o c)) x) = open (sv s x).
Proof.
  intro x. unfold send. destruct (ssender (sv s c) =? 1); [reflexivity|].
  destruct (ssender (sv s c) =? 2); [|reflexivity]. cbn [fst sv]. unfold updv.
  destruct (x =? c) eqn:E; [apply Z.eqb_eq in E; subst; reflexivity|reflexivity].
Qed.
Lemma send_rest s o c : rq (fst (send s o c)) = rq s /\ active (fst (send s o c)) = active s.
Proof.
  unfold send. destruct (ssender (sv s c) =? 1); [tauto|]. destruct (ssender (sv s c) =? 2); cbn; tauto.
Qed.

Lemma unsub_all_open n : forall cs s o x, open (sv (fst (unsub_all s o n cs)) x) = open (sv s x).
Proof.
  induction cs as [|c r IH]; intros s o x; [reflexivity|]. cbn [unsub_all].
  match goal with |- context [send ?S o c] => set (s1 := S) end.
  pose proof (send_open s1 o c x) as H. destruct (send s1 o c) as [s2 o2]. cbn [fst] in H.
  rewrite IH, H. unfold s1. cbn [sv]. unfold updv.
  destruct (x =? c) eqn:E; [apply Z.eqb_eq in E; subst; reflexivity|reflexivity].
Qed.

(* "The client switches to a lower-priority management server only when [a] server's stream
   failed before delivering any response and some watched resource has no cached value":
   a step gives a server a channel it did not have only if it is the first watch (server 0), or
   a stream failure (NewStream failed, or the stream broke before any response on it) of a
   higher-priority server f while a watched resource is uncached; the new channel's server
   becomes active.  (f need NOT be the active server: see fallback_not_active_refuted.) *)
Lemma opened_only_by_failure nsrv s a s' o j : step nsrv s a = (s', o) ->
  open (sv s' j) = true -> open (sv s j) = false ->
  (exists n, a = AWatch n /\ j = 0 /\ active s = -1) \/
  (exists f, (a = AFail f \/ a = ABreak f /\ smsg (sv s f) = false) /\ f < j < nsrv /\
             uncached s = true /\ active s' = j).
Proof.
  intros Hs Ho' Ho. destruct a; cbn [step] in Hs.
  - (* AWatch *)
    destruct (watched (rq s n)); [inversion Hs; subst; congruence|].
    destruct (active s =? -1) eqn:Ea.
    + left. exists n. apply Z.eqb_eq in Ea. split; [reflexivity|]. split; [|exact Ea].
      match type of Hs with context [send ?S no_req ?C] => set (s1 := S) in *; set (c := C) in * end.
      pose proof (send_open s1 no_req c j) as H. destruct (send s1 no_req c) as [s2 o2]. cbn [fst] in H.
      inversion Hs; subst s' o; clear Hs. rewrite H in Ho'. unfold s1, c in Ho'. cbn [sv active] in Ho'.
      unfold updv in Ho'. destruct (j =? 0) eqn:E0; [apply Z.eqb_eq in E0; exact E0|].
      cbn in Ho'. rewrite ?E0 in Ho'. congruence.
    + exfalso.
      match type of Hs with context [send ?S no_req ?C] => set (s1 := S) in *; set (c := C) in * end.
      pose proof (send_open s1 no_req c j) as H. destruct (send s1 no_req c) as [s2 o2]. cbn [fst] in H.
      inversion Hs; subst s' o; clear Hs. rewrite H in Ho'. unfold s1, c in Ho'. cbn [sv active] in Ho'.
      unfold updv in Ho'. destruct (j =? active s) eqn:E0; [apply Z.eqb_eq in E0; subst j; cbn in Ho'|]; congruence.
  - (* AUnwatch *)
    exfalso. destruct (watched (rq s n)); [|inversion Hs; subst; congruence].
    pose proof (unsub_all_open n (chans (rq s n)) s no_req j) as H.
    destruct (unsub_all s no_req n (chans (rq s n))) as [s1 o1]. cbn [fst] in H.
    destruct (existsb _ all_names); inversion Hs; subst s' o; cbn [sv] in Ho'; [congruence|discriminate].
  - (* AAllow *)
    exfalso. destruct (open (sv s s0) && negb (slive (sv s s0))) eqn:E; [|inversion Hs; subst; congruence].
    inversion Hs; subst s' o. cbn [sv] in Ho'. unfold updv in Ho'.
    destruct (j =? s0) eqn:E0; [apply Z.eqb_eq in E0; subst; apply andb_true_iff in E; destruct E; congruence|congruence].
  - (* AFail *)
    destruct (open (sv s s0) && negb (slive (sv s s0))) eqn:E; [|inversion Hs; subst; congruence].
    destruct (failure nsrv s s0) as [s1 b] eqn:Ef. inversion Hs; subst s' o; clear Hs.
    destruct (failure_spec _ _ _ _ _ Ef) as [[_ E1]|(j0 & pre & post & Eb & Eu & _ & Hr & Hoj & _ & Ha & Hoj' & Hoth)].
    + subst s1. congruence.
    + right. exists s0. destruct (Z.eq_dec j j0) as [->|Hne]; [tauto|]. rewrite (Hoth j Hne) in Ho'. congruence.
  - (* AResp *)
    exfalso. destruct (open (sv s s0) && slive (sv s s0)) eqn:E; [|inversion Hs; subst; congruence].
    apply andb_true_iff in E. destruct E as [E1 E2].
    match type of Hs with context [active ?S <? s0] => set (sa := S) in * end.
    assert (Hsa: open (sv sa j) = false).
    { unfold sa. cbn [sv]. unfold updv. destruct (j =? s0) eqn:E0; [apply Z.eqb_eq in E0; subst; congruence|exact Ho]. }
    destruct (active sa <? s0); [inversion Hs; subst s' o; congruence|].
    destruct (s0 <? active sa) eqn:E3; inversion Hs; subst s' o; clear Hs; cbn [sv] in Ho'.
    + cbn beta in Ho'. destruct (s0 <? j); [cbn in Ho'; discriminate|unfold sa in *; cbn [sv] in *; congruence].
    + unfold sa in *; cbn [sv] in *; congruence.
  - (* ABreak *)
    destruct (open (sv s s0) && slive (sv s s0)) eqn:E; [|inversion Hs; subst; congruence].
    apply andb_true_iff in E. destruct E as [E1 E2].
    match type of Hs with context [failure nsrv ?S s0] => set (sa := S) in * end.
    assert (Hsa: open (sv sa j) = false).
    { unfold sa. cbn [sv]. unfold updv. destruct (j =? s0) eqn:E0; [apply Z.eqb_eq in E0; subst; congruence|exact Ho]. }
    destruct (smsg (sv s s0)) eqn:Em; [inversion Hs; subst s' o; congruence|].
    destruct (failure nsrv sa s0) as [s1 b] eqn:Ef. inversion Hs; subst s' o; clear Hs.
    destruct (failure_spec _ _ _ _ _ Ef) as [[_ E3]|(j0 & pre & post & Eb & Eu & _ & Hr & Hoj & _ & Ha & Hoj' & Hoth)].
    + subst s1. congruence.
    + right. exists s0. destruct (Z.eq_dec j j0) as [->|Hne]; [|rewrite (Hoth j Hne) in Ho'; congruence].
      split; [right; split; [reflexivity|exact Em]|]. split; [exact Hr|]. split; [exact Eu|exact Ha].
  - inversion Hs; subst; congruence.
Qed.

(* ---------- revert ---------- *)

Lemma mem_filter_le j c : forall l, c < j -> mem j (filter (fun x => x <=? c) l) = false.
Proof.
  induction l as [|x l IH]; intro H; [reflexivity|]. cbn [filter].
  destruct (x <=? c) eqn:E; [|apply IH; exact H]. cbn [mem]. rewrite (IH H).
  apply Z.leb_le in E. assert (Hx: (x =? j) = false) by (apply Z.eqb_neq; lia). rewrite Hx. reflexivity.
Qed.

Lemma emit_closed a b c o : nth_error (emit a b c o) 2 = Some (201 :: c).
Proof. reflexivity. Qed.

(* "when a higher-priority server delivers an update the client reverts to it, unsubscribes and
   releases all lower-priority servers" *)
Lemma revert_on_higher_priority_update nsrv s c v rs s' o :
  open (sv s c) = true -> slive (sv s c) = true -> c < active s ->
  step nsrv s (AResp c v rs) = (s', o) ->
  active s' = c /\ open (sv s' c) = true /\
  (forall j, c < j -> sv s' j = v_closed) /\
  (forall n j, c < j -> mem j (chans (rq s' n)) = false) /\
  nth_error o 2 = Some (201 :: filter (fun j => (c <? j) && open (sv s j)) all_srv).
Proof.
  intros Ho Hl Hc Hs. cbn [step] in Hs. rewrite Ho, Hl in Hs. cbn [andb] in Hs.
  cbn [active] in Hs.
  assert (E1: (active s <? c) = false) by (apply Z.ltb_ge; lia).
  assert (E2: (c <? active s) = true) by (apply Z.ltb_lt; lia).
  rewrite E1, E2 in Hs. inversion Hs; subst s' o; clear Hs.
  split; [reflexivity|]. split.
  { cbn [active sv rq]. assert (E3: (c <? c) = false) by (apply Z.ltb_irrefl). rewrite E3. rewrite updv_same. reflexivity. }
  split.
  { intros j Hj. cbn [active sv rq]. assert (E3: (c <? j) = true) by (apply Z.ltb_lt; exact Hj). rewrite E3. reflexivity. }
  split.
  { intros n j Hj. cbn [active sv rq]. destruct (watched (rq s n)); [destruct (last_named n rs) as [[k x]|]|];
      cbn [chans]; apply mem_filter_le; exact Hj. }
  assert (Hupd: forall j, open (updv (sv s) c (mkV true true (ssender (sv s c)) true (subs (sv s c))) j) = open (sv s j)).
  { intro j. unfold updv. destruct (j =? c) eqn:E; [apply Z.eqb_eq in E; subst j; cbn; congruence|reflexivity]. }
  rewrite emit_closed. unfold all_srv. cbn [filter sv]. rewrite !Hupd. reflexivity.
Qed.

(* "and ignores updates from servers below the active one" *)
Lemma update_from_lower_priority_ignored nsrv s c v rs s' o :
  active s < c -> step nsrv s (AResp c v rs) = (s', o) -> rq s' = rq s /\ active s' = active s.
Proof.
  intros Hc Hs. cbn [step] in Hs. destruct (open (sv s c) && slive (sv s c)); [|inversion Hs; subst; tauto].
  cbn [active] in Hs. assert (E1: (active s <? c) = true) by (apply Z.ltb_lt; exact Hc). rewrite E1 in Hs.
  inversion Hs; subst. cbn. tauto.
Qed.

(* an update from the active server releases nothing *)
Lemma update_from_active_releases_nothing nsrv s v rs s' o :
  open (sv s (active s)) = true -> slive (sv s (active s)) = true ->
  step nsrv s (AResp (active s) v rs) = (s', o) ->
  active s' = active s /\ (forall j, open (sv s' j) = open (sv s j)) /\ nth_error o 2 = Some [201].
Proof.
  intros Ho Hl Hs. cbn [step] in Hs. rewrite Ho, Hl in Hs. cbn [andb active] in Hs.
  rewrite Z.ltb_irrefl in Hs. inversion Hs; subst s' o; clear Hs. cbn [active sv].
  split; [reflexivity|]. split; [|apply emit_closed].
  intro j. unfold updv. destruct (j =? active s) eqn:E; [apply Z.eqb_eq in E; subst; cbn; congruence|reflexivity].
Qed.

(* ---------- the defect (clause 2) and an incidental one, on concrete histories ---------- *)

(* clause 2: the fallback is triggered by a failure of a server that is not the active one *)
Lemma fallback_not_active_refuted :
  exists ops obs, run [3] ops = Some obs /\ first_fail (clauses [3] ops obs) = Some (2, 4).
Proof. exists [[1; 2]; [3; 0]; [6; 0]; [3; 0]; [6; 0]]. eexists. split; [reflexivity|]. vm_compute. reflexivity. Qed.

(* outside the property's sentences (they say when channels are created / released / ignored,
   not that subscriptions are re-established): a resource first watched during fallback is
   subscribed nowhere after the revert *)
Lemma resource_lost_on_revert_note :
  exists ops obs, run [2] ops = Some obs /\ holds_b [2] ops obs = true /\
    watched (rq (fst (step 2 (fst (step 2 (fst (step 2 (fst (step 2 (fst (step 2 (fst (step 2 init
      (AWatch 0))) (AFail 0))) (AAllow 1))) (AWatch 1))) (AAllow 0))) (AResp 0 1 [(0, 1, 5)]))) 1) = true /\
    chans (rq (fst (step 2 (fst (step 2 (fst (step 2 (fst (step 2 (fst (step 2 (fst (step 2 init
      (AWatch 0))) (AFail 0))) (AAllow 1))) (AWatch 1))) (AAllow 0))) (AResp 0 1 [(0, 1, 5)]))) 1) = [].
Proof.
  exists [[1; 0]; [4; 0]; [3; 1]; [1; 1]; [3; 0]; [5; 0; 1; 0; 1; 5]]. eexists.
  split; [reflexivity|]. vm_compute. repeat split.
Qed.
