From Coq Require Import List ZArith Bool Lia.
From VLib Require Import Codec Machine.
From VModel Require Import XdsWatch Fallback.
Import ListNotations.
Open Scope Z_scope.

Lemma updv_same f k v : updv f k v k = v.
Proof. unfold updv. rewrite Z.eqb_refl. reflexivity. Qed.
Lemma updv_other f k v x : x <> k -> updv f k v x = f x.
Proof. unfold updv. intro H. destruct (x =? k) eqn:E; [apply Z.eqb_eq in E; contradiction|reflexivity]. Qed.

(* ---------- fallback ---------- *)

Lemma first_closed_spec s : forall cands j, first_closed s cands = j -> j <> -1 ->
  (forall x, In x cands -> x <> -1) ->
  exists pre post, cands = pre ++ j :: post /\ open (sv s j) = false /\
                   forall x, In x pre -> open (sv s x) = true.
Proof.
  induction cands as [|c r IH]; intros j H Hj Hc; cbn [first_closed] in H; [congruence|].
  destruct (open (sv s c)) eqn:Eo.
  - destruct (IH j H Hj) as (pre & post & E1 & E2 & E3); [intros x Hx; apply Hc; right; exact Hx|].
    exists (c :: pre), post. subst r. split; [reflexivity|]. split; [exact E2|].
    intros x [Hx|Hx]; [subst; exact Eo|apply E3; exact Hx].
  - subst j. exists [], r. split; [reflexivity|]. split; [exact Eo|]. intros x [].
Qed.

Definition cands (nsrv f : Z) : list Z := filter (fun j => (f <? j) && (j <? nsrv)) all_srv.

(* handleADSStreamFailure: either nothing happens, or some watched resource has no cached value
   and a channel is created to the first server below the failing one that has none yet,
   which becomes the active server *)
Lemma failure_spec nsrv s f s' b : failure nsrv s f = (s', b) ->
  (b = [] /\ s' = s) \/
  (exists j pre post, b = [j] /\ uncached s = true /\ cands nsrv f = pre ++ j :: post /\
     f < j < nsrv /\ open (sv s j) = false /\ (forall x, In x pre -> open (sv s x) = true) /\
     active s' = j /\ open (sv s' j) = true /\ (forall x, x <> j -> sv s' x = sv s x)).
Proof.
  unfold failure. fold (cands nsrv f). destruct (uncached s) eqn:Eu; [|intro H; inversion H; left; tauto].
  destruct (first_closed s (cands nsrv f) =? -1) eqn:Ej; [intro H; inversion H; left; tauto|].
  apply Z.eqb_neq in Ej. intro H; inversion H; subst s' b; clear H. right.
  assert (Hc: forall x, In x (cands nsrv f) -> x <> -1 /\ f < x < nsrv).
  { intros x Hx. unfold cands in Hx. apply filter_In in Hx. destruct Hx as [Hx1 Hx2].
    apply andb_true_iff in Hx2. destruct Hx2 as [A B]. apply Z.ltb_lt in A, B.
    unfold all_srv in Hx1. cbn in Hx1. lia. }
  destruct (first_closed_spec s (cands nsrv f) _ eq_refl Ej) as (pre & post & E1 & E2 & E3).
  { intros x Hx. apply (Hc x Hx). }
  set (j := first_closed s (cands nsrv f)) in *.
  exists j, pre, post. split; [reflexivity|]. split; [reflexivity|]. split; [exact E1|].
  assert (Hin: In j (cands nsrv f)) by (rewrite E1; apply in_or_app; right; left; reflexivity).
  split; [apply (Hc j Hin)|]. split; [exact E2|]. split; [exact E3|].
  cbn [active sv]. split; [reflexivity|]. split; [rewrite updv_same; reflexivity|].
  intros x Hx. apply updv_other. exact Hx.
Qed.

Lemma send_open s o c : forall x, open (sv (fst (send s o c)) x) = open (sv s x).
Proof.
  intro x. unfold send. destruct (ssender (sv s c) =? 1); [reflexivity|].
  destruct (ssender (sv s c) =? 2); [|reflexivity]. cbn [fst sv]. unfold updv.
  destruct (x =? c) eqn:E; [apply Z.eqb_eq in E; subst; reflexivity|reflexivity].
Qed.
Lemma send_rest s o c : rq (fst (send s o c)) = rq s /\ active (fst (send s o c)) = active s.
Proof.
  unfold send. destruct (ssender (sv s c) =? 1); [tauto|]. destruct (ssender (sv s c) =? 2); cbn; tauto.
Qed.

Lemma unsub_all_open n : forall cs s o x, open (sv (fst (unsub_all s o n cs)) x) = open (sv s x).
Proof.
  induction cs as [|c r IH]; intros s o x; [reflexivity|]. cbn [unsub_all].
  match goal with |- context [send ?S o c] => set (s1 := S) end.
  pose proof (send_open s1 o c x) as H. destruct (send s1 o c) as [s2 o2]. cbn [fst] in H.
  rewrite IH, H. unfold s1. cbn [sv]. unfold updv.
  destruct (x =? c) eqn:E; [apply Z.eqb_eq in E; subst; reflexivity|reflexivity].
Qed.

(* "The client switches to a lower-priority management server only when [a] server's stream
   failed before delivering any response and some watched resource has no cached value":
   a step gives a server a channel it did not have only if it is the first watch (server 0), or
   a stream failure (NewStream failed, or the stream broke before any response on it) of a
   higher-priority server f while a watched resource is uncached; the new channel's server
   becomes active.  (f need NOT be the active server: see fallback_not_active_refuted.) *)
Lemma opened_only_by_failure nsrv s a s' o j : step nsrv s a = (s', o) ->
  open (sv s' j) = true -> open (sv s j) = false ->
  (exists n, a = AWatch n /\ j = 0 /\ active s = -1) \/
  (exists f, (a = AFail f \/ a = ABreak f /\ smsg (sv s f) = false) /\ f < j < nsrv /\
             uncached s = true /\ active s' = j).
Proof.
  intros Hs Ho' Ho. destruct a; cbn [step] in Hs.
  - (* AWatch *)
    destruct (watched (rq s n)); [inversion Hs; subst; congruence|].
    destruct (active s =? -1) eqn:Ea.
    + left. exists n. apply Z.eqb_eq in Ea. split; [reflexivity|]. split; [|exact Ea].
      match type of Hs with context [send ?S no_req ?C] => set (s1 := S) in *; set (c := C) in * end.
      pose proof (send_open s1 no_req c j) as H. destruct (send s1 no_req c) as [s2 o2]. cbn [fst] in H.
      inversion Hs; subst s' o; clear Hs. rewrite H in Ho'. unfold s1, c in Ho'. cbn [sv active] in Ho'.
      unfold updv in Ho'. destruct (j =? 0) eqn:E0; [apply Z.eqb_eq in E0; exact E0|].
      cbn in Ho'. rewrite ?E0 in Ho'. congruence.
    + exfalso.
      match type of Hs with context [send ?S no_req ?C] => set (s1 := S) in *; set (c := C) in * end.
      pose proof (send_open s1 no_req c j) as H. destruct (send s1 no_req c) as [s2 o2]. cbn [fst] in H.
      inversion Hs; subst s' o; clear Hs. rewrite H in Ho'. unfold s1, c in Ho'. cbn [sv active] in Ho'.
      unfold updv in Ho'. destruct (j =? active s) eqn:E0; [apply Z.eqb_eq in E0; subst j; cbn in Ho'|]; congruence.
  - (* AUnwatch *)
    exfalso. destruct (watched (rq s n)); [|inversion Hs; subst; congruence].
    pose proof (unsub_all_open n (chans (rq s n)) s no_req j) as H.
    destruct (unsub_all s no_req n (chans (rq s n))) as [s1 o1]. cbn [fst] in H.
    destruct (existsb _ all_names); inversion Hs; subst s' o; cbn [sv] in Ho'; [congruence|discriminate].
  - (* AAllow *)
    exfalso. destruct (open (sv s s0) && negb (slive (sv s s0))) eqn:E; [|inversion Hs; subst; congruence].
    inversion Hs; subst s' o. cbn [sv] in Ho'. unfold updv in Ho'.
    destruct (j =? s0) eqn:E0; [apply Z.eqb_eq in E0; subst; apply andb_true_iff in E; destruct E; congruence|congruence].
  - (* AFail *)
    destruct (open (sv s s0) && negb (slive (sv s s0))) eqn:E; [|inversion Hs; subst; congruence].
    destruct (failure nsrv s s0) as [s1 b] eqn:Ef. inversion Hs; subst s' o; clear Hs.
    destruct (failure_spec _ _ _ _ _ Ef) as [[_ E1]|(j0 & pre & post & Eb & Eu & _ & Hr & Hoj & _ & Ha & Hoj' & Hoth)].
    + subst s1. congruence.
    + right. exists s0. destruct (Z.eq_dec j j0) as [->|Hne]; [tauto|]. rewrite (Hoth j Hne) in Ho'. congruence.
  - (* AResp *)
    exfalso. destruct (open (sv s s0) && slive (sv s s0)) eqn:E; [|inversion Hs; subst; congruence].
    apply andb_true_iff in E. destruct E as [E1 E2].
    match type of Hs with context [active ?S <? s0] => set (sa := S) in * end.
    assert (Hsa: open (sv sa j) = false).
    { unfold sa. cbn [sv]. unfold updv. destruct (j =? s0) eqn:E0; [apply Z.eqb_eq in E0; subst; congruence|exact Ho]. }
    destruct (active sa <? s0); [inversion Hs; subst s' o; congruence|].
    destruct (s0 <? active sa) eqn:E3; inversion Hs; subst s' o; clear Hs; cbn [sv] in Ho'.
    + cbn beta in Ho'. destruct (s0 <? j); [cbn in Ho'; discriminate|unfold sa in *; cbn [sv] in *; congruence].
    + unfold sa in *; cbn [sv] in *; congruence.
  - (* ABreak *)
    destruct (open (sv s s0) && slive (sv s s0)) eqn:E; [|inversion Hs; subst; congruence].
    apply andb_true_iff in E. destruct E as [E1 E2].
    match type of Hs with context [failure nsrv ?S s0] => set (sa := S) in * end.
    assert (Hsa: open (sv sa j) = false).
    { unfold sa. cbn [sv]. unfold updv. destruct (j =? s0) eqn:E0; [apply Z.eqb_eq in E0; subst; congruence|exact Ho]. }
    destruct (smsg (sv s s0)) eqn:Em; [inversion Hs; subst s' o; congruence|].
    destruct (failure nsrv sa s0) as [s1 b] eqn:Ef. inversion Hs; subst s' o; clear Hs.
    destruct (failure_spec _ _ _ _ _ Ef) as [[_ E3]|(j0 & pre & post & Eb & Eu & _ & Hr & Hoj & _ & Ha & Hoj' & Hoth)].
    + subst s1. congruence.
    + right. exists s0. destruct (Z.eq_dec j j0) as [->|Hne]; [|rewrite (Hoth j Hne) in Ho'; congruence].
      split; [right; split; [reflexivity|exact Em]|]. split; [exact Hr|]. split; [exact Eu|exact Ha].
  - inversion Hs; subst; congruence.
Qed.

(* ---------- revert ---------- *)

Lemma mem_filter_le j c : forall l, c < j -> mem j (filter (fun x => x <=? c) l) = false.
Proof.
  induction l as [|x l IH]; intro H; [reflexivity|]. cbn [filter].
  destruct (x <=? c) eqn:E; [|apply IH; exact H]. cbn [mem]. rewrite (IH H).
  apply Z.leb_le in E. assert (Hx: (x =? j) = false) by (apply Z.eqb_neq; lia). rewrite Hx. reflexivity.
Qed.

Lemma emit_closed a b c o : nth_error (emit a b c o) 2 = Some (201 :: c).
Proof. reflexivity. Qed.

(* "when a higher-priority server delivers an update the client reverts to it, unsubscribes and
   releases all lower-priority servers" *)
Lemma revert_on_higher_priority_update nsrv s c v rs s' o :
  open (sv s c) = true -> slive (sv s c) = true -> c < active s ->
  step nsrv s (AResp c v rs) = (s', o) ->
  active s' = c /\ open (sv s' c) = true /\
  (forall j, c < j -> sv s' j = v_closed) /\
  (forall n j, c < j -> mem j (chans (rq s' n)) = false) /\
  nth_error o 2 = Some (201 :: filter (fun j => (c <? j) && open (sv s j)) all_srv).
Proof.
  intros Ho Hl Hc Hs. cbn [step] in Hs. rewrite Ho, Hl in Hs. cbn [andb] in Hs.
  cbn [active] in Hs.
  assert (E1: (active s <? c) = false) by (apply Z.ltb_ge; lia).
  assert (E2: (c <? active s) = true) by (apply Z.ltb_lt; lia).
  rewrite E1, E2 in Hs. inversion Hs; subst s' o; clear Hs.
  split; [reflexivity|]. split.
  { cbn [active sv rq]. assert (E3: (c <? c) = false) by (apply Z.ltb_irrefl). rewrite E3. rewrite updv_same. reflexivity. }
  split.
  { intros j Hj. cbn [active sv rq]. assert (E3: (c <? j) = true) by (apply Z.ltb_lt; exact Hj). rewrite E3. reflexivity. }
  split.
  { intros n j Hj. cbn [active sv rq]. destruct (watched (rq s n)); [destruct (last_named n rs) as [[k x]|]|];
      cbn [chans]; apply mem_filter_le; exact Hj. }
  assert (Hupd: forall j, open (updv (sv s) c (mkV true true (ssender (sv s c)) true (subs (sv s c))) j) = open (sv s j)).
  { intro j. unfold updv. destruct (j =? c) eqn:E; [apply Z.eqb_eq in E; subst j; cbn; congruence|reflexivity]. }
  rewrite emit_closed. unfold all_srv. cbn [filter sv]. rewrite !Hupd. reflexivity.
Qed.

(* "and ignores updates from servers below the active one" *)
Lemma update_from_lower_priority_ignored nsrv s c v rs s' o :
  active s < c -> step nsrv s (AResp c v rs) = (s', o) -> rq s' = rq s /\ active s' = active s.
Proof.
  intros Hc Hs. cbn [step] in Hs. destruct (open (sv s c) && slive (sv s c)); [|inversion Hs; subst; tauto].
  cbn [active] in Hs. assert (E1: (active s <? c) = true) by (apply Z.ltb_lt; exact Hc). rewrite E1 in Hs.
  inversion Hs; subst. cbn. tauto.
Qed.

(* an update from the active server releases nothing *)
Lemma update_from_active_releases_nothing nsrv s v rs s' o :
  open (sv s (active s)) = true -> slive (sv s (active s)) = true ->
  step nsrv s (AResp (active s) v rs) = (s', o) ->
  active s' = active s /\ (forall j, open (sv s' j) = open (sv s j)) /\ nth_error o 2 = Some [201].
Proof.
  intros Ho Hl Hs. cbn [step] in Hs. rewrite Ho, Hl in Hs. cbn [andb active] in Hs.
  rewrite Z.ltb_irrefl in Hs. inversion Hs; subst s' o; clear Hs. cbn [active sv].
  split; [reflexivity|]. split; [|apply emit_closed].
  intro j. unfold updv. destruct (j =? active s) eqn:E; [apply Z.eqb_eq in E; subst; cbn; congruence|reflexivity].
Qed.

(* ---------- the defect (clause 2) and an incidental one, on concrete histories ---------- *)

(* clause 2: the fallback is triggered by a failure of a server that is not the active one *)
Lemma fallback_not_active_refuted :
  exists ops obs, run [3] ops = Some obs /\ first_fail (clauses [3] ops obs) = Some (2, 4).
Proof. exists [[1; 2]; [3; 0]; [6; 0]; [3; 0]; [6; 0]]. eexists. split; [reflexivity|]. vm_compute. reflexivity. Qed.

(* outside the property's sentences (they say when channels are created / released / ignored,
   not that subscriptions are re-established): a resource first watched during fallback is
   subscribed nowhere after the revert *)
Lemma resource_lost_on_revert_note :
  exists ops obs, run [2] ops = Some obs /\ holds_b [2] ops obs = true /\
    watched (rq (fst (step 2 (fst (step 2 (fst (step 2 (fst (step 2 (fst (step 2 (fst (step 2 init
      (AWatch 0))) (AFail 0))) (AAllow 1))) (AWatch 1))) (AAllow 0))) (AResp 0 1 [(0, 1, 5)]))) 1) = true /\
    chans (rq (fst (step 2 (fst (step 2 (fst (step 2 (fst (step 2 (fst (step 2 (fst (step 2 init
      (AWatch 0))) (AFail 0))) (AAllow 1))) (AWatch 1))) (AAllow 0))) (AResp 0 1 [(0, 1, 5)]))) 1) = [].
Proof.
  exists [[1; 0]; [4; 0]; [3; 1]; [1; 1]; [3; 0]; [5; 0; 1; 0; 1; 5]]. eexists.
  split; [reflexivity|]. vm_compute. repeat split.
Qed.

(* ================= history level: the monitor holds on every model trace ================= *)

Definition all_true (l : list (Z * Z * bool)) : bool := forallb (fun c => snd c) l.
Definition core_true (l : list (Z * Z * bool)) : bool :=
  forallb (fun c => snd c || (fst (fst c) =? 2)) l.

Record RI (s : st) (m : mon) : Prop := mkRI {
  r_open : forall j, m_open m j = open (sv s j);
  r_act : m_act m = active s;
  r_msg : forall j, m_msg m j = smsg (sv s j);
  r_w : forall n, m_w m n = watched (rq s n);
  r_unc : forall n, m_unc m n = watched (rq s n) && (qstat (rq s n) =? 1);
  i_srv : forall j, open (sv s j) = true -> In j all_srv;
  i_none : active s = -1 -> forall j, open (sv s j) = false;
  i_act : active s <> -1 -> open (sv s (active s)) = true;
  i_msg : forall j, open (sv s j) = false -> smsg (sv s j) = false;
  i_w : forall n, watched (rq s n) = true -> active s <> -1 /\ In n all_names
}.

Lemma RI_init : RI init mon_init.
Proof. constructor; cbn; intros; try reflexivity; try discriminate; try tauto. Qed.

Definition aop_wf (a : aop) : Prop :=
  match a with
  | AWatch n => In n all_names
  | AFail c | ABreak c | AResp c _ _ | AAllow c => 0 <= c
  | _ => True
  end.

Lemma mem_in x : forall l, mem x l = true <-> In x l.
Proof.
  induction l as [|y l IH]; cbn [mem In]; [split; [discriminate|tauto]|].
  rewrite orb_true_iff, Z.eqb_eq, IH. tauto.
Qed.
Lemma mem_filter x f l : mem x (filter f l) = mem x l && f x.
Proof.
  induction l as [|y l IH]; cbn [filter mem]; [reflexivity|].
  destruct (f y) eqn:E; cbn [mem]; rewrite IH.
  - destruct (y =? x) eqn:Exy; [apply Z.eqb_eq in Exy; subst; rewrite E; destruct (mem x l); reflexivity|reflexivity].
  - destruct (y =? x) eqn:Exy; [apply Z.eqb_eq in Exy; subst; rewrite E; cbn; rewrite andb_false_r; reflexivity|reflexivity].
Qed.
Lemma list_eqb_refl l : list_eqb l l = true.
Proof. induction l as [|x l IH]; cbn; [reflexivity|]. rewrite Z.eqb_refl, IH. reflexivity. Qed.

(* the active server after a step, as the monitor computes it *)
Lemma act_ok s : (forall j, open (sv s j) = true -> In j all_srv) ->
  (active s = -1 -> forall j, open (sv s j) = false) -> (active s <> -1 -> open (sv s (active s)) = true) ->
  (if existsb (fun j => open (sv s j)) all_srv then active s else -1) = active s.
Proof.
  intros H1 H2 H3. destruct (existsb (fun j => open (sv s j)) all_srv) eqn:E; [reflexivity|].
  destruct (Z.eq_dec (active s) (-1)) as [Ha|Ha]; [symmetry; exact Ha|].
  exfalso. assert (Ho := H3 Ha). assert (Hi := H1 _ Ho).
  assert (existsb (fun j => open (sv s j)) all_srv = true) by (apply existsb_exists; eauto). congruence.
Qed.

(* what the monitor needs to know about a step: the header triple and the next state *)
Record step_facts (nsrv : Z) (s : st) (m : mon) (a : aop) (s' : st) (ap : bool) (built closed : list Z) : Prop := mkSF {
  f_open : forall j, open (sv s' j) = (open (sv s j) || mem j built) && negb (mem j closed);
  f_c1 : match built with
         | [] => True
         | [j] => if j =? 0 then (exists n, a = AWatch n) /\ ap = true /\ active s = -1
                  else exists f, (a = AFail f /\ ap = true \/ a = ABreak f /\ ap = true /\ smsg (sv s f) = false) /\
                                 0 <= f < j /\ uncached s = true
         | _ => False
         end;
  f_act : active s' = match built with
                      | j :: _ => j
                      | [] => match a with
                              | AResp c _ _ => if ap && (c <? active s) then c else
                                               if existsb (fun j => open (sv s' j)) all_srv then active s else -1
                              | _ => if existsb (fun j => open (sv s' j)) all_srv then active s else -1
                              end
                      end;
  f_builtsrv : forall j, In j built -> In j all_srv;
  f_c3 : closed = match a with
                  | AResp c _ _ => if ap && (c <? active s) then filter (fun j => (c <? j) && open (sv s j)) all_srv else []
                  | AUnwatch _ => if ap && negb (existsb (fun k => watched (rq s' k)) all_names)
                                  then filter (fun j => open (sv s j)) all_srv else []
                  | _ => []
                  end;
  f_msg : forall j, smsg (sv s' j) =
            (match a with
             | AResp c _ _ => if ap then (if j =? c then true else smsg (sv s j)) else smsg (sv s j)
             | AAllow c => if ap then (if j =? c then false else smsg (sv s j)) else smsg (sv s j)
             | _ => smsg (sv s j)
             end) && open (sv s' j) && negb (mem j built);
  f_w : forall n, watched (rq s' n) =
          match a with
          | AWatch k => if ap then (if n =? k then true else watched (rq s n)) else watched (rq s n)
          | AUnwatch k => if ap then (if n =? k then false else watched (rq s n)) else watched (rq s n)
          | _ => watched (rq s n)
          end;
  f_unc : forall n, watched (rq s' n) && (qstat (rq s' n) =? 1) =
          match a with
          | AWatch k => if ap then (if n =? k then true else watched (rq s n) && (qstat (rq s n) =? 1))
                        else watched (rq s n) && (qstat (rq s n) =? 1)
          | AUnwatch k => if ap then (if n =? k then false else watched (rq s n) && (qstat (rq s n) =? 1))
                          else watched (rq s n) && (qstat (rq s n) =? 1)
          | AResp c _ rs =>
            if ap && (c <=? active s) then
              watched (rq s n) && (qstat (rq s n) =? 1) && match last_named n rs with Some _ => false | None => true end
            else watched (rq s n) && (qstat (rq s n) =? 1)
          | _ => watched (rq s n) && (qstat (rq s n) =? 1)
          end;
  f_inv_srv : forall j, open (sv s' j) = true -> In j all_srv;
  f_inv_none : active s' = -1 -> forall j, open (sv s' j) = false;
  f_inv_act : active s' <> -1 -> open (sv s' (active s')) = true;
  f_inv_msg : forall j, open (sv s' j) = false -> smsg (sv s' j) = false;
  f_inv_w : forall n, watched (rq s' n) = true -> active s' <> -1 /\ In n all_names
}.

Lemma existsb_ext {A} (f g : A -> bool) l : (forall x, f x = g x) -> existsb f l = existsb g l.
Proof. intro H. induction l as [|x l IH]; cbn; [reflexivity|]. rewrite H, IH. reflexivity. Qed.
Lemma filter_ext' {A} (f g : A -> bool) l : (forall x, f x = g x) -> filter f l = filter g l.
Proof. intro H. apply filter_ext. exact H. Qed.

(* from the facts to the monitor *)
Lemma facts_to_monitor nsrv s m a s' ap built closed i reqs :
  RI s m -> aop_wf a -> step_facts nsrv s m a s' ap built closed ->
  let '(m', cl) := mon_step i m a ap built closed reqs in core_true cl = true /\ RI s' m'.
Proof.
  intros HR Hwf HF. unfold mon_step.
  set (failing := match a with
                  | AFail s0 => if ap then s0 else -1
                  | ABreak s0 => if ap && negb (m_msg m s0) then s0 else -1
                  | _ => -1 end).
  cbn [core_true forallb fst snd Z.eqb Pos.eqb orb andb].
  rewrite !orb_true_r, !orb_false_r. cbn [andb]. rewrite andb_true_r.
  split.
  - (* clauses 1 and 3 *)
    apply andb_true_intro. split.
    + pose proof (f_c1 _ _ _ _ _ _ _ _ HF) as H1. destruct built as [|j [|j2 b]]; [reflexivity| |contradiction].
      destruct (j =? 0) eqn:Ej.
      * destruct H1 as ((n & Ea) & Eap & Eact). subst a ap. rewrite (r_act _ _ HR), Eact. reflexivity.
      * destruct H1 as (f & Hf & Hr & Hu).
        assert (Hfail: failing = f).
        { unfold failing. destruct Hf as [(Ea & Eap)|(Ea & Eap & Em)]; subst a ap; [reflexivity|].
          rewrite (r_msg _ _ HR), Em. reflexivity. }
        rewrite Hfail.
        assert (E1: (0 <=? f) = true) by (apply Z.leb_le; lia).
        assert (E2: (f <? j) = true) by (apply Z.ltb_lt; lia).
        rewrite E1, E2. cbn [andb].
        rewrite (existsb_ext (m_unc m) (fun n => watched (rq s n) && (qstat (rq s n) =? 1))); [exact Hu|].
        intro n. apply (r_unc _ _ HR).
    + pose proof (f_c3 _ _ _ _ _ _ _ _ HF) as H3. rewrite (r_act _ _ HR).
      destruct a; subst closed; try apply list_eqb_refl.
      * (* AUnwatch *)
        rewrite (existsb_ext (if ap then updb (m_w m) n false else m_w m) (fun k => watched (rq s' k))).
        2:{ intro k. rewrite (f_w _ _ _ _ _ _ _ _ HF). destruct ap; [|apply (r_w _ _ HR)].
            unfold updb. destruct (k =? n); [reflexivity|apply (r_w _ _ HR)]. }
        destruct (ap && negb (existsb (fun k => watched (rq s' k)) all_names)); [|apply list_eqb_refl].
        rewrite (filter_ext' (m_open m) (fun j => open (sv s j))); [apply list_eqb_refl|apply (r_open _ _ HR)].
      * (* AResp *)
        destruct ap; cbn [andb]; [|apply list_eqb_refl].
        destruct (s0 <? active s); [|apply list_eqb_refl].
        rewrite (filter_ext' (fun j => (s0 <? j) && m_open m j) (fun j => (s0 <? j) && open (sv s j)));
          [apply list_eqb_refl|]. intro j. rewrite (r_open _ _ HR). reflexivity.
  - (* the invariant *)
    assert (Hopen: forall j, (m_open m j || mem j built) && negb (mem j closed) = open (sv s' j)).
    { intro j. rewrite (f_open _ _ _ _ _ _ _ _ HF), (r_open _ _ HR). reflexivity. }
    constructor; cbn [m_open m_act m_msg m_w m_unc].
    + exact Hopen.
    + rewrite (existsb_ext _ (fun j => open (sv s' j)) all_srv Hopen).
      rewrite (f_act _ _ _ _ _ _ _ _ HF), (r_act _ _ HR).
      destruct built as [|j b].
      * destruct a; try reflexivity.
        destruct (ap && (s0 <? active s)) eqn:E; [|reflexivity].
        assert (Ho: open (sv s' s0) = true).
        { pose proof (f_inv_act _ _ _ _ _ _ _ _ HF) as H. rewrite (f_act _ _ _ _ _ _ _ _ HF), E in H.
          apply H. cbn [aop_wf] in Hwf. lia. }
        assert (Hex: existsb (fun j => open (sv s' j)) all_srv = true).
        { apply existsb_exists. exists s0. split; [apply (f_inv_srv _ _ _ _ _ _ _ _ HF); exact Ho|exact Ho]. }
        rewrite Hex. reflexivity.
      * assert (Hj: open (sv s' j) = true).
        { pose proof (f_inv_act _ _ _ _ _ _ _ _ HF) as H. rewrite (f_act _ _ _ _ _ _ _ _ HF) in H. apply H.
          pose proof (f_builtsrv _ _ _ _ _ _ _ _ HF j (or_introl eq_refl)) as Hi. unfold all_srv in Hi. cbn in Hi. lia. }
        assert (Hex: existsb (fun j => open (sv s' j)) all_srv = true).
        { apply existsb_exists. exists j. split; [apply (f_builtsrv _ _ _ _ _ _ _ _ HF); left; reflexivity|exact Hj]. }
        rewrite Hex. reflexivity.
    + intro j. rewrite (f_msg _ _ _ _ _ _ _ _ HF), Hopen. f_equal. f_equal.
      destruct a; try apply (r_msg _ _ HR); destruct ap; try apply (r_msg _ _ HR);
        unfold updb; destruct (j =? s0); try reflexivity; apply (r_msg _ _ HR).
    + intro n. rewrite (f_w _ _ _ _ _ _ _ _ HF).
      destruct a; try apply (r_w _ _ HR); destruct ap; try apply (r_w _ _ HR);
        unfold updb; destruct (n =? n0); try reflexivity; apply (r_w _ _ HR).
    + intro n. rewrite (f_unc _ _ _ _ _ _ _ _ HF), (r_act _ _ HR).
      destruct a; try apply (r_unc _ _ HR).
      * destruct ap; [|apply (r_unc _ _ HR)]. unfold updb. destruct (n =? n0); [reflexivity|apply (r_unc _ _ HR)].
      * destruct ap; [|apply (r_unc _ _ HR)]. unfold updb. destruct (n =? n0); [reflexivity|apply (r_unc _ _ HR)].
      * destruct (ap && (s0 <=? active s)); [|apply (r_unc _ _ HR)]. rewrite (r_unc _ _ HR). reflexivity.
    + apply (f_inv_srv _ _ _ _ _ _ _ _ HF).
    + apply (f_inv_none _ _ _ _ _ _ _ _ HF).
    + apply (f_inv_act _ _ _ _ _ _ _ _ HF).
    + apply (f_inv_msg _ _ _ _ _ _ _ _ HF).
    + apply (f_inv_w _ _ _ _ _ _ _ _ HF).
Qed.

Lemma send_sv s o c x : open (sv (fst (send s o c)) x) = open (sv s x) /\ smsg (sv (fst (send s o c)) x) = smsg (sv s x).
Proof.
  unfold send. destruct (ssender (sv s c) =? 1); [tauto|].
  destruct (ssender (sv s c) =? 2); [|tauto]. cbn [fst sv]. unfold updv.
  destruct (x =? c) eqn:E; [apply Z.eqb_eq in E; subst; cbn; tauto|tauto].
Qed.

Lemma unsub_all_keeps n : forall cs s o,
  (forall x, open (sv (fst (unsub_all s o n cs)) x) = open (sv s x) /\
             smsg (sv (fst (unsub_all s o n cs)) x) = smsg (sv s x)) /\
  rq (fst (unsub_all s o n cs)) = rq s /\ active (fst (unsub_all s o n cs)) = active s.
Proof.
  induction cs as [|c r IH]; intros s o; [cbn; tauto|]. cbn [unsub_all].
  match goal with |- context [send ?S o c] => set (s1 := S) end.
  pose proof (fun x => send_sv s1 o c x) as H. pose proof (send_rest s1 o c) as [H2 H3].
  destruct (send s1 o c) as [s2 o2]. cbn [fst] in *.
  destruct (IH s2 o2) as (A & B & C). split; [|split; [rewrite B, H2; reflexivity|rewrite C, H3; reflexivity]].
  intro x. destruct (A x) as [A1 A2]. destruct (H x) as [H0 H1]. rewrite A1, A2, H0, H1. unfold s1. cbn [sv]. unfold updv.
  destruct (x =? c) eqn:E; [apply Z.eqb_eq in E; subst; cbn; tauto|tauto].
Qed.

(* a step that creates and releases nothing and keeps the active server *)
Lemma facts_plain nsrv s m a s' (ap : bool) (X : Z -> bool) :
  RI s m ->
  (forall j, open (sv s' j) = open (sv s j)) -> active s' = active s ->
  (forall j, smsg (sv s' j) = X j) -> (forall j, open (sv s j) = false -> X j = false) ->
  (forall j, X j = match a with
             | AResp c _ _ => if ap then (if j =? c then true else smsg (sv s j)) else smsg (sv s j)
             | AAllow c => if ap then (if j =? c then false else smsg (sv s j)) else smsg (sv s j)
             | _ => smsg (sv s j)
             end) ->
  (match a with
   | AResp c _ _ => ap && (c <? active s) = false
   | AUnwatch _ => ap && negb (existsb (fun k => watched (rq s' k)) all_names) = false
   | _ => True
   end) ->
  (forall n, watched (rq s' n) =
          match a with
          | AWatch k => if ap then (if n =? k then true else watched (rq s n)) else watched (rq s n)
          | AUnwatch k => if ap then (if n =? k then false else watched (rq s n)) else watched (rq s n)
          | _ => watched (rq s n)
          end) ->
  (forall n, watched (rq s' n) && (qstat (rq s' n) =? 1) =
          match a with
          | AWatch k => if ap then (if n =? k then true else watched (rq s n) && (qstat (rq s n) =? 1))
                        else watched (rq s n) && (qstat (rq s n) =? 1)
          | AUnwatch k => if ap then (if n =? k then false else watched (rq s n) && (qstat (rq s n) =? 1))
                          else watched (rq s n) && (qstat (rq s n) =? 1)
          | AResp c _ rs =>
            if ap && (c <=? active s) then
              watched (rq s n) && (qstat (rq s n) =? 1) && match last_named n rs with Some _ => false | None => true end
            else watched (rq s n) && (qstat (rq s n) =? 1)
          | _ => watched (rq s n) && (qstat (rq s n) =? 1)
          end) ->
  (forall n, watched (rq s' n) = true -> active s <> -1 /\ In n all_names) ->
  step_facts nsrv s m a s' ap [] [].
Proof.
  intros HR Ho Ha Hm Hmc HX Hc3 Hw Hu Hiw.
  assert (Hact: (if existsb (fun j => open (sv s' j)) all_srv then active s else -1) = active s).
  { rewrite (existsb_ext _ (fun j => open (sv s j)) all_srv Ho).
    apply act_ok; [apply (i_srv _ _ HR)|apply (i_none _ _ HR)|apply (i_act _ _ HR)]. }
  constructor.
  - intro j. rewrite Ho. cbn [mem]. rewrite orb_false_r, andb_true_r. reflexivity.
  - exact I.
  - rewrite Ha. destruct a; try (symmetry; exact Hact). rewrite Hc3. symmetry; exact Hact.
  - intros j [].
  - destruct a; try reflexivity; rewrite Hc3; reflexivity.
  - intro j. rewrite Hm, <- HX, Ho. cbn [mem negb]. rewrite andb_true_r.
    destruct (open (sv s j)) eqn:E; [rewrite andb_true_r; reflexivity|rewrite (Hmc j E); reflexivity].
  - exact Hw.
  - exact Hu.
  - intros j Hj. rewrite Ho in Hj. apply (i_srv _ _ HR j Hj).
  - intros Hn j. rewrite Ho. rewrite Ha in Hn. apply (i_none _ _ HR Hn).
  - intros Hn. rewrite Ha in Hn |- *. rewrite Ho. apply (i_act _ _ HR Hn).
  - intros j Hj. rewrite Hm. apply Hmc. rewrite <- Ho. exact Hj.
  - intros n Hn. rewrite Ha. apply Hiw. exact Hn.
Qed.

Definition has_facts (nsrv : Z) (s : st) (m : mon) (a : aop) : Prop :=
  exists s' ap built closed o, step nsrv s a = (s', emit ap built closed o) /\
    step_facts nsrv s m a s' ap built closed.

Lemma facts_skip nsrv s m a : RI s m -> step nsrv s a = skip s -> has_facts nsrv s m a.
Proof.
  intros HR Hs. exists s, false, [], [], no_req. split; [exact Hs|].
  apply (facts_plain nsrv s m a s false (fun j => smsg (sv s j))); try reflexivity; try exact HR.
  - apply (i_msg _ _ HR).
  - intro j. destruct a; reflexivity.
  - destruct a; try exact I; reflexivity.
  - intro n. destruct a; reflexivity.
  - intro n. destruct a; reflexivity.
  - apply (i_w _ _ HR).
Qed.

Lemma facts_allow nsrv s m c : RI s m -> has_facts nsrv s m (AAllow c).
Proof.
  intro HR. destruct (open (sv s c)) eqn:Eo; [destruct (slive (sv s c)) eqn:El|].
  1,3: apply facts_skip; [exact HR|cbn [step]; rewrite Eo, ?El; reflexivity].
  set (s1 := mkS (updv (sv s) c (mkV true true 1 false (subs (sv s c)))) (rq s) (active s)).
  exists s1, true, [], [], (match subs (sv s c) with [] => no_req | _ => updo no_req c (subs (sv s c)) end).
  split; [cbn [step]; rewrite Eo, El; reflexivity|].
  apply (facts_plain nsrv s m (AAllow c) s1 true (fun j => if j =? c then false else smsg (sv s j))); try exact HR; try exact I.
  - intro j. unfold s1. cbn [sv]. unfold updv. destruct (j =? c) eqn:Ej; [apply Z.eqb_eq in Ej; subst; cbn; congruence|reflexivity].
  - reflexivity.
  - intro j. unfold s1. cbn [sv]. unfold updv. destruct (j =? c); reflexivity.
  - intros j Hj. destruct (j =? c); [reflexivity|apply (i_msg _ _ HR j Hj)].
  - intro j. reflexivity.
  - intro n. reflexivity.
  - intro n. reflexivity.
  - intros n Hn. apply (i_w _ _ HR n Hn).
Qed.

Lemma failure_rq nsrv s f n :
  watched (rq (fst (failure nsrv s f)) n) = watched (rq s n) /\ qstat (rq (fst (failure nsrv s f)) n) = qstat (rq s n).
Proof.
  unfold failure. destruct (uncached s); [|cbn; tauto].
  destruct (first_closed s _ =? -1); cbn [fst rq]; [tauto|].
  destruct (watched (rq s n)) eqn:Ew; cbn; rewrite ?Ew; tauto.
Qed.
Lemma failure_msg nsrv s f j : snd (failure nsrv s f) = [j] -> smsg (sv (fst (failure nsrv s f)) j) = false.
Proof.
  unfold failure. destruct (uncached s); [|cbn; discriminate].
  destruct (first_closed s _ =? -1); cbn [fst snd sv]; [discriminate|].
  intro H. inversion H. rewrite updv_same. reflexivity.
Qed.

(* stream failure that is not "after a response" *)
Lemma facts_failure nsrv s m a f s0 s1 b :
  RI s m -> 0 <= f ->
  (a = AFail f \/ a = ABreak f /\ smsg (sv s f) = false) ->
  (forall j, open (sv s0 j) = open (sv s j) /\ smsg (sv s0 j) = smsg (sv s j)) ->
  rq s0 = rq s -> active s0 = active s ->
  failure nsrv s0 f = (s1, b) ->
  step_facts nsrv s m a s1 true b [].
Proof.
  intros HR Hf Ha Hsv Hrq Hact Hfail.
  assert (Hunc: uncached s0 = uncached s) by (unfold uncached; rewrite Hrq; reflexivity).
  destruct (failure_spec _ _ _ _ _ Hfail) as [[Eb Es]|(j & pre & post & Eb & Eu & Ec & Hr & Hoj & Hpre & Haj & Hoj' & Hoth)].
  - subst b s1.
    apply (facts_plain nsrv s m a s0 true (fun j => smsg (sv s j))); try exact HR.
    + intro j. apply Hsv.
    + exact Hact.
    + intro j. apply Hsv.
    + apply (i_msg _ _ HR).
    + intro j. destruct Ha as [->|[-> _]]; reflexivity.
    + destruct Ha as [->|[-> _]]; exact I.
    + intro n. rewrite Hrq. destruct Ha as [->|[-> _]]; reflexivity.
    + intro n. rewrite Hrq. destruct Ha as [->|[-> _]]; reflexivity.
    + intros n Hn. rewrite Hrq in Hn. apply (i_w _ _ HR n Hn).
  - subst b.
    assert (Hin: In j all_srv).
    { assert (In j (cands nsrv f)) by (rewrite Ec; apply in_or_app; right; left; reflexivity).
      unfold cands in H. apply filter_In in H. tauto. }
    assert (Hj0: (j =? 0) = false) by (apply Z.eqb_neq; lia).
    assert (Hsv1: forall x, open (sv s1 x) = (if x =? j then true else open (sv s x)) /\
                            smsg (sv s1 x) = (if x =? j then false else smsg (sv s x))).
    { intro x. destruct (x =? j) eqn:Ex.
      - apply Z.eqb_eq in Ex. subst x. split; [exact Hoj'|].
        pose proof (failure_msg nsrv s0 f j) as Hm. rewrite Hfail in Hm. apply Hm. reflexivity.
      - apply Z.eqb_neq in Ex. rewrite (Hoth x Ex). apply Hsv. }
    assert (Hrq1: forall n, watched (rq s1 n) = watched (rq s n) /\ qstat (rq s1 n) = qstat (rq s n)).
    { intro n. pose proof (failure_rq nsrv s0 f n) as Hq. rewrite Hfail in Hq. cbn [fst] in Hq. rewrite Hrq in Hq. exact Hq. }
    assert (Hoj_s: open (sv s j) = false) by (rewrite <- (proj1 (Hsv j)); exact Hoj).
    constructor.
    + intro x. destruct (Hsv1 x) as [A _]. rewrite A. cbn [mem negb]. rewrite andb_true_r, orb_false_r.
      rewrite (Z.eqb_sym j x). destruct (x =? j); [rewrite orb_true_r; reflexivity|rewrite orb_false_r; reflexivity].
    + rewrite Hj0. exists f. split; [|split; [lia|rewrite <- Hunc; exact Eu]].
      destruct Ha as [->|[-> Em]]; [left; tauto|right; tauto].
    + exact Haj.
    + intros x [Hx|[]]. subst x. exact Hin.
    + destruct Ha as [->|[-> _]]; reflexivity.
    + intro x. destruct (Hsv1 x) as [A B]. rewrite A, B. cbn [mem negb]. rewrite orb_false_r, (Z.eqb_sym j x).
      assert (Hx: smsg (sv s x) = match a with
                 | AResp c _ _ => smsg (sv s x) | AAllow c => smsg (sv s x) | _ => smsg (sv s x) end) by (destruct a; reflexivity).
      destruct (x =? j) eqn:Ex.
      * cbn. rewrite andb_false_r. reflexivity.
      * cbn [negb]. rewrite andb_true_r.
        replace (match a with
                 | AResp c _ _ => if true then if x =? c then true else smsg (sv s x) else smsg (sv s x)
                 | AAllow c => if true then if x =? c then false else smsg (sv s x) else smsg (sv s x)
                 | _ => smsg (sv s x) end) with (smsg (sv s x)) by (destruct Ha as [->|[-> _]]; reflexivity).
        destruct (open (sv s x)) eqn:Eo; [rewrite andb_true_r; reflexivity|rewrite (i_msg _ _ HR x Eo); reflexivity].
    + intro n. destruct (Hrq1 n) as [A _]. rewrite A. destruct Ha as [->|[-> _]]; reflexivity.
    + intro n. destruct (Hrq1 n) as [A B]. rewrite A, B. destruct Ha as [->|[-> _]]; reflexivity.
    + intros x Hx. destruct (Hsv1 x) as [A _]. rewrite A in Hx. destruct (x =? j) eqn:Ex.
      * apply Z.eqb_eq in Ex. subst x. exact Hin.
      * apply (i_srv _ _ HR x Hx).
    + intro Hn. lia.
    + intros _. rewrite Haj. exact Hoj'.
    + intros x Hx. destruct (Hsv1 x) as [A B]. rewrite B. rewrite A in Hx. destruct (x =? j); [reflexivity|].
      apply (i_msg _ _ HR x Hx).
    + intros n Hn. destruct (Hrq1 n) as [A _]. rewrite A in Hn. split; [lia|apply (i_w _ _ HR n Hn)].
Qed.

Lemma facts_fail nsrv s m c : RI s m -> 0 <= c -> has_facts nsrv s m (AFail c).
Proof.
  intros HR Hc. destruct (open (sv s c)) eqn:Eo; [destruct (slive (sv s c)) eqn:El|].
  1,3: apply facts_skip; [exact HR|cbn [step]; rewrite Eo, ?El; reflexivity].
  destruct (failure nsrv s c) as [s1 b] eqn:Ef.
  exists s1, true, b, [], no_req. split; [cbn [step]; rewrite Eo, El, Ef; reflexivity|].
  apply (facts_failure nsrv s m (AFail c) c s s1 b HR Hc); try reflexivity; try exact Ef.
  - left; reflexivity.
  - intro j; tauto.
Qed.

Lemma facts_break nsrv s m c : RI s m -> 0 <= c -> has_facts nsrv s m (ABreak c).
Proof.
  intros HR Hc. destruct (open (sv s c)) eqn:Eo; [destruct (slive (sv s c)) eqn:El|].
  2,3: apply facts_skip; [exact HR|cbn [step]; rewrite Eo, ?El; reflexivity].
  set (s0 := mkS (updv (sv s) c (mkV true false 2 (smsg (sv s c)) (subs (sv s c)))) (rq s) (active s)).
  assert (Hsv: forall j, open (sv s0 j) = open (sv s j) /\ smsg (sv s0 j) = smsg (sv s j)).
  { intro j. unfold s0. cbn [sv]. unfold updv. destruct (j =? c) eqn:E; [apply Z.eqb_eq in E; subst; cbn; rewrite Eo; tauto|tauto]. }
  destruct (smsg (sv s c)) eqn:Em.
  - exists s0, true, [], [], no_req. split; [cbn [step]; rewrite Eo, El, Em; reflexivity|].
    apply (facts_plain nsrv s m (ABreak c) s0 true (fun j => smsg (sv s j))); try exact HR; try exact I; try reflexivity.
    + intro j. apply Hsv.
    + intro j. apply Hsv.
    + apply (i_msg _ _ HR).
    + apply (i_w _ _ HR).
  - destruct (failure nsrv s0 c) as [s1 b] eqn:Ef.
    exists s1, true, b, [], no_req. split; [cbn [step]; rewrite Eo, El, Em; fold s0; rewrite Ef; reflexivity|].
    apply (facts_failure nsrv s m (ABreak c) c s0 s1 b HR Hc); try reflexivity; try exact Ef; try exact Hsv.
    right. split; [reflexivity|exact Em].
Qed.

Lemma facts_watch nsrv s m n : RI s m -> In n all_names -> has_facts nsrv s m (AWatch n).
Proof.
  intros HR Hn. destruct (watched (rq s n)) eqn:Ew.
  { apply facts_skip; [exact HR|cbn [step]; rewrite Ew; reflexivity]. }
  destruct (active s =? -1) eqn:Ea.
  - (* first watch: channel to server 0 *)
    apply Z.eqb_eq in Ea.
    set (s0 := mkS (updv (sv s) 0 (mkV true false 0 false [])) (rq s) 0).
    set (x := sv s0 0).
    set (s1 := mkS (updv (sv s0) 0 (mkV (open x) (slive x) (ssender x) (smsg x) (ins n (subs x))))
                   (updq (rq s0) n (mkQ true 1 [0])) 0).
    destruct (send s1 no_req 0) as [s2 o] eqn:Es.
    exists s2, true, [0], [], o. split.
    { cbn [step]. rewrite Ew. assert (E: (active s =? -1) = true) by (apply Z.eqb_eq; exact Ea). rewrite E.
      cbn [active]. fold s0. fold x. fold s1. rewrite Es. reflexivity. }
    assert (Hsv: forall j, open (sv s2 j) = (if j =? 0 then true else open (sv s j)) /\
                           smsg (sv s2 j) = (if j =? 0 then false else smsg (sv s j))).
    { intro j. pose proof (send_sv s1 no_req 0 j) as H. rewrite Es in H. cbn [fst] in H. destruct H as [H1 H2].
      rewrite H1, H2. unfold s1, x, s0. cbn [sv]. unfold updv. destruct (j =? 0); cbn; tauto. }
    assert (Hrq: rq s2 = updq (rq s) n (mkQ true 1 [0]) /\ active s2 = 0).
    { pose proof (send_rest s1 no_req 0) as H. rewrite Es in H. cbn [fst] in H. exact H. }
    destruct Hrq as [Hrq Hact].
    assert (Hall: forall j, open (sv s j) = false) by (apply (i_none _ _ HR Ea)).
    constructor.
    + intro j. destruct (Hsv j) as [A _]. rewrite A, Hall. cbn [mem negb orb]. rewrite andb_true_r, orb_false_r.
      rewrite (Z.eqb_sym 0 j). destruct (j =? 0); reflexivity.
    + cbn. split; [exists n; reflexivity|tauto].
    + exact Hact.
    + intros j [Hj|[]]. subst j. unfold all_srv. left; reflexivity.
    + reflexivity.
    + intro j. destruct (Hsv j) as [A B]. rewrite A, B. cbn [mem negb orb]. rewrite orb_false_r, (Z.eqb_sym 0 j).
      destruct (j =? 0); cbn; [rewrite andb_false_r; reflexivity|].
      rewrite Hall, andb_false_r. apply (i_msg _ _ HR j (Hall j)).
    + intro k. rewrite Hrq. unfold updq. destruct (k =? n); reflexivity.
    + intro k. rewrite Hrq. unfold updq. destruct (k =? n); reflexivity.
    + intros j Hj. destruct (Hsv j) as [A _]. rewrite A, Hall in Hj. destruct (j =? 0) eqn:E; [|discriminate].
      apply Z.eqb_eq in E. subst. left; reflexivity.
    + intro H. lia.
    + intros _. rewrite Hact. destruct (Hsv 0) as [A _]. rewrite A. reflexivity.
    + intros j Hj. destruct (Hsv j) as [A B]. rewrite B. rewrite A in Hj. destruct (j =? 0); [reflexivity|].
      apply (i_msg _ _ HR j Hj).
    + intros k Hk. rewrite Hrq in Hk. unfold updq in Hk. split; [lia|].
      destruct (k =? n) eqn:E; [apply Z.eqb_eq in E; subst; exact Hn|apply (i_w _ _ HR k Hk)].
  - (* watch on the active channel *)
    apply Z.eqb_neq in Ea.
    set (c := active s). set (x := sv s c).
    set (s1 := mkS (updv (sv s) c (mkV (open x) (slive x) (ssender x) (smsg x) (ins n (subs x))))
                   (updq (rq s) n (mkQ true 1 [c])) c).
    destruct (send s1 no_req c) as [s2 o] eqn:Es.
    exists s2, true, [], [], o. split.
    { cbn [step]. rewrite Ew. assert (E: (active s =? -1) = false) by (apply Z.eqb_neq; exact Ea). rewrite E.
      fold c. fold x. fold s1. rewrite Es. reflexivity. }
    assert (Hsv: forall j, open (sv s2 j) = open (sv s j) /\ smsg (sv s2 j) = smsg (sv s j)).
    { intro j. pose proof (send_sv s1 no_req c j) as H. rewrite Es in H. cbn [fst] in H. destruct H as [H1 H2].
      rewrite H1, H2. unfold s1, x. cbn [sv]. unfold updv. destruct (j =? c) eqn:E; [apply Z.eqb_eq in E; subst; cbn; tauto|tauto]. }
    assert (Hrq: rq s2 = updq (rq s) n (mkQ true 1 [c]) /\ active s2 = c).
    { pose proof (send_rest s1 no_req c) as H. rewrite Es in H. cbn [fst] in H. exact H. }
    destruct Hrq as [Hrq Hact].
    apply (facts_plain nsrv s m (AWatch n) s2 true (fun j => smsg (sv s j))); try exact HR; try exact I.
    + intro j. apply Hsv.
    + exact Hact.
    + intro j. apply Hsv.
    + apply (i_msg _ _ HR).
    + intro j. reflexivity.
    + intro k. rewrite Hrq. unfold updq. destruct (k =? n); reflexivity.
    + intro k. rewrite Hrq. unfold updq. destruct (k =? n); reflexivity.
    + intros k Hk. rewrite Hrq in Hk. unfold updq in Hk. split; [exact Ea|].
      destruct (k =? n) eqn:E; [apply Z.eqb_eq in E; subst; exact Hn|apply (i_w _ _ HR k Hk)].
Qed.

Lemma facts_unwatch nsrv s m n : RI s m -> has_facts nsrv s m (AUnwatch n).
Proof.
  intro HR. destruct (watched (rq s n)) eqn:Ew.
  2:{ apply facts_skip; [exact HR|cbn [step]; rewrite Ew; reflexivity]. }
  destruct (unsub_all s no_req n (chans (rq s n))) as [s1 o] eqn:Eu.
  pose proof (unsub_all_keeps n (chans (rq s n)) s no_req) as (Hsv & Hrq & Hact). rewrite Eu in Hsv, Hrq, Hact. cbn [fst] in *.
  set (s2 := mkS (sv s1) (updq (rq s1) n q_none) (active s1)).
  assert (Hw2: forall k, watched (rq s2 k) = if k =? n then false else watched (rq s k)).
  { intro k. unfold s2. cbn [rq]. rewrite Hrq. unfold updq. destruct (k =? n); reflexivity. }
  assert (Hu2: forall k, watched (rq s2 k) && (qstat (rq s2 k) =? 1) =
                         if k =? n then false else watched (rq s k) && (qstat (rq s k) =? 1)).
  { intro k. unfold s2. cbn [rq]. rewrite Hrq. unfold updq. destruct (k =? n); reflexivity. }
  destruct (existsb (fun k => watched (rq s2 k)) all_names) eqn:Eany.
  - exists s2, true, [], [], o. split; [cbn [step]; rewrite Ew, Eu; fold s2; rewrite Eany; reflexivity|].
    apply (facts_plain nsrv s m (AUnwatch n) s2 true (fun j => smsg (sv s j))); try exact HR.
    + intro j. apply Hsv.
    + exact Hact.
    + intro j. apply Hsv.
    + apply (i_msg _ _ HR).
    + intro j. reflexivity.
    + rewrite Eany. reflexivity.
    + exact Hw2.
    + exact Hu2.
    + intros k Hk. rewrite Hw2 in Hk. destruct (k =? n); [discriminate|apply (i_w _ _ HR k Hk)].
  - set (closed := filter (fun c => open (sv s2 c)) all_srv).
    exists (mkS (fun _ => v_closed) (rq s2) (-1)), true, [], closed, o.
    split; [cbn [step]; rewrite Ew, Eu; fold s2; rewrite Eany; reflexivity|].
    assert (Hcl: closed = filter (fun j => open (sv s j)) all_srv).
    { unfold closed. apply filter_ext. intro j. unfold s2. cbn [sv]. apply Hsv. }
    constructor; cbn [sv rq active].
    + intro j. cbn [open v_closed mem orb]. rewrite orb_false_r, Hcl, mem_filter.
      destruct (open (sv s j)) eqn:Eo; [|reflexivity].
      assert (Hm: mem j all_srv = true) by (apply mem_in; apply (i_srv _ _ HR j Eo)). rewrite Hm. reflexivity.
    + exact I.
    + reflexivity.
    + intros j [].
    + rewrite Eany. cbn [andb negb]. exact Hcl.
    + intro j. cbn. rewrite andb_false_r. reflexivity.
    + exact Hw2.
    + exact Hu2.
    + intros j Hj. cbn in Hj. discriminate.
    + intros _ j. reflexivity.
    + intro H. contradiction.
    + intros j _. reflexivity.
    + intros k Hk. exfalso. pose proof Hk as Hk'. rewrite Hw2 in Hk'. destruct (k =? n) eqn:E; [discriminate|].
      destruct (i_w _ _ HR k Hk') as [_ Hin].
      assert (existsb (fun k => watched (rq s2 k)) all_names = true) by (apply existsb_exists; eauto). congruence.
Qed.

Lemma proc_unc (q : rsrc) (o : option (Z * Z)) :
  let q' := if watched q then match o with Some (k, _) => mkQ true (if k =? 1 then 2 else 3) (chans q) | None => q end else q in
  watched q' = watched q /\
  watched q' && (qstat q' =? 1) = watched q && (qstat q =? 1) && match o with Some _ => false | None => true end.
Proof.
  destruct (watched q) eqn:Ew; cbn zeta.
  - destruct o as [[k c]|]; cbn [watched qstat]; rewrite ?Ew.
    + split; [reflexivity|]. destruct (k =? 1); cbn; rewrite andb_false_r; reflexivity.
    + split; [reflexivity|]. rewrite andb_true_r. reflexivity.
  - rewrite Ew. cbn. tauto.
Qed.

Lemma facts_resp nsrv s m c v rs : RI s m -> 0 <= c -> has_facts nsrv s m (AResp c v rs).
Proof.
  intros HR Hc. destruct (open (sv s c)) eqn:Eo; [destruct (slive (sv s c)) eqn:El|].
  2,3: apply facts_skip; [exact HR|cbn [step]; rewrite Eo, ?El; reflexivity].
  set (s0 := mkS (updv (sv s) c (mkV true true (ssender (sv s c)) true (subs (sv s c)))) (rq s) (active s)).
  assert (Hsv: forall j, open (sv s0 j) = open (sv s j) /\ smsg (sv s0 j) = if j =? c then true else smsg (sv s j)).
  { intro j. unfold s0. cbn [sv]. unfold updv. destruct (j =? c) eqn:E; [apply Z.eqb_eq in E; subst; cbn; rewrite Eo; tauto|tauto]. }
  assert (HX: forall j, open (sv s j) = false -> (if j =? c then true else smsg (sv s j)) = false).
  { intros j Hj. destruct (j =? c) eqn:E; [apply Z.eqb_eq in E; subst; congruence|apply (i_msg _ _ HR j Hj)]. }
  destruct (active s <? c) eqn:E1.
  - (* below the active server: ignored *)
    exists s0, true, [], [], (updo no_req c (subs (sv s c))).
    split; [cbn [step]; rewrite Eo, El; cbn [andb active]; rewrite E1; reflexivity|].
    apply Z.ltb_lt in E1.
    assert (E2: (c <? active s) = false) by (apply Z.ltb_ge; lia).
    assert (E3: (c <=? active s) = false) by (apply Z.leb_gt; lia).
    apply (facts_plain nsrv s m (AResp c v rs) s0 true (fun j => if j =? c then true else smsg (sv s j))); try exact HR; try reflexivity.
    + intro j. apply Hsv.
    + intro j. apply Hsv.
    + exact HX.
    + cbn [andb]. exact E2.
    + intro n. cbn [andb]. rewrite E3. reflexivity.
    + apply (i_w _ _ HR).
  - destruct (c <? active s) eqn:E2.
    + (* above the active server: revert *)
      apply Z.ltb_lt in E2.
      set (closed := filter (fun j => (c <? j) && open (sv s0 j)) all_srv).
      set (s1 := mkS (fun j => if c <? j then v_closed else sv s0 j)
                     (fun n => let q := rq s0 n in mkQ (watched q) (qstat q) (filter (fun j => j <=? c) (chans q))) c).
      set (s2 := mkS (sv s1)
                     (fun n => let q := rq s1 n in
                               if watched q then match last_named n rs with
                                                 | Some (k, _) => mkQ true (if k =? 1 then 2 else 3) (chans q)
                                                 | None => q end else q) (active s1)).
      exists s2, true, [], closed, (updo no_req c (subs (sv s c))).
      split.
      { cbn [step]. rewrite Eo, El. cbn [andb active]. rewrite E1.
        assert (E2': (c <? active s) = true) by (apply Z.ltb_lt; exact E2). rewrite E2'. reflexivity. }
      assert (E2': (c <? active s) = true) by (apply Z.ltb_lt; exact E2).
      assert (E3: (c <=? active s) = true) by (apply Z.leb_le; lia).
      assert (Hcl: closed = filter (fun j => (c <? j) && open (sv s j)) all_srv).
      { unfold closed. apply filter_ext. intro j. rewrite (proj1 (Hsv j)). reflexivity. }
      assert (Ho2: forall j, open (sv s2 j) = if c <? j then false else open (sv s j)).
      { intro j. unfold s2, s1. cbn [sv]. destruct (c <? j); [reflexivity|apply Hsv]. }
      assert (Hm2: forall j, smsg (sv s2 j) = if c <? j then false else if j =? c then true else smsg (sv s j)).
      { intro j. unfold s2, s1. cbn [sv]. destruct (c <? j); [reflexivity|apply Hsv]. }
      assert (Hq: forall n, watched (rq s2 n) = watched (rq s n) /\
                  watched (rq s2 n) && (qstat (rq s2 n) =? 1) =
                  watched (rq s n) && (qstat (rq s n) =? 1) && match last_named n rs with Some _ => false | None => true end).
      { intro n. unfold s2. cbn [rq]. 
        pose proof (proc_unc (rq s1 n) (last_named n rs)) as H. cbn zeta in H. unfold s1 at 3 4 5 6 in H. cbn [rq watched qstat] in H.
        unfold s0 in H. cbn [rq] in H. exact H. }
      constructor.
      * intro j. rewrite Ho2. cbn [mem orb]. rewrite orb_false_r, Hcl, mem_filter.
        destruct (c <? j); cbn [andb].
        -- destruct (open (sv s j)) eqn:Eoj; [|reflexivity].
           assert (Hm: mem j all_srv = true) by (apply mem_in; apply (i_srv _ _ HR j Eoj)). rewrite Hm. reflexivity.
        -- rewrite andb_false_r. cbn. rewrite andb_true_r. reflexivity.
      * exact I.
      * cbn [andb]. rewrite E2'. reflexivity.
      * intros j [].
      * cbn [andb]. rewrite E2'. exact Hcl.
      * intro j. rewrite Hm2, Ho2. cbn [mem negb]. rewrite andb_true_r.
        destruct (c <? j); [rewrite andb_false_r; reflexivity|].
        destruct (open (sv s j)) eqn:Eoj; [rewrite andb_true_r; reflexivity|rewrite (HX j Eoj); reflexivity].
      * intro n. apply Hq.
      * intro n. cbn [andb]. rewrite E3. apply Hq.
      * intros j Hj. rewrite Ho2 in Hj. destruct (c <? j); [discriminate|apply (i_srv _ _ HR j Hj)].
      * intro H. unfold s2, s1 in H. cbn [active] in H. lia.
      * intros _. unfold s2 at 2, s1 at 2. cbn [active]. rewrite Ho2, Z.ltb_irrefl. exact Eo.
      * intros j Hj. rewrite Hm2. rewrite Ho2 in Hj. destruct (c <? j); [reflexivity|apply HX; exact Hj].
      * intros n Hn. rewrite (proj1 (Hq n)) in Hn. split; [unfold s2, s1; cbn [active]; lia|apply (i_w _ _ HR n Hn)].
    + (* from the active server *)
      apply Z.ltb_ge in E1, E2. assert (Hca: c = active s) by lia.
      set (s2 := mkS (sv s0)
                     (fun n => let q := rq s0 n in
                               if watched q then match last_named n rs with
                                                 | Some (k, _) => mkQ true (if k =? 1 then 2 else 3) (chans q)
                                                 | None => q end else q) (active s0)).
      exists s2, true, [], [], (updo no_req c (subs (sv s c))).
      assert (E1': (active s <? c) = false) by (apply Z.ltb_ge; lia).
      assert (E2': (c <? active s) = false) by (apply Z.ltb_ge; lia).
      assert (E3: (c <=? active s) = true) by (apply Z.leb_le; lia).
      split; [cbn [step]; rewrite Eo, El; cbn [andb active]; rewrite E1', E2'; reflexivity|].
      assert (Hq: forall n, watched (rq s2 n) = watched (rq s n) /\
                  watched (rq s2 n) && (qstat (rq s2 n) =? 1) =
                  watched (rq s n) && (qstat (rq s n) =? 1) && match last_named n rs with Some _ => false | None => true end).
      { intro n. unfold s2. cbn [rq]. 
        pose proof (proc_unc (rq s0 n) (last_named n rs)) as H. cbn zeta in H. unfold s0 in H. cbn [rq] in H. exact H. }
      apply (facts_plain nsrv s m (AResp c v rs) s2 true (fun j => if j =? c then true else smsg (sv s j))); try exact HR; try reflexivity.
      * intro j. apply Hsv.
      * intro j. apply Hsv.
      * exact HX.
      * cbn [andb]. exact E2'.
      * intro n. apply Hq.
      * intro n. cbn [andb]. rewrite E3. apply Hq.
      * intros n Hn. rewrite (proj1 (Hq n)) in Hn. apply (i_w _ _ HR n Hn).
Qed.

Lemma has_facts_all nsrv s m a : RI s m -> aop_wf a -> has_facts nsrv s m a.
Proof.
  intros HR Hwf. destruct a; cbn [aop_wf] in Hwf.
  - apply facts_watch; assumption.
  - apply facts_unwatch; assumption.
  - apply facts_allow; assumption.
  - apply facts_fail; assumption.
  - apply facts_resp; assumption.
  - apply facts_break; assumption.
  - apply facts_skip; [exact HR|reflexivity].
Qed.

Lemma decode_wf nsrv w : aop_wf (decode nsrv w).
Proof.
  unfold decode. destruct w as [|c a]; [exact I|].
  repeat match goal with
  | |- context [if ?b then _ else _] => destruct b eqn:?
  | |- context [match ?l with [] => _ | _ :: _ => _ end] => destruct l
  | |- context [match triples ?l with _ => _ end] => destruct (triples l) eqn:?
  end; cbn [aop_wf]; try exact I;
  rewrite ?andb_true_iff, ?Z.leb_le, ?Z.ltb_lt in *; unfold all_names; cbn [In]; lia.
Qed.

Lemma take_words_app a b : take_words (length a) (a ++ b) = Some (a, b).
Proof. induction a as [|x a IH]; cbn; [reflexivity|]. rewrite IH. reflexivity. Qed.
Lemma z2b_b2z (b : bool) : z2b (b2z b) = b.
Proof. destruct b; reflexivity. Qed.

Lemma bridge nsrv : forall ops s m i, RI s m ->
  core_true (clauses_from nsrv m i ops (run_from nsrv s ops)) = true.
Proof.
  induction ops as [|op ops IH]; intros s m i HR; [reflexivity|].
  destruct (has_facts_all nsrv s m (decode nsrv op) HR (decode_wf nsrv op)) as (s' & ap & built & closed & o & Hs & HF).
  cbn [run_from clauses_from]. rewrite Hs. unfold emit. cbn [app].
  set (rqs := flat_map _ all_srv).
  rewrite Nat2Z.id, take_words_app, z2b_b2z.
  pose proof (facts_to_monitor nsrv s m (decode nsrv op) s' ap built closed i rqs HR (decode_wf nsrv op) HF) as H.
  destruct (mon_step i m (decode nsrv op) ap built closed rqs) as [m' cl]. destruct H as [Hc HR'].
  unfold core_true in *. cbn [forallb app fst snd Z.eqb andb orb]. rewrite forallb_app, Hc. cbn [andb].
  apply IH. exact HR'.
Qed.

Lemma model_trace_holds_ns : forall cfg ops, is_shared cfg = false ->
  exists obs, run cfg ops = Some obs /\ holds_core cfg ops obs = true.
Proof.
  intros cfg ops Hsh. unfold run, holds_core, clauses. rewrite Hsh. eexists. split; [reflexivity|].
  unfold clauses_ns. apply (bridge (nsrv_of cfg) ops init mon_init 0 RI_init).
Qed.

(* ---------- shared fallback channel (cfg [2; 1]) ---------- *)

Lemma send_subs s o c x : subs (sv (fst (send s o c)) x) = subs (sv s x) /\ open (sv (fst (send s o c)) x) = open (sv s x).
Proof.
  unfold send. destruct (ssender (sv s c) =? 1); [tauto|].
  destruct (ssender (sv s c) =? 2); [|tauto]. cbn [fst sv]. unfold updv.
  destruct (x =? c) eqn:E; [apply Z.eqb_eq in E; subst; cbn; tauto|tauto].
Qed.

(* "reverts to it, unsubscribes and releases all lower-priority servers", when the lower-priority
   channel is shared with another authority and therefore stays up: after the step the reference is
   released and no resource that was subscribed there on behalf of this authority is still in the
   shared server's subscription (the other authority's names stay) *)
Lemma revert_sh_unsubscribes s v rs s' o :
  open (sv s 0) = true -> slive (sv s 0) = true -> active s = 1 -> open (sv s 1) = true ->
  step_sh s (AResp 0 v rs) = (s', o) ->
  open (sv s' 1) = false /\ active s' = 0 /\
  (forall n, In n all_names -> mem 1 (chans (rq s n)) = true -> mem n (subs (sv s' 1)) = false) /\
  (forall n, mem n (subs (sv s 1)) = true -> (forall k, In k all_names -> mem 1 (chans (rq s k)) = true -> k <> n) ->
             mem n (subs (sv s' 1)) = true).
Proof.
  intros Ho0 Hl0 Ha Ho1 Hs. unfold step_sh, tr in Hs. rewrite Ho0, Hl0 in Hs. cbn [orb andb negb] in Hs.
  cbn [active sv] in Hs. rewrite Ha in Hs. cbn [Z.ltb Z.compare orb andb] in Hs.
  assert (E1: open (updv (sv s) 0 (mkV true true (ssender (sv s 0)) true (subs (sv s 0))) 1) = true).
  { unfold updv. cbn. exact Ho1. }
  rewrite E1 in Hs.
  match type of Hs with context [send ?SA ?ACK 1] => set (sa := SA) in *; set (ack := ACK) in * end.
  pose proof (send_subs sa ack 1 1) as [Hsub Hop]. pose proof (send_rest sa ack 1) as [Hrq Hact].
  destruct (send sa ack 1) as [s1 o1]. cbn [fst] in *. inversion Hs; subst s' o; clear Hs. cbn [sv active].
  rewrite Hop, Hact, Hsub. unfold sa. cbn [sv active]. rewrite updv_same. cbn [open subs].
  split; [reflexivity|]. split; [reflexivity|]. unfold updv. cbn [Z.eqb rq].
  set (gone := filter (fun n => mem 1 (chans (rq s n))) all_names).
  split.
  - intros n Hn Hc. rewrite mem_filter.
    assert (Hg: mem n gone = true). { unfold gone. rewrite mem_filter, Hc. apply mem_in in Hn. rewrite Hn. reflexivity. }
    rewrite Hg. cbn. apply andb_false_r.
  - intros n Hn Hk. rewrite mem_filter, Hn. cbn [andb].
    destruct (mem n gone) eqn:Hg; [|reflexivity]. exfalso. unfold gone in Hg. rewrite mem_filter in Hg.
    apply andb_true_iff in Hg. destruct Hg as [G1 G2]. apply mem_in in G1. exact (Hk n G1 G2 eq_refl).
Qed.
