(* C37: the side condition of the determinism theorem, discharged with Flocq:
   for 1 <= w <= 2^32 and 1 <= s <= 2^32, float64(w)/float64(s) is a positive finite
   float64.  Uses the shared float lemmas of Flt_proofs (read-only). *)
From Coq Require Import List ZArith Bool Reals Floats Lia Lra.
From Flocq Require Import Core.Core IEEE754.BinarySingleNaN.
From Flocq Require IEEE754.PrimFloat.
From VLib Require Import Codec Machine.
From VModel Require Import RingHash.
From VProof Require Import Flt_proofs RingHash_proofs.
From Coq Require Import Permutation.
Import ListNotations.
Open Scope R_scope.

Definition two32 : PrimFloat.float := 0x1p32%float.
Definition twom32 : PrimFloat.float := 0x1p-32%float.

Lemma FR_two32 : FR two32 (IZR (2^32)).
Proof.
  assert (H: Prim2SF two32 = S754_finite false 4503599627370496 (-20)) by reflexivity.
  pose proof (FR_const _ _ _ H) as F.
  replace (IZR (2^32)) with (IZR (Z.pos 4503599627370496) * bpow radix2 (-20)); [exact F|].
  change (bpow radix2 (-20)) with (/ IZR (2^20)). change (Z.pos 4503599627370496) with (2^32 * 2^20)%Z.
  rewrite mult_IZR. field. apply not_0_IZR. discriminate.
Qed.

Lemma FR_twom32 : FR twom32 (/ IZR (2^32)).
Proof.
  assert (H: Prim2SF twom32 = S754_finite false 4503599627370496 (-84)) by reflexivity.
  pose proof (FR_const _ _ _ H) as F.
  replace (/ IZR (2^32)) with (IZR (Z.pos 4503599627370496) * bpow radix2 (-84)); [exact F|].
  change (bpow radix2 (-84)) with (/ IZR (2^84)). change (Z.pos 4503599627370496) with (2^52)%Z.
  change (2^84)%Z with (2^52 * 2^32)%Z. rewrite mult_IZR. field.
  split; apply not_0_IZR; discriminate.
Qed.

(* float64(uint32 z) *)
Lemma FR_of_u63 : forall z, (1 <= z <= 2^32)%Z ->
  FR (of_u63 z) (rnd (IZR z)) /\ 1 <= rnd (IZR z) <= IZR (2^32).
Proof.
  intros z Hz.
  assert (Hr : 1 <= rnd (IZR z) <= IZR (2^32)).
  { apply (rnd_between _ _ _ _ _ FR_one FR_two32). split; apply IZR_le; lia. }
  split; [|exact Hr].
  unfold FR, of_u63. rewrite FP.of_int63_equiv.
  assert (Ez : Uint63.to_Z (Uint63.of_Z z) = z).
  { rewrite Uint63.of_Z_spec. apply Z.mod_small. change Uint63.wB with (2^63)%Z. lia. }
  rewrite Ez.
  generalize (binary_normalize_correct prec emax FP.Hprec FP.Hmax mode_NE z 0 false).
  cbv zeta. replace (F2R (Float radix2 z 0)) with (IZR z) by (unfold F2R; cbn; lra).
  change (round radix2 _ _ (IZR z)) with (rnd (IZR z)).
  rewrite Rlt_bool_true.
  - intros (H1 & H2 & H3). split; assumption.
  - apply small_lt. rewrite Rabs_pos_eq by lra. destruct Hr as [_ Hr].
    eapply Rle_trans; [exact Hr|]. apply IZR_le. lia.
Qed.

Lemma FR_div : forall x y a b, FR x a -> FR y b -> b <> 0 -> Rabs (rnd (a / b)) < bpow radix2 1024 ->
  FR (x / y)%float (rnd (a / b)).
Proof.
  intros x y a b [Fx Hx] [Fy Hy] Hb0 Hb. unfold FR. rewrite FP.div_equiv.
  generalize (Bdiv_correct prec emax FP.Hprec FP.Hmax mode_NE (FP.Prim2B x) (FP.Prim2B y)).
  rewrite Hx, Hy. intros H. specialize (H Hb0). cbv zeta in H.
  change (round radix2 _ _ (a / b)) with (rnd (a / b)) in H.
  rewrite Rlt_bool_true in H by exact Hb.
  destruct H as (H1 & H2 & _). rewrite H2, Fx. split; [reflexivity|exact H1].
Qed.

Lemma FR_pos_fin : forall x v, FR x v -> 0 < v -> pos_fin x = true.
Proof.
  intros x v F Hv. pose proof (FR_pos_sign x v F Hv) as Hs. destruct F as [Ff Hval].
  unfold pos_fin. rewrite <- (FP.B2Prim_Prim2B x). rewrite FP.Prim2SF_B2Prim.
  destruct (FP.Prim2B x) as [s|s| |s m e Hbd]; try discriminate Ff.
  - cbn in Hval. lra.
  - cbn in Hs. subst s. reflexivity.
Qed.

Lemma nwt_pos_fin : forall w s, (1 <= w <= 2^32)%Z -> (1 <= s <= 2^32)%Z ->
  pos_fin (of_u63 w / of_u63 s)%float = true.
Proof.
  intros w s Hw Hs.
  destruct (FR_of_u63 w Hw) as [Fw [Hw1 Hw2]]. destruct (FR_of_u63 s Hs) as [Fs [Hs1 Hs2]].
  set (a := rnd (IZR w)) in *. set (b := rnd (IZR s)) in *.
  assert (H32: 0 < IZR (2^32)) by (apply IZR_lt; lia).
  assert (Hq: / IZR (2^32) <= a / b <= IZR (2^32)).
  { unfold Rdiv. set (ib := / b). set (i32 := / IZR (2^32)). set (t := IZR (2^32)) in *.
    assert (E1: ib * b = 1) by (unfold ib; apply Rinv_l; lra).
    assert (E2: i32 * t = 1) by (unfold i32; apply Rinv_l; lra).
    assert (P1: 0 < ib) by (unfold ib; apply Rinv_0_lt_compat; lra).
    assert (P2: 0 < i32) by (unfold i32; apply Rinv_0_lt_compat; lra).
    assert (B1: ib <= 1) by nra.
    assert (B2: i32 <= ib) by nra.
    split; nra. }
  pose proof (rnd_between _ _ _ _ _ FR_twom32 FR_two32 Hq) as Hr.
  assert (Hpos: 0 < rnd (a / b)).
  { eapply Rlt_le_trans; [|apply Hr]. apply Rinv_0_lt_compat. exact H32. }
  apply (FR_pos_fin _ (rnd (a / b))); [|exact Hpos].
  apply FR_div; try assumption; [lra|].
  apply small_lt. rewrite Rabs_pos_eq by lra. eapply Rle_trans; [apply Hr|]. apply IZR_le. lia.
Qed.

Lemma wsum_small : forall eps, weights_ok eps = true -> wsum eps = sumw eps.
Proof.
  intros eps H. rewrite wsum_sumw. unfold weights_ok in H. apply andb_true_iff in H as [Hall Hsum].
  assert (Hacc: forall l a, fold_left (fun a e => (a + wt e)%Z) l a = (a + sumw l)%Z).
  { induction l as [|e r IH]; intros a; cbn [fold_left sumw fold_right]; [lia|].
    rewrite IH. fold (sumw r). lia. }
  rewrite Hacc in Hsum. apply Z.leb_le in Hsum. cbn in Hsum.
  assert (Hnn: (0 <= sumw eps)%Z).
  { clear Hsum Hacc. induction eps as [|e r IH]; cbn [sumw fold_right]; [lia|].
    cbn [forallb] in Hall. apply andb_true_iff in Hall as [He Hr]. apply andb_true_iff in He as [He _].
    apply Z.leb_le in He. fold (sumw r). specialize (IH Hr). lia. }
  unfold u32. apply Z.mod_small. unfold max_u32 in Hsum. lia.
Qed.

(* every weight is in [1, 2^32-1] and the sum does not wrap: the side condition holds *)
Lemma weights_ok_nw_good : forall eps, weights_ok eps = true -> nw_good eps = true.
Proof.
  intros eps H. pose proof (wsum_small eps H) as Hs.
  unfold weights_ok in H. apply andb_true_iff in H as [Hall Hsum].
  assert (Hacc: forall l a, fold_left (fun a e => (a + wt e)%Z) l a = (a + sumw l)%Z).
  { induction l as [|e r IH]; intros a; cbn [fold_left sumw fold_right]; [lia|].
    rewrite IH. fold (sumw r). lia. }
  rewrite Hacc in Hsum. apply Z.leb_le in Hsum. cbn in Hsum.
  unfold nw_good. rewrite forallb_forall. intros e He. unfold nwt. rewrite Hs.
  rewrite forallb_forall in Hall. pose proof (Hall e He) as Hw.
  apply andb_true_iff in Hw as [Hw1 Hw2]. apply Z.leb_le in Hw1, Hw2.
  assert (Hle: (wt e <= sumw eps)%Z).
  { clear Hs Hsum Hw1 Hw2. induction eps as [|x r IH]; [destruct He|].
    cbn [sumw fold_right]. fold (sumw r).
    assert (Hr: forall y, In y r -> (0 <= wt y)%Z).
    { intros y Hy. specialize (Hall y (or_intror Hy)). apply andb_true_iff in Hall as [A _].
      apply Z.leb_le in A. lia. }
    assert (Hnn: (0 <= sumw r)%Z).
    { clear IH He. induction r as [|y r' IH']; cbn [sumw fold_right]; [lia|]. fold (sumw r').
      specialize (Hr y (or_introl eq_refl)) as Hy.
      assert (0 <= sumw r')%Z by (apply IH'; [intros; apply Hall; cbn in *; tauto|intros; apply Hr; right; assumption]).
      lia. }
    destruct He as [->|He]; [lia|].
    assert (0 <= wt x)%Z.
    { specialize (Hall x (or_introl eq_refl)). apply andb_true_iff in Hall as [A _]. apply Z.leb_le in A. lia. }
    specialize (IH ltac:(intros; apply Hall; right; assumption) He). lia. }
  apply nwt_pos_fin; unfold max_u32 in *; lia.
Qed.

(* the determinism theorem with the side condition discharged *)
Lemma new_ring_perm_weights : forall mn mx l l', Permutation.Permutation l l' -> NoDup (map key l) ->
  weights_ok l = true -> new_ring mn mx l' = new_ring mn mx l.
Proof.
  intros mn mx l l' H Hnd Hw. apply new_ring_perm; [exact H|exact Hnd|].
  apply weights_ok_nw_good, Hw.
Qed.

(* ================= the float64 counter loop in closed form ================= *)

Lemma rnd_int : forall z, (Z.abs z < 2^53)%Z -> rnd (IZR z) = IZR z.
Proof.
  intros z Hz. unfold rnd. apply round_generic; [apply valid_rnd_N|].
  apply (generic_format_FLT radix2 (3 - emax - prec) prec).
  refine (FLT_spec _ _ _ _ (Float radix2 z 0) _ _ _).
  - unfold F2R. cbn. lra.
  - cbn. exact Hz.
  - cbn. lia.
Qed.

Lemma FR_of_u63_exact : forall z, (0 <= z < 2^53)%Z -> FR (of_u63 z) (IZR z).
Proof.
  intros z Hz. unfold FR, of_u63. rewrite FP.of_int63_equiv.
  assert (Ez : Uint63.to_Z (Uint63.of_Z z) = z).
  { rewrite Uint63.of_Z_spec. apply Z.mod_small. change Uint63.wB with (2^63)%Z. lia. }
  rewrite Ez.
  generalize (binary_normalize_correct prec emax FP.Hprec FP.Hmax mode_NE z 0 false).
  cbv zeta. replace (F2R (Float radix2 z 0)) with (IZR z) by (unfold F2R; cbn; lra).
  change (round radix2 _ _ (IZR z)) with (rnd (IZR z)).
  rewrite rnd_int by lia.
  rewrite Rlt_bool_true.
  - intros (H1 & H2 & H3). split; assumption.
  - apply small_lt. rewrite <- abs_IZR. apply IZR_le. lia.
Qed.

Lemma FR_two52 : FR two52 (IZR (2^52)).
Proof.
  assert (H: Prim2SF two52 = S754_finite false 4503599627370496 0) by reflexivity.
  pose proof (FR_const _ _ _ H) as F. cbn [bpow] in F. rewrite Rmult_1_r in F. exact F.
Qed.

(* currentHashes++ on an exactly represented integer below 2^52 *)
Lemma FR_succ : forall cur c, FR cur (IZR c) -> (0 <= c < 2^52)%Z -> FR (cur + 1)%float (IZR (c + 1)).
Proof.
  intros cur c Hc Hb.
  assert (E: rnd (IZR c + 1) = IZR (c + 1)).
  { rewrite <- plus_IZR. apply rnd_int. lia. }
  rewrite <- E. apply FR_add; [exact Hc|exact FR_one|].
  rewrite E. apply small_lt. rewrite <- abs_IZR. apply IZR_le. lia.
Qed.

Definition zlenZ {A} (l : list A) : Z := zlen l.

(* the inner loop leaves max(c, ceil(target)) and emits the difference *)
Lemma inner_closed : forall k tgt t, FR tgt t -> t <= IZR (2^52) ->
  forall tbl cur c cur' es, FR cur (IZR c) -> (0 <= c <= 2^52)%Z ->
  inner k tbl cur tgt = Some (cur', es) ->
  FR cur' (IZR (Z.max c (Zceil t))) /\ zlen es = (Z.max c (Zceil t) - c)%Z.
Proof.
  intros k tgt t Htgt Ht. induction tbl as [|h r IH]; intros cur c cur' es Hcur Hc Hin;
    cbn [inner] in Hin; rewrite (FR_ltb cur tgt (IZR c) t Hcur Htgt) in Hin;
    destruct (Rlt_bool_spec (IZR c) t) as [Hlt|Hge].
  - discriminate.
  - inversion Hin; subst. assert (Zceil t <= c)%Z by (apply Zceil_glb; exact Hge).
    rewrite Z.max_l by lia. split; [exact Hcur|]. unfold zlen. cbn. lia.
  - destruct (inner k r (cur + 1)%float tgt) as [[c1 es1]|] eqn:E; [|discriminate].
    inversion Hin; subst.
    assert (Hc52: (c < 2^52)%Z) by (apply lt_IZR; lra).
    assert (Hcl: (c < Zceil t)%Z).
    { apply lt_IZR. eapply Rlt_le_trans; [exact Hlt|apply Zceil_ub]. }
    destruct (IH _ (c + 1)%Z _ _ (FR_succ _ _ Hcur ltac:(lia)) ltac:(lia) E) as [A B].
    rewrite Z.max_r in A, B by lia. rewrite Z.max_r by lia.
    split; [exact A|]. unfold zlen in *. cbn [length]. lia.
  - inversion Hin; subst. assert (Zceil t <= c)%Z by (apply Zceil_glb; exact Hge).
    rewrite Z.max_l by lia. split; [exact Hcur|]. unfold zlen. cbn. lia.
Qed.

Lemma Zceil_range : forall t, 0 <= t <= IZR (2^52) -> (0 <= Zceil t <= 2^52)%Z.
Proof.
  intros t [H0 H1]. split.
  - rewrite <- (Zceil_IZR 0). apply Zceil_le. exact H0.
  - rewrite <- (Zceil_IZR (2^52)). apply Zceil_le. exact H1.
Qed.

(* the whole accumulation: the counter ends at ceil(final float target) *)
Lemma outer_closed : forall sc s eps cur tgt t cur' tgt' es,
  FR cur (IZR (Zceil t)) -> FR tgt t -> 0 <= t <= IZR (2^52) ->
  tgts_okb sc s eps tgt = true ->
  outer sc s eps cur tgt = Some (cur', tgt', es) ->
  exists t', FR tgt' t' /\ t <= t' <= IZR (2^52) /\ FR cur' (IZR (Zceil t')) /\
             zlen es = (Zceil t' - Zceil t)%Z /\
             tgt' = fold_left (fun a e => (a + sc * nwt s e)%float) eps tgt.
Proof.
  intros sc s eps. induction eps as [|e r IH]; intros cur tgt t cur' tgt' es Hcur Htgt Ht Hok Hout;
    cbn [outer tgts_okb fold_left] in *.
  - inversion Hout; subst. exists t. split; [exact Htgt|]. split; [lra|]. split; [exact Hcur|].
    split; [unfold zlen; cbn; lia|reflexivity].
  - apply andb_true_iff in Hok as [Hok Hrest]. apply andb_true_iff in Hok as [Hle1 Hle2].
    set (tgt1 := (tgt + sc * nwt s e)%float) in *.
    destruct (between_FR tgt tgt1 two52 _ _ Htgt FR_two52 Hle1 Hle2) as (t1 & Ht1 & Hb1).
    destruct (inner (key e) (hs e) cur tgt1) as [[c1 es1]|] eqn:E1; [|discriminate].
    destruct (outer sc s r c1 tgt1) as [[[c2 t2] es2]|] eqn:E2; [|discriminate].
    inversion Hout; subst.
    destruct (inner_closed _ _ _ Ht1 ltac:(lra) _ _ _ _ _ Hcur (Zceil_range t Ht) E1) as [A B].
    assert (Hm: (Zceil t <= Zceil t1)%Z) by (apply Zceil_le; lra).
    rewrite Z.max_r in A, B by lia.
    destruct (IH _ _ t1 _ _ _ A Ht1 ltac:(lra) Hrest E2) as (t' & F' & Hb' & C' & L' & Efold).
    exists t'. split; [exact F'|]. split; [lra|]. split; [exact C'|].
    split; [|exact Efold]. unfold zlen in *. rewrite app_length. lia.
Qed.

(* The size of the float64 ring is ceil(final float target); hence it exceeds
   max_ring_size exactly when the accumulated float target ends above float64(max) *)
Lemma size_float : forall mn mx eps ring, (0 <= mx < 2^52)%Z ->
  tgts_ok mn mx eps = true -> new_ring mn mx eps = Some ring ->
  exists tn, FR (spec_final_target mn mx eps) tn /\ zlen ring = Zceil tn /\
             (overshoot mn mx eps = false <-> (zlen ring <= mx)%Z).
Proof.
  intros mn mx eps ring Hmx Hok Hr. unfold new_ring, build_raw in Hr. unfold tgts_ok in Hok.
  destruct (outer _ _ (sort_eps eps) 0%float 0%float) as [[[c t] es]|] eqn:E; [|discriminate].
  inversion Hr; subst.
  assert (H0: FR 0%float (IZR (Zceil 0))) by (rewrite Zceil_IZR; exact FR_zero).
  assert (H52: 0 <= 0 <= IZR (2^52)) by (split; [lra|apply IZR_le; lia]).
  destruct (outer_closed _ _ _ _ _ 0 _ _ _ H0 FR_zero H52 Hok E) as (tn & Ftn & Hb & _ & Hlen & Efold).
  rewrite Zceil_IZR, Z.sub_0_r in Hlen.
  assert (Hsz: zlen (sort_items es) = Zceil tn).
  { rewrite <- Hlen. unfold zlen. f_equal. apply Permutation.Permutation_length, sort_items_perm. }
  assert (Hft: spec_final_target mn mx eps = t) by (unfold spec_final_target, spec_scale; symmetry; exact Efold).
  exists tn. rewrite Hft. split; [exact Ftn|]. split; [exact Hsz|].
  unfold overshoot. rewrite Hft.
  rewrite (FR_ltb _ _ _ _ (FR_of_u63_exact mx ltac:(lia)) Ftn). rewrite Hsz.
  destruct (Rlt_bool_spec (IZR mx) tn) as [Hlt|Hge]; split; intros H; try discriminate; try reflexivity.
  - exfalso. apply IZR_le in H. pose proof (Zceil_ub tn). lra.
  - apply Zceil_glb. exact Hge.
Qed.

(* ================= the bridged clauses hold on every model trace ================= *)
Local Open Scope Z_scope.

Lemma decode_cfg_mx : forall w c, decode_cfg w = Some c -> 0 <= maxR c < 2^52.
Proof.
  intros w c H. unfold decode_cfg in H. destruct w as [|mn [|mx [|n r]]]; try discriminate.
  destruct ((1 <=? mn) && (mn <=? max_ring) && (1 <=? mx) && (mx <=? max_ring) && (0 <=? n)) eqn:E;
    [|discriminate].
  destruct (take_eps (Z.to_nat n) r) as [l|]; [|discriminate]. inversion H; subst. cbn [maxR].
  apply andb_true_iff in E as [E _]. apply andb_true_iff in E as [E E4]. apply andb_true_iff in E as [_ E3].
  apply Z.leb_le in E3, E4. unfold max_ring in E4. lia.
Qed.

Lemma build_holds : forall c s cs pos idxs s' o, cfg_ok c -> 0 <= maxR c < 2^52 -> Inv s cs ->
  step_build c s idxs = Some (s', o) ->
  Inv s' (fst (cl_build c cs pos idxs o)) /\ walk_ok (snd (cl_build c cs pos idxs o)) = true.
Proof.
  intros c s cs pos r s' o Hc Hmx (Hring & Hidx & Hsorted & Hrange) Hstep.
  unfold step_build in Hstep. unfold cl_build.
    destruct (select c r) as [eps|] eqn:Esel.
    - destruct (tgts_ok (minR c) (maxR c) eps) eqn:Etg; [|discriminate].
      destruct (new_ring (minR c) (maxR c) eps) as [ring|] eqn:Er; [|discriminate].
      inversion Hstep; subst.
      destruct (new_ring_inv _ _ _ _ Hc Esel Er) as [Hs' Hr'].
      rewrite (ring_of_obs_ring_obs ring Hr'). cbn [fst snd].
      split; [repeat split; assumption|].
      assert (H4: (if overshoot (minR c) (maxR c) eps then true else zlen ring <=? maxR c) = true).
      { destruct (overshoot (minR c) (maxR c) eps) eqn:Eov; [reflexivity|].
        destruct (size_float _ _ _ _ Hmx Etg Er) as (tn & _ & _ & Hiff).
        apply Z.leb_le. apply Hiff. exact Eov. }
      unfold walk_ok. cbn [forallb fst snd]. rewrite H4. reflexivity.
    - inversion Hstep; subst. cbn [fst snd]. split; [repeat split; assumption|reflexivity].
Qed.

Lemma step_holds : forall c s cs pos op s' o, cfg_ok c -> 0 <= maxR c < 2^52 -> Inv s cs ->
  step c s op = Some (s', o) ->
  Inv s' (fst (cl_step c cs pos op o)) /\ walk_ok (snd (cl_step c cs pos op o)) = true.
Proof.
  intros c s cs pos op s' o Hc Hmx (Hring & Hidx & Hsorted & Hrange) Hstep.
  destruct op as [|t r]; [discriminate|].
  destruct (Z.eq_dec t 1) as [->|N1].
  { cbn [step cl_step] in *. apply (build_holds c s cs pos r s' o Hc Hmx); [|exact Hstep].
    repeat split; assumption. }
  destruct (Z.eq_dec t 6) as [->|N6].
  { cbn [step cl_step] in *. apply (build_holds c s cs pos (update_idxs r) s' o Hc Hmx); [|exact Hstep].
    repeat split; assumption. }
  destruct (Z.eq_dec t 2) as [->|N2].
  { (* ring.pick *)
    destruct r as [|h [|? ?]]; try discriminate.
    cbn [step cl_step] in *. rewrite Hring.
    destruct (cur_ring s) as [|e0 r0] eqn:Ering.
    - inversion Hstep; subst. cbn [fst snd]. split; [repeat split; try assumption; rewrite Ering; assumption|reflexivity].
    - rewrite <- Ering in *. inversion Hstep; subst. cbn [fst snd].
      split; [repeat split; assumption|].
      assert (Hne: cur_ring s' <> []) by (rewrite Ering; discriminate).
      rewrite <- (pick_idx_is_spec _ (u64 h) Hsorted Hne).
      pose proof (pick_idx_range _ (u64 h) Hsorted Hne) as Hi.
      rewrite u64_i64.
      + cbn. rewrite !Z.eqb_refl. reflexivity.
      + rewrite Forall_forall in Hrange. apply Hrange, znth_in, Hi. }
  destruct (Z.eq_dec t 3) as [->|N3].
  { (* Pick, request hash *)
    destruct r as [|h ss]; try discriminate.
    cbn [step cl_step] in *. rewrite Hring, Hidx.
    destruct (cur_ring s) as [|e0 r0] eqn:Ering.
    - inversion Hstep; subst. cbn [fst snd]. split; [repeat split; try assumption; rewrite Ering; assumption|reflexivity].
    - rewrite <- Ering in *. inversion Hstep; subst. cbn [fst snd].
      split; [repeat split; assumption|].
      assert (Hne: cur_ring s' <> []) by (rewrite Ering; discriminate).
      unfold walk_ok. cbn [forallb fst snd]. rewrite (cl_req_model _ _ _ Hsorted Hne).
      rewrite orb_true_r. reflexivity. }
  destruct (Z.eq_dec t 4) as [->|N4].
  { (* Pick, random hash *)
    destruct r as [|h ss]; try discriminate.
    cbn [step cl_step] in *. rewrite Hring, Hidx.
    destruct (cur_ring s) as [|e0 r0] eqn:Ering.
    - inversion Hstep; subst. cbn [fst snd]. split; [repeat split; try assumption; rewrite Ering; assumption|reflexivity].
    - rewrite <- Ering in *. inversion Hstep; subst. cbn [fst snd].
      split; [repeat split; assumption|].
      assert (Hne: cur_ring s' <> []) by (rewrite Ering; discriminate).
      destruct (cl_rnd_model _ (sts_of c (cur_idx s') ss) (u64 h) Hsorted Hne) as [Ha Hb].
      unfold walk_ok. cbn [forallb fst snd]. rewrite Ha, Hb, !orb_true_r. reflexivity. }
  destruct (Z.eq_dec t 5) as [->|N5].
  { (* Pick, hash source chosen by the code *)
    destruct r as [|hdr [|xdsp [|xh [|mdp rest]]]]; try discriminate.
    cbn [step cl_step] in *.
    destruct (get_bytes rest) as [[vals [|hj [|rr ss]]]|]; try discriminate.
    rewrite Hring, Hidx.
    destruct (cur_ring s) as [|e0 r0] eqn:Ering.
    - inversion Hstep; subst. cbn [fst snd]. split; [repeat split; try assumption; rewrite Ering; assumption|reflexivity].
    - rewrite <- Ering in *. inversion Hstep; subst. cbn [fst snd].
      split; [repeat split; assumption|].
      assert (Hne: cur_ring s' <> []) by (rewrite Ering; discriminate).
      unfold walk_ok. cbn [forallb fst snd walk_clause].
      destruct (hash_source hdr xdsp xh mdp (length vals) hj rr) as [|h|h]; cbn [pick_src].
      + reflexivity.
      + rewrite (cl_req_model _ _ _ Hsorted Hne). reflexivity.
      + destruct (cl_rnd_model _ (sts_of c (cur_idx s') ss) h Hsorted Hne) as [Ha Hb].
        rewrite Ha, Hb. reflexivity. }
  exfalso. cbn [step] in Hstep.
  destruct t as [|p|p]; try discriminate Hstep.
  destruct p as [[[p|p|]|[p|p|]|]|[[p|p|]|[p|p|]|]|]; try discriminate Hstep; congruence.
Qed.

Lemma run_from_holds : forall c, cfg_ok c -> 0 <= maxR c < 2^52 -> forall ops s cs pos obs, Inv s cs ->
  run_from c s ops = Some obs -> walk_ok (clauses_from c cs pos ops obs) = true.
Proof.
  intros c Hc Hmx. induction ops as [|op ops IH]; intros s cs pos obs HI Hrun; cbn [run_from] in Hrun.
  - inversion Hrun; subst. reflexivity.
  - destruct (step c s op) as [[s' o]|] eqn:Es; [|discriminate].
    destruct (run_from c s' ops) as [os|] eqn:Er; [|discriminate].
    inversion Hrun; subst. cbn [clauses_from].
    destruct (step_holds c s cs pos op s' o Hc Hmx HI Es) as [HI' Hcl].
    destruct (cl_step c cs pos op o) as [cs' cl]. cbn [fst snd] in *.
    unfold walk_ok in *. rewrite forallb_app, Hcl. cbn [andb].
    eapply IH; eassumption.
Qed.

Theorem model_trace_holds : forall cfg ops obs,
  run cfg ops = Some obs -> holds_b cfg ops obs = true.
Proof.
  intros cfg ops obs H. unfold run in H. unfold holds_b, clauses.
  destruct (decode_cfg cfg) as [c|] eqn:Ec; [|discriminate].
  apply (run_from_holds c (decode_cfg_ok _ _ Ec) (decode_cfg_mx _ _ Ec) ops (mkst [] []) (mkcs [] [] []) 0 obs); [|exact H].
  repeat split; cbn; [|apply Forall_nil].
  intros a b Hab Hb. unfold zlen in Hb. cbn in Hb. lia.
Qed.


(* where picker.Pick takes the request hash from *)
Lemma hash_source_cases : forall hdr xdsp xh mdp n hj r,
  (hdr = 0 -> xdsp = 0 -> hash_source hdr xdsp xh mdp n hj r = SrcErr) /\
  (hdr = 0 -> xdsp <> 0 -> hash_source hdr xdsp xh mdp n hj r = SrcReq (u64 xh)) /\
  (hdr <> 0 -> mdp = 0 \/ n = 0%nat -> hash_source hdr xdsp xh mdp n hj r = SrcRnd (u64 r)) /\
  (hdr <> 0 -> mdp <> 0 -> n <> 0%nat -> hash_source hdr xdsp xh mdp n hj r = SrcReq (u64 hj)).
Proof.
  intros hdr xdsp xh mdp n hj r. unfold hash_source. repeat split.
  - intros -> ->. reflexivity.
  - intros -> H. cbn. destruct (Z.eqb_spec xdsp 0); [contradiction|reflexivity].
  - intros H [-> | ->]; destruct (Z.eqb_spec hdr 0); try contradiction; cbn.
    + reflexivity.
    + rewrite orb_true_r. reflexivity.
  - intros H1 H2 H3. destruct (Z.eqb_spec hdr 0); [contradiction|].
    destruct (Z.eqb_spec mdp 0); [contradiction|]. destruct n; [contradiction|]. reflexivity.
Qed.
