(* C37: the side condition of the determinism theorem, discharged with Flocq:
   for 1 <= w <= 2^32 and 1 <= s <= 2^32, float64(w)/float64(s) is a positive finite
   float64.  Uses the shared float lemmas of Flt_proofs (read-only). *)
From Coq Require Import List ZArith Bool Reals Floats Lia Lra.
From Flocq Require Import Core.Core IEEE754.BinarySingleNaN.
From Flocq Require IEEE754.PrimFloat.
From VLib Require Import Codec Machine.
From VModel Require Import RingHash.
From VProof Require Import Flt_proofs RingHash_proofs.
Import ListNotations.
Open Scope R_scope.

Definition two32 : PrimFloat.float := 0x1p32%float.
Definition twom32 : PrimFloat.float := 0x1p-32%float.

Lemma FR_two32 : FR two32 (IZR (2^32)).
Proof.
  assert (H: Prim2SF two32 = S754_finite false 4503599627370496 (-20)) by reflexivity.
  pose proof (FR_const _ _ _ H) as F.
  replace (IZR (2^32)) with (IZR (Z.pos 4503599627370496) * bpow radix2 (-20)); [exact F|].
  change (bpow radix2 (-20)) with (/ IZR (2^20)). change (Z.pos 4503599627370496) with (2^32 * 2^20)%Z.
  rewrite mult_IZR. field. apply not_0_IZR. discriminate.
Qed.

Lemma FR_twom32 : FR twom32 (/ IZR (2^32)).
Proof.
  assert (H: Prim2SF twom32 = S754_finite false 4503599627370496 (-84)) by reflexivity.
  pose proof (FR_const _ _ _ H) as F.
  replace (/ IZR (2^32)) with (IZR (Z.pos 4503599627370496) * bpow radix2 (-84)); [exact F|].
  change (bpow radix2 (-84)) with (/ IZR (2^84)). change (Z.pos 4503599627370496) with (2^52)%Z.
  change (2^84)%Z with (2^52 * 2^32)%Z. rewrite mult_IZR. field.
  split; apply not_0_IZR; discriminate.
Qed.

(* float64(uint32 z) *)
Lemma FR_of_u63 : forall z, (1 <= z <= 2^32)%Z ->
  FR (of_u63 z) (rnd (IZR z)) /\ 1 <= rnd (IZR z) <= IZR (2^32).
Proof.
  intros z Hz.
  assert (Hr : 1 <= rnd (IZR z) <= IZR (2^32)).
  { apply (rnd_between _ _ _ _ _ FR_one FR_two32). split; apply IZR_le; lia. }
  split; [|exact Hr].
  unfold FR, of_u63. rewrite FP.of_int63_equiv.
  assert (Ez : Uint63.to_Z (Uint63.of_Z z) = z).
  { rewrite Uint63.of_Z_spec. apply Z.mod_small. change Uint63.wB with (2^63)%Z. lia. }
  rewrite Ez.
  generalize (binary_normalize_correct prec emax FP.Hprec FP.Hmax mode_NE z 0 false).
  cbv zeta. replace (F2R (Float radix2 z 0)) with (IZR z) by (unfold F2R; cbn; lra).
  change (round radix2 _ _ (IZR z)) with (rnd (IZR z)).
  rewrite Rlt_bool_true.
  - intros (H1 & H2 & H3). split; assumption.
  - apply small_lt. rewrite Rabs_pos_eq by lra. destruct Hr as [_ Hr].
    eapply Rle_trans; [exact Hr|]. apply IZR_le. lia.
Qed.

Lemma FR_div : forall x y a b, FR x a -> FR y b -> b <> 0 -> Rabs (rnd (a / b)) < bpow radix2 1024 ->
  FR (x / y)%float (rnd (a / b)).
Proof.
  intros x y a b [Fx Hx] [Fy Hy] Hb0 Hb. unfold FR. rewrite FP.div_equiv.
  generalize (Bdiv_correct prec emax FP.Hprec FP.Hmax mode_NE (FP.Prim2B x) (FP.Prim2B y)).
  rewrite Hx, Hy. intros H. specialize (H Hb0). cbv zeta in H.
  change (round radix2 _ _ (a / b)) with (rnd (a / b)) in H.
  rewrite Rlt_bool_true in H by exact Hb.
  destruct H as (H1 & H2 & _). rewrite H2, Fx. split; [reflexivity|exact H1].
Qed.

Lemma FR_pos_fin : forall x v, FR x v -> 0 < v -> pos_fin x = true.
Proof.
  intros x v F Hv. pose proof (FR_pos_sign x v F Hv) as Hs. destruct F as [Ff Hval].
  unfold pos_fin. rewrite <- (FP.B2Prim_Prim2B x). rewrite FP.Prim2SF_B2Prim.
  destruct (FP.Prim2B x) as [s|s| |s m e Hbd]; try discriminate Ff.
  - cbn in Hval. lra.
  - cbn in Hs. subst s. reflexivity.
Qed.

Lemma nwt_pos_fin : forall w s, (1 <= w <= 2^32)%Z -> (1 <= s <= 2^32)%Z ->
  pos_fin (of_u63 w / of_u63 s)%float = true.
Proof.
  intros w s Hw Hs.
  destruct (FR_of_u63 w Hw) as [Fw [Hw1 Hw2]]. destruct (FR_of_u63 s Hs) as [Fs [Hs1 Hs2]].
  set (a := rnd (IZR w)) in *. set (b := rnd (IZR s)) in *.
  assert (H32: 0 < IZR (2^32)) by (apply IZR_lt; lia).
  assert (Hq: / IZR (2^32) <= a / b <= IZR (2^32)).
  { unfold Rdiv. set (ib := / b). set (i32 := / IZR (2^32)). set (t := IZR (2^32)) in *.
    assert (E1: ib * b = 1) by (unfold ib; apply Rinv_l; lra).
    assert (E2: i32 * t = 1) by (unfold i32; apply Rinv_l; lra).
    assert (P1: 0 < ib) by (unfold ib; apply Rinv_0_lt_compat; lra).
    assert (P2: 0 < i32) by (unfold i32; apply Rinv_0_lt_compat; lra).
    assert (B1: ib <= 1) by nra.
    assert (B2: i32 <= ib) by nra.
    split; nra. }
  pose proof (rnd_between _ _ _ _ _ FR_twom32 FR_two32 Hq) as Hr.
  assert (Hpos: 0 < rnd (a / b)).
  { eapply Rlt_le_trans; [|apply Hr]. apply Rinv_0_lt_compat. exact H32. }
  apply (FR_pos_fin _ (rnd (a / b))); [|exact Hpos].
  apply FR_div; try assumption; [lra|].
  apply small_lt. rewrite Rabs_pos_eq by lra. eapply Rle_trans; [apply Hr|]. apply IZR_le. lia.
Qed.

Lemma wsum_small : forall eps, weights_ok eps = true -> wsum eps = sumw eps.
Proof.
  intros eps H. rewrite wsum_sumw. unfold weights_ok in H. apply andb_true_iff in H as [Hall Hsum].
  assert (Hacc: forall l a, fold_left (fun a e => (a + wt e)%Z) l a = (a + sumw l)%Z).
  { induction l as [|e r IH]; intros a; cbn [fold_left sumw fold_right]; [lia|].
    rewrite IH. fold (sumw r). lia. }
  rewrite Hacc in Hsum. apply Z.leb_le in Hsum. cbn in Hsum.
  assert (Hnn: (0 <= sumw eps)%Z).
  { clear Hsum Hacc. induction eps as [|e r IH]; cbn [sumw fold_right]; [lia|].
    cbn [forallb] in Hall. apply andb_true_iff in Hall as [He Hr]. apply andb_true_iff in He as [He _].
    apply Z.leb_le in He. fold (sumw r). specialize (IH Hr). lia. }
  unfold u32. apply Z.mod_small. unfold max_u32 in Hsum. lia.
Qed.

(* every weight is in [1, 2^32-1] and the sum does not wrap: the side condition holds *)
Lemma weights_ok_nw_good : forall eps, weights_ok eps = true -> nw_good eps = true.
Proof.
  intros eps H. pose proof (wsum_small eps H) as Hs.
  unfold weights_ok in H. apply andb_true_iff in H as [Hall Hsum].
  assert (Hacc: forall l a, fold_left (fun a e => (a + wt e)%Z) l a = (a + sumw l)%Z).
  { induction l as [|e r IH]; intros a; cbn [fold_left sumw fold_right]; [lia|].
    rewrite IH. fold (sumw r). lia. }
  rewrite Hacc in Hsum. apply Z.leb_le in Hsum. cbn in Hsum.
  unfold nw_good. rewrite forallb_forall. intros e He. unfold nwt. rewrite Hs.
  rewrite forallb_forall in Hall. pose proof (Hall e He) as Hw.
  apply andb_true_iff in Hw as [Hw1 Hw2]. apply Z.leb_le in Hw1, Hw2.
  assert (Hle: (wt e <= sumw eps)%Z).
  { clear Hs Hsum Hw1 Hw2. induction eps as [|x r IH]; [destruct He|].
    cbn [sumw fold_right]. fold (sumw r).
    assert (Hr: forall y, In y r -> (0 <= wt y)%Z).
    { intros y Hy. specialize (Hall y (or_intror Hy)). apply andb_true_iff in Hall as [A _].
      apply Z.leb_le in A. lia. }
    assert (Hnn: (0 <= sumw r)%Z).
    { clear IH He. induction r as [|y r' IH']; cbn [sumw fold_right]; [lia|]. fold (sumw r').
      specialize (Hr y (or_introl eq_refl)) as Hy.
      assert (0 <= sumw r')%Z by (apply IH'; [intros; apply Hall; cbn in *; tauto|intros; apply Hr; right; assumption]).
      lia. }
    destruct He as [->|He]; [lia|].
    assert (0 <= wt x)%Z.
    { specialize (Hall x (or_introl eq_refl)). apply andb_true_iff in Hall as [A _]. apply Z.leb_le in A. lia. }
    specialize (IH ltac:(intros; apply Hall; right; assumption) He). lia. }
  apply nwt_pos_fin; unfold max_u32 in *; lia.
Qed.

(* the determinism theorem with the side condition discharged *)
Lemma new_ring_perm_weights : forall mn mx l l', Permutation.Permutation l l' -> NoDup (map key l) ->
  weights_ok l = true -> new_ring mn mx l' = new_ring mn mx l.
Proof.
  intros mn mx l l' H Hnd Hw. apply new_ring_perm; [exact H|exact Hnd|].
  apply weights_ok_nw_good, Hw.
Qed.
