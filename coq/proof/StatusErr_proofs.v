From Coq Require Import List ZArith Bool Lia.
From VLib Require Import Codec.
From VModel Require Import StatusErr.
Import ListNotations.
Open Scope Z_scope.

(* ---------- toRPCErr ---------- *)

(* a value is "an RPC error in legal form": nil, io.EOF, or a status error *)
Definition legal_form (r : err) : Prop :=
  r = ENil \/ r = EEOF \/ exists c, status_of r = Some c.

Lemma toRPCErr_total e : legal_form (toRPCErr e).
Proof.
  unfold legal_form. induction e; cbn [toRPCErr status_of]; eauto.
Qed.

Lemma toRPCErr_inner e : toRPCErr e = toRPCErr (inner e).
Proof. induction e; cbn [toRPCErr inner]; auto. Qed.

Lemma inner_not_nse e : forall e', inner e <> ENSE e'.
Proof. induction e; cbn [inner]; intros e' H; try discriminate. eapply IHe, H. Qed.

Lemma toRPCErr_nil_iff e : toRPCErr e = ENil <-> inner e = ENil.
Proof.
  rewrite toRPCErr_inner. pose proof (inner_not_nse e) as Hn.
  destruct (inner e); cbn [toRPCErr status_of]; split; intros H; try discriminate; try reflexivity.
  exfalso. eapply Hn. reflexivity.
Qed.

Lemma toRPCErr_eof_iff e : toRPCErr e = EEOF <-> inner e = EEOF.
Proof.
  rewrite toRPCErr_inner. pose proof (inner_not_nse e) as Hn.
  destruct (inner e); cbn [toRPCErr status_of]; split; intros H; try discriminate; try reflexivity.
  exfalso. eapply Hn. reflexivity.
Qed.

(* a status error is returned unchanged (same value, same code) *)
Lemma toRPCErr_status_same e c : status_of (inner e) = Some c -> toRPCErr e = inner e.
Proof.
  rewrite toRPCErr_inner. destruct (inner e); cbn [toRPCErr status_of]; intros H; try discriminate; reflexivity.
Qed.

(* everything else becomes CANCELED, UNKNOWN, DEADLINE_EXCEEDED, INTERNAL or UNAVAILABLE *)
Lemma toRPCErr_nonstatus e : status_of (inner e) = None -> inner e <> ENil -> inner e <> EEOF ->
  exists c, toRPCErr e = EStatus c /\ (c = 1 \/ c = 2 \/ c = 4 \/ c = 13 \/ c = 14).
Proof.
  rewrite toRPCErr_inner. pose proof (inner_not_nse e) as Hn.
  destruct (inner e); cbn [toRPCErr status_of]; intros H H1 H2; try discriminate; try congruence;
    try (eexists; split; [reflexivity|lia]).
Qed.

Lemma toRPCErr_idem e : toRPCErr (toRPCErr e) = toRPCErr e.
Proof. induction e; cbn [toRPCErr status_of]; auto. Qed.

(* a non-nil result has code OK only if the input (under its NewStreamError wrappers) is a
   status value of code OK *)
Lemma toRPCErr_code e c : status_of (toRPCErr e) = Some c ->
  status_of (inner e) = Some c \/ (status_of (inner e) = None /\ (c = 1 \/ c = 2 \/ c = 4 \/ c = 13 \/ c = 14)).
Proof.
  rewrite toRPCErr_inner. pose proof (inner_not_nse e) as Hn.
  destruct (inner e); cbn [toRPCErr status_of]; intros H; try discriminate; auto;
    try (right; split; [reflexivity|]; inversion H; lia).
  exfalso. eapply Hn. reflexivity.
Qed.

(* ---------- restricted codes ---------- *)

Lemma restricted_spec c : restricted c = true <-> In c [3; 5; 6; 9; 10; 11; 15].
Proof.
  unfold restricted. rewrite !orb_true_iff, !Z.eqb_eq. cbn [In]. intuition.
Qed.

Lemma restricted_13 : restricted 13 = false. Proof. reflexivity. Qed.

Definition control_plane (src : Z) : Prop := src = 1 \/ src = 2 \/ src = 3 \/ src = 4.

Definition nse_free (e : err) : bool := match e with ENSE _ => false | _ => true end.

Lemma rpc_unfold src ff e : e <> ENil -> control_plane src ->
  rpc src ff e = if src =? 1 then picker_err ff e else if src =? 2 then config_err e else
                 if src =? 3 then creds_err true e else creds_err false e.
Proof.
  intros He Hs. unfold rpc. destruct e; try congruence;
    destruct Hs as [-> | [-> | [-> | ->]]]; reflexivity.
Qed.

(* sentence 2: a restricted status code from a picker / config selector / per-RPC credentials
   is surfaced as INTERNAL *)
Theorem rpc_restricted_internal src ff e c :
  control_plane src -> status_of e = Some c -> restricted c = true ->
  rpc src ff e = EStatus 13.
Proof.
  intros Hs He Hr. rewrite rpc_unfold by (try assumption; intros ->; discriminate).
  unfold picker_err, config_err, creds_err, restrict. rewrite He, Hr.
  destruct Hs as [-> | [-> | [-> | ->]]]; cbn [Z.eqb Pos.eqb toRPCErr status_of];
    destruct e; try discriminate; reflexivity.
Qed.

(* a non-restricted status error passes through unchanged *)
Theorem rpc_status_passthrough src ff e c :
  control_plane src -> status_of e = Some c -> restricted c = false ->
  rpc src ff e = e.
Proof.
  intros Hs He Hr. rewrite rpc_unfold by (try assumption; intros ->; discriminate).
  unfold picker_err, config_err, creds_err, restrict. rewrite He, Hr.
  destruct Hs as [-> | [-> | [-> | ->]]]; cbn [Z.eqb Pos.eqb toRPCErr];
    destruct e; try discriminate; cbn [status_of]; reflexivity.
Qed.

(* a non-status error: what each source turns it into *)
Theorem rpc_nonstatus src ff e :
  control_plane src -> e <> ENil -> nse_free e = true -> status_of e = None ->
  rpc src ff e =
    if src =? 1 then (match e with ENoSub => EStatus 4 | _ => if ff then EStatus 14 else EStatus 4 end)
    else if src =? 2 then toRPCErr e
    else if src =? 3 then EStatus 13 else EStatus 16.
Proof.
  intros Hs He Hn Hst. rewrite rpc_unfold by assumption.
  unfold picker_err, config_err, creds_err, restrict. rewrite Hst.
  destruct Hs as [-> | [-> | [-> | ->]]]; cbn [Z.eqb Pos.eqb toRPCErr status_of]; try reflexivity.
Qed.

(* the code surfaced from a control-plane source is never a restricted one *)
Theorem rpc_never_restricted src ff e c :
  control_plane src -> nse_free e = true ->
  status_of (rpc src ff e) = Some c -> restricted c = false.
Proof.
  intros Hs Hn H.
  destruct (status_of e) as [c0|] eqn:Est.
  - destruct (restricted c0) eqn:Er.
    + rewrite (rpc_restricted_internal src ff e c0 Hs Est Er) in H. inversion H. reflexivity.
    + rewrite (rpc_status_passthrough src ff e c0 Hs Est Er) in H. congruence.
  - destruct e; try discriminate Hn; try discriminate Est;
      try (cbn in H; discriminate H);
      destruct Hs as [-> | [-> | [-> | ->]]]; destruct ff; cbn in H; inversion H; reflexivity.
Qed.

(* sentence 1 for the control-plane sources: nil iff no error; bare io.EOF only for a config
   selector returning io.EOF; else a status error *)
Theorem rpc_form src ff e :
  control_plane src -> nse_free e = true ->
  (rpc src ff e = ENil /\ e = ENil) \/
  (rpc src ff e = EEOF /\ src = 2 /\ e = EEOF) \/
  (exists c, status_of (rpc src ff e) = Some c /\ e <> ENil).
Proof.
  intros Hs Hn.
  destruct e; try discriminate Hn;
    try (left; split; reflexivity);
    try (right; right; destruct Hs as [-> | [-> | [-> | ->]]]; destruct ff; cbn;
         try (destruct (restricted c)); cbn; eexists; (split; [reflexivity|discriminate])).
  (* EEOF *)
  destruct Hs as [-> | [-> | [-> | ->]]].
  - right; right. destruct ff; cbn; eexists; (split; [reflexivity|discriminate]).
  - right; left. cbn. auto.
  - right; right. cbn; eexists; (split; [reflexivity|discriminate]).
  - right; right. cbn; eexists; (split; [reflexivity|discriminate]).
Qed.

(* code OK on a non-nil result comes only from an input status value of code OK *)
Theorem rpc_ok_code_iff src ff e :
  control_plane src -> nse_free e = true ->
  (status_of (rpc src ff e) = Some 0 <-> status_of e = Some 0).
Proof.
  intros Hs Hn. split.
  - intros H. destruct (status_of e) as [c0|] eqn:Est.
    + destruct (restricted c0) eqn:Er.
      * rewrite (rpc_restricted_internal src ff e c0 Hs Est Er) in H. discriminate.
      * rewrite (rpc_status_passthrough src ff e c0 Hs Est Er) in H. congruence.
    + exfalso. destruct e; try discriminate Hn; try discriminate Est;
        try (cbn in H; discriminate H);
        destruct Hs as [-> | [-> | [-> | ->]]]; destruct ff; cbn in H; discriminate H.
  - intros H. rewrite (rpc_status_passthrough src ff e 0 Hs H eq_refl). exact H.
Qed.

(* the two literal-statement failures *)
(* note: a status value of code OK from any of the sources is surfaced unchanged *)
Lemma ok_code_passthrough_note :
  rpc 1 true (EGS 0) = EGS 0 /\ rpc 2 true (EGS 0) = EGS 0 /\ rpc 3 true (EGS 0) = EGS 0 /\
  rpc 4 true (EGS 0) = EGS 0 /\ toRPCErr (EGS 0) = EGS 0 /\ status_of (EGS 0) = Some 0 /\ EGS 0 <> ENil.
Proof. repeat split; discriminate. Qed.

Lemma config_eof_refuted : rpc 2 true EEOF = EEOF /\ status_of EEOF = None.
Proof. split; reflexivity. Qed.

(* ---------- the executable predicate holds on every model trace ---------- *)

Definition op_wf (op : word) : bool :=
  match run_op op with Some _ => true | None => false end.

Definition okc (c : Z * Z * bool) : bool := (fst (fst c) =? 6) || snd c.

Lemma is_status_obs_of r c : status_of r = Some c -> is_status_obs (obs_of r) = true.
Proof.
  intros H. destruct r; try discriminate H; reflexivity.
Qed.

Lemma code_obs_of r c : status_of r = Some c -> code_obs (obs_of r) = c.
Proof. intros H. destruct r; try discriminate H; cbn in H; inversion H; reflexivity. Qed.

Lemma mk_err_nse_free kind c : nse_free (mk_err kind c) = true.
Proof.
  unfold mk_err.
  repeat match goal with |- context [if ?b then _ else _] => destruct b end; reflexivity.
Qed.

Lemma inner_wrap d e : inner (wrap_nse d e) = inner e.
Proof. induction d; cbn [wrap_nse inner]; auto. Qed.

Lemma clause_toRPCErr_model k e :
  forallb okc [(1, k, is_nil_obs (obs_of (toRPCErr e)) || is_eof_obs (obs_of (toRPCErr e)) ||
                      is_status_obs (obs_of (toRPCErr e)))] = true.
Proof.
  cbn [forallb okc fst snd Z.eqb]. rewrite andb_true_r. cbn [orb].
  destruct (toRPCErr_total e) as [H|[H|(c & H)]].
  - rewrite H. reflexivity.
  - rewrite H. reflexivity.
  - rewrite (is_status_obs_of _ c H). rewrite !orb_true_r. reflexivity.
Qed.

Lemma clause_rpc_model k src ff e :
  control_plane src -> nse_free e = true -> e <> ENil ->
  forallb okc (clause_rpc k src e (obs_of (rpc src ff e))) = true.
Proof.
  intros Hs Hn He. unfold clause_rpc. rewrite forallb_app. apply andb_true_iff. split.
  - destruct ((src =? 2) && is_eof_err e) eqn:E6; [reflexivity|].
    cbn [forallb okc fst snd Z.eqb]. rewrite andb_true_r. cbn [orb].
    destruct (rpc_form src ff e Hs Hn) as [[_ H]|[(_ & -> & ->)|(c & H & _)]]; [congruence|discriminate E6|].
    apply (is_status_obs_of _ c H).
  - destruct (status_of e) as [c0|] eqn:Est; [|reflexivity].
    destruct (restricted c0) eqn:Er; [|reflexivity].
    rewrite (rpc_restricted_internal src ff e c0 Hs Est Er). reflexivity.
Qed.

Lemma clause_op_model k op o : run_op op = Some o -> forallb okc (clause_op k op o) = true.
Proof.
  destruct op as [|t r]; [discriminate|].
  destruct (Z.eq_dec t 1) as [->|N1].
  - destruct r as [|d [|kind [|c [|? ?]]]]; try discriminate. cbn [run_op clause_op].
    destruct ((0 <=? d) && (d <=? 8) && code_ok c); [|discriminate].
    intros H. inversion H; subst. apply clause_toRPCErr_model.
  - destruct (Z.eq_dec t 2) as [->|N2].
    + destruct r as [|src [|ff [|api [|kind [|c [|? ?]]]]]]; try discriminate. cbn [run_op clause_op].
      destruct (code_ok c && (1 <=? src) && (src <=? 10) && negb (src =? 5)) eqn:Ew; [|discriminate].
      destruct (src =? 6) eqn:E6.
      * intros H. inversion H; subst. destruct (c =? 0) eqn:E0; [reflexivity|].
        apply Z.eqb_neq in E0. cbn. rewrite Z.eqb_refl.
        destruct (c =? 0) eqn:E0'; [apply Z.eqb_eq in E0'; congruence|]. reflexivity.
      * destruct (src =? 7) eqn:E7.
        { intros H. inversion H; subst. destruct (z2b ff); reflexivity. }
        destruct (src =? 8) eqn:E8.
        { intros H. inversion H; subst. cbn. rewrite Z.eqb_refl. reflexivity. }
        destruct (src =? 9) eqn:E9.
        { intros H. inversion H; subst. reflexivity. }
        destruct (src =? 10) eqn:E10.
        { intros H. inversion H; subst. reflexivity. }
        cbn [orb].
        intros H. inversion H; subst. clear H.
        destruct (is_nil_err (mk_err kind c)) eqn:En.
        { destruct (mk_err kind c); try discriminate En. reflexivity. }
        apply clause_rpc_model.
        { apply andb_true_iff in Ew as [Ew E5]. apply andb_true_iff in Ew as [Ew Ehi].
          apply andb_true_iff in Ew as [_ Elo]. apply Z.leb_le in Elo, Ehi.
          apply negb_true_iff, Z.eqb_neq in E5. apply Z.eqb_neq in E6, E7, E8, E9, E10. unfold control_plane. lia. }
        { apply mk_err_nse_free. }
        { intros Hm. rewrite Hm in En. discriminate. }
    + intros H. exfalso. destruct t as [|p|p]; try discriminate H.
      destruct p as [[p|p|]|[p|p|]|]; try discriminate H; congruence.
Qed.

Lemma clauses_from_model ops : forall k, forallb op_wf ops = true ->
  exists obs, run_ops ops = Some obs /\ forallb okc (clauses_from k ops obs) = true.
Proof.
  induction ops as [|op r IH]; intros k Hwf; cbn [forallb] in Hwf.
  - exists []. split; reflexivity.
  - apply andb_true_iff in Hwf as [Hop Hr]. destruct (IH (k + 1) Hr) as (obs & Hrun & Hh).
    unfold op_wf in Hop. destruct (run_op op) as [o|] eqn:Eo; [|discriminate].
    cbn [run_ops]. rewrite Eo, Hrun. exists (o :: obs). split; [reflexivity|].
    cbn [clauses_from]. rewrite forallb_app, (clause_op_model k op o Eo). exact Hh.
Qed.

Theorem model_trace_holds cfg ops : forallb op_wf ops = true ->
  exists obs, run cfg ops = Some obs /\ holds_b cfg ops obs = true.
Proof. intros H. exact (clauses_from_model ops 0 H). Qed.
