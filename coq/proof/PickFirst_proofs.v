From Coq Require Import List ZArith Bool Arith Lia Permutation.
From VLib Require Import Codec.
From VModel Require Import PickFirst.
Import ListNotations.
Open Scope Z_scope.

(* ---------- deDupAddresses ---------- *)

Lemma memz_In x l : memz x l = true <-> In x l.
Proof.
  unfold memz. rewrite existsb_exists. split.
  - intros [y [Hy E]]. apply Z.eqb_eq in E. subst. exact Hy.
  - intros H. exists x. split; [exact H|apply Z.eqb_refl].
Qed.

Lemma memz_false x l : memz x l = false <-> ~ In x l.
Proof. rewrite <- memz_In. destruct (memz x l); split; congruence. Qed.

Lemma dedup_acc_In seen l x : In x (dedup_acc seen l) <-> In x l /\ ~ In x seen.
Proof.
  revert seen. induction l as [|a r IH]; intros seen; cbn [dedup_acc In]; [tauto|].
  destruct (memz a seen) eqn:E.
  - apply memz_In in E. rewrite IH. split; [tauto|]. intros [[->|H] N]; tauto.
  - apply memz_false in E. cbn [In]. rewrite IH. cbn [In]. split.
    + intros [->|[H N]]; [tauto|]. tauto.
    + intros [[->|H] N]; [tauto|]. destruct (Z.eq_dec a x); [tauto|]. right. tauto.
Qed.

Lemma dedup_acc_NoDup seen l : NoDup (dedup_acc seen l).
Proof.
  revert seen. induction l as [|a r IH]; intros seen; cbn [dedup_acc]; [constructor|].
  destruct (memz a seen); [apply IH|]. constructor; [|apply IH].
  rewrite dedup_acc_In. cbn [In]. tauto.
Qed.

Lemma dedup_In l x : In x (dedup l) <-> In x l.
Proof. unfold dedup. rewrite dedup_acc_In. cbn [In]. tauto. Qed.
Lemma dedup_NoDup l : NoDup (dedup l).
Proof. apply dedup_acc_NoDup. Qed.

(* dedup keeps the elements in their original relative order *)
Inductive sublist : list Z -> list Z -> Prop :=
| sub_nil : forall l, sublist [] l
| sub_take : forall x a b, sublist a b -> sublist (x :: a) (x :: b)
| sub_skip : forall x a b, sublist a b -> sublist a (x :: b).

Lemma dedup_acc_sublist seen l : sublist (dedup_acc seen l) l.
Proof.
  revert seen. induction l as [|a r IH]; intros seen; cbn [dedup_acc]; [constructor|].
  destruct (memz a seen); [apply sub_skip|apply sub_take]; apply IH.
Qed.

Lemma dedup_id l : NoDup l -> dedup l = l.
Proof.
  unfold dedup. assert (G : forall seen, NoDup l -> (forall x, In x l -> ~ In x seen) -> dedup_acc seen l = l).
  { induction l as [|a r IH]; intros seen ND H; [reflexivity|]. cbn [dedup_acc].
    destruct (memz a seen) eqn:E; [apply memz_In in E; exfalso; apply (H a); [left; reflexivity|exact E]|].
    inversion ND; subst. f_equal. apply IH; [assumption|].
    intros x Hx [<-|Hs]; [contradiction|]. apply (H x); [right; exact Hx|exact Hs]. }
  intros ND. apply G; [exact ND|]. intros x _ [].
Qed.

(* ---------- interleaveAddresses ---------- *)

Lemma heads_tails_perm qs : Permutation (heads qs ++ concat (tails qs)) (concat qs).
Proof.
  induction qs as [|q r IH]; [constructor|].
  cbn [heads tails flat_map map concat]. fold (heads r). fold (tails r).
  destruct q as [|a t]; cbn [tl app]; [exact IH|].
  constructor. rewrite app_assoc. rewrite (Permutation_app_comm (heads r) t). rewrite <- app_assoc.
  apply Permutation_app_head. exact IH.
Qed.

Lemma rr_perm fuel : forall qs, (forall q, In q qs -> (length q <= fuel)%nat) ->
  Permutation (rr fuel qs) (concat qs).
Proof.
  induction fuel as [|f IH]; intros qs H; cbn [rr].
  - assert (E : concat qs = []).
    { induction qs as [|q r IHq]; [reflexivity|]. cbn [concat].
      assert (q = []) as -> by (destruct q; [reflexivity|]; specialize (H _ (or_introl eq_refl)); cbn in H; lia).
      apply IHq. intros q' Hq'. apply H. right. exact Hq'. }
    rewrite E. constructor.
  - rewrite <- (heads_tails_perm qs). apply Permutation_app_head. apply IH.
    intros q Hq. unfold tails in Hq. apply in_map_iff in Hq. destruct Hq as [q0 [<- Hq0]].
    specialize (H _ Hq0). destruct q0; cbn in *; lia.
Qed.

Lemma filter_split (p q : Z -> bool) l : (forall a, In a l -> p a && q a = false) ->
  Permutation (filter p l ++ filter q l) (filter (fun a => p a || q a) l).
Proof.
  induction l as [|a r IH]; intros H; [constructor|]. cbn [filter].
  assert (Hr : forall a0, In a0 r -> p a0 && q a0 = false) by (intros; apply H; right; assumption).
  specialize (H a (or_introl eq_refl)).
  destruct (p a) eqn:P, (q a) eqn:Q; cbn [orb app] in *; try discriminate.
  - constructor. apply IH, Hr.
  - rewrite <- Permutation_middle. constructor. apply IH, Hr.
  - apply IH, Hr.
Qed.

Lemma concat_queues_perm l fs : NoDup fs ->
  Permutation (concat (map (fun f => filter (fun a => fam a =? f) l) fs))
              (filter (fun a => memz (fam a) fs) l).
Proof.
  induction fs as [|f r IH]; intros ND; cbn [map concat].
  - cbn [memz existsb]. induction l; [constructor|exact IHl].
  - inversion ND as [|? ? Hn ND']; subst.
    etransitivity; [apply Permutation_app_head; apply (IH ND')|].
    etransitivity; [apply filter_split|].
    2:{ apply Permutation_refl'. apply filter_ext. intros a. unfold memz. cbn [existsb].
      rewrite Z.eqb_sym. reflexivity. }
    intros a _. destruct (fam a =? f) eqn:E; [|reflexivity]. apply Z.eqb_eq in E. subst f.
      cbn [andb]. apply memz_false. exact Hn.
Qed.

Lemma filter_all (p : Z -> bool) l : (forall a, In a l -> p a = true) -> filter p l = l.
Proof.
  induction l as [|a r IH]; intros H; [reflexivity|]. cbn [filter].
  rewrite (H a (or_introl eq_refl)). f_equal. apply IH. intros; apply H; right; assumption.
Qed.

Lemma filter_len (p : Z -> bool) l : (length (filter p l) <= length l)%nat.
Proof. induction l as [|a r IH]; [constructor|]. cbn [filter]. destruct (p a); cbn [length]; lia. Qed.

Lemma interleave_perm l : Permutation (interleave l) l.
Proof.
  unfold interleave. rewrite rr_perm.
  - unfold fam_queues. rewrite (concat_queues_perm l _ (dedup_NoDup _)).
    apply Permutation_refl'. apply filter_all. intros a Ha. apply memz_In, dedup_In, in_map. exact Ha.
  - intros q Hq. unfold fam_queues in Hq. apply in_map_iff in Hq. destruct Hq as [f [<- _]].
    apply filter_len.
Qed.

Fixpoint take {A} (n : nat) (l : list A) : list A :=
  match n, l with
  | S m, x :: r => x :: take m r
  | _, _ => []
  end.

(* within each family the relative order is preserved *)
Lemma take_all {A} n (l : list A) : (length l <= n)%nat -> take n l = l.
Proof.
  revert l. induction n as [|n IH]; intros [|a r] H; cbn in *; try reflexivity; try lia.
  f_equal. apply IH. lia.
Qed.

Lemma filter_heads f (Q : Z -> list Z) fs : NoDup fs ->
  (forall g, Forall (fun a => fam a = g) (Q g)) ->
  filter (fun a => fam a =? f) (heads (map Q fs)) = if memz f fs then take 1 (Q f) else [].
Proof.
  intros ND H. induction fs as [|g r IH]; [reflexivity|].
  inversion ND as [|? ? Hn ND']; subst.
  cbn [map heads flat_map]. fold (heads (map Q r)). rewrite filter_app, (IH ND').
  unfold memz at 2. cbn [existsb]. fold (memz f r).
  destruct (Z.eqb_spec f g) as [->|Hne].
  - cbn [orb]. apply memz_false in Hn. rewrite Hn, app_nil_r.
    specialize (H g). destruct (Q g) as [|a t]; [reflexivity|]. cbn [filter take].
    inversion H; subst. rewrite Z.eqb_refl. reflexivity.
  - cbn [orb]. specialize (H g). destruct (Q g) as [|a t]; [reflexivity|]. cbn [filter].
    inversion H as [|? ? Ha _]; subst. destruct (Z.eqb_spec (fam a) f); [congruence|]. reflexivity.
Qed.

Lemma filter_rr f fuel : forall (Q : Z -> list Z) fs, NoDup fs ->
  (forall g, Forall (fun a => fam a = g) (Q g)) ->
  filter (fun a => fam a =? f) (rr fuel (map Q fs)) = if memz f fs then take fuel (Q f) else [].
Proof.
  induction fuel as [|n IH]; intros Q fs ND H; cbn [rr].
  - destruct (memz f fs); reflexivity.
  - rewrite filter_app, (filter_heads f Q fs ND H). unfold tails. rewrite map_map.
    rewrite (IH (fun g => tl (Q g)) fs ND).
    + destruct (memz f fs); [|reflexivity]. destruct (Q f); [destruct n; reflexivity|reflexivity].
    + intros g. specialize (H g). destruct (Q g); [constructor|]. inversion H; assumption.
Qed.

Lemma interleave_family_order l f :
  filter (fun a => fam a =? f) (interleave l) = filter (fun a => fam a =? f) l.
Proof.
  unfold interleave, fam_queues.
  rewrite (filter_rr f (length l) (fun g => filter (fun a => fam a =? g) l) _ (dedup_NoDup _)).
  - destruct (memz f (dedup (map fam l))) eqn:E.
    + apply take_all. apply filter_len.
    + symmetry. apply memz_false in E. rewrite dedup_In in E.
      induction l as [|a r IH]; [reflexivity|]. cbn [filter].
      destruct (Z.eqb_spec (fam a) f) as [Ef|_].
      * exfalso. apply E. left. exact Ef.
      * apply IH. intros X. apply E. right. exact X.
  - intros g. apply Forall_forall. intros a Ha. apply filter_In in Ha. destruct Ha as [_ Ha].
    apply Z.eqb_eq in Ha. exact Ha.
Qed.

Lemma preprocess_perm l : Permutation (preprocess l) (dedup l).
Proof. apply interleave_perm. Qed.

Lemma preprocess_NoDup l : NoDup (preprocess l).
Proof. eapply Permutation_NoDup; [symmetry; apply preprocess_perm|apply dedup_NoDup]. Qed.

Lemma preprocess_In l x : In x (preprocess l) <-> In x l.
Proof.
  split; intros H.
  - apply dedup_In. eapply Permutation_in; [apply preprocess_perm|exact H].
  - eapply Permutation_in; [symmetry; apply preprocess_perm|]. apply dedup_In. exact H.
Qed.

Lemma preprocess_family_order l f :
  filter (fun a => fam a =? f) (preprocess l) = filter (fun a => fam a =? f) (dedup l).
Proof. apply interleave_family_order. Qed.

(* the first address keeps its place (the pass starts with the resolver's first address) *)
Lemma preprocess_head a l : exists r, preprocess (a :: l) = a :: r.
Proof.
  unfold preprocess, dedup. cbn [dedup_acc memz existsb].
  set (d := dedup_acc [a] l). unfold interleave, fam_queues. cbn [map length].
  unfold dedup. cbn [dedup_acc memz existsb map]. cbn [rr heads flat_map filter].
  rewrite Z.eqb_refl. cbn [app]. eexists. reflexivity.
Qed.

(* ================= the state machine ================= *)

Lemma u_events_app a b : u_events (a ++ b) = u_events a ++ u_events b. Proof. apply flat_map_app. Qed.
Lemma s_scs_app a b : s_scs (a ++ b) = s_scs a ++ s_scs b. Proof. apply flat_map_app. Qed.
Lemma n_scs_app a b : n_scs (a ++ b) = n_scs a ++ n_scs b. Proof. apply flat_map_app. Qed.

Lemma ext_S l : u_events (map evS l) = [] /\ n_scs (map evS l) = [] /\ s_scs (map evS l) = map zn l.
Proof. induction l as [|x r [A [B C]]]; [repeat split; reflexivity|]. repeat split; try assumption. cbn. f_equal. exact C. Qed.
Lemma ext_C l : u_events (map evC l) = [] /\ n_scs (map evC l) = [] /\ s_scs (map evC l) = [].
Proof. induction l as [|x r [A [B C]]]; [repeat split; reflexivity|]. repeat split; assumption. Qed.

(* only TRANSIENT_FAILURE is published, and no sub-channel... *)
Definition tf_only (e : list word) : Prop := forallb (fun u : Z * Z => fst u =? TF) (u_events e) = true.

Lemma tf_only_app a b : tf_only a -> tf_only b -> tf_only (a ++ b).
Proof. unfold tf_only. intros A B. rewrite u_events_app, forallb_app, A, B. reflexivity. Qed.
Lemma tf_only_nil : tf_only []. Proof. reflexivity. Qed.
Lemma tf_only_C l : tf_only (map evC l).
Proof. unfold tf_only. destruct (ext_C l) as [A _]. rewrite A. reflexivity. Qed.
Lemma tf_only_S l : tf_only (map evS l).
Proof. unfold tf_only. destruct (ext_S l) as [A _]. rewrite A. reflexivity. Qed.

Lemma update_state_tf s pk : tf_only (snd (update_state s TF pk)).
Proof. unfold update_state, force_state. destruct ((TF =? bstate s) && negb (bstate s =? TF)); reflexivity. Qed.

Lemma end_first_pass_tf s : tf_only (snd (end_first_pass s)).
Proof.
  unfold end_first_pass. destruct (al_valid s); [reflexivity|].
  destruct (forallb _ (subs s)); [|reflexivity].
  pose proof (update_state_tf (set_pass s false (numTF s)) (-1)) as H.
  destruct (update_state (set_pass s false (numTF s)) TF (-1)) as [s2 e]. cbn [snd] in *.
  apply tf_only_app; [exact H|apply tf_only_C].
Qed.

Lemma req_loop_tf fuel : forall s, tf_only (snd (req_loop fuel s)).
Proof.
  induction fuel as [|f IH]; intros s; [reflexivity|]. cbn [req_loop].
  destruct (lookup s (cur_addr s)) as [sc|].
  - destruct (d_raw (sds s sc) =? IDLE); [reflexivity|].
    destruct (d_raw (sds s sc) =? TF).
    + destruct (al_increment (upd_sd s sc (d_set_failed true))) as [s3 more]. destruct more.
      * specialize (IH s3). destruct (req_loop f s3). exact IH.
      * pose proof (end_first_pass_tf s3) as H. destruct (end_first_pass s3). exact H.
    + destruct (d_raw (sds s sc) =? CONNECTING); reflexivity.
  - set (s1 := set_subs _ _). set (sc := nsc s).
    destruct (d_raw (sds s1 sc) =? IDLE); [reflexivity|].
    destruct (d_raw (sds s1 sc) =? TF).
    + destruct (al_increment (upd_sd s1 sc (d_set_failed true))) as [s3 more]. destruct more.
      * specialize (IH s3). destruct (req_loop f s3). cbn [snd] in *. apply (tf_only_app [_]); [reflexivity|exact IH].
      * pose proof (end_first_pass_tf s3) as H. destruct (end_first_pass s3). cbn [snd] in *.
        apply (tf_only_app [_]); [reflexivity|exact H].
    + destruct (d_raw (sds s1 sc) =? CONNECTING); reflexivity.
Qed.

Lemma request_tf s : tf_only (snd (request_connection s)).
Proof. unfold request_connection. destruct (al_valid s); [apply req_loop_tf|reflexivity]. Qed.
Lemma start_tf s : tf_only (snd (start_first_pass s)).
Proof. unfold start_first_pass. apply request_tf. Qed.
Lemma resolver_error_tf s : tf_only (snd (resolver_error s)).
Proof. unfold resolver_error. destruct (_ && _); [reflexivity|apply update_state_tf]. Qed.
Lemma timer_fire_tf s : tf_only (snd (timer_fire s)).
Proof.
  unfold timer_fire. destruct (timer s); [|reflexivity].
  destruct (al_increment (set_timer s false)) as [s2 more]. destruct more; [apply request_tf|reflexivity].
Qed.

(* ---------- invariant: the active sub-channels are exactly those not shut down ---------- *)

Definition shutf (s : st) (sc : nat) : bool := d_shut (sds s sc).
Definition Alive (s : st) : Prop :=
  (forall sc, In sc (subs s) -> (sc < nsc s)%nat /\ shutf s sc = false) /\
  (forall sc, (sc < nsc s)%nat -> ~ In sc (subs s) -> shutf s sc = true).
Definition same_alive (s s' : st) : Prop :=
  subs s' = subs s /\ nsc s' = nsc s /\ forall sc, shutf s' sc = shutf s sc.

Lemma same_alive_refl s : same_alive s s.
Proof. repeat split. Qed.
Lemma same_alive_trans a b c : same_alive a b -> same_alive b c -> same_alive a c.
Proof. intros [A1 [A2 A3]] [B1 [B2 B3]]. split; [congruence|]. split; [congruence|]. intros sc. rewrite B3. apply A3. Qed.
Lemma Alive_same s s' : same_alive s s' -> Alive s -> Alive s'.
Proof.
  intros [A1 [A2 A3]] [H1 H2]. split; intros sc; rewrite A1, A2, A3; [apply H1|apply H2].
Qed.

Ltac sa := unfold same_alive, shutf; cbn; repeat split; try reflexivity.

Lemma sa_upd s sc g : (forall d, d_shut (g d) = d_shut d) -> same_alive s (upd_sd s sc g).
Proof. intros H. sa. intros x. unfold fupd. destruct (Nat.eqb x sc); [apply H|reflexivity]. Qed.
Lemma sa_list s l i : same_alive s (set_list s l i). Proof. sa. Qed.
Lemma sa_pass s a b : same_alive s (set_pass s a b). Proof. sa. Qed.
Lemma sa_timer s b : same_alive s (set_timer s b). Proof. sa. Qed.
Lemma sa_sticky s b : same_alive s (set_sticky s b). Proof. sa. Qed.
Lemma sa_incr s : same_alive s (fst (al_increment s)).
Proof. unfold al_increment. destruct (al_valid s); sa. Qed.
Lemma sa_seek s a : same_alive s (fst (al_seek s a)).
Proof. unfold al_seek. destruct (index_of a (addrs s)); sa. Qed.
Lemma sa_update s v pk : same_alive s (fst (update_state s v pk)).
Proof. unfold update_state, force_state. destruct (_ && _); sa. Qed.
Lemma sa_force s v pk : same_alive s (fst (force_state s v pk)).
Proof. sa. Qed.
Lemma sa_sched s : same_alive s (schedule_next s).
Proof. unfold schedule_next. destruct (al_has_next _); sa. Qed.
Lemma sa_efp s : same_alive s (fst (end_first_pass s)).
Proof.
  unfold end_first_pass. destruct (al_valid s); [apply same_alive_refl|].
  destruct (forallb _ _); [|apply same_alive_refl].
  pose proof (sa_update (set_pass s false (numTF s)) TF (-1)) as H.
  destruct (update_state (set_pass s false (numTF s)) TF (-1)) as [s2 e]. cbn [fst] in *.
  eapply same_alive_trans; [apply sa_pass|]. eapply same_alive_trans; [exact H|apply sa_sticky].
Qed.
Lemma sa_resolver_error s : same_alive s (fst (resolver_error s)).
Proof. unfold resolver_error. destruct (_ && _); [apply same_alive_refl|apply sa_update]. Qed.

Lemma Alive_init : Alive init.
Proof. split; intros sc H; [destruct H|cbn in H; lia]. Qed.

(* creation of a sub-channel *)
Lemma Alive_create s a : Alive s ->
  Alive (set_subs (set_sds s (fupd (sds s) (nsc s) (fun _ => mksd a IDLE IDLE false false)) (S (nsc s))) (subs s ++ [nsc s])).
Proof.
  intros [H1 H2]. split; intros sc; unfold shutf; cbn; unfold fupd.
  - intros Hin. apply in_app_or in Hin. destruct Hin as [Hin|[<-|[]]].
    + destruct (H1 sc Hin) as [A B]. split; [lia|]. destruct (Nat.eqb_spec sc (nsc s)); [lia|exact B].
    + rewrite Nat.eqb_refl. split; [lia|reflexivity].
  - intros Hlt Hn. destruct (Nat.eqb_spec sc (nsc s)) as [->|Hne].
    + exfalso. apply Hn. apply in_or_app. right. left. reflexivity.
    + apply H2; [lia|]. intros X. apply Hn. apply in_or_app. left. exact X.
Qed.

Lemma req_loop_alive fuel : forall s, Alive s -> Alive (fst (req_loop fuel s)).
Proof.
  induction fuel as [|f IH]; intros s A; [exact A|]. cbn [req_loop].
  assert (G : forall s1 sc e1, Alive s1 ->
    Alive (fst (if d_raw (sds s1 sc) =? IDLE then (schedule_next s1, e1 ++ [evC sc])
     else if d_raw (sds s1 sc) =? TF
          then let '(s3, more) := al_increment (upd_sd s1 sc (d_set_failed true)) in
               if more then let '(s4, e4) := req_loop f s3 in (s4, e1 ++ e4)
               else let '(s4, e4) := end_first_pass s3 in (s4, e1 ++ e4)
          else if d_raw (sds s1 sc) =? CONNECTING then (schedule_next s1, e1) else (s1, e1)))).
  { intros s1 sc e1 A1.
    destruct (d_raw (sds s1 sc) =? IDLE); [exact (Alive_same _ _ (sa_sched s1) A1)|].
    destruct (d_raw (sds s1 sc) =? TF).
    - assert (A2 : Alive (fst (al_increment (upd_sd s1 sc (d_set_failed true))))).
      { eapply Alive_same; [apply sa_incr|]. eapply Alive_same; [apply sa_upd; reflexivity|exact A1]. }
      destruct (al_increment (upd_sd s1 sc (d_set_failed true))) as [s3 more]. cbn [fst] in A2. destruct more.
      + specialize (IH s3 A2). destruct (req_loop f s3). exact IH.
      + pose proof (Alive_same _ _ (sa_efp s3) A2) as X. destruct (end_first_pass s3). exact X.
    - destruct (d_raw (sds s1 sc) =? CONNECTING); [exact (Alive_same _ _ (sa_sched s1) A1)|exact A1]. }
  destruct (lookup s (cur_addr s)) as [sc|].
  - apply (G s sc [] A).
  - apply (G _ (nsc s) [evN (nsc s) (cur_addr s)] (Alive_create s (cur_addr s) A)).
Qed.

Lemma request_alive s : Alive s -> Alive (fst (request_connection s)).
Proof. intros A. unfold request_connection. destruct (al_valid s); [apply req_loop_alive; exact A|exact A]. Qed.

Lemma sa_start_prefix s :
  same_alive s (set_sds (set_pass s true 0)
     (fun x => if existsb (Nat.eqb x) (subs (set_pass s true 0)) then d_set_failed false (sds (set_pass s true 0) x)
               else sds (set_pass s true 0) x) (nsc (set_pass s true 0))).
Proof. sa. intros sc. destruct (existsb _ _); reflexivity. Qed.

Lemma start_alive s : Alive s -> Alive (fst (start_first_pass s)).
Proof. intros A. unfold start_first_pass. apply request_alive. exact (Alive_same _ _ (sa_start_prefix s) A). Qed.

(* Shutdown of a part l of the active sub-channels, keeping the rest *)
Lemma Alive_shutdown s l keep : Alive s ->
  (forall sc, In sc (subs s) -> In sc l \/ In sc keep) -> (forall sc, In sc keep -> In sc (subs s) /\ ~ In sc l) ->
  Alive (set_subs (fst (shutdown_all s l)) keep).
Proof.
  intros [H1 H2] Hc Hk. split; intros sc; unfold shutf, shutdown_all; cbn.
  - intros Hin. destruct (Hk sc Hin) as [Hs Hn]. destruct (H1 sc Hs) as [A B]. split; [exact A|].
    destruct (existsb (Nat.eqb sc) l) eqn:E; [|exact B].
    apply existsb_exists in E. destruct E as [y [Hy Ey]]. apply Nat.eqb_eq in Ey. subst y. contradiction.
  - intros Hlt Hn. destruct (existsb (Nat.eqb sc) l) eqn:E; [reflexivity|].
    apply H2; [exact Hlt|]. intros Hs. destruct (Hc sc Hs) as [X|X]; [|contradiction].
    assert (existsb (Nat.eqb sc) l = true) by (apply existsb_exists; exists sc; split; [exact X|apply Nat.eqb_refl]).
    congruence.
Qed.

Lemma shutdown_remaining_alive s sc : Alive s -> In sc (subs s) -> Alive (fst (shutdown_remaining s sc)).
Proof.
  intros A Hin. unfold shutdown_remaining.
  pose proof (Alive_shutdown (cancel_timer s) (filter (fun x => negb (Nat.eqb x sc)) (subs (cancel_timer s))) [sc]
                (Alive_same _ _ (sa_timer s false) A)) as X.
  destruct (shutdown_all (cancel_timer s) _) as [s2 e]. cbn [fst] in *. apply X.
  - intros x Hx. destruct (Nat.eqb_spec x sc) as [->|Hne]; [right; left; reflexivity|left].
    apply filter_In. split; [exact Hx|]. apply negb_true_iff, Nat.eqb_neq. exact Hne.
  - intros x [<-|[]]. split; [exact Hin|]. intros F. apply filter_In in F. destruct F as [_ F].
    rewrite Nat.eqb_refl in F. discriminate.
Qed.

Lemma is_active_in s sc : is_active s sc = true -> In sc (subs s).
Proof.
  unfold is_active, lookup. destruct (find _ (subs s)) as [sc'|] eqn:F; [|discriminate].
  intros E. apply Nat.eqb_eq in E. subst sc'. apply find_some in F. exact (proj1 F).
Qed.

Lemma resolver_update_alive s l0 : Alive s -> Alive (fst (resolver_update s l0)).
Proof.
  intros A. unfold resolver_update.
  pose proof (Alive_same _ _ (sa_timer s false) A) as A0. fold (cancel_timer s) in A0.
  destruct (filter valid_addr l0) as [|a l1].
  - pose proof (Alive_shutdown (cancel_timer s) (subs (cancel_timer s)) [] A0) as X.
    destruct (shutdown_all (cancel_timer s) (subs (cancel_timer s))) as [s1 e1]. cbn [fst] in X.
    assert (A2 : Alive (set_sticky (set_list (set_subs s1 []) [] 0) false)).
    { eapply Alive_same; [apply sa_sticky|]. eapply Alive_same; [apply sa_list|]. apply X.
      - intros sc H. left. exact H.
      - intros sc []. }
    pose proof (Alive_same _ _ (sa_resolver_error _) A2) as A3.
    destruct (resolver_error _) as [s3 e3]. exact A3.
  - set (l' := preprocess (a :: l1)).
    set (s1 := set_list (cancel_timer s) l' 0).
    assert (A1 : Alive s1) by (exact (Alive_same _ _ (sa_list _ _ _) A0)).
    destruct (match lookup (cancel_timer s) (cur_addr (cancel_timer s)) with
              | Some sc => d_raw (sds (cancel_timer s) sc) =? READY | None => false end) eqn:PR.
    + pose proof (Alive_same _ _ (sa_seek s1 (cur_addr (cancel_timer s))) A1) as AK.
      destruct (al_seek s1 (cur_addr (cancel_timer s))) as [s1k kept]. cbn [fst] in AK.
      destruct kept; [exact AK|].
      pose proof (Alive_shutdown s1 (filter (fun sc => negb (memz (d_addr (sds s1 sc)) l')) (subs s1))
                    (filter (fun sc => memz (d_addr (sds s1 sc)) l') (subs s1)) A1) as X.
      destruct (shutdown_all s1 _) as [s2 e2]. cbn [fst] in X.
      assert (A3 : Alive (set_subs s2 (filter (fun sc => memz (d_addr (sds s1 sc)) l') (subs s1)))).
      { apply X.
        - intros sc H. destruct (memz (d_addr (sds s1 sc)) l') eqn:M; [right|left]; apply filter_In; split; try assumption.
          rewrite M. reflexivity.
        - intros sc H. apply filter_In in H. destruct H as [H M]. split; [exact H|]. intros F. apply filter_In in F.
          destruct F as [_ F]. rewrite M in F. discriminate. }
      cbn [orb]. pose proof (Alive_same _ _ (sa_force _ CONNECTING (-1)) A3) as A4.
      destruct (force_state _ CONNECTING (-1)) as [s4 e4]. cbn [fst] in A4.
      pose proof (start_alive s4 A4) as A5. destruct (start_first_pass s4) as [s5 e5]. exact A5.
    + pose proof (Alive_shutdown s1 (filter (fun sc => negb (memz (d_addr (sds s1 sc)) l')) (subs s1))
                    (filter (fun sc => memz (d_addr (sds s1 sc)) l') (subs s1)) A1) as X.
      destruct (shutdown_all s1 _) as [s2 e2]. cbn [fst] in X.
      assert (A3 : Alive (set_subs s2 (filter (fun sc => memz (d_addr (sds s1 sc)) l') (subs s1)))).
      { apply X.
        - intros sc H. destruct (memz (d_addr (sds s1 sc)) l') eqn:M; [right|left]; apply filter_In; split; try assumption.
          rewrite M. reflexivity.
        - intros sc H. apply filter_In in H. destruct H as [H M]. split; [exact H|]. intros F. apply filter_In in F.
          destruct F as [_ F]. rewrite M in F. discriminate. }
      cbn [orb].
      destruct ((bstate _ =? CONNECTING) || _).
      * pose proof (Alive_same _ _ (sa_force _ CONNECTING (-1)) A3) as A4.
        destruct (force_state _ CONNECTING (-1)) as [s4 e4]. cbn [fst] in A4.
        pose proof (start_alive s4 A4) as A5. destruct (start_first_pass s4) as [s5 e5]. exact A5.
      * destruct (bstate _ =? TF); [|exact A3].
        pose proof (start_alive _ A3) as A5. destruct (start_first_pass _) as [s5 e5]. exact A5.
Qed.

Lemma sc_state_alive s sc v : Alive s -> Alive (fst (sc_state s sc v)).
Proof.
  intros A. unfold sc_state.
  set (s1 := upd_sd s sc (d_set_raw v)).
  assert (A1 : Alive s1) by (exact (Alive_same _ _ (sa_upd s sc (d_set_raw v) (fun d => eq_refl)) A)).
  destruct (is_active s1 sc) eqn:ACT; cbn [negb]; [|exact A1].
  destruct (v =? SHUTDOWN); [exact (Alive_same _ _ (sa_upd s1 sc (d_set_eff SHUTDOWN) (fun d => eq_refl)) A1)|].
  set (s2 := if v =? TF then upd_sd s1 sc (d_set_failed true) else s1).
  assert (S2 : same_alive s1 s2) by (unfold s2; destruct (v =? TF); [apply sa_upd; reflexivity|apply same_alive_refl]).
  assert (A2 : Alive s2) by exact (Alive_same _ _ S2 A1).
  assert (IN : In sc (subs s2)) by (destruct S2 as [E _]; rewrite E; apply is_active_in; exact ACT).
  destruct (v =? READY).
  { pose proof (shutdown_remaining_alive s2 sc A2 IN) as A3.
    destruct (shutdown_remaining s2 sc) as [s3 e3]. cbn [fst] in A3.
    pose proof (Alive_same _ _ (sa_seek s3 (d_addr (sds s3 sc))) A3) as A4.
    destruct (al_seek s3 (d_addr (sds s3 sc))) as [s4 found]. cbn [fst] in A4.
    destruct found; cbn [negb]; [|exact A4].
    pose proof (Alive_same _ _ (sa_upd s4 sc (d_set_eff READY) (fun d => eq_refl)) A4) as A5.
    pose proof (Alive_same _ _ (sa_update _ READY (zn sc)) A5) as A6.
    destruct (update_state _ READY (zn sc)). exact A6. }
  destruct ((d_raw (sds s sc) =? READY) || (d_raw (sds s sc) =? CONNECTING) && (v =? IDLE)).
  { pose proof (shutdown_remaining_alive s2 sc A2 IN) as A3.
    destruct (shutdown_remaining s2 sc) as [s3 e3]. cbn [fst] in A3.
    assert (A4 : Alive (set_list (upd_sd s3 sc (d_set_eff v)) (addrs s3) 0)).
    { eapply Alive_same; [apply sa_list|]. eapply Alive_same; [apply sa_upd; reflexivity|exact A3]. }
    pose proof (Alive_same _ _ (sa_update _ IDLE (-1)) A4) as A5.
    destruct (update_state _ IDLE (-1)). exact A5. }
  destruct (firstPass s2).
  { destruct (v =? CONNECTING).
    - destruct (negb (d_eff (sds s2 sc) =? TF)); [|exact A2].
      pose proof (Alive_same _ _ (sa_upd s2 sc (d_set_eff CONNECTING) (fun d => eq_refl)) A2) as A3.
      destruct (negb (bstate _ =? TF)); [|exact A3].
      exact (Alive_same _ _ (sa_update _ CONNECTING (-1)) A3).
    - destruct (v =? TF); [|exact A2].
      pose proof (Alive_same _ _ (sa_upd s2 sc (d_set_eff TF) (fun d => eq_refl)) A2) as A3.
      destruct (cur_addr _ =? _).
      + assert (A4 : Alive (fst (al_increment (cancel_timer (upd_sd s2 sc (d_set_eff TF)))))).
        { eapply Alive_same; [apply sa_incr|]. eapply Alive_same; [apply sa_timer|exact A3]. }
        destruct (al_increment _) as [s5 more]. cbn [fst] in A4.
        destruct more; [apply request_alive; exact A4|exact (Alive_same _ _ (sa_efp s5) A4)].
      + exact (Alive_same _ _ (sa_efp _) A3). }
  destruct (v =? TF).
  { set (s3 := set_pass s2 _ _). assert (A3 : Alive s3) by exact (Alive_same _ _ (sa_pass _ _ _) A2).
    destruct (_ =? 0); [exact (Alive_same _ _ (sa_update _ TF (-1)) A3)|exact A3]. }
  destruct (v =? IDLE); exact A2.
Qed.

Lemma timer_fire_alive s : Alive s -> Alive (fst (timer_fire s)).
Proof.
  intros A. unfold timer_fire. destruct (timer s); [|exact A].
  assert (A2 : Alive (fst (al_increment (set_timer s false)))).
  { eapply Alive_same; [apply sa_incr|]. eapply Alive_same; [apply sa_timer|exact A]. }
  destruct (al_increment _) as [s2 more]. cbn [fst] in A2. destruct more; [apply request_alive; exact A2|exact A2].
Qed.

Lemma exit_idle_alive s : Alive s -> Alive (fst (exit_idle s)).
Proof.
  intros A. unfold exit_idle. destruct (bstate s =? IDLE); [|exact A].
  pose proof (Alive_same _ _ (sa_update s CONNECTING (-1)) A) as A1.
  destruct (update_state s CONNECTING (-1)) as [s1 e1]. cbn [fst] in A1.
  pose proof (start_alive s1 A1) as A2. destruct (start_first_pass s1). exact A2.
Qed.

Lemma step_main_alive s op : Alive s -> Alive (fst (step_main s op)).
Proof.
  intros A. unfold step_main.
  destruct op as [|z r]; [exact A|].
  destruct z as [|q|q]; try exact A.
  do 3 (try destruct q as [q|q|]); try exact A.
  all: first [ apply exit_idle_alive; exact A | apply timer_fire_alive; exact A
             | exact (Alive_same _ _ (sa_resolver_error s) A) | apply resolver_update_alive; exact A
             | destruct r as [|z [|v [|x r]]]; try exact A;
               destruct (sc_of s z); [|exact A]; destruct (_ && _); [apply sc_state_alive; exact A|exact A] ].
Qed.

(* ---------- clause 1: READY soundness ---------- *)

Definition nr (e : list word) : Prop := forallb (fun u : Z * Z => negb (fst u =? READY)) (u_events e) = true.

Lemma nr_app a b : nr a -> nr b -> nr (a ++ b).
Proof. unfold nr. intros A B. rewrite u_events_app, forallb_app, A, B. reflexivity. Qed.
Lemma nr_tf e : tf_only e -> nr e.
Proof.
  unfold nr, tf_only. intros H. rewrite forallb_forall in *. intros u Hu. specialize (H u Hu).
  apply Z.eqb_eq in H. rewrite H. reflexivity.
Qed.
Lemma nr_S l : nr (map evS l). Proof. apply nr_tf, tf_only_S. Qed.
Lemma update_state_nr s v pk : v <> READY -> nr (snd (update_state s v pk)).
Proof.
  intros H. unfold update_state, force_state. destruct (_ && _); [reflexivity|].
  unfold nr. cbn. destruct (Z.eqb_spec v READY); [contradiction|reflexivity].
Qed.
Lemma nr_ready_ok s op e : nr e -> ready_ok s op e = true.
Proof.
  unfold nr, ready_ok. rewrite !forallb_forall. intros H u Hu. rewrite (H u Hu). reflexivity.
Qed.

Lemma resolver_update_nr s l0 : nr (snd (resolver_update s l0)).
Proof.
  unfold resolver_update. destruct (filter valid_addr l0) as [|a l1].
  - destruct (shutdown_all (cancel_timer s) (subs (cancel_timer s))) as [s1 e1] eqn:E1.
    assert (e1 = map evS (subs (cancel_timer s))) by (unfold shutdown_all in E1; inversion E1; reflexivity). subst e1.
    pose proof (resolver_error_tf (set_sticky (set_list (set_subs s1 []) [] 0) false)) as T.
    destruct (resolver_error _) as [s3 e3]. cbn [snd] in *.
    apply nr_app; [apply nr_S|]. apply nr_app; [apply nr_tf; exact T|reflexivity].
  - set (l' := preprocess (a :: l1)). set (s1 := set_list (cancel_timer s) l' 0).
    assert (G : forall (pr : bool) sk (kept : bool), nr (snd (
       if kept then (sk, [[12; 0]])
       else let '(s2, e2) := shutdown_all s1 (filter (fun sc => negb (memz (d_addr (sds s1 sc)) l')) (subs s1)) in
            let s3 := set_subs s2 (filter (fun sc => memz (d_addr (sds s1 sc)) l') (subs s1)) in
            if pr || (bstate s3 =? CONNECTING) || (length (addrs (cancel_timer s)) =? 0)%nat
            then let '(s4, e4) := force_state s3 CONNECTING (-1) in
                 let '(s5, e5) := start_first_pass s4 in (s5, e2 ++ e4 ++ e5 ++ [[12; 0]])
            else if bstate s3 =? TF then let '(s5, e5) := start_first_pass s3 in (s5, e2 ++ e5 ++ [[12; 0]])
                 else (s3, e2 ++ [[12; 0]])))).
    { intros pr sk kept. destruct kept; [reflexivity|].
      destruct (shutdown_all s1 _) as [s2 e2] eqn:E2.
      assert (N2 : nr e2) by (unfold shutdown_all in E2; inversion E2; apply nr_S).
      cbv beta iota zeta.
      match goal with |- context [if ?c then _ else _] => destruct c end.
      - destruct (force_state _ CONNECTING (-1)) as [s4 e4] eqn:E4.
        assert (N4 : nr e4) by (unfold force_state in E4; inversion E4; reflexivity).
        pose proof (start_tf s4) as T. destruct (start_first_pass s4) as [s5 e5]. cbn [snd] in *.
        apply nr_app; [exact N2|]. apply nr_app; [exact N4|]. apply nr_app; [apply nr_tf; exact T|reflexivity].
      - destruct (bstate _ =? TF).
        + pose proof (start_tf (set_subs s2 (filter (fun sc => memz (d_addr (sds s1 sc)) l') (subs s1)))) as T.
          destruct (start_first_pass _) as [s5 e5]. cbn [snd] in *.
          apply nr_app; [exact N2|]. apply nr_app; [apply nr_tf; exact T|reflexivity].
        + cbn [snd]. apply nr_app; [exact N2|reflexivity]. }
    destruct (match lookup (cancel_timer s) (cur_addr (cancel_timer s)) with
              | Some sc => d_raw (sds (cancel_timer s) sc) =? READY | None => false end).
    + destruct (al_seek s1 (cur_addr (cancel_timer s))) as [sk kept]. apply (G true sk kept).
    + apply (G false s1 false).
Qed.

Lemma sc_of_zn s sc : (sc < nsc s)%nat -> sc_of s (zn sc) = Some sc.
Proof.
  intros H. unfold sc_of, zn. replace ((0 <=? Z.of_nat sc) && (Z.of_nat sc <? Z.of_nat (nsc s))) with true.
  - rewrite Nat2Z.id. reflexivity.
  - symmetry. apply andb_true_iff. split; [apply Z.leb_le|apply Z.ltb_lt]; lia.
Qed.

Lemma sc_state_ready_ok s sc v : Alive s -> (sc < nsc s)%nat ->
  ready_ok s [2; zn sc; v] (snd (sc_state s sc v)) = true.
Proof.
  intros A Hlt. unfold sc_state.
  set (s1 := upd_sd s sc (d_set_raw v)).
  assert (S1 : same_alive s s1) by (apply sa_upd; reflexivity).
  destruct (is_active s1 sc) eqn:ACT; cbn [negb]; [|reflexivity].
  destruct (v =? SHUTDOWN); [reflexivity|].
  set (s2 := if v =? TF then upd_sd s1 sc (d_set_failed true) else s1).
  assert (S2 : same_alive s1 s2) by (unfold s2; destruct (v =? TF); [apply sa_upd; reflexivity|apply same_alive_refl]).
  pose proof (same_alive_trans _ _ _ S1 S2) as S02.
  assert (IN : In sc (subs s2)) by (destruct S2 as [E _]; rewrite E; apply is_active_in; exact ACT).
  destruct (v =? READY) eqn:EV.
  { apply Z.eqb_eq in EV. subst v.
    unfold shutdown_remaining. cbn [shutdown_all].
    set (others := filter (fun x => negb (Nat.eqb x sc)) (subs (cancel_timer s2))).
    match goal with |- context [al_seek ?a ?b] => destruct (al_seek a b) as [s4 found] end.
    destruct found; cbn [negb]; [|apply nr_ready_ok, nr_S].
    match goal with |- context [update_state ?a READY ?b] => destruct (update_state a READY b) as [s5 e5] eqn:E5 end.
    cbn [snd].
    assert (E5' : e5 = [] \/ e5 = [evU READY (zn sc)]).
    { unfold update_state, force_state in E5. destruct (_ && _); inversion E5; auto. }
    destruct E5' as [->| ->]; [rewrite app_nil_r; apply nr_ready_ok, nr_S|].
    unfold ready_ok. rewrite u_events_app. destruct (ext_S others) as [U [N SS]]. rewrite U. cbn [app u_events flat_map evU forallb].
    rewrite andb_true_r. replace (READY =? READY) with true by reflexivity. cbn [negb orb andb].
    rewrite Z.eqb_refl, (sc_of_zn s sc Hlt). cbn [andb].
    destruct A as [A1 A2]. destruct S02 as [ES [EN EF]].
    assert (INs : In sc (subs s)) by (rewrite <- ES; exact IN).
    destruct (A1 sc INs) as [_ NS]. unfold shutf in NS. rewrite NS. cbn [negb andb].
    rewrite n_scs_app, N. cbn [app n_scs flat_map evU]. rewrite andb_true_r.
    cbn [orb snd]. rewrite Z.eqb_refl. cbn [andb].
    apply forallb_forall. intros x Hx. apply in_seq in Hx.
    destruct (Nat.eqb_spec x sc) as [->|Hne]; [reflexivity|]. cbn [orb].
    destruct (in_dec Nat.eq_dec x (subs s)) as [Hi|Hn].
    - apply orb_true_iff. right. apply memz_In. rewrite s_scs_app, SS. apply in_or_app. left.
      apply in_map. unfold others. apply filter_In. split; [change (subs (cancel_timer s2)) with (subs s2); rewrite ES; exact Hi|].
      apply negb_true_iff, Nat.eqb_neq. exact Hne.
    - assert (shutf s x = true) by (apply A2; [lia|exact Hn]). unfold shutf in H. rewrite H. reflexivity. }
  apply nr_ready_ok.
  destruct ((d_raw (sds s sc) =? READY) || (d_raw (sds s sc) =? CONNECTING) && (v =? IDLE)).
  { unfold shutdown_remaining. cbn [shutdown_all].
    match goal with |- context [update_state ?a IDLE ?b] => pose proof (update_state_nr a IDLE b ltac:(discriminate)) as X; destruct (update_state a IDLE b) end.
    cbn [snd] in *. apply nr_app; [apply nr_S|exact X]. }
  destruct (firstPass s2).
  { destruct (v =? CONNECTING).
    - destruct (negb (d_eff (sds s2 sc) =? TF)); [|reflexivity].
      destruct (negb (bstate _ =? TF)); [|reflexivity]. apply update_state_nr. discriminate.
    - destruct (v =? TF); [|reflexivity].
      destruct (cur_addr _ =? _).
      + destruct (al_increment _) as [s5 more]. destruct more; apply nr_tf; [apply request_tf|apply end_first_pass_tf].
      + apply nr_tf, end_first_pass_tf. }
  destruct (v =? TF).
  { destruct (_ =? 0); [apply nr_tf, update_state_tf|reflexivity]. }
  destruct (v =? IDLE); reflexivity.
Qed.

Lemma sc_of_spec s z sc : sc_of s z = Some sc -> (sc < nsc s)%nat /\ z = zn sc.
Proof.
  unfold sc_of, zn. destruct ((0 <=? z) && (z <? Z.of_nat (nsc s))) eqn:E; [|discriminate].
  intros [= <-]. apply andb_true_iff in E. destruct E as [A B]. apply Z.leb_le in A. apply Z.ltb_lt in B. lia.
Qed.

Lemma exit_idle_nr s : nr (snd (exit_idle s)).
Proof.
  unfold exit_idle. destruct (bstate s =? IDLE); [|reflexivity].
  pose proof (update_state_nr s CONNECTING (-1) ltac:(discriminate)) as X.
  destruct (update_state s CONNECTING (-1)) as [s1 e1]. pose proof (start_tf s1) as T.
  destruct (start_first_pass s1). cbn [snd] in *. apply nr_app; [exact X|apply nr_tf; exact T].
Qed.

Lemma ready_step s op : Alive s -> ready_ok s op (snd (step_main s op)) = true.
Proof.
  intros A. unfold step_main.
  destruct op as [|z r]; [reflexivity|].
  destruct z as [|q|q]; try reflexivity.
  do 3 (try destruct q as [q|q|]); try reflexivity.
  all: first [ apply nr_ready_ok, exit_idle_nr | apply nr_ready_ok, nr_tf, timer_fire_tf
             | apply nr_ready_ok, nr_tf, resolver_error_tf | apply nr_ready_ok, resolver_update_nr | idtac ].
  destruct r as [|z [|v [|x r]]]; try reflexivity.
  destruct (sc_of s z) as [sc|] eqn:E; [|reflexivity].
  destruct (_ && _); [|reflexivity].
  apply sc_of_spec in E. destruct E as [Hlt ->]. apply sc_state_ready_ok; assumption.
Qed.

(* ---------- clause 4: sticky TRANSIENT_FAILURE ---------- *)

Definition J1 (s : st) : Prop := sticky s = true -> bstate s = TF.
Definition same_bs (s s' : st) : Prop := bstate s' = bstate s /\ sticky s' = sticky s.

Lemma J1_same s s' : same_bs s s' -> J1 s -> J1 s'.
Proof. intros [A B] H. unfold J1. rewrite A, B. exact H. Qed.
Lemma same_bs_refl s : same_bs s s. Proof. split; reflexivity. Qed.
Lemma same_bs_trans a b c : same_bs a b -> same_bs b c -> same_bs a c.
Proof. intros [A1 A2] [B1 B2]. split; congruence. Qed.

Lemma J1_force s v pk : J1 s -> J1 (fst (force_state s v pk)).
Proof.
  intros H. unfold J1, force_state. cbn. destruct (Z.eqb_spec v TF) as [->|N]; [intros _; reflexivity|discriminate].
Qed.
Lemma J1_update s v pk : J1 s -> J1 (fst (update_state s v pk)).
Proof. intros H. unfold update_state. destruct (_ && _); [exact H|apply J1_force; exact H]. Qed.

Lemma bs_incr s : same_bs s (fst (al_increment s)).
Proof. unfold al_increment. destruct (al_valid s); split; reflexivity. Qed.
Lemma bs_seek s a : same_bs s (fst (al_seek s a)).
Proof. unfold al_seek. destruct (index_of a (addrs s)); split; reflexivity. Qed.
Lemma bs_sched s : same_bs s (schedule_next s).
Proof. unfold schedule_next. destruct (al_has_next _); split; reflexivity. Qed.
Lemma bs_shutdown_remaining s sc : same_bs s (fst (shutdown_remaining s sc)).
Proof. split; reflexivity. Qed.

Lemma J1_efp s : J1 s -> J1 (fst (end_first_pass s)).
Proof.
  intros H. unfold end_first_pass. destruct (al_valid s); [exact H|]. destruct (forallb _ _); [|exact H].
  unfold update_state, force_state. cbn [bstate set_pass].
  replace ((TF =? bstate s) && negb (bstate s =? TF)) with false
    by (destruct (Z.eqb_spec (bstate s) TF) as [->|N]; [reflexivity|rewrite (proj2 (Z.eqb_neq TF (bstate s))); [reflexivity|congruence]]).
  intros _. reflexivity.
Qed.

Lemma J1_req fuel : forall s, J1 s -> J1 (fst (req_loop fuel s)).
Proof.
  induction fuel as [|f IH]; intros s H; [exact H|]. cbn [req_loop].
  assert (G : forall s1 sc e1, J1 s1 ->
    J1 (fst (if d_raw (sds s1 sc) =? IDLE then (schedule_next s1, e1 ++ [evC sc])
     else if d_raw (sds s1 sc) =? TF
          then let '(s3, more) := al_increment (upd_sd s1 sc (d_set_failed true)) in
               if more then let '(s4, e4) := req_loop f s3 in (s4, e1 ++ e4)
               else let '(s4, e4) := end_first_pass s3 in (s4, e1 ++ e4)
          else if d_raw (sds s1 sc) =? CONNECTING then (schedule_next s1, e1) else (s1, e1)))).
  { intros s1 sc e1 H1.
    destruct (d_raw (sds s1 sc) =? IDLE); [exact (J1_same _ _ (bs_sched s1) H1)|].
    destruct (d_raw (sds s1 sc) =? TF).
    - assert (H2 : J1 (fst (al_increment (upd_sd s1 sc (d_set_failed true)))))
        by (eapply J1_same; [apply bs_incr|exact H1]).
      destruct (al_increment _) as [s3 more]. cbn [fst] in H2. destruct more.
      + specialize (IH s3 H2). destruct (req_loop f s3). exact IH.
      + pose proof (J1_efp s3 H2) as X. destruct (end_first_pass s3). exact X.
    - destruct (d_raw (sds s1 sc) =? CONNECTING); [exact (J1_same _ _ (bs_sched s1) H1)|exact H1]. }
  destruct (lookup s (cur_addr s)) as [sc|]; [apply (G s sc [] H)|apply G; exact H].
Qed.

Lemma J1_request s : J1 s -> J1 (fst (request_connection s)).
Proof. intros H. unfold request_connection. destruct (al_valid s); [apply J1_req; exact H|exact H]. Qed.
Lemma J1_start s : J1 s -> J1 (fst (start_first_pass s)).
Proof. intros H. unfold start_first_pass. apply J1_request. exact H. Qed.
Lemma J1_resolver_error s : J1 s -> J1 (fst (resolver_error s)).
Proof. intros H. unfold resolver_error. destruct (_ && _); [exact H|apply J1_update; exact H]. Qed.

Lemma J1_resolver_update s l0 : J1 s -> J1 (fst (resolver_update s l0)).
Proof.
  intros H. unfold resolver_update. destruct (filter valid_addr l0) as [|a l1].
  - cbn [shutdown_all].
    match goal with |- context [resolver_error ?x] =>
      assert (HX : J1 x) by (intros F; discriminate F); pose proof (J1_resolver_error x HX) as Y; destruct (resolver_error x) end.
    exact Y.
  - set (l' := preprocess (a :: l1)). set (s1 := set_list (cancel_timer s) l' 0).
    assert (H1 : J1 s1) by exact H.
    assert (G : forall (pr : bool) sk (kept : bool), J1 sk -> J1 (fst (
       if kept then (sk, [[12; 0]])
       else let '(s2, e2) := shutdown_all s1 (filter (fun sc => negb (memz (d_addr (sds s1 sc)) l')) (subs s1)) in
            let s3 := set_subs s2 (filter (fun sc => memz (d_addr (sds s1 sc)) l') (subs s1)) in
            if pr || (bstate s3 =? CONNECTING) || (length (addrs (cancel_timer s)) =? 0)%nat
            then let '(s4, e4) := force_state s3 CONNECTING (-1) in
                 let '(s5, e5) := start_first_pass s4 in (s5, e2 ++ e4 ++ e5 ++ [[12; 0]])
            else if bstate s3 =? TF then let '(s5, e5) := start_first_pass s3 in (s5, e2 ++ e5 ++ [[12; 0]])
                 else (s3, e2 ++ [[12; 0]])))).
    { intros pr sk kept Hk. destruct kept; [exact Hk|]. cbn [shutdown_all]. cbv beta iota zeta.
      match goal with |- context [if ?c then _ else _] => destruct c end.
      - match goal with |- context [force_state ?x CONNECTING ?p] =>
          assert (HX : J1 x) by exact H; pose proof (J1_force x CONNECTING p HX) as Y; destruct (force_state x CONNECTING p) as [s4 e4] end.
        cbn [fst] in Y. pose proof (J1_start s4 Y) as Z. destruct (start_first_pass s4). exact Z.
      - match goal with |- context [if ?c then _ else _] => destruct c end; [|exact H].
        match goal with |- context [start_first_pass ?x] =>
          assert (HX : J1 x) by exact H; pose proof (J1_start x HX) as Z; destruct (start_first_pass x) end. exact Z. }
    destruct (match lookup (cancel_timer s) (cur_addr (cancel_timer s)) with
              | Some sc => d_raw (sds (cancel_timer s) sc) =? READY | None => false end).
    + pose proof (J1_same _ _ (bs_seek s1 (cur_addr (cancel_timer s))) H1) as HK.
      destruct (al_seek s1 (cur_addr (cancel_timer s))) as [sk kept]. apply (G true sk kept HK).
    + apply (G false s1 false H1).
Qed.

Lemma J1_sc_state s sc v : J1 s -> J1 (fst (sc_state s sc v)).
Proof.
  intros H. unfold sc_state.
  set (s1 := upd_sd s sc (d_set_raw v)). assert (H1 : J1 s1) by exact H.
  destruct (negb (is_active s1 sc)); [exact H1|].
  destruct (v =? SHUTDOWN); [exact H1|].
  set (s2 := if v =? TF then upd_sd s1 sc (d_set_failed true) else s1).
  assert (H2 : J1 s2) by (unfold s2; destruct (v =? TF); exact H1).
  destruct (v =? READY).
  { unfold shutdown_remaining. cbn [shutdown_all].
    match goal with |- context [al_seek ?a ?b] => assert (HA : J1 a) by exact H2;
      pose proof (J1_same _ _ (bs_seek a b) HA) as H4; destruct (al_seek a b) as [s4 found] end.
    cbn [fst] in H4. destruct found; cbn [negb]; [|exact H4].
    match goal with |- context [update_state ?a READY ?b] => assert (HB : J1 a) by exact H4;
      pose proof (J1_update a READY b HB) as Y; destruct (update_state a READY b) end. exact Y. }
  destruct (_ || _).
  { unfold shutdown_remaining. cbn [shutdown_all].
    match goal with |- context [update_state ?a IDLE ?b] => assert (HB : J1 a) by exact H2;
      pose proof (J1_update a IDLE b HB) as Y; destruct (update_state a IDLE b) end. exact Y. }
  destruct (firstPass s2).
  { destruct (v =? CONNECTING).
    - destruct (negb (d_eff (sds s2 sc) =? TF)); [|exact H2].
      destruct (negb (bstate _ =? TF)); [|exact H2]. apply J1_update. exact H2.
    - destruct (v =? TF); [|exact H2].
      destruct (cur_addr _ =? _).
      + match goal with |- context [al_increment ?a] => assert (HA : J1 a) by exact H2;
          pose proof (J1_same _ _ (bs_incr a) HA) as H5; destruct (al_increment a) as [s5 more] end.
        cbn [fst] in H5. destruct more; [apply J1_request; exact H5|apply J1_efp; exact H5].
      + apply J1_efp. exact H2. }
  destruct (v =? TF).
  { destruct (_ =? 0); [apply J1_update; exact H2|exact H2]. }
  destruct (v =? IDLE); exact H2.
Qed.

Lemma J1_timer s : J1 s -> J1 (fst (timer_fire s)).
Proof.
  intros H. unfold timer_fire. destruct (timer s); [|exact H].
  match goal with |- context [al_increment ?a] => assert (HA : J1 a) by exact H;
    pose proof (J1_same _ _ (bs_incr a) HA) as H5; destruct (al_increment a) as [s5 more] end.
  cbn [fst] in H5. destruct more; [apply J1_request; exact H5|exact H5].
Qed.

Lemma J1_exit_idle s : J1 s -> J1 (fst (exit_idle s)).
Proof.
  intros H. unfold exit_idle. destruct (bstate s =? IDLE); [|exact H].
  pose proof (J1_update s CONNECTING (-1) H) as Y. destruct (update_state s CONNECTING (-1)) as [s1 e1].
  pose proof (J1_start s1 Y) as Z. destruct (start_first_pass s1). exact Z.
Qed.

Lemma J1_step_main s op : J1 s -> J1 (fst (step_main s op)).
Proof.
  intros A. unfold step_main.
  destruct op as [|z r]; [exact A|].
  destruct z as [|q|q]; try exact A.
  do 3 (try destruct q as [q|q|]); try exact A.
  all: first [ apply J1_exit_idle; exact A | apply J1_timer; exact A
             | apply J1_resolver_error; exact A | apply J1_resolver_update; exact A
             | destruct r as [|z [|v [|x r]]]; try exact A;
               destruct (sc_of s z); [|exact A]; destruct (_ && _); [apply J1_sc_state; exact A|exact A] ].
Qed.

(* no CONNECTING among the published states *)
Definition nc (e : list word) : Prop := forallb (fun u : Z * Z => negb (fst u =? CONNECTING)) (u_events e) = true.
Lemma nc_app a b : nc a -> nc b -> nc (a ++ b).
Proof. unfold nc. intros A B. rewrite u_events_app, forallb_app, A, B. reflexivity. Qed.
Lemma nc_tf e : tf_only e -> nc e.
Proof.
  unfold nc, tf_only. intros H. rewrite forallb_forall in *. intros u Hu. specialize (H u Hu).
  apply Z.eqb_eq in H. rewrite H. reflexivity.
Qed.
Lemma nc_S l : nc (map evS l). Proof. apply nc_tf, tf_only_S. Qed.
Lemma update_state_nc s v pk : v <> CONNECTING -> nc (snd (update_state s v pk)).
Proof.
  intros H. unfold update_state, force_state. destruct (_ && _); [reflexivity|].
  unfold nc. cbn. destruct (Z.eqb_spec v CONNECTING); [contradiction|reflexivity].
Qed.

Lemma sticky_walk_false l : sticky_walk false l = true.
Proof.
  induction l as [|[v x] r IH]; [reflexivity|]. cbn [sticky_walk].
  destruct (v =? CONNECTING); [exact IH|]. destruct ((v =? READY) || (v =? IDLE)); exact IH.
Qed.
Lemma sticky_walk_nc k e : nc e -> sticky_walk k (u_events e) = true.
Proof.
  unfold nc. generalize (u_events e). intros l. revert k. induction l as [|[v x] r IH]; intros k H; [reflexivity|].
  cbn [forallb fst] in H. apply andb_true_iff in H. destruct H as [H1 H2]. apply negb_true_iff in H1.
  cbn [sticky_walk]. rewrite H1. destruct ((v =? READY) || (v =? IDLE)); apply IH; exact H2.
Qed.

Lemma sticky_eff_facts s : sticky_eff s = true -> J1 s ->
  bstate s = TF /\ (forall sc, In sc (subs s) -> (d_raw (sds s sc) =? READY) = false) /\ addrs s <> [].
Proof.
  unfold sticky_eff. intros H J. apply andb_true_iff in H. destruct H as [H H3].
  apply andb_true_iff in H. destruct H as [H1 H2]. split; [exact (J H1)|]. split.
  - intros sc Hin. rewrite forallb_forall in H2. specialize (H2 sc Hin). apply negb_true_iff in H2. exact H2.
  - destruct (addrs s); [discriminate|discriminate].
Qed.

Lemma resolver_update_nc s l0 : sticky_eff s = true -> J1 s -> filter valid_addr l0 <> [] ->
  nc (snd (resolver_update s l0)).
Proof.
  intros K J NE. destruct (sticky_eff_facts s K J) as [B [NRd NA]].
  unfold resolver_update. destruct (filter valid_addr l0) as [|a l1]; [congruence|].
  set (l' := preprocess (a :: l1)). set (s1 := set_list (cancel_timer s) l' 0).
  assert (PR : match lookup (cancel_timer s) (cur_addr (cancel_timer s)) with
               | Some sc => d_raw (sds (cancel_timer s) sc) =? READY | None => false end = false).
  { unfold lookup. destruct (find _ (subs (cancel_timer s))) as [sc|] eqn:F; [|reflexivity].
    apply find_some in F. destruct F as [F _]. exact (NRd sc F). }
  rewrite PR. cbn [shutdown_all]. cbv beta iota zeta. cbn [orb].
  change (bstate (set_subs _ _)) with (bstate s). rewrite B.
  replace (TF =? CONNECTING) with false by reflexivity.
  replace ((length (addrs (cancel_timer s)) =? 0)%nat) with false
    by (change (addrs (cancel_timer s)) with (addrs s); destruct (addrs s); [congruence|reflexivity]).
  cbn [orb]. replace (TF =? TF) with true by reflexivity.
  match goal with |- context [start_first_pass ?x] => pose proof (start_tf x) as T; destruct (start_first_pass x) end.
  cbn [snd] in *. apply nc_app; [apply nc_S|]. apply nc_app; [apply nc_tf; exact T|reflexivity].
Qed.

Lemma sc_state_nc s sc v : sticky_eff s = true -> J1 s -> nc (snd (sc_state s sc v)).
Proof.
  intros K J. destruct (sticky_eff_facts s K J) as [B _].
  unfold sc_state. set (s1 := upd_sd s sc (d_set_raw v)).
  destruct (negb (is_active s1 sc)); [reflexivity|].
  destruct (v =? SHUTDOWN); [reflexivity|].
  set (s2 := if v =? TF then upd_sd s1 sc (d_set_failed true) else s1).
  assert (B2 : bstate s2 = TF) by (unfold s2; destruct (v =? TF); exact B).
  destruct (v =? READY).
  { unfold shutdown_remaining. cbn [shutdown_all].
    match goal with |- context [al_seek ?a ?b] => destruct (al_seek a b) as [s4 found] end.
    destruct found; cbn [negb]; [|apply nc_S].
    match goal with |- context [update_state ?a READY ?b] =>
      pose proof (update_state_nc a READY b ltac:(discriminate)) as X; destruct (update_state a READY b) end.
    cbn [snd] in *. apply nc_app; [apply nc_S|exact X]. }
  destruct (_ || _).
  { unfold shutdown_remaining. cbn [shutdown_all].
    match goal with |- context [update_state ?a IDLE ?b] =>
      pose proof (update_state_nc a IDLE b ltac:(discriminate)) as X; destruct (update_state a IDLE b) end.
    cbn [snd] in *. apply nc_app; [apply nc_S|exact X]. }
  destruct (firstPass s2).
  { destruct (v =? CONNECTING).
    - destruct (negb (d_eff (sds s2 sc) =? TF)); [|reflexivity].
      change (bstate (upd_sd s2 sc (d_set_eff CONNECTING))) with (bstate s2). rewrite B2. reflexivity.
    - destruct (v =? TF); [|reflexivity].
      destruct (cur_addr _ =? _).
      + destruct (al_increment _) as [s5 more]. destruct more; apply nc_tf; [apply request_tf|apply end_first_pass_tf].
      + apply nc_tf, end_first_pass_tf. }
  destruct (v =? TF).
  { destruct (_ =? 0); [apply nc_tf, update_state_tf|reflexivity]. }
  destruct (v =? IDLE); reflexivity.
Qed.

Lemma sticky_step s op : J1 s -> sticky_ok s op (snd (step_main s op)) = true.
Proof.
  intros J. unfold sticky_ok.
  assert (G : forall k, (k = true -> nc (snd (step_main s op))) -> sticky_walk k (u_events (snd (step_main s op))) = true).
  { intros [|] H; [apply sticky_walk_nc, H; reflexivity|apply sticky_walk_false]. }
  destruct (sticky_eff s) eqn:K.
  2:{ destruct op as [|z r]; [reflexivity|]. destruct z as [|q|q]; try apply sticky_walk_false.
      destruct q; try apply sticky_walk_false. destruct (filter valid_addr r); apply sticky_walk_false. }
  assert (NC : (forall r, op = 1 :: r -> filter valid_addr r <> []) -> nc (snd (step_main s op))).
  { intros NE. unfold step_main.
    destruct op as [|z r]; [reflexivity|].
    destruct z as [|q|q]; try reflexivity.
    do 3 (try destruct q as [q|q|]); try reflexivity.
    all: first [ apply nc_tf, timer_fire_tf | apply nc_tf, resolver_error_tf
               | apply resolver_update_nc; [exact K|exact J|apply NE; reflexivity] | idtac ].
    - unfold exit_idle. destruct (sticky_eff_facts s K J) as [B _]. rewrite B. reflexivity.
    - destruct r as [|z [|v [|x r]]]; try reflexivity.
      destruct (sc_of s z); [|reflexivity]. destruct (_ && _); [apply sc_state_nc; assumption|reflexivity]. }
  destruct op as [|z r]; [reflexivity|].
  destruct (Z.eq_dec z 1) as [->|N1].
  - destruct (filter valid_addr r) eqn:F; [apply sticky_walk_false|].
    apply sticky_walk_nc, NC. intros r' [= <-]. rewrite F. discriminate.
  - assert (E : match z :: r with 1 :: l => match filter valid_addr l with [] => false | _ => true end | _ => true end = true).
    { destruct z as [|q|q]; try reflexivity. destruct q; try reflexivity. congruence. }
    assert (KK : match z :: r with
                 | 1 :: l => match filter valid_addr l with [] => false | _ :: _ => true end
                 | _ => true end = true) by exact E.
    replace (match z :: r with
             | 1 :: l => match filter valid_addr l with [] => false | _ :: _ => true end
             | _ => true end) with true in * by (symmetry; exact E).
    assert (X : nc (snd (step_main s (z :: r)))) by (apply NC; intros r' [= -> _]; congruence).
    destruct z as [|q|q]; try (apply sticky_walk_nc, X).
Qed.

(* ---------- the [0] marker and the bridge for clauses 1 and 4 ---------- *)

Definition nz (w : word) : bool := match w with z :: _ => negb (z =? 0) | [] => true end.
Definition nzl (e : list word) : Prop := forallb nz e = true.

Lemma split_chunk_app e rest : nzl e -> split_chunk (e ++ [0] :: rest) = Some (e, rest).
Proof.
  unfold nzl. induction e as [|w e IH]; intros H; [reflexivity|].
  cbn [forallb] in H. apply andb_true_iff in H. destruct H as [Hw He].
  cbn [app split_chunk]. rewrite (IH He).
  destruct w as [|z w']; [reflexivity|]. destruct z; try reflexivity. discriminate.
Qed.

Lemma nzl_app a b : nzl a -> nzl b -> nzl (a ++ b).
Proof. unfold nzl. intros A B. rewrite forallb_app, A, B. reflexivity. Qed.
Lemma nzl_S l : nzl (map evS l). Proof. induction l; [reflexivity|assumption]. Qed.
Lemma nzl_C l : nzl (map evC l). Proof. induction l; [reflexivity|assumption]. Qed.
Lemma nzl_update s v pk : nzl (snd (update_state s v pk)).
Proof. unfold update_state, force_state. destruct (_ && _); reflexivity. Qed.
Lemma nzl_efp s : nzl (snd (end_first_pass s)).
Proof.
  unfold end_first_pass. destruct (al_valid s); [reflexivity|]. destruct (forallb _ _); [|reflexivity].
  pose proof (nzl_update (set_pass s false (numTF s)) TF (-1)) as H.
  destruct (update_state _ TF (-1)) as [s2 e]. cbn [snd] in *. apply nzl_app; [exact H|apply nzl_C].
Qed.
Lemma nzl_req fuel : forall s, nzl (snd (req_loop fuel s)).
Proof.
  induction fuel as [|f IH]; intros s; [reflexivity|]. cbn [req_loop].
  assert (G : forall s1 sc e1, nzl e1 ->
    nzl (snd (if d_raw (sds s1 sc) =? IDLE then (schedule_next s1, e1 ++ [evC sc])
     else if d_raw (sds s1 sc) =? TF
          then let '(s3, more) := al_increment (upd_sd s1 sc (d_set_failed true)) in
               if more then let '(s4, e4) := req_loop f s3 in (s4, e1 ++ e4)
               else let '(s4, e4) := end_first_pass s3 in (s4, e1 ++ e4)
          else if d_raw (sds s1 sc) =? CONNECTING then (schedule_next s1, e1) else (s1, e1)))).
  { intros s1 sc e1 H1.
    destruct (d_raw (sds s1 sc) =? IDLE); [apply nzl_app; [exact H1|reflexivity]|].
    destruct (d_raw (sds s1 sc) =? TF).
    - destruct (al_increment _) as [s3 more]. destruct more.
      + specialize (IH s3). destruct (req_loop f s3). apply nzl_app; assumption.
      + pose proof (nzl_efp s3) as X. destruct (end_first_pass s3). apply nzl_app; assumption.
    - destruct (d_raw (sds s1 sc) =? CONNECTING); exact H1. }
  destruct (lookup s (cur_addr s)) as [sc|]; apply G; reflexivity.
Qed.
Lemma nzl_request s : nzl (snd (request_connection s)).
Proof. unfold request_connection. destruct (al_valid s); [apply nzl_req|reflexivity]. Qed.
Lemma nzl_start s : nzl (snd (start_first_pass s)). Proof. apply nzl_request. Qed.
Lemma nzl_resolver_error s : nzl (snd (resolver_error s)).
Proof. unfold resolver_error. destruct (_ && _); [reflexivity|apply nzl_update]. Qed.

Lemma nzl_resolver_update s l0 : nzl (snd (resolver_update s l0)).
Proof.
  unfold resolver_update. destruct (filter valid_addr l0) as [|a l1].
  - cbn [shutdown_all].
    match goal with |- context [resolver_error ?x] => pose proof (nzl_resolver_error x) as Y; destruct (resolver_error x) end.
    cbn [snd] in *. apply nzl_app; [apply nzl_S|]. apply nzl_app; [exact Y|reflexivity].
  - set (l' := preprocess (a :: l1)). set (s1 := set_list (cancel_timer s) l' 0).
    assert (G : forall (pr : bool) sk (kept : bool), nzl (snd (
       if kept then (sk, [[12; 0]])
       else let '(s2, e2) := shutdown_all s1 (filter (fun sc => negb (memz (d_addr (sds s1 sc)) l')) (subs s1)) in
            let s3 := set_subs s2 (filter (fun sc => memz (d_addr (sds s1 sc)) l') (subs s1)) in
            if pr || (bstate s3 =? CONNECTING) || (length (addrs (cancel_timer s)) =? 0)%nat
            then let '(s4, e4) := force_state s3 CONNECTING (-1) in
                 let '(s5, e5) := start_first_pass s4 in (s5, e2 ++ e4 ++ e5 ++ [[12; 0]])
            else if bstate s3 =? TF then let '(s5, e5) := start_first_pass s3 in (s5, e2 ++ e5 ++ [[12; 0]])
                 else (s3, e2 ++ [[12; 0]])))).
    { intros pr sk kept. destruct kept; [reflexivity|]. cbn [shutdown_all]. cbv beta iota zeta.
      match goal with |- context [if ?c then _ else _] => destruct c end.
      - cbn [force_state]. unfold force_state.
        match goal with |- context [start_first_pass ?x] => pose proof (nzl_start x) as Z; destruct (start_first_pass x) end.
        cbn [snd] in *. apply nzl_app; [apply nzl_S|]. apply (nzl_app [_]); [reflexivity|]. apply nzl_app; [exact Z|reflexivity].
      - match goal with |- context [if ?c then _ else _] => destruct c end.
        + match goal with |- context [start_first_pass ?x] => pose proof (nzl_start x) as Z; destruct (start_first_pass x) end.
          cbn [snd] in *. apply nzl_app; [apply nzl_S|]. apply nzl_app; [exact Z|reflexivity].
        + cbn [snd]. apply nzl_app; [apply nzl_S|reflexivity]. }
    destruct (match lookup (cancel_timer s) (cur_addr (cancel_timer s)) with
              | Some sc => d_raw (sds (cancel_timer s) sc) =? READY | None => false end).
    + destruct (al_seek s1 (cur_addr (cancel_timer s))) as [sk kept]. apply (G true sk kept).
    + apply (G false s1 false).
Qed.

Lemma nzl_sc_state s sc v : nzl (snd (sc_state s sc v)).
Proof.
  unfold sc_state. set (s1 := upd_sd s sc (d_set_raw v)).
  destruct (negb (is_active s1 sc)); [reflexivity|].
  destruct (v =? SHUTDOWN); [reflexivity|].
  set (s2 := if v =? TF then upd_sd s1 sc (d_set_failed true) else s1).
  destruct (v =? READY).
  { unfold shutdown_remaining. cbn [shutdown_all].
    match goal with |- context [al_seek ?a ?b] => destruct (al_seek a b) as [s4 found] end.
    destruct found; cbn [negb]; [|apply nzl_S].
    match goal with |- context [update_state ?a READY ?b] => pose proof (nzl_update a READY b) as X; destruct (update_state a READY b) end.
    cbn [snd] in *. apply nzl_app; [apply nzl_S|exact X]. }
  destruct (_ || _).
  { unfold shutdown_remaining. cbn [shutdown_all].
    match goal with |- context [update_state ?a IDLE ?b] => pose proof (nzl_update a IDLE b) as X; destruct (update_state a IDLE b) end.
    cbn [snd] in *. apply nzl_app; [apply nzl_S|exact X]. }
  destruct (firstPass s2).
  { destruct (v =? CONNECTING).
    - destruct (negb (d_eff (sds s2 sc) =? TF)); [|reflexivity].
      destruct (negb (bstate _ =? TF)); [apply nzl_update|reflexivity].
    - destruct (v =? TF); [|reflexivity].
      destruct (cur_addr _ =? _).
      + destruct (al_increment _) as [s5 more]. destruct more; [apply nzl_request|apply nzl_efp].
      + apply nzl_efp. }
  destruct (v =? TF).
  { destruct (_ =? 0); [apply nzl_update|reflexivity]. }
  destruct (v =? IDLE); reflexivity.
Qed.

Lemma nzl_step_main s op : nzl (snd (step_main s op)).
Proof.
  unfold step_main.
  destruct op as [|z r]; [reflexivity|].
  destruct z as [|q|q]; try reflexivity.
  do 3 (try destruct q as [q|q|]); try reflexivity.
  all: first [ apply nzl_resolver_error | apply nzl_resolver_update
             | unfold timer_fire; destruct (timer s); [|reflexivity]; destruct (al_increment _) as [s2 more];
               destruct more; [apply nzl_request|reflexivity]
             | unfold exit_idle; destruct (bstate s =? IDLE); [|reflexivity];
               pose proof (nzl_update s CONNECTING (-1)) as X; destruct (update_state s CONNECTING (-1)) as [s1 e1];
               pose proof (nzl_start s1) as Y; destruct (start_first_pass s1); apply nzl_app; assumption
             | destruct r as [|z [|v [|x r]]]; try reflexivity;
               destruct (sc_of s z); [|reflexivity]; destruct (_ && _); [apply nzl_sc_state|reflexivity] ].
Qed.

Definition Inv (s : st) : Prop := Alive s /\ J1 s.
Lemma Inv_init : Inv init.
Proof. split; [exact Alive_init|]. intros H. discriminate. Qed.
Lemma step_main_inv s op : Inv s -> Inv (fst (step_main s op)).
Proof. intros [A J]. split; [apply step_main_alive; exact A|apply J1_step_main; exact J]. Qed.

Lemma step_fst s op : fst (step s op) = fst (step_main s op).
Proof. unfold step. destruct (step_main s op). reflexivity. Qed.
Lemma step_snd s op : snd (step s op) = snd (step_main s op) ++ [[0]].
Proof. unfold step. destruct (step_main s op). reflexivity. Qed.

Definition ok14 (c : Z * Z * bool) : bool := (fst (fst c) =? 2) || (fst (fst c) =? 3) || snd c.

Lemma clauses_from_ok ops : forall s i, Inv s ->
  forallb ok14 (clauses_from s ops (snd (run_from s ops)) i) = true.
Proof.
  induction ops as [|op r IH]; intros s i I; [reflexivity|].
  cbn [run_from clauses_from].
  pose proof (step_main_inv s op I) as I1. rewrite <- step_fst in I1.
  pose proof (step_snd s op) as E. pose proof (step_fst s op) as EF.
  destruct (step s op) as [s1 e]. cbn [fst snd] in *. subst e.
  specialize (IH s1 (i + 1) I1). destruct (run_from s1 r) as [s2 e']. cbn [snd] in *.
  rewrite <- app_assoc. cbn [app]. rewrite (split_chunk_app _ _ (nzl_step_main s op)).
  rewrite forallb_app, IH, andb_true_r. unfold clause_op. cbn [forallb ok14 fst snd].
  destruct I as [A J]. rewrite (ready_step s op A), (sticky_step s op J). reflexivity.
Qed.

Theorem model_trace_holds ops : exists obs, run ops = Some obs /\ holds_1_4 ops obs = true.
Proof.
  exists (snd (run_from init ops)). split; [reflexivity|].
  unfold holds_1_4, clauses. apply (clauses_from_ok ops init 0 Inv_init).
Qed.

(* ---------- readable statements ---------- *)

Definition reachable (s : st) : Prop := exists ops, s = fst (run_from init ops).

Lemma run_from_inv ops : forall s, Inv s -> Inv (fst (run_from s ops)).
Proof.
  induction ops as [|op r IH]; intros s I; cbn [run_from]; [exact I|].
  pose proof (step_main_inv s op I) as I1. rewrite <- step_fst in I1.
  destruct (step s op) as [s1 e]. cbn [fst] in I1. specialize (IH s1 I1). destruct (run_from s1 r). exact IH.
Qed.
Lemma reachable_inv s : reachable s -> Inv s.
Proof. intros [ops ->]. apply run_from_inv, Inv_init. Qed.

Lemma reachable_alive s : reachable s -> Alive s.
Proof. intros R. exact (proj1 (reachable_inv s R)). Qed.

Lemma ready_sound s op : reachable s -> ready_ok s op (snd (step_main s op)) = true.
Proof. intros R. apply ready_step, reachable_alive, R. Qed.

(* READY is published only while processing the READY report of a sub-channel that is
   active (hence not shut down), with a picker returning exactly that sub-channel *)
Lemma ready_only_on_ready_report s op x : reachable s ->
  In (READY, x) (u_events (snd (step_main s op))) ->
  exists sc, op = [2; zn sc; READY] /\ x = zn sc /\ (sc < nsc s)%nat /\ d_shut (sds s sc) = false /\
             forall sc', (sc' < nsc s)%nat -> sc' <> sc ->
               d_shut (sds s sc') = true \/ In (zn sc') (s_scs (snd (step_main s op))).
Proof.
  intros R Hin. pose proof (ready_sound s op R) as H. unfold ready_ok in H.
  rewrite forallb_forall in H. specialize (H _ Hin). cbn [fst snd] in H.
  replace (READY =? READY) with true in H by reflexivity. cbn [negb orb] in H.
  destruct op as [|a l]; [discriminate H|].
  destruct a as [|q|q]; try discriminate H. destruct q as [q|q|]; try discriminate H.
  destruct q as [q|q|]; try discriminate H.
  destruct l as [|z [|v [|d r]]]; try discriminate H.
  apply andb_true_iff in H. destruct H as [H1 H2]. apply andb_true_iff in H1. destruct H1 as [Hv Hz].
  apply Z.eqb_eq in Hv. apply Z.eqb_eq in Hz. subst v x.
  destruct (sc_of s z) as [sc|] eqn:E; [|discriminate H2]. apply sc_of_spec in E. destruct E as [Hlt ->].
  apply andb_true_iff in H2. destruct H2 as [H2 _]. apply andb_true_iff in H2. destruct H2 as [Hs Hall].
  apply negb_true_iff in Hs. exists sc. repeat split; try assumption.
  intros sc' Hlt' Hne. rewrite forallb_forall in Hall. specialize (Hall sc' ltac:(apply in_seq; lia)).
  apply orb_true_iff in Hall. destruct Hall as [Hall|Hall]; [|right; apply memz_In; exact Hall].
  apply orb_true_iff in Hall. destruct Hall as [Hall|Hall]; [apply Nat.eqb_eq in Hall; contradiction|left; exact Hall].
Qed.

(* sticky TF over all histories: from any reachable state in which TF published at the end of
   a pass over a non-empty list stands and no active sub-channel's latest state is READY,
   no operation (other than an empty resolver update, the A62 exception) publishes CONNECTING *)
Lemma sticky_tf s op u : reachable s -> sticky_eff s = true ->
  (forall r, op = 1 :: r -> filter valid_addr r <> []) ->
  In u (u_events (snd (step_main s op))) -> fst u <> CONNECTING.
Proof.
  intros R K NE Hin. destruct (reachable_inv s R) as [_ J].
  assert (NC : nc (snd (step_main s op))).
  { unfold step_main.
    destruct op as [|z r]; [reflexivity|].
    destruct z as [|q|q]; try reflexivity.
    do 3 (try destruct q as [q|q|]); try reflexivity.
    all: first [ apply nc_tf, timer_fire_tf | apply nc_tf, resolver_error_tf
               | apply resolver_update_nc; [exact K|exact J|apply NE; reflexivity] | idtac ].
    - unfold exit_idle. destruct (sticky_eff_facts s K J) as [B _]. rewrite B. reflexivity.
    - destruct r as [|z [|v [|x r]]]; try reflexivity.
      destruct (sc_of s z); [|reflexivity]. destruct (_ && _); [apply sc_state_nc; assumption|reflexivity]. }
  unfold nc in NC. rewrite forallb_forall in NC. specialize (NC u Hin). apply negb_true_iff in NC.
  apply Z.eqb_neq. exact NC.
Qed.

(* the ghost flag means what its name says: it is set only with TF published, and any other
   publication clears it *)
Lemma sticky_means_tf s : reachable s -> sticky s = true -> bstate s = TF.
Proof. intros R. exact (proj2 (reachable_inv s R)). Qed.
