From Coq Require Import List ZArith Bool Arith Lia Permutation.
From VLib Require Import Codec.
From VModel Require Import PickFirst.
Import ListNotations.
Open Scope Z_scope.

(* ---------- deDupAddresses ---------- *)

Lemma memz_In x l : memz x l = true <-> In x l.
Proof.
  unfold memz. rewrite existsb_exists. split.
  - intros [y [Hy E]]. apply Z.eqb_eq in E. subst. exact Hy.
  - intros H. exists x. split; [exact H|apply Z.eqb_refl].
Qed.

Lemma memz_false x l : memz x l = false <-> ~ In x l.
Proof. rewrite <- memz_In. destruct (memz x l); split; congruence. Qed.

Lemma dedup_acc_In seen l x : In x (dedup_acc seen l) <-> In x l /\ ~ In x seen.
Proof.
  revert seen. induction l as [|a r IH]; intros seen; cbn [dedup_acc In]; [tauto|].
  destruct (memz a seen) eqn:E.
  - apply memz_In in E. rewrite IH. split; [tauto|]. intros [[->|H] N]; tauto.
  - apply memz_false in E. cbn [In]. rewrite IH. cbn [In]. split.
    + intros [->|[H N]]; [tauto|]. tauto.
    + intros [[->|H] N]; [tauto|]. destruct (Z.eq_dec a x); [tauto|]. right. tauto.
Qed.

Lemma dedup_acc_NoDup seen l : NoDup (dedup_acc seen l).
Proof.
  revert seen. induction l as [|a r IH]; intros seen; cbn [dedup_acc]; [constructor|].
  destruct (memz a seen); [apply IH|]. constructor; [|apply IH].
  rewrite dedup_acc_In. cbn [In]. tauto.
Qed.

Lemma dedup_In l x : In x (dedup l) <-> In x l.
Proof. unfold dedup. rewrite dedup_acc_In. cbn [In]. tauto. Qed.
Lemma dedup_NoDup l : NoDup (dedup l).
Proof. apply dedup_acc_NoDup. Qed.

(* dedup keeps the elements in their original relative order *)
Inductive sublist : list Z -> list Z -> Prop :=
| sub_nil : forall l, sublist [] l
| sub_take : forall x a b, sublist a b -> sublist (x :: a) (x :: b)
| sub_skip : forall x a b, sublist a b -> sublist a (x :: b).

Lemma dedup_acc_sublist seen l : sublist (dedup_acc seen l) l.
Proof.
  revert seen. induction l as [|a r IH]; intros seen; cbn [dedup_acc]; [constructor|].
  destruct (memz a seen); [apply sub_skip|apply sub_take]; apply IH.
Qed.

Lemma dedup_id l : NoDup l -> dedup l = l.
Proof.
  unfold dedup. assert (G : forall seen, NoDup l -> (forall x, In x l -> ~ In x seen) -> dedup_acc seen l = l).
  { induction l as [|a r IH]; intros seen ND H; [reflexivity|]. cbn [dedup_acc].
    destruct (memz a seen) eqn:E; [apply memz_In in E; exfalso; apply (H a); [left; reflexivity|exact E]|].
    inversion ND; subst. f_equal. apply IH; [assumption|].
    intros x Hx [<-|Hs]; [contradiction|]. apply (H x); [right; exact Hx|exact Hs]. }
  intros ND. apply G; [exact ND|]. intros x _ [].
Qed.

(* ---------- interleaveAddresses ---------- *)

Lemma heads_tails_perm qs : Permutation (heads qs ++ concat (tails qs)) (concat qs).
Proof.
  induction qs as [|q r IH]; [constructor|].
  cbn [heads tails flat_map map concat]. fold (heads r). fold (tails r).
  destruct q as [|a t]; cbn [tl app]; [exact IH|].
  constructor. rewrite app_assoc. rewrite (Permutation_app_comm (heads r) t). rewrite <- app_assoc.
  apply Permutation_app_head. exact IH.
Qed.

Lemma rr_perm fuel : forall qs, (forall q, In q qs -> (length q <= fuel)%nat) ->
  Permutation (rr fuel qs) (concat qs).
Proof.
  induction fuel as [|f IH]; intros qs H; cbn [rr].
  - assert (E : concat qs = []).
    { induction qs as [|q r IHq]; [reflexivity|]. cbn [concat].
      assert (q = []) as -> by (destruct q; [reflexivity|]; specialize (H _ (or_introl eq_refl)); cbn in H; lia).
      apply IHq. intros q' Hq'. apply H. right. exact Hq'. }
    rewrite E. constructor.
  - rewrite <- (heads_tails_perm qs). apply Permutation_app_head. apply IH.
    intros q Hq. unfold tails in Hq. apply in_map_iff in Hq. destruct Hq as [q0 [<- Hq0]].
    specialize (H _ Hq0). destruct q0; cbn in *; lia.
Qed.

Lemma filter_split (p q : Z -> bool) l : (forall a, In a l -> p a && q a = false) ->
  Permutation (filter p l ++ filter q l) (filter (fun a => p a || q a) l).
Proof.
  induction l as [|a r IH]; intros H; [constructor|]. cbn [filter].
  assert (Hr : forall a0, In a0 r -> p a0 && q a0 = false) by (intros; apply H; right; assumption).
  specialize (H a (or_introl eq_refl)).
  destruct (p a) eqn:P, (q a) eqn:Q; cbn [orb app] in *; try discriminate.
  - constructor. apply IH, Hr.
  - rewrite <- Permutation_middle. constructor. apply IH, Hr.
  - apply IH, Hr.
Qed.

Lemma concat_queues_perm l fs : NoDup fs ->
  Permutation (concat (map (fun f => filter (fun a => fam a =? f) l) fs))
              (filter (fun a => memz (fam a) fs) l).
Proof.
  induction fs as [|f r IH]; intros ND; cbn [map concat].
  - cbn [memz existsb]. induction l; [constructor|exact IHl].
  - inversion ND as [|? ? Hn ND']; subst.
    etransitivity; [apply Permutation_app_head; apply (IH ND')|].
    etransitivity; [apply filter_split|].
    2:{ apply Permutation_refl'. apply filter_ext. intros a. unfold memz. cbn [existsb].
      rewrite Z.eqb_sym. reflexivity. }
    intros a _. destruct (fam a =? f) eqn:E; [|reflexivity]. apply Z.eqb_eq in E. subst f.
      cbn [andb]. apply memz_false. exact Hn.
Qed.

Lemma filter_all (p : Z -> bool) l : (forall a, In a l -> p a = true) -> filter p l = l.
Proof.
  induction l as [|a r IH]; intros H; [reflexivity|]. cbn [filter].
  rewrite (H a (or_introl eq_refl)). f_equal. apply IH. intros; apply H; right; assumption.
Qed.

Lemma filter_len (p : Z -> bool) l : (length (filter p l) <= length l)%nat.
Proof. induction l as [|a r IH]; [constructor|]. cbn [filter]. destruct (p a); cbn [length]; lia. Qed.

Lemma interleave_perm l : Permutation (interleave l) l.
Proof.
  unfold interleave. rewrite rr_perm.
  - unfold fam_queues. rewrite (concat_queues_perm l _ (dedup_NoDup _)).
    apply Permutation_refl'. apply filter_all. intros a Ha. apply memz_In, dedup_In, in_map. exact Ha.
  - intros q Hq. unfold fam_queues in Hq. apply in_map_iff in Hq. destruct Hq as [f [<- _]].
    apply filter_len.
Qed.

Fixpoint take {A} (n : nat) (l : list A) : list A :=
  match n, l with
  | S m, x :: r => x :: take m r
  | _, _ => []
  end.

(* within each family the relative order is preserved *)
Lemma take_all {A} n (l : list A) : (length l <= n)%nat -> take n l = l.
Proof.
  revert l. induction n as [|n IH]; intros [|a r] H; cbn in *; try reflexivity; try lia.
  f_equal. apply IH. lia.
Qed.

Lemma filter_heads f (Q : Z -> list Z) fs : NoDup fs ->
  (forall g, Forall (fun a => fam a = g) (Q g)) ->
  filter (fun a => fam a =? f) (heads (map Q fs)) = if memz f fs then take 1 (Q f) else [].
Proof.
  intros ND H. induction fs as [|g r IH]; [reflexivity|].
  inversion ND as [|? ? Hn ND']; subst.
  cbn [map heads flat_map]. fold (heads (map Q r)). rewrite filter_app, (IH ND').
  unfold memz at 2. cbn [existsb]. fold (memz f r).
  destruct (Z.eqb_spec f g) as [->|Hne].
  - cbn [orb]. apply memz_false in Hn. rewrite Hn, app_nil_r.
    specialize (H g). destruct (Q g) as [|a t]; [reflexivity|]. cbn [filter take].
    inversion H; subst. rewrite Z.eqb_refl. reflexivity.
  - cbn [orb]. specialize (H g). destruct (Q g) as [|a t]; [reflexivity|]. cbn [filter].
    inversion H as [|? ? Ha _]; subst. destruct (Z.eqb_spec (fam a) f); [congruence|]. reflexivity.
Qed.

Lemma filter_rr f fuel : forall (Q : Z -> list Z) fs, NoDup fs ->
  (forall g, Forall (fun a => fam a = g) (Q g)) ->
  filter (fun a => fam a =? f) (rr fuel (map Q fs)) = if memz f fs then take fuel (Q f) else [].
Proof.
  induction fuel as [|n IH]; intros Q fs ND H; cbn [rr].
  - destruct (memz f fs); reflexivity.
  - rewrite filter_app, (filter_heads f Q fs ND H). unfold tails. rewrite map_map.
    rewrite (IH (fun g => tl (Q g)) fs ND).
    + destruct (memz f fs); [|reflexivity]. destruct (Q f); [destruct n; reflexivity|reflexivity].
    + intros g. specialize (H g). destruct (Q g); [constructor|]. inversion H; assumption.
Qed.

Lemma interleave_family_order l f :
  filter (fun a => fam a =? f) (interleave l) = filter (fun a => fam a =? f) l.
Proof.
  unfold interleave, fam_queues.
  rewrite (filter_rr f (length l) (fun g => filter (fun a => fam a =? g) l) _ (dedup_NoDup _)).
  - destruct (memz f (dedup (map fam l))) eqn:E.
    + apply take_all. apply filter_len.
    + symmetry. apply memz_false in E. rewrite dedup_In in E.
      induction l as [|a r IH]; [reflexivity|]. cbn [filter].
      destruct (Z.eqb_spec (fam a) f) as [Ef|_].
      * exfalso. apply E. left. exact Ef.
      * apply IH. intros X. apply E. right. exact X.
  - intros g. apply Forall_forall. intros a Ha. apply filter_In in Ha. destruct Ha as [_ Ha].
    apply Z.eqb_eq in Ha. exact Ha.
Qed.

Lemma preprocess_perm l : Permutation (preprocess l) (dedup l).
Proof. apply interleave_perm. Qed.

Lemma preprocess_NoDup l : NoDup (preprocess l).
Proof. eapply Permutation_NoDup; [symmetry; apply preprocess_perm|apply dedup_NoDup]. Qed.

Lemma preprocess_In l x : In x (preprocess l) <-> In x l.
Proof.
  split; intros H.
  - apply dedup_In. eapply Permutation_in; [apply preprocess_perm|exact H].
  - eapply Permutation_in; [symmetry; apply preprocess_perm|]. apply dedup_In. exact H.
Qed.

Lemma preprocess_family_order l f :
  filter (fun a => fam a =? f) (preprocess l) = filter (fun a => fam a =? f) (dedup l).
Proof. apply interleave_family_order. Qed.

(* the first address keeps its place (the pass starts with the resolver's first address) *)
Lemma preprocess_head a l : exists r, preprocess (a :: l) = a :: r.
Proof.
  unfold preprocess, dedup. cbn [dedup_acc memz existsb].
  set (d := dedup_acc [a] l). unfold interleave, fam_queues. cbn [map length].
  unfold dedup. cbn [dedup_acc memz existsb map]. cbn [rr heads flat_map filter].
  rewrite Z.eqb_refl. cbn [app]. eexists. reflexivity.
Qed.

(* ================= the state machine ================= *)

Lemma u_events_app a b : u_events (a ++ b) = u_events a ++ u_events b. Proof. apply flat_map_app. Qed.
Lemma s_scs_app a b : s_scs (a ++ b) = s_scs a ++ s_scs b. Proof. apply flat_map_app. Qed.
Lemma n_scs_app a b : n_scs (a ++ b) = n_scs a ++ n_scs b. Proof. apply flat_map_app. Qed.

Lemma ext_S l : u_events (map evS l) = [] /\ n_scs (map evS l) = [] /\ s_scs (map evS l) = map zn l.
Proof. induction l as [|x r [A [B C]]]; [repeat split; reflexivity|]. repeat split; try assumption. cbn. f_equal. exact C. Qed.
Lemma ext_C l : u_events (map evC l) = [] /\ n_scs (map evC l) = [] /\ s_scs (map evC l) = [].
Proof. induction l as [|x r [A [B C]]]; [repeat split; reflexivity|]. repeat split; assumption. Qed.

(* only TRANSIENT_FAILURE is published, and no sub-channel... *)
Definition tf_only (e : list word) : Prop := forallb (fun u : Z * Z => fst u =? TF) (u_events e) = true.

Lemma tf_only_app a b : tf_only a -> tf_only b -> tf_only (a ++ b).
Proof. unfold tf_only. intros A B. rewrite u_events_app, forallb_app, A, B. reflexivity. Qed.
Lemma tf_only_nil : tf_only []. Proof. reflexivity. Qed.
Lemma tf_only_C l : tf_only (map evC l).
Proof. unfold tf_only. destruct (ext_C l) as [A _]. rewrite A. reflexivity. Qed.
Lemma tf_only_S l : tf_only (map evS l).
Proof. unfold tf_only. destruct (ext_S l) as [A _]. rewrite A. reflexivity. Qed.

Lemma update_state_tf s pk : tf_only (snd (update_state s TF pk)).
Proof. unfold update_state, force_state. destruct ((TF =? bstate s) && negb (bstate s =? TF)); reflexivity. Qed.

Lemma end_first_pass_tf s : tf_only (snd (end_first_pass s)).
Proof.
  unfold end_first_pass. destruct (al_valid s); [reflexivity|].
  destruct (forallb _ (subs s)); [|reflexivity].
  pose proof (update_state_tf (set_pass s false (numTF s)) (-1)) as H.
  destruct (update_state (set_pass s false (numTF s)) TF (-1)) as [s2 e]. cbn [snd] in *.
  apply tf_only_app; [exact H|apply tf_only_C].
Qed.

Lemma req_loop_tf fuel : forall s, tf_only (snd (req_loop fuel s)).
Proof.
  induction fuel as [|f IH]; intros s; [reflexivity|]. cbn [req_loop].
  destruct (lookup s (cur_addr s)) as [sc|].
  - destruct (d_raw (sds s sc) =? IDLE); [reflexivity|].
    destruct (d_raw (sds s sc) =? TF).
    + destruct (al_increment (upd_sd s sc (d_set_failed true))) as [s3 more]. destruct more.
      * specialize (IH s3). destruct (req_loop f s3). exact IH.
      * pose proof (end_first_pass_tf s3) as H. destruct (end_first_pass s3). exact H.
    + destruct (d_raw (sds s sc) =? CONNECTING); reflexivity.
  - set (s1 := set_subs _ _). set (sc := nsc s).
    destruct (d_raw (sds s1 sc) =? IDLE); [reflexivity|].
    destruct (d_raw (sds s1 sc) =? TF).
    + destruct (al_increment (upd_sd s1 sc (d_set_failed true))) as [s3 more]. destruct more.
      * specialize (IH s3). destruct (req_loop f s3). cbn [snd] in *. apply (tf_only_app [_]); [reflexivity|exact IH].
      * pose proof (end_first_pass_tf s3) as H. destruct (end_first_pass s3). cbn [snd] in *.
        apply (tf_only_app [_]); [reflexivity|exact H].
    + destruct (d_raw (sds s1 sc) =? CONNECTING); reflexivity.
Qed.

Lemma request_tf s : tf_only (snd (request_connection s)).
Proof. unfold request_connection. destruct (al_valid s); [apply req_loop_tf|reflexivity]. Qed.
Lemma start_tf s : tf_only (snd (start_first_pass s)).
Proof. unfold start_first_pass. apply request_tf. Qed.
Lemma resolver_error_tf s : tf_only (snd (resolver_error s)).
Proof. unfold resolver_error. destruct (_ && _); [reflexivity|apply update_state_tf]. Qed.
Lemma timer_fire_tf s : tf_only (snd (timer_fire s)).
Proof.
  unfold timer_fire. destruct (timer s); [|reflexivity].
  destruct (al_increment (set_timer s false)) as [s2 more]. destruct more; [apply request_tf|reflexivity].
Qed.

(* ---------- invariant: the active sub-channels are exactly those not shut down ---------- *)

Definition shutf (s : st) (sc : nat) : bool := d_shut (sds s sc).
Definition Alive (s : st) : Prop :=
  (forall sc, In sc (subs s) -> (sc < nsc s)%nat /\ shutf s sc = false) /\
  (forall sc, (sc < nsc s)%nat -> ~ In sc (subs s) -> shutf s sc = true).
Definition same_alive (s s' : st) : Prop :=
  subs s' = subs s /\ nsc s' = nsc s /\ forall sc, shutf s' sc = shutf s sc.

Lemma same_alive_refl s : same_alive s s.
Proof. repeat split. Qed.
Lemma same_alive_trans a b c : same_alive a b -> same_alive b c -> same_alive a c.
Proof. intros [A1 [A2 A3]] [B1 [B2 B3]]. split; [congruence|]. split; [congruence|]. intros sc. rewrite B3. apply A3. Qed.
Lemma Alive_same s s' : same_alive s s' -> Alive s -> Alive s'.
Proof.
  intros [A1 [A2 A3]] [H1 H2]. split; intros sc; rewrite A1, A2, A3; [apply H1|apply H2].
Qed.

Ltac sa := unfold same_alive, shutf; cbn; repeat split; try reflexivity.

Lemma sa_upd s sc g : (forall d, d_shut (g d) = d_shut d) -> same_alive s (upd_sd s sc g).
Proof. intros H. sa. intros x. unfold fupd. destruct (Nat.eqb x sc); [apply H|reflexivity]. Qed.
Lemma sa_list s l i : same_alive s (set_list s l i). Proof. sa. Qed.
Lemma sa_pass s a b : same_alive s (set_pass s a b). Proof. sa. Qed.
Lemma sa_timer s b : same_alive s (set_timer s b). Proof. sa. Qed.
Lemma sa_sticky s b : same_alive s (set_sticky s b). Proof. sa. Qed.
Lemma sa_incr s : same_alive s (fst (al_increment s)).
Proof. unfold al_increment. destruct (al_valid s); sa. Qed.
Lemma sa_seek s a : same_alive s (fst (al_seek s a)).
Proof. unfold al_seek. destruct (index_of a (addrs s)); sa. Qed.
Lemma sa_update s v pk : same_alive s (fst (update_state s v pk)).
Proof. unfold update_state, force_state. destruct (_ && _); sa. Qed.
Lemma sa_force s v pk : same_alive s (fst (force_state s v pk)).
Proof. sa. Qed.
Lemma sa_sched s : same_alive s (schedule_next s).
Proof. unfold schedule_next. destruct (al_has_next _); sa. Qed.
Lemma sa_efp s : same_alive s (fst (end_first_pass s)).
Proof.
  unfold end_first_pass. destruct (al_valid s); [apply same_alive_refl|].
  destruct (forallb _ _); [|apply same_alive_refl].
  pose proof (sa_update (set_pass s false (numTF s)) TF (-1)) as H.
  destruct (update_state (set_pass s false (numTF s)) TF (-1)) as [s2 e]. cbn [fst] in *.
  eapply same_alive_trans; [apply sa_pass|]. eapply same_alive_trans; [exact H|apply sa_sticky].
Qed.
Lemma sa_resolver_error s : same_alive s (fst (resolver_error s)).
Proof. unfold resolver_error. destruct (_ && _); [apply same_alive_refl|apply sa_update]. Qed.

Lemma Alive_init : Alive init.
Proof. split; intros sc H; [destruct H|cbn in H; lia]. Qed.

(* creation of a sub-channel *)
Lemma Alive_create s a : Alive s ->
  Alive (set_subs (set_sds s (fupd (sds s) (nsc s) (fun _ => mksd a IDLE IDLE false false)) (S (nsc s))) (subs s ++ [nsc s])).
Proof.
  intros [H1 H2]. split; intros sc; unfold shutf; cbn; unfold fupd.
  - intros Hin. apply in_app_or in Hin. destruct Hin as [Hin|[<-|[]]].
    + destruct (H1 sc Hin) as [A B]. split; [lia|]. destruct (Nat.eqb_spec sc (nsc s)); [lia|exact B].
    + rewrite Nat.eqb_refl. split; [lia|reflexivity].
  - intros Hlt Hn. destruct (Nat.eqb_spec sc (nsc s)) as [->|Hne].
    + exfalso. apply Hn. apply in_or_app. right. left. reflexivity.
    + apply H2; [lia|]. intros X. apply Hn. apply in_or_app. left. exact X.
Qed.

Lemma req_loop_alive fuel : forall s, Alive s -> Alive (fst (req_loop fuel s)).
Proof.
  induction fuel as [|f IH]; intros s A; [exact A|]. cbn [req_loop].
  assert (G : forall s1 sc e1, Alive s1 ->
    Alive (fst (if d_raw (sds s1 sc) =? IDLE then (schedule_next s1, e1 ++ [evC sc])
     else if d_raw (sds s1 sc) =? TF
          then let '(s3, more) := al_increment (upd_sd s1 sc (d_set_failed true)) in
               if more then let '(s4, e4) := req_loop f s3 in (s4, e1 ++ e4)
               else let '(s4, e4) := end_first_pass s3 in (s4, e1 ++ e4)
          else if d_raw (sds s1 sc) =? CONNECTING then (schedule_next s1, e1) else (s1, e1)))).
  { intros s1 sc e1 A1.
    destruct (d_raw (sds s1 sc) =? IDLE); [exact (Alive_same _ _ (sa_sched s1) A1)|].
    destruct (d_raw (sds s1 sc) =? TF).
    - assert (A2 : Alive (fst (al_increment (upd_sd s1 sc (d_set_failed true))))).
      { eapply Alive_same; [apply sa_incr|]. eapply Alive_same; [apply sa_upd; reflexivity|exact A1]. }
      destruct (al_increment (upd_sd s1 sc (d_set_failed true))) as [s3 more]. cbn [fst] in A2. destruct more.
      + specialize (IH s3 A2). destruct (req_loop f s3). exact IH.
      + pose proof (Alive_same _ _ (sa_efp s3) A2) as X. destruct (end_first_pass s3). exact X.
    - destruct (d_raw (sds s1 sc) =? CONNECTING); [exact (Alive_same _ _ (sa_sched s1) A1)|exact A1]. }
  destruct (lookup s (cur_addr s)) as [sc|].
  - apply (G s sc [] A).
  - apply (G _ (nsc s) [evN (nsc s) (cur_addr s)] (Alive_create s (cur_addr s) A)).
Qed.

Lemma request_alive s : Alive s -> Alive (fst (request_connection s)).
Proof. intros A. unfold request_connection. destruct (al_valid s); [apply req_loop_alive; exact A|exact A]. Qed.

Lemma sa_start_prefix s :
  same_alive s (set_sds (set_pass s true 0)
     (fun x => if existsb (Nat.eqb x) (subs (set_pass s true 0)) then d_set_failed false (sds (set_pass s true 0) x)
               else sds (set_pass s true 0) x) (nsc (set_pass s true 0))).
Proof. sa. intros sc. destruct (existsb _ _); reflexivity. Qed.

Lemma start_alive s : Alive s -> Alive (fst (start_first_pass s)).
Proof. intros A. unfold start_first_pass. apply request_alive. exact (Alive_same _ _ (sa_start_prefix s) A). Qed.

(* Shutdown of a part l of the active sub-channels, keeping the rest *)
Lemma Alive_shutdown s l keep : Alive s ->
  (forall sc, In sc (subs s) -> In sc l \/ In sc keep) -> (forall sc, In sc keep -> In sc (subs s) /\ ~ In sc l) ->
  Alive (set_subs (fst (shutdown_all s l)) keep).
Proof.
  intros [H1 H2] Hc Hk. split; intros sc; unfold shutf, shutdown_all; cbn.
  - intros Hin. destruct (Hk sc Hin) as [Hs Hn]. destruct (H1 sc Hs) as [A B]. split; [exact A|].
    destruct (existsb (Nat.eqb sc) l) eqn:E; [|exact B].
    apply existsb_exists in E. destruct E as [y [Hy Ey]]. apply Nat.eqb_eq in Ey. subst y. contradiction.
  - intros Hlt Hn. destruct (existsb (Nat.eqb sc) l) eqn:E; [reflexivity|].
    apply H2; [exact Hlt|]. intros Hs. destruct (Hc sc Hs) as [X|X]; [|contradiction].
    assert (existsb (Nat.eqb sc) l = true) by (apply existsb_exists; exists sc; split; [exact X|apply Nat.eqb_refl]).
    congruence.
Qed.

Lemma shutdown_remaining_alive s sc : Alive s -> In sc (subs s) -> Alive (fst (shutdown_remaining s sc)).
Proof.
  intros A Hin. unfold shutdown_remaining.
  pose proof (Alive_shutdown (cancel_timer s) (filter (fun x => negb (Nat.eqb x sc)) (subs (cancel_timer s))) [sc]
                (Alive_same _ _ (sa_timer s false) A)) as X.
  destruct (shutdown_all (cancel_timer s) _) as [s2 e]. cbn [fst] in *. apply X.
  - intros x Hx. destruct (Nat.eqb_spec x sc) as [->|Hne]; [right; left; reflexivity|left].
    apply filter_In. split; [exact Hx|]. apply negb_true_iff, Nat.eqb_neq. exact Hne.
  - intros x [<-|[]]. split; [exact Hin|]. intros F. apply filter_In in F. destruct F as [_ F].
    rewrite Nat.eqb_refl in F. discriminate.
Qed.

Lemma is_active_in s sc : is_active s sc = true -> In sc (subs s).
Proof.
  unfold is_active, lookup. destruct (find _ (subs s)) as [sc'|] eqn:F; [|discriminate].
  intros E. apply Nat.eqb_eq in E. subst sc'. apply find_some in F. exact (proj1 F).
Qed.

Lemma resolver_update_alive s l0 : Alive s -> Alive (fst (resolver_update s l0)).
Proof.
  intros A. unfold resolver_update.
  pose proof (Alive_same _ _ (sa_timer s false) A) as A0. fold (cancel_timer s) in A0.
  destruct (filter valid_addr l0) as [|a l1].
  - pose proof (Alive_shutdown (cancel_timer s) (subs (cancel_timer s)) [] A0) as X.
    destruct (shutdown_all (cancel_timer s) (subs (cancel_timer s))) as [s1 e1]. cbn [fst] in X.
    assert (A2 : Alive (set_sticky (set_list (set_subs s1 []) [] 0) false)).
    { eapply Alive_same; [apply sa_sticky|]. eapply Alive_same; [apply sa_list|]. apply X.
      - intros sc H. left. exact H.
      - intros sc []. }
    pose proof (Alive_same _ _ (sa_resolver_error _) A2) as A3.
    destruct (resolver_error _) as [s3 e3]. exact A3.
  - set (l' := preprocess (a :: l1)).
    set (s1 := set_list (cancel_timer s) l' 0).
    assert (A1 : Alive s1) by (exact (Alive_same _ _ (sa_list _ _ _) A0)).
    destruct (match lookup (cancel_timer s) (cur_addr (cancel_timer s)) with
              | Some sc => d_raw (sds (cancel_timer s) sc) =? READY | None => false end) eqn:PR.
    + pose proof (Alive_same _ _ (sa_seek s1 (cur_addr (cancel_timer s))) A1) as AK.
      destruct (al_seek s1 (cur_addr (cancel_timer s))) as [s1k kept]. cbn [fst] in AK.
      destruct kept; [exact AK|].
      pose proof (Alive_shutdown s1 (filter (fun sc => negb (memz (d_addr (sds s1 sc)) l')) (subs s1))
                    (filter (fun sc => memz (d_addr (sds s1 sc)) l') (subs s1)) A1) as X.
      destruct (shutdown_all s1 _) as [s2 e2]. cbn [fst] in X.
      assert (A3 : Alive (set_subs s2 (filter (fun sc => memz (d_addr (sds s1 sc)) l') (subs s1)))).
      { apply X.
        - intros sc H. destruct (memz (d_addr (sds s1 sc)) l') eqn:M; [right|left]; apply filter_In; split; try assumption.
          rewrite M. reflexivity.
        - intros sc H. apply filter_In in H. destruct H as [H M]. split; [exact H|]. intros F. apply filter_In in F.
          destruct F as [_ F]. rewrite M in F. discriminate. }
      cbn [orb]. pose proof (Alive_same _ _ (sa_force _ CONNECTING (-1)) A3) as A4.
      destruct (force_state _ CONNECTING (-1)) as [s4 e4]. cbn [fst] in A4.
      pose proof (start_alive s4 A4) as A5. destruct (start_first_pass s4) as [s5 e5]. exact A5.
    + pose proof (Alive_shutdown s1 (filter (fun sc => negb (memz (d_addr (sds s1 sc)) l')) (subs s1))
                    (filter (fun sc => memz (d_addr (sds s1 sc)) l') (subs s1)) A1) as X.
      destruct (shutdown_all s1 _) as [s2 e2]. cbn [fst] in X.
      assert (A3 : Alive (set_subs s2 (filter (fun sc => memz (d_addr (sds s1 sc)) l') (subs s1)))).
      { apply X.
        - intros sc H. destruct (memz (d_addr (sds s1 sc)) l') eqn:M; [right|left]; apply filter_In; split; try assumption.
          rewrite M. reflexivity.
        - intros sc H. apply filter_In in H. destruct H as [H M]. split; [exact H|]. intros F. apply filter_In in F.
          destruct F as [_ F]. rewrite M in F. discriminate. }
      cbn [orb].
      destruct ((bstate _ =? CONNECTING) || _).
      * pose proof (Alive_same _ _ (sa_force _ CONNECTING (-1)) A3) as A4.
        destruct (force_state _ CONNECTING (-1)) as [s4 e4]. cbn [fst] in A4.
        pose proof (start_alive s4 A4) as A5. destruct (start_first_pass s4) as [s5 e5]. exact A5.
      * destruct (bstate _ =? TF); [|exact A3].
        pose proof (start_alive _ A3) as A5. destruct (start_first_pass _) as [s5 e5]. exact A5.
Qed.

Lemma sc_state_alive s sc v : Alive s -> Alive (fst (sc_state s sc v)).
Proof.
  intros A. unfold sc_state.
  set (s1 := upd_sd s sc (d_set_raw v)).
  assert (A1 : Alive s1) by (exact (Alive_same _ _ (sa_upd s sc (d_set_raw v) (fun d => eq_refl)) A)).
  destruct (is_active s1 sc) eqn:ACT; cbn [negb]; [|exact A1].
  destruct (v =? SHUTDOWN); [exact (Alive_same _ _ (sa_upd s1 sc (d_set_eff SHUTDOWN) (fun d => eq_refl)) A1)|].
  set (s2 := if v =? TF then upd_sd s1 sc (d_set_failed true) else s1).
  assert (S2 : same_alive s1 s2) by (unfold s2; destruct (v =? TF); [apply sa_upd; reflexivity|apply same_alive_refl]).
  assert (A2 : Alive s2) by exact (Alive_same _ _ S2 A1).
  assert (IN : In sc (subs s2)) by (destruct S2 as [E _]; rewrite E; apply is_active_in; exact ACT).
  destruct (v =? READY).
  { pose proof (shutdown_remaining_alive s2 sc A2 IN) as A3.
    destruct (shutdown_remaining s2 sc) as [s3 e3]. cbn [fst] in A3.
    pose proof (Alive_same _ _ (sa_seek s3 (d_addr (sds s3 sc))) A3) as A4.
    destruct (al_seek s3 (d_addr (sds s3 sc))) as [s4 found]. cbn [fst] in A4.
    destruct found; cbn [negb]; [|exact A4].
    pose proof (Alive_same _ _ (sa_upd s4 sc (d_set_eff READY) (fun d => eq_refl)) A4) as A5.
    pose proof (Alive_same _ _ (sa_update _ READY (zn sc)) A5) as A6.
    destruct (update_state _ READY (zn sc)). exact A6. }
  destruct ((d_raw (sds s sc) =? READY) || (d_raw (sds s sc) =? CONNECTING) && (v =? IDLE)).
  { pose proof (shutdown_remaining_alive s2 sc A2 IN) as A3.
    destruct (shutdown_remaining s2 sc) as [s3 e3]. cbn [fst] in A3.
    assert (A4 : Alive (set_list (upd_sd s3 sc (d_set_eff v)) (addrs s3) 0)).
    { eapply Alive_same; [apply sa_list|]. eapply Alive_same; [apply sa_upd; reflexivity|exact A3]. }
    pose proof (Alive_same _ _ (sa_update _ IDLE (-1)) A4) as A5.
    destruct (update_state _ IDLE (-1)). exact A5. }
  destruct (firstPass s2).
  { destruct (v =? CONNECTING).
    - destruct (negb (d_eff (sds s2 sc) =? TF)); [|exact A2].
      pose proof (Alive_same _ _ (sa_upd s2 sc (d_set_eff CONNECTING) (fun d => eq_refl)) A2) as A3.
      destruct (negb (bstate _ =? TF)); [|exact A3].
      exact (Alive_same _ _ (sa_update _ CONNECTING (-1)) A3).
    - destruct (v =? TF); [|exact A2].
      pose proof (Alive_same _ _ (sa_upd s2 sc (d_set_eff TF) (fun d => eq_refl)) A2) as A3.
      destruct (cur_addr _ =? _).
      + assert (A4 : Alive (fst (al_increment (cancel_timer (upd_sd s2 sc (d_set_eff TF)))))).
        { eapply Alive_same; [apply sa_incr|]. eapply Alive_same; [apply sa_timer|exact A3]. }
        destruct (al_increment _) as [s5 more]. cbn [fst] in A4.
        destruct more; [apply request_alive; exact A4|exact (Alive_same _ _ (sa_efp s5) A4)].
      + exact (Alive_same _ _ (sa_efp _) A3). }
  destruct (v =? TF).
  { set (s3 := set_pass s2 _ _). assert (A3 : Alive s3) by exact (Alive_same _ _ (sa_pass _ _ _) A2).
    destruct (_ =? 0); [exact (Alive_same _ _ (sa_update _ TF (-1)) A3)|exact A3]. }
  destruct (v =? IDLE); exact A2.
Qed.

Lemma timer_fire_alive s : Alive s -> Alive (fst (timer_fire s)).
Proof.
  intros A. unfold timer_fire. destruct (timer s); [|exact A].
  assert (A2 : Alive (fst (al_increment (set_timer s false)))).
  { eapply Alive_same; [apply sa_incr|]. eapply Alive_same; [apply sa_timer|exact A]. }
  destruct (al_increment _) as [s2 more]. cbn [fst] in A2. destruct more; [apply request_alive; exact A2|exact A2].
Qed.

Lemma exit_idle_alive s : Alive s -> Alive (fst (exit_idle s)).
Proof.
  intros A. unfold exit_idle. destruct (bstate s =? IDLE); [|exact A].
  pose proof (Alive_same _ _ (sa_update s CONNECTING (-1)) A) as A1.
  destruct (update_state s CONNECTING (-1)) as [s1 e1]. cbn [fst] in A1.
  pose proof (start_alive _ (Alive_same _ _ (sa_list s1 (addrs s1) 0) A1)) as A2. destruct (start_first_pass (set_list s1 (addrs s1) 0)). exact A2.
Qed.

Lemma step_main_alive s op : Alive s -> Alive (fst (step_main s op)).
Proof.
  intros A. unfold step_main.
  destruct op as [|z r]; [exact A|].
  destruct z as [|q|q]; try exact A.
  do 3 (try destruct q as [q|q|]); try exact A.
  all: first [ apply exit_idle_alive; exact A | apply timer_fire_alive; exact A
             | exact (Alive_same _ _ (sa_resolver_error s) A) | apply resolver_update_alive; exact A
             | destruct r as [|z [|v [|x r]]]; try exact A;
               destruct (sc_of s z); [|exact A]; destruct (_ && _); [apply sc_state_alive; exact A|exact A] ].
Qed.

(* ---------- clause 1: READY soundness ---------- *)

Definition nr (e : list word) : Prop := forallb (fun u : Z * Z => negb (fst u =? READY)) (u_events e) = true.

Lemma nr_app a b : nr a -> nr b -> nr (a ++ b).
Proof. unfold nr. intros A B. rewrite u_events_app, forallb_app, A, B. reflexivity. Qed.
Lemma nr_tf e : tf_only e -> nr e.
Proof.
  unfold nr, tf_only. intros H. rewrite forallb_forall in *. intros u Hu. specialize (H u Hu).
  apply Z.eqb_eq in H. rewrite H. reflexivity.
Qed.
Lemma nr_S l : nr (map evS l). Proof. apply nr_tf, tf_only_S. Qed.
Lemma update_state_nr s v pk : v <> READY -> nr (snd (update_state s v pk)).
Proof.
  intros H. unfold update_state, force_state. destruct (_ && _); [reflexivity|].
  unfold nr. cbn. destruct (Z.eqb_spec v READY); [contradiction|reflexivity].
Qed.
Lemma nr_ready_ok s op e : nr e -> ready_ok s op e = true.
Proof.
  unfold nr, ready_ok. rewrite !forallb_forall. intros H u Hu. rewrite (H u Hu). reflexivity.
Qed.

Lemma resolver_update_nr s l0 : nr (snd (resolver_update s l0)).
Proof.
  unfold resolver_update. destruct (filter valid_addr l0) as [|a l1].
  - destruct (shutdown_all (cancel_timer s) (subs (cancel_timer s))) as [s1 e1] eqn:E1.
    assert (e1 = map evS (subs (cancel_timer s))) by (unfold shutdown_all in E1; inversion E1; reflexivity). subst e1.
    pose proof (resolver_error_tf (set_sticky (set_list (set_subs s1 []) [] 0) false)) as T.
    destruct (resolver_error _) as [s3 e3]. cbn [snd] in *.
    apply nr_app; [apply nr_S|]. apply nr_app; [apply nr_tf; exact T|reflexivity].
  - set (l' := preprocess (a :: l1)). set (s1 := set_list (cancel_timer s) l' 0).
    assert (G : forall (pr : bool) sk (kept : bool), nr (snd (
       if kept then (sk, [[12; 0]])
       else let '(s2, e2) := shutdown_all s1 (filter (fun sc => negb (memz (d_addr (sds s1 sc)) l')) (subs s1)) in
            let s3 := set_subs s2 (filter (fun sc => memz (d_addr (sds s1 sc)) l') (subs s1)) in
            if pr || (bstate s3 =? CONNECTING) || (length (addrs (cancel_timer s)) =? 0)%nat
            then let '(s4, e4) := force_state s3 CONNECTING (-1) in
                 let '(s5, e5) := start_first_pass s4 in (s5, e2 ++ e4 ++ e5 ++ [[12; 0]])
            else if bstate s3 =? TF then let '(s5, e5) := start_first_pass s3 in (s5, e2 ++ e5 ++ [[12; 0]])
                 else (s3, e2 ++ [[12; 0]])))).
    { intros pr sk kept. destruct kept; [reflexivity|].
      destruct (shutdown_all s1 _) as [s2 e2] eqn:E2.
      assert (N2 : nr e2) by (unfold shutdown_all in E2; inversion E2; apply nr_S).
      cbv beta iota zeta.
      match goal with |- context [if ?c then _ else _] => destruct c end.
      - destruct (force_state _ CONNECTING (-1)) as [s4 e4] eqn:E4.
        assert (N4 : nr e4) by (unfold force_state in E4; inversion E4; reflexivity).
        pose proof (start_tf s4) as T. destruct (start_first_pass s4) as [s5 e5]. cbn [snd] in *.
        apply nr_app; [exact N2|]. apply nr_app; [exact N4|]. apply nr_app; [apply nr_tf; exact T|reflexivity].
      - destruct (bstate _ =? TF).
        + pose proof (start_tf (set_subs s2 (filter (fun sc => memz (d_addr (sds s1 sc)) l') (subs s1)))) as T.
          destruct (start_first_pass _) as [s5 e5]. cbn [snd] in *.
          apply nr_app; [exact N2|]. apply nr_app; [apply nr_tf; exact T|reflexivity].
        + cbn [snd]. apply nr_app; [exact N2|reflexivity]. }
    destruct (match lookup (cancel_timer s) (cur_addr (cancel_timer s)) with
              | Some sc => d_raw (sds (cancel_timer s) sc) =? READY | None => false end).
    + destruct (al_seek s1 (cur_addr (cancel_timer s))) as [sk kept]. apply (G true sk kept).
    + apply (G false s1 false).
Qed.

Lemma sc_of_zn s sc : (sc < nsc s)%nat -> sc_of s (zn sc) = Some sc.
Proof.
  intros H. unfold sc_of, zn. replace ((0 <=? Z.of_nat sc) && (Z.of_nat sc <? Z.of_nat (nsc s))) with true.
  - rewrite Nat2Z.id. reflexivity.
  - symmetry. apply andb_true_iff. split; [apply Z.leb_le|apply Z.ltb_lt]; lia.
Qed.

Lemma sc_state_ready_ok s sc v : Alive s -> (sc < nsc s)%nat ->
  ready_ok s [2; zn sc; v] (snd (sc_state s sc v)) = true.
Proof.
  intros A Hlt. unfold sc_state.
  set (s1 := upd_sd s sc (d_set_raw v)).
  assert (S1 : same_alive s s1) by (apply sa_upd; reflexivity).
  destruct (is_active s1 sc) eqn:ACT; cbn [negb]; [|reflexivity].
  destruct (v =? SHUTDOWN); [reflexivity|].
  set (s2 := if v =? TF then upd_sd s1 sc (d_set_failed true) else s1).
  assert (S2 : same_alive s1 s2) by (unfold s2; destruct (v =? TF); [apply sa_upd; reflexivity|apply same_alive_refl]).
  pose proof (same_alive_trans _ _ _ S1 S2) as S02.
  assert (IN : In sc (subs s2)) by (destruct S2 as [E _]; rewrite E; apply is_active_in; exact ACT).
  destruct (v =? READY) eqn:EV.
  { apply Z.eqb_eq in EV. subst v.
    unfold shutdown_remaining. cbn [shutdown_all].
    set (others := filter (fun x => negb (Nat.eqb x sc)) (subs (cancel_timer s2))).
    match goal with |- context [al_seek ?a ?b] => destruct (al_seek a b) as [s4 found] end.
    destruct found; cbn [negb]; [|apply nr_ready_ok, nr_S].
    match goal with |- context [update_state ?a READY ?b] => destruct (update_state a READY b) as [s5 e5] eqn:E5 end.
    cbn [snd].
    assert (E5' : e5 = [] \/ e5 = [evU READY (zn sc)]).
    { unfold update_state, force_state in E5. destruct (_ && _); inversion E5; auto. }
    destruct E5' as [->| ->]; [rewrite app_nil_r; apply nr_ready_ok, nr_S|].
    unfold ready_ok. rewrite u_events_app. destruct (ext_S others) as [U [N SS]]. rewrite U. cbn [app u_events flat_map evU forallb].
    rewrite andb_true_r. replace (READY =? READY) with true by reflexivity. cbn [negb orb andb].
    rewrite Z.eqb_refl, (sc_of_zn s sc Hlt). cbn [andb].
    destruct A as [A1 A2]. destruct S02 as [ES [EN EF]].
    assert (INs : In sc (subs s)) by (rewrite <- ES; exact IN).
    destruct (A1 sc INs) as [_ NS]. unfold shutf in NS. rewrite NS. cbn [negb andb].
    rewrite n_scs_app, N. cbn [app n_scs flat_map evU]. rewrite andb_true_r.
    cbn [orb snd]. rewrite Z.eqb_refl. cbn [andb].
    apply forallb_forall. intros x Hx. apply in_seq in Hx.
    destruct (Nat.eqb_spec x sc) as [->|Hne]; [reflexivity|]. cbn [orb].
    destruct (in_dec Nat.eq_dec x (subs s)) as [Hi|Hn].
    - apply orb_true_iff. right. apply memz_In. rewrite s_scs_app, SS. apply in_or_app. left.
      apply in_map. unfold others. apply filter_In. split; [change (subs (cancel_timer s2)) with (subs s2); rewrite ES; exact Hi|].
      apply negb_true_iff, Nat.eqb_neq. exact Hne.
    - assert (shutf s x = true) by (apply A2; [lia|exact Hn]). unfold shutf in H. rewrite H. reflexivity. }
  apply nr_ready_ok.
  destruct ((d_raw (sds s sc) =? READY) || (d_raw (sds s sc) =? CONNECTING) && (v =? IDLE)).
  { unfold shutdown_remaining. cbn [shutdown_all].
    match goal with |- context [update_state ?a IDLE ?b] => pose proof (update_state_nr a IDLE b ltac:(discriminate)) as X; destruct (update_state a IDLE b) end.
    cbn [snd] in *. apply nr_app; [apply nr_S|exact X]. }
  destruct (firstPass s2).
  { destruct (v =? CONNECTING).
    - destruct (negb (d_eff (sds s2 sc) =? TF)); [|reflexivity].
      destruct (negb (bstate _ =? TF)); [|reflexivity]. apply update_state_nr. discriminate.
    - destruct (v =? TF); [|reflexivity].
      destruct (cur_addr _ =? _).
      + destruct (al_increment _) as [s5 more]. destruct more; apply nr_tf; [apply request_tf|apply end_first_pass_tf].
      + apply nr_tf, end_first_pass_tf. }
  destruct (v =? TF).
  { destruct (_ =? 0); [apply nr_tf, update_state_tf|reflexivity]. }
  destruct (v =? IDLE); reflexivity.
Qed.

Lemma sc_of_spec s z sc : sc_of s z = Some sc -> (sc < nsc s)%nat /\ z = zn sc.
Proof.
  unfold sc_of, zn. destruct ((0 <=? z) && (z <? Z.of_nat (nsc s))) eqn:E; [|discriminate].
  intros [= <-]. apply andb_true_iff in E. destruct E as [A B]. apply Z.leb_le in A. apply Z.ltb_lt in B. lia.
Qed.

Lemma exit_idle_nr s : nr (snd (exit_idle s)).
Proof.
  unfold exit_idle. destruct (bstate s =? IDLE); [|reflexivity].
  pose proof (update_state_nr s CONNECTING (-1) ltac:(discriminate)) as X.
  destruct (update_state s CONNECTING (-1)) as [s1 e1]. pose proof (start_tf (set_list s1 (addrs s1) 0)) as T.
  destruct (start_first_pass (set_list s1 (addrs s1) 0)). cbn [snd] in *. apply nr_app; [exact X|apply nr_tf; exact T].
Qed.

Lemma ready_step s op : Alive s -> ready_ok s op (snd (step_main s op)) = true.
Proof.
  intros A. unfold step_main.
  destruct op as [|z r]; [reflexivity|].
  destruct z as [|q|q]; try reflexivity.
  do 3 (try destruct q as [q|q|]); try reflexivity.
  all: first [ apply nr_ready_ok, exit_idle_nr | apply nr_ready_ok, nr_tf, timer_fire_tf
             | apply nr_ready_ok, nr_tf, resolver_error_tf | apply nr_ready_ok, resolver_update_nr | idtac ].
  destruct r as [|z [|v [|x r]]]; try reflexivity.
  destruct (sc_of s z) as [sc|] eqn:E; [|reflexivity].
  destruct (_ && _); [|reflexivity].
  apply sc_of_spec in E. destruct E as [Hlt ->]. apply sc_state_ready_ok; assumption.
Qed.

(* ---------- clause 4: sticky TRANSIENT_FAILURE ---------- *)

Definition J1 (s : st) : Prop := sticky s = true -> bstate s = TF.
Definition same_bs (s s' : st) : Prop := bstate s' = bstate s /\ sticky s' = sticky s.

Lemma J1_same s s' : same_bs s s' -> J1 s -> J1 s'.
Proof. intros [A B] H. unfold J1. rewrite A, B. exact H. Qed.
Lemma same_bs_refl s : same_bs s s. Proof. split; reflexivity. Qed.
Lemma same_bs_trans a b c : same_bs a b -> same_bs b c -> same_bs a c.
Proof. intros [A1 A2] [B1 B2]. split; congruence. Qed.

Lemma J1_force s v pk : J1 s -> J1 (fst (force_state s v pk)).
Proof.
  intros H. unfold J1, force_state. cbn. destruct (Z.eqb_spec v TF) as [->|N]; [intros _; reflexivity|discriminate].
Qed.
Lemma J1_update s v pk : J1 s -> J1 (fst (update_state s v pk)).
Proof. intros H. unfold update_state. destruct (_ && _); [exact H|apply J1_force; exact H]. Qed.

Lemma bs_incr s : same_bs s (fst (al_increment s)).
Proof. unfold al_increment. destruct (al_valid s); split; reflexivity. Qed.
Lemma bs_seek s a : same_bs s (fst (al_seek s a)).
Proof. unfold al_seek. destruct (index_of a (addrs s)); split; reflexivity. Qed.
Lemma bs_sched s : same_bs s (schedule_next s).
Proof. unfold schedule_next. destruct (al_has_next _); split; reflexivity. Qed.
Lemma bs_shutdown_remaining s sc : same_bs s (fst (shutdown_remaining s sc)).
Proof. split; reflexivity. Qed.

Lemma J1_efp s : J1 s -> J1 (fst (end_first_pass s)).
Proof.
  intros H. unfold end_first_pass. destruct (al_valid s); [exact H|]. destruct (forallb _ _); [|exact H].
  unfold update_state, force_state. cbn [bstate set_pass].
  replace ((TF =? bstate s) && negb (bstate s =? TF)) with false
    by (destruct (Z.eqb_spec (bstate s) TF) as [->|N]; [reflexivity|rewrite (proj2 (Z.eqb_neq TF (bstate s))); [reflexivity|congruence]]).
  intros _. reflexivity.
Qed.

Lemma J1_req fuel : forall s, J1 s -> J1 (fst (req_loop fuel s)).
Proof.
  induction fuel as [|f IH]; intros s H; [exact H|]. cbn [req_loop].
  assert (G : forall s1 sc e1, J1 s1 ->
    J1 (fst (if d_raw (sds s1 sc) =? IDLE then (schedule_next s1, e1 ++ [evC sc])
     else if d_raw (sds s1 sc) =? TF
          then let '(s3, more) := al_increment (upd_sd s1 sc (d_set_failed true)) in
               if more then let '(s4, e4) := req_loop f s3 in (s4, e1 ++ e4)
               else let '(s4, e4) := end_first_pass s3 in (s4, e1 ++ e4)
          else if d_raw (sds s1 sc) =? CONNECTING then (schedule_next s1, e1) else (s1, e1)))).
  { intros s1 sc e1 H1.
    destruct (d_raw (sds s1 sc) =? IDLE); [exact (J1_same _ _ (bs_sched s1) H1)|].
    destruct (d_raw (sds s1 sc) =? TF).
    - assert (H2 : J1 (fst (al_increment (upd_sd s1 sc (d_set_failed true)))))
        by (eapply J1_same; [apply bs_incr|exact H1]).
      destruct (al_increment _) as [s3 more]. cbn [fst] in H2. destruct more.
      + specialize (IH s3 H2). destruct (req_loop f s3). exact IH.
      + pose proof (J1_efp s3 H2) as X. destruct (end_first_pass s3). exact X.
    - destruct (d_raw (sds s1 sc) =? CONNECTING); [exact (J1_same _ _ (bs_sched s1) H1)|exact H1]. }
  destruct (lookup s (cur_addr s)) as [sc|]; [apply (G s sc [] H)|apply G; exact H].
Qed.

Lemma J1_request s : J1 s -> J1 (fst (request_connection s)).
Proof. intros H. unfold request_connection. destruct (al_valid s); [apply J1_req; exact H|exact H]. Qed.
Lemma J1_start s : J1 s -> J1 (fst (start_first_pass s)).
Proof. intros H. unfold start_first_pass. apply J1_request. exact H. Qed.
Lemma J1_resolver_error s : J1 s -> J1 (fst (resolver_error s)).
Proof. intros H. unfold resolver_error. destruct (_ && _); [exact H|apply J1_update; exact H]. Qed.

Lemma J1_resolver_update s l0 : J1 s -> J1 (fst (resolver_update s l0)).
Proof.
  intros H. unfold resolver_update. destruct (filter valid_addr l0) as [|a l1].
  - cbn [shutdown_all].
    match goal with |- context [resolver_error ?x] =>
      assert (HX : J1 x) by (intros F; discriminate F); pose proof (J1_resolver_error x HX) as Y; destruct (resolver_error x) end.
    exact Y.
  - set (l' := preprocess (a :: l1)). set (s1 := set_list (cancel_timer s) l' 0).
    assert (H1 : J1 s1) by exact H.
    assert (G : forall (pr : bool) sk (kept : bool), J1 sk -> J1 (fst (
       if kept then (sk, [[12; 0]])
       else let '(s2, e2) := shutdown_all s1 (filter (fun sc => negb (memz (d_addr (sds s1 sc)) l')) (subs s1)) in
            let s3 := set_subs s2 (filter (fun sc => memz (d_addr (sds s1 sc)) l') (subs s1)) in
            if pr || (bstate s3 =? CONNECTING) || (length (addrs (cancel_timer s)) =? 0)%nat
            then let '(s4, e4) := force_state s3 CONNECTING (-1) in
                 let '(s5, e5) := start_first_pass s4 in (s5, e2 ++ e4 ++ e5 ++ [[12; 0]])
            else if bstate s3 =? TF then let '(s5, e5) := start_first_pass s3 in (s5, e2 ++ e5 ++ [[12; 0]])
                 else (s3, e2 ++ [[12; 0]])))).
    { intros pr sk kept Hk. destruct kept; [exact Hk|]. cbn [shutdown_all]. cbv beta iota zeta.
      match goal with |- context [if ?c then _ else _] => destruct c end.
      - match goal with |- context [force_state ?x CONNECTING ?p] =>
          assert (HX : J1 x) by exact H; pose proof (J1_force x CONNECTING p HX) as Y; destruct (force_state x CONNECTING p) as [s4 e4] end.
        cbn [fst] in Y. pose proof (J1_start s4 Y) as Z. destruct (start_first_pass s4). exact Z.
      - match goal with |- context [if ?c then _ else _] => destruct c end; [|exact H].
        match goal with |- context [start_first_pass ?x] =>
          assert (HX : J1 x) by exact H; pose proof (J1_start x HX) as Z; destruct (start_first_pass x) end. exact Z. }
    destruct (match lookup (cancel_timer s) (cur_addr (cancel_timer s)) with
              | Some sc => d_raw (sds (cancel_timer s) sc) =? READY | None => false end).
    + pose proof (J1_same _ _ (bs_seek s1 (cur_addr (cancel_timer s))) H1) as HK.
      destruct (al_seek s1 (cur_addr (cancel_timer s))) as [sk kept]. apply (G true sk kept HK).
    + apply (G false s1 false H1).
Qed.

Lemma J1_sc_state s sc v : J1 s -> J1 (fst (sc_state s sc v)).
Proof.
  intros H. unfold sc_state.
  set (s1 := upd_sd s sc (d_set_raw v)). assert (H1 : J1 s1) by exact H.
  destruct (negb (is_active s1 sc)); [exact H1|].
  destruct (v =? SHUTDOWN); [exact H1|].
  set (s2 := if v =? TF then upd_sd s1 sc (d_set_failed true) else s1).
  assert (H2 : J1 s2) by (unfold s2; destruct (v =? TF); exact H1).
  destruct (v =? READY).
  { unfold shutdown_remaining. cbn [shutdown_all].
    match goal with |- context [al_seek ?a ?b] => assert (HA : J1 a) by exact H2;
      pose proof (J1_same _ _ (bs_seek a b) HA) as H4; destruct (al_seek a b) as [s4 found] end.
    cbn [fst] in H4. destruct found; cbn [negb]; [|exact H4].
    match goal with |- context [update_state ?a READY ?b] => assert (HB : J1 a) by exact H4;
      pose proof (J1_update a READY b HB) as Y; destruct (update_state a READY b) end. exact Y. }
  destruct (_ || _).
  { unfold shutdown_remaining. cbn [shutdown_all].
    match goal with |- context [update_state ?a IDLE ?b] => assert (HB : J1 a) by exact H2;
      pose proof (J1_update a IDLE b HB) as Y; destruct (update_state a IDLE b) end. exact Y. }
  destruct (firstPass s2).
  { destruct (v =? CONNECTING).
    - destruct (negb (d_eff (sds s2 sc) =? TF)); [|exact H2].
      destruct (negb (bstate _ =? TF)); [|exact H2]. apply J1_update. exact H2.
    - destruct (v =? TF); [|exact H2].
      destruct (cur_addr _ =? _).
      + match goal with |- context [al_increment ?a] => assert (HA : J1 a) by exact H2;
          pose proof (J1_same _ _ (bs_incr a) HA) as H5; destruct (al_increment a) as [s5 more] end.
        cbn [fst] in H5. destruct more; [apply J1_request; exact H5|apply J1_efp; exact H5].
      + apply J1_efp. exact H2. }
  destruct (v =? TF).
  { destruct (_ =? 0); [apply J1_update; exact H2|exact H2]. }
  destruct (v =? IDLE); exact H2.
Qed.

Lemma J1_timer s : J1 s -> J1 (fst (timer_fire s)).
Proof.
  intros H. unfold timer_fire. destruct (timer s); [|exact H].
  match goal with |- context [al_increment ?a] => assert (HA : J1 a) by exact H;
    pose proof (J1_same _ _ (bs_incr a) HA) as H5; destruct (al_increment a) as [s5 more] end.
  cbn [fst] in H5. destruct more; [apply J1_request; exact H5|exact H5].
Qed.

Lemma J1_exit_idle s : J1 s -> J1 (fst (exit_idle s)).
Proof.
  intros H. unfold exit_idle. destruct (bstate s =? IDLE); [|exact H].
  pose proof (J1_update s CONNECTING (-1) H) as Y. destruct (update_state s CONNECTING (-1)) as [s1 e1].
  pose proof (J1_start (set_list s1 (addrs s1) 0) Y) as Z. destruct (start_first_pass (set_list s1 (addrs s1) 0)). exact Z.
Qed.

Lemma J1_step_main s op : J1 s -> J1 (fst (step_main s op)).
Proof.
  intros A. unfold step_main.
  destruct op as [|z r]; [exact A|].
  destruct z as [|q|q]; try exact A.
  do 3 (try destruct q as [q|q|]); try exact A.
  all: first [ apply J1_exit_idle; exact A | apply J1_timer; exact A
             | apply J1_resolver_error; exact A | apply J1_resolver_update; exact A
             | destruct r as [|z [|v [|x r]]]; try exact A;
               destruct (sc_of s z); [|exact A]; destruct (_ && _); [apply J1_sc_state; exact A|exact A] ].
Qed.

(* no CONNECTING among the published states *)
Definition nc (e : list word) : Prop := forallb (fun u : Z * Z => negb (fst u =? CONNECTING)) (u_events e) = true.
Lemma nc_app a b : nc a -> nc b -> nc (a ++ b).
Proof. unfold nc. intros A B. rewrite u_events_app, forallb_app, A, B. reflexivity. Qed.
Lemma nc_tf e : tf_only e -> nc e.
Proof.
  unfold nc, tf_only. intros H. rewrite forallb_forall in *. intros u Hu. specialize (H u Hu).
  apply Z.eqb_eq in H. rewrite H. reflexivity.
Qed.
Lemma nc_S l : nc (map evS l). Proof. apply nc_tf, tf_only_S. Qed.
Lemma update_state_nc s v pk : v <> CONNECTING -> nc (snd (update_state s v pk)).
Proof.
  intros H. unfold update_state, force_state. destruct (_ && _); [reflexivity|].
  unfold nc. cbn. destruct (Z.eqb_spec v CONNECTING); [contradiction|reflexivity].
Qed.

Lemma sticky_walk_false l : sticky_walk false l = true.
Proof.
  induction l as [|[v x] r IH]; [reflexivity|]. cbn [sticky_walk].
  destruct (v =? CONNECTING); [exact IH|]. destruct ((v =? READY) || (v =? IDLE)); exact IH.
Qed.
Lemma sticky_walk_nc k e : nc e -> sticky_walk k (u_events e) = true.
Proof.
  unfold nc. generalize (u_events e). intros l. revert k. induction l as [|[v x] r IH]; intros k H; [reflexivity|].
  cbn [forallb fst] in H. apply andb_true_iff in H. destruct H as [H1 H2]. apply negb_true_iff in H1.
  cbn [sticky_walk]. rewrite H1. destruct ((v =? READY) || (v =? IDLE)); apply IH; exact H2.
Qed.

Lemma sticky_eff_facts s : sticky_eff s = true -> J1 s ->
  bstate s = TF /\ (forall sc, In sc (subs s) -> (d_raw (sds s sc) =? READY) = false) /\ addrs s <> [].
Proof.
  unfold sticky_eff. intros H J. apply andb_true_iff in H. destruct H as [H H3].
  apply andb_true_iff in H. destruct H as [H1 H2]. split; [exact (J H1)|]. split.
  - intros sc Hin. rewrite forallb_forall in H2. specialize (H2 sc Hin). apply negb_true_iff in H2. exact H2.
  - destruct (addrs s); [discriminate|discriminate].
Qed.

Lemma resolver_update_nc s l0 : sticky_eff s = true -> J1 s -> filter valid_addr l0 <> [] ->
  nc (snd (resolver_update s l0)).
Proof.
  intros K J NE. destruct (sticky_eff_facts s K J) as [B [NRd NA]].
  unfold resolver_update. destruct (filter valid_addr l0) as [|a l1]; [congruence|].
  set (l' := preprocess (a :: l1)). set (s1 := set_list (cancel_timer s) l' 0).
  assert (PR : match lookup (cancel_timer s) (cur_addr (cancel_timer s)) with
               | Some sc => d_raw (sds (cancel_timer s) sc) =? READY | None => false end = false).
  { unfold lookup. destruct (find _ (subs (cancel_timer s))) as [sc|] eqn:F; [|reflexivity].
    apply find_some in F. destruct F as [F _]. exact (NRd sc F). }
  rewrite PR. cbn [shutdown_all]. cbv beta iota zeta. cbn [orb].
  change (bstate (set_subs _ _)) with (bstate s). rewrite B.
  replace (TF =? CONNECTING) with false by reflexivity.
  replace ((length (addrs (cancel_timer s)) =? 0)%nat) with false
    by (change (addrs (cancel_timer s)) with (addrs s); destruct (addrs s); [congruence|reflexivity]).
  cbn [orb]. replace (TF =? TF) with true by reflexivity.
  match goal with |- context [start_first_pass ?x] => pose proof (start_tf x) as T; destruct (start_first_pass x) end.
  cbn [snd] in *. apply nc_app; [apply nc_S|]. apply nc_app; [apply nc_tf; exact T|reflexivity].
Qed.

Lemma sc_state_nc s sc v : sticky_eff s = true -> J1 s -> nc (snd (sc_state s sc v)).
Proof.
  intros K J. destruct (sticky_eff_facts s K J) as [B _].
  unfold sc_state. set (s1 := upd_sd s sc (d_set_raw v)).
  destruct (negb (is_active s1 sc)); [reflexivity|].
  destruct (v =? SHUTDOWN); [reflexivity|].
  set (s2 := if v =? TF then upd_sd s1 sc (d_set_failed true) else s1).
  assert (B2 : bstate s2 = TF) by (unfold s2; destruct (v =? TF); exact B).
  destruct (v =? READY).
  { unfold shutdown_remaining. cbn [shutdown_all].
    match goal with |- context [al_seek ?a ?b] => destruct (al_seek a b) as [s4 found] end.
    destruct found; cbn [negb]; [|apply nc_S].
    match goal with |- context [update_state ?a READY ?b] =>
      pose proof (update_state_nc a READY b ltac:(discriminate)) as X; destruct (update_state a READY b) end.
    cbn [snd] in *. apply nc_app; [apply nc_S|exact X]. }
  destruct (_ || _).
  { unfold shutdown_remaining. cbn [shutdown_all].
    match goal with |- context [update_state ?a IDLE ?b] =>
      pose proof (update_state_nc a IDLE b ltac:(discriminate)) as X; destruct (update_state a IDLE b) end.
    cbn [snd] in *. apply nc_app; [apply nc_S|exact X]. }
  destruct (firstPass s2).
  { destruct (v =? CONNECTING).
    - destruct (negb (d_eff (sds s2 sc) =? TF)); [|reflexivity].
      change (bstate (upd_sd s2 sc (d_set_eff CONNECTING))) with (bstate s2). rewrite B2. reflexivity.
    - destruct (v =? TF); [|reflexivity].
      destruct (cur_addr _ =? _).
      + destruct (al_increment _) as [s5 more]. destruct more; apply nc_tf; [apply request_tf|apply end_first_pass_tf].
      + apply nc_tf, end_first_pass_tf. }
  destruct (v =? TF).
  { destruct (_ =? 0); [apply nc_tf, update_state_tf|reflexivity]. }
  destruct (v =? IDLE); reflexivity.
Qed.

Lemma sticky_step s op : J1 s -> sticky_ok s op (snd (step_main s op)) = true.
Proof.
  intros J. unfold sticky_ok.
  assert (G : forall k, (k = true -> nc (snd (step_main s op))) -> sticky_walk k (u_events (snd (step_main s op))) = true).
  { intros [|] H; [apply sticky_walk_nc, H; reflexivity|apply sticky_walk_false]. }
  destruct (sticky_eff s) eqn:K.
  2:{ destruct op as [|z r]; [reflexivity|]. destruct z as [|q|q]; try apply sticky_walk_false.
      destruct q; try apply sticky_walk_false. destruct (filter valid_addr r); apply sticky_walk_false. }
  assert (NC : (forall r, op = 1 :: r -> filter valid_addr r <> []) -> nc (snd (step_main s op))).
  { intros NE. unfold step_main.
    destruct op as [|z r]; [reflexivity|].
    destruct z as [|q|q]; try reflexivity.
    do 3 (try destruct q as [q|q|]); try reflexivity.
    all: first [ apply nc_tf, timer_fire_tf | apply nc_tf, resolver_error_tf
               | apply resolver_update_nc; [exact K|exact J|apply NE; reflexivity] | idtac ].
    - unfold exit_idle. destruct (sticky_eff_facts s K J) as [B _]. rewrite B. reflexivity.
    - destruct r as [|z [|v [|x r]]]; try reflexivity.
      destruct (sc_of s z); [|reflexivity]. destruct (_ && _); [apply sc_state_nc; assumption|reflexivity]. }
  destruct op as [|z r]; [reflexivity|].
  destruct (Z.eq_dec z 1) as [->|N1].
  - destruct (filter valid_addr r) eqn:F; [apply sticky_walk_false|].
    apply sticky_walk_nc, NC. intros r' [= <-]. rewrite F. discriminate.
  - assert (E : match z :: r with 1 :: l => match filter valid_addr l with [] => false | _ => true end | _ => true end = true).
    { destruct z as [|q|q]; try reflexivity. destruct q; try reflexivity. congruence. }
    assert (KK : match z :: r with
                 | 1 :: l => match filter valid_addr l with [] => false | _ :: _ => true end
                 | _ => true end = true) by exact E.
    replace (match z :: r with
             | 1 :: l => match filter valid_addr l with [] => false | _ :: _ => true end
             | _ => true end) with true in * by (symmetry; exact E).
    assert (X : nc (snd (step_main s (z :: r)))) by (apply NC; intros r' [= -> _]; congruence).
    destruct z as [|q|q]; try (apply sticky_walk_nc, X).
Qed.

(* ---------- the [0] marker and the bridge ---------- *)

Definition nz (w : word) : bool := match w with z :: _ => negb (z =? 0) | [] => true end.
Definition nzl (e : list word) : Prop := forallb nz e = true.

Lemma split_chunk_app e rest : nzl e -> split_chunk (e ++ [0] :: rest) = Some (e, rest).
Proof.
  unfold nzl. induction e as [|w e IH]; intros H; [reflexivity|].
  cbn [forallb] in H. apply andb_true_iff in H. destruct H as [Hw He].
  cbn [app split_chunk]. rewrite (IH He).
  destruct w as [|z w']; [reflexivity|]. destruct z; try reflexivity. discriminate.
Qed.

Lemma nzl_app a b : nzl a -> nzl b -> nzl (a ++ b).
Proof. unfold nzl. intros A B. rewrite forallb_app, A, B. reflexivity. Qed.
Lemma nzl_S l : nzl (map evS l). Proof. induction l; [reflexivity|assumption]. Qed.
Lemma nzl_C l : nzl (map evC l). Proof. induction l; [reflexivity|assumption]. Qed.
Lemma nzl_update s v pk : nzl (snd (update_state s v pk)).
Proof. unfold update_state, force_state. destruct (_ && _); reflexivity. Qed.
Lemma nzl_efp s : nzl (snd (end_first_pass s)).
Proof.
  unfold end_first_pass. destruct (al_valid s); [reflexivity|]. destruct (forallb _ _); [|reflexivity].
  pose proof (nzl_update (set_pass s false (numTF s)) TF (-1)) as H.
  destruct (update_state _ TF (-1)) as [s2 e]. cbn [snd] in *. apply nzl_app; [exact H|apply nzl_C].
Qed.
Lemma nzl_req fuel : forall s, nzl (snd (req_loop fuel s)).
Proof.
  induction fuel as [|f IH]; intros s; [reflexivity|]. cbn [req_loop].
  assert (G : forall s1 sc e1, nzl e1 ->
    nzl (snd (if d_raw (sds s1 sc) =? IDLE then (schedule_next s1, e1 ++ [evC sc])
     else if d_raw (sds s1 sc) =? TF
          then let '(s3, more) := al_increment (upd_sd s1 sc (d_set_failed true)) in
               if more then let '(s4, e4) := req_loop f s3 in (s4, e1 ++ e4)
               else let '(s4, e4) := end_first_pass s3 in (s4, e1 ++ e4)
          else if d_raw (sds s1 sc) =? CONNECTING then (schedule_next s1, e1) else (s1, e1)))).
  { intros s1 sc e1 H1.
    destruct (d_raw (sds s1 sc) =? IDLE); [apply nzl_app; [exact H1|reflexivity]|].
    destruct (d_raw (sds s1 sc) =? TF).
    - destruct (al_increment _) as [s3 more]. destruct more.
      + specialize (IH s3). destruct (req_loop f s3). apply nzl_app; assumption.
      + pose proof (nzl_efp s3) as X. destruct (end_first_pass s3). apply nzl_app; assumption.
    - destruct (d_raw (sds s1 sc) =? CONNECTING); exact H1. }
  destruct (lookup s (cur_addr s)) as [sc|]; apply G; reflexivity.
Qed.
Lemma nzl_request s : nzl (snd (request_connection s)).
Proof. unfold request_connection. destruct (al_valid s); [apply nzl_req|reflexivity]. Qed.
Lemma nzl_start s : nzl (snd (start_first_pass s)). Proof. apply nzl_request. Qed.
Lemma nzl_resolver_error s : nzl (snd (resolver_error s)).
Proof. unfold resolver_error. destruct (_ && _); [reflexivity|apply nzl_update]. Qed.

Lemma nzl_resolver_update s l0 : nzl (snd (resolver_update s l0)).
Proof.
  unfold resolver_update. destruct (filter valid_addr l0) as [|a l1].
  - cbn [shutdown_all].
    match goal with |- context [resolver_error ?x] => pose proof (nzl_resolver_error x) as Y; destruct (resolver_error x) end.
    cbn [snd] in *. apply nzl_app; [apply nzl_S|]. apply nzl_app; [exact Y|reflexivity].
  - set (l' := preprocess (a :: l1)). set (s1 := set_list (cancel_timer s) l' 0).
    assert (G : forall (pr : bool) sk (kept : bool), nzl (snd (
       if kept then (sk, [[12; 0]])
       else let '(s2, e2) := shutdown_all s1 (filter (fun sc => negb (memz (d_addr (sds s1 sc)) l')) (subs s1)) in
            let s3 := set_subs s2 (filter (fun sc => memz (d_addr (sds s1 sc)) l') (subs s1)) in
            if pr || (bstate s3 =? CONNECTING) || (length (addrs (cancel_timer s)) =? 0)%nat
            then let '(s4, e4) := force_state s3 CONNECTING (-1) in
                 let '(s5, e5) := start_first_pass s4 in (s5, e2 ++ e4 ++ e5 ++ [[12; 0]])
            else if bstate s3 =? TF then let '(s5, e5) := start_first_pass s3 in (s5, e2 ++ e5 ++ [[12; 0]])
                 else (s3, e2 ++ [[12; 0]])))).
    { intros pr sk kept. destruct kept; [reflexivity|]. cbn [shutdown_all]. cbv beta iota zeta.
      match goal with |- context [if ?c then _ else _] => destruct c end.
      - cbn [force_state]. unfold force_state.
        match goal with |- context [start_first_pass ?x] => pose proof (nzl_start x) as Z; destruct (start_first_pass x) end.
        cbn [snd] in *. apply nzl_app; [apply nzl_S|]. apply (nzl_app [_]); [reflexivity|]. apply nzl_app; [exact Z|reflexivity].
      - match goal with |- context [if ?c then _ else _] => destruct c end.
        + match goal with |- context [start_first_pass ?x] => pose proof (nzl_start x) as Z; destruct (start_first_pass x) end.
          cbn [snd] in *. apply nzl_app; [apply nzl_S|]. apply nzl_app; [exact Z|reflexivity].
        + cbn [snd]. apply nzl_app; [apply nzl_S|reflexivity]. }
    destruct (match lookup (cancel_timer s) (cur_addr (cancel_timer s)) with
              | Some sc => d_raw (sds (cancel_timer s) sc) =? READY | None => false end).
    + destruct (al_seek s1 (cur_addr (cancel_timer s))) as [sk kept]. apply (G true sk kept).
    + apply (G false s1 false).
Qed.

Lemma nzl_sc_state s sc v : nzl (snd (sc_state s sc v)).
Proof.
  unfold sc_state. set (s1 := upd_sd s sc (d_set_raw v)).
  destruct (negb (is_active s1 sc)); [reflexivity|].
  destruct (v =? SHUTDOWN); [reflexivity|].
  set (s2 := if v =? TF then upd_sd s1 sc (d_set_failed true) else s1).
  destruct (v =? READY).
  { unfold shutdown_remaining. cbn [shutdown_all].
    match goal with |- context [al_seek ?a ?b] => destruct (al_seek a b) as [s4 found] end.
    destruct found; cbn [negb]; [|apply nzl_S].
    match goal with |- context [update_state ?a READY ?b] => pose proof (nzl_update a READY b) as X; destruct (update_state a READY b) end.
    cbn [snd] in *. apply nzl_app; [apply nzl_S|exact X]. }
  destruct (_ || _).
  { unfold shutdown_remaining. cbn [shutdown_all].
    match goal with |- context [update_state ?a IDLE ?b] => pose proof (nzl_update a IDLE b) as X; destruct (update_state a IDLE b) end.
    cbn [snd] in *. apply nzl_app; [apply nzl_S|exact X]. }
  destruct (firstPass s2).
  { destruct (v =? CONNECTING).
    - destruct (negb (d_eff (sds s2 sc) =? TF)); [|reflexivity].
      destruct (negb (bstate _ =? TF)); [apply nzl_update|reflexivity].
    - destruct (v =? TF); [|reflexivity].
      destruct (cur_addr _ =? _).
      + destruct (al_increment _) as [s5 more]. destruct more; [apply nzl_request|apply nzl_efp].
      + apply nzl_efp. }
  destruct (v =? TF).
  { destruct (_ =? 0); [apply nzl_update|reflexivity]. }
  destruct (v =? IDLE); reflexivity.
Qed.

Lemma nzl_step_main s op : nzl (snd (step_main s op)).
Proof.
  unfold step_main.
  destruct op as [|z r]; [reflexivity|].
  destruct z as [|q|q]; try reflexivity.
  do 3 (try destruct q as [q|q|]); try reflexivity.
  all: first [ apply nzl_resolver_error | apply nzl_resolver_update
             | unfold timer_fire; destruct (timer s); [|reflexivity]; destruct (al_increment _) as [s2 more];
               destruct more; [apply nzl_request|reflexivity]
             | unfold exit_idle; destruct (bstate s =? IDLE); [|reflexivity];
               pose proof (nzl_update s CONNECTING (-1)) as X; destruct (update_state s CONNECTING (-1)) as [s1 e1];
               pose proof (nzl_start (set_list s1 (addrs s1) 0)) as Y; destruct (start_first_pass (set_list s1 (addrs s1) 0)); apply nzl_app; assumption
             | destruct r as [|z [|v [|x r]]]; try reflexivity;
               destruct (sc_of s z); [|reflexivity]; destruct (_ && _); [apply nzl_sc_state|reflexivity] ].
Qed.

(* ---------- clause 3: a first pass ends only by publishing TRANSIENT_FAILURE ---------- *)

Lemma tfp_app a b : tf_published (a ++ b) = tf_published a || tf_published b.
Proof. unfold tf_published. rewrite u_events_app, existsb_app. reflexivity. Qed.

(* ET s r: if the pass flag is off after r and was on in s, r published TF *)
Definition ET (s : st) (r : st * list word) : Prop :=
  firstPass (fst r) = false -> firstPass s = true -> tf_published (snd r) = true.

Lemma fp_update s v pk : firstPass (fst (update_state s v pk)) = firstPass s.
Proof. unfold update_state, force_state. destruct (_ && _); reflexivity. Qed.
Lemma fp_incr s : firstPass (fst (al_increment s)) = firstPass s.
Proof. unfold al_increment. destruct (al_valid s); reflexivity. Qed.
Lemma fp_seek s a : firstPass (fst (al_seek s a)) = firstPass s.
Proof. unfold al_seek. destruct (index_of a (addrs s)); reflexivity. Qed.
Lemma fp_sched s : firstPass (schedule_next s) = firstPass s.
Proof. unfold schedule_next. destruct (al_has_next _); reflexivity. Qed.
Lemma fp_resolver_error s : firstPass (fst (resolver_error s)) = firstPass s.
Proof. unfold resolver_error. destruct (_ && _); [reflexivity|apply fp_update]. Qed.

Lemma update_tf_published s pk : tf_published (snd (update_state s TF pk)) = true.
Proof.
  unfold update_state.
  replace ((TF =? bstate s) && negb (bstate s =? TF)) with false; [reflexivity|].
  destruct (Z.eqb_spec (bstate s) TF) as [->|N]; [reflexivity|].
  rewrite (proj2 (Z.eqb_neq TF (bstate s))); [reflexivity|congruence].
Qed.

(* endFirstPassIfPossibleLocked either does nothing or ends the pass and publishes TF *)
Lemma efp_cases s :
  end_first_pass s = (s, []) \/
  (firstPass (fst (end_first_pass s)) = false /\ tf_published (snd (end_first_pass s)) = true /\
   al_valid s = false /\ forallb (fun sc => d_failed (sds s sc)) (subs s) = true).
Proof.
  unfold end_first_pass. destruct (al_valid s); [left; reflexivity|].
  destruct (forallb _ (subs s)); [|left; reflexivity]. right.
  pose proof (update_tf_published (set_pass s false (numTF s)) (-1)) as T.
  pose proof (fp_update (set_pass s false (numTF s)) TF (-1)) as F.
  destruct (update_state (set_pass s false (numTF s)) TF (-1)) as [s2 e]. cbn [fst snd] in *.
  repeat split; [exact F|]. rewrite tfp_app, T. reflexivity.
Qed.

Lemma ET_efp s : ET s (end_first_pass s).
Proof.
  destruct (efp_cases s) as [E|[_ [T _]]]; intros F1 F2; [|exact T].
  rewrite E in F1. cbn in F1. congruence.
Qed.

Lemma ET_req fuel : forall s, ET s (req_loop fuel s).
Proof.
  induction fuel as [|f IH]; intros s; [intros F1 F2; cbn in F1; congruence|]. cbn [req_loop].
  assert (G : forall s1 sc e1, firstPass s1 = firstPass s ->
    ET s (if d_raw (sds s1 sc) =? IDLE then (schedule_next s1, e1 ++ [evC sc])
     else if d_raw (sds s1 sc) =? TF
          then let '(s3, more) := al_increment (upd_sd s1 sc (d_set_failed true)) in
               if more then let '(s4, e4) := req_loop f s3 in (s4, e1 ++ e4)
               else let '(s4, e4) := end_first_pass s3 in (s4, e1 ++ e4)
          else if d_raw (sds s1 sc) =? CONNECTING then (schedule_next s1, e1) else (s1, e1))).
  { intros s1 sc e1 H1.
    destruct (d_raw (sds s1 sc) =? IDLE); [intros F1 F2; cbn [fst] in F1; rewrite fp_sched in F1; congruence|].
    destruct (d_raw (sds s1 sc) =? TF).
    - pose proof (fp_incr (upd_sd s1 sc (d_set_failed true))) as F3.
      destruct (al_increment (upd_sd s1 sc (d_set_failed true))) as [s3 more]. cbn [fst] in F3.
      change (firstPass (upd_sd s1 sc (d_set_failed true))) with (firstPass s1) in F3.
      destruct more.
      + specialize (IH s3). destruct (req_loop f s3) as [s4 e4]. intros F1 F2. unfold ET in IH. cbn [fst snd] in *.
        rewrite tfp_app. rewrite (IH F1 ltac:(congruence)). apply orb_true_r.
      + pose proof (ET_efp s3) as X. destruct (end_first_pass s3) as [s4 e4]. intros F1 F2. unfold ET in X. cbn [fst snd] in *.
        rewrite tfp_app. rewrite (X F1 ltac:(congruence)). apply orb_true_r.
    - destruct (d_raw (sds s1 sc) =? CONNECTING); intros F1 F2; cbn [fst] in F1; [rewrite fp_sched in F1|]; congruence. }
  destruct (lookup s (cur_addr s)) as [sc|]; apply G; reflexivity.
Qed.

Lemma ET_request s : ET s (request_connection s).
Proof. unfold request_connection. destruct (al_valid s); [apply ET_req|intros F1 F2; cbn in F1; congruence]. Qed.

(* after startFirstPassLocked the flag is on unless the pass ended at once, publishing TF *)
Lemma start_fp s : firstPass (fst (start_first_pass s)) = false -> tf_published (snd (start_first_pass s)) = true.
Proof. unfold start_first_pass. intros F. exact (ET_request _ F eq_refl). Qed.

Lemma ET_weaken s0 s r : firstPass s = firstPass s0 -> ET s r -> ET s0 r.
Proof. intros E H F1 F2. apply H; [exact F1|congruence]. Qed.
Lemma ET_same s (r : st * list word) : firstPass (fst r) = firstPass s -> ET s r.
Proof. intros E F1 F2. congruence. Qed.
Lemma ET_resolver_update s l0 : ET s (resolver_update s l0).
Proof.
  unfold resolver_update. destruct (filter valid_addr l0) as [|a l1].
  - cbn [shutdown_all].
    match goal with |- context [resolver_error ?x] => pose proof (fp_resolver_error x) as Y; destruct (resolver_error x) as [s3 e3] end.
    apply ET_same. exact Y.
  - set (l' := preprocess (a :: l1)). set (s1 := set_list (cancel_timer s) l' 0).
    assert (G : forall (pr : bool) sk (kept : bool), firstPass sk = firstPass s -> ET s (
       if kept then (sk, [[12; 0]])
       else let '(s2, e2) := shutdown_all s1 (filter (fun sc => negb (memz (d_addr (sds s1 sc)) l')) (subs s1)) in
            let s3 := set_subs s2 (filter (fun sc => memz (d_addr (sds s1 sc)) l') (subs s1)) in
            if pr || (bstate s3 =? CONNECTING) || (length (addrs (cancel_timer s)) =? 0)%nat
            then let '(s4, e4) := force_state s3 CONNECTING (-1) in
                 let '(s5, e5) := start_first_pass s4 in (s5, e2 ++ e4 ++ e5 ++ [[12; 0]])
            else if bstate s3 =? TF then let '(s5, e5) := start_first_pass s3 in (s5, e2 ++ e5 ++ [[12; 0]])
                 else (s3, e2 ++ [[12; 0]]))).
    { intros pr sk kept Hk. destruct kept; [apply ET_same; exact Hk|]. cbn [shutdown_all]. cbv beta iota zeta.
      match goal with |- context [if ?c then _ else _] => destruct c end.
      - unfold force_state.
        match goal with |- context [start_first_pass ?x] => pose proof (start_fp x) as Z; destruct (start_first_pass x) as [s5 e5] end.
        intros F1 F2. cbn [fst snd] in *. rewrite !tfp_app, (Z F1). rewrite !orb_true_r. reflexivity.
      - match goal with |- context [if ?c then _ else _] => destruct c end.
        + match goal with |- context [start_first_pass ?x] => pose proof (start_fp x) as Z; destruct (start_first_pass x) as [s5 e5] end.
          intros F1 F2. cbn [fst snd] in *. rewrite !tfp_app, (Z F1). rewrite !orb_true_r. reflexivity.
        + apply ET_same. reflexivity. }
    destruct (match lookup (cancel_timer s) (cur_addr (cancel_timer s)) with
              | Some sc => d_raw (sds (cancel_timer s) sc) =? READY | None => false end).
    + pose proof (fp_seek s1 (cur_addr (cancel_timer s))) as HK.
      destruct (al_seek s1 (cur_addr (cancel_timer s))) as [sk kept]. apply (G true sk kept HK).
    + apply (G false s1 false eq_refl).
Qed.

Lemma ET_sc_state s sc v : ET s (sc_state s sc v).
Proof.
  unfold sc_state. set (s1 := upd_sd s sc (d_set_raw v)).
  destruct (negb (is_active s1 sc)); [apply ET_same; reflexivity|].
  destruct (v =? SHUTDOWN); [apply ET_same; reflexivity|].
  set (s2 := if v =? TF then upd_sd s1 sc (d_set_failed true) else s1).
  assert (F2 : firstPass s2 = firstPass s) by (unfold s2; destruct (v =? TF); reflexivity).
  destruct (v =? READY).
  { unfold shutdown_remaining. cbn [shutdown_all].
    match goal with |- context [al_seek ?a ?b] => pose proof (fp_seek a b) as H4; destruct (al_seek a b) as [s4 found] end.
    cbn in H4. destruct found; cbn [negb]; [|apply ET_same; cbn [fst]; congruence].
    match goal with |- context [update_state ?a READY ?b] => pose proof (fp_update a READY b) as Y; destruct (update_state a READY b) end.
    apply ET_same. cbn in Y. cbn [fst]. congruence. }
  destruct (_ || _).
  { unfold shutdown_remaining. cbn [shutdown_all].
    match goal with |- context [update_state ?a IDLE ?b] => pose proof (fp_update a IDLE b) as Y; destruct (update_state a IDLE b) end.
    apply ET_same. cbn in Y. cbn [fst]. congruence. }
  destruct (firstPass s2) eqn:FP2.
  { destruct (v =? CONNECTING).
    - destruct (negb (d_eff (sds s2 sc) =? TF)); [|apply ET_same; cbn [fst]; congruence].
      destruct (negb (bstate _ =? TF)); [|apply ET_same; cbn; congruence].
      apply ET_same. rewrite fp_update. cbn. congruence.
    - destruct (v =? TF); [|apply ET_same; cbn [fst]; congruence].
      destruct (cur_addr _ =? _).
      + match goal with |- context [al_increment ?a] => pose proof (fp_incr a) as H5; destruct (al_increment a) as [s5 more] end.
        cbn in H5. eapply (ET_weaken s s5); [congruence|].
        destruct more; [apply ET_request|apply ET_efp].
      + eapply (ET_weaken s _); [|apply ET_efp]. cbn. congruence. }
  destruct (v =? TF).
  { destruct (_ =? 0); apply ET_same; [rewrite fp_update|]; cbn; congruence. }
  destruct (v =? IDLE); apply ET_same; cbn [fst]; congruence.
Qed.

Lemma ET_timer s : ET s (timer_fire s).
Proof.
  unfold timer_fire. destruct (timer s); [|apply ET_same; reflexivity].
  match goal with |- context [al_increment ?a] => pose proof (fp_incr a) as H5; destruct (al_increment a) as [s5 more] end.
  cbn [fst] in H5. destruct more; [|apply ET_same; exact H5].
  eapply (ET_weaken s s5); [exact H5|apply ET_request].
Qed.

Lemma ET_exit_idle s : ET s (exit_idle s).
Proof.
  unfold exit_idle. destruct (bstate s =? IDLE); [|apply ET_same; reflexivity].
  destruct (update_state s CONNECTING (-1)) as [s1 e1].
  pose proof (start_fp (set_list s1 (addrs s1) 0)) as Z. destruct (start_first_pass (set_list s1 (addrs s1) 0)) as [s2 e2].
  intros F1 F2. cbn [fst snd] in *. rewrite tfp_app, (Z F1). apply orb_true_r.
Qed.

Lemma tf_step s op : tf_ok s (fst (step_main s op)) (snd (step_main s op)) = true.
Proof.
  assert (E : ET s (step_main s op)).
  { unfold step_main.
    destruct op as [|z r]; [apply ET_same; reflexivity|].
    destruct z as [|q|q]; try (apply ET_same; reflexivity).
    do 3 (try destruct q as [q|q|]); try (apply ET_same; reflexivity).
    all: first [ apply ET_exit_idle | apply ET_timer | apply ET_resolver_update
               | apply ET_same; apply fp_resolver_error
               | destruct r as [|z [|v [|x r]]]; try (apply ET_same; reflexivity);
                 destruct (sc_of s z); [|apply ET_same; reflexivity];
                 destruct (_ && _); [apply ET_sc_state|apply ET_same; reflexivity] ]. }
  unfold tf_ok. destruct (firstPass s) eqn:F1; [|reflexivity].
  destruct (firstPass (fst (step_main s op))) eqn:F2; [reflexivity|].
  cbn [negb andb orb]. exact (E F2 F1).
Qed.

(* ---------- clause 2: connection order ---------- *)

(* events that connects_before_tf passes over: NewSubConn, Shutdown, a published state other
   than TF, the result of UpdateClientConnState *)
Inductive skip : list word -> Prop :=
| sk_nil : skip []
| sk_N sc a r : skip r -> skip (evN sc a :: r)
| sk_S sc r : skip r -> skip (evS sc :: r)
| sk_U v pk r : (v =? TF) = false -> skip r -> skip (evU v pk :: r)
| sk_R x r : skip r -> skip ([12; x] :: r).

Lemma cbt_skip a b : skip a -> connects_before_tf (a ++ b) = connects_before_tf b.
Proof.
  induction 1 as [|sc a r H IH|sc r H IH|v pk r Hv H IH|x r H IH]; cbn [app]; [reflexivity| | | |].
  - change (connects_before_tf (evN sc a :: (r ++ b))) with (connects_before_tf (r ++ b)). exact IH.
  - change (connects_before_tf (evS sc :: (r ++ b))) with (connects_before_tf (r ++ b)). exact IH.
  - change (connects_before_tf (evU v pk :: (r ++ b))) with (if v =? TF then [] else connects_before_tf (r ++ b)).
    rewrite Hv. exact IH.
  - change (connects_before_tf ([12; x] :: (r ++ b))) with (connects_before_tf (r ++ b)). exact IH.
Qed.
Lemma cbt_skip_nil a : skip a -> connects_before_tf a = [].
Proof. intros H. rewrite <- (app_nil_r a). rewrite (cbt_skip a [] H). reflexivity. Qed.
Lemma skip_app a b : skip a -> skip b -> skip (a ++ b).
Proof. induction 1; intros Hb; cbn [app]; [exact Hb| | | |]; constructor; auto. Qed.
Lemma skip_S l : skip (map evS l).
Proof. induction l; cbn [map]; constructor; assumption. Qed.
Lemma skip_update s v pk : (v =? TF) = false -> skip (snd (update_state s v pk)).
Proof. intros H. unfold update_state, force_state. destruct (_ && _); cbn [snd]; repeat constructor. exact H. Qed.

(* nothing is connected before a TF publication: only passed-over events, or passed-over
   events followed by a TF publication *)
Inductive quiet : list word -> Prop :=
| q_skip e : skip e -> quiet e
| q_tf a pk b : skip a -> quiet (a ++ evU TF pk :: b).
Lemma cbt_quiet e : quiet e -> connects_before_tf e = [].
Proof. intros [e' H|a pk b H]; [apply cbt_skip_nil; exact H|rewrite (cbt_skip _ _ H); reflexivity]. Qed.
Lemma quiet_pre pre e : skip pre -> quiet e -> quiet (pre ++ e).
Proof.
  intros P [e' H|a pk b H]; [apply q_skip, skip_app; assumption|].
  rewrite app_assoc. apply q_tf. apply skip_app; assumption.
Qed.
Lemma quiet_post e post : quiet e -> skip post -> quiet (e ++ post).
Proof.
  intros [e' H|a pk b H] P; [apply q_skip, skip_app; assumption|].
  rewrite <- app_assoc. cbn [app]. apply q_tf. exact H.
Qed.
Lemma quiet_update s v pk : quiet (snd (update_state s v pk)).
Proof.
  unfold update_state, force_state. destruct (_ && _); cbn [snd]; [apply q_skip; constructor|].
  destruct (v =? TF) eqn:E.
  - apply Z.eqb_eq in E. subst v. apply (q_tf [] pk []). constructor.
  - apply q_skip. repeat constructor. exact E.
Qed.

(* SH s' e lo: if the pass flag is on in s', the events e contain no Connect before a TF
   publication, or exactly one, to a sub-channel of the address the cursor points to in s',
   and the cursor is at or after position lo *)
Definition SH (s' : st) (e : list word) (lo : nat) : Prop :=
  firstPass s' = true ->
  quiet e \/ exists a sc b, e = a ++ evC sc :: b /\ skip a /\ quiet b /\ (sc < nsc s')%nat /\
                            d_addr (sds s' sc) = cur_addr s' /\ (lo <= idx s')%nat.

Lemma SH_quiet s' e lo : quiet e -> SH s' e lo.
Proof. intros H _. left. exact H. Qed.
Lemma SH_skip s' e lo : skip e -> SH s' e lo.
Proof. intros H. apply SH_quiet, q_skip, H. Qed.
Lemma SH_off s' e lo : firstPass s' = false -> SH s' e lo.
Proof. intros H F. congruence. Qed.
Lemma SH_wrap s' e lo pre post : skip pre -> skip post -> SH s' e lo -> SH s' (pre ++ e ++ post) lo.
Proof.
  intros P Q H F. destruct (H F) as [K|[a [sc [b [E [Ka [Kb R]]]]]]].
  - left. apply quiet_pre; [exact P|]. apply quiet_post; assumption.
  - right. exists (pre ++ a), sc, (b ++ post). subst e. split.
    + rewrite <- !app_assoc. reflexivity.
    + split; [apply skip_app; assumption|]. split; [apply quiet_post; assumption|exact R].
Qed.
Lemma SH_pre s' e lo pre : skip pre -> SH s' e lo -> SH s' (pre ++ e) lo.
Proof. intros P H. rewrite <- (app_nil_r e). apply SH_wrap; [exact P|constructor|exact H]. Qed.
Lemma SH_lo s' e lo lo' : (lo' <= lo)%nat -> SH s' e lo -> SH s' e lo'.
Proof.
  intros L H F. destruct (H F) as [K|[a [sc [b [E [Ka [Kb [R1 [R2 R3]]]]]]]]]; [left; exact K|].
  right. exists a, sc, b. repeat split; try assumption. lia.
Qed.

Lemma sched_fields s : nsc (schedule_next s) = nsc s /\ sds (schedule_next s) = sds s /\
  idx (schedule_next s) = idx s /\ addrs (schedule_next s) = addrs s.
Proof. unfold schedule_next. destruct (al_has_next _); repeat split. Qed.
Lemma cur_addr_eq s s' : idx s' = idx s -> addrs s' = addrs s -> cur_addr s' = cur_addr s.
Proof. intros A B. unfold cur_addr, al_valid. rewrite A, B. reflexivity. Qed.

Lemma efp_SH s lo : SH (fst (end_first_pass s)) (snd (end_first_pass s)) lo.
Proof.
  destruct (efp_cases s) as [E|[F _]]; [rewrite E; apply SH_skip; constructor|apply SH_off; exact F].
Qed.

Lemma req_SH fuel : forall s, Alive s -> al_valid s = true ->
  SH (fst (req_loop fuel s)) (snd (req_loop fuel s)) (idx s).
Proof.
  induction fuel as [|f IH]; intros s A V; [apply SH_skip; constructor|]. cbn [req_loop].
  assert (G : forall s1 sc e1, Alive s1 -> skip e1 -> al_valid s1 = true -> idx s1 = idx s ->
    (sc < nsc s1)%nat -> d_addr (sds s1 sc) = cur_addr s1 ->
    forall r, r = (if d_raw (sds s1 sc) =? IDLE then (schedule_next s1, e1 ++ [evC sc])
     else if d_raw (sds s1 sc) =? TF
          then let '(s3, more) := al_increment (upd_sd s1 sc (d_set_failed true)) in
               if more then let '(s4, e4) := req_loop f s3 in (s4, e1 ++ e4)
               else let '(s4, e4) := end_first_pass s3 in (s4, e1 ++ e4)
          else if d_raw (sds s1 sc) =? CONNECTING then (schedule_next s1, e1) else (s1, e1)) ->
    SH (fst r) (snd r) (idx s)).
  { intros s1 sc e1 A1 K1 V1 I1 L1 D1 r Hr.
    destruct (sched_fields s1) as [Sn [Ss [Si Sa]]].
    destruct (d_raw (sds s1 sc) =? IDLE).
    { subst r. cbn [fst snd]. intros _. right. exists e1, sc, []. repeat split; try assumption.
      - apply q_skip. constructor.
      - rewrite Sn. exact L1.
      - rewrite Ss, (cur_addr_eq s1 _ Si Sa). exact D1.
      - rewrite Si. lia. }
    destruct (d_raw (sds s1 sc) =? TF).
    { set (s2 := upd_sd s1 sc (d_set_failed true)) in *.
      assert (A2 : Alive s2) by (eapply Alive_same; [apply sa_upd; reflexivity|exact A1]).
      unfold al_increment in Hr. change (al_valid s2) with (al_valid s1) in Hr. rewrite V1 in Hr.
      set (s3 := set_list s2 (addrs s2) (S (idx s2))) in *.
      assert (A3 : Alive s3) by (eapply Alive_same; [apply sa_list|exact A2]).
      assert (I3 : idx s3 = S (idx s)) by (cbn; rewrite <- I1; reflexivity).
      destruct (al_valid s3) eqn:V3.
      - pose proof (IH s3 A3 V3) as X. destruct (req_loop f s3) as [s4 e4]. subst r. cbn [fst snd] in *.
        apply SH_pre; [exact K1|]. eapply SH_lo; [|exact X]. lia.
      - pose proof (efp_SH s3 (idx s)) as X. destruct (end_first_pass s3) as [s4 e4]. subst r. cbn [fst snd] in *.
        apply SH_pre; [exact K1|exact X]. }
    destruct (d_raw (sds s1 sc) =? CONNECTING); subst r; cbn [fst snd]; apply SH_skip; exact K1. }
  destruct (lookup s (cur_addr s)) as [sc|] eqn:LK.
  - unfold lookup in LK. apply find_some in LK. destruct LK as [Hin Hd]. apply Z.eqb_eq in Hd.
    destruct A as [A1 A2]. destruct (A1 sc Hin) as [Hlt _].
    eapply (G s sc []); try reflexivity; try assumption; [split; assumption|constructor].
  - apply (G (set_subs (set_sds s (fupd (sds s) (nsc s) (fun _ => mksd (cur_addr s) IDLE IDLE false false)) (S (nsc s))) (subs s ++ [nsc s]))
             (nsc s) [evN (nsc s) (cur_addr s)]).
    + apply Alive_create. exact A.
    + repeat constructor.
    + exact V.
    + reflexivity.
    + cbn. lia.
    + cbn. unfold fupd. rewrite Nat.eqb_refl. reflexivity.
    + reflexivity.
Qed.

Lemma request_SH s : Alive s -> SH (fst (request_connection s)) (snd (request_connection s)) (idx s).
Proof.
  intros A. unfold request_connection. destruct (al_valid s) eqn:V; [apply req_SH; assumption|apply SH_skip; constructor].
Qed.

Lemma start_SH s : Alive s -> SH (fst (start_first_pass s)) (snd (start_first_pass s)) 0.
Proof.
  intros A. unfold start_first_pass. eapply SH_lo; [|apply request_SH]; [lia|].
  eapply Alive_same; [|exact A]. sa. intros sc. destruct (existsb _ _); reflexivity.
Qed.

Lemma SH_post s' e lo post : skip post -> SH s' e lo -> SH s' (e ++ post) lo.
Proof. intros P H. change (e ++ post) with ([] ++ e ++ post). apply SH_wrap; [constructor|exact P|exact H]. Qed.

Lemma incr_more s : snd (al_increment s) = true -> idx (fst (al_increment s)) = S (idx s).
Proof. unfold al_increment. destruct (al_valid s); [reflexivity|discriminate]. Qed.

Lemma resolver_error_quiet s : quiet (snd (resolver_error s)).
Proof. unfold resolver_error. destruct (_ && _); [apply q_skip; constructor|apply quiet_update]. Qed.

Lemma resolver_update_SH s l0 : Alive s -> SH (fst (resolver_update s l0)) (snd (resolver_update s l0)) 0.
Proof.
  intros A. unfold resolver_update.
  pose proof (Alive_same _ _ (sa_timer s false) A) as A0. fold (cancel_timer s) in A0.
  destruct (filter valid_addr l0) as [|a l1].
  - cbn [shutdown_all].
    match goal with |- context [resolver_error ?x] => pose proof (resolver_error_quiet x) as Y; destruct (resolver_error x) as [s3 e3] end.
    cbn [fst snd] in *. apply SH_quiet. apply quiet_pre; [apply skip_S|]. apply quiet_post; [exact Y|repeat constructor].
  - set (l' := preprocess (a :: l1)). set (s1 := set_list (cancel_timer s) l' 0).
    assert (A1 : Alive s1) by (exact (Alive_same _ _ (sa_list _ _ _) A0)).
    assert (A3 : Alive (set_subs (fst (shutdown_all s1 (filter (fun sc => negb (memz (d_addr (sds s1 sc)) l')) (subs s1))))
                                 (filter (fun sc => memz (d_addr (sds s1 sc)) l') (subs s1)))).
    { apply (Alive_shutdown s1 _ _ A1).
      - intros sc H. destruct (memz (d_addr (sds s1 sc)) l') eqn:M; [right|left]; apply filter_In; split; try assumption.
        rewrite M. reflexivity.
      - intros sc H. apply filter_In in H. destruct H as [H M]. split; [exact H|]. intros F. apply filter_In in F.
        destruct F as [_ F]. rewrite M in F. discriminate. }
    assert (G : forall (pr : bool) sk (kept : bool), SH (fst (
       if kept then (sk, [[12; 0]])
       else let '(s2, e2) := shutdown_all s1 (filter (fun sc => negb (memz (d_addr (sds s1 sc)) l')) (subs s1)) in
            let s3 := set_subs s2 (filter (fun sc => memz (d_addr (sds s1 sc)) l') (subs s1)) in
            if pr || (bstate s3 =? CONNECTING) || (length (addrs (cancel_timer s)) =? 0)%nat
            then let '(s4, e4) := force_state s3 CONNECTING (-1) in
                 let '(s5, e5) := start_first_pass s4 in (s5, e2 ++ e4 ++ e5 ++ [[12; 0]])
            else if bstate s3 =? TF then let '(s5, e5) := start_first_pass s3 in (s5, e2 ++ e5 ++ [[12; 0]])
                 else (s3, e2 ++ [[12; 0]]))) (snd (
       if kept then (sk, [[12; 0]])
       else let '(s2, e2) := shutdown_all s1 (filter (fun sc => negb (memz (d_addr (sds s1 sc)) l')) (subs s1)) in
            let s3 := set_subs s2 (filter (fun sc => memz (d_addr (sds s1 sc)) l') (subs s1)) in
            if pr || (bstate s3 =? CONNECTING) || (length (addrs (cancel_timer s)) =? 0)%nat
            then let '(s4, e4) := force_state s3 CONNECTING (-1) in
                 let '(s5, e5) := start_first_pass s4 in (s5, e2 ++ e4 ++ e5 ++ [[12; 0]])
            else if bstate s3 =? TF then let '(s5, e5) := start_first_pass s3 in (s5, e2 ++ e5 ++ [[12; 0]])
                 else (s3, e2 ++ [[12; 0]]))) 0).
    { intros pr sk kept. destruct kept; [apply SH_skip; repeat constructor|]. cbn [shutdown_all] in *. cbv beta iota zeta.
      match goal with |- context [if ?c then _ else _] => destruct c end.
      - unfold force_state.
        match goal with |- context [start_first_pass ?x] =>
          assert (AX : Alive x) by exact (Alive_same _ _ (sa_force _ CONNECTING (-1)) A3);
          pose proof (start_SH x AX) as Z; destruct (start_first_pass x) as [s5 e5] end.
        cbn [fst snd] in *. apply SH_pre; [apply skip_S|]. apply SH_wrap; [repeat constructor|repeat constructor|exact Z].
      - match goal with |- context [if ?c then _ else _] => destruct c end.
        + match goal with |- context [start_first_pass ?x] =>
            assert (AX : Alive x) by exact A3;
            pose proof (start_SH x AX) as Z; destruct (start_first_pass x) as [s5 e5] end.
          cbn [fst snd] in *. apply SH_pre; [apply skip_S|]. apply SH_post; [repeat constructor|exact Z].
        + cbn [fst snd]. apply SH_skip. apply skip_app; [apply skip_S|repeat constructor]. }
    destruct (match lookup (cancel_timer s) (cur_addr (cancel_timer s)) with
              | Some sc => d_raw (sds (cancel_timer s) sc) =? READY | None => false end).
    + destruct (al_seek s1 (cur_addr (cancel_timer s))) as [sk kept]. apply (G true sk kept).
    + apply (G false s1 false).
Qed.

Lemma sc_state_SH s sc v : Alive s -> SH (fst (sc_state s sc v)) (snd (sc_state s sc v)) (S (idx s)).
Proof.
  intros A. unfold sc_state. set (s1 := upd_sd s sc (d_set_raw v)).
  assert (A1 : Alive s1) by (exact (Alive_same _ _ (sa_upd s sc (d_set_raw v) (fun d => eq_refl)) A)).
  destruct (negb (is_active s1 sc)); [apply SH_skip; constructor|].
  destruct (v =? SHUTDOWN); [apply SH_skip; constructor|].
  set (s2 := if v =? TF then upd_sd s1 sc (d_set_failed true) else s1).
  assert (A2 : Alive s2).
  { unfold s2; destruct (v =? TF); [eapply Alive_same; [apply sa_upd; reflexivity|exact A1]|exact A1]. }
  assert (I2 : idx s2 = idx s) by (unfold s2; destruct (v =? TF); reflexivity).
  destruct (v =? READY).
  { unfold shutdown_remaining. cbn [shutdown_all].
    match goal with |- context [al_seek ?a ?b] => destruct (al_seek a b) as [s4 found] end.
    destruct found; cbn [negb]; [|apply SH_skip, skip_S].
    match goal with |- context [update_state ?a READY ?b] => pose proof (quiet_update a READY b) as Y; destruct (update_state a READY b) end.
    cbn [fst snd] in *. apply SH_quiet. apply quiet_pre; [apply skip_S|exact Y]. }
  destruct (_ || _).
  { unfold shutdown_remaining. cbn [shutdown_all].
    match goal with |- context [update_state ?a IDLE ?b] => pose proof (quiet_update a IDLE b) as Y; destruct (update_state a IDLE b) end.
    cbn [fst snd] in *. apply SH_quiet. apply quiet_pre; [apply skip_S|exact Y]. }
  destruct (firstPass s2) eqn:FP2.
  { destruct (v =? CONNECTING).
    - destruct (negb (d_eff (sds s2 sc) =? TF)); [|apply SH_skip; constructor].
      destruct (negb (bstate _ =? TF)); [|apply SH_skip; constructor]. apply SH_quiet, quiet_update.
    - destruct (v =? TF); [|apply SH_skip; constructor].
      destruct (cur_addr _ =? _).
      + match goal with |- context [al_increment ?a] =>
          assert (A4 : Alive a) by (eapply Alive_same; [apply sa_timer|]; eapply Alive_same; [apply sa_upd; reflexivity|exact A2]);
          pose proof (incr_more a) as IM; pose proof (Alive_same _ _ (sa_incr a) A4) as A5;
          destruct (al_increment a) as [s5 more] end.
        cbn [fst snd] in *. destruct more.
        * eapply SH_lo; [|apply request_SH; exact A5]. rewrite (IM eq_refl). cbn. lia.
        * apply efp_SH.
      + apply efp_SH. }
  destruct (v =? TF).
  { destruct (_ =? 0); [apply SH_quiet, quiet_update|apply SH_skip; constructor]. }
  destruct (v =? IDLE); [apply SH_off; exact FP2|apply SH_skip; constructor].
Qed.

Lemma timer_SH s : Alive s -> SH (fst (timer_fire s)) (snd (timer_fire s)) (S (idx s)).
Proof.
  intros A. unfold timer_fire. destruct (timer s); [|apply SH_skip; constructor].
  match goal with |- context [al_increment ?a] =>
    assert (A4 : Alive a) by (eapply Alive_same; [apply sa_timer|exact A]);
    pose proof (incr_more a) as IM; pose proof (Alive_same _ _ (sa_incr a) A4) as A5;
    destruct (al_increment a) as [s5 more] end.
  cbn [fst snd] in *. destruct more; [|apply SH_skip; constructor].
  eapply SH_lo; [|apply request_SH; exact A5]. rewrite (IM eq_refl). cbn. lia.
Qed.

Lemma exit_idle_SH s : Alive s -> bstate s = IDLE -> SH (fst (exit_idle s)) (snd (exit_idle s)) 0.
Proof.
  intros A B. unfold exit_idle. rewrite B. cbn [Z.eqb IDLE Pos.eqb].
  pose proof (Alive_same _ _ (sa_update s CONNECTING (-1)) A) as A1.
  pose proof (skip_update s CONNECTING (-1) eq_refl) as K.
  destruct (update_state s CONNECTING (-1)) as [s1 e1]. cbn [fst snd] in *.
  pose proof (start_SH _ (Alive_same _ _ (sa_list s1 (addrs s1) 0) A1)) as Z. destruct (start_first_pass (set_list s1 (addrs s1) 0)) as [s2 e2]. cbn [fst snd] in *.
  apply SH_pre; assumption.
Qed.

Lemma SH_order s s' op e lo : SH s' e lo -> (is_start s op = true \/ (idx s < lo)%nat) ->
  order_ok s s' op e = true.
Proof.
  intros H X. unfold order_ok. destruct (firstPass s') eqn:F; [|reflexivity].
  destruct (H F) as [K|[a [sc [b [E [Ka [Kb [R1 [R2 R3]]]]]]]]].
  - rewrite (cbt_quiet _ K). apply orb_true_r.
  - subst e. rewrite (cbt_skip _ _ Ka).
    change (connects_before_tf (evC sc :: b)) with (zn sc :: connects_before_tf b).
    rewrite (cbt_quiet _ Kb), (sc_of_zn s' sc R1), R2, Z.eqb_refl. cbn [andb].
    apply orb_true_iff. right. destruct X as [X|X]; [rewrite X; reflexivity|].
    replace (idx s <? idx s')%nat with true by (symmetry; apply Nat.ltb_lt; lia).
    rewrite orb_true_r. reflexivity.
Qed.

Lemma order_step s op : Alive s -> order_ok s (fst (step_main s op)) op (snd (step_main s op)) = true.
Proof.
  intros A.
  assert (N : forall lo, SH s [] lo) by (intros lo; apply SH_skip; constructor).
  unfold step_main.
  destruct op as [|z r]; [apply (SH_order _ _ _ _ (S (idx s)) (N _)); right; lia|].
  destruct z as [|q|q]; try (apply (SH_order _ _ _ _ (S (idx s)) (N _)); right; lia).
  do 3 (try destruct q as [q|q|]); try (apply (SH_order _ _ _ _ (S (idx s)) (N _)); right; lia).
  all: match goal with
       | |- context [exit_idle ?x] =>
         destruct (Z.eqb_spec (bstate s) IDLE) as [B|B];
         [ apply (SH_order _ _ _ _ 0 (exit_idle_SH s A B)); left; cbn; rewrite B; reflexivity
         | unfold exit_idle; rewrite (proj2 (Z.eqb_neq _ _) B); apply (SH_order _ _ _ _ (S (idx s)) (N _)); right; lia ]
       | |- context [timer_fire ?x] => apply (SH_order _ _ _ _ (S (idx s)) (timer_SH s A)); right; lia
       | |- context [resolver_error ?x] =>
         apply (SH_order _ _ _ _ (S (idx s))); [apply SH_quiet, resolver_error_quiet|right; lia]
       | |- context [resolver_update ?x ?l] => apply (SH_order _ _ _ _ 0 (resolver_update_SH s l A)); left; reflexivity
       | |- _ => idtac
       end.
  destruct r as [|z [|v [|x r]]]; try (apply (SH_order _ _ _ _ (S (idx s)) (N _)); right; lia).
  destruct (sc_of s z) as [n|]; [|apply (SH_order _ _ _ _ (S (idx s)) (N _)); right; lia].
  destruct (_ && _); [|apply (SH_order _ _ _ _ (S (idx s)) (N _)); right; lia].
  apply (SH_order _ _ _ _ (S (idx s)) (sc_state_SH s n v A)). right. lia.
Qed.

Lemma step_fst s op : fst (step s op) = fst (step_main s op).
Proof. unfold step. destruct (step_main s op). reflexivity. Qed.
Lemma step_snd s op : snd (step s op) = snd (step_main s op) ++ [[0]].
Proof. unfold step. destruct (step_main s op). reflexivity. Qed.


(* ---------- reachable states ---------- *)

Definition reachable (s : st) : Prop := exists ops, s = fst (run_from init ops).

Lemma run_from_alive ops : forall s, Alive s -> Alive (fst (run_from s ops)).
Proof.
  induction ops as [|op r IH]; intros s I; cbn [run_from]; [exact I|].
  pose proof (step_main_alive s op I) as I1. rewrite <- step_fst in I1.
  destruct (step s op) as [s1 e]. cbn [fst] in I1. specialize (IH s1 I1). destruct (run_from s1 r). exact IH.
Qed.
Lemma reachable_alive s : reachable s -> Alive s.
Proof. intros [ops ->]. apply run_from_alive, Alive_init. Qed.

Lemma ready_sound s op : reachable s -> ready_ok s op (snd (step_main s op)) = true.
Proof. intros R. apply ready_step, reachable_alive, R. Qed.

(* READY is published only while processing the READY report of a sub-channel that is
   active (hence not shut down), with a picker returning exactly that sub-channel *)
Lemma ready_only_on_ready_report s op x : reachable s ->
  In (READY, x) (u_events (snd (step_main s op))) ->
  exists sc, op = [2; zn sc; READY] /\ x = zn sc /\ (sc < nsc s)%nat /\ d_shut (sds s sc) = false /\
             forall sc', (sc' < nsc s)%nat -> sc' <> sc ->
               d_shut (sds s sc') = true \/ In (zn sc') (s_scs (snd (step_main s op))).
Proof.
  intros R Hin. pose proof (ready_sound s op R) as H. unfold ready_ok in H.
  rewrite forallb_forall in H. specialize (H _ Hin). cbn [fst snd] in H.
  replace (READY =? READY) with true in H by reflexivity. cbn [negb orb] in H.
  destruct op as [|a l]; [discriminate H|].
  destruct a as [|q|q]; try discriminate H. destruct q as [q|q|]; try discriminate H.
  destruct q as [q|q|]; try discriminate H.
  destruct l as [|z [|v [|d r]]]; try discriminate H.
  apply andb_true_iff in H. destruct H as [H1 H2]. apply andb_true_iff in H1. destruct H1 as [Hv Hz].
  apply Z.eqb_eq in Hv. apply Z.eqb_eq in Hz. subst v x.
  destruct (sc_of s z) as [sc|] eqn:E; [|discriminate H2]. apply sc_of_spec in E. destruct E as [Hlt ->].
  apply andb_true_iff in H2. destruct H2 as [H2 _]. apply andb_true_iff in H2. destruct H2 as [Hs Hall].
  apply negb_true_iff in Hs. exists sc. repeat split; try assumption.
  intros sc' Hlt' Hne. rewrite forallb_forall in Hall. specialize (Hall sc' ltac:(apply in_seq; lia)).
  apply orb_true_iff in Hall. destruct Hall as [Hall|Hall]; [|right; apply memz_In; exact Hall].
  apply orb_true_iff in Hall. destruct Hall as [Hall|Hall]; [apply Nat.eqb_eq in Hall; contradiction|left; exact Hall].
Qed.


(* ---------- connection order, readable ---------- *)

(* In every reachable state, whatever the next operation: if a pass is running after it and
   was running before it or the operation is one that (re)starts passes, then before any TF
   publication the operation calls Connect at most once, on a sub-channel of the address the
   cursor of the (de-duplicated, interleaved) list points to, and unless the pass was
   (re)started the cursor has moved strictly forward *)
Lemma order_readable s op : reachable s ->
  firstPass (fst (step_main s op)) = true -> (firstPass s = true \/ is_start s op = true) ->
  connects_before_tf (snd (step_main s op)) = [] \/
  exists sc, connects_before_tf (snd (step_main s op)) = [zn sc] /\ (sc < nsc (fst (step_main s op)))%nat /\
     d_addr (sds (fst (step_main s op)) sc) = cur_addr (fst (step_main s op)) /\
     (is_start s op = true \/ (idx s < idx (fst (step_main s op)))%nat).
Proof.
  intros R F X. pose proof (order_step s op (reachable_alive s R)) as H. unfold order_ok in H.
  rewrite F in H. replace (firstPass s || is_start s op) with true in H
    by (destruct X as [X|X]; rewrite X; [reflexivity|rewrite orb_true_r; reflexivity]).
  cbn [andb negb orb] in H.
  destruct (connects_before_tf (snd (step_main s op))) as [|z [|z' l]]; [left; reflexivity| |discriminate H].
  right. destruct (sc_of (fst (step_main s op)) z) as [sc|] eqn:E; [|discriminate H].
  apply sc_of_spec in E. destruct E as [Hlt ->]. apply andb_true_iff in H. destruct H as [H1 H2].
  apply Z.eqb_eq in H1. exists sc. repeat split; try assumption.
  apply orb_true_iff in H2. destruct H2 as [H2|H2].
  - apply orb_true_iff in H2. destruct H2 as [H2|H2]; [left; exact H2|right; apply Nat.ltb_lt; exact H2].
  - destruct X as [X|X]; [rewrite X in H2; discriminate H2|left; exact X].
Qed.

(* ---------- TF after all failed, readable ---------- *)

(* endFirstPassIfPossibleLocked with the list exhausted and every active sub-channel marked
   as failed ends the pass and publishes TF *)
Lemma efp_spec s : al_valid s = false -> forallb (fun sc => d_failed (sds s sc)) (subs s) = true ->
  firstPass (fst (end_first_pass s)) = false /\ tf_published (snd (end_first_pass s)) = true /\
  bstate (fst (end_first_pass s)) = TF.
Proof.
  intros V F. unfold end_first_pass. rewrite V, F.
  pose proof (update_tf_published (set_pass s false (numTF s)) (-1)) as T.
  pose proof (fp_update (set_pass s false (numTF s)) TF (-1)) as P.
  assert (B : bstate (fst (update_state (set_pass s false (numTF s)) TF (-1))) = TF).
  { unfold update_state.
    replace ((TF =? bstate (set_pass s false (numTF s))) && negb (bstate (set_pass s false (numTF s)) =? TF)) with false; [reflexivity|].
    cbn [bstate set_pass]. destruct (Z.eqb_spec (bstate s) TF) as [->|N]; [reflexivity|].
    rewrite (proj2 (Z.eqb_neq TF (bstate s))); [reflexivity|congruence]. }
  destruct (update_state (set_pass s false (numTF s)) TF (-1)) as [s2 e]. cbn [fst snd] in *.
  repeat split; [exact P| |exact B]. rewrite tfp_app, T. reflexivity.
Qed.

(* a first pass ends - in any state, by any operation - only by publishing TF *)
Lemma pass_ends_with_tf s op : firstPass s = true -> firstPass (fst (step_main s op)) = false ->
  exists pk, In (TF, pk) (u_events (snd (step_main s op))).
Proof.
  intros F1 F2. pose proof (tf_step s op) as H. unfold tf_ok in H. rewrite F1, F2 in H.
  cbn [negb andb orb] in H. unfold tf_published in H. apply existsb_exists in H.
  destruct H as [[v pk] [Hin Hv]]. cbn [fst] in Hv. apply Z.eqb_eq in Hv. subst v. exists pk. exact Hin.
Qed.

(* ---------- a pass started by ExitIdle after the cursor moved while IDLE (repaired by 5362b94) ---------- *)

(* update [a; b]; sc0 CONNECTING then IDLE (IDLE is published, cursor reset to 0); sc0 reports
   TRANSIENT_FAILURE (cursor -> 1, sc1 is created and connected); ExitIdle resets the cursor and
   restarts the pass: sc0 (still in TF) is marked as failed again, sc1 is connected; sc1 fails:
   the pass ends, TRANSIENT_FAILURE is published, and later IDLE reports are re-connected.
   (Before 5362b94 ExitIdle kept the cursor at 1: sc0's mark was cleared and never set again,
   nothing was published after sc1 failed and no Connect was ever issued again.) *)
Definition midstart_prefix : list word := [[1; 1001; 1002]; [2; 0; 1]; [2; 0; 0]; [2; 0; 3]; [6]].
Lemma exit_idle_restart_witness :
  let s := fst (run_from init midstart_prefix) in
  let s' := fst (step_main s [2; 1; 3]) in
  idx s = 1%nat /\ midstart s = false /\ firstPass s = true /\
  snd (step_main s [2; 1; 3]) = [[1; 3; -1]] /\ firstPass s' = false /\ bstate s' = TF /\ all_failed s' = true /\
  snd (step_main s' [2; 0; 0]) = [[3; 0]] /\ snd (step_main s' [2; 1; 0]) = [[3; 1]].
Proof. vm_compute. repeat split; reflexivity. Qed.

(* ---------- the cursor only moves forward; the list has no duplicates ---------- *)

Definition LS (s s' : st) : Prop := addrs s' = addrs s /\ (idx s <= idx s')%nat.
Lemma LS_refl s : LS s s. Proof. split; [reflexivity|lia]. Qed.
Lemma LS_trans a b c : LS a b -> LS b c -> LS a c.
Proof. intros [A1 A2] [B1 B2]. split; [congruence|lia]. Qed.
Lemma LS_eq s s' : addrs s' = addrs s -> idx s' = idx s -> LS s s'.
Proof. intros A B. split; [exact A|lia]. Qed.

Lemma list_update s v pk : addrs (fst (update_state s v pk)) = addrs s /\ idx (fst (update_state s v pk)) = idx s.
Proof. unfold update_state, force_state. destruct (_ && _); split; reflexivity. Qed.
Lemma bstate_update s v pk : bstate (fst (update_state s v pk)) = v.
Proof.
  unfold update_state, force_state. destruct ((v =? bstate s) && negb (bstate s =? TF)) eqn:E; [|reflexivity].
  apply andb_true_iff in E. destruct E as [E _]. apply Z.eqb_eq in E. cbn. congruence.
Qed.
Lemma LS_efp s : LS s (fst (end_first_pass s)).
Proof.
  unfold end_first_pass. destruct (al_valid s); [apply LS_refl|]. destruct (forallb _ _); [|apply LS_refl].
  pose proof (list_update (set_pass s false (numTF s)) TF (-1)) as [A B].
  destruct (update_state (set_pass s false (numTF s)) TF (-1)) as [s2 e]. cbn [fst] in *. apply LS_eq; assumption.
Qed.
Lemma LS_sched s : LS s (schedule_next s).
Proof. destruct (sched_fields s) as [_ [_ [I A]]]. apply LS_eq; assumption. Qed.
Lemma LS_incr s : LS s (fst (al_increment s)).
Proof. unfold al_increment. destruct (al_valid s); [split; [reflexivity|cbn; lia]|apply LS_refl]. Qed.

Lemma LS_req fuel : forall s, LS s (fst (req_loop fuel s)).
Proof.
  induction fuel as [|f IH]; intros s; [apply LS_refl|]. cbn [req_loop].
  assert (G : forall s1 sc e1, LS s s1 ->
    LS s (fst (if d_raw (sds s1 sc) =? IDLE then (schedule_next s1, e1 ++ [evC sc])
     else if d_raw (sds s1 sc) =? TF
          then let '(s3, more) := al_increment (upd_sd s1 sc (d_set_failed true)) in
               if more then let '(s4, e4) := req_loop f s3 in (s4, e1 ++ e4)
               else let '(s4, e4) := end_first_pass s3 in (s4, e1 ++ e4)
          else if d_raw (sds s1 sc) =? CONNECTING then (schedule_next s1, e1) else (s1, e1)))).
  { intros s1 sc e1 H1.
    destruct (d_raw (sds s1 sc) =? IDLE); [exact (LS_trans _ _ _ H1 (LS_sched s1))|].
    destruct (d_raw (sds s1 sc) =? TF).
    - assert (H2 : LS s (fst (al_increment (upd_sd s1 sc (d_set_failed true)))))
        by (eapply LS_trans; [exact H1|]; exact (LS_incr (upd_sd s1 sc (d_set_failed true)))).
      destruct (al_increment _) as [s3 more]. cbn [fst] in H2. destruct more.
      + specialize (IH s3). destruct (req_loop f s3). exact (LS_trans _ _ _ H2 IH).
      + pose proof (LS_efp s3) as X. destruct (end_first_pass s3). exact (LS_trans _ _ _ H2 X).
    - destruct (d_raw (sds s1 sc) =? CONNECTING); [exact (LS_trans _ _ _ H1 (LS_sched s1))|exact H1]. }
  destruct (lookup s (cur_addr s)) as [sc|]; apply G; apply LS_eq; reflexivity.
Qed.
Lemma LS_request s : LS s (fst (request_connection s)).
Proof. unfold request_connection. destruct (al_valid s); [apply LS_req|apply LS_refl]. Qed.
Lemma LS_start s : LS s (fst (start_first_pass s)).
Proof. unfold start_first_pass. eapply LS_trans; [|apply LS_request]. apply LS_eq; reflexivity. Qed.
Lemma LS_resolver_error s : LS s (fst (resolver_error s)).
Proof.
  unfold resolver_error. destruct (_ && _); [apply LS_refl|].
  destruct (list_update s TF (-1)). apply LS_eq; assumption.
Qed.
Lemma LS_timer s : LS s (fst (timer_fire s)).
Proof.
  unfold timer_fire. destruct (timer s); [|apply LS_refl].
  pose proof (LS_incr (set_timer s false)) as H. destruct (al_increment _) as [s2 more]. cbn [fst] in H.
  assert (H' : LS s s2) by (destruct H as [A B]; split; [exact A|exact B]).
  destruct more; [exact (LS_trans _ _ _ H' (LS_request s2))|exact H'].
Qed.
Lemma exit_idle_list s : addrs (fst (exit_idle s)) = addrs s /\ (bstate s <> IDLE -> fst (exit_idle s) = s).
Proof.
  unfold exit_idle. destruct (Z.eqb_spec (bstate s) IDLE) as [B|B]; [|split; [reflexivity|intros _; reflexivity]].
  split; [|intros N; contradiction].
  destruct (list_update s CONNECTING (-1)) as [A _]. destruct (update_state s CONNECTING (-1)) as [s1 e1]. cbn [fst] in *.
  pose proof (LS_start (set_list s1 (addrs s1) 0)) as [X _]. destruct (start_first_pass (set_list s1 (addrs s1) 0)) as [s2 e2].
  cbn [fst] in *. rewrite X. exact A.
Qed.

Lemma seek_list s a : addrs (fst (al_seek s a)) = addrs s /\ (snd (al_seek s a) = false -> fst (al_seek s a) = s).
Proof. unfold al_seek. destruct (index_of a (addrs s)); split; try reflexivity. discriminate. Qed.

Lemma sc_state_list s sc v :
  addrs (fst (sc_state s sc v)) = addrs s /\
  ((idx s <= idx (fst (sc_state s sc v)))%nat \/ bstate (fst (sc_state s sc v)) = READY \/ bstate (fst (sc_state s sc v)) = IDLE).
Proof.
  assert (W : forall s', LS s s' -> addrs s' = addrs s /\ ((idx s <= idx s')%nat \/ bstate s' = READY \/ bstate s' = IDLE))
    by (intros s' [A B]; split; [exact A|left; exact B]).
  unfold sc_state. set (s1 := upd_sd s sc (d_set_raw v)).
  destruct (negb (is_active s1 sc)); [apply W, LS_eq; reflexivity|].
  destruct (v =? SHUTDOWN); [apply W, LS_eq; reflexivity|].
  set (s2 := if v =? TF then upd_sd s1 sc (d_set_failed true) else s1).
  assert (L2 : LS s s2) by (unfold s2; destruct (v =? TF); apply LS_eq; reflexivity).
  destruct (v =? READY).
  { unfold shutdown_remaining. cbn [shutdown_all].
    match goal with |- context [al_seek ?a ?b] => pose proof (seek_list a b) as [K1 K2]; destruct (al_seek a b) as [s4 found] end.
    cbn [fst snd] in *. destruct found; cbn [negb].
    - match goal with |- context [update_state ?a READY ?b] =>
        pose proof (list_update a READY b) as [U1 U2]; pose proof (bstate_update a READY b) as U3; destruct (update_state a READY b) as [s5 e5] end.
      cbn [fst] in *. split; [|right; left; exact U3]. rewrite U1. cbn. rewrite K1. cbn. exact (proj1 L2).
    - rewrite (K2 eq_refl). apply W. cbn. destruct L2 as [A B]. split; [exact A|exact B]. }
  destruct (_ || _).
  { unfold shutdown_remaining. cbn [shutdown_all].
    match goal with |- context [update_state ?a IDLE ?b] =>
      pose proof (list_update a IDLE b) as [U1 U2]; pose proof (bstate_update a IDLE b) as U3; destruct (update_state a IDLE b) as [s5 e5] end.
    cbn [fst] in *. split; [|right; right; exact U3]. rewrite U1. cbn. exact (proj1 L2). }
  destruct (firstPass s2).
  { destruct (v =? CONNECTING).
    - destruct (negb (d_eff (sds s2 sc) =? TF)); [|apply W; exact L2].
      destruct (negb (bstate _ =? TF)); [|apply W; destruct L2 as [A B]; split; [exact A|exact B]].
      apply W. match goal with |- context [update_state ?a CONNECTING ?b] => destruct (list_update a CONNECTING b) as [U1 U2] end.
      eapply LS_trans; [exact L2|]. apply LS_eq; [rewrite U1|rewrite U2]; reflexivity.
    - destruct (v =? TF); [|apply W; exact L2].
      apply W. eapply LS_trans; [exact L2|].
      destruct (cur_addr _ =? _).
      + match goal with |- context [al_increment ?a] => pose proof (LS_incr a) as H5; destruct (al_increment a) as [s5 more] end.
        cbn [fst] in H5. assert (H5' : LS s2 s5) by (destruct H5 as [A B]; split; [exact A|exact B]).
        destruct more; [exact (LS_trans _ _ _ H5' (LS_request s5))|exact (LS_trans _ _ _ H5' (LS_efp s5))].
      + eapply LS_trans; [|apply LS_efp]. apply LS_eq; reflexivity. }
  destruct (v =? TF).
  { apply W. eapply LS_trans; [exact L2|]. destruct (_ =? 0); [|apply LS_eq; reflexivity].
    match goal with |- context [update_state ?a TF ?b] => destruct (list_update a TF b) as [U1 U2] end.
    apply LS_eq; [rewrite U1|rewrite U2]; reflexivity. }
  destruct (v =? IDLE); apply W; exact L2.
Qed.

(* unless the operation (re)starts the pass (resolver update, ExitIdle in IDLE) the address list
   is unchanged and the cursor only moves forward, until a sub-channel becomes READY (seekTo) or
   an established connection is lost (IDLE is published, reset) *)
Lemma cursor_monotone s op : is_start s op = false ->
  addrs (fst (step_main s op)) = addrs s /\
  ((idx s <= idx (fst (step_main s op)))%nat \/ bstate (fst (step_main s op)) = READY \/ bstate (fst (step_main s op)) = IDLE).
Proof.
  intros NU.
  assert (W : forall s', LS s s' -> addrs s' = addrs s /\ ((idx s <= idx s')%nat \/ bstate s' = READY \/ bstate s' = IDLE))
    by (intros s' [A B]; split; [exact A|left; exact B]).
  unfold step_main.
  destruct op as [|z r]; [apply W, LS_refl|].
  destruct z as [|q|q]; try (apply W, LS_refl).
  do 3 (try destruct q as [q|q|]); try (apply W, LS_refl).
  all: match goal with
       | |- context [exit_idle ?x] =>
         cbn in NU; apply Z.eqb_neq in NU; rewrite (proj2 (exit_idle_list s) NU); apply W, LS_refl
       | |- context [timer_fire ?x] => apply W, LS_timer
       | |- context [resolver_error ?x] => apply W, LS_resolver_error
       | |- context [resolver_update ?x ?l] => discriminate NU
       | |- _ => idtac
       end.
  destruct r as [|z [|v [|x r]]]; try (apply W, LS_refl).
  destruct (sc_of s z) as [n|]; [|apply W, LS_refl].
  destruct (_ && _); [apply sc_state_list|apply W, LS_refl].
Qed.

Lemma resolver_update_addrs s l0 :
  addrs (fst (resolver_update s l0)) = match filter valid_addr l0 with [] => [] | l => preprocess l end.
Proof.
  unfold resolver_update. destruct (filter valid_addr l0) as [|a l1].
  - cbn [shutdown_all].
    match goal with |- context [resolver_error ?x] => pose proof (LS_resolver_error x) as [Y _]; destruct (resolver_error x) as [s3 e3] end.
    cbn [fst] in *. rewrite Y. reflexivity.
  - set (l' := preprocess (a :: l1)). set (s1 := set_list (cancel_timer s) l' 0).
    assert (G : forall (pr : bool) sk (kept : bool), addrs sk = l' -> addrs (fst (
       if kept then (sk, [[12; 0]])
       else let '(s2, e2) := shutdown_all s1 (filter (fun sc => negb (memz (d_addr (sds s1 sc)) l')) (subs s1)) in
            let s3 := set_subs s2 (filter (fun sc => memz (d_addr (sds s1 sc)) l') (subs s1)) in
            if pr || (bstate s3 =? CONNECTING) || (length (addrs (cancel_timer s)) =? 0)%nat
            then let '(s4, e4) := force_state s3 CONNECTING (-1) in
                 let '(s5, e5) := start_first_pass s4 in (s5, e2 ++ e4 ++ e5 ++ [[12; 0]])
            else if bstate s3 =? TF then let '(s5, e5) := start_first_pass s3 in (s5, e2 ++ e5 ++ [[12; 0]])
                 else (s3, e2 ++ [[12; 0]]))) = l').
    { intros pr sk kept Hk. destruct kept; [exact Hk|]. cbn [shutdown_all]. cbv beta iota zeta.
      match goal with |- context [if ?c then _ else _] => destruct c end.
      - unfold force_state.
        match goal with |- context [start_first_pass ?x] => pose proof (LS_start x) as [Z _]; destruct (start_first_pass x) as [s5 e5] end.
        cbn [fst] in *. rewrite Z. reflexivity.
      - match goal with |- context [if ?c then _ else _] => destruct c end; [|reflexivity].
        match goal with |- context [start_first_pass ?x] => pose proof (LS_start x) as [Z _]; destruct (start_first_pass x) as [s5 e5] end.
        cbn [fst] in *. rewrite Z. reflexivity. }
    destruct (match lookup (cancel_timer s) (cur_addr (cancel_timer s)) with
              | Some sc => d_raw (sds (cancel_timer s) sc) =? READY | None => false end).
    + pose proof (seek_list s1 (cur_addr (cancel_timer s))) as [HK _].
      destruct (al_seek s1 (cur_addr (cancel_timer s))) as [sk kept]. apply (G true sk kept). exact HK.
    + apply (G false s1 false). reflexivity.
Qed.

(* b.addressList always holds a pre-processed list: no duplicates *)
Lemma step_addrs_nodup s op : NoDup (addrs s) -> NoDup (addrs (fst (step_main s op))).
Proof.
  intros H. destruct (is_start s op) eqn:E; [|rewrite (proj1 (cursor_monotone s op E)); exact H].
  destruct op as [|z r]; [discriminate E|].
  destruct z as [|q|q]; try discriminate E.
  do 3 (try destruct q as [q|q|]); try discriminate E.
  - cbn [step_main]. rewrite (proj1 (exit_idle_list s)). exact H.
  - cbn [step_main]. rewrite resolver_update_addrs. destruct (filter valid_addr r); [constructor|apply preprocess_NoDup].
Qed.
Lemma reachable_addrs_nodup s : reachable s -> NoDup (addrs s).
Proof.
  intros [ops ->]. assert (G : forall s0, NoDup (addrs s0) -> NoDup (addrs (fst (run_from s0 ops)))).
  { induction ops as [|op r IH]; intros s0 H; cbn [run_from]; [exact H|].
    pose proof (step_addrs_nodup s0 op H) as H1. rewrite <- step_fst in H1.
    destruct (step s0 op) as [s1 e]. cbn [fst] in H1. specialize (IH s1 H1). destruct (run_from s1 r). exact IH. }
  apply G. constructor.
Qed.

(* ================= clause 5: the joint invariant ================= *)

Definition ad (s : st) (sc : nat) : Z := d_addr (sds s sc).
Definition rw (s : st) (sc : nat) : Z := d_raw (sds s sc).
Definition fl (s : st) (sc : nat) : bool := d_failed (sds s sc).

(* at most one active sub-channel per address; their addresses lie in the list *)
Definition Dv (s : st) : Prop := NoDup (map (ad s) (subs s)).
Definition Sv (s : st) : Prop := forall sc, In sc (subs s) -> In (ad s sc) (addrs s).
(* an active sub-channel whose latest state is READY is the only one, the cursor is on it, no
   timer runs and READY is published *)
Definition NR (s : st) : Prop := forall sc, In sc (subs s) -> rw s sc <> READY.
Definition Rv (s : st) : Prop := forall sc, In sc (subs s) -> rw s sc = READY ->
  subs s = [sc] /\ timer s = false /\ al_valid s = true /\ cur_addr s = ad s sc /\ bstate s = READY.
(* a running timer: a pass runs and the cursor's sub-channel is not in TF *)
Definition Cv (s : st) : Prop := timer s = true -> al_valid s = true ->
  firstPass s = true /\ exists sc, In sc (subs s) /\ ad s sc = cur_addr s /\ rw s sc <> TF.
(* a sub-channel in TF without failure mark has not been passed by the cursor *)
Definition Fv (s : st) : Prop := firstPass s = true -> forall sc, In sc (subs s) -> rw s sc = TF -> fl s sc = false ->
  ~ In (ad s sc) (firstn (idx s) (addrs s)).
(* list exhausted during a pass: some sub-channel is not in TF *)
Definition Ev (s : st) : Prop := firstPass s = true -> al_valid s = false -> subs s <> [] ->
  exists sc, In sc (subs s) /\ rw s sc <> TF.
Record Lv (s : st) : Prop := { lD : Dv s; lS : Sv s; lR : Rv s; lF : Fv s }.
Record Wv (s : st) : Prop := { wL : Lv s; wC : Cv s; wE : Ev s }.

Lemma NR_Rv s : NR s -> Rv s.
Proof. intros H sc Hin E. exfalso. exact (H sc Hin E). Qed.
Lemma Rv_other s sc x : Rv s -> In sc (subs s) -> In x (subs s) -> rw s x = READY -> x = sc.
Proof. intros R Hs Hx E. destruct (R x Hx E) as [L _]. rewrite L in Hs. destruct Hs as [<-|[]]. reflexivity. Qed.

Lemma al_valid_eq s s' : idx s' = idx s -> addrs s' = addrs s -> al_valid s' = al_valid s.
Proof. intros A B. unfold al_valid. rewrite A, B. reflexivity. Qed.

(* lookup *)
Lemma lookup_some s a sc : lookup s a = Some sc -> In sc (subs s) /\ ad s sc = a.
Proof. unfold lookup. intros H. apply find_some in H. destruct H as [H1 H2]. apply Z.eqb_eq in H2. split; assumption. Qed.
Lemma lookup_none s a : lookup s a = None -> forall sc, In sc (subs s) -> ad s sc <> a.
Proof. unfold lookup. intros H sc Hin E. pose proof (find_none _ _ H sc Hin) as X. cbn in X. apply Z.eqb_neq in X. exact (X E). Qed.
Lemma find_nodup (f : nat -> Z) l sc : NoDup (map f l) -> In sc l -> find (fun x => f x =? f sc) l = Some sc.
Proof.
  induction l as [|a r IH]; intros ND Hin; [destruct Hin|]. cbn [map] in ND. inversion ND as [|? ? Hn ND']; subst.
  cbn [find]. destruct Hin as [->|Hin]; [rewrite Z.eqb_refl; reflexivity|].
  destruct (Z.eqb_spec (f a) (f sc)) as [E|_]; [|apply IH; assumption].
  exfalso. apply Hn. rewrite E. apply in_map. exact Hin.
Qed.
Lemma lookup_D s sc : Dv s -> In sc (subs s) -> lookup s (ad s sc) = Some sc.
Proof. intros D Hin. unfold lookup. exact (find_nodup (ad s) (subs s) sc D Hin). Qed.
Lemma active_D s sc : Dv s -> In sc (subs s) -> is_active s sc = true.
Proof. intros D Hin. unfold is_active. fold (ad s sc). rewrite (lookup_D s sc D Hin). apply Nat.eqb_refl. Qed.

(* view equality on the active sub-channels *)
Definition veq (s s' : st) : Prop :=
  subs s' = subs s /\ (forall x, In x (subs s) -> ad s' x = ad s x /\ rw s' x = rw s x /\ fl s' x = fl s x) /\
  addrs s' = addrs s /\ idx s' = idx s /\ firstPass s' = firstPass s /\ timer s' = timer s.

Lemma map_ad_eq s s' : subs s' = subs s -> (forall x, In x (subs s) -> ad s' x = ad s x) -> map (ad s') (subs s') = map (ad s) (subs s).
Proof. intros E H. rewrite E. apply map_ext_in. exact H. Qed.

Lemma L_veq s s' : veq s s' -> (bstate s' = bstate s \/ NR s) -> Lv s -> Lv s'.
Proof.
  intros [Es [Ex [Ea [Ei [Ef Et]]]]] B [D S R F].
  pose proof (al_valid_eq s s' Ei Ea) as EV. pose proof (cur_addr_eq s s' Ei Ea) as EC.
  split.
  - unfold Dv. rewrite (map_ad_eq s s' Es (fun x H => proj1 (Ex x H))). exact D.
  - intros sc Hin. rewrite Es in Hin. rewrite Ea, (proj1 (Ex sc Hin)). exact (S sc Hin).
  - intros sc Hin E. rewrite Es in Hin. rewrite (proj1 (proj2 (Ex sc Hin))) in E.
    destruct B as [B|B]; [|exfalso; exact (B sc Hin E)].
    destruct (R sc Hin E) as [R1 [R2 [R3 [R4 R5]]]].
    rewrite Es, Et, EV, EC, (proj1 (Ex sc Hin)), B. repeat split; assumption.
  - intros FP sc Hin E1 E2. rewrite Es in Hin. destruct (Ex sc Hin) as [X1 [X2 X3]].
    rewrite X1, Ei, Ea. apply F; [congruence|exact Hin|congruence|congruence].
Qed.
Lemma W_veq s s' : veq s s' -> (bstate s' = bstate s \/ NR s) -> Wv s -> Wv s'.
Proof.
  intros V B [L C E]. split; [exact (L_veq s s' V B L)| |]; destruct V as [Es [Ex [Ea [Ei [Ef Et]]]]];
    pose proof (al_valid_eq s s' Ei Ea) as EV; pose proof (cur_addr_eq s s' Ei Ea) as EC.
  - intros T V. rewrite Et in T. rewrite EV in V. destruct (C T V) as [FP [sc [Hin [A R]]]].
    split; [congruence|]. exists sc. destruct (Ex sc Hin) as [X1 [X2 X3]]. rewrite Es, X1, X2, EC. repeat split; assumption.
  - intros FP V NE. rewrite Ef in FP. rewrite EV in V. rewrite Es in NE. destruct (E FP V NE) as [sc [Hin R]].
    exists sc. rewrite Es, (proj1 (proj2 (Ex sc Hin))). split; assumption.
Qed.

Lemma veq_refl s : veq s s.
Proof. repeat split. Qed.

Definition fr (s s' : st) : Prop :=
  subs s' = subs s /\ sds s' = sds s /\ addrs s' = addrs s /\ idx s' = idx s /\ timer s' = timer s /\ nsc s' = nsc s.
Lemma fr_update s v pk : fr s (fst (update_state s v pk)).
Proof. unfold update_state, force_state. destruct (_ && _); repeat split. Qed.
Lemma fr_veq s s' : fr s s' -> firstPass s' = firstPass s -> veq s s'.
Proof.
  intros [A [B [C [D [E _]]]]] F. unfold veq, ad, rw, fl. rewrite B. repeat split; assumption.
Qed.

Lemma firstn_invalid s : al_valid s = false -> firstn (idx s) (addrs s) = addrs s.
Proof. unfold al_valid. intros H. apply Nat.ltb_ge in H. apply firstn_all2. exact H. Qed.
Lemma firstn_S_in (l : list Z) : forall i a, In a (firstn (S i) l) -> In a (firstn i l) \/ a = nth i l (-1).
Proof.
  induction l as [|x r IH]; intros i a H; [destruct H|]. destruct i as [|i]; cbn [firstn nth] in *.
  - destruct H as [<-|[]]. right. reflexivity.
  - destruct H as [<-|H]; [left; left; reflexivity|]. destruct (IH i a H) as [X|X]; [left; right; exact X|right; exact X].
Qed.
Lemma cur_addr_valid s : al_valid s = true -> cur_addr s = nth (idx s) (addrs s) (-1) /\ In (cur_addr s) (addrs s).
Proof.
  intros V. unfold cur_addr. rewrite V. split; [reflexivity|]. apply nth_In. unfold al_valid in V. apply Nat.ltb_lt in V. exact V.
Qed.
Lemma forallb_false_ex {A} (p : A -> bool) l : forallb p l = false -> exists x, In x l /\ p x = false.
Proof.
  induction l as [|a r IH]; [discriminate|]. cbn [forallb]. destruct (p a) eqn:E.
  - intros H. destruct (IH H) as [x [Hx Px]]. exists x. split; [right; exact Hx|exact Px].
  - intros _. exists a. split; [left; reflexivity|exact E].
Qed.

(* endFirstPassIfPossibleLocked re-establishes the whole invariant *)
Lemma efp_W s : Lv s -> Cv s -> Wv (fst (end_first_pass s)).
Proof.
  intros L C. unfold end_first_pass. destruct (al_valid s) eqn:V.
  { split; [exact L|exact C|]. intros _ V'. cbn [fst] in V'. congruence. }
  destruct (forallb (fun sc => d_failed (sds s sc)) (subs s)) eqn:AF.
  - pose proof (fr_update (set_pass s false (numTF s)) TF (-1)) as [A [B [Ca [D [T _]]]]].
    pose proof (fp_update (set_pass s false (numTF s)) TF (-1)) as FP.
    destruct (update_state (set_pass s false (numTF s)) TF (-1)) as [s2 e]. cbn [fst] in *.
    cbn [subs sds addrs idx timer firstPass set_pass] in *.
    assert (V2 : al_valid (set_sticky s2 true) = false) by (rewrite <- V; apply al_valid_eq; assumption).
    destruct L as [LD LS LR LF]. split; [split| |].
    + unfold Dv, ad. cbn [subs sds set_sticky]. rewrite A, B. exact LD.
    + intros sc Hin. unfold ad in *. cbn [subs sds addrs set_sticky] in *. rewrite A in Hin. rewrite B, Ca. exact (LS sc Hin).
    + intros sc Hin E. unfold rw in E. cbn [subs sds set_sticky] in *. rewrite A in Hin. rewrite B in E.
      destruct (LR sc Hin E) as [_ [_ [X _]]]. congruence.
    + intros F. cbn in F. congruence.
    + intros _ X. congruence.
    + intros F. cbn in F. congruence.
  - split; [exact L|exact C|]. cbn [fst]. intros FP _ _.
    destruct (forallb_false_ex _ _ AF) as [x [Hx Px]]. exists x. split; [exact Hx|].
    intros E. destruct L as [LD LS LR LF]. apply (LF FP x Hx E Px). rewrite (firstn_invalid s V). exact (LS x Hx).
Qed.

Lemma NoDup_app_single (l : list Z) a : NoDup l -> ~ In a l -> NoDup (l ++ [a]).
Proof.
  induction l as [|x r IH]; intros ND N; cbn [app]; [constructor; [intros []|constructor]|].
  inversion ND as [|? ? Hn ND']; subst. constructor.
  - intros X. apply in_app_or in X. destruct X as [X|[<-|[]]]; [contradiction|]. apply N. left. reflexivity.
  - apply IH; [exact ND'|]. intros X. apply N. right. exact X.
Qed.

(* creating the sub-channel of the cursor's address *)
Definition create (s : st) : st :=
  set_subs (set_sds s (fupd (sds s) (nsc s) (fun _ => mksd (cur_addr s) IDLE IDLE false false)) (S (nsc s))) (subs s ++ [nsc s]).
Lemma create_view s x : Alive s -> In x (subs s) ->
  ad (create s) x = ad s x /\ rw (create s) x = rw s x /\ fl (create s) x = fl s x.
Proof.
  intros [A _] Hin. destruct (A x Hin) as [Hlt _]. unfold ad, rw, fl, create. cbn [sds set_subs set_sds]. unfold fupd.
  destruct (Nat.eqb_spec x (nsc s)); [lia|repeat split].
Qed.
Lemma create_new s : ad (create s) (nsc s) = cur_addr s /\ rw (create s) (nsc s) = IDLE.
Proof. unfold ad, rw, create. cbn [sds set_subs set_sds]. unfold fupd. rewrite Nat.eqb_refl. split; reflexivity. Qed.

Lemma create_L s : Alive s -> Lv s -> al_valid s = true -> lookup s (cur_addr s) = None -> Lv (create s).
Proof.
  intros A [LD LS LR LF] V LK. pose proof (lookup_none s _ LK) as NN. destruct (create_new s) as [N1 N2].
  assert (NRc : NR (create s)).
  { intros x Hin E. cbn [subs create set_subs] in Hin. apply in_app_or in Hin. destruct Hin as [Hin|[<-|[]]].
    - rewrite (proj1 (proj2 (create_view s x A Hin))) in E. destruct (LR x Hin E) as [_ [_ [_ [X _]]]]. exact (NN x Hin (eq_sym X)).
    - rewrite N2 in E. discriminate E. }
  split.
  - unfold Dv. cbn [subs create set_subs]. fold (create s). rewrite map_app. cbn [map]. rewrite N1.
    rewrite (map_ext_in _ (ad s)) by (intros x Hx; exact (proj1 (create_view s x A Hx))).
    apply NoDup_app_single; [exact LD|]. intros X. apply in_map_iff in X. destruct X as [x [E Hx]]. exact (NN x Hx E).
  - intros x Hin. cbn [subs create set_subs] in Hin. change (addrs (create s)) with (addrs s).
    apply in_app_or in Hin. destruct Hin as [Hin|[<-|[]]].
    + rewrite (proj1 (create_view s x A Hin)). exact (LS x Hin).
    + rewrite N1. exact (proj2 (cur_addr_valid s V)).
  - apply NR_Rv. exact NRc.
  - intros FP x Hin E1 E2. cbn [subs create set_subs] in Hin. change (idx (create s)) with (idx s). change (addrs (create s)) with (addrs s).
    apply in_app_or in Hin. destruct Hin as [Hin|[<-|[]]].
    + destruct (create_view s x A Hin) as [X1 [X2 X3]]. rewrite X1. apply (LF FP x Hin); congruence.
    + rewrite N2 in E1. discriminate E1.
Qed.

(* transfer of the loop invariant when no sub-channel is READY (timer and bstate are free) *)
Lemma L_NR s s' : subs s' = subs s -> (forall x, In x (subs s) -> ad s' x = ad s x /\ rw s' x = rw s x /\ fl s' x = fl s x) ->
  addrs s' = addrs s -> idx s' = idx s -> firstPass s' = firstPass s -> NR s -> Lv s -> Lv s'.
Proof.
  intros Es Ex Ea Ei Ef N [D S R F]. split.
  - unfold Dv. rewrite (map_ad_eq s s' Es (fun x H => proj1 (Ex x H))). exact D.
  - intros sc Hin. rewrite Es in Hin. rewrite Ea, (proj1 (Ex sc Hin)). exact (S sc Hin).
  - apply NR_Rv. intros sc Hin E. rewrite Es in Hin. rewrite (proj1 (proj2 (Ex sc Hin))) in E. exact (N sc Hin E).
  - intros FP sc Hin E1 E2. rewrite Es in Hin. destruct (Ex sc Hin) as [X1 [X2 X3]].
    rewrite X1, Ei, Ea. apply F; [congruence|exact Hin|congruence|congruence].
Qed.

Lemma upd_failed_view s sc b x :
  ad (upd_sd s sc (d_set_failed b)) x = ad s x /\ rw (upd_sd s sc (d_set_failed b)) x = rw s x /\
  fl (upd_sd s sc (d_set_failed b)) x = if Nat.eqb x sc then b else fl s x.
Proof. unfold ad, rw, fl, upd_sd. cbn [sds set_sds]. unfold fupd. destruct (Nat.eqb x sc); repeat split. Qed.

Lemma NR_of s sc : Rv s -> In sc (subs s) -> rw s sc <> READY -> NR s.
Proof. intros R Hin N x Hx E. apply N. rewrite <- (Rv_other s sc x R Hin Hx E). exact E. Qed.

Lemma sched_cases s : schedule_next s = set_timer (cancel_timer s) true \/ schedule_next s = cancel_timer s.
Proof. unfold schedule_next. destruct (al_has_next _); [left|right]; reflexivity. Qed.

Lemma sched_W s sc : Lv s -> firstPass s = true -> al_valid s = true -> In sc (subs s) -> ad s sc = cur_addr s ->
  rw s sc <> READY -> rw s sc <> TF -> Wv (schedule_next s).
Proof.
  intros L FP V Hin Had N1 N2. pose proof (NR_of s sc (lR s L) Hin N1) as N.
  assert (G : forall b, Wv (set_timer s b)).
  { intros b. split.
    - apply (L_NR s); try reflexivity; [intros x _; repeat split|exact N|exact L].
    - intros _ _. split; [exact FP|]. exists sc. repeat split; assumption.
    - intros _ V'. change (al_valid (set_timer s b)) with (al_valid s) in V'. congruence. }
  destruct (sched_cases s) as [E|E]; rewrite E; apply G.
Qed.

Lemma req_W fuel : forall s, Alive s -> Lv s -> firstPass s = true -> al_valid s = true ->
  (length (addrs s) - idx s < fuel)%nat -> Wv (fst (req_loop fuel s)).
Proof.
  induction fuel as [|f IH]; intros s A L FP V M; [lia|]. cbn [req_loop].
  assert (G : forall s1 sc e1, Alive s1 -> Lv s1 -> firstPass s1 = true -> al_valid s1 = true ->
    idx s1 = idx s -> addrs s1 = addrs s -> In sc (subs s1) -> ad s1 sc = cur_addr s1 ->
    Wv (fst (if d_raw (sds s1 sc) =? IDLE then (schedule_next s1, e1 ++ [evC sc])
     else if d_raw (sds s1 sc) =? TF
          then let '(s3, more) := al_increment (upd_sd s1 sc (d_set_failed true)) in
               if more then let '(s4, e4) := req_loop f s3 in (s4, e1 ++ e4)
               else let '(s4, e4) := end_first_pass s3 in (s4, e1 ++ e4)
          else if d_raw (sds s1 sc) =? CONNECTING then (schedule_next s1, e1) else (s1, e1)))).
  { intros s1 sc e1 A1 L1 FP1 V1 I1 AD1 Hin Had. fold (rw s1 sc).
    destruct (Z.eqb_spec (rw s1 sc) IDLE) as [E0|N0].
    { cbn [fst]. apply (sched_W s1 sc); try assumption; rewrite E0; discriminate. }
    destruct (Z.eqb_spec (rw s1 sc) TF) as [E3|N3].
    { set (s2 := upd_sd s1 sc (d_set_failed true)).
      assert (A2 : Alive s2) by (eapply Alive_same; [apply sa_upd; reflexivity|exact A1]).
      unfold al_increment. change (al_valid s2) with (al_valid s1). rewrite V1.
      set (s3 := set_list s2 (addrs s2) (S (idx s2))).
      assert (A3 : Alive s3) by (eapply Alive_same; [apply sa_list|exact A2]).
      assert (N1 : NR s1) by (apply (NR_of s1 sc (lR s1 L1) Hin); rewrite E3; discriminate).
      assert (L3 : Lv s3).
      { destruct L1 as [LD LS LR LF]. split.
        - unfold Dv. change (subs s3) with (subs s1).
          rewrite (map_ext _ (ad s1)) by (intros x; exact (proj1 (upd_failed_view s1 sc true x))). exact LD.
        - intros x Hx. change (subs s3) with (subs s1) in Hx. change (addrs s3) with (addrs s1).
          change (ad s3 x) with (ad s2 x). unfold s2. rewrite (proj1 (upd_failed_view s1 sc true x)). exact (LS x Hx).
        - apply NR_Rv. intros x Hx E. change (subs s3) with (subs s1) in Hx. change (rw s3 x) with (rw s2 x) in E.
          unfold s2 in E. rewrite (proj1 (proj2 (upd_failed_view s1 sc true x))) in E. exact (N1 x Hx E).
        - intros _ x Hx E1 E2. change (subs s3) with (subs s1) in Hx. change (idx s3) with (S (idx s1)). change (addrs s3) with (addrs s1).
          change (rw s3 x) with (rw s2 x) in E1. change (fl s3 x) with (fl s2 x) in E2. change (ad s3 x) with (ad s2 x).
          unfold s2 in *. destruct (upd_failed_view s1 sc true x) as [X1 [X2 X3]]. rewrite X1. rewrite X2 in E1. rewrite X3 in E2.
          destruct (Nat.eqb_spec x sc) as [->|NE]; [discriminate E2|].
          intros X. apply firstn_S_in in X. destruct X as [X|X]; [exact (LF FP1 x Hx E1 E2 X)|].
          rewrite <- (proj1 (cur_addr_valid s1 V1)), <- Had in X.
          apply NE. pose proof (lookup_D s1 x LD Hx) as K1. rewrite X in K1. rewrite (lookup_D s1 sc LD Hin) in K1. congruence. }
      destruct (al_valid s3) eqn:V3.
      - assert (W4 : Wv (fst (req_loop f s3))).
        { apply IH; try assumption; try exact FP1. change (addrs s3) with (addrs s1). change (idx s3) with (S (idx s1)).
          rewrite AD1, I1. unfold al_valid in V. apply Nat.ltb_lt in V. lia. }
        destruct (req_loop f s3). exact W4.
      - assert (W4 : Wv (fst (end_first_pass s3))).
        { apply efp_W; [exact L3|]. intros _ X. congruence. }
        destruct (end_first_pass s3). exact W4. }
    assert (DEF : Wv s1).
    { split; [exact L1| |].
      - intros _ _. split; [exact FP1|]. exists sc. repeat split; assumption.
      - intros _ X. congruence. }
    destruct (Z.eqb_spec (rw s1 sc) CONNECTING) as [E1|N1]; cbn [fst]; [|exact DEF].
    apply (sched_W s1 sc); try assumption; rewrite E1; discriminate. }
  destruct (lookup s (cur_addr s)) as [sc|] eqn:LK.
  - destruct (lookup_some s _ sc LK) as [Hin Had]. apply (G s sc []); try assumption; reflexivity.
  - fold (create s). destruct (create_new s) as [N1 N2].
    apply (G (create s) (nsc s) [evN (nsc s) (cur_addr s)]); try reflexivity; try assumption.
    + apply Alive_create. exact A.
    + apply create_L; assumption.
    + cbn. apply in_or_app. right. left. reflexivity.
Qed.

Definition base (s : st) : Prop := Dv s /\ Sv s /\ NR s.
Lemma base_eq s s' : subs s' = subs s -> sds s' = sds s -> addrs s' = addrs s -> base s -> base s'.
Proof. intros A B C [D [S N]]. unfold base, Dv, Sv, NR, ad, rw in *. rewrite A, B, C. repeat split; assumption. Qed.

Lemma request_W s : Alive s -> Lv s -> firstPass s = true -> al_valid s = true -> Wv (fst (request_connection s)).
Proof.
  intros A L FP V. unfold request_connection. rewrite V. apply req_W; try assumption. lia.
Qed.

Lemma start_W s : Alive s -> base s -> idx s = O -> Wv (fst (start_first_pass s)).
Proof.
  intros A [D [S N]] I0. unfold start_first_pass.
  set (s2 := set_sds _ _ _).
  assert (A2 : Alive s2).
  { eapply Alive_same; [|exact A]. unfold s2. sa. intros sc. destruct (existsb _ _); reflexivity. }
  assert (VW : forall x, ad s2 x = ad s x /\ rw s2 x = rw s x).
  { intros x. unfold s2, ad, rw. cbn [sds set_sds set_mid set_pass subs]. destruct (existsb _ _); split; reflexivity. }
  assert (L2 : Lv s2).
  { split.
    - unfold Dv. change (subs s2) with (subs s). rewrite (map_ext _ (ad s)) by (intros x; exact (proj1 (VW x))). exact D.
    - intros x Hx. change (subs s2) with (subs s) in Hx. change (addrs s2) with (addrs s). rewrite (proj1 (VW x)). exact (S x Hx).
    - apply NR_Rv. intros x Hx E. change (subs s2) with (subs s) in Hx. rewrite (proj2 (VW x)) in E. exact (N x Hx E).
    - intros _ x _ _ _. change (idx s2) with (idx s). rewrite I0. cbn. intros []. }
  destruct (al_valid s2) eqn:V2; [apply request_W; try assumption; reflexivity|].
  unfold request_connection. rewrite V2. cbn [fst]. split; [exact L2| |].
  - intros _ X. congruence.
  - intros _ _ NE. exfalso. unfold al_valid in V2. change (idx s2) with (idx s) in V2. change (addrs s2) with (addrs s) in V2.
    rewrite I0 in V2. apply Nat.ltb_ge in V2. change (subs s2) with (subs s) in NE.
    destruct (subs s) as [|x r] eqn:SB; [apply NE; reflexivity|]. specialize (S x). rewrite SB in S. specialize (S (or_introl eq_refl)).
    destruct (addrs s); [exact S|cbn in V2; lia].
Qed.

Lemma timer_NR s : Rv s -> timer s = true -> NR s.
Proof. intros R T x Hx E. destruct (R x Hx E) as [_ [X _]]. congruence. Qed.

Lemma timer_W s : Alive s -> Wv s -> Wv (fst (timer_fire s)).
Proof.
  intros A W. unfold timer_fire. destruct (timer s) eqn:T; [|exact W].
  destruct W as [L C E]. pose proof (timer_NR s (lR s L) T) as N.
  set (s1 := set_timer s false).
  assert (A1 : Alive s1) by (eapply Alive_same; [apply sa_timer|exact A]).
  assert (L1 : Lv s1) by (apply (L_NR s); try reflexivity; [intros x _; repeat split|exact N|exact L]).
  unfold al_increment. destruct (al_valid s1) eqn:V1.
  - change (al_valid s1) with (al_valid s) in V1. destruct (C T V1) as [FP [x0 [H0 [Ad0 R0]]]].
    set (s2 := set_list s1 (addrs s1) (S (idx s1))).
    assert (A2 : Alive s2) by (eapply Alive_same; [apply sa_list|exact A1]).
    assert (L2 : Lv s2).
    { destruct L as [LD LS LR LF]. split.
      - exact LD.
      - exact LS.
      - apply NR_Rv. exact N.
      - intros _ x Hx E1 E2. change (idx s2) with (S (idx s)). change (addrs s2) with (addrs s).
        intros X. apply firstn_S_in in X. destruct X as [X|X]; [exact (LF FP x Hx E1 E2 X)|].
        change (ad s2 x) with (ad s x) in X. rewrite <- (proj1 (cur_addr_valid s V1)), <- Ad0 in X.
        pose proof (lookup_D s x LD Hx) as K1. rewrite X in K1. rewrite (lookup_D s x0 LD H0) in K1.
        assert (x0 = x) by congruence. subst x0. exact (R0 E1). }
    destruct (al_valid s2) eqn:V2; [apply request_W; try assumption; exact FP|].
    cbn [fst]. split; [exact L2|intros X; discriminate X|].
    intros _ _ _. exists x0. split; [exact H0|exact R0].
  - cbn [fst]. split; [exact L1|intros X; discriminate X|].
    intros FP V NE. exact (E FP V NE).
Qed.

Lemma exit_idle_W s : Alive s -> Wv s -> Wv (fst (exit_idle s)).
Proof.
  intros A W. unfold exit_idle. destruct (Z.eqb_spec (bstate s) IDLE) as [B|B]; [|exact W].
  destruct W as [[LD LS LR LF] C E].
  assert (N : NR s) by (intros x Hx X; destruct (LR x Hx X) as [_ [_ [_ [_ Y]]]]; rewrite B in Y; discriminate Y).
  pose proof (fr_update s CONNECTING (-1)) as [F1 [F2 [F3 [F4 [F5 F6]]]]].
  pose proof (Alive_same _ _ (sa_update s CONNECTING (-1)) A) as A1.
  destruct (update_state s CONNECTING (-1)) as [s1 e1]. cbn [fst] in *.
  assert (W2 : Wv (fst (start_first_pass (set_list s1 (addrs s1) 0)))).
  { apply start_W; [eapply Alive_same; [apply sa_list|exact A1]| |reflexivity].
    apply (base_eq s); [exact F1|exact F2|exact F3|]. repeat split; assumption. }
  destruct (start_first_pass (set_list s1 (addrs s1) 0)). exact W2.
Qed.

Lemma resolver_error_W s : Wv s -> Wv (fst (resolver_error s)).
Proof.
  intros W. unfold resolver_error.
  destruct (negb (bstate s =? TF) && (0 <? length (addrs s))%nat) eqn:CND; [exact W|].
  apply (W_veq s); [apply fr_veq; [apply fr_update|apply fp_update]| |exact W].
  right. intros x Hx X. destruct (lR s (wL s W) x Hx X) as [_ [_ [V [_ Bs]]]].
  rewrite Bs in CND. unfold al_valid in V. apply Nat.ltb_lt in V.
  replace (0 <? length (addrs s))%nat with true in CND by (symmetry; apply Nat.ltb_lt; lia). discriminate CND.
Qed.

Lemma index_of_spec a l : forall i, index_of a l = Some i -> (i < length l)%nat /\ nth i l (-1) = a.
Proof.
  induction l as [|x r IH]; intros i H; [discriminate H|]. cbn [index_of] in H.
  destruct (Z.eqb_spec x a) as [->|N]; [inversion H; subst; split; [cbn; lia|reflexivity]|].
  destruct (index_of a r) as [j|]; [|discriminate H]. inversion H; subst. destruct (IH j eq_refl) as [X Y].
  split; [cbn; lia|exact Y].
Qed.
Lemma index_of_none a l : index_of a l = None -> ~ In a l.
Proof.
  induction l as [|x r IH]; intros H; [intros []|]. cbn [index_of] in H.
  destruct (Z.eqb_spec x a) as [->|N]; [discriminate H|].
  destruct (index_of a r) as [j|]; [discriminate H|]. intros [X|X]; [contradiction|exact (IH eq_refl X)].
Qed.
Lemma NoDup_map_filter (f : nat -> Z) (p : nat -> bool) l : NoDup (map f l) -> NoDup (map f (filter p l)).
Proof.
  induction l as [|a r IH]; intros H; [constructor|]. cbn [map] in H. inversion H as [|? ? Hn ND]; subst.
  cbn [filter]. destruct (p a); [|exact (IH ND)]. cbn [map]. constructor; [|exact (IH ND)].
  intros X. apply Hn. apply in_map_iff in X. destruct X as [x [E Hx]]. apply filter_In in Hx. rewrite <- E. apply in_map. exact (proj1 Hx).
Qed.

(* a state with the cursor at the start, no timer, a non-empty list, no READY sub-channel *)
Lemma W_fresh s : base s -> idx s = O -> timer s = false -> addrs s <> [] -> Wv s.
Proof.
  intros [D [S N]] I0 T NE. split; [split; [exact D|exact S|apply NR_Rv; exact N|]| |].
  - intros _ x _ _ _. rewrite I0. cbn. intros [].
  - intros X. congruence.
  - intros _ V. unfold al_valid in V. rewrite I0 in V. apply Nat.ltb_ge in V. destruct (addrs s); [congruence|cbn in V; lia].
Qed.

Lemma shut_view s l x : ad (fst (shutdown_all s l)) x = ad s x /\ rw (fst (shutdown_all s l)) x = rw s x /\ fl (fst (shutdown_all s l)) x = fl s x.
Proof. unfold ad, rw, fl, shutdown_all. cbn [fst sds set_sds]. destruct (existsb _ _); repeat split. Qed.

Lemma prev_ready_false s : Wv s ->
  match lookup s (cur_addr s) with Some sc => d_raw (sds s sc) =? READY | None => false end = false -> NR s.
Proof.
  intros W H x Hx E. destruct (lR s (wL s W) x Hx E) as [_ [_ [_ [Ca _]]]].
  rewrite Ca, (lookup_D s x (lD s (wL s W)) Hx) in H. fold (rw s x) in H. rewrite E in H. discriminate H.
Qed.
Lemma prev_ready_true s : Wv s ->
  match lookup s (cur_addr s) with Some sc => d_raw (sds s sc) =? READY | None => false end = true ->
  exists x, subs s = [x] /\ rw s x = READY /\ ad s x = cur_addr s /\ bstate s = READY.
Proof.
  intros W H. destruct (lookup s (cur_addr s)) as [x|] eqn:LK; [|discriminate H]. apply Z.eqb_eq in H.
  destruct (lookup_some s _ x LK) as [Hx Ad]. destruct (lR s (wL s W) x Hx H) as [Sb [_ [_ [_ Bs]]]].
  exists x. repeat split; assumption.
Qed.

Lemma resolver_update_W s l0 : Alive s -> Wv s -> Wv (fst (resolver_update s l0)).
Proof.
  intros A W. unfold resolver_update.
  pose proof (Alive_same _ _ (sa_timer s false) A) as A0. fold (cancel_timer s) in A0.
  destruct (filter valid_addr l0) as [|a l1] eqn:FL.
  - cbn [shutdown_all].
    match goal with |- context [resolver_error ?x] => assert (WX : Wv x); [|pose proof (resolver_error_W x WX) as Y; destruct (resolver_error x); exact Y] end.
    split; [split| |].
    + constructor.
    + intros x [].
    + intros x [].
    + intros _ x [].
    + intros X. discriminate X.
    + intros _ _ NE. exfalso. apply NE. reflexivity.
  - set (l' := preprocess (a :: l1)). set (s1 := set_list (cancel_timer s) l' 0).
    assert (NE' : l' <> []) by (unfold l'; destruct (preprocess_head a l1) as [r ->]; discriminate).
    assert (A1 : Alive s1) by (exact (Alive_same _ _ (sa_list _ _ _) A0)).
    set (gone := filter (fun sc => negb (memz (d_addr (sds s1 sc)) l')) (subs s1)).
    set (keep := filter (fun sc => memz (d_addr (sds s1 sc)) l') (subs s1)).
    assert (A3 : Alive (set_subs (fst (shutdown_all s1 gone)) keep)).
    { apply (Alive_shutdown s1 _ _ A1).
      - intros sc H. destruct (memz (d_addr (sds s1 sc)) l') eqn:M; [right|left]; apply filter_In; split; try assumption.
        rewrite M. reflexivity.
      - intros sc H. apply filter_In in H. destruct H as [H M]. split; [exact H|]. intros F. apply filter_In in F.
        destruct F as [_ F]. rewrite M in F. discriminate. }
    assert (G : forall (pr : bool) sk (kept : bool), (kept = true -> Wv sk) ->
       (kept = false -> base (set_subs (fst (shutdown_all s1 gone)) keep)) -> Wv (fst (
       if kept then (sk, [[12; 0]])
       else let '(s2, e2) := shutdown_all s1 gone in
            let s3 := set_subs s2 keep in
            if pr || (bstate s3 =? CONNECTING) || (length (addrs (cancel_timer s)) =? 0)%nat
            then let '(s4, e4) := force_state s3 CONNECTING (-1) in
                 let '(s5, e5) := start_first_pass s4 in (s5, e2 ++ e4 ++ e5 ++ [[12; 0]])
            else if bstate s3 =? TF then let '(s5, e5) := start_first_pass s3 in (s5, e2 ++ e5 ++ [[12; 0]])
                 else (s3, e2 ++ [[12; 0]])))).
    { intros pr sk kept HK HB. destruct kept; [exact (HK eq_refl)|]. specialize (HB eq_refl).
      cbn [shutdown_all] in *. cbv beta iota zeta.
      match goal with |- context [if ?c then _ else _] => destruct c end.
      - unfold force_state.
        match goal with |- context [start_first_pass ?x] =>
          assert (WX : Wv (fst (start_first_pass x)));
          [apply start_W; [exact (Alive_same _ _ (sa_force _ CONNECTING (-1)) A3)|exact HB|reflexivity]
          |destruct (start_first_pass x); exact WX] end.
      - match goal with |- context [if ?c then _ else _] => destruct c end.
        + match goal with |- context [start_first_pass ?x] =>
            assert (WX : Wv (fst (start_first_pass x)));
            [apply start_W; [exact A3|exact HB|reflexivity]|destruct (start_first_pass x); exact WX] end.
        + cbn [fst]. apply W_fresh; [exact HB|reflexivity|reflexivity|exact NE']. }
    (* base of the reconciled state, given that no kept sub-channel is READY *)
    assert (HB : (forall x, In x keep -> rw s x <> READY) -> base (set_subs (fst (shutdown_all s1 gone)) keep)).
    { intros NK. destruct W as [[LD LS LR LF] C E]. repeat split.
      - unfold Dv. cbn [subs set_subs]. rewrite (map_ext _ (ad s)) by (intros x; exact (proj1 (shut_view s1 gone x))).
        apply NoDup_map_filter. exact LD.
      - intros x Hx. cbn [subs set_subs] in Hx. change (ad _ x) with (ad (fst (shutdown_all s1 gone)) x).
        rewrite (proj1 (shut_view s1 gone x)). apply filter_In in Hx. destruct Hx as [_ Hx]. apply memz_In in Hx. exact Hx.
      - intros x Hx. cbn [subs set_subs] in Hx. change (rw _ x) with (rw (fst (shutdown_all s1 gone)) x).
        rewrite (proj1 (proj2 (shut_view s1 gone x))). exact (NK x Hx). }
    destruct (match lookup (cancel_timer s) (cur_addr (cancel_timer s)) with
              | Some sc => d_raw (sds (cancel_timer s) sc) =? READY | None => false end) eqn:PR.
    + destruct (prev_ready_true s W PR) as [x [Sb [Rx [Ax Bx]]]].
      unfold al_seek. change (addrs s1) with l'. change (cur_addr (cancel_timer s)) with (cur_addr s).
      destruct (index_of (cur_addr s) l') as [i|] eqn:IO.
      * apply (G true _ true); [intros _|discriminate].
        destruct (index_of_spec _ _ _ IO) as [Hlt Hn].
        assert (V : al_valid (set_list s1 l' i) = true) by (unfold al_valid; change ((i <? length l')%nat = true); apply Nat.ltb_lt; exact Hlt).
        assert (CA : cur_addr (set_list s1 l' i) = ad s x) by (unfold cur_addr; rewrite V; change (nth i l' (-1) = ad s x); rewrite Hn; symmetry; exact Ax).
        split; [split| |].
        -- unfold Dv. cbn. rewrite Sb. cbn. constructor; [intros []|constructor].
        -- intros y Hy. cbn in Hy. rewrite Sb in Hy. destruct Hy as [<-|[]]. cbn [addrs set_list]. change (ad _ x) with (ad s x).
           rewrite Ax, <- Hn. apply nth_In. exact Hlt.
        -- intros y Hy _. cbn in Hy. rewrite Sb in Hy. destruct Hy as [<-|[]]. repeat split; assumption.
        -- intros _ y Hy E1. cbn in Hy. rewrite Sb in Hy. destruct Hy as [<-|[]]. change (rw _ x) with (rw s x) in E1. rewrite Rx in E1. discriminate E1.
        -- intros X. discriminate X.
        -- intros _ X. congruence.
      * apply (G true s1 false); [discriminate|intros _]. apply HB. intros y Hy.
        apply filter_In in Hy. destruct Hy as [Hy M]. change (subs s1) with (subs s) in Hy. rewrite Sb in Hy. destruct Hy as [<-|[]].
        exfalso. apply (index_of_none _ _ IO). apply memz_In in M. change (d_addr (sds s1 x)) with (ad s x) in M. rewrite <- Ax. exact M.
    + apply (G false s1 false); [discriminate|intros _]. apply HB. intros y Hy. apply filter_In in Hy. destruct Hy as [Hy _].
      exact (prev_ready_false s W PR y Hy).
Qed.

Lemma raw_view s sc v x :
  ad (upd_sd s sc (d_set_raw v)) x = ad s x /\ fl (upd_sd s sc (d_set_raw v)) x = fl s x /\
  rw (upd_sd s sc (d_set_raw v)) x = if Nat.eqb x sc then v else rw s x.
Proof. unfold ad, rw, fl, upd_sd. cbn [sds set_sds]. unfold fupd. destruct (Nat.eqb x sc); repeat split. Qed.
Lemma eff_view s sc v x :
  ad (upd_sd s sc (d_set_eff v)) x = ad s x /\ fl (upd_sd s sc (d_set_eff v)) x = fl s x /\ rw (upd_sd s sc (d_set_eff v)) x = rw s x.
Proof. unfold ad, rw, fl, upd_sd. cbn [sds set_sds]. unfold fupd. destruct (Nat.eqb x sc); repeat split. Qed.

(* the latest state of an active sub-channel changes to v, neither READY nor TF *)
Lemma W_raw s X sc v : Wv s -> In sc (subs s) -> v <> READY -> v <> TF -> subs X = subs s ->
  (forall x, ad X x = ad s x /\ fl X x = fl s x /\ rw X x = if Nat.eqb x sc then v else rw s x) ->
  addrs X = addrs s -> idx X = idx s -> firstPass X = firstPass s -> timer X = timer s -> Wv X /\ NR X.
Proof.
  intros [[LD LS LR LF] C E] Hin N1 N2 Es Ex Ea Ei Ef Et.
  pose proof (al_valid_eq s X Ei Ea) as EV. pose proof (cur_addr_eq s X Ei Ea) as EC.
  assert (RW : forall x, rw s x <> TF -> rw X x <> TF).
  { intros x H. rewrite (proj2 (proj2 (Ex x))). destruct (Nat.eqb x sc); assumption. }
  assert (N : NR X).
  { intros x Hx E0. rewrite Es in Hx. rewrite (proj2 (proj2 (Ex x))) in E0. destruct (Nat.eqb_spec x sc) as [->|NE]; [contradiction|].
    apply NE. exact (Rv_other s sc x LR Hin Hx E0). }
  split; [|exact N]. split; [split| |].
  - unfold Dv. rewrite Es, (map_ext _ (ad s)) by (intros x; exact (proj1 (Ex x))). exact LD.
  - intros x Hx. rewrite Es in Hx. rewrite Ea, (proj1 (Ex x)). exact (LS x Hx).
  - apply NR_Rv. exact N.
  - intros FP x Hx E1 E2. rewrite Es in Hx. destruct (Ex x) as [X1 [X2 X3]]. rewrite X3 in E1.
    destruct (Nat.eqb x sc); [contradiction|]. rewrite X1, Ei, Ea. apply LF; congruence.
  - intros T V. rewrite Et in T. rewrite EV in V. destruct (C T V) as [FP [x0 [H0 [A0 R0]]]]. split; [congruence|].
    exists x0. rewrite Es, (proj1 (Ex x0)), EC. repeat split; try assumption. exact (RW x0 R0).
  - intros FP V NE. rewrite Ef in FP. rewrite EV in V. rewrite Es in NE. destruct (E FP V NE) as [x0 [H0 R0]].
    exists x0. rewrite Es. split; [exact H0|exact (RW x0 R0)].
Qed.

(* an active sub-channel reports TF and is marked as failed *)
Lemma tf_L s X sc : Wv s -> In sc (subs s) -> subs X = subs s ->
  (forall x, ad X x = ad s x /\ rw X x = (if Nat.eqb x sc then TF else rw s x) /\ fl X x = (if Nat.eqb x sc then true else fl s x)) ->
  addrs X = addrs s -> idx X = idx s -> firstPass X = firstPass s -> Lv X /\ NR X.
Proof.
  intros [[LD LS LR LF] C E] Hin Es Ex Ea Ei Ef.
  assert (N : NR X).
  { intros x Hx E0. rewrite Es in Hx. rewrite (proj1 (proj2 (Ex x))) in E0. destruct (Nat.eqb_spec x sc) as [->|NE]; [discriminate E0|].
    apply NE. exact (Rv_other s sc x LR Hin Hx E0). }
  split; [|exact N]. split.
  - unfold Dv. rewrite Es, (map_ext _ (ad s)) by (intros x; exact (proj1 (Ex x))). exact LD.
  - intros x Hx. rewrite Es in Hx. rewrite Ea, (proj1 (Ex x)). exact (LS x Hx).
  - apply NR_Rv. exact N.
  - intros FP x Hx E1 E2. rewrite Es in Hx. destruct (Ex x) as [X1 [X2 X3]]. rewrite X2 in E1. rewrite X3 in E2.
    destruct (Nat.eqb x sc); [discriminate E2|]. rewrite X1, Ei, Ea. apply LF; congruence.
Qed.

(* the cursor moves past an address whose sub-channel is not an unmarked TF one *)
Lemma incr_L X : Lv X -> NR X -> al_valid X = true ->
  (forall x, In x (subs X) -> ad X x = cur_addr X -> rw X x = TF -> fl X x = false -> False) ->
  Lv (set_list X (addrs X) (S (idx X))).
Proof.
  intros [LD LS LR LF] N V H. split; [exact LD|exact LS|apply NR_Rv; exact N|].
  intros FP x Hx E1 E2 Y. change (idx (set_list X (addrs X) (S (idx X)))) with (S (idx X)) in Y.
  change (addrs (set_list X (addrs X) (S (idx X)))) with (addrs X) in Y. change (ad _ x) with (ad X x) in Y.
  apply firstn_S_in in Y. destruct Y as [Y|Y]; [exact (LF FP x Hx E1 E2 Y)|].
  apply (H x Hx); [rewrite (proj1 (cur_addr_valid X V)); exact Y|exact E1|exact E2].
Qed.

Lemma W_single s x : subs s = [x] -> In (ad s x) (addrs s) -> timer s = false ->
  (rw s x = READY -> al_valid s = true /\ cur_addr s = ad s x /\ bstate s = READY) ->
  (rw s x <> READY -> idx s = O) -> Wv s.
Proof.
  intros Sb Hin T HR HN.
  assert (D : Dv s) by (unfold Dv; rewrite Sb; cbn; constructor; [intros []|constructor]).
  assert (S : Sv s) by (intros y Hy; rewrite Sb in Hy; destruct Hy as [<-|[]]; exact Hin).
  destruct (Z.eq_dec (rw s x) READY) as [E|NE].
  - destruct (HR E) as [V [CA B]]. split; [split; [exact D|exact S| |]| |].
    + intros y Hy _. rewrite Sb in Hy. destruct Hy as [<-|[]]. repeat split; assumption.
    + intros _ y Hy E1. rewrite Sb in Hy. destruct Hy as [<-|[]]. rewrite E in E1. discriminate E1.
    + intros X. congruence.
    + intros _ X. congruence.
  - apply W_fresh; [repeat split; [exact D|exact S|]|exact (HN NE)|exact T|destruct (addrs s); [destruct Hin|discriminate]].
    intros y Hy. rewrite Sb in Hy. destruct Hy as [<-|[]]. exact NE.
Qed.

Lemma shutrem_view s sc x :
  subs (fst (shutdown_remaining s sc)) = [sc] /\ timer (fst (shutdown_remaining s sc)) = false /\
  addrs (fst (shutdown_remaining s sc)) = addrs s /\ idx (fst (shutdown_remaining s sc)) = idx s /\
  firstPass (fst (shutdown_remaining s sc)) = firstPass s /\ bstate (fst (shutdown_remaining s sc)) = bstate s /\
  ad (fst (shutdown_remaining s sc)) x = ad s x /\ rw (fst (shutdown_remaining s sc)) x = rw s x /\ fl (fst (shutdown_remaining s sc)) x = fl s x.
Proof.
  unfold shutdown_remaining. cbn [shutdown_all fst]. unfold ad, rw, fl. cbn [subs timer addrs idx firstPass bstate sds set_subs set_sds cancel_timer set_timer].
  destruct (existsb _ _); repeat split.
Qed.

Lemma sds_eq_view s s' x : sds s' = sds s -> ad s' x = ad s x /\ rw s' x = rw s x /\ fl s' x = fl s x.
Proof. intros E. unfold ad, rw, fl. rewrite E. repeat split. Qed.

Lemma idle_branch_W s2 sc v : In (ad s2 sc) (addrs s2) -> v <> READY -> rw s2 sc = v ->
  Wv (fst (let '(s3, e3) := shutdown_remaining s2 sc in
           let s4 := set_list (upd_sd s3 sc (d_set_eff v)) (addrs s3) O in
           let '(s5, e5) := update_state s4 IDLE (-1) in (s5, e3 ++ e5))).
Proof.
  intros Hin NV RW.
  destruct (shutrem_view s2 sc sc) as [V1 [V2 [V3 [V4 [V5 [V6 [V7 [V8 V9]]]]]]]].
  destruct (shutdown_remaining s2 sc) as [s3 e3]. cbn [fst] in *.
  set (s4 := set_list (upd_sd s3 sc (d_set_eff v)) (addrs s3) 0).
  pose proof (fr_update s4 IDLE (-1)) as [F1 [F2 [F3 [F4 [F5 F6]]]]].
  destruct (update_state s4 IDLE (-1)) as [s5 e5]. cbn [fst] in *.
  destruct (eff_view s3 sc v sc) as [X1 [X2 X3]].
  destruct (sds_eq_view s4 s5 sc F2) as [Y1 [Y2 _]].
  change (ad s4 sc) with (ad (upd_sd s3 sc (d_set_eff v)) sc) in Y1. change (rw s4 sc) with (rw (upd_sd s3 sc (d_set_eff v)) sc) in Y2.
  assert (AD : ad s5 sc = ad s2 sc) by congruence.
  assert (RW5 : rw s5 sc = v) by congruence.
  apply (W_single s5 sc).
  - rewrite F1. exact V1.
  - rewrite AD, F3. change (addrs s4) with (addrs s3). rewrite V3. exact Hin.
  - rewrite F5. exact V2.
  - intros E. congruence.
  - intros _. rewrite F4. reflexivity.
Qed.

Lemma ready_branch_W s2 sc : In (ad s2 sc) (addrs s2) -> rw s2 sc = READY ->
  Wv (fst (let '(s3, e3) := shutdown_remaining s2 sc in
           let '(s4, found) := al_seek s3 (d_addr (sds s3 sc)) in
           if negb found then (s4, e3)
           else let '(s5, e5) := update_state (upd_sd s4 sc (d_set_eff READY)) READY (zn sc) in (s5, e3 ++ e5))).
Proof.
  intros Hin RW.
  destruct (shutrem_view s2 sc sc) as [V1 [V2 [V3 [V4 [V5 [V6 [V7 [V8 V9]]]]]]]].
  destruct (shutdown_remaining s2 sc) as [s3 e3]. cbn [fst] in *.
  unfold al_seek. fold (ad s3 sc). rewrite V7, V3.
  destruct (index_of (ad s2 sc) (addrs s2)) as [i|] eqn:IO; [|exfalso; exact (index_of_none _ _ IO Hin)].
  cbn [negb]. destruct (index_of_spec _ _ _ IO) as [Hlt Hn].
  set (s4 := upd_sd (set_list s3 (addrs s2) i) sc (d_set_eff READY)).
  pose proof (fr_update s4 READY (zn sc)) as [F1 [F2 [F3 [F4 [F5 F6]]]]].
  pose proof (bstate_update s4 READY (zn sc)) as B5.
  destruct (update_state s4 READY (zn sc)) as [s5 e5]. cbn [fst] in *.
  destruct (eff_view (set_list s3 (addrs s2) i) sc READY sc) as [X1 [X2 X3]].
  destruct (sds_eq_view s4 s5 sc F2) as [Y1 [Y2 _]]. fold s4 in X1, X3.
  change (ad (set_list s3 (addrs s2) i) sc) with (ad s3 sc) in X1. change (rw (set_list s3 (addrs s2) i) sc) with (rw s3 sc) in X3.
  assert (AD : ad s5 sc = ad s2 sc) by congruence.
  assert (RW5 : rw s5 sc = READY) by congruence.
  assert (V : al_valid s5 = true) by (unfold al_valid; rewrite F3, F4; change (idx s4) with i; change (addrs s4) with (addrs s2); apply Nat.ltb_lt; exact Hlt).
  apply (W_single s5 sc).
  - rewrite F1. exact V1.
  - rewrite AD, F3. exact Hin.
  - rewrite F5. exact V2.
  - intros _. repeat split; [exact V| |exact B5].
    unfold cur_addr. rewrite V, F3, F4. change (idx s4) with i. change (addrs s4) with (addrs s2). rewrite Hn. symmetry. exact AD.
  - intros NE. congruence.
Qed.

Lemma sc_state_W s sc v : Alive s -> Wv s -> Wv (fst (sc_state s sc v)).
Proof.
  intros A W. destruct (wL s W) as [LD LS LR LF].
  unfold sc_state. set (s1 := upd_sd s sc (d_set_raw v)).
  assert (A1 : Alive s1) by (exact (Alive_same _ _ (sa_upd s sc (d_set_raw v) (fun d => eq_refl)) A)).
  assert (RV : forall x, ad s1 x = ad s x /\ fl s1 x = fl s x /\ rw s1 x = if Nat.eqb x sc then v else rw s x)
    by (intros x; apply raw_view).
  assert (EVW : forall w x, ad (upd_sd s1 sc (d_set_eff w)) x = ad s x /\ fl (upd_sd s1 sc (d_set_eff w)) x = fl s x /\
                            rw (upd_sd s1 sc (d_set_eff w)) x = if Nat.eqb x sc then v else rw s x).
  { intros w x. destruct (eff_view s1 sc w x) as [Y1 [Y2 Y3]]. destruct (RV x) as [Z1 [Z2 Z3]]. rewrite Y1, Y2, Y3. repeat split; assumption. }
  assert (D1 : Dv s1).
  { unfold Dv. change (subs s1) with (subs s). rewrite (map_ext _ (ad s)) by (intros x; exact (proj1 (RV x))). exact LD. }
  destruct (is_active s1 sc) eqn:ACT; cbn [negb].
  2:{ cbn [fst]. assert (NI : ~ In sc (subs s)) by (intros H; rewrite (active_D s1 sc D1 H) in ACT; discriminate).
      apply (W_veq s); [|left; reflexivity|exact W]. split; [reflexivity|]. split; [|repeat split].
      intros x Hx. destruct (RV x) as [X1 [X2 X3]]. rewrite X1, X2, X3.
      destruct (Nat.eqb_spec x sc) as [->|_]; [contradiction|repeat split]. }
  assert (Hin : In sc (subs s)) by exact (is_active_in s1 sc ACT).
  assert (SA : In (ad s sc) (addrs s)) by exact (LS sc Hin).
  fold (rw s sc).
  destruct (Z.eqb_spec v SHUTDOWN) as [E4|N4].
  { cbn [fst]. refine (proj1 (W_raw s (upd_sd s1 sc (d_set_eff SHUTDOWN)) sc v W Hin _ _ eq_refl (EVW SHUTDOWN) eq_refl eq_refl eq_refl eq_refl)); rewrite E4; discriminate. }
  destruct (Z.eqb_spec v TF) as [E3|N3].
  - (* TRANSIENT_FAILURE *)
    set (s2 := upd_sd s1 sc (d_set_failed true)).
    assert (A2 : Alive s2) by (eapply Alive_same; [apply sa_upd; reflexivity|exact A1]).
    assert (TV : forall x, ad s2 x = ad s x /\ rw s2 x = (if Nat.eqb x sc then TF else rw s x) /\ fl s2 x = (if Nat.eqb x sc then true else fl s x)).
    { intros x. destruct (upd_failed_view s1 sc true x) as [Y1 [Y2 Y3]]. destruct (RV x) as [Z1 [Z2 Z3]]. fold s2 in Y1, Y2, Y3.
      rewrite Y1, Y2, Y3, Z1, Z2, Z3, E3. repeat split. }
    destruct (Z.eqb_spec v READY) as [E2|N2]; [rewrite E3 in E2; discriminate E2|].
    destruct (Z.eqb_spec (rw s sc) READY) as [EO|NO]; cbn [orb].
    { apply idle_branch_W; [change (addrs s2) with (addrs s); rewrite (proj1 (TV sc)); exact SA|exact N2|].
      rewrite (proj1 (proj2 (TV sc))), Nat.eqb_refl. symmetry. exact E3. }
    replace (v =? IDLE) with false by (rewrite E3; reflexivity). rewrite andb_false_r.
    replace (v =? CONNECTING) with false by (rewrite E3; reflexivity).
    destruct (firstPass s2) eqn:FP2.
    + set (s3 := upd_sd s2 sc (d_set_eff TF)).
      assert (A3 : Alive s3) by (eapply Alive_same; [apply sa_upd; reflexivity|exact A2]).
      assert (TV3 : forall x, ad s3 x = ad s x /\ rw s3 x = (if Nat.eqb x sc then TF else rw s x) /\ fl s3 x = (if Nat.eqb x sc then true else fl s x)).
      { intros x. destruct (eff_view s2 sc TF x) as [Y1 [Y2 Y3]]. destruct (TV x) as [Z1 [Z2 Z3]]. fold s3 in Y1, Y2, Y3.
        rewrite Y1, Y2, Y3. repeat split; assumption. }
      destruct (tf_L s s3 sc W Hin eq_refl TV3 eq_refl eq_refl eq_refl) as [L3 NR3].
      fold (ad s3 sc).
      destruct (Z.eqb_spec (cur_addr s3) (ad s3 sc)) as [EC|NC].
      * set (s4 := cancel_timer s3).
        assert (A4 : Alive s4) by (eapply Alive_same; [apply sa_timer|exact A3]).
        assert (L4 : Lv s4) by (apply (L_NR s3); try reflexivity; [intros x _; repeat split|exact NR3|exact L3]).
        unfold al_increment. destruct (al_valid s4) eqn:V4.
        -- set (s5 := set_list s4 (addrs s4) (S (idx s4))).
           assert (A5 : Alive s5) by (eapply Alive_same; [apply sa_list|exact A4]).
           assert (L5 : Lv s5).
           { apply incr_L; [exact L4|exact NR3|exact V4|]. intros x Hx AX E1 E2.
             change (ad s4 x) with (ad s3 x) in AX. change (cur_addr s4) with (cur_addr s3) in AX. rewrite EC in AX.
             change (subs s4) with (subs s3) in Hx.
             pose proof (lookup_D s3 x (lD s3 L3) Hx) as K1. rewrite AX in K1. rewrite (lookup_D s3 sc (lD s3 L3) Hin) in K1.
             assert (sc = x) by congruence. subst x. change (fl s4 sc) with (fl s3 sc) in E2.
             rewrite (proj2 (proj2 (TV3 sc))), Nat.eqb_refl in E2. discriminate E2. }
           cbv beta iota zeta. fold s5. destruct (al_valid s5) eqn:V5.
           ++ apply request_W; assumption.
           ++ apply efp_W; [exact L5|]. intros _ X. congruence.
        -- cbv beta iota zeta. apply efp_W; [exact L4|]. intros X. discriminate X.
      * apply efp_W; [exact L3|]. intros T V. change (timer s3) with (timer s) in T. change (al_valid s3) with (al_valid s) in V.
        destruct (wC s W T V) as [FPs [x0 [H0 [A0 R0]]]]. split; [exact FP2|]. exists x0.
        destruct (TV3 x0) as [Z1 [Z2 Z3]]. change (cur_addr s3) with (cur_addr s). rewrite Z1, Z2. repeat split; try assumption.
        destruct (Nat.eqb_spec x0 sc) as [->|_]; [|exact R0]. exfalso. apply NC. change (cur_addr s3) with (cur_addr s).
        rewrite (proj1 (TV3 sc)). symmetry. exact A0.
    + replace (v =? TF) with true by (rewrite E3; reflexivity).
      cbv zeta. match goal with |- context [set_pass s2 false ?n] => set (s3 := set_pass s2 false n) end.
      destruct (tf_L s s3 sc W Hin eq_refl TV eq_refl eq_refl (eq_sym FP2)) as [L3 NR3].
      assert (W3 : Wv s3).
      { split; [exact L3| |].
        - intros T V. change (timer s3) with (timer s) in T. change (al_valid s3) with (al_valid s) in V.
          destruct (wC s W T V) as [FPs _]. change (firstPass s2) with (firstPass s) in FP2. congruence.
        - intros FP. discriminate FP. }
      destruct (_ =? 0); [|exact W3].
      apply (W_veq s3); [apply fr_veq; [apply fr_update|apply fp_update]|right; exact NR3|exact W3].
  - (* not TRANSIENT_FAILURE *)
    destruct (Z.eqb_spec v READY) as [E2|N2].
    { apply ready_branch_W; [change (addrs s1) with (addrs s); rewrite (proj1 (RV sc)); exact SA|].
      rewrite (proj2 (proj2 (RV sc))), Nat.eqb_refl. exact E2. }
    assert (WR : Wv s1 /\ NR s1) by exact (W_raw s s1 sc v W Hin N2 N3 eq_refl RV eq_refl eq_refl eq_refl eq_refl).
    destruct ((rw s sc =? READY) || ((rw s sc =? CONNECTING) && (v =? IDLE))).
    { apply idle_branch_W; [change (addrs s1) with (addrs s); rewrite (proj1 (RV sc)); exact SA|exact N2|].
      rewrite (proj2 (proj2 (RV sc))), Nat.eqb_refl. reflexivity. }
    replace (v =? TF) with false by (symmetry; apply Z.eqb_neq; exact N3).
    destruct (firstPass s1).
    + destruct (v =? CONNECTING); [|exact (proj1 WR)].
      destruct (negb (d_eff (sds s1 sc) =? TF)); [|exact (proj1 WR)].
      set (s3 := upd_sd s1 sc (d_set_eff CONNECTING)).
      destruct (W_raw s s3 sc v W Hin N2 N3 eq_refl (EVW CONNECTING) eq_refl eq_refl eq_refl eq_refl) as [W3 NR3].
      destruct (negb (bstate s3 =? TF)); [|exact W3].
      apply (W_veq s3); [apply fr_veq; [apply fr_update|apply fp_update]|right; exact NR3|exact W3].
    + destruct (v =? IDLE); exact (proj1 WR).
Qed.

(* ---------- the joint invariant over all operations; clause 5; the bridge ---------- *)

Lemma step_main_W s op : Alive s -> Wv s -> Wv (fst (step_main s op)).
Proof.
  intros A W. unfold step_main.
  destruct op as [|z r]; [exact W|].
  destruct z as [|q|q]; try exact W.
  do 3 (try destruct q as [q|q|]); try exact W.
  all: first [ apply exit_idle_W; assumption | apply timer_W; assumption
             | apply resolver_error_W; exact W | apply resolver_update_W; assumption
             | destruct r as [|z [|v [|x r]]]; try exact W;
               destruct (sc_of s z); [|exact W]; destruct (_ && _); [apply sc_state_W; assumption|exact W] ].
Qed.

Lemma W_init : Wv init.
Proof.
  split; [split| |].
  - constructor.
  - intros x [].
  - intros x [].
  - intros _ x [].
  - intros X. discriminate X.
  - intros X. discriminate X.
Qed.

(* while a pass runs it is never the case that the list is exhausted and every active
   sub-channel's latest state is TRANSIENT_FAILURE *)
Lemma W_not_all_failed s : Wv s -> firstPass s = true -> all_failed s = false.
Proof.
  intros W FP. unfold all_failed. destruct (al_valid s) eqn:V; [reflexivity|]. cbn [negb andb].
  destruct (subs s) as [|x r] eqn:SB; [reflexivity|]. cbn [negb andb]. rewrite <- SB.
  destruct (wE s W FP V ltac:(rewrite SB; discriminate)) as [x0 [H0 R0]].
  apply not_true_is_false. intros F. rewrite forallb_forall in F. specialize (F x0 H0). apply Z.eqb_eq in F. exact (R0 F).
Qed.

Definition Inv (s : st) : Prop := Alive s /\ J1 s /\ Wv s.
Lemma Inv_init : Inv init.
Proof. split; [exact Alive_init|]. split; [intros H; discriminate|exact W_init]. Qed.
Lemma step_main_inv s op : Inv s -> Inv (fst (step_main s op)).
Proof.
  intros [A [J W]]. split; [apply step_main_alive; exact A|]. split; [apply J1_step_main; exact J|apply step_main_W; assumption].
Qed.

Lemma stuck_step s' chunk : Inv s' -> stuck_ok s' chunk = true.
Proof.
  intros [_ [_ W]]. unfold stuck_ok. destruct (firstPass s') eqn:FP; [|rewrite andb_false_r; reflexivity].
  rewrite (W_not_all_failed s' W FP). reflexivity.
Qed.

Lemma clauses_from_ok ops : forall s i, Inv s ->
  forallb (fun c : Z * Z * bool => snd c) (clauses_from s ops (snd (run_from s ops)) i) = true.
Proof.
  induction ops as [|op r IH]; intros s i I; [reflexivity|].
  cbn [run_from clauses_from].
  pose proof (step_main_inv s op I) as I1. rewrite <- step_fst in I1.
  pose proof (step_snd s op) as E. pose proof (step_fst s op) as EF.
  destruct (step s op) as [s1 e]. cbn [fst snd] in *. subst e.
  specialize (IH s1 (i + 1) I1). destruct (run_from s1 r) as [s2 e']. cbn [snd] in *.
  rewrite <- app_assoc. cbn [app]. rewrite (split_chunk_app _ _ (nzl_step_main s op)).
  rewrite forallb_app, IH, andb_true_r. unfold clause_op. cbn [forallb fst snd].
  destruct I as [A [J W]]. rewrite <- EF.
  rewrite (stuck_step s1 (snd (step_main s op)) I1). rewrite EF.
  rewrite (ready_step s op A), (order_step s op A), (tf_step s op), (sticky_step s op J). reflexivity.
Qed.

Theorem model_trace_holds ops : exists obs, run ops = Some obs /\ holds_b ops obs = true.
Proof.
  exists (snd (run_from init ops)). split; [reflexivity|].
  unfold holds_b, clauses. apply (clauses_from_ok ops init 0 Inv_init).
Qed.

Lemma run_from_inv ops : forall s, Inv s -> Inv (fst (run_from s ops)).
Proof.
  induction ops as [|op r IH]; intros s I; cbn [run_from]; [exact I|].
  pose proof (step_main_inv s op I) as I1. rewrite <- step_fst in I1.
  destruct (step s op) as [s1 e]. cbn [fst] in I1. specialize (IH s1 I1). destruct (run_from s1 r). exact IH.
Qed.
Lemma reachable_inv s : reachable s -> Inv s.
Proof. intros [ops ->]. apply run_from_inv, Inv_init. Qed.

(* "after every address failed it reports TRANSIENT_FAILURE": in no reachable state with a pass
   running is the list exhausted with every active sub-channel's latest state TF *)
Lemma reachable_not_all_failed s : reachable s -> firstPass s = true -> all_failed s = false.
Proof. intros R. destruct (reachable_inv s R) as [_ [_ W]]. apply W_not_all_failed. exact W. Qed.
Lemma reachable_W s : reachable s -> Wv s.
Proof. intros R. exact (proj2 (proj2 (reachable_inv s R))). Qed.

(* sticky TF over all histories: from any reachable state in which TF published at the end of
   a pass over a non-empty list stands and no active sub-channel's latest state is READY,
   no operation (other than an empty resolver update, the A62 exception) publishes CONNECTING *)
Lemma sticky_tf s op u : reachable s -> sticky_eff s = true ->
  (forall r, op = 1 :: r -> filter valid_addr r <> []) ->
  In u (u_events (snd (step_main s op))) -> fst u <> CONNECTING.
Proof.
  intros R K NE Hin. destruct (reachable_inv s R) as [_ [J _]].
  assert (NC : nc (snd (step_main s op))).
  { unfold step_main.
    destruct op as [|z r]; [reflexivity|].
    destruct z as [|q|q]; try reflexivity.
    do 3 (try destruct q as [q|q|]); try reflexivity.
    all: first [ apply nc_tf, timer_fire_tf | apply nc_tf, resolver_error_tf
               | apply resolver_update_nc; [exact K|exact J|apply NE; reflexivity] | idtac ].
    - unfold exit_idle. destruct (sticky_eff_facts s K J) as [B _]. rewrite B. reflexivity.
    - destruct r as [|z [|v [|x r]]]; try reflexivity.
      destruct (sc_of s z); [|reflexivity]. destruct (_ && _); [apply sc_state_nc; assumption|reflexivity]. }
  unfold nc in NC. rewrite forallb_forall in NC. specialize (NC u Hin). apply negb_true_iff in NC.
  apply Z.eqb_neq. exact NC.
Qed.

(* the ghost flag means what its name says: it is set only with TF published, and any other
   publication clears it *)
Lemma sticky_means_tf s : reachable s -> sticky s = true -> bstate s = TF.
Proof. intros R. exact (proj1 (proj2 (reachable_inv s R))). Qed.


Lemma reachable_joint s : reachable s -> Dv s /\ Sv s /\ Rv s /\ Cv s /\ Fv s /\ Ev s.
Proof. intros R. destruct (reachable_W s R) as [[D S Rr F] C E]. exact (conj D (conj S (conj Rr (conj C (conj F E))))). Qed.
