From Coq Require Import List ZArith Bool Arith Lia Permutation.
From VLib Require Import Codec.
From VModel Require Import PickFirst.
Import ListNotations.
Open Scope Z_scope.

(* ---------- deDupAddresses ---------- *)

Lemma memz_In x l : memz x l = true <-> In x l.
Proof.
  unfold memz. rewrite existsb_exists. split.
  - intros [y [Hy E]]. apply Z.eqb_eq in E. subst. exact Hy.
  - intros H. exists x. split; [exact H|apply Z.eqb_refl].
Qed.

Lemma memz_false x l : memz x l = false <-> ~ In x l.
Proof. rewrite <- memz_In. destruct (memz x l); split; congruence. Qed.

Lemma dedup_acc_In seen l x : In x (dedup_acc seen l) <-> In x l /\ ~ In x seen.
Proof.
  revert seen. induction l as [|a r IH]; intros seen; cbn [dedup_acc In]; [tauto|].
  destruct (memz a seen) eqn:E.
  - apply memz_In in E. rewrite IH. split; [tauto|]. intros [[->|H] N]; tauto.
  - apply memz_false in E. cbn [In]. rewrite IH. cbn [In]. split.
    + intros [->|[H N]]; [tauto|]. tauto.
    + intros [[->|H] N]; [tauto|]. destruct (Z.eq_dec a x); [tauto|]. right. tauto.
Qed.

Lemma dedup_acc_NoDup seen l : NoDup (dedup_acc seen l).
Proof.
  revert seen. induction l as [|a r IH]; intros seen; cbn [dedup_acc]; [constructor|].
  destruct (memz a seen); [apply IH|]. constructor; [|apply IH].
  rewrite dedup_acc_In. cbn [In]. tauto.
Qed.

Lemma dedup_In l x : In x (dedup l) <-> In x l.
Proof. unfold dedup. rewrite dedup_acc_In. cbn [In]. tauto. Qed.
Lemma dedup_NoDup l : NoDup (dedup l).
Proof. apply dedup_acc_NoDup. Qed.

(* dedup keeps the elements in their original relative order *)
Inductive sublist : list Z -> list Z -> Prop :=
| sub_nil : forall l, sublist [] l
| sub_take : forall x a b, sublist a b -> sublist (x :: a) (x :: b)
| sub_skip : forall x a b, sublist a b -> sublist a (x :: b).

Lemma dedup_acc_sublist seen l : sublist (dedup_acc seen l) l.
Proof.
  revert seen. induction l as [|a r IH]; intros seen; cbn [dedup_acc]; [constructor|].
  destruct (memz a seen); [apply sub_skip|apply sub_take]; apply IH.
Qed.

Lemma dedup_id l : NoDup l -> dedup l = l.
Proof.
  unfold dedup. assert (G : forall seen, NoDup l -> (forall x, In x l -> ~ In x seen) -> dedup_acc seen l = l).
  { induction l as [|a r IH]; intros seen ND H; [reflexivity|]. cbn [dedup_acc].
    destruct (memz a seen) eqn:E; [apply memz_In in E; exfalso; apply (H a); [left; reflexivity|exact E]|].
    inversion ND; subst. f_equal. apply IH; [assumption|].
    intros x Hx [<-|Hs]; [contradiction|]. apply (H x); [right; exact Hx|exact Hs]. }
  intros ND. apply G; [exact ND|]. intros x _ [].
Qed.

(* ---------- interleaveAddresses ---------- *)

Lemma heads_tails_perm qs : Permutation (heads qs ++ concat (tails qs)) (concat qs).
Proof.
  induction qs as [|q r IH]; [constructor|].
  cbn [heads tails flat_map map concat]. fold (heads r). fold (tails r).
  destruct q as [|a t]; cbn [tl app]; [exact IH|].
  constructor. rewrite app_assoc. rewrite (Permutation_app_comm (heads r) t). rewrite <- app_assoc.
  apply Permutation_app_head. exact IH.
Qed.

Lemma rr_perm fuel : forall qs, (forall q, In q qs -> (length q <= fuel)%nat) ->
  Permutation (rr fuel qs) (concat qs).
Proof.
  induction fuel as [|f IH]; intros qs H; cbn [rr].
  - assert (E : concat qs = []).
    { induction qs as [|q r IHq]; [reflexivity|]. cbn [concat].
      assert (q = []) as -> by (destruct q; [reflexivity|]; specialize (H _ (or_introl eq_refl)); cbn in H; lia).
      apply IHq. intros q' Hq'. apply H. right. exact Hq'. }
    rewrite E. constructor.
  - rewrite <- (heads_tails_perm qs). apply Permutation_app_head. apply IH.
    intros q Hq. unfold tails in Hq. apply in_map_iff in Hq. destruct Hq as [q0 [<- Hq0]].
    specialize (H _ Hq0). destruct q0; cbn in *; lia.
Qed.

Lemma filter_split (p q : Z -> bool) l : (forall a, In a l -> p a && q a = false) ->
  Permutation (filter p l ++ filter q l) (filter (fun a => p a || q a) l).
Proof.
  induction l as [|a r IH]; intros H; [constructor|]. cbn [filter].
  assert (Hr : forall a0, In a0 r -> p a0 && q a0 = false) by (intros; apply H; right; assumption).
  specialize (H a (or_introl eq_refl)).
  destruct (p a) eqn:P, (q a) eqn:Q; cbn [orb app] in *; try discriminate.
  - constructor. apply IH, Hr.
  - rewrite <- Permutation_middle. constructor. apply IH, Hr.
  - apply IH, Hr.
Qed.

Lemma concat_queues_perm l fs : NoDup fs ->
  Permutation (concat (map (fun f => filter (fun a => fam a =? f) l) fs))
              (filter (fun a => memz (fam a) fs) l).
Proof.
  induction fs as [|f r IH]; intros ND; cbn [map concat].
  - cbn [memz existsb]. induction l; [constructor|exact IHl].
  - inversion ND as [|? ? Hn ND']; subst.
    etransitivity; [apply Permutation_app_head; apply (IH ND')|].
    etransitivity; [apply filter_split|].
    2:{ apply Permutation_refl'. apply filter_ext. intros a. unfold memz. cbn [existsb].
      rewrite Z.eqb_sym. reflexivity. }
    intros a _. destruct (fam a =? f) eqn:E; [|reflexivity]. apply Z.eqb_eq in E. subst f.
      cbn [andb]. apply memz_false. exact Hn.
Qed.

Lemma filter_all (p : Z -> bool) l : (forall a, In a l -> p a = true) -> filter p l = l.
Proof.
  induction l as [|a r IH]; intros H; [reflexivity|]. cbn [filter].
  rewrite (H a (or_introl eq_refl)). f_equal. apply IH. intros; apply H; right; assumption.
Qed.

Lemma filter_len (p : Z -> bool) l : (length (filter p l) <= length l)%nat.
Proof. induction l as [|a r IH]; [constructor|]. cbn [filter]. destruct (p a); cbn [length]; lia. Qed.

Lemma interleave_perm l : Permutation (interleave l) l.
Proof.
  unfold interleave. rewrite rr_perm.
  - unfold fam_queues. rewrite (concat_queues_perm l _ (dedup_NoDup _)).
    apply Permutation_refl'. apply filter_all. intros a Ha. apply memz_In, dedup_In, in_map. exact Ha.
  - intros q Hq. unfold fam_queues in Hq. apply in_map_iff in Hq. destruct Hq as [f [<- _]].
    apply filter_len.
Qed.

(* within each family the relative order is preserved *)
Lemma take_all {A} n (l : list A) : (length l <= n)%nat -> take n l = l.
Proof.
  revert l. induction n as [|n IH]; intros [|a r] H; cbn in *; try reflexivity; try lia.
  f_equal. apply IH. lia.
Qed.

Lemma filter_heads f (Q : Z -> list Z) fs : NoDup fs ->
  (forall g, Forall (fun a => fam a = g) (Q g)) ->
  filter (fun a => fam a =? f) (heads (map Q fs)) = if memz f fs then take 1 (Q f) else [].
Proof.
  intros ND H. induction fs as [|g r IH]; [reflexivity|].
  inversion ND as [|? ? Hn ND']; subst.
  cbn [map heads flat_map]. fold (heads (map Q r)). rewrite filter_app, (IH ND').
  unfold memz at 2. cbn [existsb]. fold (memz f r).
  destruct (Z.eqb_spec f g) as [->|Hne].
  - cbn [orb]. apply memz_false in Hn. rewrite Hn, app_nil_r.
    specialize (H g). destruct (Q g) as [|a t]; [reflexivity|]. cbn [filter take].
    inversion H; subst. rewrite Z.eqb_refl. reflexivity.
  - cbn [orb]. specialize (H g). destruct (Q g) as [|a t]; [reflexivity|]. cbn [filter].
    inversion H as [|? ? Ha _]; subst. destruct (Z.eqb_spec (fam a) f); [congruence|]. reflexivity.
Qed.

Lemma filter_rr f fuel : forall (Q : Z -> list Z) fs, NoDup fs ->
  (forall g, Forall (fun a => fam a = g) (Q g)) ->
  filter (fun a => fam a =? f) (rr fuel (map Q fs)) = if memz f fs then take fuel (Q f) else [].
Proof.
  induction fuel as [|n IH]; intros Q fs ND H; cbn [rr].
  - destruct (memz f fs); reflexivity.
  - rewrite filter_app, (filter_heads f Q fs ND H). unfold tails. rewrite map_map.
    rewrite (IH (fun g => tl (Q g)) fs ND).
    + destruct (memz f fs); [|reflexivity]. destruct (Q f); [destruct n; reflexivity|reflexivity].
    + intros g. specialize (H g). destruct (Q g); [constructor|]. inversion H; assumption.
Qed.

Lemma interleave_family_order l f :
  filter (fun a => fam a =? f) (interleave l) = filter (fun a => fam a =? f) l.
Proof.
  unfold interleave, fam_queues.
  rewrite (filter_rr f (length l) (fun g => filter (fun a => fam a =? g) l) _ (dedup_NoDup _)).
  - destruct (memz f (dedup (map fam l))) eqn:E.
    + apply take_all. apply filter_len.
    + symmetry. apply memz_false in E. rewrite dedup_In in E.
      induction l as [|a r IH]; [reflexivity|]. cbn [filter].
      destruct (Z.eqb_spec (fam a) f) as [Ef|_].
      * exfalso. apply E. left. exact Ef.
      * apply IH. intros X. apply E. right. exact X.
  - intros g. apply Forall_forall. intros a Ha. apply filter_In in Ha. destruct Ha as [_ Ha].
    apply Z.eqb_eq in Ha. exact Ha.
Qed.

Lemma preprocess_perm l : Permutation (preprocess l) (dedup l).
Proof. apply interleave_perm. Qed.

Lemma preprocess_NoDup l : NoDup (preprocess l).
Proof. eapply Permutation_NoDup; [symmetry; apply preprocess_perm|apply dedup_NoDup]. Qed.

Lemma preprocess_In l x : In x (preprocess l) <-> In x l.
Proof.
  split; intros H.
  - apply dedup_In. eapply Permutation_in; [apply preprocess_perm|exact H].
  - eapply Permutation_in; [symmetry; apply preprocess_perm|]. apply dedup_In. exact H.
Qed.

Lemma preprocess_family_order l f :
  filter (fun a => fam a =? f) (preprocess l) = filter (fun a => fam a =? f) (dedup l).
Proof. apply interleave_family_order. Qed.

(* the first address keeps its place (the pass starts with the resolver's first address) *)
Lemma preprocess_head a l : exists r, preprocess (a :: l) = a :: r.
Proof.
  unfold preprocess, dedup. cbn [dedup_acc memz existsb].
  set (d := dedup_acc [a] l). unfold interleave, fam_queues. cbn [map length].
  unfold dedup. cbn [dedup_acc memz existsb map]. cbn [rr heads flat_map filter].
  rewrite Z.eqb_refl. cbn [app]. eexists. reflexivity.
Qed.

(* ---------- events of a round ---------- *)

Definition evSs (ps : list (Z * Z)) : list word := map (fun p => evS (snd p)) ps.
Definition reqs (cs : list (Z * Z)) : list word := flat_map (fun p => [evN (snd p) (fst p); evC (snd p)]) cs.

Lemma n_addrs_app a b : n_addrs (a ++ b) = n_addrs a ++ n_addrs b. Proof. apply flat_map_app. Qed.
Lemma n_scs_app a b : n_scs (a ++ b) = n_scs a ++ n_scs b. Proof. apply flat_map_app. Qed.
Lemma c_scs_app a b : c_scs (a ++ b) = c_scs a ++ c_scs b. Proof. apply flat_map_app. Qed.
Lemma s_scs_app a b : s_scs (a ++ b) = s_scs a ++ s_scs b. Proof. apply flat_map_app. Qed.
Lemma u_events_app a b : u_events (a ++ b) = u_events a ++ u_events b. Proof. apply flat_map_app. Qed.

Lemma ext_S ps : n_addrs (evSs ps) = [] /\ n_scs (evSs ps) = [] /\ c_scs (evSs ps) = [] /\
  u_events (evSs ps) = [] /\ s_scs (evSs ps) = map snd ps.
Proof.
  induction ps as [|p r [A [B [C [D E]]]]]; [repeat split; reflexivity|].
  repeat split; try assumption. cbn. f_equal. exact E.
Qed.

Lemma ext_reqs cs : n_addrs (reqs cs) = map fst cs /\ n_scs (reqs cs) = map snd cs /\
  c_scs (reqs cs) = map snd cs /\ u_events (reqs cs) = [] /\ s_scs (reqs cs) = [].
Proof.
  induction cs as [|p r [A [B [C [D E]]]]]; [repeat split; reflexivity|].
  repeat split; try assumption; cbn; f_equal; assumption.
Qed.

Lemma number_fst n l : map fst (number n l) = l.
Proof. revert n. induction l as [|a r IH]; intros n; [reflexivity|]. cbn. f_equal. apply IH. Qed.
Lemma number_len n l : length (number n l) = length l.
Proof. revert n. induction l as [|a r IH]; intros n; [reflexivity|]. cbn. f_equal. apply IH. Qed.

Lemma cbr_S ps r b : connecting_before_ready (evSs ps ++ r) b = connecting_before_ready r b.
Proof. induction ps as [|p q IH]; [reflexivity|exact IH]. Qed.

Lemma cbr_reqs cs r b : cs <> [] -> connecting_before_ready (reqs cs ++ r) b = connecting_before_ready r true.
Proof.
  intros H. destruct cs as [|p q]; [congruence|]. clear H. revert p b.
  induction q as [|p' q IH]; intros p b; [reflexivity|]. cbn. apply (IH p' true).
Qed.

(* ---------- sublist ---------- *)

Lemma take_In {A} n (l : list A) x : In x (take n l) -> In x l.
Proof.
  revert l. induction n as [|n IH]; intros [|a r] H; cbn in *; try contradiction.
  destruct H as [->|H]; [left; reflexivity|right; apply IH; exact H].
Qed.

Lemma sublist_take_filter (p : Z -> bool) l : forall n, sublist_b (take n (filter p l)) l = true.
Proof.
  induction l as [|a r IH]; intros n; [destruct n; reflexivity|].
  cbn [filter]. destruct (p a) eqn:P.
  - destruct n as [|m]; [reflexivity|]. cbn [take sublist_b]. rewrite Z.eqb_refl. apply IH.
  - specialize (IH n). destruct (take n (filter p r)) as [|x t] eqn:E; [reflexivity|].
    cbn [sublist_b]. destruct (Z.eqb_spec x a) as [->|_]; [|exact IH].
    exfalso. assert (In a (filter p r)) by (apply (take_In n); rewrite E; left; reflexivity).
    apply filter_In in H. destruct H as [_ H]. congruence.
Qed.

Lemma sublist_filter (p : Z -> bool) l : sublist_b (filter p l) l = true.
Proof.
  rewrite <- (take_all (length (filter p l)) (filter p l)) at 1 by lia. apply sublist_take_filter.
Qed.

Lemma word_eqb_refl w : word_eqb w w = true.
Proof. induction w as [|z w IH]; [reflexivity|]. cbn. rewrite Z.eqb_refl. exact IH. Qed.

Lemma pass_facts s retained F k cn n_new :
  let success := (0 <=? k) && (k <? Z.of_nat (length F)) in
  let A := if success then take (S (Z.to_nat k)) F else F in
  let created := number (nsc s) A in
  let e := snd (pass s retained F k cn n_new) in
  n_addrs e = A /\ n_scs e = map snd created /\ c_scs e = map snd created /\
  (created = [] -> e = [evU TF (-1)]) /\
  (created <> [] -> success = false ->
     s_scs e = [] /\ u_events e = [(TF, -1)]) /\
  (success = true -> exists win, created = removelast created ++ [win] /\
     s_scs e = map snd (retained ++ removelast created) /\
     u_events e = [(READY, snd win)]) /\
  connecting_before_ready e false = None.
Proof.
  cbv zeta. unfold pass.
  set (success := (0 <=? k) && (k <? Z.of_nat (length F))).
  set (A := if success then take (S (Z.to_nat k)) F else F).
  assert (HA : success = true -> A <> []).
  { intros Hs. unfold A. rewrite Hs. unfold success in Hs. apply andb_true_iff in Hs. destruct Hs as [Hs0 Hs].
    apply Z.ltb_lt in Hs. apply Z.leb_le in Hs0. destruct F; [cbn in Hs; lia|]. cbn. discriminate. }
  pose proof (number_fst (nsc s) A) as NF.
  destruct (number (nsc s) A) as [|first rest] eqn:EC.
  - cbn [snd]. assert (A = []) as EA by (rewrite <- NF; reflexivity).
    repeat split; try reflexivity; try congruence.
    + rewrite EA. reflexivity.
    + intros Hs. exfalso. exact (HA Hs EA).
  - change (flat_map (fun p : Z * Z => [evN (snd p) (fst p); evC (snd p)]) [first]) with (reqs [first]).
    change (flat_map (fun p : Z * Z => [evN (snd p) (fst p); evC (snd p)]) rest) with (reqs rest).
    change (map (fun p : Z * Z => evS (snd p)) (retained ++ removelast (first :: rest)))
      with (evSs (retained ++ removelast (first :: rest))).
    destruct (ext_reqs [first]) as [R1 [R2 [R3 [R4 R5]]]].
    destruct (ext_reqs rest) as [Q1 [Q2 [Q3 [Q4 Q5]]]].
    destruct (ext_S (retained ++ removelast (first :: rest))) as [S1 [S2 [S3 [S4 S5]]]].
    assert (UC : forall (b : bool), n_addrs (connecting_report b) = [] /\
                 n_scs (connecting_report b) = [] /\ c_scs (connecting_report b) = [] /\
                 s_scs (connecting_report b) = [] /\ u_events (connecting_report b) = [] /\
                 connecting_report b = [])
      by (intros []; repeat split; reflexivity).
    destruct (UC cn) as [C1 [C2 [C3 [C4 [C5 C6]]]]].
    destruct success eqn:Hs; cbn [snd].
    + rewrite !n_addrs_app, !n_scs_app, !c_scs_app, !s_scs_app, !u_events_app.
      rewrite R1, R2, R3, R4, R5, Q1, Q2, Q3, Q4, Q5, S1, S2, S3, S4, S5, C1, C2, C3, C4, C5.
      cbn [map app]. rewrite !app_nil_r.
      repeat split; try reflexivity; try congruence.
      * rewrite <- NF. reflexivity.
      * intros _. exists (last (first :: rest) first). split; [apply app_removelast_last; discriminate|].
        split; [reflexivity|]. cbn. reflexivity.
      * rewrite C6. cbn [app]. rewrite <- !app_assoc.
        rewrite (cbr_reqs [first]) by discriminate.
        destruct rest as [|r1 rest']; [|rewrite (cbr_reqs (r1 :: rest')) by discriminate];
          cbn [reqs flat_map app]; rewrite cbr_S; reflexivity.
    + rewrite !n_addrs_app, !n_scs_app, !c_scs_app, !s_scs_app, !u_events_app.
      rewrite R1, R2, R3, R4, R5, Q1, Q2, Q3, Q4, Q5, C1, C2, C3, C4, C5.
      cbn [map app]. rewrite !app_nil_r.
      repeat split; try reflexivity; try congruence.
      * rewrite <- NF. reflexivity.
      * rewrite C6. cbn [app]. rewrite <- !app_assoc.
        rewrite (cbr_reqs [first]) by discriminate.
        destruct rest as [|r1 rest']; [|rewrite (cbr_reqs (r1 :: rest')) by discriminate]; reflexivity.
Qed.

Definition rdy_list (s : st) : list (Z * Z) := match rdy s with Some p => [p] | None => [] end.

Lemma pass_chunk_ok s l' k (cn : bool) n_new :
  let retained := filter (fun p => memz (fst p) l') (subs s) in
  let removed := filter (fun p => negb (memz (fst p) l')) (subs s ++ rdy_list s) in
  let F := filter (fun a => negb (has_addr a retained)) l' in
  let pre := if cn then [evU CONNECTING (-1)] else [] in
  let X := [[12; 0]] ++ evSs removed ++ pre ++ snd (pass s retained F k cn n_new) in
  (forall p, rdy s = Some p -> memz (fst p) l' = false) ->
  ready_ok s X = true /\ order_ok l' X = true /\ tf_ok k X = true /\
  (cn = false -> connecting_before_ready X false = None).
Proof.
  cbv zeta. intros HR.
  set (retained := filter (fun p => memz (fst p) l') (subs s)).
  set (removed := filter (fun p => negb (memz (fst p) l')) (subs s ++ rdy_list s)).
  set (F := filter (fun a => negb (has_addr a retained)) l').
  pose proof (pass_facts s retained F k cn n_new) as PF. cbv zeta in PF.
  set (success := (0 <=? k) && (k <? Z.of_nat (length F))) in *.
  set (A := if success then take (S (Z.to_nat k)) F else F) in *.
  set (created := number (nsc s) A) in *.
  set (e := snd (pass s retained F k cn n_new)) in *.
  destruct PF as [P1 [P2 [P3 [P4 [P5 [P6 P7]]]]]].
  destruct (ext_S removed) as [S1 [S2 [S3 [S4 S5]]]].
  set (pre := if cn then [evU CONNECTING (-1)] else []).
  assert (PR : n_addrs pre = [] /\ n_scs pre = [] /\ c_scs pre = [] /\ s_scs pre = [] /\
               u_events pre = if cn then [(CONNECTING, -1)] else []) by (unfold pre; destruct cn; repeat split; reflexivity).
  destruct PR as [R1 [R2 [R3 [R4 R5]]]].
  assert (XN : n_addrs ([[12; 0]] ++ evSs removed ++ pre ++ e) = A)
    by (rewrite !n_addrs_app, S1, R1, P1; reflexivity).
  assert (XS : n_scs ([[12; 0]] ++ evSs removed ++ pre ++ e) = map snd created)
    by (rewrite !n_scs_app, S2, R2, P2; reflexivity).
  assert (XC : c_scs ([[12; 0]] ++ evSs removed ++ pre ++ e) = map snd created)
    by (rewrite !c_scs_app, S3, R3, P3; reflexivity).
  assert (XSS : s_scs ([[12; 0]] ++ evSs removed ++ pre ++ e) = map snd removed ++ s_scs e)
    by (rewrite !s_scs_app, S5, R4; reflexivity).
  assert (XU : u_events ([[12; 0]] ++ evSs removed ++ pre ++ e) =
               (if cn then [(CONNECTING, -1)] else []) ++ u_events e)
    by (rewrite !u_events_app, S4, R5; reflexivity).
  assert (LA : length created = length A) by apply number_len.
  split; [|split; [|split]].
  - (* clause 1 *)
    unfold ready_ok. rewrite XU, XS, XSS. apply forallb_forall. intros u Hu.
    destruct (fst u =? READY) eqn:EU; [|reflexivity]. cbn [negb orb].
    apply Z.eqb_eq in EU.
    assert (Hsucc : success = true).
    { destruct success eqn:Hs; [reflexivity|]. exfalso.
      apply in_app_or in Hu. destruct Hu as [Hu|Hu].
      - destruct cn; [destruct Hu as [<-|[]]; discriminate|destruct Hu].
      - destruct created as [|c0 cr] eqn:EC.
        + rewrite (P4 eq_refl) in Hu. destruct Hu as [<-|[]]. discriminate.
        + destruct (P5 ltac:(discriminate) eq_refl) as [_ UE]. rewrite UE in Hu.
          destruct Hu as [<-|[]]. discriminate. }
    destruct (P6 Hsucc) as [win [EW [SE UE]]].
    assert (snd u = snd win).
    { apply in_app_or in Hu. destruct Hu as [Hu|Hu].
      - destruct cn; [destruct Hu as [<-|[]]; discriminate|destruct Hu].
      - rewrite UE in Hu. destruct Hu as [<-|[]]. reflexivity. }
    rewrite EW, map_app, rev_app_distr. cbn [map rev app]. rewrite H, Z.eqb_refl. cbn [andb].
    rewrite SE. apply forallb_forall. intros sc Hsc. apply memz_In.
    apply in_app_or in Hsc. destruct Hsc as [Hsc|Hsc].
    + apply in_or_app. right. rewrite map_app. apply in_or_app. right. apply in_rev. exact Hsc.
    + assert (G : forall p, In p (subs s ++ rdy_list s) ->
                  In (snd p) (map snd removed ++ map snd (retained ++ removelast created))).
      { intros p Hp. destruct (memz (fst p) l') eqn:M.
        - apply in_or_app. right. rewrite map_app. apply in_or_app. left. apply in_map.
          apply filter_In. split; [|exact M]. apply in_app_or in Hp. destruct Hp as [Hp|Hp]; [exact Hp|].
          unfold rdy_list in Hp. destruct (rdy s) as [q|] eqn:EQ; [|destruct Hp]. destruct Hp as [<-|[]].
          rewrite (HR q eq_refl) in M. discriminate.
        - apply in_or_app. left. apply in_map. apply filter_In. split; [exact Hp|]. rewrite M. reflexivity. }
      apply in_app_or in Hsc. destruct Hsc as [Hsc|Hsc].
      * apply in_map_iff in Hsc. destruct Hsc as [p [<- Hp]]. apply G. apply in_or_app. left. exact Hp.
      * unfold rdy_list in G. destruct (rdy s) as [q|]; [|destruct Hsc]. destruct Hsc as [<-|[]].
        apply G. apply in_or_app. right. left. reflexivity.
  - (* clause 2 *)
    unfold order_ok. rewrite XN, XC, XS, word_eqb_refl, andb_true_r.
    unfold A. destruct success; [apply sublist_take_filter|apply sublist_filter].
  - (* clause 3 *)
    unfold tf_ok. rewrite XS, XU, map_length, LA.
    destruct success eqn:Hs.
    + apply orb_true_iff. left. unfold A. unfold success in Hs. apply andb_true_iff in Hs.
      destruct Hs as [H0 H1]. rewrite H0. cbn [andb]. apply Z.ltb_lt. apply Z.leb_le in H0. apply Z.ltb_lt in H1.
      assert (length (take (S (Z.to_nat k)) F) = S (Z.to_nat k)).
      { assert (G : forall n (l : list Z), (n <= length l)%nat -> length (take n l) = n).
        { induction n as [|n IH]; intros [|x r] Hl; cbn in *; try lia. f_equal. apply IH. lia. }
        apply G. lia. }
      rewrite H. lia.
    + apply orb_true_iff. right. destruct created as [|c0 cr] eqn:EC.
      * rewrite (P4 eq_refl). destruct cn; reflexivity.
      * destruct (P5 ltac:(discriminate) eq_refl) as [_ UE]. rewrite UE.
        rewrite !rev_app_distr. destruct cn; reflexivity.
  - (* clause 4 *)
    intros Hcn. subst cn. unfold pre. cbn [app].
    change (connecting_before_ready ([12; 0] :: evSs removed ++ e) false)
      with (connecting_before_ready (evSs removed ++ e) false).
    rewrite cbr_S, P7. reflexivity.
Qed.

(* ---------- invariant between rounds ---------- *)

Definition Inv (s : st) : Prop :=
  (forall p, rdy s = Some p -> bstate s = READY /\ 0 < naddrs s) /\
  (rdy s = None -> bstate s = CONNECTING \/ bstate s = TF).

Lemma Inv_init : Inv init.
Proof. split; [intros p H; discriminate|]. intros _. left. reflexivity. Qed.

Lemma preprocess_nonempty a l : 0 < Z.of_nat (length (preprocess (a :: l))).
Proof.
  assert (In a (preprocess (a :: l))) by (apply preprocess_In; left; reflexivity).
  destruct (preprocess (a :: l)); [destruct H|]. cbn [length]. lia.
Qed.

Lemma pass_state s retained F k cn n_new : 0 < n_new ->
  Inv (fst (pass s retained F k cn n_new)).
Proof.
  intros Hn. unfold pass. destruct (number (nsc s) _) as [|first rest].
  - split; [intros p H; discriminate|]. intros _. right. reflexivity.
  - destruct ((0 <=? k) && (k <? Z.of_nat (length F))); cbn [fst].
    + split; [|intros H; discriminate]. intros p H. split; [reflexivity|exact Hn].
    + split; [intros p H; discriminate|]. intros _. right. reflexivity.
Qed.

Definition ok5 (c : Z * Z * bool) : bool := snd c.

Lemma round_ok s k l0 i : Inv s ->
  Inv (fst (round s k l0)) /\ forallb ok5 (round_clauses s k l0 (snd (round s k l0)) i) = true.
Proof.
  intros [I1 I2]. unfold round, round_clauses.
  destruct (filter valid_addr l0) as [|a l1] eqn:EL.
  - split; [split; [intros p H; discriminate|intros _; right; reflexivity]|].
    cbn [snd negb orb forallb ok5 fst].
    change (map (fun p : Z * Z => evS (snd p)) (subs s ++ match rdy s with Some p => [p] | None => [] end))
      with (evSs (subs s ++ rdy_list s)).
    destruct (ext_S (subs s ++ rdy_list s)) as [S1 [S2 [S3 [S4 S5]]]].
    assert (C1 : ready_ok s ([[12; 1]] ++ evSs (subs s ++ rdy_list s) ++ [evU TF (-1)]) = true).
    { unfold ready_ok. rewrite !u_events_app, S4. reflexivity. }
    assert (C2 : order_ok (preprocess []) ([[12; 1]] ++ evSs (subs s ++ rdy_list s) ++ [evU TF (-1)]) = true).
    { unfold order_ok. rewrite !n_addrs_app, !c_scs_app, !n_scs_app, S1, S2, S3. reflexivity. }
    assert (C4 : connecting_before_ready ([[12; 1]] ++ evSs (subs s ++ rdy_list s) ++ [evU TF (-1)]) false = None).
    { cbn [app].
      change (connecting_before_ready ([12; 1] :: evSs (subs s ++ rdy_list s) ++ [evU TF (-1)]) false)
        with (connecting_before_ready (evSs (subs s ++ rdy_list s) ++ [evU TF (-1)]) false).
      rewrite cbr_S. reflexivity. }
    rewrite C1, C2, C4. rewrite !orb_true_r. reflexivity.
  - set (l' := preprocess (a :: l1)).
    destruct (match rdy s with Some p => memz (fst p) l' | None => false end) eqn:KR.
    + split.
      * split.
        -- intros p H. cbn in H. destruct (I1 p H) as [B _]. split; [exact B|]. apply preprocess_nonempty.
        -- exact I2.
      * cbn [snd negb andb orb forallb ok5 fst].
        replace (ready_ok s [[12; 0]]) with true by reflexivity.
        assert (order_ok l' [[12; 0]] = true) as -> by (clearbody l'; destruct l'; reflexivity).
        replace (connecting_before_ready [[12; 0]] false) with (@None bool) by reflexivity.
        rewrite !orb_true_r. reflexivity.
    + assert (HR : forall p, rdy s = Some p -> memz (fst p) l' = false).
      { intros p H. rewrite H in KR. exact KR. }
      assert (ST : sticky s = true -> rdy s = None /\ (bstate s =? CONNECTING) = false /\ (naddrs s =? 0) = false /\ (bstate s =? TF) = true).
      { unfold sticky. intros H. apply andb_true_iff in H. destruct H as [H1 H2].
        apply Z.eqb_eq in H1. apply Z.ltb_lt in H2. repeat split.
        - destruct (rdy s) as [p|] eqn:E; [|reflexivity]. destruct (I1 p eq_refl) as [B _]. rewrite B in H1. discriminate.
        - rewrite H1. reflexivity.
        - apply Z.eqb_neq. lia.
        - rewrite H1. reflexivity. }
      change (subs s ++ match rdy s with Some p => [p] | None => [] end) with (subs s ++ rdy_list s).
      cbn [negb andb orb].
      destruct ((match rdy s with Some _ => true | None => false end) || (bstate s =? CONNECTING) || (naddrs s =? 0)) eqn:FC.
      * pose proof (pass_chunk_ok s l' k true (Z.of_nat (length l')) HR) as [C1 [C2 [C3 _]]].
        pose proof (pass_state s (filter (fun p => memz (fst p) l') (subs s))
                      (filter (fun a0 => negb (has_addr a0 (filter (fun p => memz (fst p) l') (subs s)))) l')
                      k true (Z.of_nat (length l')) (preprocess_nonempty a l1)) as IS.
        destruct (pass s _ _ k true _) as [s1 e]. cbn [fst snd] in *. split; [exact IS|].
        cbn [forallb ok5 fst snd].
        change (map (fun p : Z * Z => evS (snd p)) ?x) with (evSs x).
        rewrite <- !app_assoc. cbn [app] in *.
        match goal with |- context [ready_ok s ?x] => replace (ready_ok s x) with true by (symmetry; exact C1) end.
        match goal with |- context [order_ok l' ?x] => replace (order_ok l' x) with true by (symmetry; exact C2) end.
        match goal with |- context [tf_ok k ?x] => replace (tf_ok k x) with true by (symmetry; exact C3) end.
        destruct (sticky s) eqn:SS; [|cbn; reflexivity].
        destruct (ST eq_refl) as [E1 [E2 [E3 _]]]. rewrite E1, E2, E3 in FC. discriminate.
      * destruct (bstate s =? TF) eqn:BT.
        -- pose proof (pass_chunk_ok s l' k false (Z.of_nat (length l')) HR) as [C1 [C2 [C3 C4]]].
           pose proof (pass_state s (filter (fun p => memz (fst p) l') (subs s))
                      (filter (fun a0 => negb (has_addr a0 (filter (fun p => memz (fst p) l') (subs s)))) l')
                      k false (Z.of_nat (length l')) (preprocess_nonempty a l1)) as IS.
           destruct (pass s _ _ k false _) as [s1 e]. cbn [fst snd] in *. split; [exact IS|].
           cbn [forallb ok5 fst snd].
           change (map (fun p : Z * Z => evS (snd p)) ?x) with (evSs x).
           cbn [app] in *.
           match goal with |- context [ready_ok s ?x] => replace (ready_ok s x) with true by (symmetry; exact C1) end.
           match goal with |- context [order_ok l' ?x] => replace (order_ok l' x) with true by (symmetry; exact C2) end.
           match goal with |- context [tf_ok k ?x] => replace (tf_ok k x) with true by (symmetry; exact C3) end.
           match goal with |- context [connecting_before_ready ?x false] =>
             replace (connecting_before_ready x false) with (@None bool) by (symmetry; exact (C4 eq_refl)) end.
           destruct (sticky s); reflexivity.
        -- exfalso. destruct (rdy s) as [p|] eqn:ER; [discriminate|].
           destruct (I2 eq_refl) as [B|B]; rewrite B in *; discriminate.
Qed.

Lemma resolver_error_ok s op i : Inv s -> (forall k l, op <> 1 :: k :: l) ->
  Inv (fst (resolver_error s)) /\ forallb ok5 (clause_op s op (snd (resolver_error s)) i) = true.
Proof.
  intros [I1 I2] Hop. unfold resolver_error.
  assert (CO : forall ch, clause_op s op ch i =
            [ (1, i, ready_ok s ch); (2, i, order_ok [] ch);
              (4, i, negb (sticky s) || match connecting_before_ready ch false with Some _ => false | None => true end) ]).
  { intros ch. unfold clause_op. destruct op as [|z [|k l]]; try reflexivity;
      try (destruct z as [|q|q]; try reflexivity; destruct q; reflexivity).
    destruct (Z.eq_dec z 1) as [->|Nz]; [exfalso; exact (Hop k l eq_refl)|].
    destruct z as [|q|q]; try reflexivity. destruct q; try reflexivity. congruence. }
  rewrite CO.
  destruct (negb (bstate s =? TF) && (0 <? naddrs s)) eqn:E; cbn [fst snd].
  - split; [split; assumption|]. cbn. rewrite !orb_true_r. reflexivity.
  - split.
    + split; cbn.
      * intros p H. destruct (I1 p H) as [B N]. rewrite B in E. apply Z.ltb_lt in N. rewrite N in E. discriminate.
      * intros _. right. reflexivity.
    + cbn. rewrite !orb_true_r. reflexivity.
Qed.

Definition chunk (s : st) (op : word) : list word :=
  match op with
  | 1 :: k :: l => snd (round s k l)
  | 4 :: _ => snd (resolver_error s)
  | _ => []
  end.

Lemma step_eq s op : step s op =
  (match op with 1 :: k :: l => fst (round s k l) | 4 :: _ => fst (resolver_error s) | _ => s end,
   chunk s op ++ [[0]]).
Proof.
  unfold step, chunk. destruct op as [|z r]; [reflexivity|].
  destruct (Z.eq_dec z 1) as [->|N1].
  { destruct r as [|k l]; [reflexivity|]. destruct (round s k l); reflexivity. }
  destruct (Z.eq_dec z 4) as [->|N4].
  { destruct (resolver_error s); reflexivity. }
  destruct z as [|q|q]; try reflexivity.
  repeat (destruct q as [q|q|]; try reflexivity); congruence.
Qed.

Lemma step_ok s op i : Inv s ->
  Inv (fst (step s op)) /\ forallb ok5 (clause_op s op (chunk s op) i) = true.
Proof.
  intros I. rewrite step_eq. cbn [fst].
  assert (D : (exists k l, op = 1 :: k :: l) \/ (forall k l, op <> 1 :: k :: l)).
  { destruct op as [|z [|k l]]; try (right; intros; discriminate).
    destruct (Z.eq_dec z 1) as [->|N]; [left; eauto|right; intros k' l' E; inversion E; congruence]. }
  destruct D as [[k [l ->]]|N].
  - unfold chunk, clause_op. apply round_ok. exact I.
  - assert (D4 : (exists r, op = 4 :: r) \/ (chunk s op = [] /\ match op with 1 :: k :: l => fst (round s k l) | 4 :: _ => fst (resolver_error s) | _ => s end = s)).
    { destruct op as [|z r]; [right; split; reflexivity|].
      destruct (Z.eq_dec z 4) as [->|N4]; [left; eauto|right].
      destruct (Z.eq_dec z 1) as [->|N1].
      { destruct r as [|k l]; [split; reflexivity|]. exfalso. exact (N k l eq_refl). }
      destruct z as [|q|q]; try (split; reflexivity).
      repeat (destruct q as [q|q|]; try (split; reflexivity)); congruence. }
    destruct D4 as [[r ->]|[E1 E2]].
    + unfold chunk. apply resolver_error_ok; assumption.
    + rewrite E1, E2. split; [exact I|].
      assert (CO : clause_op s op [] i =
            [ (1, i, ready_ok s []); (2, i, order_ok [] []);
              (4, i, negb (sticky s) || match connecting_before_ready [] false with Some _ => false | None => true end) ]).
      { unfold clause_op. destruct op as [|z [|k l]]; try reflexivity;
          try (destruct z as [|q|q]; try reflexivity; destruct q; reflexivity).
        destruct (Z.eq_dec z 1) as [->|Nz]; [exfalso; exact (N k l eq_refl)|].
        destruct z as [|q|q]; try reflexivity. destruct q; try reflexivity. congruence. }
      rewrite CO. cbn. rewrite !orb_true_r. reflexivity.
Qed.

(* ---------- the [0] marker ---------- *)

Definition nz (w : word) : bool := match w with z :: _ => negb (z =? 0) | [] => true end.

Lemma split_chunk_app e rest : forallb nz e = true -> split_chunk (e ++ [0] :: rest) = Some (e, rest).
Proof.
  induction e as [|w e IH]; intros H; [reflexivity|].
  cbn [forallb] in H. apply andb_true_iff in H. destruct H as [Hw He].
  cbn [app split_chunk]. rewrite (IH He).
  destruct w as [|z w']; [reflexivity|]. destruct z; try reflexivity. discriminate.
Qed.

Lemma nz_S ps : forallb nz (evSs ps) = true.
Proof. induction ps; [reflexivity|assumption]. Qed.
Lemma nz_reqs cs : forallb nz (reqs cs) = true.
Proof. induction cs; [reflexivity|assumption]. Qed.

Lemma nz_pass s retained F k cn n_new : forallb nz (snd (pass s retained F k cn n_new)) = true.
Proof.
  unfold pass. destruct (number (nsc s) _) as [|first rest]; [reflexivity|].
  change (flat_map (fun p : Z * Z => [evN (snd p) (fst p); evC (snd p)]) [first]) with (reqs [first]).
  change (flat_map (fun p : Z * Z => [evN (snd p) (fst p); evC (snd p)]) rest) with (reqs rest).
  change (map (fun p : Z * Z => evS (snd p)) ?x) with (evSs x).
  destruct ((0 <=? k) && (k <? Z.of_nat (length F))); cbn [snd];
    rewrite !forallb_app, ?nz_reqs, ?nz_S; destruct cn; reflexivity.
Qed.

Lemma nz_round s k l : forallb nz (snd (round s k l)) = true.
Proof.
  unfold round.
  destruct (filter valid_addr l) as [|a l1].
  - cbn [snd]. change (map (fun p : Z * Z => evS (snd p)) ?x) with (evSs x).
    rewrite !forallb_app, nz_S. reflexivity.
  - destruct (match rdy s with Some p => memz (fst p) (preprocess (a :: l1)) | None => false end); [reflexivity|].
    change (map (fun p : Z * Z => evS (snd p)) ?x) with (evSs x).
    destruct (_ || (bstate s =? CONNECTING) || (naddrs s =? 0)).
    + match goal with |- context [pass ?a ?b ?c ?d ?e ?f] => pose proof (nz_pass a b c d e f) as P; destruct (pass a b c d e f) end.
      cbn [snd] in *. rewrite !forallb_app. repeat (apply andb_true_iff; split); try reflexivity; try exact P; try apply nz_S.
    + destruct (bstate s =? TF).
      * match goal with |- context [pass ?a ?b ?c ?d ?e ?f] => pose proof (nz_pass a b c d e f) as P; destruct (pass a b c d e f) end.
        cbn [snd] in *. rewrite !forallb_app. repeat (apply andb_true_iff; split); try reflexivity; try exact P; try apply nz_S.
      * cbn [snd]. rewrite !forallb_app, nz_S. reflexivity.
Qed.

Lemma nz_chunk s op : forallb nz (chunk s op) = true.
Proof.
  unfold chunk. destruct op as [|z r]; [reflexivity|].
  destruct (Z.eq_dec z 1) as [->|N1].
  { destruct r as [|k l]; [reflexivity|]. apply nz_round. }
  destruct (Z.eq_dec z 4) as [->|N4].
  { unfold resolver_error. destruct (negb (bstate s =? TF) && (0 <? naddrs s)); reflexivity. }
  destruct z as [|q|q]; try reflexivity.
  repeat (destruct q as [q|q|]; try reflexivity); congruence.
Qed.

Lemma clauses_from_ok ops : forall s i, Inv s ->
  forallb ok5 (clauses_from s ops (snd (run_from s ops)) i) = true.
Proof.
  induction ops as [|op r IH]; intros s i I; [reflexivity|].
  cbn [run_from clauses_from].
  destruct (step_ok s op i I) as [I1 C].
  assert (E : snd (step s op) = chunk s op ++ [[0]]) by (rewrite step_eq; reflexivity).
  destruct (step s op) as [s1 e]. cbn [fst snd] in *. subst e.
  specialize (IH s1 (i + 1) I1). destruct (run_from s1 r) as [s2 e']. cbn [snd] in *.
  rewrite <- app_assoc. cbn [app]. rewrite (split_chunk_app _ _ (nz_chunk s op)).
  rewrite forallb_app, C. exact IH.
Qed.

Theorem model_trace_holds ops : exists obs, run ops = Some obs /\ holds_b ops obs = true.
Proof.
  exists (snd (run_from init ops)). split; [reflexivity|].
  unfold holds_b, clauses. apply (clauses_from_ok ops init 0 Inv_init).
Qed.

(* ---------- readable statements ---------- *)

Definition reachable (s : st) : Prop := exists ops, s = fst (run_from init ops).

Lemma run_from_inv ops : forall s, Inv s -> Inv (fst (run_from s ops)).
Proof.
  induction ops as [|op r IH]; intros s I; cbn [run_from]; [exact I|].
  destruct (step_ok s op 0 I) as [I1 _]. destruct (step s op) as [s1 e]. cbn [fst] in *.
  specialize (IH s1 I1). destruct (run_from s1 r). exact IH.
Qed.

Lemma reachable_inv s : reachable s -> Inv s.
Proof. intros [ops ->]. apply run_from_inv. exact Inv_init. Qed.

(* in every reachable state, for every resolver update and every position of the successful
   attempt: READY soundness, connection order, TF after all failed, and no CONNECTING while
   sticky unless a new sub-channel was created first *)
Lemma round_properties s k l0 : reachable s ->
  let ch := snd (round s k l0) in
  let l' := preprocess (filter valid_addr l0) in
  ready_ok s ch = true /\ order_ok l' ch = true /\
  (filter valid_addr l0 <> [] ->
   match rdy s with Some p => memz (fst p) l' | None => false end = false -> tf_ok k ch = true) /\
  (sticky s = true -> connecting_before_ready ch false = None).
Proof.
  intros R. cbv zeta. destruct (round_ok s k l0 0 (reachable_inv s R)) as [_ H].
  unfold round_clauses in H. cbn [forallb ok5 fst snd] in H.
  repeat (apply andb_true_iff in H; destruct H as [? H]).
  cbn in H0, H1, H2, H3.
  repeat split; try assumption.
  - intros NE KR. rewrite KR in H2. destruct (filter valid_addr l0); [congruence|]. exact H2.
  - intros ST. rewrite ST in H3, H4. cbn in H3, H4.
    destruct (connecting_before_ready (snd (round s k l0)) false) as [[|]|]; try discriminate. reflexivity.
Qed.

(* sticky TF holds across resolver updates that bring no new address *)
Lemma sticky_tf_no_new_address s k l0 : reachable s -> sticky s = true ->
  (forall a, In a (filter valid_addr l0) -> has_addr a (subs s) = true) ->
  filter valid_addr l0 <> [] ->
  u_events (snd (round s k l0)) = [(TF, -1)].
Proof.
  intros R ST HA NE. destruct (reachable_inv s R) as [I1 I2].
  unfold sticky in ST. apply andb_true_iff in ST. destruct ST as [B N].
  apply Z.eqb_eq in B. apply Z.ltb_lt in N.
  assert (RN : rdy s = None).
  { destruct (rdy s) as [p|] eqn:E; [|reflexivity]. destruct (I1 p eq_refl) as [X _]. rewrite X in B. discriminate. }
  unfold round. destruct (filter valid_addr l0) as [|a l1] eqn:EL; [congruence|].
  set (l' := preprocess (a :: l1)). rewrite RN, B. cbn [orb].
  replace (TF =? CONNECTING) with false by reflexivity.
  replace (naddrs s =? 0) with false by (symmetry; apply Z.eqb_neq; lia).
  replace (TF =? TF) with true by reflexivity. cbn [orb].
  set (retained := filter (fun p => memz (fst p) l') (subs s)).
  assert (F0 : filter (fun a0 => negb (has_addr a0 retained)) l' = []).
  { assert (G : forall (p : Z -> bool) l, (forall x, In x l -> p x = false) -> filter p l = []).
    { intros p l. induction l as [|x r IH]; intros H; [reflexivity|]. cbn [filter].
      rewrite (H x (or_introl eq_refl)). apply IH. intros; apply H; right; assumption. }
    apply G. intros x Hx. apply negb_false_iff.
    assert (Hx' : In x (a :: l1)) by (apply preprocess_In; exact Hx).
    specialize (HA x Hx'). unfold has_addr in *. apply existsb_exists in HA. destruct HA as [p [Hp E]].
    apply existsb_exists. exists p. split; [|exact E]. apply filter_In. split; [exact Hp|].
    apply memz_In. apply Z.eqb_eq in E. rewrite E. exact Hx. }
  rewrite F0. unfold pass. cbn [length Z.of_nat].
  assert (KF : (0 <=? k) && (k <? 0) = false).
  { destruct (0 <=? k) eqn:E; [|reflexivity]. apply Z.leb_le in E. cbn [andb]. apply Z.ltb_ge. lia. }
  rewrite KF.
  cbn [number snd]. change (map (fun p : Z * Z => evS (snd p)) ?x) with (evSs x).
  rewrite !u_events_app. destruct (ext_S (filter (fun p => negb (memz (fst p) l')) (subs s ++ []))) as [_ [_ [_ [U _]]]].
  rewrite U. reflexivity.
Qed.

Lemma pass_final s retained F k cn n_new :
  let s' := fst (pass s retained F k cn n_new) in
  bstate s' = READY \/ (bstate s' = TF /\ naddrs s' = n_new).
Proof.
  cbv zeta. unfold pass. destruct (number (nsc s) _) as [|first rest]; [right; split; reflexivity|].
  destruct ((0 <=? k) && (k <? Z.of_nat (length F))); [left|right; split]; reflexivity.
Qed.

(* sticky TRANSIENT_FAILURE (A62), full: from a state in which TF was reported after a pass
   over a non-empty list, NO resolver update - whatever addresses it adds or removes and
   whichever attempt succeeds - publishes CONNECTING; the round publishes only TF or READY,
   and afterwards the policy is sticky again, or READY, or (empty list) in the
   resolver-error TF of the A62 exception *)
Lemma sticky_tf s k l0 : reachable s -> sticky s = true ->
  let r := round s k l0 in
  (forall u, In u (u_events (snd r)) -> fst u = TF \/ fst u = READY) /\
  connecting_before_ready (snd r) false = None /\
  (sticky (fst r) = true \/ bstate (fst r) = READY \/ filter valid_addr l0 = []).
Proof.
  intros R ST. cbv zeta. pose proof (reachable_inv s R) as I. destruct I as [I1 I2].
  destruct (round_properties s k l0 R) as [_ [_ [_ C4]]]. cbv zeta in C4. specialize (C4 ST).
  split; [|split; [exact C4|]].
  - unfold sticky in ST. apply andb_true_iff in ST. destruct ST as [B N].
    apply Z.eqb_eq in B. apply Z.ltb_lt in N.
    assert (RN : rdy s = None).
    { destruct (rdy s) as [p|] eqn:E; [|reflexivity]. destruct (I1 p eq_refl) as [X _]. rewrite X in B. discriminate. }
    unfold round. destruct (filter valid_addr l0) as [|a l1] eqn:EL.
    + cbn [snd]. change (map (fun p : Z * Z => evS (snd p)) ?x) with (evSs x).
      rewrite !u_events_app. destruct (ext_S (subs s ++ match rdy s with Some p => [p] | None => [] end)) as [_ [_ [_ [U _]]]].
      rewrite U. intros u [<-|[]]. left. reflexivity.
    + set (l' := preprocess (a :: l1)). rewrite RN, B. cbn [orb].
      replace (TF =? CONNECTING) with false by reflexivity.
      replace (naddrs s =? 0) with false by (symmetry; apply Z.eqb_neq; lia).
      replace (TF =? TF) with true by reflexivity. cbn [orb].
      match goal with |- context [pass ?a ?b ?c ?d ?e ?f] =>
        pose proof (pass_facts a b c d e f) as PF; cbv zeta in PF; destruct (pass a b c d e f) as [s1 e1] end.
      cbn [snd] in *. destruct PF as [_ [_ [_ [P4 [P5 [P6 _]]]]]].
      change (map (fun p : Z * Z => evS (snd p)) ?x) with (evSs x).
      rewrite !u_events_app.
      match goal with |- context [evSs ?x] => destruct (ext_S x) as [_ [_ [_ [U _]]]]; rewrite U end.
      cbn [app u_events flat_map].
      match type of P4 with ?c = [] -> _ => destruct c as [|c0 cr] eqn:EC end.
      * rewrite (P4 eq_refl). intros u [<-|[]]. left. reflexivity.
      * match type of P6 with ?sc = true -> _ => destruct sc eqn:HS end.
        -- destruct (P6 eq_refl) as [win [_ [_ UE]]]. rewrite UE. intros u [<-|[]]. right. reflexivity.
        -- destruct (P5 ltac:(discriminate) eq_refl) as [_ UE]. rewrite UE. intros u [<-|[]]. left. reflexivity.
  - unfold sticky in ST. apply andb_true_iff in ST. destruct ST as [B N].
    apply Z.eqb_eq in B. apply Z.ltb_lt in N.
    assert (RN : rdy s = None).
    { destruct (rdy s) as [p|] eqn:E; [|reflexivity]. destruct (I1 p eq_refl) as [X _]. rewrite X in B. discriminate. }
    unfold round. destruct (filter valid_addr l0) as [|a l1] eqn:EL; [right; right; reflexivity|].
    rewrite RN, B. cbn [orb].
    replace (TF =? CONNECTING) with false by reflexivity.
    replace (naddrs s =? 0) with false by (symmetry; apply Z.eqb_neq; lia).
    replace (TF =? TF) with true by reflexivity. cbn [orb].
    match goal with |- context [pass ?a ?b ?c ?d ?e ?f] =>
      pose proof (pass_final a b c d e f) as PF; cbv zeta in PF; destruct (pass a b c d e f) as [s1 e1] end.
    cbn [fst] in *. destruct PF as [PF|[PF1 PF2]]; [right; left; exact PF|left].
    unfold sticky. rewrite PF1, PF2. cbn [Z.eqb andb]. apply Z.ltb_lt. apply preprocess_nonempty.
Qed.

(* a resolver error while sticky re-publishes TF and stays sticky *)
Lemma sticky_tf_resolver_error s : sticky s = true ->
  snd (resolver_error s) = [evU TF (-1)] /\ sticky (fst (resolver_error s)) = true.
Proof.
  intros ST. unfold resolver_error. unfold sticky in *. apply andb_true_iff in ST. destruct ST as [B N].
  rewrite B. cbn [negb andb fst snd]. split; [reflexivity|]. cbn. rewrite N. reflexivity.
Qed.
