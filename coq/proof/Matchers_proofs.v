(* Proofs for C47 (engine Matchers). *)
From Coq Require Import List ZArith Bool Lia.
From VLib Require Import Codec Machine.
From VModel Require Import Matchers.
Import ListNotations.
Open Scope Z_scope.

(* ---------------------------------------------------------------- strings *)

Lemma str_eqb_spec : forall a b, str_eqb a b = true <-> a = b.
Proof.
  unfold str_eqb. induction a as [|x a IH]; destruct b as [|y b]; simpl; split; intro Hx;
    try reflexivity; try discriminate.
  - apply andb_true_iff in Hx. destruct Hx as [H1 H2]. apply Z.eqb_eq in H1.
    apply IH in H2. subst. reflexivity.
  - inversion Hx; subst. rewrite Z.eqb_refl. simpl. apply IH. reflexivity.
Qed.

Lemma word_eqb_refl : forall a, word_eqb a a = true.
Proof. intro a. apply (str_eqb_spec a a). reflexivity. Qed.

Lemma prefixb_spec : forall p s, prefixb p s = true <-> exists r, s = p ++ r.
Proof.
  induction p as [|x p IH]; intros s; simpl.
  - split; [intros _; exists s; reflexivity | reflexivity].
  - destruct s as [|y s].
    + split; [discriminate | intros [r Hr]; discriminate].
    + rewrite andb_true_iff, Z.eqb_eq, IH. split.
      * intros [-> [r ->]]. exists r. reflexivity.
      * intros [r Hr]. inversion Hr; subst. split; [reflexivity | exists r; reflexivity].
Qed.

Lemma suffixb_spec : forall p s, suffixb p s = true <-> exists r, s = r ++ p.
Proof.
  intros p s. unfold suffixb. rewrite prefixb_spec. split.
  - intros [r Hr]. exists (rev r). rewrite <- (rev_involutive s), Hr, rev_app_distr, rev_involutive.
    reflexivity.
  - intros [r ->]. exists (rev r). apply rev_app_distr.
Qed.

Lemma containsb_spec : forall p s, containsb p s = true <-> exists a b, s = a ++ p ++ b.
Proof.
  intros p s. induction s as [|y s IH]; simpl.
  - rewrite orb_false_r, prefixb_spec. split.
    + intros [r Hr]. exists [], r. exact Hr.
    + intros [a [b Hab]]. destruct a; [exists b; exact Hab | discriminate].
  - rewrite orb_true_iff, prefixb_spec, IH. split.
    + intros [[r Hr] | [a [b Hab]]].
      * exists [], r. exact Hr.
      * exists (y :: a), b. simpl. rewrite Hab. reflexivity.
    + intros [a [b Hab]]. destruct a as [|z a].
      * left. exists b. exact Hab.
      * right. inversion Hab; subst. exists a, b. reflexivity.
Qed.

(* the four comparisons: 1 exact, 2 prefix, 3 suffix, otherwise contains *)
Definition cmpb (kind : Z) (arg v : str) : bool :=
  if kind =? 1 then str_eqb v arg else
  if kind =? 2 then prefixb arg v else
  if kind =? 3 then suffixb arg v else containsb arg v.
Definition cmpP (kind : Z) (arg v : str) : Prop :=
  if kind =? 1 then v = arg else
  if kind =? 2 then exists r, v = arg ++ r else
  if kind =? 3 then exists r, v = r ++ arg else exists x y, v = x ++ arg ++ y.

Lemma cmpb_spec : forall kind arg v, cmpb kind arg v = true <-> cmpP kind arg v.
Proof.
  intros kind arg v. unfold cmpb, cmpP.
  destruct (kind =? 1); [apply str_eqb_spec|].
  destruct (kind =? 2); [apply prefixb_spec|].
  destruct (kind =? 3); [apply suffixb_spec | apply containsb_spec].
Qed.

Lemma xorb_true_spec : forall b inv, xorb b inv = true <-> (b = true <-> inv = false).
Proof. intros [] []; simpl; intuition congruence. Qed.

(* ---------------------------------------------------------------- header matchers *)

Lemma value_from_spec : forall m k,
  value_from m k = match md_get m k with None => None | Some vs => Some (join vs) end.
Proof. reflexivity. Qed.

(* exact / prefix / suffix / contains header matchers *)
Lemma hdr_simple_spec : forall UL pe kind inv a b key arg m, 1 <= kind <= 4 ->
  (hdr_eval UL pe kind inv a b key arg m = true <->
   exists vs, md_get m key = Some vs /\ (cmpP kind arg (join vs) <-> inv = false)).
Proof.
  intros UL pe kind inv a b key arg m Hk. unfold hdr_eval, value_from.
  destruct (kind =? 6) eqn:E6; [apply Z.eqb_eq in E6; lia|].
  destruct (md_get m key) as [vs|].
  - assert (Hr : (if kind =? 1 then str_eqb (join vs) arg else if kind =? 2 then prefixb arg (join vs)
                  else if kind =? 3 then suffixb arg (join vs) else if kind =? 4 then containsb arg (join vs)
                  else if kind =? 5 then match parse_int (join vs) with Some i => (a <=? i) && (i <? b) | None => false end
                  else sm_eval UL (kind - 6) (z2b a) arg (join vs)) = cmpb kind arg (join vs)).
    { unfold cmpb. destruct (kind =? 1) eqn:E1; [reflexivity|]. destruct (kind =? 2) eqn:E2; [reflexivity|].
      destruct (kind =? 3) eqn:E3; [reflexivity|]. destruct (kind =? 4) eqn:E4; [reflexivity|].
      apply Z.eqb_neq in E1, E2, E3, E4. lia. }
    rewrite Hr, xorb_true_spec, cmpb_spec. split.
    + intro Hx. exists vs. split; [reflexivity | exact Hx].
    + intros [vs' [Hv Hx]]. inversion Hv; subst. exact Hx.
  - split; [discriminate | intros [vs [Hv _]]; discriminate].
Qed.

(* every matcher except present_match is false on an absent header, whatever invert is *)
Lemma hdr_absent : forall UL pe kind inv a b key arg m, kind <> 6 ->
  md_get m key = None -> hdr_eval UL pe kind inv a b key arg m = false.
Proof.
  intros UL pe kind inv a b key arg m Hk Hn. unfold hdr_eval, value_from.
  destruct (kind =? 6) eqn:E6; [apply Z.eqb_eq in E6; contradiction|]. rewrite Hn. reflexivity.
Qed.

(* invert flips the result when the header is present *)
Lemma hdr_invert : forall UL pe kind inv a b key arg m vs, kind <> 6 ->
  md_get m key = Some vs ->
  hdr_eval UL pe kind (negb inv) a b key arg m = negb (hdr_eval UL pe kind inv a b key arg m).
Proof.
  intros UL pe kind inv a b key arg m vs Hk Hs. unfold hdr_eval, value_from.
  destruct (kind =? 6) eqn:E6; [apply Z.eqb_eq in E6; contradiction|]. rewrite Hs.
  destruct inv; simpl; [rewrite xorb_false_r, xorb_true_r | rewrite xorb_false_r, xorb_true_r];
    try reflexivity. rewrite negb_involutive. reflexivity.
Qed.

Lemma hdr_regex_spec : forall inv key r m,
  hdr_regex_eval inv key r m = true <->
  exists vs, md_get m key = Some vs /\ (rmatch r (join vs) = true <-> inv = false).
Proof.
  intros inv key r m. unfold hdr_regex_eval, value_from. destruct (md_get m key) as [vs|].
  - rewrite xorb_true_spec. split.
    + intro Hx. exists vs. split; [reflexivity | exact Hx].
    + intros [vs' [Hv Hx]]. inversion Hv; subst. exact Hx.
  - split; [discriminate | intros [vs [Hv _]]; discriminate].
Qed.

Lemma hdr_range_spec : forall UL pe inv a b key arg m,
  hdr_eval UL pe 5 inv a b key arg m = true <->
  exists vs, md_get m key = Some vs /\
    ((exists i, parse_int (join vs) = Some i /\ a <= i < b) <-> inv = false).
Proof.
  intros UL pe inv a b key arg m. unfold hdr_eval, value_from. cbn [Z.eqb Pos.eqb].
  destruct (md_get m key) as [vs|].
  - rewrite xorb_true_spec.
    assert (Hr : match parse_int (join vs) with Some i => (a <=? i) && (i <? b) | None => false end = true
                 <-> exists i, parse_int (join vs) = Some i /\ a <= i < b).
    { destruct (parse_int (join vs)) as [i|].
      - rewrite andb_true_iff, Z.leb_le, Z.ltb_lt. split.
        + intro Hx. exists i. split; [reflexivity | exact Hx].
        + intros [i' [Hi Hx]]. inversion Hi; subst. exact Hx.
      - split; [discriminate | intros [i [Hi _]]; discriminate]. }
    rewrite Hr. split.
    + intro Hx. exists vs. split; [reflexivity | exact Hx].
    + intros [vs' [Hv Hx]]. inversion Hv; subst. exact Hx.
  - split; [discriminate | intros [vs [Hv _]]; discriminate].
Qed.

(* present_match as the code evaluates it: present = in the map with a non-empty joined value *)
Lemma hdr_present_spec : forall UL inv a b key arg m,
  hdr_eval UL true 6 inv a b key arg m = true <->
  ((exists vs, md_get m key = Some vs /\ join vs <> []) <-> xorb (z2b a) inv = true).
Proof.
  intros UL inv a b key arg m. unfold hdr_eval, value_from. cbn [Z.eqb Pos.eqb].
  destruct (md_get m key) as [vs|].
  - destruct (join vs) as [|c r] eqn:Ej; cbn [negb]; rewrite eqb_true_iff.
    + split.
      * intro Hx. split; [intros [vs' [Hv Hne]]; inversion Hv; subst; congruence | intro Hy; rewrite Hy in Hx; discriminate].
      * intros [H1 H2]. destruct (xorb (z2b a) inv); [|reflexivity].
        destruct (H2 eq_refl) as [vs' [Hv Hne]]. inversion Hv; subst. congruence.
    + split.
      * intro Hx. split; [intros _; auto | intros _; exists vs; split; [reflexivity | rewrite Ej; discriminate]].
      * intros [H1 _]. symmetry. apply H1. exists vs. split; [reflexivity | rewrite Ej; discriminate].
  - rewrite eqb_true_iff. split.
    + intro Hx. split; [intros [vs [Hv _]]; discriminate | intro Hy; rewrite Hy in Hx; discriminate].
    + intros [_ H2]. destruct (xorb (z2b a) inv); [|reflexivity]. destruct (H2 eq_refl) as [vs [Hv _]]. discriminate.
Qed.

(* "present_match compares presence" fails for a header that is present with an empty value *)
Lemma present_refuted :
  exists m key, md_get m key = Some [[]] /\ hdr_eval tl true 6 false 1 0 key [] m = false.
Proof. exists [([107], [[]])], [107]. vm_compute. split; reflexivity. Qed.

(* ---------------------------------------------------------------- ParseInt *)

Definition dval (ds : str) : Z := fold_left (fun acc c => acc * 10 + (c - 48)) ds 0.

Lemma dec_val_spec : forall ds acc v,
  dec_val acc ds = Some v <->
  forallb is_digit ds = true /\ v = fold_left (fun acc c => acc * 10 + (c - 48)) ds acc.
Proof.
  induction ds as [|c r IH]; intros acc v; simpl.
  - split; [intro Hx; inversion Hx; auto | intros [_ ->]; reflexivity].
  - destruct (is_digit c); simpl; [apply IH|]. split; [discriminate | intros [Hx _]; discriminate].
Qed.

Lemma parse_int_sound : forall s n, parse_int s = Some n ->
  min_i64 <= n <= max_i64 /\
  exists sg ds, s = sg ++ ds /\ (sg = [] \/ sg = [43] \/ sg = [45]) /\ ds <> [] /\
    forallb is_digit ds = true /\ n = (if str_eqb sg [45] then - dval ds else dval ds).
Proof.
  intros s n. unfold parse_int.
  set (p := split_sign s).
  assert (Hp : exists sg, s = sg ++ snd p /\
            ((sg = [] /\ fst p = false) \/ (sg = [43] /\ fst p = false) \/ (sg = [45] /\ fst p = true))).
  { unfold p, split_sign. destruct s as [|c r]; [exists []; auto|].
    destruct (Z.eqb_spec c 43) as [-> | H43]; [exists [43]; simpl; auto|].
    destruct (Z.eqb_spec c 45) as [-> | H45]; [exists [45]; simpl; auto|].
    exists []. simpl. auto. }
  destruct p as [neg ds]. simpl in Hp. destruct Hp as [sg [Hs Hsg]].
  destruct ds as [|d0 dr]; [discriminate|].
  destruct (dec_val 0 (d0 :: dr)) as [v|] eqn:Ed; [|discriminate].
  apply dec_val_spec in Ed. destruct Ed as [Hdig Hv].
  destruct (in_i64 (if neg then - v else v)) eqn:Er; [|discriminate].
  intro Hx. inversion Hx; subst n. split.
  - unfold in_i64 in Er. apply andb_true_iff in Er. rewrite !Z.leb_le in Er. exact Er.
  - exists sg, (d0 :: dr). split; [exact Hs|]. split; [tauto|]. split; [discriminate|]. split; [exact Hdig|].
    fold (dval (d0 :: dr)) in Hv. rewrite Hv.
    destruct Hsg as [[-> ->] | [[-> ->] | [-> ->]]]; reflexivity.
Qed.

Lemma parse_int_complete : forall sg ds, (sg = [] \/ sg = [43] \/ sg = [45]) -> ds <> [] ->
  forallb is_digit ds = true ->
  let n := if str_eqb sg [45] then - dval ds else dval ds in
  min_i64 <= n <= max_i64 -> parse_int (sg ++ ds) = Some n.
Proof.
  intros sg ds Hsg Hne Hdig n Hr. destruct ds as [|d0 dr]; [contradiction|].
  assert (Hd0 : is_digit d0 = true) by (simpl in Hdig; apply andb_true_iff in Hdig; tauto).
  assert (Hdv : dec_val 0 (d0 :: dr) = Some (dval (d0 :: dr))) by (apply dec_val_spec; split; [exact Hdig | reflexivity]).
  assert (Hin : in_i64 n = true) by (unfold in_i64; apply andb_true_iff; rewrite !Z.leb_le; exact Hr).
  unfold is_digit in Hd0. apply andb_true_iff in Hd0. rewrite !Z.leb_le in Hd0.
  destruct Hsg as [-> | [-> | ->]]; unfold parse_int.
  - cbn [app]. assert (Hm : split_sign (d0 :: dr) = (false, d0 :: dr)).
    { unfold split_sign. destruct (Z.eqb_spec d0 43); [lia|]. destruct (Z.eqb_spec d0 45); [lia|]. reflexivity. }
    rewrite Hm, Hdv. subst n. simpl str_eqb in Hin. simpl str_eqb. cbv iota. rewrite Hin. reflexivity.
  - cbn [app]. cbn [split_sign Z.eqb Pos.eqb]. rewrite Hdv. subst n. simpl str_eqb in *. cbv iota. rewrite Hin. reflexivity.
  - cbn [app]. cbn [split_sign Z.eqb Pos.eqb]. rewrite Hdv. subst n. simpl str_eqb in *. cbv iota. rewrite Hin. reflexivity.
Qed.

(* ---------------------------------------------------------------- case folding *)

Definition is_ascii (s : str) : Prop := Forall (fun c => c < 128) s.

Lemma lower_ascii : forall UL s, is_ascii s -> lower UL s = map alower s.
Proof.
  intros UL s Hs. unfold lower. apply map_ext_in. intros c Hc.
  unfold is_ascii in Hs. rewrite Forall_forall in Hs. specialize (Hs c Hc).
  unfold lower1. destruct (c <? 128) eqn:E; [reflexivity | apply Z.ltb_ge in E; lia].
Qed.

Lemma upper_ascii : forall UU s, is_ascii s -> upper UU s = map aupper s.
Proof.
  intros UU s Hs. unfold upper. apply map_ext_in. intros c Hc.
  unfold is_ascii in Hs. rewrite Forall_forall in Hs. specialize (Hs c Hc).
  unfold upper1. destruct (c <? 128) eqn:E; [reflexivity | apply Z.ltb_ge in E; lia].
Qed.

Lemma sm_eval_cmpb : forall UL kind ic pat input,
  sm_eval UL kind ic pat input =
  cmpb kind (if ic then lower UL pat else pat) (if ic then lower UL input else input).
Proof. reflexivity. Qed.

(* ignore_case on ASCII strings = comparison after ASCII lower-casing, whatever
   unicode.ToLower does above 127; without ignore_case = plain comparison *)
Lemma sm_ascii_ci : forall UL kind pat input, is_ascii pat -> is_ascii input ->
  (sm_eval UL kind true pat input = true <-> cmpP kind (map alower pat) (map alower input)) /\
  (sm_eval UL kind false pat input = true <-> cmpP kind pat input).
Proof.
  intros UL kind pat input Hp Hi. rewrite !sm_eval_cmpb. cbv iota.
  rewrite (lower_ascii UL pat Hp), (lower_ascii UL input Hi). split; apply cmpb_spec.
Qed.

Lemma path_ascii_ci : forall UU kind pat path, is_ascii pat -> is_ascii path ->
  (path_eval UU kind true pat path = true <->
     if kind =? 1 then map aupper path = map aupper pat else exists r, map aupper path = map aupper pat ++ r) /\
  (path_eval UU kind false pat path = true <->
     if kind =? 1 then path = pat else exists r, path = pat ++ r).
Proof.
  intros UU kind pat path Hp Hs. unfold path_eval.
  rewrite (upper_ascii UU pat Hp), (upper_ascii UU path Hs).
  destruct (kind =? 1); split; try apply prefixb_spec; rewrite str_eqb_spec; split; congruence.
Qed.

(* with Go's Unicode tables the comparison is not ASCII-case-insensitive on non-ASCII input *)
Lemma ascii_ci_refuted :
  (sm_eval tl 1 true [107] [8490] = true /\ map alower [8490] <> map alower [107]) /\
  (path_eval tu 1 true [47; 115] [47; 383] = true /\ map aupper [47; 383] <> map aupper [47; 115]).
Proof. split; split; try (vm_compute; reflexivity); vm_compute; discriminate. Qed.

(* ---------------------------------------------------------------- regular expressions *)

Inductive lang : re -> str -> Prop :=
| L_eps : lang REps []
| L_chr : forall c, lang (RChr c) [c]
| L_any : forall c, c <> 10 -> lang RAny [c]
| L_cat : forall a b s1 s2, lang a s1 -> lang b s2 -> lang (RCat a b) (s1 ++ s2)
| L_altl : forall a b s, lang a s -> lang (RAlt a b) s
| L_altr : forall a b s, lang b s -> lang (RAlt a b) s
| L_star0 : forall a, lang (RStar a) []
| L_star1 : forall a s1 s2, lang a s1 -> lang (RStar a) s2 -> lang (RStar a) (s1 ++ s2).

Lemma nullable_spec : forall r, nullable r = true <-> lang r [].
Proof.
  induction r; simpl.
  - split; [discriminate | intro H; inversion H].
  - split; [intros _; constructor | reflexivity].
  - split; [discriminate | intro H; inversion H].
  - split; [discriminate | intro H; inversion H].
  - rewrite andb_true_iff, IHr1, IHr2. split.
    + intros [H1 H2]. change (@nil Z) with (@nil Z ++ []). constructor; assumption.
    + intro H. inversion H as [| | |a b s1 s2 H1 H2 E1 E2| | | |]; subst.
      apply app_eq_nil in E2. destruct E2; subst. auto.
  - rewrite orb_true_iff, IHr1, IHr2. split.
    + intros [H|H]; [apply L_altl | apply L_altr]; exact H.
    + intro H. inversion H; subst; auto.
  - split; [intros _; constructor | reflexivity].
Qed.

Lemma star_cons : forall a c s, lang (RStar a) (c :: s) ->
  exists s1 s2, s = s1 ++ s2 /\ lang a (c :: s1) /\ lang (RStar a) s2.
Proof.
  intros a c s H. remember (RStar a) as r eqn:Er. remember (c :: s) as w eqn:Ew.
  revert a c s Er Ew. induction H; intros a0 c0 s0 Er Ew; try discriminate.
  inversion Er; subst a0. destruct s1 as [|x s1'].
  - simpl in Ew. exact (IHlang2 a c0 s0 eq_refl Ew).
  - simpl in Ew. inversion Ew; subst. exists s1', s2. auto.
Qed.

Lemma deriv_spec : forall r x s, lang (deriv x r) s <-> lang r (x :: s).
Proof.
  induction r as [| |d| |r1 IHr1 r2 IHr2|r1 IHr1 r2 IHr2|r IHr]; intros x s; simpl.
  - split; intro H; inversion H.
  - split; intro H; inversion H.
  - destruct (Z.eqb_spec x d) as [-> | Hne].
    + split; intro H; inversion H; subst; constructor.
    + split; intro H; inversion H; subst; contradiction.
  - destruct (Z.eqb_spec x 10) as [-> | Hne].
    + split; intro H; inversion H; subst; contradiction.
    + split; intro H; inversion H; subst; constructor; assumption.
  - destruct (nullable r1) eqn:En.
    + split.
      * intro H. inversion H as [| | | |a b s0 H1|a b s0 H1| |]; subst.
        -- inversion H1 as [| | |a b s1 s2 Ha Hb| | | |]; subst. apply IHr1 in Ha.
           change (x :: s1 ++ s2) with ((x :: s1) ++ s2). constructor; assumption.
        -- apply IHr2 in H1. change (x :: s) with ([] ++ x :: s). constructor; [|exact H1].
           apply nullable_spec. exact En.
      * intro H. inversion H as [| | |a b s1 s2 Ha Hb E1 E2| | | |]; subst.
        destruct s1 as [|y s1']; simpl in E2.
        -- subst s2. apply L_altr. apply IHr2. exact Hb.
        -- inversion E2; subst. apply L_altl. constructor; [apply IHr1; exact Ha | exact Hb].
    + split.
      * intro H. inversion H as [| | |a b s1 s2 Ha Hb| | | |]; subst. apply IHr1 in Ha.
        change (x :: s1 ++ s2) with ((x :: s1) ++ s2). constructor; assumption.
      * intro H. inversion H as [| | |a b s1 s2 Ha Hb E1 E2| | | |]; subst.
        destruct s1 as [|y s1']; simpl in E2.
        -- apply nullable_spec in Ha. congruence.
        -- inversion E2; subst. constructor; [apply IHr1; exact Ha | exact Hb].
  - split.
    + intro H. inversion H; subst; [apply L_altl; apply IHr1 | apply L_altr; apply IHr2]; assumption.
    + intro H. inversion H; subst; [apply L_altl; apply IHr1 | apply L_altr; apply IHr2]; assumption.
  - split.
    + intro H. inversion H as [| | |a b s1 s2 Ha Hb| | | |]; subst. apply IHr in Ha.
      change (x :: s1 ++ s2) with ((x :: s1) ++ s2). apply L_star1; assumption.
    + intro H. apply star_cons in H. destruct H as [s1 [s2 [-> [Ha Hs]]]].
      constructor; [apply IHr; exact Ha | exact Hs].
Qed.

(* the matcher decides membership of the WHOLE string in the language of the expression *)
Lemma rmatch_spec : forall s r, rmatch r s = true <-> lang r s.
Proof.
  induction s as [|c s IH]; intro r; simpl.
  - apply nullable_spec.
  - rewrite IH. apply deriv_spec.
Qed.

(* ---------------------------------------------------------------- bridge *)

Definition okc (c : Z * Z * bool) : bool := isf c || snd c.

Lemma finding_isf : forall o x b, isf (finding_clause o, x, b) = true.
Proof.
  intros o x b. unfold isf, finding_clause. cbn [fst].
  destruct o; try reflexivity. destruct (kind =? 6); reflexivity.
Qed.

Lemma clause_model_ok : forall m d, forallb okc (clause_op m d (snd (apply m d))) = true.
Proof.
  intros m d. unfold clause_op. destruct (is_query d) eqn:Eq; [|reflexivity].
  assert (Ha : snd (apply m d) = eval_q tl tu true m d) by (destruct d; try discriminate; reflexivity).
  rewrite Ha. cbn [forallb]. unfold okc. cbn [snd]. rewrite word_eqb_refl, finding_isf.
  rewrite !orb_true_r. reflexivity.
Qed.

Lemma forallb_filter : forall (A : Type) (p q : A -> bool) l,
  forallb p l = true -> forallb p (filter q l) = true.
Proof.
  intros A p q l. induction l as [|x l IH]; intro Hx; [reflexivity|].
  simpl in Hx. apply andb_true_iff in Hx. destruct Hx as [H1 H2]. simpl.
  destruct (q x); simpl; [rewrite H1|]; auto.
Qed.

Lemma run_from_holds : forall ops m, forallb op_wf ops = true ->
  exists obs, run_from m ops = Some obs /\ forallb okc (clauses_from m ops obs) = true.
Proof.
  induction ops as [|op r IH]; intros m Hwf.
  - exists []. split; reflexivity.
  - simpl in Hwf. apply andb_true_iff in Hwf. destruct Hwf as [Hop Hr].
    unfold op_wf in Hop. destruct (decode op) as [d|] eqn:Ed; [|discriminate].
    destruct (IH (fst (apply m d)) Hr) as [obs [Hrun Hcl]].
    exists (snd (apply m d) :: obs). split.
    + cbn [run_from]. rewrite Ed, Hrun. reflexivity.
    + cbn [clauses_from]. rewrite Ed. rewrite forallb_app, clause_model_ok, Hcl. reflexivity.
Qed.

Lemma model_trace_holds : forall cfg ops, forallb op_wf ops = true ->
  exists obs, run cfg ops = Some obs /\ holds_b cfg ops obs = true.
Proof.
  intros cfg ops Hwf. destruct (run_from_holds ops [] Hwf) as [obs [Hrun Hcl]].
  exists obs. split; [exact Hrun|]. unfold holds_b, clauses. fold okc.
  rewrite forallb_app. rewrite !forallb_filter by exact Hcl. reflexivity.
Qed.

(* the known-finding clauses are false on the model's own trace *)
Lemma clause7_refuted :
  run [] [[4; 1; 1; 1; 107; 1; 8490]] = Some [[1]] /\
  clauses [] [[4; 1; 1; 1; 107; 1; 8490]] [[1]] = [(4, 0, true); (7, 0, false)].
Proof. vm_compute. split; reflexivity. Qed.

Lemma clause8_refuted :
  run [] [[20; 1; 107; 0]; [1; 6; 0; 1; 0; 1; 107; 0]] = Some [[]; [0]] /\
  clauses [] [[20; 1; 107; 0]; [1; 6; 0; 1; 0; 1; 107; 0]] [[]; [0]] = [(3, 0, true); (8, 0, false)].
Proof. vm_compute. split; reflexivity. Qed.
