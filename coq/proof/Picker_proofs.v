(* Proofs for model/Picker.v (C23, C32). *)
From Coq Require Import List ZArith Bool Lia.
From VLib Require Import Codec.
From VModel Require Import Picker.
Import ListNotations.
Open Scope Z_scope.

(* ---------- lists ---------- *)
Lemma word_eqb_refl : forall w, word_eqb w w = true.
Proof. induction w as [|x w IH]; cbn; [reflexivity|]. rewrite Z.eqb_refl, IH. reflexivity. Qed.

Lemma upd_length : forall A (l : list A) n x, length (upd l n x) = length l.
Proof. induction l as [|y l IH]; intros [|n] x; cbn; auto. Qed.

Lemma nth_error_upd_eq : forall A (l : list A) n x y,
  nth_error l n = Some y -> nth_error (upd l n x) n = Some x.
Proof. induction l as [|z l IH]; intros [|n] x y H; cbn in *; try discriminate; eauto. Qed.

Lemma nth_error_upd_neq : forall A (l : list A) n m x, n <> m -> nth_error (upd l n x) m = nth_error l m.
Proof.
  induction l as [|z l IH]; intros [|n] [|m] x H; cbn; auto; try congruence.
Qed.

Lemma Forall_upd : forall A (P : A -> Prop) l n x, Forall P l -> P x -> Forall P (upd l n x).
Proof.
  induction l as [|z l IH]; intros [|n] x HF Hx; cbn; auto; inversion HF; subst; constructor; auto.
Qed.

Lemma Forall_nth_error : forall A (P : A -> Prop) l n x, Forall P l -> nth_error l n = Some x -> P x.
Proof. intros A P l n x HF H. rewrite Forall_forall in HF. apply HF. eapply nth_error_In; eauto. Qed.

(* ---------- event counters ---------- *)
Fixpoint cnt_own (k : Z) (e : list ev) : Z :=
  match e with
  | [] => 0
  | EIssue k' true _ :: r => (if k' =? k then 1 else 0) + cnt_own k r
  | _ :: r => cnt_own k r
  end.
Fixpoint cnt_any (k : Z) (e : list ev) : Z :=
  match e with
  | [] => 0
  | EIssue k' _ _ :: r => (if k' =? k then 1 else 0) + cnt_any k r
  | _ :: r => cnt_any k r
  end.
Fixpoint cnt_done (k : Z) (e : list ev) : Z :=
  match e with
  | [] => 0
  | EDone k' _ :: r => (if k' =? k then 1 else 0) + cnt_done k r
  | _ :: r => cnt_done k r
  end.

Lemma cnt_own_app : forall k a b, cnt_own k (a ++ b) = cnt_own k a + cnt_own k b.
Proof. induction a as [|[k' [|] t|k' e|t g] a IH]; intros; cbn; rewrite ?IH; lia. Qed.
Lemma cnt_any_app : forall k a b, cnt_any k (a ++ b) = cnt_any k a + cnt_any k b.
Proof. induction a as [|[k' o t|k' e|t g] a IH]; intros; cbn; rewrite ?IH; lia. Qed.
Lemma cnt_done_app : forall k a b, cnt_done k (a ++ b) = cnt_done k a + cnt_done k b.
Proof. induction a as [|[k' o t|k' e|t g] a IH]; intros; cbn; rewrite ?IH; lia. Qed.
Lemma cnt_own_le_any : forall k e, 0 <= cnt_own k e <= cnt_any k e.
Proof. induction e as [|[k' [|] t|k' x|t g] e IH]; cbn; try destruct (k' =? k); lia. Qed.
Lemma cnt_done_nonneg : forall k e, 0 <= cnt_done k e.
Proof. induction e as [|[k' o t|k' x|t g] e IH]; cbn; try destruct (k' =? k); lia. Qed.

(* pending tokens: Done callbacks held by an attempt that is still running *)
Definition pend1 (k : Z) (t : th) : Z :=
  if (st t =? 3) && negb (afin t) && negb (tok t =? 0) && (tok t =? k) then 1 else 0.
Fixpoint pendc (k : Z) (l : list th) : Z :=
  match l with [] => 0 | t :: r => pend1 k t + pendc k r end.

Lemma pend1_range : forall k t, 0 <= pend1 k t <= 1.
Proof. intros; unfold pend1; destruct (_ && _); lia. Qed.
Lemma pendc_nonneg : forall k l, 0 <= pendc k l.
Proof. induction l; cbn; [lia|]. pose proof (pend1_range k a). lia. Qed.

Lemma pendc_upd : forall k l n x y, nth_error l n = Some y ->
  pendc k (upd l n x) = pendc k l - pend1 k y + pend1 k x.
Proof.
  induction l as [|z l IH]; intros [|n] x y H; cbn in *; try discriminate.
  - inversion H; subst. lia.
  - rewrite (IH _ _ _ H). lia.
Qed.

(* ---------- top / wake never touch tokens ---------- *)
Lemma top_cases : forall q i t t' e, top q i t = (t', e) ->
  (t' = fail t 1 /\ e = [] /\ closed q = true) \/
  (t' = park1 t (gen q) /\ e = [] /\ closed q = false /\ ctxs t = 0 /\ (if haspk q then chg t else gen q) = gen q) \/
  (exists c, t' = fail t c /\ e = [] /\ closed q = false /\ ctxs t <> 0 /\ c = ctx_code (ctxs t) /\
             (if haspk q then chg t else gen q) = gen q) \/
  (t' = park2 t (gen q) /\ e = [EPick i (gen q)] /\ closed q = false /\ haspk q = true /\ chg t <> gen q).
Proof.
  intros q i t t' e H. unfold top in H.
  destruct (closed q) eqn:Hc.
  { inversion H; subst. left; auto. }
  destruct ((if haspk q then chg t else gen q) =? gen q) eqn:Hch.
  - apply Z.eqb_eq in Hch. destruct (ctxs t =? 0) eqn:Hx; inversion H; subst.
    + right; left. apply Z.eqb_eq in Hx. auto.
    + right; right; left. apply Z.eqb_neq in Hx. eauto 8.
  - apply Z.eqb_neq in Hch. inversion H; subst. right; right; right.
    destruct (haspk q); [auto | congruence].
Qed.

Lemma top_pend : forall q i t t' e k, st t <> 3 -> top q i t = (t', e) ->
  pend1 k t' = 0 /\ cnt_own k e = 0 /\ cnt_any k e = 0 /\ cnt_done k e = 0 /\ st t' <> 3 /\ st t' <> 0.
Proof.
  intros q i t t' e k Hs H. apply top_cases in H.
  destruct H as [(->&->&_)|[(->&->&_)|[(c&->&->&_)|(->&->&_)]]]; cbn; repeat split; try reflexivity; try lia.
Qed.

Lemma wake_length : forall q l i, length (fst (wake q i l)) = length l.
Proof.
  intros q. induction l as [|t l IH]; intros i; cbn; [reflexivity|].
  destruct (if st t =? 1 then top q i t else (t, [])) as [t' e].
  specialize (IH (i + 1)). destruct (wake q (i + 1) l) as [r' e']. cbn in *. lia.
Qed.

Lemma wake_pend : forall q k l i l' e, wake q i l = (l', e) ->
  pendc k l' = pendc k l /\ cnt_own k e = 0 /\ cnt_any k e = 0 /\ cnt_done k e = 0.
Proof.
  intros q k. induction l as [|t l IH]; intros i l' e H; cbn in H.
  { inversion H; subst; cbn; auto. }
  destruct (st t =? 1) eqn:Hs.
  - destruct (top q i t) as [t' e1] eqn:Ht.
    destruct (wake q (i + 1) l) as [r' e2] eqn:Hw. inversion H; subst.
    apply Z.eqb_eq in Hs.
    destruct (top_pend q i t t' e1 k ltac:(lia) Ht) as (Hp & Ho & Ha & Hd & _).
    destruct (IH _ _ _ Hw) as (Hp2 & Ho2 & Ha2 & Hd2).
    cbn. rewrite cnt_own_app, cnt_any_app, cnt_done_app. 
    assert (pend1 k t = 0). { unfold pend1. rewrite Hs. reflexivity. }
    repeat split; lia.
  - destruct (wake q (i + 1) l) as [r' e2] eqn:Hw. inversion H; subst.
    destruct (IH _ _ _ Hw) as (Hp2 & Ho2 & Ha2 & Hd2). cbn. repeat split; lia.
Qed.

Lemma new_attempt_pend : forall q i t t' e k, st t <> 3 -> new_attempt q i t = (t', e) ->
  pend1 k t' = 0 /\ cnt_own k e = 0 /\ cnt_any k e = 0 /\ cnt_done k e = 0 /\ st t' <> 3 /\ st t' <> 0.
Proof.
  intros q i t t' e k Hs H. unfold new_attempt in H. destruct (ctxs t =? 0).
  - eapply top_pend; [|exact H]. exact Hs.
  - inversion H; subst; cbn. repeat split; lia.
Qed.

Lemma top_pend' : forall q i t t' e k, top q i t = (t', e) ->
  pend1 k t' = 0 /\ cnt_own k e = 0 /\ cnt_any k e = 0 /\ cnt_done k e = 0 /\ st t' <> 3 /\ st t' <> 0.
Proof.
  intros q i t t' e k H. apply top_cases in H.
  destruct H as [(->&->&_)|[(->&->&_)|[(c&->&->&_)|(->&->&_)]]]; cbn; repeat split; try reflexivity; try lia.
Qed.
Lemma new_attempt_pend' : forall q i t t' e k, new_attempt q i t = (t', e) ->
  pend1 k t' = 0 /\ cnt_own k e = 0 /\ cnt_any k e = 0 /\ cnt_done k e = 0 /\ st t' <> 3 /\ st t' <> 0.
Proof.
  intros q i t t' e k H. unfold new_attempt in H. destruct (ctxs t =? 0).
  - eapply top_pend'; exact H.
  - inversion H; subst; cbn. repeat split; lia.
Qed.

(* what one returning Pick call does to the ledger *)
Lemma pick_return_ledger : forall q l nt i t kind a b ns t' e nt' k,
  st t = 2 -> 1 <= nt -> pick_return q l nt i t kind a b ns = (t', e, nt') ->
  cnt_own k e = cnt_done k e + pend1 k t' /\
  nt <= nt' /\ 0 <= cnt_any k e <= 1 /\ (cnt_any k e = 1 -> k = nt /\ nt' = nt + 1) /\
  st t' <> 0.
Proof.
  intros q l nt i t kind a b ns t' e nt' k Hs Hnt H. unfold pick_return in H.
  assert (Hs3 : st t <> 3) by lia.
  destruct (kind =? 0).
  { destruct (top q i t) as [t1 e1] eqn:Ht. inversion H; subst.
    destruct (top_pend _ _ _ _ _ k Hs3 Ht) as (?&?&?&?&?&?). repeat split; lia. }
  destruct (kind =? 1).
  { inversion H; subst; cbn. repeat split; lia. }
  destruct (kind =? 2).
  { destruct (ff t).
    - inversion H; subst; cbn. repeat split; lia.
    - destruct (top q i t) as [t1 e1] eqn:Ht. inversion H; subst.
      destruct (top_pend _ _ _ _ _ k Hs3 Ht) as (?&?&?&?&?&?). repeat split; lia. }
  destruct (kind =? 3).
  - destruct (ready l a).
    + destruct (ns =? 0).
      { inversion H; subst. unfold pend1; cbn. destruct b; cbn.
        - replace (nt =? 0) with false by (symmetry; apply Z.eqb_neq; lia). cbn.
          destruct (nt =? k) eqn:E; [apply Z.eqb_eq in E|]; repeat split; try lia.
        - repeat split; lia. }
      unfold afinish in H. cbn [afin set_pick] in H.
      destruct (ns =? 1).
      { inversion H; subst. unfold pend1; cbn. destruct b; cbn.
        - replace (nt =? 0) with false by (symmetry; apply Z.eqb_neq; lia). cbn.
          rewrite ?cnt_own_app. cbn. destruct (nt =? k) eqn:E; [apply Z.eqb_eq in E|]; repeat split; try lia.
        - repeat split; lia. }
      match type of H with context [new_attempt q i ?x] => destruct (new_attempt q i x) as [t3 e3] eqn:Hn end.
      inversion H; subst.
      apply (new_attempt_pend _ _ _ _ _ k) in Hn; [|cbn; lia].
      destruct Hn as (?&?&?&?&?&?).
      destruct b; cbn.
      * replace (nt =? 0) with false by (symmetry; apply Z.eqb_neq; lia). cbn.
        rewrite ?cnt_own_app, ?cnt_any_app, ?cnt_done_app. cbn.
        destruct (nt =? k) eqn:E; [apply Z.eqb_eq in E|]; repeat split; try lia.
      * rewrite ?cnt_own_app, ?cnt_any_app, ?cnt_done_app. cbn. repeat split; lia.
    + destruct (top q i t) as [t1 e1] eqn:Ht. inversion H; subst.
      destruct (top_pend _ _ _ _ _ k Hs3 Ht) as (?&?&?&?&?&?).
      destruct b; cbn; rewrite ?cnt_own_app, ?cnt_any_app, ?cnt_done_app; cbn.
      * destruct (nt =? k) eqn:E; [apply Z.eqb_eq in E|]; repeat split; try lia.
      * repeat split; lia.
  - destruct (top q i t) as [t1 e1] eqn:Ht. inversion H; subst.
    destruct (top_pend _ _ _ _ _ k Hs3 Ht) as (?&?&?&?&?&?).
    destruct b; cbn; rewrite ?cnt_own_app, ?cnt_any_app, ?cnt_done_app; cbn.
    + destruct (nt =? k) eqn:E; [apply Z.eqb_eq in E|]; repeat split; try lia.
    + repeat split; lia.
Qed.

Lemma getth_nth : forall s t x, getth s t = Some x -> nth_error (ths s) (Z.to_nat t) = Some x /\ 0 <= t.
Proof. intros s t x H. unfold getth in H. destruct (t <? 0) eqn:E; [discriminate|]. apply Z.ltb_ge in E. auto. Qed.

Definition ledger_ok (s s' : state) (e : list ev) (k : Z) : Prop :=
  cnt_own k e + pendc k (ths s) = cnt_done k e + pendc k (ths s') /\
  ntok s <= ntok s' /\ 0 <= cnt_any k e <= 1 /\ (cnt_any k e = 1 -> k = ntok s /\ ntok s' = ntok s + 1).

Lemma ledger_refl : forall s k, ledger_ok s s [] k.
Proof. intros; unfold ledger_ok; cbn; repeat split; lia. Qed.

Lemma step_ledger : forall s d s' e k, 1 <= ntok s -> dstep s d = (s', e) -> ledger_ok s s' e k.
Proof.
  intros s d s' e k Hnt H. destruct d; cbn [dstep] in H.
  - (* start *)
    destruct (getth s t) as [x|] eqn:Hg; [|inversion H; subst; apply ledger_refl].
    destruct (st x =? 0) eqn:Hs; [|inversion H; subst; apply ledger_refl].
    apply Z.eqb_eq in Hs. apply getth_nth in Hg. destruct Hg as [Hg _].
    match type of H with context [new_attempt _ _ ?y] => destruct (new_attempt (p s) t y) as [x2 e2] eqn:Hn end.
    inversion H; subst. apply (new_attempt_pend _ _ _ _ _ k) in Hn; [|cbn; lia].
    destruct Hn as (?&?&?&?&?&?). unfold ledger_ok, putth; cbn.
    rewrite (pendc_upd _ _ _ _ _ Hg). assert (pend1 k x = 0) by (unfold pend1; rewrite Hs; reflexivity).
    repeat split; lia.
  - destruct (closed (p s)); [inversion H; subst; apply ledger_refl|].
    match type of H with context [wake ?q 0 ?l] => destruct (wake q 0 l) as [l' e'] eqn:Hw end.
    inversion H; subst. destruct (wake_pend _ k _ _ _ _ Hw) as (?&?&?&?). unfold ledger_ok; cbn. repeat split; lia.
  - destruct (closed (p s)); [inversion H; subst; apply ledger_refl|].
    match type of H with context [wake ?q 0 ?l] => destruct (wake q 0 l) as [l' e'] eqn:Hw end.
    inversion H; subst. destruct (wake_pend _ k _ _ _ _ Hw) as (?&?&?&?). unfold ledger_ok; cbn. repeat split; lia.
  - destruct (closed (p s)); [inversion H; subst; apply ledger_refl|].
    match type of H with context [wake ?q 0 ?l] => destruct (wake q 0 l) as [l' e'] eqn:Hw end.
    inversion H; subst. destruct (wake_pend _ k _ _ _ _ Hw) as (?&?&?&?). unfold ledger_ok; cbn. repeat split; lia.
  - (* pick returns *)
    destruct (getth s t) as [x|] eqn:Hg; [|inversion H; subst; apply ledger_refl].
    match type of H with (if ?c then _ else _) = _ => destruct c eqn:Hc end; [|inversion H; subst; apply ledger_refl].
    destruct (pick_return (p s) (scs s) (ntok s) t x kind a (b =? 1) ns) as [[x' e'] nt'] eqn:Hp.
    inversion H; subst. apply getth_nth in Hg. destruct Hg as [Hg _].
    assert (Hs : st x = 2).
    { repeat (apply andb_prop in Hc; destruct Hc as [Hc ?]). apply Z.eqb_eq; assumption. }
    destruct (pick_return_ledger _ _ _ _ _ _ _ _ _ _ _ _ k Hs Hnt Hp) as (?&?&?&?&?).
    unfold ledger_ok; cbn. rewrite (pendc_upd _ _ _ _ _ Hg).
    assert (pend1 k x = 0) by (unfold pend1; rewrite Hs; reflexivity). repeat split; try lia.
  - destruct (valid_sc s a); inversion H; subst; unfold ledger_ok; cbn; repeat split; lia.
  - destruct (getth s t) as [x|] eqn:Hg; [|inversion H; subst; apply ledger_refl].
    match type of H with (if ?c then _ else _) = _ => destruct c eqn:Hc end; [|inversion H; subst; apply ledger_refl].
    inversion H; subst. apply getth_nth in Hg. destruct Hg as [Hg _].
    unfold ledger_ok, putth; cbn. rewrite (pendc_upd _ _ _ _ _ Hg).
    assert (pend1 k (if st x =? 1 then fail (set_ctx x how) (ctx_code how) else set_ctx x how) = pend1 k x).
    { destruct (st x =? 1) eqn:E; [apply Z.eqb_eq in E|]; unfold pend1; cbn; [rewrite E|]; reflexivity. }
    repeat split; lia.
  - (* cs.finish *)
    destruct (getth s t) as [x|] eqn:Hg; [|inversion H; subst; apply ledger_refl].
    match type of H with (if ?c then _ else _) = _ => destruct c eqn:Hc end; [|inversion H; subst; apply ledger_refl].
    apply getth_nth in Hg. destruct Hg as [Hg _]. apply andb_prop in Hc. destruct Hc as [Hs _].
    unfold afinish in H. destruct (afin x) eqn:Ha; inversion H; subst; unfold ledger_ok, putth; cbn;
      rewrite (pendc_upd _ _ _ _ _ Hg); unfold pend1; cbn; rewrite ?Ha, ?Hs; cbn.
    + repeat split; lia.
    + destruct (tok x =? 0) eqn:E0; cbn; [repeat split; lia|].
      destruct (tok x =? k); repeat split; try lia.
  - destruct (getth s t) as [x|] eqn:Hg; [|inversion H; subst; apply ledger_refl].
    match type of H with (if ?c then _ else _) = _ => destruct c eqn:Hc end; [|inversion H; subst; apply ledger_refl].
    apply getth_nth in Hg. destruct Hg as [Hg _]. apply andb_prop in Hc. destruct Hc as [Hs _].
    unfold afinish in H. destruct (afin x) eqn:Ha; inversion H; subst; unfold ledger_ok, putth; cbn;
      rewrite (pendc_upd _ _ _ _ _ Hg); unfold pend1; cbn; rewrite ?Ha, ?Hs; cbn.
    + repeat split; lia.
    + destruct (tok x =? 0) eqn:E0; cbn; [repeat split; lia|].
      destruct (tok x =? k); repeat split; try lia.
  - (* retried stream-operation failure *)
    destruct (getth s t) as [x|] eqn:Hg; [|inversion H; subst; apply ledger_refl].
    match type of H with (if ?c then _ else _) = _ => destruct c eqn:Hc end; [|inversion H; subst; apply ledger_refl].
    apply getth_nth in Hg. destruct Hg as [Hg _]. apply andb_prop in Hc. destruct Hc as [Hs _].
    destruct (afinish x 1) as [x1 d] eqn:Ha.
    match type of H with context [new_attempt _ _ ?y] => destruct (new_attempt (p s) t y) as [x2 e2] eqn:Hn end.
    inversion H; subst. destruct (new_attempt_pend' _ _ _ _ _ k Hn) as (P0&O0&A0&D0&_).
    unfold ledger_ok, putth; cbn [ths ntok]. rewrite (pendc_upd _ _ _ _ _ Hg), P0.
    rewrite cnt_own_app, cnt_any_app, cnt_done_app, O0, A0, D0.
    unfold afinish in Ha. unfold pend1. rewrite Hs. cbn [andb].
    destruct (afin x) eqn:Hf; inversion Ha; subst; cbn.
    + repeat split; lia.
    + destruct (tok x =? 0) eqn:E0; cbn; [repeat split; lia|].
      destruct (tok x =? k); repeat split; try lia.
  - inversion H; subst; apply ledger_refl.
Qed.

(* ---------- invariant ---------- *)
Definition th_ok (q : pw) (t : th) : Prop :=
  (st t = 1 -> chg t = gen q /\ ctxs t = 0 /\ closed q = false) /\
  chg t <= gen q /\ pgen t <= gen q /\ (st t = 2 -> pgen t = chg t) /\
  (csfin t = true -> afin t = true) /\ (st t <> 3 -> csfin t = false) /\
  (st t = 0 \/ st t = 1 \/ st t = 2 \/ st t = 3 \/ st t = 4).
Definition inv (s : state) : Prop := Forall (th_ok (p s)) (ths s) /\ 1 <= ntok s.

Lemma top_ok : forall q i t t' e, chg t <= gen q -> pgen t <= gen q -> csfin t = false ->
  top q i t = (t', e) -> th_ok q t'.
Proof.
  intros q i t t' e H1 H2 H3 H. apply top_cases in H.
  destruct H as [(->&->&Hc)|[(->&->&Hc&Hx&Hg)|[(c&->&->&Hc&Hx&_)|(->&->&Hc&Hk&Hg)]]];
    unfold th_ok; cbn; repeat split; auto; try lia; try congruence; intros; try discriminate; auto 6.
Qed.

Lemma th_ok_weaken : forall q q' t, th_ok q t -> st t <> 1 -> gen q <= gen q' -> th_ok q' t.
Proof.
  intros q q' t (H1&H2&H3&H4&H5&H6&H7) Hs Hg. unfold th_ok. repeat split; auto; try lia.
Qed.

Lemma wake_ok : forall q q' l i, Forall (th_ok q) l -> gen q <= gen q' ->
  Forall (th_ok q') (fst (wake q' i l)).
Proof.
  intros q q'. induction l as [|t l IH]; intros i HF Hg; cbn; [constructor|].
  inversion HF as [|? ? Ht HF']; subst.
  destruct (st t =? 1) eqn:Hs.
  - destruct (top q' i t) as [t' e] eqn:Htop.
    specialize (IH (i + 1) HF' Hg). destruct (wake q' (i + 1) l) as [r' e']. cbn in *.
    constructor; [|exact IH]. apply Z.eqb_eq in Hs.
    destruct Ht as (H1&H2&H3&H4&H5&H6&H7).
    eapply top_ok; [| | |exact Htop]; try lia. apply H6. lia.
  - specialize (IH (i + 1) HF' Hg). destruct (wake q' (i + 1) l) as [r' e']. cbn in *.
    constructor; [|exact IH]. apply Z.eqb_neq in Hs. eapply th_ok_weaken; eauto.
Qed.

Lemma new_attempt_ok : forall q i t t' e, chg t <= gen q -> pgen t <= gen q -> -1 <= gen q -> csfin t = false ->
  new_attempt q i t = (t', e) -> th_ok q t'.
Proof.
  intros q i t t' e H1 H2 Hg H3 H. unfold new_attempt in H. destruct (ctxs t =? 0).
  - eapply top_ok; [| | |exact H]; cbn; auto; lia.
  - inversion H; subst. unfold th_ok; cbn. repeat split; auto; try lia; try congruence; intros; try discriminate.
    all: auto 6.
Qed.

Lemma pick_return_ok : forall q l nt i t kind a b ns t' e nt',
  th_ok q t -> st t = 2 -> -1 <= gen q -> pick_return q l nt i t kind a b ns = (t', e, nt') -> th_ok q t'.
Proof.
  intros q l nt i t kind a b ns t' e nt' (H1&H2&H3&H4&H5&H6&H7) Hs Hg H.
  assert (Hcf : csfin t = false) by (apply H6; lia).
  assert (Hfail : forall c, th_ok q (fail t c)).
  { intro c. unfold th_ok; cbn. repeat split; auto; try lia; try congruence; intros; try discriminate; auto 6. }
  unfold pick_return in H.
  destruct (kind =? 0).
  { destruct (top q i t) as [t1 e1] eqn:Ht. inversion H; subst. eapply top_ok; eauto. }
  destruct (kind =? 1). { inversion H; subst. apply Hfail. }
  destruct (kind =? 2).
  { destruct (ff t). { inversion H; subst. apply Hfail. }
    destruct (top q i t) as [t1 e1] eqn:Ht. inversion H; subst. eapply top_ok; eauto. }
  destruct (kind =? 3).
  - destruct (ready l a).
    + destruct (ns =? 0).
      { inversion H; subst. unfold th_ok; cbn. repeat split; auto; try lia; try congruence; intros; try discriminate;
        auto 6. }
      unfold afinish in H. cbn [afin set_pick] in H.
      destruct (ns =? 1).
      { inversion H; subst. unfold th_ok; cbn. repeat split; auto; try lia; try congruence; intros; try discriminate;
        auto 6. }
      match type of H with context [new_attempt q i ?x] => destruct (new_attempt q i x) as [t3 e3] eqn:Hn end.
      inversion H; subst. eapply new_attempt_ok; [| | | |exact Hn]; cbn; auto.
    + destruct (top q i t) as [t1 e1] eqn:Ht. inversion H; subst. eapply top_ok; eauto.
  - destruct (top q i t) as [t1 e1] eqn:Ht. inversion H; subst. eapply top_ok; eauto.
Qed.

Lemma step_inv : forall s d s' e, inv s -> 0 <= gen (p s) -> dstep s d = (s', e) -> inv s' /\ 0 <= gen (p s').
Proof.
  intros s d s' e [HF Hnt] Hg H.
  assert (Hsame : inv s /\ 0 <= gen (p s)) by (split; [split|]; assumption).
  destruct d; cbn [dstep] in H.
  - destruct (getth s t) as [x|] eqn:Hx; [|inversion H; subst; exact Hsame].
    destruct (st x =? 0) eqn:Hs; [|inversion H; subst; exact Hsame].
    apply getth_nth in Hx. destruct Hx as [Hx _].
    match type of H with context [new_attempt _ _ ?y] => destruct (new_attempt (p s) t y) as [x2 e2] eqn:Hn end.
    inversion H; subst. unfold inv, putth; cbn. split; [split|]; auto.
    apply Forall_upd; auto. pose proof (Forall_nth_error _ _ _ _ _ HF Hx) as (H1&H2&H3&H4&H5&H6&H7).
    eapply new_attempt_ok; [| | | |exact Hn]; cbn; auto; lia.
  - destruct (closed (p s)); [inversion H; subst; exact Hsame|].
    match type of H with context [wake ?q 0 ?l] => pose proof (wake_ok (p s) q l 0 HF) as Hw; destruct (wake q 0 l) as [l' e'] end.
    inversion H; subst. unfold inv; cbn in *. split; [split|]; auto; try lia. apply Hw; lia.
  - destruct (closed (p s)); [inversion H; subst; exact Hsame|].
    match type of H with context [wake ?q 0 ?l] => pose proof (wake_ok (p s) q l 0 HF) as Hw; destruct (wake q 0 l) as [l' e'] end.
    inversion H; subst. unfold inv; cbn in *. split; [split|]; auto; try lia. apply Hw; lia.
  - destruct (closed (p s)); [inversion H; subst; exact Hsame|].
    match type of H with context [wake ?q 0 ?l] => pose proof (wake_ok (p s) q l 0 HF) as Hw; destruct (wake q 0 l) as [l' e'] end.
    inversion H; subst. unfold inv; cbn in *. split; [split|]; auto; try lia. apply Hw; lia.
  - destruct (getth s t) as [x|] eqn:Hx; [|inversion H; subst; exact Hsame].
    match type of H with (if ?c then _ else _) = _ => destruct c eqn:Hc end; [|inversion H; subst; exact Hsame].
    destruct (pick_return (p s) (scs s) (ntok s) t x kind a (b =? 1) ns) as [[x' e'] nt'] eqn:Hp.
    inversion H; subst. apply getth_nth in Hx. destruct Hx as [Hx _].
    assert (Hs : st x = 2).
    { repeat (apply andb_prop in Hc; destruct Hc as [Hc ?]). apply Z.eqb_eq; assumption. }
    pose proof (Forall_nth_error _ _ _ _ _ HF Hx) as Hok.
    destruct (pick_return_ledger _ _ _ _ _ _ _ _ _ _ _ _ 0 Hs Hnt Hp) as (_&Hle&_).
    unfold inv; cbn. split; [split|]; auto; try lia.
    apply Forall_upd; auto. eapply pick_return_ok; eauto. lia.
  - destruct (valid_sc s a); inversion H; subst; unfold inv; cbn; auto.
  - destruct (getth s t) as [x|] eqn:Hx; [|inversion H; subst; exact Hsame].
    match type of H with (if ?c then _ else _) = _ => destruct c eqn:Hc end; [|inversion H; subst; exact Hsame].
    inversion H; subst. apply getth_nth in Hx. destruct Hx as [Hx _].
    pose proof (Forall_nth_error _ _ _ _ _ HF Hx) as (H1&H2&H3&H4&H5&H6&H7).
    unfold inv, putth; cbn. split; [split|]; auto. apply Forall_upd; auto.
    destruct (st x =? 1) eqn:E; [apply Z.eqb_eq in E | apply Z.eqb_neq in E];
      unfold th_ok; cbn; repeat split; auto; try lia; try congruence; intros; try discriminate; auto 6.
    apply H6; lia.
  - destruct (getth s t) as [x|] eqn:Hx; [|inversion H; subst; exact Hsame].
    match type of H with (if ?c then _ else _) = _ => destruct c eqn:Hc end; [|inversion H; subst; exact Hsame].
    apply getth_nth in Hx. destruct Hx as [Hx _]. apply andb_prop in Hc. destruct Hc as [Hs _]. apply Z.eqb_eq in Hs.
    pose proof (Forall_nth_error _ _ _ _ _ HF Hx) as (H1&H2&H3&H4&H5&H6&H7).
    unfold afinish in H. destruct (afin x) eqn:Ha; inversion H; subst; unfold inv, putth; cbn;
      (split; [split|]; auto); apply Forall_upd; auto;
      unfold th_ok; cbn; repeat split; auto; try lia; try congruence; intros; try discriminate; auto 6.
  - destruct (getth s t) as [x|] eqn:Hx; [|inversion H; subst; exact Hsame].
    match type of H with (if ?c then _ else _) = _ => destruct c eqn:Hc end; [|inversion H; subst; exact Hsame].
    apply getth_nth in Hx. destruct Hx as [Hx _]. apply andb_prop in Hc. destruct Hc as [Hs _]. apply Z.eqb_eq in Hs.
    pose proof (Forall_nth_error _ _ _ _ _ HF Hx) as (H1&H2&H3&H4&H5&H6&H7).
    unfold afinish in H. destruct (afin x) eqn:Ha; inversion H; subst; unfold inv, putth; cbn;
      (split; [split|]; auto); apply Forall_upd; auto;
      unfold th_ok; cbn; repeat split; auto; try lia; try congruence; intros; try discriminate; auto 6.
    all: rewrite orb_false_r in *; auto.
  - destruct (getth s t) as [x|] eqn:Hx; [|inversion H; subst; exact Hsame].
    match type of H with (if ?c then _ else _) = _ => destruct c eqn:Hc end; [|inversion H; subst; exact Hsame].
    apply getth_nth in Hx. destruct Hx as [Hx _]. apply andb_prop in Hc. destruct Hc as [Hs Hc].
    apply andb_prop in Hc. destruct Hc as [_ Hcf]. apply negb_true_iff in Hcf.
    pose proof (Forall_nth_error _ _ _ _ _ HF Hx) as (H1&H2&H3&H4&H5&H6&H7).
    destruct (afinish x 1) as [x1 d] eqn:Ha.
    match type of H with context [new_attempt _ _ ?y] => destruct (new_attempt (p s) t y) as [x2 e2] eqn:Hn end.
    inversion H; subst. unfold inv, putth; cbn [ths ntok p]. split; [split|]; auto.
    apply Forall_upd; auto.
    unfold afinish in Ha.
    eapply new_attempt_ok; [| | | |exact Hn]; destruct (afin x); inversion Ha; subst; cbn; auto; try lia;
      rewrite Hcf; reflexivity.
  - inversion H; subst; exact Hsame.
Qed.

(* ---------- whole executions ---------- *)
Lemma pendc_repeat0 : forall k n, pendc k (repeat th0 n) = 0.
Proof. induction n; cbn; auto. Qed.

Lemma init_inv : forall cfg s, init cfg = Some s ->
  inv s /\ 0 <= gen (p s) /\ (forall k, pendc k (ths s) = 0) /\ ntok s = 1.
Proof.
  intros cfg s H. unfold init in H. destruct cfg as [|n [|m [|? ?]]]; try discriminate.
  destruct (_ && _); [|discriminate]. inversion H; subst; cbn.
  split; [split; [|cbn; lia]|split; [lia|split; [|reflexivity]]]; cbn.
  - apply Forall_forall. intros x Hx. apply repeat_spec in Hx. subst. unfold th_ok; cbn.
    repeat split; auto; try lia; intros; discriminate.
  - intro k. apply pendc_repeat0.
Qed.

Lemma exec_ledger : forall ops s obs evs sf, inv s -> 0 <= gen (p s) -> exec s ops = (obs, evs, sf) ->
  inv sf /\ 0 <= gen (p sf) /\ ntok s <= ntok sf /\
  forall k, cnt_own k evs + pendc k (ths s) = cnt_done k evs + pendc k (ths sf) /\
            0 <= cnt_any k evs <= 1 /\ (k < ntok s -> cnt_any k evs = 0).
Proof.
  induction ops as [|op ops IH]; intros s obs evs sf Hi Hg H; cbn in H.
  { inversion H; subst. split; [assumption|]. split; [assumption|]. split; [lia|].
    intro k; cbn. split; [lia|]. split; [lia|]. intros; reflexivity. }
  unfold step in H. destruct (dstep s (decode op)) as [s1 e] eqn:Hs.
  destruct (exec s1 ops) as [[os es] sf'] eqn:He. inversion H; subst.
  destruct (step_inv _ _ _ _ Hi Hg Hs) as [Hi1 Hg1].
  destruct (IH _ _ _ _ Hi1 Hg1 He) as (Hif & Hgf & Hnt & Hk).
  assert (H1 : 1 <= ntok s) by (destruct Hi; assumption).
  pose proof (fun k => step_ledger _ _ _ _ k H1 Hs) as Hl.
  split; [assumption|]. split; [assumption|].
  split. { destruct (Hl 0) as (_&?&_). lia. }
  intro k. destruct (Hl k) as (L1&L2&L3&L4). destruct (Hk k) as (K1&K2&K3).
  rewrite cnt_own_app, cnt_done_app, cnt_any_app.
  split; [lia|].
  destruct (Z.eq_dec (cnt_any k e) 1) as [E|E].
  - destruct (L4 E) as [E1 E2]. rewrite K3 by lia. split; [lia|]. intro; lia.
  - split; [lia|]. intro Hlt. rewrite K3 by lia. lia.
Qed.

Lemma in_issue_own : forall k t e, In (EIssue k true t) e -> 1 <= cnt_own k e.
Proof.
  induction e as [|x e IH]; intros H; [destruct H|]. destruct H as [->|H].
  - cbn. rewrite Z.eqb_refl. pose proof (cnt_own_le_any k e). lia.
  - specialize (IH H). destruct x as [k' [|] t'|k' x|t' g]; cbn; try destruct (k' =? k); lia.
Qed.
Lemma in_issue_foreign : forall k t e, In (EIssue k false t) e -> cnt_own k e + 1 <= cnt_any k e.
Proof.
  induction e as [|x e IH]; intros H; [destruct H|]. destruct H as [->|H].
  - cbn. rewrite Z.eqb_refl. pose proof (cnt_own_le_any k e). lia.
  - specialize (IH H). destruct x as [k' [|] t'|k' x|t' g]; cbn; try destruct (k' =? k); lia.
Qed.

Lemma pendc_pos_ex : forall k l, 1 <= pendc k l ->
  exists x, In x l /\ st x = 3 /\ afin x = false /\ tok x = k /\ tok x <> 0.
Proof.
  induction l as [|t l IH]; cbn; intro H; [lia|].
  unfold pend1 in H at 1. destruct (_ && _) eqn:E.
  - exists t. repeat (apply andb_prop in E; destruct E as [E ?]).
    apply Z.eqb_eq in E. apply negb_true_iff in H1, H2. apply Z.eqb_neq in H1. apply Z.eqb_eq in H0.
    repeat split; auto.
  - destruct IH as (x & Hx & ?); [lia|]. exists x. split; [right; exact Hx | assumption].
Qed.

Lemma pendc_le1_of : forall k l, (forall x, In x l -> st x = 3 -> afin x = true) -> pendc k l = 0.
Proof.
  induction l as [|t l IH]; intro H; cbn; [reflexivity|].
  rewrite IH by (intros; apply H; [right|]; assumption).
  unfold pend1. destruct (st t =? 3) eqn:E; cbn; [|reflexivity].
  apply Z.eqb_eq in E. rewrite (H t (or_introl eq_refl) E). reflexivity.
Qed.

Theorem done_at_most_once : forall cfg ops s0 obs evs sf, init cfg = Some s0 -> exec s0 ops = (obs, evs, sf) ->
  forall k, cnt_done k evs <= 1.
Proof.
  intros cfg ops s0 obs evs sf Hi He k. destruct (init_inv _ _ Hi) as (Hv & Hg & Hp & _).
  destruct (exec_ledger _ _ _ _ _ Hv Hg He) as (_&_&_&Hk). destruct (Hk k) as (Hl&Ha&_).
  rewrite Hp in Hl. pose proof (cnt_own_le_any k evs). pose proof (pendc_nonneg k (ths sf)). lia.
Qed.

Theorem done_exactly_once : forall cfg ops s0 obs evs sf k t, init cfg = Some s0 -> exec s0 ops = (obs, evs, sf) ->
  In (EIssue k true t) evs ->
  cnt_done k evs = 1 \/
  (cnt_done k evs = 0 /\ exists x, In x (ths sf) /\ st x = 3 /\ csfin x = false /\ afin x = false /\ tok x = k).
Proof.
  intros cfg ops s0 obs evs sf k t Hi He Hin. destruct (init_inv _ _ Hi) as (Hv & Hg & Hp & _).
  destruct (exec_ledger _ _ _ _ _ Hv Hg He) as ([HF _]&_&_&Hk). destruct (Hk k) as (Hl&Ha&_).
  rewrite Hp in Hl. pose proof (cnt_own_le_any k evs). pose proof (in_issue_own _ _ _ Hin).
  pose proof (pendc_nonneg k (ths sf)). pose proof (cnt_done_nonneg k evs).
  destruct (Z.eq_dec (pendc k (ths sf)) 0) as [E|E]; [left; lia|right].
  split; [lia|]. destruct (pendc_pos_ex k (ths sf)) as (x & Hx & H3 & H4 & H5 & _); [lia|].
  exists x. repeat split; auto. rewrite Forall_forall in HF. destruct (HF x Hx) as (_&_&_&_&Hc&_).
  destruct (csfin x); [rewrite Hc in H4 by reflexivity; discriminate | reflexivity].
Qed.

Theorem done_once_when_finished : forall cfg ops s0 obs evs sf k t, init cfg = Some s0 -> exec s0 ops = (obs, evs, sf) ->
  In (EIssue k true t) evs -> (forall x, In x (ths sf) -> st x = 3 -> csfin x = true) -> cnt_done k evs = 1.
Proof.
  intros cfg ops s0 obs evs sf k t Hi He Hin Hfin.
  destruct (done_exactly_once _ _ _ _ _ _ _ _ Hi He Hin) as [H|(H & x & Hx & H3 & Hc & _)]; [exact H|].
  rewrite (Hfin x Hx H3) in Hc. discriminate.
Qed.

Theorem foreign_done_dropped : forall cfg ops s0 obs evs sf k t, init cfg = Some s0 -> exec s0 ops = (obs, evs, sf) ->
  In (EIssue k false t) evs -> cnt_done k evs = 0.
Proof.
  intros cfg ops s0 obs evs sf k t Hi He Hin. destruct (init_inv _ _ Hi) as (Hv & Hg & Hp & _).
  destruct (exec_ledger _ _ _ _ _ Hv Hg He) as (_&_&_&Hk). destruct (Hk k) as (Hl&Ha&_).
  rewrite Hp in Hl. pose proof (cnt_own_le_any k evs). pose proof (in_issue_foreign _ _ _ Hin).
  pose proof (pendc_nonneg k (ths sf)). pose proof (cnt_done_nonneg k evs). lia.
Qed.

Theorem every_result_done_refuted :
  exists cfg ops s0 obs evs sf k x, init cfg = Some s0 /\ exec s0 ops = (obs, evs, sf) /\
    In (EIssue k false 0) evs /\ cnt_done k evs = 0 /\ nth_error (ths sf) 0 = Some x /\ st x = 4.
Proof.
  exists [2; 1], [[2]; [1; 0; 0]; [5; 0; 4; 0; 1; 0]; [7; 0; 2]].
  eexists. eexists. eexists. eexists. exists 1. eexists.
  split; [reflexivity|]. split; [vm_compute; reflexivity|]. vm_compute. repeat split; auto.
Qed.

(* ---------- all2i ---------- *)
Lemma all2i_id : forall f l i, (forall j t, In t l -> f j t (snap t) = true) -> all2i f i l (map snap l) = true.
Proof.
  intros f. induction l as [|t l IH]; intros i H; cbn; [reflexivity|].
  rewrite H by (left; reflexivity). rewrite IH; [reflexivity|]. intros; apply H; right; assumption.
Qed.

Lemma all2i_upd : forall f l n x x' i, nth_error l n = Some x ->
  (forall j t, In t l -> f j t (snap t) = true) -> f (i + Z.of_nat n) x (snap x') = true ->
  all2i f i l (map snap (upd l n x')) = true.
Proof.
  intros f. induction l as [|t l IH]; intros [|n] x x' i Hn Hid Hx; cbn in *; try discriminate.
  - inversion Hn; subst. replace (i + 0) with i in Hx by lia. rewrite Hx. cbn.
    apply all2i_id. intros; apply Hid; right; assumption.
  - rewrite Hid by (left; reflexivity). cbn. apply (IH n x x' (i + 1) Hn).
    + intros; apply Hid; right; assumption.
    + replace (i + 1 + Z.of_nat n) with (i + Z.pos (Pos.of_succ_nat n)) by lia. exact Hx.
Qed.

Lemma all2i_wake : forall f q (P : th -> Prop) l i, Forall P l ->
  (forall j t, st t <> 1 -> f j t (snap t) = true) ->
  (forall j t t' e, P t -> st t = 1 -> top q j t = (t', e) -> f j t (snap t') = true) ->
  all2i f i l (map snap (fst (wake q i l))) = true.
Proof.
  intros f q P. induction l as [|t l IH]; intros i HF Hid Htop; cbn; [reflexivity|].
  inversion HF as [|? ? Pt HF']; subst.
  specialize (IH (i + 1) HF' Hid Htop).
  destruct (st t =? 1) eqn:Hs.
  - destruct (top q i t) as [t' e] eqn:Ht. destruct (wake q (i + 1) l) as [r' e']. cbn in *.
    apply Z.eqb_eq in Hs. rewrite (Htop _ _ _ _ Pt Hs Ht). exact IH.
  - destruct (wake q (i + 1) l) as [r' e']. cbn in *. apply Z.eqb_neq in Hs. rewrite (Hid _ _ Hs). exact IH.
Qed.

Lemma all2i_nth : forall f l l' i n x x', all2i f i l (map snap l') = true ->
  nth_error l n = Some x -> nth_error l' n = Some x' -> f (i + Z.of_nat n) x (snap x') = true.
Proof.
  intros f. induction l as [|t l IH]; intros [|t' l'] i [|n] x x' H Hn Hn'; cbn in *; try discriminate.
  - inversion Hn; inversion Hn'; subst. apply andb_prop in H. replace (i + 0) with i by lia. tauto.
  - apply andb_prop in H. destruct H as [_ H].
    replace (i + Z.pos (Pos.of_succ_nat n)) with (i + 1 + Z.of_nat n) by lia. eapply IH; eauto.
Qed.

Lemma wake_nth : forall q l i n x, nth_error l n = Some x ->
  nth_error (fst (wake q i l)) n = Some (if st x =? 1 then fst (top q (i + Z.of_nat n) x) else x).
Proof.
  intros q. induction l as [|t l IH]; intros i [|n] x H; cbn in *; try discriminate.
  - inversion H; subst. replace (i + 0) with i by lia.
    destruct (if st x =? 1 then top q i x else (x, [])) as [t' e] eqn:E. destruct (wake q (i + 1) l) as [r' e'].
    cbn. destruct (st x =? 1); [rewrite E|inversion E]; reflexivity.
  - destruct (if st t =? 1 then top q i t else (t, [])) as [t' e]. specialize (IH (i + 1) n x H).
    destruct (wake q (i + 1) l) as [r' e']. cbn in *. rewrite IH.
    replace (i + 1 + Z.of_nat n) with (i + Z.pos (Pos.of_succ_nat n)) by lia. reflexivity.
Qed.

(* brute-force decision of goals made of integer comparisons *)
Ltac bsolve :=
  repeat match goal with
         | |- context [?a =? ?b] => destruct (Z.eqb_spec a b)
         | |- context [?a <? ?b] => destruct (Z.ltb_spec a b)
         | |- context [?a <=? ?b] => destruct (Z.leb_spec a b)
         end; cbn -[Z.eqb Z.ltb Z.leb]; try reflexivity; try lia; try congruence.

Lemma latest1_id : forall q j t, latest1 q j t (snap t) = true.
Proof. intros. unfold latest1, snap, w_st, w_np, w_na, w_gen; cbn. rewrite !Z.eqb_refl. cbn. destruct (st t =? 2); reflexivity. Qed.
Lemma ready1_id : forall s d j t, ready1 s d j t (snap t) = true.
Proof. intros. unfold ready1, snap, w_st; cbn. destruct (st t =? 3); reflexivity. Qed.

(* a thread whose new state is not "inside Pick" / "created" satisfies the two clauses trivially *)
Lemma latest1_not2 : forall q j t t', st t' <> 2 -> latest1 q j t (snap t') = true.
Proof. intros. unfold latest1, snap, w_st; cbn. destruct (Z.eqb_spec (st t') 2); [contradiction|reflexivity]. Qed.
Lemma ready1_not3 : forall s d j t t', st t' <> 3 \/ st t = 3 -> ready1 s d j t (snap t') = true.
Proof.
  intros s d j t t' H. unfold ready1, snap, w_st; cbn.
  destruct (Z.eqb_spec (st t') 3); cbn; [|reflexivity]. destruct (Z.eqb_spec (st t) 3); cbn; [reflexivity|]. destruct H; contradiction.
Qed.

(* top from a thread that is parked (st 1 or 2) or fresh *)
Lemma latest1_top : forall q j t0 t t' e,
  top q j t = (t', e) -> natt t = natt t0 -> npick t = npick t0 -> pgen t = pgen t0 ->
  (chg t <> gen q -> pgen t0 < gen q) -> latest1 q j t0 (snap t') = true.
Proof.
  intros q j t0 t t' e H Ha Hn Hp Hlt. apply top_cases in H.
  destruct H as [(->&->&Hc)|[(->&->&Hc&Hx&Hg)|[(c&->&->&Hc&Hx&_)|(->&->&Hc&Hk&Hg)]]];
    try (apply latest1_not2; cbn; lia).
  specialize (Hlt Hg). unfold latest1, snap, w_st, w_np, w_na, w_gen; cbn -[Z.eqb Z.ltb Z.leb]. rewrite Hk, Hc, Ha, Hn. bsolve.
Qed.

Lemma latest1_new_attempt : forall q j t0 t t' e,
  new_attempt q j t = (t', e) -> natt t = natt t0 -> latest1 q j t0 (snap t') = true.
Proof.
  intros q j t0 t t' e H Ha. unfold new_attempt in H. destruct (ctxs t =? 0).
  - apply top_cases in H.
    destruct H as [(->&->&Hc)|[(->&->&Hc&Hx&Hg)|[(c&->&->&Hc&Hx&_)|(->&->&Hc&Hk&Hg)]]];
      try (apply latest1_not2; cbn; lia).
    unfold latest1, snap, w_st, w_np, w_na, w_gen; cbn -[Z.eqb Z.ltb Z.leb]. rewrite Hk, Hc, Ha. bsolve.
  - inversion H; subst. apply latest1_not2; cbn; lia.
Qed.

Lemma top_st : forall q j t t' e, top q j t = (t', e) -> st t' = 1 \/ st t' = 2 \/ st t' = 4.
Proof.
  intros q j t t' e H. apply top_cases in H.
  destruct H as [(->&->&Hc)|[(->&->&Hc&Hx&Hg)|[(c&->&->&Hc&Hx&_)|(->&->&Hc&Hk&Hg)]]]; cbn; auto.
Qed.
Lemma new_attempt_st : forall q j t t' e, new_attempt q j t = (t', e) -> st t' = 1 \/ st t' = 2 \/ st t' = 4.
Proof.
  intros q j t t' e H. unfold new_attempt in H. destruct (ctxs t =? 0); [eapply top_st; eauto|].
  inversion H; subst; cbn; auto.
Qed.

Definition mustblock (q : pw) (x : th) (w : word) : bool :=
  if w_st w =? 4 then
    (closed q && (w_c w =? 1)) || (negb (ctxs x =? 0) && (w_c w =? ctx_code (ctxs x)))
  else if w_st w =? 1 then
    negb (closed q) && (ctxs x =? 0) && ((pgen x =? gen q) || negb (haspk q))
  else (w_st w =? 2) && (pgen x <? w_gen w).

Lemma mustblock_top : forall q i x x' e, th_ok q x -> st x = 2 -> top q i x = (x', e) ->
  mustblock q x (snap x') = true.
Proof.
  intros q i x x' e (H1&H2&H3&H4&H5&H6&H7) Hs H. specialize (H4 Hs). apply top_cases in H.
  destruct H as [(->&->&Hc)|[(->&->&Hc&Hx&Hg)|[(c&->&->&Hc&Hx&->&_)|(->&->&Hc&Hk&Hg)]]];
    unfold mustblock, snap, w_st, w_c, w_gen; cbn -[Z.eqb Z.ltb Z.leb]; rewrite ?Hc, ?Hx; cbn -[Z.eqb Z.ltb Z.leb].
  - reflexivity.
  - destruct (haspk q); cbn -[Z.eqb Z.ltb Z.leb]; [|rewrite orb_true_r; reflexivity].
    replace (pgen x =? gen q) with true by (symmetry; apply Z.eqb_eq; lia). reflexivity.
  - destruct (Z.eqb_spec (ctxs x) 0); [contradiction|]. rewrite !Z.eqb_refl. reflexivity.
  - bsolve.
Qed.

Lemma pick_return_c32 : forall q l nt i x kind a b ns x' e nt',
  th_ok q x -> st x = 2 -> pick_return q l nt i x kind a b ns = (x', e, nt') ->
  latest1 q i x (snap x') = true /\
  (st x' = 3 -> kind = 3 /\ ns = 0 /\ ready l a = true /\ sc x' = a /\ pgen x' = pgen x /\
                npick x' = npick x /\ natt x' = natt x) /\
  bvf1 q l x kind a (snap x') = true.
Proof.
  intros q l nt i x kind a b ns x' e nt' Hok Hs H.
  pose proof Hok as (H1&H2&H3&H4&H5&H6&H7). specialize (H4 Hs).
  assert (Hlt : chg x <> gen q -> pgen x < gen q) by lia.
  unfold pick_return in H. unfold bvf1.
  destruct (Z.eqb_spec kind 0) as [K0|K0].
  { destruct (top q i x) as [t1 e1] eqn:Ht. inversion H; subst.
    split; [eapply latest1_top; eauto|]. split; [intro E; destruct (top_st _ _ _ _ _ Ht) as [?|[?|?]]; lia|].
    cbn -[Z.eqb Z.ltb Z.leb]. exact (mustblock_top _ _ _ _ _ Hok Hs Ht). }
  destruct (Z.eqb_spec kind 1) as [K1|K1].
  { inversion H; subst. split; [apply latest1_not2; cbn; lia|]. split; [cbn; intro; lia|].
    unfold snap, w_st, w_c; cbn -[Z.eqb restricted]. rewrite !Z.eqb_refl. reflexivity. }
  destruct (Z.eqb_spec kind 2) as [K2|K2].
  { destruct (ff x) eqn:Hff.
    - inversion H; subst. split; [apply latest1_not2; cbn; lia|]. split; [cbn; intro; lia|]. reflexivity.
    - destruct (top q i x) as [t1 e1] eqn:Ht. inversion H; subst.
      split; [eapply latest1_top; eauto|]. split; [intro E; destruct (top_st _ _ _ _ _ Ht) as [?|[?|?]]; lia|].
      cbn -[Z.eqb Z.ltb Z.leb]. exact (mustblock_top _ _ _ _ _ Hok Hs Ht). }
  cbn [andb].
  destruct (Z.eqb_spec kind 3) as [K3|K3].
  - destruct (ready l a) eqn:Hr.
    + cbn [andb]. destruct (Z.eqb_spec ns 0) as [N0|N0].
      { inversion H; subst. split; [apply latest1_not2; cbn; lia|]. split; [|reflexivity]. cbn. auto 8. }
      unfold afinish in H. cbn [afin set_pick] in H.
      destruct (ns =? 1).
      { inversion H; subst. split; [apply latest1_not2; cbn; lia|]. split; [cbn; intro; lia|reflexivity]. }
      match type of H with context [new_attempt q i ?y] => destruct (new_attempt q i y) as [t3 e3] eqn:Hn end.
      inversion H; subst. split; [eapply latest1_new_attempt; [exact Hn|reflexivity]|].
      split; [intro E; destruct (new_attempt_st _ _ _ _ _ Hn) as [?|[?|?]]; lia|reflexivity].
    + destruct (top q i x) as [t1 e1] eqn:Ht. inversion H; subst.
      split; [eapply latest1_top; eauto|]. split; [intro E; destruct (top_st _ _ _ _ _ Ht) as [?|[?|?]]; lia|].
      cbn [andb]. exact (mustblock_top _ _ _ _ _ Hok Hs Ht).
  - destruct (top q i x) as [t1 e1] eqn:Ht. inversion H; subst.
    split; [eapply latest1_top; eauto|]. split; [intro E; destruct (top_st _ _ _ _ _ Ht) as [?|[?|?]]; lia|].
    cbn [andb]. exact (mustblock_top _ _ _ _ _ Hok Hs Ht).
Qed.

Lemma th_in_ok : forall s x, inv s -> In x (ths s) -> th_ok (p s) x.
Proof. intros s x [HF _] Hx. rewrite Forall_forall in HF. auto. Qed.

Lemma nth_snap_upd : forall (l : list th) n x x', nth_error l n = Some x ->
  nth_error (map snap (upd l n x')) n = Some (snap x').
Proof. intros. apply map_nth_error. eapply nth_error_upd_eq; eauto. Qed.

Lemma wake_latest : forall s q', inv s -> gen (p s) <= gen q' ->
  all2i (latest1 q') 0 (ths s) (map snap (fst (wake q' 0 (ths s)))) = true.
Proof.
  intros s q' [HF _] Hg. eapply all2i_wake; [exact HF| |].
  - intros; apply latest1_id.
  - intros j t t' e (H1&H2&H3&_) Hs Ht. destruct (H1 Hs) as (E1&E2&E3).
    eapply latest1_top; eauto. intros Hne. lia.
Qed.

Lemma wake_ready : forall s d q', all2i (ready1 s d) 0 (ths s) (map snap (fst (wake q' 0 (ths s)))) = true.
Proof.
  intros s d q'. eapply all2i_wake with (P := fun _ => True); [apply Forall_forall; auto| |].
  - intros; apply ready1_id.
  - intros j t t' e _ Hs Ht. apply ready1_not3. left. destruct (top_st _ _ _ _ _ Ht) as [?|[?|?]]; lia.
Qed.

Lemma step_c32 : forall s d s' e, inv s -> dstep s d = (s', e) ->
  p s' = pw_after (p s) d /\
  all2i (latest1 (p s')) 0 (ths s) (map snap (ths s')) = true /\
  all2i (ready1 s d) 0 (ths s) (map snap (ths s')) = true /\
  block_vs_fail s d (map snap (ths s')) = true.
Proof.
  intros s d s' e Hi H.
  assert (Hsame : forall d', pw_after (p s) d' = p s \/ True) by (intros; right; exact I).
  assert (Hid : p s = pw_after (p s) d -> block_vs_fail s d (map snap (ths s)) = true ->
                p s = pw_after (p s) d /\
                all2i (latest1 (p s)) 0 (ths s) (map snap (ths s)) = true /\
                all2i (ready1 s d) 0 (ths s) (map snap (ths s)) = true /\
                block_vs_fail s d (map snap (ths s)) = true).
  { intros E B. split; [exact E|]. split; [apply all2i_id; intros; apply latest1_id|].
    split; [apply all2i_id; intros; apply ready1_id|exact B]. }
  (* one thread replaced, pickerWrapper unchanged *)
  assert (Hupd : forall n x x', nth_error (ths s) n = Some x ->
            latest1 (p s) (0 + Z.of_nat n) x (snap x') = true ->
            ready1 s d (0 + Z.of_nat n) x (snap x') = true ->
            all2i (latest1 (p s)) 0 (ths s) (map snap (upd (ths s) n x')) = true /\
            all2i (ready1 s d) 0 (ths s) (map snap (upd (ths s) n x')) = true).
  { intros n x x' Hn L R. split; (eapply all2i_upd; [exact Hn| |assumption]); intros.
    apply latest1_id. apply ready1_id. }
  destruct d; cbn [dstep] in H; cbn [pw_after].
  - (* start *)
    assert (E : p s = (if closed (p s) then p s else p s)) by (destruct (closed (p s)); reflexivity).
    destruct (getth s t) as [x|] eqn:Hx; [|inversion H; subst; apply Hid; auto].
    destruct (Z.eqb_spec (st x) 0) as [Hs|Hs]; [|inversion H; subst; apply Hid; auto].
    apply getth_nth in Hx. destruct Hx as [Hx Ht0].
    match type of H with context [new_attempt _ _ ?y] => destruct (new_attempt (p s) t y) as [x2 e2] eqn:Hn end.
    inversion H; subst. unfold putth; cbn [p ths]. split; [exact E|].
    destruct (Hupd _ _ x2 Hx) as [L R].
    + rewrite Z.add_0_l, Z2Nat.id by lia. eapply latest1_new_attempt; [exact Hn|reflexivity].
    + apply ready1_not3. left. destruct (new_attempt_st _ _ _ _ _ Hn) as [?|[?|?]]; lia.
    + auto.
  - destruct (closed (p s)) eqn:Hc; [inversion H; subst; apply Hid; [unfold pw_after; rewrite Hc; reflexivity|reflexivity]|].
    match type of H with context [wake ?q 0 ?l] =>
      pose proof (wake_latest s q Hi) as L; pose proof (wake_ready s DUpdate q) as R; destruct (wake q 0 l) as [l' e'] end.
    inversion H; subst. cbn [fst p ths gen] in *. split; [unfold pw_after; rewrite Hc; reflexivity|]. split; [apply L; lia|]. split; [exact R|reflexivity].
  - destruct (closed (p s)) eqn:Hc; [inversion H; subst; apply Hid; [unfold pw_after; rewrite Hc; reflexivity|reflexivity]|].
    match type of H with context [wake ?q 0 ?l] =>
      pose proof (wake_latest s q Hi) as L; pose proof (wake_ready s DReset q) as R; destruct (wake q 0 l) as [l' e'] end.
    inversion H; subst. cbn [fst p ths gen] in *. split; [unfold pw_after; rewrite Hc; reflexivity|]. split; [apply L; lia|]. split; [exact R|reflexivity].
  - destruct (closed (p s)) eqn:Hc; [inversion H; subst; apply Hid; [unfold pw_after; rewrite Hc; reflexivity|reflexivity]|].
    match type of H with context [wake ?q 0 ?l] =>
      pose proof (wake_latest s q Hi) as L; pose proof (wake_ready s DClose q) as R; destruct (wake q 0 l) as [l' e'] end.
    inversion H; subst. cbn [fst p ths gen] in *. split; [unfold pw_after; rewrite Hc; reflexivity|]. split; [apply L; lia|]. split; [exact R|reflexivity].
  - (* pick returns *)
    assert (E : p s = (if closed (p s) then p s else p s)) by (destruct (closed (p s)); reflexivity).
    destruct (getth s t) as [x|] eqn:Hx.
    2:{ inversion H; subst. apply Hid; [exact E|]. unfold block_vs_fail. rewrite Hx. reflexivity. }
    pose proof (getth_nth _ _ _ Hx) as [Hn Ht0].
    assert (Hlt : (t <? 0) = false) by (apply Z.ltb_ge; lia).
    match type of H with (if ?c then _ else _) = _ => destruct c eqn:Hc end.
    2:{ inversion H; subst. apply Hid; [exact E|]. unfold block_vs_fail, applies5.
        rewrite Hx, Hlt, (map_nth_error snap _ _ Hn), Hc. reflexivity. }
    destruct (pick_return (p s) (scs s) (ntok s) t x kind a (b =? 1) ns) as [[x' e'] nt'] eqn:Hp.
    inversion H; subst. cbn [p ths scs].
    assert (Hs : st x = 2).
    { repeat (apply andb_prop in Hc; destruct Hc as [Hc ?]). apply Z.eqb_eq; assumption. }
    assert (Hok : th_ok (p s) x) by (apply th_in_ok; [assumption|eapply nth_error_In; eauto]).
    destruct (pick_return_c32 _ _ _ _ _ _ _ _ _ _ _ _ Hok Hs Hp) as (L & R3 & B).
    split; [exact E|].
    destruct (Hupd _ _ x' Hn) as [L' R'].
    + rewrite Z2Nat.id by lia. exact L.
    + unfold ready1. unfold snap at 1, w_st at 1; cbn [nth]. destruct (Z.eqb_spec (st x') 3) as [E3|E3]; [|reflexivity].
      destruct (R3 E3) as (->&->&Hr&Hsc&Hpg&Hnp&Hna).
      rewrite Hs. cbn -[Z.eqb valid_sc]. rewrite Z2Nat.id by lia. rewrite Z.eqb_refl. cbn -[Z.eqb valid_sc].
      assert (Hv : valid_sc s a = true).
      { repeat (apply andb_prop in Hc; destruct Hc as [Hc ?]). cbn in *. assumption. }
      rewrite Hv, Hr. unfold snap, w_c, w_gen, w_np, w_na; cbn -[Z.eqb]. rewrite E3. cbn -[Z.eqb].
      rewrite Hsc, Hpg, Hnp, Hna, !Z.eqb_refl. reflexivity.
    + split; [exact L'|]. split; [exact R'|]. unfold block_vs_fail, applies5.
      rewrite Hx, Hlt, (nth_snap_upd _ _ _ _ Hn), Hc. exact B.
  - assert (E : p s = (if closed (p s) then p s else p s)) by (destruct (closed (p s)); reflexivity).
    destruct (valid_sc s a); inversion H; subst; cbn [p ths]; apply Hid; auto.
  - assert (E : p s = (if closed (p s) then p s else p s)) by (destruct (closed (p s)); reflexivity).
    destruct (getth s t) as [x|] eqn:Hx; [|inversion H; subst; apply Hid; auto].
    match type of H with (if ?c then _ else _) = _ => destruct c eqn:Hc end; [|inversion H; subst; apply Hid; auto].
    inversion H; subst. apply getth_nth in Hx. destruct Hx as [Hx _]. unfold putth; cbn [p ths].
    split; [exact E|].
    match goal with |- context [upd _ _ ?y] => destruct (Hupd _ _ y Hx) as [L R] end.
    + destruct (Z.eqb_spec (st x) 1); [apply latest1_not2; cbn; lia|].
      unfold latest1, snap, w_st, w_np, w_na; cbn -[Z.eqb Z.ltb]. rewrite !Z.eqb_refl. cbn -[Z.eqb]. destruct (st x =? 2); reflexivity.
    + apply ready1_not3. destruct (Z.eqb_spec (st x) 1); cbn; [left; lia|]. destruct (Z.eq_dec (st x) 3); auto.
    + auto.
  - assert (E : p s = (if closed (p s) then p s else p s)) by (destruct (closed (p s)); reflexivity).
    destruct (getth s t) as [x|] eqn:Hx; [|inversion H; subst; apply Hid; auto].
    match type of H with (if ?c then _ else _) = _ => destruct c eqn:Hc end; [|inversion H; subst; apply Hid; auto].
    apply getth_nth in Hx. destruct Hx as [Hx _]. apply andb_prop in Hc. destruct Hc as [Hs _]. apply Z.eqb_eq in Hs.
    unfold afinish in H. split; [destruct (afin x); inversion H; subst; exact E|].
    destruct (afin x); inversion H; subst; unfold putth; cbn [p ths];
      (match goal with |- context [upd _ _ ?y] => destruct (Hupd _ _ y Hx) as [L R] end;
       [apply latest1_not2; cbn; lia | apply ready1_not3; right; exact Hs | auto]).
  - assert (E : p s = (if closed (p s) then p s else p s)) by (destruct (closed (p s)); reflexivity).
    destruct (getth s t) as [x|] eqn:Hx; [|inversion H; subst; apply Hid; auto].
    match type of H with (if ?c then _ else _) = _ => destruct c eqn:Hc end; [|inversion H; subst; apply Hid; auto].
    apply getth_nth in Hx. destruct Hx as [Hx _]. apply andb_prop in Hc. destruct Hc as [Hs _]. apply Z.eqb_eq in Hs.
    unfold afinish in H. split; [destruct (afin x); inversion H; subst; exact E|].
    destruct (afin x); inversion H; subst; unfold putth; cbn [p ths];
      (match goal with |- context [upd _ _ ?y] => destruct (Hupd _ _ y Hx) as [L R] end;
       [apply latest1_not2; cbn; lia | apply ready1_not3; right; exact Hs | auto]).
  - assert (E : p s = (if closed (p s) then p s else p s)) by (destruct (closed (p s)); reflexivity).
    destruct (getth s t) as [x|] eqn:Hx; [|inversion H; subst; apply Hid; auto].
    match type of H with (if ?c then _ else _) = _ => destruct c eqn:Hc end; [|inversion H; subst; apply Hid; auto].
    apply getth_nth in Hx. destruct Hx as [Hx Ht0]. apply andb_prop in Hc. destruct Hc as [Hs _]. apply Z.eqb_eq in Hs.
    destruct (afinish x 1) as [x1 d] eqn:Ha.
    match type of H with context [new_attempt _ _ ?y] => destruct (new_attempt (p s) t y) as [x2 e2] eqn:Hn end.
    inversion H; subst. unfold putth; cbn [p ths]. split; [exact E|].
    destruct (Hupd _ _ x2 Hx) as [L R].
    + rewrite Z.add_0_l, Z2Nat.id by lia. eapply latest1_new_attempt; [exact Hn|].
      unfold afinish in Ha. destruct (afin x); inversion Ha; subst; reflexivity.
    + apply ready1_not3. right. exact Hs.
    + auto.
  - inversion H; subst. apply Hid; [unfold pw_after; destruct (closed (p s')); reflexivity|reflexivity].
Qed.

(* ---------- C23 clauses on model steps ---------- *)
Lemma dones_app : forall a b, dones (a ++ b) = dones a ++ dones b.
Proof. induction a as [|[k o t|k x|t g] a IH]; intros; cbn; rewrite ?IH; reflexivity. Qed.
Lemma dones_len : forall e, length (dones e) = (2 * ndone e)%nat.
Proof. induction e as [|[k o t|k x|t g] e IH]; cbn; try rewrite IH; lia. Qed.

Lemma top_dones : forall q i t t' e, top q i t = (t', e) -> dones e = [].
Proof.
  intros q i t t' e H. apply top_cases in H.
  destruct H as [(_&->&_)|[(_&->&_)|[(c&_&->&_)|(_&->&_)]]]; reflexivity.
Qed.
Lemma new_attempt_dones : forall q i t t' e, new_attempt q i t = (t', e) -> dones e = [].
Proof.
  intros q i t t' e H. unfold new_attempt in H. destruct (ctxs t =? 0); [eapply top_dones; eauto|].
  inversion H; reflexivity.
Qed.
Lemma wake_dones : forall q l i l' e, wake q i l = (l', e) -> dones e = [].
Proof.
  intros q. induction l as [|t l IH]; intros i l' e H; cbn in H; [inversion H; reflexivity|].
  destruct (st t =? 1).
  - destruct (top q i t) as [t' e1] eqn:Ht. destruct (wake q (i + 1) l) as [r' e2] eqn:Hw. inversion H; subst.
    rewrite dones_app, (top_dones _ _ _ _ _ Ht), (IH _ _ _ Hw). reflexivity.
  - destruct (wake q (i + 1) l) as [r' e2] eqn:Hw. inversion H; subst. cbn. eapply IH; eauto.
Qed.

Lemma pick_return_dones : forall q l nt i x kind a b ns x' e nt', 1 <= nt ->
  pick_return q l nt i x kind a b ns = (x', e, nt') ->
  dones e = if (kind =? 3) && b then (if ready l a then (if ns =? 0 then [] else [nt; 1]) else [nt; 0]) else [].
Proof.
  intros q l nt i x kind a b ns x' e nt' Hnt H. unfold pick_return in H.
  destruct (Z.eqb_spec kind 0) as [K0|K0].
  { subst. destruct (top q i x) as [t1 e1] eqn:Ht. inversion H; subst. cbn. eapply top_dones; eauto. }
  destruct (Z.eqb_spec kind 1) as [K1|K1]. { subst. inversion H; subst. reflexivity. }
  destruct (Z.eqb_spec kind 2) as [K2|K2].
  { subst. destruct (ff x); [inversion H; subst; reflexivity|].
    destruct (top q i x) as [t1 e1] eqn:Ht. inversion H; subst. cbn. eapply top_dones; eauto. }
  destruct (Z.eqb_spec kind 3) as [K3|K3]; cbn [andb].
  - destruct (ready l a).
    + destruct (ns =? 0). { inversion H; subst. destruct b; reflexivity. }
      unfold afinish in H. cbn [afin set_pick tok] in H.
      destruct (ns =? 1).
      { inversion H; subst. destruct b; cbn; [|reflexivity].
        replace (nt =? 0) with false by (symmetry; apply Z.eqb_neq; lia). reflexivity. }
      match type of H with context [new_attempt q i ?y] => destruct (new_attempt q i y) as [t3 e3] eqn:Hn end.
      inversion H; subst. rewrite !dones_app, (new_attempt_dones _ _ _ _ _ Hn). destruct b; cbn; [|reflexivity].
      replace (nt =? 0) with false by (symmetry; apply Z.eqb_neq; lia). reflexivity.
    + destruct (top q i x) as [t1 e1] eqn:Ht. inversion H; subst.
      rewrite !dones_app, (top_dones _ _ _ _ _ Ht). destruct b; reflexivity.
  - destruct (top q i x) as [t1 e1] eqn:Ht. inversion H; subst.
    rewrite !dones_app, (top_dones _ _ _ _ _ Ht). destruct b; reflexivity.
Qed.

Lemma step_dones : forall s d s' e, 1 <= ntok s -> dstep s d = (s', e) -> dones e = due s d.
Proof.
  intros s d s' e Hnt H. destruct d; cbn [dstep] in H; cbn [due].
  - destruct (getth s t) as [x|]; [|inversion H; reflexivity].
    destruct (st x =? 0); [|inversion H; reflexivity].
    match type of H with context [new_attempt _ _ ?y] => destruct (new_attempt (p s) t y) as [x2 e2] eqn:Hn end.
    inversion H; subst. eapply new_attempt_dones; eauto.
  - destruct (closed (p s)); [inversion H; reflexivity|].
    match type of H with context [wake ?q 0 ?l] => destruct (wake q 0 l) as [l' e'] eqn:Hw end.
    inversion H; subst. eapply wake_dones; eauto.
  - destruct (closed (p s)); [inversion H; reflexivity|].
    match type of H with context [wake ?q 0 ?l] => destruct (wake q 0 l) as [l' e'] eqn:Hw end.
    inversion H; subst. eapply wake_dones; eauto.
  - destruct (closed (p s)); [inversion H; reflexivity|].
    match type of H with context [wake ?q 0 ?l] => destruct (wake q 0 l) as [l' e'] eqn:Hw end.
    inversion H; subst. eapply wake_dones; eauto.
  - destruct (getth s t) as [x|]; [|inversion H; reflexivity]. unfold applies5.
    match type of H with (if ?c then _ else _) = _ => destruct c eqn:Hc end; [|inversion H; reflexivity].
    destruct (pick_return (p s) (scs s) (ntok s) t x kind a (b =? 1) ns) as [[x' e'] nt'] eqn:Hp.
    inversion H; subst. rewrite (pick_return_dones _ _ _ _ _ _ _ _ _ _ _ _ Hnt Hp). reflexivity.
  - destruct (valid_sc s a); inversion H; reflexivity.
  - destruct (getth s t) as [x|]; [|inversion H; reflexivity].
    match type of H with (if ?c then _ else _) = _ => destruct c end; inversion H; reflexivity.
  - destruct (getth s t) as [x|]; [|inversion H; reflexivity].
    destruct (st x =? 3); cbn [andb]; [|inversion H; reflexivity].
    destruct (csfin x); cbn [andb negb]; [inversion H; reflexivity|].
    unfold afinish in H. destruct (afin x); cbn [andb negb]; [inversion H; reflexivity|].
    destruct (tok x =? 0); inversion H; reflexivity.
  - destruct (getth s t) as [x|]; [|inversion H; reflexivity].
    destruct (st x =? 3); cbn [andb]; [|inversion H; reflexivity].
    destruct (committed x); cbn [andb negb]; [inversion H; reflexivity|].
    unfold afinish in H. destruct (afin x); cbn [andb negb]; [inversion H; reflexivity|].
    destruct (tok x =? 0); inversion H; reflexivity.
  - destruct (getth s t) as [x|]; [|inversion H; reflexivity].
    destruct (st x =? 3); cbn [andb]; [|inversion H; reflexivity].
    destruct (negb (committed x) && negb (csfin x)); cbn [andb]; [|inversion H; reflexivity].
    destruct (afinish x 1) as [x1 d] eqn:Ha.
    match type of H with context [new_attempt _ _ ?y] => destruct (new_attempt (p s) t y) as [x2 e2] eqn:Hn end.
    inversion H; subst. rewrite dones_app, (new_attempt_dones _ _ _ _ _ Hn), app_nil_r.
    unfold afinish in Ha. destruct (afin x); cbn [andb negb]; [inversion Ha; reflexivity|].
    destruct (tok x =? 0); inversion Ha; reflexivity.
  - inversion H; reflexivity.
Qed.

Lemma step_woken : forall s d s' e, inv s -> dstep s d = (s', e) -> woken s d (map snap (ths s')) = true.
Proof.
  intros s d s' e Hi H. pose proof Hi as [HF _]. destruct d; cbn [dstep] in H; cbn [woken]; try reflexivity.
  - destruct (closed (p s)) eqn:Hc; [reflexivity|].
    match type of H with context [wake ?q 0 ?l] => set (q' := q) in *; destruct (wake q' 0 l) as [l' e'] eqn:Hw end.
    inversion H; subst. cbn [ths]. replace l' with (fst (wake q' 0 (ths s))) by (rewrite Hw; reflexivity).
    eapply all2i_wake; [exact HF| |].
    + intros j t Hs. destruct (Z.eqb_spec (st t) 1); [contradiction|reflexivity].
    + intros j t t' e0 (H1&_) Hs Ht. destruct (H1 Hs) as (E1&E2&E3). rewrite Hs. cbn -[Z.eqb].
      apply top_cases in Ht. subst q'. cbn [closed haspk gen] in Ht.
      destruct Ht as [(_&_&C)|[(_&_&_&_&G)|[(c&_&_&_&_&_&G)|(->&_)]]]; try discriminate; try lia.
      unfold snap, w_st, w_gen, w_np; cbn -[Z.eqb]. rewrite !Z.eqb_refl. reflexivity.
  - destruct (closed (p s)) eqn:Hc; [reflexivity|].
    match type of H with context [wake ?q 0 ?l] => set (q' := q) in *; destruct (wake q' 0 l) as [l' e'] eqn:Hw end.
    inversion H; subst. cbn [ths]. replace l' with (fst (wake q' 0 (ths s))) by (rewrite Hw; reflexivity).
    eapply all2i_wake; [exact HF| |].
    + intros j t Hs. destruct (Z.eqb_spec (st t) 1); [contradiction|reflexivity].
    + intros j t t' e0 _ Hs Ht. rewrite Hs. cbn -[Z.eqb].
      apply top_cases in Ht. subst q'. cbn [closed haspk gen] in Ht.
      destruct Ht as [(->&_)|[(_&_&C&_)|[(c&_&_&C&_)|(_&_&C&_)]]]; try discriminate. reflexivity.
  - destruct (getth s t) as [x|] eqn:Hx; [|reflexivity].
    pose proof (getth_nth _ _ _ Hx) as [Hn Ht0].
    assert (Hlt : (t <? 0) = false) by (apply Z.ltb_ge; lia). rewrite Hlt.
    match type of H with (if ?c then _ else _) = _ => destruct c eqn:Hc end.
    + inversion H; subst. unfold putth; cbn [ths]. rewrite (nth_snap_upd _ _ _ _ Hn). cbn [andb].
      destruct (st x =? 1); [|reflexivity]. unfold snap, w_st, w_c; cbn -[Z.eqb]. rewrite !Z.eqb_refl. reflexivity.
    + inversion H; subst. rewrite (map_nth_error snap _ _ Hn). reflexivity.
Qed.

(* ---------- observations parse back ---------- *)
Lemma take_n_app : forall a b, take_n (length a) (a ++ b) = Some (a, b).
Proof. induction a as [|x a IH]; intro b; cbn; [reflexivity|]. rewrite IH. reflexivity. Qed.

Lemma chunk5_snap : forall l fuel, (length l <= fuel)%nat -> chunk5 fuel (concat (map snap l)) = Some (map snap l).
Proof.
  induction l as [|t l IH]; intros fuel Hf; cbn.
  - destruct fuel; reflexivity.
  - destruct fuel as [|f]; [cbn in Hf; lia|]. cbn [chunk5]. rewrite IH by (cbn in Hf; lia). reflexivity.
Qed.

Lemma concat_snap_len : forall l, length (concat (map snap l)) = (5 * length l)%nat.
Proof. induction l as [|t l IH]; cbn; [reflexivity|]. rewrite IH. lia. Qed.

Lemma parse_obs_of : forall n s1 e, length (ths s1) = n ->
  parse_obs n (obs_of s1 e) = Some (dones e, map snap (ths s1)).
Proof.
  intros n s1 e Hn. unfold parse_obs, obs_of.
  replace (Z.of_nat (ndone e) <? 0) with false by (symmetry; apply Z.ltb_ge; lia).
  replace (Z.to_nat (2 * Z.of_nat (ndone e))) with (length (dones e)) by (rewrite dones_len; lia).
  rewrite take_n_app. rewrite chunk5_snap by (rewrite concat_snap_len; lia).
  rewrite map_length, Hn, Nat.eqb_refl. reflexivity.
Qed.

Lemma step_len : forall s d s' e, dstep s d = (s', e) -> length (ths s') = length (ths s).
Proof.
  intros s d s' e H. destruct d; cbn [dstep] in H.
  - destruct (getth s t) as [x|]; [|inversion H; reflexivity].
    destruct (st x =? 0); [|inversion H; reflexivity].
    match type of H with context [new_attempt _ _ ?y] => destruct (new_attempt (p s) t y) as [x2 e2] end.
    inversion H; subst. unfold putth; cbn. apply upd_length.
  - destruct (closed (p s)); [inversion H; reflexivity|].
    match type of H with context [wake ?q 0 ?l] => pose proof (wake_length q l 0) as Hl; destruct (wake q 0 l) as [l' e'] end.
    inversion H; subst. exact Hl.
  - destruct (closed (p s)); [inversion H; reflexivity|].
    match type of H with context [wake ?q 0 ?l] => pose proof (wake_length q l 0) as Hl; destruct (wake q 0 l) as [l' e'] end.
    inversion H; subst. exact Hl.
  - destruct (closed (p s)); [inversion H; reflexivity|].
    match type of H with context [wake ?q 0 ?l] => pose proof (wake_length q l 0) as Hl; destruct (wake q 0 l) as [l' e'] end.
    inversion H; subst. exact Hl.
  - destruct (getth s t) as [x|]; [|inversion H; reflexivity].
    match type of H with (if ?c then _ else _) = _ => destruct c end; [|inversion H; reflexivity].
    destruct (pick_return (p s) (scs s) (ntok s) t x kind a (b =? 1) ns) as [[x' e'] nt'].
    inversion H; subst. cbn. apply upd_length.
  - destruct (valid_sc s a); inversion H; reflexivity.
  - destruct (getth s t) as [x|]; [|inversion H; reflexivity].
    match type of H with (if ?c then _ else _) = _ => destruct c end; inversion H; subst; [|reflexivity].
    unfold putth; cbn. apply upd_length.
  - destruct (getth s t) as [x|]; [|inversion H; reflexivity].
    match type of H with (if ?c then _ else _) = _ => destruct c end; [|inversion H; reflexivity].
    destruct (afinish x (if e0 =? 0 then 0 else 1)) as [x1 dd]. inversion H; subst. unfold putth; cbn. apply upd_length.
  - destruct (getth s t) as [x|]; [|inversion H; reflexivity].
    match type of H with (if ?c then _ else _) = _ => destruct c end; [|inversion H; reflexivity].
    destruct (afinish x 1) as [x1 dd]. inversion H; subst. unfold putth; cbn. apply upd_length.
  - destruct (getth s t) as [x|]; [|inversion H; reflexivity].
    match type of H with (if ?c then _ else _) = _ => destruct c end; [|inversion H; reflexivity].
    destruct (afinish x 1) as [x1 dd].
    match type of H with context [new_attempt _ _ ?y] => destruct (new_attempt (p s) t y) as [x2 e2] end.
    inversion H; subst. unfold putth; cbn. apply upd_length.
  - inversion H; reflexivity.
Qed.

(* ---------- bridge: the clauses hold on every trace of the model ---------- *)
Lemma exec_cons : forall s op ops, exec s (op :: ops) =
  let '(s1, e) := step s op in let '(os, es, sf) := exec s1 ops in (obs_of s1 e :: os, e ++ es, sf).
Proof. reflexivity. Qed.
Lemma walk_cons : forall f s op r o r', walk f s (op :: r) (o :: r') =
  let '(s1, e) := step s op in f s op o ++ (if word_eqb (obs_of s1 e) o then walk f s1 r r' else []).
Proof. reflexivity. Qed.

Lemma walk_exec : forall (f : state -> word -> word -> list (Z * Z * bool)) (ok : word -> bool),
  (forall s op s1 e, inv s -> 0 <= gen (p s) -> ok op = true -> step s op = (s1, e) ->
     forallb (fun c => snd c) (f s op (obs_of s1 e)) = true) ->
  forall ops s, inv s -> 0 <= gen (p s) -> forallb ok ops = true ->
  forallb (fun c => snd c) (walk f s ops (fst (fst (exec s ops)))) = true.
Proof.
  intros f ok Hstep. induction ops as [|op ops IH]; intros s Hi Hg Hok; [reflexivity|].
  cbn [forallb] in Hok. apply andb_prop in Hok. destruct Hok as [Hop Hok].
  rewrite exec_cons. destruct (step s op) as [s1 e] eqn:Hs. destruct (exec s1 ops) as [[os es] sf] eqn:He.
  cbn [fst]. rewrite walk_cons, Hs. rewrite forallb_app. rewrite (Hstep _ _ _ _ Hi Hg Hop Hs). rewrite word_eqb_refl.
  cbn [andb]. unfold step in Hs. destruct (step_inv _ _ _ _ Hi Hg Hs) as [Hi1 Hg1].
  specialize (IH s1 Hi1 Hg1 Hok). rewrite He in IH. exact IH.
Qed.

Definition nofo (op : word) : bool :=
  match decode op with DPick _ kind _ b _ => negb ((kind =? 4) && (b =? 1)) | _ => true end.

Lemma clauses23_step : forall s op s1 e, inv s -> 0 <= gen (p s) -> nofo op = true -> step s op = (s1, e) ->
  forallb (fun c => snd c) (clauses23_op s op (obs_of s1 e)) = true.
Proof.
  intros s op s1 e Hi Hg Hno Hs. unfold step in Hs. unfold clauses23_op.
  rewrite (parse_obs_of _ _ _ (step_len _ _ _ _ Hs)).
  assert (Hnt : 1 <= ntok s) by (destruct Hi; assumption).
  rewrite (step_dones _ _ _ _ Hnt Hs). rewrite (step_woken _ _ _ _ Hi Hs).
  assert (Hf : foreign_done s (decode op) = false).
  { unfold nofo in Hno. unfold foreign_done. destruct (decode op); try reflexivity.
    destruct (getth s t); [|reflexivity]. apply negb_true_iff in Hno.
    rewrite <- andb_assoc, Hno. apply andb_false_r. }
  rewrite Hf. cbn. rewrite word_eqb_refl. destruct (due s (decode op)); reflexivity.
Qed.

Lemma clauses32_step : forall s op s1 e, inv s -> 0 <= gen (p s) -> true = true -> step s op = (s1, e) ->
  forallb (fun c => snd c) (clauses32_op s op (obs_of s1 e)) = true.
Proof.
  intros s op s1 e Hi Hg _ Hs. unfold step in Hs. unfold clauses32_op.
  rewrite (parse_obs_of _ _ _ (step_len _ _ _ _ Hs)).
  destruct (step_c32 _ _ _ _ Hi Hs) as (Hp & L & R & B). rewrite <- Hp, L, R, B. reflexivity.
Qed.

Theorem model_trace_holds_C23 : forall cfg ops s0, init cfg = Some s0 -> forallb nofo ops = true ->
  exists obs, run cfg ops = Some obs /\ holds_C23 cfg ops obs = true.
Proof.
  intros cfg ops s0 Hi Hok. destruct (init_inv _ _ Hi) as (Hv & Hg & _).
  exists (fst (fst (exec s0 ops))). unfold run, holds_C23, clauses_C23. rewrite Hi. split; [reflexivity|].
  apply (walk_exec clauses23_op nofo clauses23_step); assumption.
Qed.

Theorem model_trace_holds_C32 : forall cfg ops s0, init cfg = Some s0 ->
  exists obs, run cfg ops = Some obs /\ holds_C32 cfg ops obs = true.
Proof.
  intros cfg ops s0 Hi. destruct (init_inv _ _ Hi) as (Hv & Hg & _).
  exists (fst (fst (exec s0 ops))). unfold run, holds_C32, clauses_C32. rewrite Hi. split; [reflexivity|].
  apply (walk_exec clauses32_op (fun _ => true) clauses32_step); try assumption.
  induction ops; cbn; auto.
Qed.

(* ---------- readable per-step statements ---------- *)
Lemma reach_inv : forall cfg ops s0 obs evs s, init cfg = Some s0 -> exec s0 ops = (obs, evs, s) ->
  inv s /\ 0 <= gen (p s).
Proof.
  intros cfg ops s0 obs evs s Hi He. destruct (init_inv _ _ Hi) as (Hv & Hg & _).
  destruct (exec_ledger _ _ _ _ _ Hv Hg He) as (?&?&_). auto.
Qed.

Definition reachable (s : state) : Prop :=
  exists cfg ops s0 obs evs, init cfg = Some s0 /\ exec s0 ops = (obs, evs, s).

Lemma step_threads : forall s d s' e n x, dstep s d = (s', e) -> nth_error (ths s) n = Some x ->
  exists x', nth_error (ths s') n = Some x'.
Proof.
  intros s d s' e n x H Hn. pose proof (step_len _ _ _ _ H) as Hl.
  destruct (nth_error (ths s') n) eqn:E; [eauto|].
  apply nth_error_None in E. assert (n < length (ths s))%nat by (apply nth_error_Some; congruence). lia.
Qed.

Ltac breflect H :=
  repeat match type of H with
         | context [?a =? ?b] => destruct (Z.eqb_spec a b)
         | context [?a <? ?b] => destruct (Z.ltb_spec a b)
         end; cbn -[Z.eqb Z.ltb] in H; try discriminate.

(* C32, first sentence (second half): a Pick call is always on the current picker, and within
   one call of pick each Pick call is on a newer picker than the previous one *)
Theorem pick_uses_latest_picker : forall s d s' e n x x', reachable s -> dstep s d = (s', e) ->
  nth_error (ths s) n = Some x -> nth_error (ths s') n = Some x' -> st x' = 2 ->
  (st x = 2 /\ npick x' = npick x /\ natt x' = natt x) \/
  (pgen x' = gen (p s') /\ haspk (p s') = true /\ closed (p s') = false /\
   ((natt x' = natt x /\ npick x' = npick x + 1 /\ pgen x < pgen x') \/
    (natt x' = natt x + 1 /\ npick x' = 1))).
Proof.
  intros s d s' e n x x' (cfg&ops&s0&obs&evs&Hi&He) H Hn Hn' Hs.
  destruct (reach_inv _ _ _ _ _ _ Hi He) as [Hv Hg].
  destruct (step_c32 _ _ _ _ Hv H) as (_ & L & _ & _).
  pose proof (all2i_nth _ _ _ _ _ _ _ L Hn Hn') as L1.
  unfold latest1, snap, w_st, w_gen, w_np, w_na in L1; cbn -[Z.eqb Z.ltb] in L1. rewrite Hs in L1.
  destruct (haspk (p s')), (closed (p s')); breflect L1; try lia; auto 10.
  all: try (left; repeat split; lia).
  all: right; repeat split; auto; try lia.
Qed.

(* C32, first sentence (first half): a stream is only created on the transport of a SubConn
   that is READY when the pick returns *)
Theorem stream_only_on_ready : forall s d s' e n x x', reachable s -> dstep s d = (s', e) ->
  nth_error (ths s) n = Some x -> nth_error (ths s') n = Some x' -> st x <> 3 -> st x' = 3 ->
  exists a b, d = DPick (Z.of_nat n) 3 a b 0 /\ st x = 2 /\ ready (scs s) a = true /\ sc x' = a /\
              pgen x' = pgen x.
Proof.
  intros s d s' e n x x' (cfg&ops&s0&obs&evs&Hi&He) H Hn Hn' Hs Hs'.
  destruct (reach_inv _ _ _ _ _ _ Hi He) as [Hv Hg].
  destruct (step_c32 _ _ _ _ Hv H) as (_ & _ & R & _).
  pose proof (all2i_nth _ _ _ _ _ _ _ R Hn Hn') as R1.
  unfold ready1, snap, w_st, w_gen, w_np, w_na, w_c in R1; cbn -[Z.eqb Z.ltb] in R1. rewrite Hs' in R1.
  destruct (Z.eqb_spec (st x) 3); [contradiction|]. cbn -[Z.eqb Z.ltb] in R1.
  destruct d; try discriminate.
  repeat (apply andb_prop in R1; destruct R1 as [R1 ?]).
  repeat match goal with E : (_ =? _) = true |- _ => apply Z.eqb_eq in E end.
  match goal with E : (if 3 =? 4 then _ else _) = _ |- _ => cbn in E end.
  subst. exists (sc x'), b. repeat split; auto.
Qed.

(* C32, second sentence *)
Theorem block_rather_than_fail : forall s t kind a b ns s' e x x', reachable s ->
  dstep s (DPick t kind a b ns) = (s', e) -> getth s t = Some x -> applies5 s x kind a b ns = true ->
  nth_error (ths s') (Z.to_nat t) = Some x' ->
  (kind = 1 -> st x' = 4 /\ code x' = (if restricted a then 13 else a)) /\
  (kind = 2 -> ff x = true -> st x' = 4 /\ code x' = 14) /\
  ((kind = 0 \/ (kind = 2 /\ ff x = false) \/ (kind = 3 /\ ready (scs s) a = false) \/ kind = 4) ->
   (st x' = 1 /\ closed (p s) = false /\ ctxs x = 0 /\ (pgen x = gen (p s) \/ haspk (p s) = false)) \/
   (st x' = 2 /\ pgen x < pgen x') \/
   (st x' = 4 /\ ((closed (p s) = true /\ code x' = 1) \/ (ctxs x <> 0 /\ code x' = ctx_code (ctxs x))))).
Proof.
  intros s t kind a b ns s' e x x' (cfg&ops&s0&obs&evs&Hi&He) H Hx Hap Hn'.
  destruct (reach_inv _ _ _ _ _ _ Hi He) as [Hv Hg].
  destruct (step_c32 _ _ _ _ Hv H) as (_ & _ & _ & B).
  pose proof (getth_nth _ _ _ Hx) as [Hn Ht0].
  unfold block_vs_fail in B. rewrite Hx, Hap in B.
  replace (t <? 0) with false in B by (symmetry; apply Z.ltb_ge; lia).
  rewrite (map_nth_error snap _ _ Hn') in B.
  unfold bvf1, snap, w_st, w_c, w_gen in B; cbn -[Z.eqb Z.ltb restricted ctx_code] in B.
  split; [|split].
  - intros ->. cbn -[restricted] in B. apply andb_prop in B. destruct B as [B1 B2].
    apply Z.eqb_eq in B1. rewrite B1 in B2. cbn -[restricted] in B2. apply Z.eqb_eq in B2. auto.
  - intros -> Hff. rewrite Hff in B. cbn in B. apply andb_prop in B. destruct B as [B1 B2].
    apply Z.eqb_eq in B1. rewrite B1 in B2. cbn in B2. apply Z.eqb_eq in B2. auto.
  - intros Hk.
    assert (E1 : (kind =? 1) = false) by (apply Z.eqb_neq; intuition lia).
    assert (E2 : (kind =? 2) && ff x = false).
    { destruct Hk as [->|[[-> ->]|[[-> _]| -> ]]]; reflexivity. }
    assert (E3 : (kind =? 3) && ready (scs s) a = false).
    { destruct Hk as [->|[[-> _]|[[-> ->]| -> ]]]; reflexivity. }
    rewrite E1, E2, E3 in B.
    destruct (Z.eqb_spec (st x') 4) as [S4|S4].
    + right; right. split; [exact S4|].
      apply orb_prop in B. destruct B as [B|B]; apply andb_prop in B; destruct B as [B1 B2]; apply Z.eqb_eq in B2.
      * left; auto.
      * right. apply negb_true_iff, Z.eqb_neq in B1. auto.
    + destruct (Z.eqb_spec (st x') 1) as [S1|S1].
      * left. apply andb_prop in B. destruct B as [B B3]. apply andb_prop in B. destruct B as [B1 B2].
        apply negb_true_iff in B1. apply Z.eqb_eq in B2. apply orb_prop in B3.
        repeat split; auto. destruct B3 as [B3|B3]; [left; apply Z.eqb_eq; exact B3 | right; apply negb_true_iff; exact B3].
      * right; left. apply andb_prop in B. destruct B as [B1 B2]. apply Z.eqb_eq in B1. apply Z.ltb_lt in B2. auto.
Qed.

(* C23, second sentence: a pick blocked waiting for a picker is woken by every picker update,
   by close, and by its context *)
Theorem blocked_pick_woken : forall s n x, reachable s -> nth_error (ths s) n = Some x -> st x = 1 ->
  closed (p s) = false /\ ctxs x = 0 /\
  (forall s' e, dstep s DUpdate = (s', e) -> exists x', nth_error (ths s') n = Some x' /\
       st x' = 2 /\ pgen x' = gen (p s) + 1 /\ npick x' = npick x + 1 /\ gen (p s') = gen (p s) + 1) /\
  (forall s' e, dstep s DClose = (s', e) -> exists x', nth_error (ths s') n = Some x' /\ st x' = 4 /\ code x' = 1) /\
  (forall how s' e, how = 1 \/ how = 2 -> dstep s (DCancel (Z.of_nat n) how) = (s', e) ->
       exists x', nth_error (ths s') n = Some x' /\ st x' = 4 /\ code x' = ctx_code how).
Proof.
  intros s n x (cfg&ops&s0&obs&evs&Hi&He) Hn Hs.
  destruct (reach_inv _ _ _ _ _ _ Hi He) as [Hv Hg].
  destruct (th_in_ok s x Hv (nth_error_In _ _ Hn)) as (H1&_). destruct (H1 Hs) as (E1&E2&E3).
  split; [exact E3|]. split; [exact E2|]. split; [|split].
  - intros s' e H. destruct (step_threads _ _ _ _ _ _ H Hn) as [x' Hn']. exists x'. split; [exact Hn'|].
    pose proof (step_woken _ _ _ _ Hv H) as W. cbn [woken] in W. rewrite E3 in W.
    pose proof (all2i_nth _ _ _ _ _ _ _ W Hn Hn') as W1. cbn -[Z.eqb] in W1. rewrite Hs in W1. cbn -[Z.eqb] in W1.
    unfold snap, w_st, w_gen, w_np in W1; cbn -[Z.eqb] in W1.
    repeat (apply andb_prop in W1; destruct W1 as [W1 ?]).
    repeat match goal with E : (_ =? _) = true |- _ => apply Z.eqb_eq in E end.
    destruct (step_c32 _ _ _ _ Hv H) as (Hp & _). rewrite Hp. unfold pw_after. rewrite E3. cbn. repeat split; auto.
  - intros s' e H. destruct (step_threads _ _ _ _ _ _ H Hn) as [x' Hn']. exists x'. split; [exact Hn'|].
    pose proof (step_woken _ _ _ _ Hv H) as W. cbn [woken] in W. rewrite E3 in W.
    pose proof (all2i_nth _ _ _ _ _ _ _ W Hn Hn') as W1. cbn -[Z.eqb] in W1. rewrite Hs in W1. cbn -[Z.eqb] in W1.
    unfold snap, w_st, w_c in W1; cbn -[Z.eqb] in W1.
    apply andb_prop in W1. destruct W1 as [W1 W2]. apply Z.eqb_eq in W1. rewrite W1 in W2. cbn in W2.
    apply Z.eqb_eq in W2. auto.
  - intros how s' e Hh H. destruct (step_threads _ _ _ _ _ _ H Hn) as [x' Hn']. exists x'. split; [exact Hn'|].
    pose proof (step_woken _ _ _ _ Hv H) as W. cbn [woken] in W.
    unfold getth in W. replace (Z.of_nat n <? 0) with false in W by (symmetry; apply Z.ltb_ge; lia).
    rewrite Nat2Z.id, Hn, (map_nth_error snap _ _ Hn'), E2, Hs in W.
    assert (Hb : (how =? 1) || (how =? 2) = true) by (destruct Hh as [->| ->]; reflexivity).
    rewrite Hb in W. cbn -[Z.eqb ctx_code] in W. unfold snap, w_st, w_c in W; cbn -[Z.eqb ctx_code] in W.
    apply andb_prop in W. destruct W as [W1 W2]. apply Z.eqb_eq in W1. rewrite W1 in W2. cbn -[ctx_code] in W2.
    apply Z.eqb_eq in W2. auto.
Qed.

(* C23, "is retried": a stream operation of a created, uncommitted stream fails with a status the
   retry policy retries.  The attempt being abandoned is finished right then - its Done runs now
   with an error unless it ran before (or the result carried no Done) - and the RPC goes on to
   pick for the next attempt (or fails: channel closed / context done).  What happens to the Done
   of that next pick is the DPick case of [due] again (pick_return does not look at how the
   attempt came about), and the ledger theorems above cover op lists containing this op. *)
Theorem retried_attempt_done : forall s t x s' e, reachable s -> getth s t = Some x ->
  st x = 3 -> committed x = false -> csfin x = false -> dstep s (DRetryFail t) = (s', e) ->
  dones e = (if afin x || (tok x =? 0) then [] else [tok x; 1]) /\
  exists x', nth_error (ths s') (Z.to_nat t) = Some x' /\ (st x' = 1 \/ st x' = 2 \/ st x' = 4).
Proof.
  intros s t x s' e (cfg&ops&s0&obs&evs&Hi&He) Hx Hs Hc Hf H.
  destruct (reach_inv _ _ _ _ _ _ Hi He) as [[_ Hnt] _].
  split.
  - rewrite (step_dones _ _ _ _ Hnt H). cbn [due]. rewrite Hx, Hs, Hc, Hf. cbn [Z.eqb Pos.eqb andb negb].
    destruct (afin x); cbn [negb andb orb]; [reflexivity|]. destruct (tok x =? 0); reflexivity.
  - cbn [dstep] in H. rewrite Hx, Hs, Hc, Hf in H. cbn [Z.eqb Pos.eqb andb negb] in H.
    destruct (afinish x 1) as [x1 d].
    match type of H with context [new_attempt _ _ ?y] => destruct (new_attempt (p s) t y) as [x2 e2] eqn:Hn end.
    inversion H; subst. exists x2. apply getth_nth in Hx. destruct Hx as [Hx _].
    unfold putth; cbn [ths]. split; [eapply nth_error_upd_eq; eauto|]. eapply new_attempt_st; eauto.
Qed.

(* C32, "the latest picker" is the latest one of the channel's CURRENT LB policy: a picker
   published through a balancer wrapper that was closed by idle entry changes nothing (no
   thread moves, no Pick call is made on it); publishing through the current wrapper is
   updatePicker, and idle entry is reset (every pick is back to waiting for a new picker) *)
Theorem closed_policy_publish_noop : forall s o, o <> 0 -> step s [11; o] = (s, []).
Proof.
  intros s o Ho. unfold step, decode. destruct (Z.eqb_spec o 0); [contradiction|reflexivity].
Qed.
Theorem current_policy_publish_is_update : forall s, step s [11; 0] = dstep s DUpdate.
Proof. reflexivity. Qed.
Theorem enter_idle_is_reset : forall s, step s [12] = dstep s DReset.
Proof. reflexivity. Qed.
