From Coq Require Import List ZArith Bool Arith Lia Floats.
From VLib Require Import Codec Machine.
From VModel Require Import Outlier.
Import ListNotations.
Open Scope Z_scope.

(* ---------- eject only if: one pass of an ejection algorithm ---------- *)

(* what a pass may do to one endpoint: nothing, or eject it at time t, and then only if the
   outlier test [crit] held, the enforcement percentage is 100 and the max_ejection_percent
   test (as the code evaluates it) was negative for a counter value kk seen during the pass *)
Definition pass_rel (crit : ep -> bool) (enf n mx t k k' : Z) (p p' : Z * ep) : Prop :=
  fst p' = fst p /\
  (snd p' = snd p \/
   (snd p' = eject_ep t (snd p) /\ crit (snd p) = true /\ 100 <= enf /\
    exists kk, k <= kk < k' /\ share_ge kk n mx = false)).

Lemma F2_impl {A B} (P Q : A -> B -> Prop) l l' :
  (forall a b, P a b -> Q a b) -> Forall2 P l l' -> Forall2 Q l l'.
Proof. intros H F. induction F; constructor; auto. Qed.

Lemma pass_mono crit enf n mx t : forall l k gd k' gd' l',
  pass crit enf n mx t k gd l = (k', gd', l') -> k <= k'.
Proof.
  induction l as [|[id e] r IH]; cbn [pass]; intros k gd k' gd' l' H.
  - injection H as <- <- <-. lia.
  - destruct (crit e && negb (share_ge k n mx) && (100 <=? enf)).
    + destruct (pass crit enf n mx t (k + 1) (if is_ej e then gd + 1 else gd) r) as [[k1 g1] r1] eqn:E.
      cbn in H; injection H as <- <- <-. apply IH in E. lia.
    + destruct (pass crit enf n mx t k gd r) as [[k1 g1] r1] eqn:E.
      cbn in H; injection H as <- <- <-. apply IH in E. lia.
Qed.

Lemma pass_spec crit enf n mx t : forall l k gd k' gd' l',
  pass crit enf n mx t k gd l = (k', gd', l') ->
  Forall2 (pass_rel crit enf n mx t k k') l l'.
Proof.
  induction l as [|[id e] r IH]; cbn [pass]; intros k gd k' gd' l' H.
  - injection H as <- <- <-. constructor.
  - destruct (crit e && negb (share_ge k n mx) && (100 <=? enf)) eqn:C.
    + destruct (pass crit enf n mx t (k + 1) (if is_ej e then gd + 1 else gd) r) as [[k1 g1] r1] eqn:E.
      cbn in H; injection H as <- <- <-. pose proof (pass_mono _ _ _ _ _ _ _ _ _ _ _ E) as Hm.
      apply andb_true_iff in C. destruct C as [C C3]. apply andb_true_iff in C. destruct C as [C1 C2].
      apply negb_true_iff in C2. apply Z.leb_le in C3.
      constructor.
      * split; [reflexivity|]. right. cbn. repeat split; auto. exists k. split; [lia | exact C2].
      * apply IH in E. eapply F2_impl; [|exact E].
        intros a b [Hf [Hs | [Hs [Hc [He [kk [Hk Hsh]]]]]]]; split; auto.
        right. repeat split; auto. exists kk. split; [lia | exact Hsh].
    + destruct (pass crit enf n mx t k gd r) as [[k1 g1] r1] eqn:E.
      cbn in H; injection H as <- <- <-. constructor.
      * split; [reflexivity | left; reflexivity].
      * apply IH in E. exact E.
Qed.

(* the first ejection of a pass saw the counter value the pass started with *)
Lemma pass_first crit enf n mx t : forall l k gd k' gd' l',
  pass crit enf n mx t k gd l = (k', gd', l') -> k' <> k -> share_ge k n mx = false.
Proof.
  induction l as [|[id e] r IH]; cbn [pass]; intros k gd k' gd' l' H Hne.
  - injection H as <- <- <-. congruence.
  - destruct (crit e && negb (share_ge k n mx) && (100 <=? enf)) eqn:C.
    + apply andb_true_iff in C. destruct C as [C _]. apply andb_true_iff in C. destruct C as [_ C2].
      apply negb_true_iff in C2. exact C2.
    + destruct (pass crit enf n mx t k gd r) as [[k1 g1] r1] eqn:E.
      cbn in H; injection H as <- <- <-. eapply IH; eauto.
Qed.

Lemma sr_crit_spec c L e : sr_crit c L e = true ->
  sr_vol c <= rv e /\ sr_fail (sr_stdev c) L e = true.
Proof. unfold sr_crit. intros H. apply andb_true_iff in H. destruct H as [H1 H2]. apply Z.leb_le in H1. auto. Qed.
Lemma fp_crit_spec c e : fp_crit c e = true ->
  fp_vol c <= rv e /\ fp_fail (fp_thr c) e = true.
Proof. unfold fp_crit. intros H. apply andb_true_iff in H. destruct H as [H1 H2]. apply Z.leb_le in H1. auto. Qed.

(* the success-rate test in words: no considered endpoint is without requests, the endpoint
   is below the mean, and its squared distance exceeds factor^2 * variance *)
Lemma sr_fail_spec F L e : sr_fail F L e = true ->
  let D := prod_rv L in let n := len L in let tot := sum_scaled D L in
  0 < dev D n tot e /\ F * F * sum_sq D n tot L < dev D n tot e * dev D n tot e * n * 1000000.
Proof.
  unfold sr_fail. destruct (existsb _ L); [discriminate|]. intros H.
  apply andb_true_iff in H. destruct H as [H1 H2]. apply Z.ltb_lt in H1, H2. auto.
Qed.

(* ---------- un-ejection time: the last loop of the interval algorithm ---------- *)

Definition sweep_rel (c : conf) (t : Z) (p p' : Z * ep) : Prop :=
  fst p' = fst p /\
  match ej (snd p) with
  | Some t0 => if t0 + eject_span c (mult (snd p)) <? t then snd p' = uneject_ep (snd p)
               else snd p' = snd p
  | None => ej (snd p') = None /\ health (snd p') = health (snd p) /\
            mult (snd p') = (if 0 <? mult (snd p) then mult (snd p) - 1 else mult (snd p))
  end.

Lemma sweep_spec c t : forall l u l', sweep c t l = (u, l') -> Forall2 (sweep_rel c t) l l'.
Proof.
  induction l as [|[id e] r IH]; cbn; intros u l' H.
  - injection H as <- <-. constructor.
  - destruct (sweep c t r) as [u1 r1] eqn:E. specialize (IH _ _ eq_refl).
    unfold sweep_rel. destruct (ej e) as [t0|] eqn:Ee.
    + destruct (t0 + eject_span c (mult e) <? t) eqn:Et; injection H as <- <-; constructor; auto;
        cbn; rewrite Ee, Et; auto.
    + destruct (0 <? mult e) eqn:Em; injection H as <- <-; constructor; auto; cbn; rewrite Ee, ?Em; auto.
Qed.

(* ---------- invariants ---------- *)

Definition tfok (p : Z * ep) : Prop := is_ej (snd p) = true -> health (snd p) = 3.

Lemma count_cons p l : count_ej (p :: l) = (if is_ej (snd p) then count_ej l + 1 else count_ej l).
Proof. reflexivity. Qed.

Lemma pass_acct crit enf n mx t : forall l k gd k' gd' l',
  pass crit enf n mx t k gd l = (k', gd', l') ->
  k' - k = count_ej l' - count_ej l + (gd' - gd).
Proof.
  induction l as [|[id e] r IH]; cbn [pass]; intros k gd k' gd' l' H.
  - injection H as <- <- <-. cbn. lia.
  - destruct (crit e && negb (share_ge k n mx) && (100 <=? enf)).
    + destruct (pass crit enf n mx t (k + 1) (if is_ej e then gd + 1 else gd) r) as [[k1 g1] r1] eqn:E.
      cbn in H; injection H as <- <- <-. apply IH in E. rewrite !count_cons. cbn [snd].
      change (is_ej (eject_ep t e)) with true. destruct (is_ej e); lia.
    + destruct (pass crit enf n mx t k gd r) as [[k1 g1] r1] eqn:E.
      cbn in H; injection H as <- <- <-. apply IH in E. rewrite !count_cons. cbn [snd]. destruct (is_ej e); lia.
Qed.

Lemma pass_tf crit enf n mx t : forall l k gd k' gd' l',
  pass crit enf n mx t k gd l = (k', gd', l') -> Forall tfok l -> Forall tfok l'.
Proof.
  induction l as [|[id e] r IH]; cbn [pass]; intros k gd k' gd' l' H HF.
  - injection H as <- <- <-. constructor.
  - inversion HF; subst. destruct (crit e && negb (share_ge k n mx) && (100 <=? enf)).
    + destruct (pass crit enf n mx t (k + 1) (if is_ej e then gd + 1 else gd) r) as [[k1 g1] r1] eqn:E.
      cbn in H; injection H as <- <- <-. constructor; [intro; reflexivity | eapply IH; eauto].
    + destruct (pass crit enf n mx t k gd r) as [[k1 g1] r1] eqn:E.
      cbn in H; injection H as <- <- <-. constructor; [assumption | eapply IH; eauto].
Qed.

Lemma sweep_acct c t : forall l u l', sweep c t l = (u, l') -> count_ej l' = count_ej l - u.
Proof.
  induction l as [|[id e] r IH]; cbn [sweep]; intros u l' H.
  - injection H as <- <-. reflexivity.
  - destruct (sweep c t r) as [u1 r1] eqn:E. specialize (IH _ _ eq_refl).
    destruct (ej e) as [t0|] eqn:Ee.
    + destruct (t0 + eject_span c (mult e) <? t); injection H as <- <-; rewrite !count_cons; cbn [snd];
        unfold is_ej; cbn; rewrite ?Ee; lia.
    + destruct (0 <? mult e); injection H as <- <-; rewrite !count_cons; cbn [snd];
        unfold is_ej; cbn; rewrite ?Ee; lia.
Qed.

Lemma sweep_tf c t : forall l u l', sweep c t l = (u, l') -> Forall tfok l -> Forall tfok l'.
Proof.
  induction l as [|[id e] r IH]; cbn [sweep]; intros u l' H HF.
  - injection H as <- <-. constructor.
  - inversion HF; subst. destruct (sweep c t r) as [u1 r1] eqn:E. specialize (IH _ _ eq_refl H3).
    destruct (ej e) as [t0|] eqn:Ee.
    + destruct (t0 + eject_span c (mult e) <? t); injection H as <- <-; constructor; auto.
      unfold tfok, is_ej; cbn. discriminate.
    + destruct (0 <? mult e); injection H as <- <-; constructor; auto.
      unfold tfok, is_ej; cbn. discriminate.
Qed.

Lemma noop_all_spec : forall l u l', noop_all l = (u, l') ->
  u = count_ej l /\ count_ej l' = 0 /\
  Forall (fun p => ej (snd p) = None /\ mult (snd p) = 0) l'.
Proof.
  induction l as [|[id e] r IH]; cbn [noop_all]; intros u l' H.
  - injection H as <- <-. repeat split. constructor.
  - destruct (noop_all r) as [u1 r1] eqn:E. destruct (IH _ _ eq_refl) as [A [B C]].
    injection H as <- <-. rewrite !count_cons. cbn [snd].
    unfold is_ej. destruct (ej e) as [t0|] eqn:E2; cbn; rewrite ?E2.
    + split; [lia|]. split; [exact B|]. constructor; [cbn; auto | exact C].
    + split; [lia|]. split; [exact B|]. constructor; [cbn; auto | exact C].
Qed.

Lemma map_keep (f : ep -> ep) l :
  (forall e, ej (f e) = ej e /\ health (f e) = health e) ->
  count_ej (map (fun p => (fst p, f (snd p))) l) = count_ej l /\
  (Forall tfok l -> Forall tfok (map (fun p => (fst p, f (snd p))) l)).
Proof.
  intros Hf. induction l as [|[id e] r [IH1 IH2]]; cbn [map].
  - split; [reflexivity | intros; constructor].
  - rewrite !count_cons. cbn [fst snd]. destruct (Hf e) as [A B]. unfold is_ej. rewrite A, IH1.
    split; [reflexivity|]. intros HF. inversion HF; subst. constructor; [|auto].
    unfold tfok, is_ej in *. cbn [snd] in *. rewrite A, B. assumption.
Qed.

Lemma find_In id : forall l e, find id l = Some e -> In (id, e) l.
Proof.
  induction l as [|[i x] r IH]; cbn; intros e H; [discriminate|].
  destruct (Z.eqb_spec i id); [injection H as <-; subst; left; reflexivity | right; auto].
Qed.

Record Inv (st : state) : Prop := mkInv {
  inv_acct : numej st = count_ej (eps st) + gD st;
  inv_tf : Forall tfok (eps st)
}.

Lemma Inv_init : Inv init.
Proof. constructor; cbn; [reflexivity | constructor]. Qed.

Lemma fire_inv c st : Inv st -> Inv (fire c st).
Proof.
  intros [Ha Ht]. unfold fire.
  set (l0 := map (fun p => (fst p, swap_ep (snd p))) (eps st)).
  destruct (map_keep swap_ep (eps st)) as [C0 T0]; [intros; split; reflexivity|]. fold l0 in C0, T0.
  specialize (T0 Ht).
  set (r1 := if sr_on c then
      let L := considered (sr_vol c) l0 in
      if len L <? sr_min c then (numej st, gD st, l0)
      else pass (sr_crit c L) (sr_enf c) (len l0) (maxpct c) (now st) (numej st) (gD st) l0
    else (numej st, gD st, l0)).
  assert (H1 : let '(k1, g1, l1) := r1 in
               k1 - numej st = count_ej l1 - count_ej l0 + (g1 - gD st) /\ Forall tfok l1).
  { unfold r1. destruct (sr_on c); [|split; [lia | exact T0]].
    cbv zeta. destruct (len (considered (sr_vol c) l0) <? sr_min c); [split; [lia | exact T0]|].
    destruct (pass _ _ _ _ _ _ _ l0) as [[k1 g1] l1] eqn:E.
    split; [eapply pass_acct; eauto | eapply pass_tf; eauto]. }
  destruct r1 as [[k1 g1] l1]. destruct H1 as [A1 T1].
  set (r2 := if fp_on c then
      let L := considered (fp_vol c) l1 in
      if len L <? fp_min c then (k1, g1, l1)
      else pass (fp_crit c) (fp_enf c) (len l0) (maxpct c) (now st) k1 g1 l1
    else (k1, g1, l1)).
  assert (H2 : let '(k2, g2, l2) := r2 in
               k2 - k1 = count_ej l2 - count_ej l1 + (g2 - g1) /\ Forall tfok l2).
  { unfold r2. destruct (fp_on c); [|split; [lia | exact T1]].
    cbv zeta. destruct (len (considered (fp_vol c) l1) <? fp_min c); [split; [lia | exact T1]|].
    destruct (pass _ _ _ _ _ _ _ l1) as [[k2 g2] l2] eqn:E.
    split; [eapply pass_acct; eauto | eapply pass_tf; eauto]. }
  destruct r2 as [[k2 g2] l2]. destruct H2 as [A2 T2].
  destruct (sweep c (now st) l2) as [u l3] eqn:E3.
  pose proof (sweep_acct _ _ _ _ _ E3) as A3. pose proof (sweep_tf _ _ _ _ _ E3 T2) as T3.
  constructor; cbn [numej eps gD]; [lia | exact T3].
Qed.

Lemma config_inv c ids st : Inv st -> Inv (config c ids st).
Proof.
  intros [Ha Ht]. unfold config.
  set (l1 := map (fun id => (id, match find id (eps st) with Some e => e | None => fresh end)) ids).
  assert (T1 : Forall tfok l1).
  { unfold l1. apply Forall_forall. intros p Hp. apply in_map_iff in Hp. destruct Hp as [id [<- _]].
    destruct (find id (eps st)) as [e|] eqn:E.
    - apply find_In in E. rewrite Forall_forall in Ht. exact (Ht _ E).
    - unfold tfok; cbn. discriminate. }
  destruct (noop c).
  - destruct (noop_all l1) as [u l2] eqn:E. destruct (noop_all_spec _ _ _ E) as [A [B C]].
    constructor; cbn [numej eps gD]; [lia|]. eapply Forall_impl; [|exact C].
    intros p [Hp _]. unfold tfok, is_ej. rewrite Hp. discriminate.
  - destruct (tstart st) as [t0|].
    + set (st1 := mkst (now st) (Some c) l1 (numej st - (count_ej (eps st) - count_ej l1)) (Some t0)
                   (Some (now st + Z.max 0 (interval c - (now st - t0)))) (gD st)).
      assert (I1 : Inv st1) by (constructor; unfold st1; cbn [numej eps gD]; [lia | exact T1]).
      destruct (Z.max 0 (interval c - (now st - t0)) =? 0); [apply fire_inv; exact I1 | exact I1].
    + destruct (map_keep clear_ep l1) as [C0 T0]; [intros; split; reflexivity|].
      constructor; cbn [numej eps gD]; [lia | auto].
Qed.

Lemma calls_inv id ok n st : Inv st -> Inv (calls id ok n st).
Proof.
  intros [Ha Ht]. unfold calls.
  assert (G : count_ej (map (fun p => if fst p =? id then (fst p, add_calls ok n (snd p)) else p) (eps st))
              = count_ej (eps st) /\
              Forall tfok (map (fun p => if fst p =? id then (fst p, add_calls ok n (snd p)) else p) (eps st))).
  { clear Ha. induction (eps st) as [|[i e] r IH]; cbn [map]; [split; [reflexivity | constructor]|].
    inversion Ht; subst. destruct (IH H2) as [I1 I2]. cbn [fst snd].
    destruct (i =? id).
    - rewrite !count_cons. cbn [snd].
      assert (X : ej (add_calls ok n e) = ej e /\ health (add_calls ok n e) = health e)
        by (unfold add_calls; destruct (ok =? 1); split; reflexivity).
      destruct X as [X1 X2]. unfold is_ej. rewrite X1, I1. split; [reflexivity|].
      constructor; [|exact I2]. unfold tfok, is_ej in *. cbn [snd] in *. rewrite X1, X2. exact H1.
    - rewrite !count_cons, I1. split; [reflexivity | constructor; assumption]. }
  destruct G as [G1 G2]. constructor; cbn [numej eps gD]; [lia | exact G2].
Qed.

Lemma set_now_inv t st : Inv st -> Inv (set_now t st).
Proof. intros [Ha Ht]. constructor; cbn; assumption. Qed.

Lemma step_inv K st op : Inv st -> Inv (step K st op).
Proof.
  intros HI. unfold step.
  destruct op as [|k r]; [exact HI|].
  destruct (Z.eq_dec k 1) as [-> | N1].
  { destruct (decode_config K r) as [[c ids]|]; [apply config_inv; exact HI | exact HI]. }
  destruct (Z.eq_dec k 2) as [-> | N2].
  { destruct r as [|id [|ok [|n [|x r]]]]; try exact HI.
    destruct (_ && _); [apply calls_inv; exact HI | exact HI]. }
  destruct (Z.eq_dec k 3) as [-> | N3].
  { destruct r as [|x r]; [|exact HI].
    destruct (cfg st) as [c|]; [|exact HI]. destruct (deadline st) as [d|]; [|exact HI].
    apply fire_inv. apply set_now_inv. exact HI. }
  destruct (Z.eq_dec k 4) as [-> | N4].
  { destruct r as [|d [|x r]]; try exact HI.
    destruct (_ && _); [|exact HI]. destruct (deadline st); apply set_now_inv; exact HI. }
  destruct k as [|k|k]; try exact HI.
  do 3 (destruct k as [k|k|]; try exact HI; try congruence).
Qed.

Lemma final_inv K : forall ops st, Inv st -> Inv (final K st ops).
Proof. induction ops as [|op r IH]; intros st HI; cbn; [exact HI | apply IH, step_inv, HI]. Qed.

Lemma reach_inv K ops : Inv (final K init ops).
Proof. apply final_inv, Inv_init. Qed.

(* ---------- a no-op config un-ejects everything ---------- *)

Lemma noop_config_spec c ids st : noop c = true ->
  let st' := config c ids st in
  Forall (fun p => ej (snd p) = None /\ mult (snd p) = 0) (eps st') /\
  tstart st' = None /\ deadline st' = None /\ map fst (eps st') = ids.
Proof.
  intros Hn. unfold config. rewrite Hn.
  set (l1 := map (fun id => (id, match find id (eps st) with Some e => e | None => fresh end)) ids).
  destruct (noop_all l1) as [u l2] eqn:E. destruct (noop_all_spec _ _ _ E) as [A [B C]].
  cbn. repeat split; auto.
  assert (G : forall l u l', noop_all l = (u, l') -> map fst l' = map fst l).
  { induction l as [|[i e] r IH]; cbn [noop_all]; intros u0 l0 H0.
    - injection H0 as <- <-. reflexivity.
    - destruct (noop_all r) as [u1 r1] eqn:E1. injection H0 as <- <-. cbn. f_equal. eapply IH; eauto. }
  rewrite (G _ _ _ E). unfold l1. rewrite map_map. cbn. apply map_id.
Qed.

(* ---------- refutations (findings) ---------- *)

Definition cfg_fp (mx : Z) (ids : list Z) : word :=
  [1; 10; 30; 300; mx; 0; 0; 0; 0; 0; 1; 50; 100; 1; 1] ++ ids.

(* endpoint 0 is ejected, removed by a resolver update and added again: the counter
   follows (this was finding F-C40-removed-while-ejected before the repair 18235fc) *)
Lemma counter_removed_ok :
  let ops := [cfg_fp 100 [0;1;2]; [2;0;0;5]; [2;1;1;5]; [2;2;1;5]; [3]] in
  let st1 := final 3 init ops in
  let st := final 3 init (ops ++ [cfg_fp 100 [1;2]; cfg_fp 100 [0;1;2]]) in
  numej st1 = 1 /\ count_ej (eps st1) = 1 /\
  numej st = 0 /\ count_ej (eps st) = 0 /\ gD st = 0.
Proof. vm_compute. repeat split. Qed.

(* success rate and failure percentage both eject endpoint 0 in the same interval: the
   counter is 2 for one ejected endpoint and its multiplier is 2 *)
Lemma counter_double_refuted :
  let ops := [[1; 10; 30; 300; 100; 1; 1900; 100; 5; 10; 1; 50; 100; 5; 10; 0; 1; 2; 3; 4];
              [2;0;0;20]; [2;1;1;20]; [2;2;1;20]; [2;3;1;20]; [2;4;1;20]; [3]] in
  let st := final 5 init ops in
  numej st = 2 /\ count_ej (eps st) = 1 /\ gD st = 1 /\
  (exists e, find 0 (eps st) = Some e /\ mult e = 2).
Proof. vm_compute. repeat split. eexists. split; reflexivity. Qed.

(* 29 of 50 endpoints ejected with max_ejection_percent = 58: the share is exactly 58 % but
   29.0/50.0*100 = 57.99999999999999 in doubles, so the code's test does not stop ejections *)
Lemma share_float_refuted :
  share_ge 29 50 58 = false /\ exact_share_ge 29 50 58 = true.
Proof. vm_compute. split; reflexivity. Qed.

(* 7 failures of 100 requests with threshold 7: 0.07*100 = 7.000000000000001 in doubles, so
   the code ejects although the failure percentage does not exceed the threshold *)
Lemma fp_float_refuted :
  let e := mkep 0 0 93 7 None 0 (-1) in
  fp_fail 7 e = true /\ exact_fp_fail 7 e = false.
Proof. vm_compute. split; reflexivity. Qed.

(* ---------- the covered clauses hold on every model trace ---------- *)

Lemma names_In K n : In n (names K) <-> 0 <= n < K.
Proof.
  unfold names. rewrite in_map_iff. split.
  - intros [i [<- Hi]]. apply in_seq in Hi. lia.
  - intros H. exists (Z.to_nat n). split; [lia | apply in_seq; lia].
Qed.
Lemma names_nth K n : 0 <= n < K -> nth (Z.to_nat n) (names K) 0 = n.
Proof.
  intros H. unfold names.
  rewrite nth_indep with (d' := Z.of_nat 0%nat) by (rewrite map_length, seq_length; lia).
  rewrite map_nth. rewrite seq_nth by lia. lia.
Qed.
Lemma names_length K : 0 <= K -> length (names K) = Z.to_nat K.
Proof. intros H. unfold names. rewrite map_length, seq_length. reflexivity. Qed.

Lemma nth_flat6 (f : Z -> list Z) : (forall x, length (f x) = 6%nat) ->
  forall l i j d, (i < length l)%nat -> (j < 6)%nat ->
  nth (6 * i + j) (flat_map f l) d = nth j (f (nth i l 0)) d.
Proof.
  intros Hf. induction l as [|x r IH]; intros i j d Hi Hj; cbn [length] in Hi; [lia|].
  cbn [flat_map]. destruct i as [|i].
  - cbn [nth]. rewrite app_nth1 by (rewrite Hf; lia). reflexivity.
  - rewrite app_nth2 by (rewrite Hf; lia). rewrite Hf.
    replace (6 * S i + j - 6)%nat with (6 * i + j)%nat by lia. cbn [nth]. apply IH; lia.
Qed.

Lemma flat6_length (f : Z -> list Z) : (forall x, length (f x) = 6%nat) ->
  forall l, length (flat_map f l) = (6 * length l)%nat.
Proof.
  intros Hf. induction l as [|x r IH]; cbn [flat_map length]; [reflexivity|].
  rewrite app_length, Hf, IH. lia.
Qed.

Lemma ep_obs_length st id : length (ep_obs st id) = 6%nat.
Proof. unfold ep_obs. destruct (find id (eps st)); reflexivity. Qed.

Lemma o_field_obs K st id j : 0 <= id < K -> 0 <= j < 6 ->
  o_field (obs_of K st) id j = nth (Z.to_nat j) (ep_obs st id) 0.
Proof.
  intros Hid Hj. unfold o_field, obs_of.
  replace (Z.to_nat (3 + 6 * id + j)) with (3 + (6 * Z.to_nat id + Z.to_nat j))%nat by lia.
  cbn [Nat.add nth].
  rewrite (nth_flat6 (ep_obs st) (ep_obs_length st)); [|rewrite names_length; lia | lia].
  rewrite names_nth by lia. reflexivity.
Qed.

Lemma obs_length K st : 0 <= K -> Z.of_nat (length (obs_of K st)) = 3 + 6 * K.
Proof.
  intros HK. unfold obs_of. cbn [length].
  rewrite (flat6_length (ep_obs st) (ep_obs_length st)), names_length by lia. lia.
Qed.

Lemma covered_clauses_true K st op i : 0 <= K -> Inv st ->
  let st' := step K st op in
  forallb (fun c => negb (covered (fst (fst c))) || snd c)
          (clause_op K st st' (obs_of K st) op (obs_of K st') i) = true.
Proof.
  intros HK HI st'. pose proof (step_inv K st op HI) as HI'. fold st' in HI'.
  unfold clause_op. rewrite obs_length by exact HK.
  replace (3 + 6 * K <? 3 + 6 * K) with false by (symmetry; apply Z.ltb_irrefl).
  cbn [forallb fst snd covered]. cbn [Z.eqb orb negb].
  destruct HI' as [Ha Ht].
  assert (Hfind : forall id e, find id (eps st') = Some e -> tfok (id, e)).
  { intros id e H. apply find_In in H. rewrite Forall_forall in Ht. exact (Ht _ H). }
  repeat (apply andb_true_iff; split); try reflexivity.
  - (* 4 *)
    destruct op as [|k w]; [reflexivity|].
    destruct (Z.eq_dec k 1) as [-> | N1].
    2:{ destruct k as [|k|k]; try reflexivity. destruct k; reflexivity || congruence. }
    destruct (decode_config K w) as [[c ids]|] eqn:Ed; [|reflexivity].
    destruct (noop c) eqn:En; [|reflexivity].
    assert (E : st' = config c ids st) by (unfold st', step; rewrite Ed; reflexivity).
    destruct (noop_config_spec c ids st En) as [Hall _]. rewrite <- E in Hall.
    apply forallb_forall. intros id Hid. apply names_In in Hid.
    unfold o_present, o_ejat, o_mult. rewrite !o_field_obs by lia.
    unfold ep_obs. destruct (find id (eps st')) as [e|] eqn:Ef; [|reflexivity].
    apply find_In in Ef. rewrite Forall_forall in Hall. destruct (Hall _ Ef) as [H1 H2].
    cbn in H1, H2. cbn. rewrite H1, H2. reflexivity.
  - (* 5 *)
    apply forallb_forall. intros id Hid. apply names_In in Hid.
    unfold o_present, o_ejat, o_health. rewrite !o_field_obs by lia.
    unfold ep_obs. destruct (find id (eps st')) as [e|] eqn:Ef; [|reflexivity].
    specialize (Hfind _ _ Ef). unfold tfok, is_ej in Hfind. cbn in Hfind. cbn.
    destruct (ej e) as [t0|]; [|reflexivity]. rewrite Hfind by reflexivity.
    rewrite orb_true_r. reflexivity.
  - (* 7 *)
    unfold obs_of. cbn [nth]. destruct (gD st' =? 0) eqn:Eg; [|reflexivity].
    apply Z.eqb_eq in Eg. cbn. apply Z.eqb_eq. lia.
  - (* 6 *)
    unfold obs_of. cbn [nth]. apply Z.eqb_eq. exact Ha.
Qed.

Lemma covered_from_true K : 0 <= K -> forall ops st i, Inv st ->
  forallb (fun c => negb (covered (fst (fst c))) || snd c)
          (clauses_from K st (obs_of K st) i ops (run_from K st ops)) = true.
Proof.
  intros HK. induction ops as [|op r IH]; intros st i HI; cbn; [reflexivity|].
  rewrite forallb_app. rewrite covered_clauses_true by assumption. cbn.
  apply IH. apply step_inv. exact HI.
Qed.

Definition cfg_wf (c : word) : bool := match cfg_K c with Some _ => true | None => false end.

Lemma model_trace_holds_partial c ops : cfg_wf c = true ->
  exists obs, run c ops = Some obs /\ holds_cov_b c ops obs = true.
Proof.
  unfold cfg_wf, run, holds_cov_b, clauses. destruct (cfg_K c) as [K|] eqn:E; [|discriminate].
  intros _. exists (run_from K init ops). split; [reflexivity|].
  assert (G : forall (f g : Z * Z * bool -> bool) l, forallb f l = true -> forallb f (filter g l) = true).
  { intros f g l. induction l as [|a l IH]; cbn; [auto|]. intros H. apply andb_true_iff in H.
    destruct H as [H1 H2]. destruct (g a); cbn; [rewrite H1; cbn|]; auto. }
  rewrite forallb_app. rewrite !G; [reflexivity | |];
  apply covered_from_true.
  all: try apply Inv_init.
  all: unfold cfg_K in E; destruct c as [|k [|]]; try discriminate;
    destruct ((1 <=? k) && (k <=? 64)) eqn:E2; [|discriminate]; injection E as <-;
    apply andb_true_iff in E2; destruct E2 as [E2 _]; apply Z.leb_le in E2; lia.
Qed.

(* statements over all op lists used by props/C40.v *)
Lemma counter_accounting K ops : let st := final K init ops in
  numej st = count_ej (eps st) + gD st.
Proof. intros st. destruct (reach_inv K ops) as [H _]. exact H. Qed.

Lemma counter_exact_without_double K ops : let st := final K init ops in
  gD st = 0 -> numej st = count_ej (eps st).
Proof. intros st H. pose proof (counter_accounting K ops) as A. cbv zeta in A. unfold st in *. lia. Qed.

Lemma tf_while_ejected K ops id e : let st := final K init ops in
  find id (eps st) = Some e -> ej e <> None -> health e = 3.
Proof.
  intros st Hf Hej. destruct (reach_inv K ops) as [_ H]. fold st in H.
  apply find_In in Hf. rewrite Forall_forall in H. specialize (H _ Hf). apply H.
  unfold is_ej. cbn. destruct (ej e); [reflexivity | congruence].
Qed.

(* trace-level witness of the float rounding in the max_ejection_percent test: 29 of 50
   endpoints are ejected (exactly 58 %); with max_ejection_percent = 58 a 30th is ejected *)
Definition ids50 : list Z := map Z.of_nat (seq 0 50).
Definition cfg50 (mx : Z) : word := [1; 10; 1000; 1000; mx; 0; 0; 0; 0; 0; 1; 50; 100; 1; 1] ++ ids50.
Definition ops50 : list word :=
  [cfg50 100] ++ map (fun i => [2; Z.of_nat i; 0; 1]) (seq 0 29) ++ [[3]; cfg50 58; [2; 40; 0; 1]].
Lemma share_float_trace_refuted :
  let st := final 50 init ops50 in
  count_ej (eps st) = 29 /\ len (eps st) = 50 /\ exact_share_ge 29 50 58 = true /\
  count_ej (eps (step 50 st [3])) = 30.
Proof. vm_compute. repeat split. Qed.
