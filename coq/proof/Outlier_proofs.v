From Coq Require Import List ZArith Bool Arith Lia Floats.
From VLib Require Import Codec Machine.
From VModel Require Import Outlier.
Import ListNotations.
Open Scope Z_scope.

(* ---------- eject only if: one pass of an ejection algorithm ---------- *)

(* what a pass may do to one endpoint: nothing, or eject it at time t, and then only if the
   outlier test [crit] held, the enforcement percentage is 100 and the max_ejection_percent
   test (as the code evaluates it) was negative for a counter value kk seen during the pass *)
Definition pass_rel (crit : ep -> bool) (enf n mx t k k' : Z) (p p' : Z * ep) : Prop :=
  fst p' = fst p /\
  (snd p' = snd p \/
   (snd p' = eject_ep t (snd p) /\ crit (snd p) = true /\ 100 <= enf /\
    exists kk, k <= kk < k' /\ share_ge kk n mx = false)).

Lemma F2_impl {A B} (P Q : A -> B -> Prop) l l' :
  (forall a b, P a b -> Q a b) -> Forall2 P l l' -> Forall2 Q l l'.
Proof. intros H F. induction F; constructor; auto. Qed.

Lemma pass_mono crit enf n mx t : forall l k gd k' gd' l',
  pass crit enf n mx t k gd l = (k', gd', l') -> k <= k'.
Proof.
  induction l as [|[id e] r IH]; cbn [pass]; intros k gd k' gd' l' H.
  - injection H as <- <- <-. lia.
  - destruct (crit e && negb (share_ge k n mx) && (100 <=? enf)).
    + destruct (pass crit enf n mx t (k + 1) (if is_ej e then gd + 1 else gd) r) as [[k1 g1] r1] eqn:E.
      cbn in H; injection H as <- <- <-. apply IH in E. lia.
    + destruct (pass crit enf n mx t k gd r) as [[k1 g1] r1] eqn:E.
      cbn in H; injection H as <- <- <-. apply IH in E. lia.
Qed.

Lemma pass_spec crit enf n mx t : forall l k gd k' gd' l',
  pass crit enf n mx t k gd l = (k', gd', l') ->
  Forall2 (pass_rel crit enf n mx t k k') l l'.
Proof.
  induction l as [|[id e] r IH]; cbn [pass]; intros k gd k' gd' l' H.
  - injection H as <- <- <-. constructor.
  - destruct (crit e && negb (share_ge k n mx) && (100 <=? enf)) eqn:C.
    + destruct (pass crit enf n mx t (k + 1) (if is_ej e then gd + 1 else gd) r) as [[k1 g1] r1] eqn:E.
      cbn in H; injection H as <- <- <-. pose proof (pass_mono _ _ _ _ _ _ _ _ _ _ _ E) as Hm.
      apply andb_true_iff in C. destruct C as [C C3]. apply andb_true_iff in C. destruct C as [C1 C2].
      apply negb_true_iff in C2. apply Z.leb_le in C3.
      constructor.
      * split; [reflexivity|]. right. cbn. repeat split; auto. exists k. split; [lia | exact C2].
      * apply IH in E. eapply F2_impl; [|exact E].
        intros a b [Hf [Hs | [Hs [Hc [He [kk [Hk Hsh]]]]]]]; split; auto.
        right. repeat split; auto. exists kk. split; [lia | exact Hsh].
    + destruct (pass crit enf n mx t k gd r) as [[k1 g1] r1] eqn:E.
      cbn in H; injection H as <- <- <-. constructor.
      * split; [reflexivity | left; reflexivity].
      * apply IH in E. exact E.
Qed.

(* the first ejection of a pass saw the counter value the pass started with *)
Lemma pass_first crit enf n mx t : forall l k gd k' gd' l',
  pass crit enf n mx t k gd l = (k', gd', l') -> k' <> k -> share_ge k n mx = false.
Proof.
  induction l as [|[id e] r IH]; cbn [pass]; intros k gd k' gd' l' H Hne.
  - injection H as <- <- <-. congruence.
  - destruct (crit e && negb (share_ge k n mx) && (100 <=? enf)) eqn:C.
    + apply andb_true_iff in C. destruct C as [C _]. apply andb_true_iff in C. destruct C as [_ C2].
      apply negb_true_iff in C2. exact C2.
    + destruct (pass crit enf n mx t k gd r) as [[k1 g1] r1] eqn:E.
      cbn in H; injection H as <- <- <-. eapply IH; eauto.
Qed.

Lemma sr_crit_spec c L e : sr_crit c L e = true ->
  sr_vol c <= rv e /\ sr_fail (sr_stdev c) L e = true.
Proof. unfold sr_crit. intros H. apply andb_true_iff in H. destruct H as [H1 H2]. apply Z.leb_le in H1. auto. Qed.
Lemma fp_crit_spec c e : fp_crit c e = true ->
  fp_vol c <= rv e /\ fp_fail (fp_thr c) e = true.
Proof. unfold fp_crit. intros H. apply andb_true_iff in H. destruct H as [H1 H2]. apply Z.leb_le in H1. auto. Qed.

(* the success-rate test in words: no considered endpoint is without requests, the endpoint
   is below the mean, and its squared distance exceeds factor^2 * variance *)
Lemma sr_fail_spec F L e : sr_fail F L e = true ->
  let D := prod_rv L in let n := len L in let tot := sum_scaled D L in
  0 < dev D n tot e /\ F * F * sum_sq D n tot L < dev D n tot e * dev D n tot e * n * 1000000.
Proof.
  unfold sr_fail. destruct (existsb _ L); [discriminate|]. intros H.
  apply andb_true_iff in H. destruct H as [H1 H2]. apply Z.ltb_lt in H1, H2. auto.
Qed.

(* ---------- un-ejection time: the last loop of the interval algorithm ---------- *)

Definition sweep_rel (c : conf) (t : Z) (p p' : Z * ep) : Prop :=
  fst p' = fst p /\
  match ej (snd p) with
  | Some t0 => if t0 + eject_span c (mult (snd p)) <? t then snd p' = uneject_ep (snd p)
               else snd p' = snd p
  | None => ej (snd p') = None /\ health (snd p') = health (snd p) /\
            mult (snd p') = (if 0 <? mult (snd p) then mult (snd p) - 1 else mult (snd p))
  end.

Lemma sweep_spec c t : forall l u l', sweep c t l = (u, l') -> Forall2 (sweep_rel c t) l l'.
Proof.
  induction l as [|[id e] r IH]; cbn; intros u l' H.
  - injection H as <- <-. constructor.
  - destruct (sweep c t r) as [u1 r1] eqn:E. specialize (IH _ _ eq_refl).
    unfold sweep_rel. destruct (ej e) as [t0|] eqn:Ee.
    + destruct (t0 + eject_span c (mult e) <? t) eqn:Et; injection H as <- <-; constructor; auto;
        cbn; rewrite Ee, Et; auto.
    + destruct (0 <? mult e) eqn:Em; injection H as <- <-; constructor; auto; cbn; rewrite Ee, ?Em; auto.
Qed.

(* ---------- invariants ---------- *)

Definition tfok (p : Z * ep) : Prop := is_ej (snd p) = true -> health (snd p) = 3.

Lemma count_cons p l : count_ej (p :: l) = (if is_ej (snd p) then count_ej l + 1 else count_ej l).
Proof. reflexivity. Qed.

Lemma pass_acct crit enf n mx t : forall l k gd k' gd' l',
  pass crit enf n mx t k gd l = (k', gd', l') ->
  k' - k = count_ej l' - count_ej l + (gd' - gd).
Proof.
  induction l as [|[id e] r IH]; cbn [pass]; intros k gd k' gd' l' H.
  - injection H as <- <- <-. cbn. lia.
  - destruct (crit e && negb (share_ge k n mx) && (100 <=? enf)).
    + destruct (pass crit enf n mx t (k + 1) (if is_ej e then gd + 1 else gd) r) as [[k1 g1] r1] eqn:E.
      cbn in H; injection H as <- <- <-. apply IH in E. rewrite !count_cons. cbn [snd].
      change (is_ej (eject_ep t e)) with true. destruct (is_ej e); lia.
    + destruct (pass crit enf n mx t k gd r) as [[k1 g1] r1] eqn:E.
      cbn in H; injection H as <- <- <-. apply IH in E. rewrite !count_cons. cbn [snd]. destruct (is_ej e); lia.
Qed.

Lemma pass_tf crit enf n mx t : forall l k gd k' gd' l',
  pass crit enf n mx t k gd l = (k', gd', l') -> Forall tfok l -> Forall tfok l'.
Proof.
  induction l as [|[id e] r IH]; cbn [pass]; intros k gd k' gd' l' H HF.
  - injection H as <- <- <-. constructor.
  - inversion HF; subst. destruct (crit e && negb (share_ge k n mx) && (100 <=? enf)).
    + destruct (pass crit enf n mx t (k + 1) (if is_ej e then gd + 1 else gd) r) as [[k1 g1] r1] eqn:E.
      cbn in H; injection H as <- <- <-. constructor; [intro; reflexivity | eapply IH; eauto].
    + destruct (pass crit enf n mx t k gd r) as [[k1 g1] r1] eqn:E.
      cbn in H; injection H as <- <- <-. constructor; [assumption | eapply IH; eauto].
Qed.

Lemma sweep_acct c t : forall l u l', sweep c t l = (u, l') -> count_ej l' = count_ej l - u.
Proof.
  induction l as [|[id e] r IH]; cbn [sweep]; intros u l' H.
  - injection H as <- <-. reflexivity.
  - destruct (sweep c t r) as [u1 r1] eqn:E. specialize (IH _ _ eq_refl).
    destruct (ej e) as [t0|] eqn:Ee.
    + destruct (t0 + eject_span c (mult e) <? t); injection H as <- <-; rewrite !count_cons; cbn [snd];
        unfold is_ej; cbn; rewrite ?Ee; lia.
    + destruct (0 <? mult e); injection H as <- <-; rewrite !count_cons; cbn [snd];
        unfold is_ej; cbn; rewrite ?Ee; lia.
Qed.

Lemma sweep_tf c t : forall l u l', sweep c t l = (u, l') -> Forall tfok l -> Forall tfok l'.
Proof.
  induction l as [|[id e] r IH]; cbn [sweep]; intros u l' H HF.
  - injection H as <- <-. constructor.
  - inversion HF; subst. destruct (sweep c t r) as [u1 r1] eqn:E. specialize (IH _ _ eq_refl H3).
    destruct (ej e) as [t0|] eqn:Ee.
    + destruct (t0 + eject_span c (mult e) <? t); injection H as <- <-; constructor; auto.
      unfold tfok, is_ej; cbn. discriminate.
    + destruct (0 <? mult e); injection H as <- <-; constructor; auto.
      unfold tfok, is_ej; cbn. discriminate.
Qed.

Lemma noop_all_spec : forall l u l', noop_all l = (u, l') ->
  u = count_ej l /\ count_ej l' = 0 /\
  Forall (fun p => ej (snd p) = None /\ mult (snd p) = 0) l'.
Proof.
  induction l as [|[id e] r IH]; cbn [noop_all]; intros u l' H.
  - injection H as <- <-. repeat split. constructor.
  - destruct (noop_all r) as [u1 r1] eqn:E. destruct (IH _ _ eq_refl) as [A [B C]].
    injection H as <- <-. rewrite !count_cons. cbn [snd].
    unfold is_ej. destruct (ej e) as [t0|] eqn:E2; cbn; rewrite ?E2.
    + split; [lia|]. split; [exact B|]. constructor; [cbn; auto | exact C].
    + split; [lia|]. split; [exact B|]. constructor; [cbn; auto | exact C].
Qed.

Lemma map_keep (f : ep -> ep) l :
  (forall e, ej (f e) = ej e /\ health (f e) = health e) ->
  count_ej (map (fun p => (fst p, f (snd p))) l) = count_ej l /\
  (Forall tfok l -> Forall tfok (map (fun p => (fst p, f (snd p))) l)).
Proof.
  intros Hf. induction l as [|[id e] r [IH1 IH2]]; cbn [map].
  - split; [reflexivity | intros; constructor].
  - rewrite !count_cons. cbn [fst snd]. destruct (Hf e) as [A B]. unfold is_ej. rewrite A, IH1.
    split; [reflexivity|]. intros HF. inversion HF; subst. constructor; [|auto].
    unfold tfok, is_ej in *. cbn [snd] in *. rewrite A, B. assumption.
Qed.

Lemma find_In id : forall l e, find id l = Some e -> In (id, e) l.
Proof.
  induction l as [|[i x] r IH]; cbn; intros e H; [discriminate|].
  destruct (Z.eqb_spec i id); [injection H as <-; subst; left; reflexivity | right; auto].
Qed.

Record Inv (st : state) : Prop := mkInv {
  inv_acct : numej st = count_ej (eps st) + gD st;
  inv_tf : Forall tfok (eps st)
}.

Lemma Inv_init : Inv init.
Proof. constructor; cbn; [reflexivity | constructor]. Qed.

Lemma fire_inv c st : Inv st -> Inv (fire c st).
Proof.
  intros [Ha Ht]. unfold fire.
  set (l0 := map (fun p => (fst p, swap_ep (snd p))) (eps st)).
  destruct (map_keep swap_ep (eps st)) as [C0 T0]; [intros; split; reflexivity|]. fold l0 in C0, T0.
  specialize (T0 Ht).
  set (r1 := if sr_on c then
      let L := considered (sr_vol c) l0 in
      if len L <? sr_min c then (numej st, gD st, l0)
      else pass (sr_crit c L) (sr_enf c) (len l0) (maxpct c) (now st) (numej st) (gD st) l0
    else (numej st, gD st, l0)).
  assert (H1 : let '(k1, g1, l1) := r1 in
               k1 - numej st = count_ej l1 - count_ej l0 + (g1 - gD st) /\ Forall tfok l1).
  { unfold r1. destruct (sr_on c); [|split; [lia | exact T0]].
    cbv zeta. destruct (len (considered (sr_vol c) l0) <? sr_min c); [split; [lia | exact T0]|].
    destruct (pass _ _ _ _ _ _ _ l0) as [[k1 g1] l1] eqn:E.
    split; [eapply pass_acct; eauto | eapply pass_tf; eauto]. }
  destruct r1 as [[k1 g1] l1]. destruct H1 as [A1 T1].
  set (r2 := if fp_on c then
      let L := considered (fp_vol c) l1 in
      if len L <? fp_min c then (k1, g1, l1)
      else pass (fp_crit c) (fp_enf c) (len l0) (maxpct c) (now st) k1 g1 l1
    else (k1, g1, l1)).
  assert (H2 : let '(k2, g2, l2) := r2 in
               k2 - k1 = count_ej l2 - count_ej l1 + (g2 - g1) /\ Forall tfok l2).
  { unfold r2. destruct (fp_on c); [|split; [lia | exact T1]].
    cbv zeta. destruct (len (considered (fp_vol c) l1) <? fp_min c); [split; [lia | exact T1]|].
    destruct (pass _ _ _ _ _ _ _ l1) as [[k2 g2] l2] eqn:E.
    split; [eapply pass_acct; eauto | eapply pass_tf; eauto]. }
  destruct r2 as [[k2 g2] l2]. destruct H2 as [A2 T2].
  destruct (sweep c (now st) l2) as [u l3] eqn:E3.
  pose proof (sweep_acct _ _ _ _ _ E3) as A3. pose proof (sweep_tf _ _ _ _ _ E3 T2) as T3.
  constructor; cbn [numej eps gD]; [lia | exact T3].
Qed.

Lemma config_inv c ids st : Inv st -> Inv (config c ids st).
Proof.
  intros [Ha Ht]. unfold config.
  set (l1 := map (fun id => (id, match find id (eps st) with Some e => e | None => fresh end)) ids).
  assert (T1 : Forall tfok l1).
  { unfold l1. apply Forall_forall. intros p Hp. apply in_map_iff in Hp. destruct Hp as [id [<- _]].
    destruct (find id (eps st)) as [e|] eqn:E.
    - apply find_In in E. rewrite Forall_forall in Ht. exact (Ht _ E).
    - unfold tfok; cbn. discriminate. }
  destruct (noop c).
  - destruct (noop_all l1) as [u l2] eqn:E. destruct (noop_all_spec _ _ _ E) as [A [B C]].
    constructor; cbn [numej eps gD]; [lia|]. eapply Forall_impl; [|exact C].
    intros p [Hp _]. unfold tfok, is_ej. rewrite Hp. discriminate.
  - destruct (tstart st) as [t0|].
    + set (st1 := mkst (now st) (Some c) l1 (numej st - (count_ej (eps st) - count_ej l1)) (Some t0)
                   (Some (now st + Z.max 0 (interval c - (now st - t0)))) (gD st)).
      assert (I1 : Inv st1) by (constructor; unfold st1; cbn [numej eps gD]; [lia | exact T1]).
      destruct (Z.max 0 (interval c - (now st - t0)) =? 0); [apply fire_inv; exact I1 | exact I1].
    + destruct (map_keep clear_ep l1) as [C0 T0]; [intros; split; reflexivity|].
      constructor; cbn [numej eps gD]; [lia | auto].
Qed.

Lemma calls_inv id ok n st : Inv st -> Inv (calls id ok n st).
Proof.
  intros [Ha Ht]. unfold calls.
  assert (G : count_ej (map (fun p => if fst p =? id then (fst p, add_calls ok n (snd p)) else p) (eps st))
              = count_ej (eps st) /\
              Forall tfok (map (fun p => if fst p =? id then (fst p, add_calls ok n (snd p)) else p) (eps st))).
  { clear Ha. induction (eps st) as [|[i e] r IH]; cbn [map]; [split; [reflexivity | constructor]|].
    inversion Ht; subst. destruct (IH H2) as [I1 I2]. cbn [fst snd].
    destruct (i =? id).
    - rewrite !count_cons. cbn [snd].
      assert (X : ej (add_calls ok n e) = ej e /\ health (add_calls ok n e) = health e)
        by (unfold add_calls; destruct (ok =? 1); split; reflexivity).
      destruct X as [X1 X2]. unfold is_ej. rewrite X1, I1. split; [reflexivity|].
      constructor; [|exact I2]. unfold tfok, is_ej in *. cbn [snd] in *. rewrite X1, X2. exact H1.
    - rewrite !count_cons, I1. split; [reflexivity | constructor; assumption]. }
  destruct G as [G1 G2]. constructor; cbn [numej eps gD]; [lia | exact G2].
Qed.

Lemma set_now_inv t st : Inv st -> Inv (set_now t st).
Proof. intros [Ha Ht]. constructor; cbn; assumption. Qed.

Lemma step_inv K st op : Inv st -> Inv (step K st op).
Proof.
  intros HI. unfold step.
  destruct op as [|k r]; [exact HI|].
  destruct (Z.eq_dec k 1) as [-> | N1].
  { destruct (decode_config K r) as [[c ids]|]; [apply config_inv; exact HI | exact HI]. }
  destruct (Z.eq_dec k 2) as [-> | N2].
  { destruct r as [|id [|ok [|n [|x r]]]]; try exact HI.
    destruct (_ && _); [apply calls_inv; exact HI | exact HI]. }
  destruct (Z.eq_dec k 3) as [-> | N3].
  { destruct r as [|x r]; [|exact HI].
    destruct (cfg st) as [c|]; [|exact HI]. destruct (deadline st) as [d|]; [|exact HI].
    apply fire_inv. apply set_now_inv. exact HI. }
  destruct (Z.eq_dec k 4) as [-> | N4].
  { destruct r as [|d [|x r]]; try exact HI.
    destruct (_ && _); [|exact HI]. destruct (deadline st); apply set_now_inv; exact HI. }
  destruct k as [|k|k]; try exact HI.
  do 3 (destruct k as [k|k|]; try exact HI; try congruence).
Qed.

Lemma final_inv K : forall ops st, Inv st -> Inv (final K st ops).
Proof. induction ops as [|op r IH]; intros st HI; cbn; [exact HI | apply IH, step_inv, HI]. Qed.

Lemma reach_inv K ops : Inv (final K init ops).
Proof. apply final_inv, Inv_init. Qed.

(* ---------- a no-op config un-ejects everything ---------- *)

Lemma noop_config_spec c ids st : noop c = true ->
  let st' := config c ids st in
  Forall (fun p => ej (snd p) = None /\ mult (snd p) = 0) (eps st') /\
  tstart st' = None /\ deadline st' = None /\ map fst (eps st') = ids.
Proof.
  intros Hn. unfold config. rewrite Hn.
  set (l1 := map (fun id => (id, match find id (eps st) with Some e => e | None => fresh end)) ids).
  destruct (noop_all l1) as [u l2] eqn:E. destruct (noop_all_spec _ _ _ E) as [A [B C]].
  cbn. repeat split; auto.
  assert (G : forall l u l', noop_all l = (u, l') -> map fst l' = map fst l).
  { induction l as [|[i e] r IH]; cbn [noop_all]; intros u0 l0 H0.
    - injection H0 as <- <-. reflexivity.
    - destruct (noop_all r) as [u1 r1] eqn:E1. injection H0 as <- <-. cbn. f_equal. eapply IH; eauto. }
  rewrite (G _ _ _ E). unfold l1. rewrite map_map. cbn. apply map_id.
Qed.

(* ---------- refutations (findings) ---------- *)

Definition cfg_fp (mx : Z) (ids : list Z) : word :=
  [1; 10; 30; 300; mx; 0; 0; 0; 0; 0; 1; 50; 100; 1; 1] ++ ids.

(* endpoint 0 is ejected, removed by a resolver update and added again: the counter
   follows (this was finding F-C40-removed-while-ejected before the repair 18235fc) *)
Lemma counter_removed_ok :
  let ops := [cfg_fp 100 [0;1;2]; [2;0;0;5]; [2;1;1;5]; [2;2;1;5]; [3]] in
  let st1 := final 3 init ops in
  let st := final 3 init (ops ++ [cfg_fp 100 [1;2]; cfg_fp 100 [0;1;2]]) in
  numej st1 = 1 /\ count_ej (eps st1) = 1 /\
  numej st = 0 /\ count_ej (eps st) = 0 /\ gD st = 0.
Proof. vm_compute. repeat split. Qed.

(* success rate and failure percentage both eject endpoint 0 in the same interval: the
   counter is 2 for one ejected endpoint and its multiplier is 2 *)
Lemma counter_double_refuted :
  let ops := [[1; 10; 30; 300; 100; 1; 1900; 100; 5; 10; 1; 50; 100; 5; 10; 0; 1; 2; 3; 4];
              [2;0;0;20]; [2;1;1;20]; [2;2;1;20]; [2;3;1;20]; [2;4;1;20]; [3]] in
  let st := final 5 init ops in
  numej st = 2 /\ count_ej (eps st) = 1 /\ gD st = 1 /\
  (exists e, find 0 (eps st) = Some e /\ mult e = 2).
Proof. vm_compute. repeat split. eexists. split; reflexivity. Qed.

(* 29 of 50 endpoints ejected with max_ejection_percent = 58: the share is exactly 58 % but
   29.0/50.0*100 = 57.99999999999999 in doubles, so the code's test does not stop ejections *)
Lemma share_float_refuted :
  share_ge 29 50 58 = false /\ exact_share_ge 29 50 58 = true.
Proof. vm_compute. split; reflexivity. Qed.

(* 7 failures of 100 requests with threshold 7: 0.07*100 = 7.000000000000001 in doubles, so
   the code ejects although the failure percentage does not exceed the threshold *)
Lemma fp_float_refuted :
  let e := mkep 0 0 93 7 None 0 (-1) in
  fp_fail 7 e = true /\ exact_fp_fail 7 e = false.
Proof. vm_compute. split; reflexivity. Qed.

(* ---------- the covered clauses hold on every model trace ---------- *)

Lemma names_In K n : In n (names K) <-> 0 <= n < K.
Proof.
  unfold names. rewrite in_map_iff. split.
  - intros [i [<- Hi]]. apply in_seq in Hi. lia.
  - intros H. exists (Z.to_nat n). split; [lia | apply in_seq; lia].
Qed.
Lemma names_nth K n : 0 <= n < K -> nth (Z.to_nat n) (names K) 0 = n.
Proof.
  intros H. unfold names.
  rewrite nth_indep with (d' := Z.of_nat 0%nat) by (rewrite map_length, seq_length; lia).
  rewrite map_nth. rewrite seq_nth by lia. lia.
Qed.
Lemma names_length K : 0 <= K -> length (names K) = Z.to_nat K.
Proof. intros H. unfold names. rewrite map_length, seq_length. reflexivity. Qed.

Lemma nth_flat6 (f : Z -> list Z) : (forall x, length (f x) = 6%nat) ->
  forall l i j d, (i < length l)%nat -> (j < 6)%nat ->
  nth (6 * i + j) (flat_map f l) d = nth j (f (nth i l 0)) d.
Proof.
  intros Hf. induction l as [|x r IH]; intros i j d Hi Hj; cbn [length] in Hi; [lia|].
  cbn [flat_map]. destruct i as [|i].
  - cbn [nth]. rewrite app_nth1 by (rewrite Hf; lia). reflexivity.
  - rewrite app_nth2 by (rewrite Hf; lia). rewrite Hf.
    replace (6 * S i + j - 6)%nat with (6 * i + j)%nat by lia. cbn [nth]. apply IH; lia.
Qed.

Lemma flat6_length (f : Z -> list Z) : (forall x, length (f x) = 6%nat) ->
  forall l, length (flat_map f l) = (6 * length l)%nat.
Proof.
  intros Hf. induction l as [|x r IH]; cbn [flat_map length]; [reflexivity|].
  rewrite app_length, Hf, IH. lia.
Qed.

Lemma ep_obs_length st id : length (ep_obs st id) = 6%nat.
Proof. unfold ep_obs. destruct (find id (eps st)); reflexivity. Qed.

Lemma o_field_obs K st id j : 0 <= id < K -> 0 <= j < 6 ->
  o_field (obs_of K st) id j = nth (Z.to_nat j) (ep_obs st id) 0.
Proof.
  intros Hid Hj. unfold o_field, obs_of.
  replace (Z.to_nat (3 + 6 * id + j)) with (3 + (6 * Z.to_nat id + Z.to_nat j))%nat by lia.
  cbn [Nat.add nth].
  rewrite (nth_flat6 (ep_obs st) (ep_obs_length st)); [|rewrite names_length; lia | lia].
  rewrite names_nth by lia. reflexivity.
Qed.

Lemma obs_length K st : 0 <= K -> Z.of_nat (length (obs_of K st)) = 3 + 6 * K.
Proof.
  intros HK. unfold obs_of. cbn [length].
  rewrite (flat6_length (ep_obs st) (ep_obs_length st)), names_length by lia. lia.
Qed.

Lemma covered_clauses_true K st op i : 0 <= K -> Inv st ->
  let st' := step K st op in
  forallb (fun c => negb (covered (fst (fst c))) || snd c)
          (clause_op K st st' (obs_of K st) op (obs_of K st') i) = true.
Proof.
  intros HK HI st'. pose proof (step_inv K st op HI) as HI'. fold st' in HI'.
  unfold clause_op. rewrite obs_length by exact HK.
  replace (3 + 6 * K <? 3 + 6 * K) with false by (symmetry; apply Z.ltb_irrefl).
  cbn [forallb fst snd covered]. cbn [Z.eqb orb negb].
  destruct HI' as [Ha Ht].
  assert (Hfind : forall id e, find id (eps st') = Some e -> tfok (id, e)).
  { intros id e H. apply find_In in H. rewrite Forall_forall in Ht. exact (Ht _ H). }
  repeat (apply andb_true_iff; split); try reflexivity.
  - (* 4 *)
    destruct op as [|k w]; [reflexivity|].
    destruct (Z.eq_dec k 1) as [-> | N1].
    2:{ destruct k as [|k|k]; try reflexivity. destruct k; reflexivity || congruence. }
    destruct (decode_config K w) as [[c ids]|] eqn:Ed; [|reflexivity].
    destruct (noop c) eqn:En; [|reflexivity].
    assert (E : st' = config c ids st) by (unfold st', step; rewrite Ed; reflexivity).
    destruct (noop_config_spec c ids st En) as [Hall _]. rewrite <- E in Hall.
    apply forallb_forall. intros id Hid. apply names_In in Hid.
    unfold o_present, o_ejat, o_mult. rewrite !o_field_obs by lia.
    unfold ep_obs. destruct (find id (eps st')) as [e|] eqn:Ef; [|reflexivity].
    apply find_In in Ef. rewrite Forall_forall in Hall. destruct (Hall _ Ef) as [H1 H2].
    cbn in H1, H2. cbn. rewrite H1, H2. reflexivity.
  - (* 5 *)
    apply forallb_forall. intros id Hid. apply names_In in Hid.
    unfold o_present, o_ejat, o_health. rewrite !o_field_obs by lia.
    unfold ep_obs. destruct (find id (eps st')) as [e|] eqn:Ef; [|reflexivity].
    specialize (Hfind _ _ Ef). unfold tfok, is_ej in Hfind. cbn in Hfind. cbn.
    destruct (ej e) as [t0|]; [|reflexivity]. rewrite Hfind by reflexivity.
    rewrite orb_true_r. reflexivity.
  - (* 7 *)
    unfold obs_of. cbn [nth]. destruct (gD st' =? 0) eqn:Eg; [|reflexivity].
    apply Z.eqb_eq in Eg. cbn. apply Z.eqb_eq. lia.
  - (* 6 *)
    unfold obs_of. cbn [nth]. apply Z.eqb_eq. exact Ha.
Qed.

Lemma covered_from_true K : 0 <= K -> forall ops st i, Inv st ->
  forallb (fun c => negb (covered (fst (fst c))) || snd c)
          (clauses_from K st (obs_of K st) i ops (run_from K st ops)) = true.
Proof.
  intros HK. induction ops as [|op r IH]; intros st i HI; cbn; [reflexivity|].
  rewrite forallb_app. rewrite covered_clauses_true by assumption. cbn.
  apply IH. apply step_inv. exact HI.
Qed.

Lemma cfg_K_range c K : cfg_K c = Some K -> 0 <= K.
Proof.
  unfold cfg_K. destruct c as [|k [|s [|]]]; try discriminate.
  - destruct ((1 <=? k) && (k <=? 64)) eqn:E2; [|discriminate]. intros [= <-].
    apply andb_true_iff in E2. destruct E2 as [E2 _]. apply Z.leb_le in E2. lia.
  - destruct ((1 <=? k) && (k <=? 64) && _) eqn:E2; [|discriminate]. intros [= <-].
    apply andb_true_iff in E2. destruct E2 as [E2 _]. apply andb_true_iff in E2. destruct E2 as [E2 _].
    apply Z.leb_le in E2. lia.
Qed.

Definition cfg_wf (c : word) : bool := match cfg_K c with Some _ => true | None => false end.

Lemma model_trace_holds_partial c ops : cfg_wf c = true ->
  exists obs, run c ops = Some obs /\ holds_cov_b c ops obs = true.
Proof.
  unfold cfg_wf, run, holds_cov_b, clauses. destruct (cfg_K c) as [K|] eqn:E; [|discriminate].
  intros _. exists (run_from K init ops). split; [reflexivity|].
  assert (G : forall (f g : Z * Z * bool -> bool) l, forallb f l = true -> forallb f (filter g l) = true).
  { intros f g l. induction l as [|a l IH]; cbn; [auto|]. intros H. apply andb_true_iff in H.
    destruct H as [H1 H2]. destruct (g a); cbn; [rewrite H1; cbn|]; auto. }
  rewrite forallb_app. rewrite !G; [reflexivity | |];
  apply covered_from_true.
  all: try apply Inv_init.
  all: eapply cfg_K_range; eauto.
Qed.

(* statements over all op lists used by props/C40.v *)
Lemma counter_accounting K ops : let st := final K init ops in
  numej st = count_ej (eps st) + gD st.
Proof. intros st. destruct (reach_inv K ops) as [H _]. exact H. Qed.

Lemma counter_exact_without_double K ops : let st := final K init ops in
  gD st = 0 -> numej st = count_ej (eps st).
Proof. intros st H. pose proof (counter_accounting K ops) as A. cbv zeta in A. unfold st in *. lia. Qed.

Lemma tf_while_ejected K ops id e : let st := final K init ops in
  find id (eps st) = Some e -> ej e <> None -> health e = 3.
Proof.
  intros st Hf Hej. destruct (reach_inv K ops) as [_ H]. fold st in H.
  apply find_In in Hf. rewrite Forall_forall in H. specialize (H _ Hf). apply H.
  unfold is_ej. cbn. destruct (ej e); [reflexivity | congruence].
Qed.

(* trace-level witness of the float rounding in the max_ejection_percent test: 29 of 50
   endpoints are ejected (exactly 58 %); with max_ejection_percent = 58 a 30th is ejected *)
Definition ids50 : list Z := map Z.of_nat (seq 0 50).
Definition cfg50 (mx : Z) : word := [1; 10; 1000; 1000; mx; 0; 0; 0; 0; 0; 1; 50; 100; 1; 1] ++ ids50.
Definition ops50 : list word :=
  [cfg50 100] ++ map (fun i => [2; Z.of_nat i; 0; 1]) (seq 0 29) ++ [[3]; cfg50 58; [2; 40; 0; 1]].
Lemma share_float_trace_refuted :
  let st := final 50 init ops50 in
  count_ej (eps st) = 29 /\ len (eps st) = 50 /\ exact_share_ge 29 50 58 = true /\
  count_ej (eps (step 50 st [3])) = 30.
Proof. vm_compute. repeat split. Qed.

(* ====================================================================================
   Composition through fire: what one interval does to every endpoint, for all states
   ==================================================================================== *)

Lemma find_F2_back (P : ep -> ep -> Prop) id : forall l l',
  Forall2 (fun p p' => fst p' = fst p /\ P (snd p) (snd p')) l l' ->
  forall e', find id l' = Some e' -> exists e, find id l = Some e /\ P e e'.
Proof.
  induction 1 as [|[i e] [i' e'] l l' [Hf HP] F IH]; cbn; intros x H; [discriminate|].
  cbn in Hf. subst i'. destruct (i =? id); [injection H as <-; eauto | auto].
Qed.
Lemma find_F2_fwd (P : ep -> ep -> Prop) id : forall l l',
  Forall2 (fun p p' => fst p' = fst p /\ P (snd p) (snd p')) l l' ->
  forall e, find id l = Some e -> exists e', find id l' = Some e' /\ P e e'.
Proof.
  induction 1 as [|[i e] [i' e'] l l' [Hf HP] F IH]; cbn; intros x H; [discriminate|].
  cbn in Hf. subst i'. destruct (i =? id); [injection H as <-; eauto | auto].
Qed.
Lemma In_F2_back {A} (R : A -> A -> Prop) : forall l l', Forall2 R l l' ->
  forall p', In p' l' -> exists p, In p l /\ R p p'.
Proof.
  induction 1 as [|a b l l' HR F IH]; cbn; intros p' H; [contradiction|].
  destruct H as [<- | H]; [eauto | destruct (IH _ H) as [p [Hp HR']]; eauto].
Qed.
Lemma F2_length {A} (R : A -> A -> Prop) l l' : Forall2 R l l' -> length l = length l'.
Proof. induction 1; cbn; auto. Qed.

Lemma find_swapped id sm : find id (swapped sm) = option_map swap_ep (find id (eps sm)).
Proof.
  unfold swapped. induction (eps sm) as [|[i e] r IH]; cbn; [reflexivity|].
  destruct (i =? id); [reflexivity | exact IH].
Qed.

(* relations on endpoints (ids are preserved positionally) *)
Definition prel (crit : ep -> bool) (t : Z) (e e' : ep) : Prop :=
  e' = e \/ (e' = eject_ep t e /\ crit e = true).
Definition srel (c : conf) (t : Z) (e e' : ep) : Prop :=
  match ej e with
  | Some t0 => if t0 + eject_span c (mult e) <? t then e' = uneject_ep e else e' = e
  | None => ej e' = None
  end.

Definition crit1 (c : conf) (l0 : list (Z * ep)) (e : ep) : bool :=
  sr_on c && negb (len (considered (sr_vol c) l0) <? sr_min c) && sr_crit c (considered (sr_vol c) l0) e.
Definition crit2 (c : conf) (e : ep) : bool := fp_on c && fp_crit c e.

Lemma pass_rel_prel crit crit' enf n mx t k k' l l' :
  (forall e, crit e = true -> crit' e = true) ->
  Forall2 (pass_rel crit enf n mx t k k') l l' ->
  Forall2 (fun p p' => fst p' = fst p /\ prel crit' t (snd p) (snd p')) l l' /\
  (l' <> l -> k' <> k).
Proof.
  intros Hc F. split.
  - eapply F2_impl; [|exact F]. intros a b [Hf [Hs | [Hs [Hcr _]]]]; split; auto; [left | right]; auto.
  - intros Hne Hk. apply Hne. clear Hne. induction F as [|[i e] [i' e'] l l' [Hf Hs] F IH]; [reflexivity|].
    cbn in Hf, Hs. subst i'. destruct Hs as [-> | [_ [_ [_ [kk [Hkk _]]]]]]; [f_equal; exact IH | lia].
Qed.

Lemma F2_refl_prel crit t l :
  Forall2 (fun p p' : Z * ep => fst p' = fst p /\ prel crit t (snd p) (snd p')) l l.
Proof. induction l; constructor; auto. split; [reflexivity | left; reflexivity]. Qed.

(* the stages of one interval *)
Lemma fire_stages c sm :
  let t := now sm in let l0 := swapped sm in let n := len (eps sm) in
  exists k1 l1 l2 l3,
    Forall2 (fun p p' => fst p' = fst p /\ prel (crit1 c l0) t (snd p) (snd p')) l0 l1 /\
    (l1 <> l0 -> share_ge (numej sm) n (maxpct c) = false) /\
    (k1 <> numej sm -> share_ge (numej sm) n (maxpct c) = false) /\
    Forall2 (fun p p' => fst p' = fst p /\ prel (crit2 c) t (snd p) (snd p')) l1 l2 /\
    (l2 <> l1 -> share_ge k1 n (maxpct c) = false) /\
    Forall2 (fun p p' => fst p' = fst p /\ srel c t (snd p) (snd p')) l2 l3 /\
    eps (fire c sm) = l3 /\ now (fire c sm) = t /\ tstart (fire c sm) = Some t /\
    deadline (fire c sm) = Some (t + interval c) /\ cfg (fire c sm) = Some c.
Proof.
  intros t l0 n. unfold fire. fold (swapped sm). fold l0.
  assert (Hn : len l0 = n) by (unfold l0, swapped, len, n; rewrite map_length; reflexivity).
  rewrite Hn.
  set (r1 := if sr_on c then
      let L := considered (sr_vol c) l0 in
      if len L <? sr_min c then (numej sm, gD sm, l0)
      else pass (sr_crit c L) (sr_enf c) n (maxpct c) (now sm) (numej sm) (gD sm) l0
    else (numej sm, gD sm, l0)).
  assert (H1 : let '(k1, g1, l1) := r1 in
     Forall2 (fun p p' => fst p' = fst p /\ prel (crit1 c l0) t (snd p) (snd p')) l0 l1 /\
     (l1 <> l0 -> share_ge (numej sm) n (maxpct c) = false) /\
     (k1 <> numej sm -> share_ge (numej sm) n (maxpct c) = false)).
  { unfold r1. destruct (sr_on c) eqn:Eon.
    2:{ split; [apply F2_refl_prel | split; congruence]. }
    cbv zeta. destruct (len (considered (sr_vol c) l0) <? sr_min c) eqn:Emin.
    { split; [apply F2_refl_prel | split; congruence]. }
    destruct (pass _ _ _ _ _ _ _ l0) as [[k1 g1] l1] eqn:E.
    pose proof (pass_spec _ _ _ _ _ _ _ _ _ _ _ E) as F.
    destruct (pass_rel_prel _ (crit1 c l0) _ _ _ _ _ _ _ _
                (fun e H => ltac:(unfold crit1; rewrite Eon, Emin; exact H)) F) as [F' Hk].
    split; [exact F'|]. split.
    - intros Hne. eapply pass_first; [exact E | apply Hk; exact Hne].
    - intros Hne. eapply pass_first; [exact E | exact Hne]. }
  destruct r1 as [[k1 g1] l1]. destruct H1 as [F1 [S1 K1]].
  set (r2 := if fp_on c then
      let L := considered (fp_vol c) l1 in
      if len L <? fp_min c then (k1, g1, l1)
      else pass (fp_crit c) (fp_enf c) n (maxpct c) (now sm) k1 g1 l1
    else (k1, g1, l1)).
  assert (H2 : let '(k2, g2, l2) := r2 in
     Forall2 (fun p p' => fst p' = fst p /\ prel (crit2 c) t (snd p) (snd p')) l1 l2 /\
     (l2 <> l1 -> share_ge k1 n (maxpct c) = false)).
  { unfold r2. destruct (fp_on c) eqn:Eon.
    2:{ split; [apply F2_refl_prel | congruence]. }
    cbv zeta. destruct (len (considered (fp_vol c) l1) <? fp_min c).
    { split; [apply F2_refl_prel | congruence]. }
    destruct (pass _ _ _ _ _ _ _ l1) as [[k2 g2] l2] eqn:E.
    pose proof (pass_spec _ _ _ _ _ _ _ _ _ _ _ E) as F.
    destruct (pass_rel_prel _ (crit2 c) _ _ _ _ _ _ _ _
                (fun e H => ltac:(unfold crit2; rewrite Eon; exact H)) F) as [F' Hk].
    split; [exact F'|]. intros Hne. eapply pass_first; [exact E | apply Hk; exact Hne]. }
  destruct r2 as [[k2 g2] l2]. destruct H2 as [F2 S2].
  destruct (sweep c (now sm) l2) as [u l3] eqn:E3.
  pose proof (sweep_spec _ _ _ _ _ E3) as F3.
  exists k1, l1, l2, l3. cbn.
  repeat (split; [assumption|]). split; [|auto].
  eapply F2_impl; [|exact F3]. intros a b [Hf Hs]. split; [exact Hf|].
  unfold srel. destruct (ej (snd a)); [exact Hs | tauto].
Qed.

Lemma eject_neq t e : eject_ep t e <> e.
Proof. intros H. assert (X : mult (eject_ep t e) = mult e) by (rewrite H; reflexivity). cbn in X. lia. Qed.

Lemma crit2_eject c t e : crit2 c (eject_ep t e) = crit2 c e.
Proof. reflexivity. Qed.

Definition ej_before (sm : state) : Prop :=
  forall id e x, In (id, e) (eps sm) -> ej e = Some x -> x < now sm.

(* an endpoint that carries the interval's time as ejection time after the interval failed
   the test of an enabled algorithm on the swapped buckets, and the max_ejection_percent test
   was negative for the counter the interval started with *)
Lemma fire_ejected c sm id e3 : ej_before sm ->
  find id (eps (fire c sm)) = Some e3 -> ej e3 = Some (now sm) ->
  exists e0, find id (swapped sm) = Some e0 /\ crit_any c (swapped sm) e0 = true /\
             share_ge (numej sm) (len (eps sm)) (maxpct c) = false.
Proof.
  intros Hlt Hf Hej.
  destruct (fire_stages c sm) as [k1 [l1 [l2 [l3 [F1 [S1 [K1 [F2 [S2 [F3 [E3 _]]]]]]]]]]].
  rewrite E3 in Hf.
  destruct (find_F2_back _ _ _ _ F3 _ Hf) as [e2 [Hf2 R3]].
  destruct (find_F2_back _ _ _ _ F2 _ Hf2) as [e1 [Hf1 R2]].
  destruct (find_F2_back _ _ _ _ F1 _ Hf1) as [e0 [Hf0 R1]].
  assert (He2 : e3 = e2 /\ ej e2 = Some (now sm)).
  { unfold srel in R3. destruct (ej e2) as [t0|] eqn:E2; [|congruence].
    destruct (t0 + eject_span c (mult e2) <? now sm); subst e3; [cbn in Hej; discriminate|].
    split; [reflexivity | congruence]. }
  destruct He2 as [-> He2]. exists e0. split; [exact Hf0|].
  assert (Hl1 : e1 <> e0 -> l1 <> swapped sm) by (intros Hne Heq; rewrite Heq in Hf1; congruence).
  assert (Hl2 : e2 <> e1 -> l2 <> l1) by (intros Hne Heq; rewrite Heq in Hf2; congruence).
  unfold crit_any. fold (crit1 c (swapped sm) e0). fold (crit2 c e0).
  destruct R1 as [-> | [-> C1]].
  - destruct R2 as [-> | [-> C2]].
    + exfalso. rewrite find_swapped in Hf0. destruct (find id (eps sm)) as [e|] eqn:Ee; [|discriminate].
      cbn in Hf0. injection Hf0 as <-. cbn in He2. apply find_In in Ee.
      specialize (Hlt _ _ _ Ee He2). lia.
    + rewrite C2, orb_true_r. split; [reflexivity|].
      specialize (S2 (Hl2 (eject_neq _ _))).
      destruct (Z.eq_dec k1 (numej sm)) as [<- | Hk]; [exact S2 | exact (K1 Hk)].
  - rewrite C1. split; [reflexivity|]. apply S1. apply Hl1. apply eject_neq.
Qed.

(* what one interval does to an endpoint that was ejected at t0 *)
Lemma fire_uneject c sm id e t0 : ej_before sm ->
  find id (eps sm) = Some e -> ej e = Some t0 ->
  exists e3, find id (eps (fire c sm)) = Some e3 /\
    match ej e3 with
    | None => t0 + eject_span c (mult e3) < now sm
    | Some x => x = now sm \/ (x = t0 /\ mult e3 = mult e /\ now sm <= t0 + eject_span c (mult e))
    end.
Proof.
  intros Hlt Hf Hej.
  destruct (fire_stages c sm) as [k1 [l1 [l2 [l3 [F1 [S1 [K1 [F2 [S2 [F3 [E3 _]]]]]]]]]]].
  assert (Hf0 : find id (swapped sm) = Some (swap_ep e)) by (rewrite find_swapped, Hf; reflexivity).
  destruct (find_F2_fwd _ _ _ _ F1 _ Hf0) as [e1 [Hf1 R1]].
  destruct (find_F2_fwd _ _ _ _ F2 _ Hf1) as [e2 [Hf2 R2]].
  destruct (find_F2_fwd _ _ _ _ F3 _ Hf2) as [e3 [Hf3 R3]].
  exists e3. rewrite E3. split; [exact Hf3|].
  pose proof (Hlt _ _ _ (find_In _ _ _ Hf) Hej) as Ht0.
  assert (H2 : e2 = swap_ep e \/ ej e2 = Some (now sm)).
  { destruct R1 as [-> | [-> _]]; destruct R2 as [-> | [-> _]]; auto. }
  unfold srel in R3. destruct H2 as [-> | H2].
  - cbn in R3. rewrite Hej in R3. destruct (t0 + eject_span c (mult e) <? now sm) eqn:El; subst e3; cbn.
    + apply Z.ltb_lt in El. exact El.
    + rewrite Hej. apply Z.ltb_ge in El. right. auto.
  - rewrite H2 in R3. destruct (now sm + eject_span c (mult e2) <? now sm) eqn:El; subst e3.
    + cbn. apply Z.ltb_lt in El. lia.
    + rewrite H2. left. reflexivity.
Qed.

(* ---------- time invariant: ejection times lie before the next interval ---------- *)

Record TInv (st : state) : Prop := mkTInv {
  ti_now : 0 <= now st;
  ti_ej : forall id e x, In (id, e) (eps st) -> ej e = Some x ->
            0 <= x /\ exists ts, tstart st = Some ts /\ x <= ts;
  ti_ts : forall ts, tstart st = Some ts -> 0 <= ts /\ forall d, deadline st = Some d -> ts < d;
  ti_dl : forall d, deadline st = Some d -> exists ts, tstart st = Some ts;
  ti_cfg : forall c, cfg st = Some c -> 1 <= interval c
}.

Lemma TInv_init : TInv init.
Proof. constructor; cbn; intros; try discriminate; try contradiction; lia. Qed.

Lemma fire_tinv c sm : 0 <= now sm -> 1 <= interval c ->
  (forall id e x, In (id, e) (eps sm) -> ej e = Some x -> 0 <= x < now sm) ->
  TInv (fire c sm).
Proof.
  intros Hnow Hiv Hlt.
  destruct (fire_stages c sm) as [k1 [l1 [l2 [l3 [F1 [_ [_ [F2 [_ [F3 [E3 [En [Et [Ed Ec]]]]]]]]]]]]]].
  constructor.
  - rewrite En. exact Hnow.
  - intros id e3 x Hin Hx. rewrite E3 in Hin. rewrite Et.
    assert (G : x = now sm \/ 0 <= x < now sm).
    { destruct (In_F2_back _ _ _ F3 _ Hin) as [[i2 e2] [Hin2 [_ R3]]].
      destruct (In_F2_back _ _ _ F2 _ Hin2) as [[i1 e1] [Hin1 [_ R2]]].
      destruct (In_F2_back _ _ _ F1 _ Hin1) as [[i0 e0] [Hin0 [_ R1]]].
      cbn [snd] in *.
      assert (Hx2 : ej e2 = Some x).
      { unfold srel in R3. destruct (ej e2) as [t0|] eqn:E2; [|congruence].
        destruct (t0 + eject_span c (mult e2) <? now sm); subst e3; [discriminate | congruence]. }
      destruct R2 as [-> | [-> _]]; [|cbn in Hx2; left; congruence].
      destruct R1 as [-> | [-> _]]; [|cbn in Hx2; left; congruence].
      right. unfold swapped in Hin0. apply in_map_iff in Hin0. destruct Hin0 as [[i e] [He Hin0]].
      cbn in He. injection He as <- <-. cbn in Hx2. eapply Hlt; eauto. }
    split; [lia|]. exists (now sm). split; [reflexivity | lia].
  - intros ts H. rewrite Et in H. injection H as <-. split; [exact Hnow|].
    intros d Hd. rewrite Ed in Hd. injection Hd as <-. lia.
  - intros d _. rewrite Et. eauto.
  - intros c0 H. rewrite Ec in H. injection H as <-. exact Hiv.
Qed.

Lemma in_l1 ids l id e :
  In (id, e) (map (fun id => (id, match find id l with Some e => e | None => fresh end)) ids) ->
  In (id, e) l \/ e = fresh.
Proof.
  intros H. apply in_map_iff in H. destruct H as [i [He _]]. injection He as -> <-.
  destruct (find id l) eqn:E; [left; apply find_In; exact E | right; reflexivity].
Qed.

Lemma config_tinv c ids st : TInv st -> 1 <= interval c -> TInv (config c ids st).
Proof.
  intros [Hnow Hej Hts Hdl Hcfg] Hiv. unfold config.
  set (l1 := map (fun id => (id, match find id (eps st) with Some e => e | None => fresh end)) ids).
  set (k := numej st - (count_ej (eps st) - count_ej l1)).
  assert (Hl1 : forall id e x, In (id, e) l1 -> ej e = Some x -> In (id, e) (eps st)).
  { intros id e x Hin Hx. destruct (in_l1 _ _ _ _ Hin) as [H | ->]; [exact H | discriminate]. }
  destruct (noop c).
  - destruct (noop_all l1) as [u l2] eqn:E. destruct (noop_all_spec _ _ _ E) as [_ [_ C]].
    constructor; cbn; intros; try discriminate; auto.
    + rewrite Forall_forall in C. destruct (C _ H) as [C1 _]. cbn in C1. congruence.
    + injection H as <-. exact Hiv.
  - destruct (tstart st) as [t0|] eqn:Ets.
    + destruct (Hts t0 eq_refl) as [Ht0 Hd0].
      set (rem := Z.max 0 (interval c - (now st - t0))).
      set (st1 := mkst (now st) (Some c) l1 k (Some t0) (Some (now st + rem)) (gD st)).
      assert (Hej1 : forall id e x, In (id, e) l1 -> ej e = Some x -> 0 <= x <= t0).
      { intros id e x Hin Hx. destruct (Hej _ _ _ (Hl1 _ _ _ Hin Hx) Hx) as [A [ts [B C]]].
        injection B as <-. lia. }
      destruct (Z.eqb_spec rem 0) as [Er | Er].
      * apply fire_tinv; cbn; auto. intros id e x Hin Hx.
        specialize (Hej1 _ _ _ Hin Hx). unfold rem in Er. lia.
      * constructor; cbn; auto.
        -- intros id e x Hin Hx. specialize (Hej1 _ _ _ Hin Hx). split; [lia|]. exists t0. split; [reflexivity | lia].
        -- intros ts H. injection H as <-. split; [exact Ht0|]. intros d Hd. injection Hd as <-.
           unfold rem. lia.
        -- intros; eauto.
        -- intros c0 H. injection H as <-. exact Hiv.
    + constructor; cbn; auto.
      * intros id e x Hin Hx. exfalso. apply in_map_iff in Hin. destruct Hin as [[i e0] [He Hin]].
        cbn in He. injection He as <- <-. cbn in Hx.
        destruct (Hej _ _ _ (Hl1 _ _ _ Hin Hx) Hx) as [_ [ts [B _]]]. discriminate.
      * intros ts H. injection H as <-. split; [exact Hnow|]. intros d Hd. injection Hd as <-. lia.
      * intros; eauto.
      * intros c0 H. injection H as <-. exact Hiv.
Qed.

Lemma calls_tinv id ok n st : TInv st -> TInv (calls id ok n st).
Proof.
  intros [Hnow Hej Hts Hdl Hcfg]. constructor; cbn; auto.
  intros i e x Hin Hx. apply in_map_iff in Hin. destruct Hin as [[i0 e0] [He Hin]].
  cbn [fst snd] in He. destruct (i0 =? id).
  - injection He as <- <-. apply (Hej i0 e0 x Hin).
    unfold add_calls in Hx. destruct (ok =? 1); exact Hx.
  - injection He as <- <-. eauto.
Qed.

Lemma set_now_tinv t st : 0 <= t -> TInv st -> TInv (set_now t st).
Proof. intros Ht [Hnow Hej Hts Hdl Hcfg]. constructor; cbn; auto. Qed.

Lemma decode_interval K w c ids : decode_config K w = Some (c, ids) -> 1 <= interval c.
Proof.
  unfold decode_config.
  do 14 (destruct w as [|? w]; [discriminate|]).
  destruct (_ && _) eqn:E; [|discriminate]. intros H. injection H as <- _. cbn.
  repeat (apply andb_true_iff in E; destruct E as [E _]). apply Z.leb_le in E. exact E.
Qed.

Lemma step_tinv K st op : TInv st -> TInv (step K st op).
Proof.
  intros HI. unfold step.
  destruct op as [|k r]; [exact HI|].
  destruct (Z.eq_dec k 1) as [-> | N1].
  { destruct (decode_config K r) as [[c ids]|] eqn:Ed; [|exact HI].
    apply config_tinv; [exact HI | eapply decode_interval; eauto]. }
  destruct (Z.eq_dec k 2) as [-> | N2].
  { destruct r as [|id [|ok [|n [|x r]]]]; try exact HI.
    destruct (_ && _); [apply calls_tinv; exact HI | exact HI]. }
  destruct (Z.eq_dec k 3) as [-> | N3].
  { destruct r as [|x r]; [|exact HI].
    destruct (cfg st) as [c|] eqn:Ec; [|exact HI]. destruct (deadline st) as [d|] eqn:Ed; [|exact HI].
    destruct HI as [Hnow Hej Hts Hdl Hcfg].
    destruct (Hdl d Ed) as [ts Ets]. destruct (Hts ts Ets) as [Hts0 Htsd]. specialize (Htsd d Ed).
    apply fire_tinv; cbn; [lia | auto |].
    intros id e x Hin Hx. destruct (Hej _ _ _ Hin Hx) as [A [ts' [B C]]].
    rewrite Ets in B. injection B as <-. lia. }
  destruct (Z.eq_dec k 4) as [-> | N4].
  { destruct r as [|d [|x r]]; try exact HI.
    destruct ((0 <=? d) && (d <=? 100000)) eqn:Ed; [|exact HI].
    apply andb_true_iff in Ed. destruct Ed as [Ed _]. apply Z.leb_le in Ed.
    pose proof (ti_now _ HI) as Hn.
    destruct (deadline st); apply set_now_tinv; auto; lia. }
  destruct k as [|k|k]; try exact HI.
  do 3 (destruct k as [k|k|]; try exact HI; try congruence).
Qed.

Lemma final_tinv K : forall ops st, TInv st -> TInv (final K st ops).
Proof. induction ops as [|op r IH]; intros st HI; cbn; [exact HI | apply IH, step_tinv, HI]. Qed.
Lemma reach_tinv K ops : TInv (final K init ops).
Proof. apply final_tinv, TInv_init. Qed.

(* an op that runs the interval algorithm: it runs on [sm] and no endpoint of [sm] carries
   an ejection time at or after the interval's time *)
Lemma fired_pre K st op c sm : TInv st -> fired K st op = Some (c, sm) ->
  step K st op = fire c sm /\ ej_before sm /\
  (forall id e x, In (id, e) (eps sm) -> ej e = Some x -> 0 <= x).
Proof.
  intros HI Hf. unfold fired in Hf. unfold step.
  destruct op as [|k r]; [discriminate|].
  destruct (Z.eq_dec k 1) as [-> | N1].
  { destruct (decode_config K r) as [[c0 ids]|] eqn:Ed; [|discriminate].
    destruct (noop c0) eqn:En; [discriminate|].
    destruct (tstart st) as [t0|] eqn:Ets; [|discriminate].
    destruct (Z.max 0 (interval c0 - (now st - t0)) =? 0) eqn:Er; [|discriminate].
    injection Hf as <- <-. split; [|split].
    - unfold config. rewrite En, Ets, Er. reflexivity.
    - intros id e x Hin Hx. cbn in Hin |- *.
      destruct (in_l1 _ _ _ _ Hin) as [H | ->]; [|discriminate].
      destruct HI as [Hnow Hej Hts Hdl Hcfg]. destruct (Hej _ _ _ H Hx) as [_ [ts [B C]]].
      rewrite Ets in B. injection B as <-. apply Z.eqb_eq in Er.
      pose proof (decode_interval _ _ _ _ Ed). lia.
    - intros id e x Hin Hx. cbn in Hin.
      destruct (in_l1 _ _ _ _ Hin) as [H | ->]; [|discriminate].
      destruct (ti_ej _ HI _ _ _ H Hx) as [A _]. exact A. }
  destruct (Z.eq_dec k 3) as [-> | N3].
  { destruct r as [|x r]; [|discriminate].
    destruct (cfg st) as [c0|] eqn:Ec; [|discriminate]. destruct (deadline st) as [d|] eqn:Ed; [|discriminate].
    injection Hf as <- <-. split; [reflexivity|]. split.
    - intros id e x Hin Hx. cbn in Hin |- *.
      destruct HI as [Hnow Hej Hts Hdl Hcfg]. destruct (Hej _ _ _ Hin Hx) as [_ [ts [B C]]].
      destruct (Hts ts B) as [_ D]. specialize (D d Ed). lia.
    - intros id e x Hin Hx. cbn in Hin. destruct (ti_ej _ HI _ _ _ Hin Hx) as [A _]. exact A. }
  exfalso. destruct k as [|k|k]; try discriminate.
  destruct k as [k|k|];
    [destruct k as [k|k|]; try discriminate; congruence | destruct k; discriminate | congruence].
Qed.

(* ---------- ops that do not run the interval algorithm never eject ---------- *)

Lemma find_map_keep (f : Z * ep -> Z * ep) id :
  (forall p, fst (f p) = fst p) -> (forall p, ej (snd (f p)) = ej (snd p)) ->
  forall l e', find id (map f l) = Some e' -> exists e, find id l = Some e /\ ej e = ej e'.
Proof.
  intros Hf He. induction l as [|[i e] r IH]; cbn [map find]; intros e' H; [discriminate|].
  specialize (Hf (i, e)). specialize (He (i, e)). destruct (f (i, e)) as [i' e1]. cbn in Hf, He. subst i'.
  destruct (i =? id); [injection H as <-; eauto | auto].
Qed.

Lemma find_l1 (g : Z -> ep) id : forall ids e, find id (map (fun i => (i, g i)) ids) = Some e -> e = g id.
Proof.
  induction ids as [|i r IH]; cbn; intros e H; [discriminate|].
  destruct (Z.eqb_spec i id); [injection H as <-; subst; reflexivity | auto].
Qed.

Lemma nofire_ej K st op id e' x : fired K st op = None ->
  find id (eps (step K st op)) = Some e' -> ej e' = Some x ->
  exists e, find id (eps st) = Some e /\ ej e = Some x.
Proof.
  intros Hf. unfold fired in Hf. unfold step.
  assert (Triv : find id (eps st) = Some e' -> ej e' = Some x ->
                 exists e, find id (eps st) = Some e /\ ej e = Some x) by eauto.
  destruct op as [|k r]; [exact Triv|].
  destruct (Z.eq_dec k 1) as [-> | N1].
  { destruct (decode_config K r) as [[c ids]|] eqn:Ed; [|exact Triv].
    unfold config.
    set (g := fun i => match find i (eps st) with Some e => e | None => fresh end).
    assert (G : forall e1, find id (map (fun i => (i, g i)) ids) = Some e1 -> ej e1 = Some x ->
                exists e, find id (eps st) = Some e /\ ej e = Some x).
    { intros e1 H1 Hx. apply find_l1 in H1. subst e1. unfold g in Hx.
      destruct (find id (eps st)) as [e|]; [eauto | discriminate]. }
    destruct (noop c) eqn:En.
    - destruct (noop_all _) as [u l2] eqn:E. destruct (noop_all_spec _ _ _ E) as [_ [_ C]].
      cbn. intros H Hx. apply find_In in H. rewrite Forall_forall in C. destruct (C _ H) as [C1 _].
      cbn in C1. congruence.
    - destruct (tstart st) as [t0|] eqn:Ets.
      + destruct (Z.max 0 (interval c - (now st - t0)) =? 0) eqn:Er; [discriminate|].
        cbn. exact (G e').
      + cbn. intros H Hx.
        destruct (find_map_keep (fun p => (fst p, clear_ep (snd p))) id
                    (fun p => eq_refl) (fun p => eq_refl) _ _ H) as [e1 [H1 He1]].
        apply (G e1 H1). congruence. }
  destruct (Z.eq_dec k 2) as [-> | N2].
  { destruct r as [|i0 [|ok [|n [|y r]]]]; try exact Triv.
    destruct (_ && _); [|exact Triv]. cbn. intros H Hx.
    assert (A1 : forall p : Z * ep, fst (if fst p =? i0 then (fst p, add_calls ok n (snd p)) else p) = fst p)
      by (intros p; destruct (fst p =? i0); reflexivity).
    assert (A2 : forall p : Z * ep, ej (snd (if fst p =? i0 then (fst p, add_calls ok n (snd p)) else p)) = ej (snd p)).
    { intros p. destruct (fst p =? i0); [|reflexivity]. cbn. unfold add_calls. destruct (ok =? 1); reflexivity. }
    destruct (find_map_keep _ id A1 A2 _ _ H) as [e1 [H1 He1]].
    exists e1. split; [exact H1 | congruence]. }
  destruct (Z.eq_dec k 3) as [-> | N3].
  { destruct r as [|y r]; [|exact Triv].
    destruct (cfg st); [|exact Triv]. destruct (deadline st); [discriminate | exact Triv]. }
  destruct (Z.eq_dec k 4) as [-> | N4].
  { destruct r as [|d [|y r]]; try exact Triv.
    destruct (_ && _); [|exact Triv]. destruct (deadline st); exact Triv. }
  destruct k as [|k|k]; try exact Triv.
  do 3 (destruct k as [k|k|]; try exact Triv; try congruence).
Qed.

(* ---------- reading an observation of the model ---------- *)

Lemma o_present_obs K st id : 0 <= id < K ->
  o_present (obs_of K st) id = match find id (eps st) with Some _ => true | None => false end.
Proof. intros H. unfold o_present. rewrite o_field_obs by lia. unfold ep_obs. destruct (find id (eps st)); reflexivity. Qed.
Lemma o_ejat_obs K st id : 0 <= id < K ->
  o_ejat (obs_of K st) id =
  match find id (eps st) with Some e => match ej e with Some t => t | None => -1 end | None => -1 end.
Proof. intros H. unfold o_ejat. rewrite o_field_obs by lia. unfold ep_obs. destruct (find id (eps st)); reflexivity. Qed.
Lemma o_mult_obs K st id : 0 <= id < K ->
  o_mult (obs_of K st) id = match find id (eps st) with Some e => mult e | None => 0 end.
Proof. intros H. unfold o_mult. rewrite o_field_obs by lia. unfold ep_obs. destruct (find id (eps st)); reflexivity. Qed.

Lemma ejected_now_obs K st id t : 0 <= id < K -> 0 <= t ->
  ejected_now (obs_of K st) t id = true ->
  exists e, find id (eps st) = Some e /\ ej e = Some t.
Proof.
  intros H Ht. unfold ejected_now. rewrite o_present_obs, o_ejat_obs by lia.
  destruct (find id (eps st)) as [e|]; [|discriminate]. cbn.
  destruct (ej e) as [x|] eqn:Ee; intros E; apply Z.eqb_eq in E; [subst; eauto | lia].
Qed.

Lemma fire_now c sm : now (fire c sm) = now sm.
Proof. destruct (fire_stages c sm) as [k1 [l1 [l2 [l3 [_ [_ [_ [_ [_ [_ [_ [En _]]]]]]]]]]]]. exact En. Qed.

(* ---------- clauses 1-3 on every model trace ---------- *)

Lemma cl1_true K st op : 0 <= K -> TInv st ->
  cl1 K (fired K st op) (obs_of K st) (obs_of K (step K st op)) = true.
Proof.
  intros HK HT. pose proof (step_tinv K st op HT) as HT'. pose proof (ti_now _ HT') as Hn'.
  unfold cl1. change (nth 1 (obs_of K (step K st op)) 0) with (now (step K st op)).
  destruct (fired K st op) as [[c sm]|] eqn:Ef.
  - destruct (fired_pre K st op c sm HT Ef) as [Es [Hlt _]].
    apply forallb_forall. intros id Hid. apply names_In in Hid.
    destruct (ejected_now _ _ id) eqn:En; [|reflexivity].
    destruct (ejected_now_obs _ _ _ _ Hid Hn' En) as [e3 [Hf3 He3]].
    rewrite Es in Hf3, He3. rewrite fire_now in He3.
    destruct (fire_ejected c sm id e3 Hlt Hf3 He3) as [e0 [Hf0 [Hc _]]].
    rewrite Hf0. exact Hc.
  - apply forallb_forall. intros id Hid. apply names_In in Hid.
    destruct (ejected_now _ _ id) eqn:En; [|reflexivity].
    destruct (ejected_now_obs _ _ _ _ Hid Hn' En) as [e' [Hf' He']].
    destruct (nofire_ej K st op id e' _ Ef Hf' He') as [e [Hf He]].
    rewrite o_ejat_obs by lia. rewrite Hf, He, Z.eqb_refl. reflexivity.
Qed.

Lemma cl2_true K st op : 0 <= K -> TInv st ->
  cl2 K (fired K st op) (obs_of K (step K st op)) = true.
Proof.
  intros HK HT. pose proof (step_tinv K st op HT) as HT'. pose proof (ti_now _ HT') as Hn'.
  unfold cl2. change (nth 1 (obs_of K (step K st op)) 0) with (now (step K st op)).
  destruct (fired K st op) as [[c sm]|] eqn:Ef; [|reflexivity].
  destruct (fired_pre K st op c sm HT Ef) as [Es [Hlt _]].
  destruct (existsb _ (names K)) eqn:Ex; [|reflexivity].
  apply existsb_exists in Ex. destruct Ex as [id [Hid En]]. apply names_In in Hid.
  destruct (ejected_now_obs _ _ _ _ Hid Hn' En) as [e3 [Hf3 He3]].
  rewrite Es in Hf3, He3. rewrite fire_now in He3.
  destruct (fire_ejected c sm id e3 Hlt Hf3 He3) as [e0 [_ [_ Hs]]].
  rewrite Hs. reflexivity.
Qed.

Lemma cl3_true K st op : 0 <= K -> TInv st ->
  cl3 K (fired K st op) (obs_of K (step K st op)) = true.
Proof.
  intros HK HT. unfold cl3. change (nth 1 (obs_of K (step K st op)) 0) with (now (step K st op)).
  destruct (fired K st op) as [[c sm]|] eqn:Ef; [|reflexivity].
  destruct (fired_pre K st op c sm HT Ef) as [Es [Hlt Hnn]].
  rewrite Es, fire_now.
  apply forallb_forall. intros id Hid. apply names_In in Hid.
  destruct (find id (eps sm)) as [e|] eqn:Hf; [|reflexivity].
  unfold is_ej. destruct (ej e) as [t0|] eqn:Hej; [|reflexivity].
  destruct (fire_uneject c sm id e t0 Hlt Hf Hej) as [e3 [Hf3 H3]].
  pose proof (Hnn _ _ _ (find_In _ _ _ Hf) Hej) as Ht0.
  pose proof (Hlt _ _ _ (find_In _ _ _ Hf) Hej) as Ht0'.
  rewrite o_present_obs, o_ejat_obs, o_mult_obs by lia. rewrite Hf3. cbn [andb].
  destruct (ej e3) as [x|].
  - destruct (Z.eqb_spec x (now sm)) as [|Hx]; [reflexivity|]. cbn [negb].
    destruct H3 as [-> | [-> [Hm Hle]]]; [congruence|].
    rewrite Hm. replace (t0 =? -1) with false by (symmetry; apply Z.eqb_neq; lia).
    replace (t0 + eject_span c (mult e) <? now sm) with false by (symmetry; apply Z.ltb_ge; lia).
    reflexivity.
  - destruct (Z.eqb_spec (-1) (now sm)); [reflexivity|]. cbn [negb].
    apply Z.ltb_lt in H3. rewrite H3. reflexivity.
Qed.

(* ---------- the number of ejections in one interval stays within the cap ---------- *)

Lemma room_mono f : forall k n mx, room f k n mx <= room (S f) k n mx.
Proof.
  induction f as [|f IH]; intros k n mx; cbn [room].
  - destruct (share_ge k n mx); lia.
  - destruct (share_ge k n mx); [lia|]. specialize (IH (k + 1) n mx). cbn [room] in IH. lia.
Qed.
Lemma room_nonneg f : forall k n mx, 0 <= room f k n mx.
Proof. induction f as [|f IH]; intros; cbn [room]; [lia|]. destruct (share_ge k n mx); [lia|]. specialize (IH (k+1) n mx). lia. Qed.
Lemma room_mono_add f f' k n mx : room f' k n mx <= room (f + f') k n mx.
Proof.
  induction f as [|f IH]; [cbn; lia|]. pose proof (room_mono (f + f') k n mx). cbn [Nat.add]. lia.
Qed.
Lemma room_add n mx : forall f k j f', 0 <= j <= room f k n mx ->
  j + room f' (k + j) n mx <= room (f + f') k n mx.
Proof.
  induction f as [|f IH]; intros k j f' Hj.
  - cbn [room] in Hj. assert (j = 0) by lia. subst. rewrite Z.add_0_r. cbn. lia.
  - destruct (Z.eq_dec j 0) as [-> | Hj0].
    { rewrite Z.add_0_r. pose proof (room_mono_add (S f) f' k n mx). lia. }
    cbn [room Nat.add] in *. destruct (share_ge k n mx); [lia|].
    specialize (IH (k + 1) (j - 1) f'). replace (k + 1 + (j - 1)) with (k + j) in IH by lia. lia.
Qed.

Lemma count_at_cons t p l : count_at t (p :: l) =
  match ej (snd p) with Some x => if x =? t then count_at t l + 1 else count_at t l | None => count_at t l end.
Proof. reflexivity. Qed.

(* one pass: the counter grows by the number of ejections, which the cap admits *)
Lemma pass_count crit enf n mx t : forall l k gd k' gd' l',
  pass crit enf n mx t k gd l = (k', gd', l') ->
  k <= k' /\ k' - k <= room (length l) k n mx /\ count_at t l' <= count_at t l + (k' - k).
Proof.
  induction l as [|[id e] r IH]; cbn [pass]; intros k gd k' gd' l' H.
  - injection H as <- <- <-. cbn. lia.
  - destruct (crit e && negb (share_ge k n mx) && (100 <=? enf)) eqn:C.
    + destruct (pass crit enf n mx t (k + 1) (if is_ej e then gd + 1 else gd) r) as [[k1 g1] r1] eqn:E.
      cbn in H; injection H as <- <- <-. destruct (IH _ _ _ _ _ E) as [A [B D]].
      apply andb_true_iff in C. destruct C as [C _]. apply andb_true_iff in C. destruct C as [_ C2].
      apply negb_true_iff in C2. cbn [length room]. rewrite C2.
      rewrite !count_at_cons. cbn [snd eject_ep ej]. rewrite Z.eqb_refl.
      destruct (ej e) as [x|]; [destruct (x =? t)|]; lia.
    + destruct (pass crit enf n mx t k gd r) as [[k1 g1] r1] eqn:E.
      cbn in H; injection H as <- <- <-. destruct (IH _ _ _ _ _ E) as [A [B D]].
      pose proof (room_mono (length r) k n mx). cbn [length].
      rewrite !count_at_cons. cbn [snd]. destruct (ej e) as [x|]; [destruct (x =? t)|]; lia.
Qed.

Lemma sweep_count c t : forall l u l', sweep c t l = (u, l') -> count_at t l' <= count_at t l.
Proof.
  induction l as [|[id e] r IH]; cbn [sweep]; intros u l' H.
  - injection H as <- <-. lia.
  - destruct (sweep c t r) as [u1 r1] eqn:E. specialize (IH _ _ eq_refl).
    destruct (ej e) as [t0|] eqn:Ee.
    + destruct (t0 + eject_span c (mult e) <? t); injection H as <- <-; rewrite !count_at_cons; cbn [snd];
        cbn [uneject_ep ej]; rewrite ?Ee; destruct (t0 =? t); lia.
    + destruct (0 <? mult e); injection H as <- <-; rewrite !count_at_cons; cbn [snd ej]; rewrite ?Ee; lia.
Qed.

Lemma count_at_zero t l : (forall id e x, In (id, e) l -> ej e = Some x -> x < t) -> count_at t l = 0.
Proof.
  induction l as [|[i e] r IH]; intros H; [reflexivity|]. rewrite count_at_cons. cbn [snd].
  rewrite IH by (intros; eapply H; [right|]; eauto).
  destruct (ej e) as [x|] eqn:E; [|reflexivity].
  specialize (H i e x (or_introl eq_refl) E). destruct (Z.eqb_spec x t); [lia | reflexivity].
Qed.

Lemma fire_count c sm : ej_before sm ->
  count_at (now sm) (eps (fire c sm)) <=
  room (2 * length (eps sm)) (numej sm) (len (eps sm)) (maxpct c).
Proof.
  intros Hlt. unfold fire. fold (swapped sm). set (l0 := swapped sm). set (t := now sm).
  assert (Hlen : length l0 = length (eps sm)) by (unfold l0, swapped; apply map_length).
  assert (Hn : len l0 = len (eps sm)) by (unfold len; rewrite Hlen; reflexivity).
  rewrite Hn. set (n := len (eps sm)). set (mx := maxpct c).
  assert (H0 : count_at t l0 = 0).
  { apply count_at_zero. intros id e x Hin Hx. unfold l0, swapped in Hin. apply in_map_iff in Hin.
    destruct Hin as [[i e0] [He Hin]]. cbn in He. injection He as <- <-. cbn in Hx. eapply Hlt; eauto. }
  set (r1 := if sr_on c then
      let L := considered (sr_vol c) l0 in
      if len L <? sr_min c then (numej sm, gD sm, l0)
      else pass (sr_crit c L) (sr_enf c) n mx t (numej sm) (gD sm) l0
    else (numej sm, gD sm, l0)).
  assert (H1 : let '(k1, g1, l1) := r1 in
     numej sm <= k1 /\ k1 - numej sm <= room (length l0) (numej sm) n mx /\
     count_at t l1 <= count_at t l0 + (k1 - numej sm) /\ length l1 = length l0).
  { assert (Triv : numej sm <= numej sm /\ numej sm - numej sm <= room (length l0) (numej sm) n mx /\
                   count_at t l0 <= count_at t l0 + (numej sm - numej sm) /\ length l0 = length l0).
    { pose proof (room_nonneg (length l0) (numej sm) n mx). lia. }
    unfold r1. destruct (sr_on c); [|exact Triv]. cbv zeta.
    destruct (len (considered (sr_vol c) l0) <? sr_min c); [exact Triv|].
    destruct (pass _ _ _ _ _ _ _ l0) as [[k1 g1] l1] eqn:E.
    destruct (pass_count _ _ _ _ _ _ _ _ _ _ _ E) as [A [B C]].
    repeat split; auto. symmetry. eapply F2_length. eapply pass_spec; eauto. }
  destruct r1 as [[k1 g1] l1]. destruct H1 as [A1 [B1 [C1 L1]]].
  set (r2 := if fp_on c then
      let L := considered (fp_vol c) l1 in
      if len L <? fp_min c then (k1, g1, l1)
      else pass (fp_crit c) (fp_enf c) n mx t k1 g1 l1
    else (k1, g1, l1)).
  assert (H2 : let '(k2, g2, l2) := r2 in
     k1 <= k2 /\ k2 - k1 <= room (length l1) k1 n mx /\ count_at t l2 <= count_at t l1 + (k2 - k1)).
  { assert (Triv : k1 <= k1 /\ k1 - k1 <= room (length l1) k1 n mx /\ count_at t l1 <= count_at t l1 + (k1 - k1)).
    { pose proof (room_nonneg (length l1) k1 n mx). lia. }
    unfold r2. destruct (fp_on c); [|exact Triv]. cbv zeta.
    destruct (len (considered (fp_vol c) l1) <? fp_min c); [exact Triv|].
    destruct (pass _ _ _ _ _ _ _ l1) as [[k2 g2] l2] eqn:E.
    exact (pass_count _ _ _ _ _ _ _ _ _ _ _ E). }
  destruct r2 as [[k2 g2] l2]. destruct H2 as [A2 [B2 C2]].
  destruct (sweep c t l2) as [u l3] eqn:E3. pose proof (sweep_count _ _ _ _ _ E3) as C3.
  cbn [eps].
  pose proof (room_add n mx (length l0) (numej sm) (k1 - numej sm) (length l1)) as RA.
  replace (numej sm + (k1 - numej sm)) with k1 in RA by lia.
  rewrite L1, Hlen in *.
  replace (2 * length (eps sm))%nat with (length (eps sm) + length (eps sm))%nat by lia.
  lia.
Qed.

(* the observation's count of records with ejection time t is at most the state's *)
Lemma filter_count_le (t : Z) (ns : list Z) : NoDup ns -> forall l,
  Z.of_nat (length (filter (fun id => match find id l with
                                       | Some e => match ej e with Some x => x =? t | None => false end
                                       | None => false end) ns)) <= count_at t l.
Proof.
  intros Hnd. induction l as [|[i e] r IH].
  - cbn. clear Hnd. induction ns; cbn; [lia | exact IHns].
  - rewrite count_at_cons. cbn [snd].
    set (g := fun (l : list (Z * ep)) id => match find id l with
                | Some e => match ej e with Some x => x =? t | None => false end | None => false end).
    fold (g r) in IH. fold (g ((i, e) :: r)).
    assert (G : Z.of_nat (length (filter (g ((i, e) :: r)) ns)) <=
                Z.of_nat (length (filter (g r) ns)) + (if g ((i, e) :: r) i then 1 else 0)).
    { clear IH. induction ns as [|a ns IHn]; [cbn; destruct (g _ i); lia|].
      inversion Hnd; subst. specialize (IHn H2). cbn [filter].
      destruct (Z.eq_dec a i) as [-> | Hne].
      - assert (Same : filter (g ((i, e) :: r)) ns = filter (g r) ns).
        { apply filter_ext_in. intros b Hb. unfold g. cbn [find].
          destruct (Z.eqb_spec i b); [subst; contradiction | reflexivity]. }
        rewrite Same. destruct (g ((i, e) :: r) i); destruct (g r i); cbn [length]; lia.
      - assert (Ea : g ((i, e) :: r) a = g r a).
        { unfold g. cbn [find]. destruct (Z.eqb_spec i a); [congruence | reflexivity]. }
        rewrite Ea. destruct (g r a); cbn [length]; lia. }
    assert (Gi : (if g ((i, e) :: r) i then 1 else 0) =
                 match ej e with Some x => if x =? t then 1 else 0 | None => 0 end).
    { unfold g. cbn [find]. rewrite Z.eqb_refl. destruct (ej e); reflexivity. }
    rewrite Gi in G. destruct (ej e) as [x|]; [destruct (x =? t)|]; lia.
Qed.

Lemma names_NoDup K : NoDup (names K).
Proof.
  unfold names. generalize (seq_NoDup (Z.to_nat K) 0). generalize (seq 0 (Z.to_nat K)).
  induction l as [|a l IH]; cbn; intros H; constructor; inversion H; subst; auto.
  intros Hin. apply in_map_iff in Hin. destruct Hin as [b [Hb Hin]].
  apply Nat2Z.inj in Hb. subst. contradiction.
Qed.

Lemma o_count_now_le K st t : 0 <= K -> 0 <= t ->
  o_count_now K (obs_of K st) t <= count_at t (eps st).
Proof.
  intros HK Ht. unfold o_count_now.
  rewrite (filter_ext_in _ (fun id => match find id (eps st) with
             | Some e => match ej e with Some x => x =? t | None => false end | None => false end)).
  - apply filter_count_le. apply names_NoDup.
  - intros id Hid. apply names_In in Hid. unfold ejected_now.
    rewrite o_present_obs, o_ejat_obs by lia. destruct (find id (eps st)) as [e|]; [|reflexivity].
    cbn. destruct (ej e); [reflexivity|]. apply Z.eqb_neq. lia.
Qed.

Lemma cl11_true K st op : 0 <= K -> TInv st ->
  cl11 K (fired K st op) (obs_of K (step K st op)) = true.
Proof.
  intros HK HT. pose proof (step_tinv K st op HT) as HT'. pose proof (ti_now _ HT') as Hn'.
  unfold cl11. change (nth 1 (obs_of K (step K st op)) 0) with (now (step K st op)).
  destruct (fired K st op) as [[c sm]|] eqn:Ef; [|reflexivity].
  destruct (fired_pre K st op c sm HT Ef) as [Es [Hlt _]].
  apply Z.leb_le. pose proof (o_count_now_le K (step K st op) _ HK Hn') as A.
  rewrite Es in A |- *. rewrite fire_now in A |- *. pose proof (fire_count c sm Hlt). lia.
Qed.

Lemma all_clauses_true K st op i : 0 <= K -> Inv st -> TInv st ->
  let st' := step K st op in
  forallb (fun c => is_finding (fst (fst c)) || snd c)
          (clause_op K st st' (obs_of K st) op (obs_of K st') i) = true.
Proof.
  intros HK HI HT st'.
  pose proof (covered_clauses_true K st op i HK HI) as Hc. fold st' in Hc.
  pose proof (cl1_true K st op HK HT) as H1. pose proof (cl2_true K st op HK HT) as H2.
  pose proof (cl3_true K st op HK HT) as H3. pose proof (cl11_true K st op HK HT) as H11.
  fold st' in H1, H2, H3, H11.
  unfold clause_op in *. rewrite obs_length in * by exact HK.
  replace (3 + 6 * K <? 3 + 6 * K) with false in * by (symmetry; apply Z.ltb_irrefl).
  cbn [forallb fst snd covered] in *. cbn [Z.eqb orb negb] in Hc.
  change (is_finding 1) with false. change (is_finding 2) with false. change (is_finding 3) with false.
  change (is_finding 4) with false. change (is_finding 5) with false. change (is_finding 6) with false.
  change (is_finding 7) with false. change (is_finding 8) with true. change (is_finding 9) with true.
  change (is_finding 10) with true. change (is_finding 11) with false. cbn [orb].
  rewrite H1, H2, H3, H11. cbn [andb].
  repeat (apply andb_true_iff in Hc; destruct Hc as [? Hc]).
  repeat (apply andb_true_iff; split); assumption || reflexivity.
Qed.

Lemma all_from_true K : 0 <= K -> forall ops st i, Inv st -> TInv st ->
  forallb (fun c => is_finding (fst (fst c)) || snd c)
          (clauses_from K st (obs_of K st) i ops (run_from K st ops)) = true.
Proof.
  intros HK. induction ops as [|op r IH]; intros st i HI HT; cbn; [reflexivity|].
  rewrite forallb_app. rewrite all_clauses_true by assumption. cbn.
  apply IH; [apply step_inv | apply step_tinv]; assumption.
Qed.

Lemma model_trace_holds c ops : cfg_wf c = true ->
  exists obs, run c ops = Some obs /\ holds_b c ops obs = true.
Proof.
  unfold cfg_wf, run, holds_b, clauses. destruct (cfg_K c) as [K|] eqn:E; [|discriminate].
  intros _. exists (run_from K init ops). split; [reflexivity|].
  assert (G : forall (f g : Z * Z * bool -> bool) l, forallb f l = true -> forallb f (filter g l) = true).
  { intros f g l. induction l as [|a l IH]; cbn; [auto|]. intros H. apply andb_true_iff in H.
    destruct H as [H1 H2]. destruct (g a); cbn; [rewrite H1; cbn|]; auto. }
  assert (HK : 0 <= K) by (eapply cfg_K_range; eauto).
  rewrite forallb_app. rewrite !G; [reflexivity | |];
    apply all_from_true; auto using Inv_init, TInv_init.
Qed.

(* ---------- the property's sentences for every history ---------- *)

Lemma crit_any_spec c l0 e : crit_any c l0 e = true ->
  let L := considered (sr_vol c) l0 in
  (sr_on c = true /\ sr_min c <= len L /\ sr_vol c <= rv e /\ sr_fail (sr_stdev c) L e = true) \/
  (fp_on c = true /\ fp_vol c <= rv e /\ fp_fail (fp_thr c) e = true).
Proof.
  unfold crit_any. cbv zeta. intros H. apply orb_true_iff in H. destruct H as [H | H].
  - left. apply andb_true_iff in H. destruct H as [H H3]. apply andb_true_iff in H. destruct H as [H1 H2].
    apply negb_true_iff, Z.ltb_ge in H2. destruct (sr_crit_spec _ _ _ H3). auto.
  - right. apply andb_true_iff in H. destruct H as [H1 H2]. destruct (fp_crit_spec _ _ H2). auto.
Qed.

Lemma fired_acct K st op c sm : Inv st -> fired K st op = Some (c, sm) ->
  numej sm = count_ej (eps sm) + gD st.
Proof.
  intros [Ha _] Hf. unfold fired in Hf.
  destruct op as [|k r]; [discriminate|].
  destruct (Z.eq_dec k 1) as [-> | N1].
  { destruct (decode_config K r) as [[c0 ids]|]; [|discriminate].
    destruct (noop c0); [discriminate|]. destruct (tstart st) as [t0|]; [|discriminate].
    destruct (_ =? 0); [|discriminate]. injection Hf as <- <-. cbn [numej eps]. lia. }
  destruct (Z.eq_dec k 3) as [-> | N3].
  { destruct r as [|x r]; [|discriminate].
    destruct (cfg st); [|discriminate]. destruct (deadline st); [|discriminate].
    injection Hf as <- <-. cbn [numej eps set_now]. exact Ha. }
  exfalso. destruct k as [|k|k]; try discriminate.
  destruct k as [k|k|];
    [destruct k as [k|k|]; try discriminate; congruence | destruct k; discriminate | congruence].
Qed.

Lemma hist_no_ejection_outside_interval K ops op id e' x :
  let st := final K init ops in let st' := step K st op in
  fired K st op = None -> find id (eps st') = Some e' -> ej e' = Some x ->
  exists e, find id (eps st) = Some e /\ ej e = Some x.
Proof. intros st st'. apply nofire_ej. Qed.

Lemma hist_eject_only_if K ops op c sm id e' :
  let st := final K init ops in let st' := step K st op in
  fired K st op = Some (c, sm) ->
  find id (eps st') = Some e' -> ej e' = Some (now st') ->
  exists e0, find id (swapped sm) = Some e0 /\
    let L := considered (sr_vol c) (swapped sm) in
    ((sr_on c = true /\ sr_min c <= len L /\ sr_vol c <= rv e0 /\ sr_fail (sr_stdev c) L e0 = true) \/
     (fp_on c = true /\ fp_vol c <= rv e0 /\ fp_fail (fp_thr c) e0 = true)).
Proof.
  intros st st' Hf Hfind Hej. destruct (fired_pre K st op c sm (reach_tinv K ops) Hf) as [Es [Hlt _]].
  unfold st' in *. rewrite Es in *. rewrite fire_now in Hej.
  destruct (fire_ejected c sm id e' Hlt Hfind Hej) as [e0 [H0 [Hc _]]].
  exists e0. split; [exact H0 | apply crit_any_spec; exact Hc].
Qed.

Lemma hist_no_ejection_at_or_above_max K ops op c sm id e' :
  let st := final K init ops in let st' := step K st op in
  fired K st op = Some (c, sm) ->
  find id (eps st') = Some e' -> ej e' = Some (now st') ->
  share_ge (numej sm) (len (eps sm)) (maxpct c) = false /\
  numej sm = count_ej (eps sm) + gD st.
Proof.
  intros st st' Hf Hfind Hej. destruct (fired_pre K st op c sm (reach_tinv K ops) Hf) as [Es [Hlt _]].
  split; [|eapply fired_acct; eauto using reach_inv].
  unfold st' in *. rewrite Es in *. rewrite fire_now in Hej.
  destruct (fire_ejected c sm id e' Hlt Hfind Hej) as [e0 [_ [_ Hs]]]. exact Hs.
Qed.

Lemma hist_uneject_time K ops op c sm id e t0 :
  let st := final K init ops in let st' := step K st op in
  fired K st op = Some (c, sm) ->
  find id (eps sm) = Some e -> ej e = Some t0 ->
  exists e', find id (eps st') = Some e' /\
    match ej e' with
    | None => t0 + eject_span c (mult e') < now st'
    | Some x => x = now st' \/
                (x = t0 /\ mult e' = mult e /\ now st' <= t0 + eject_span c (mult e))
    end.
Proof.
  intros st st' Hf Hfind Hej. destruct (fired_pre K st op c sm (reach_tinv K ops) Hf) as [Es [Hlt _]].
  unfold st'. rewrite Es, fire_now. apply fire_uneject; assumption.
Qed.

Lemma room_spec n mx : forall f k i, 0 <= i < room f k n mx -> share_ge (k + i) n mx = false.
Proof.
  induction f as [|f IH]; intros k i H; cbn [room] in H; [lia|].
  destruct (share_ge k n mx) eqn:E; [lia|].
  destruct (Z.eq_dec i 0) as [-> | Hi]; [rewrite Z.add_0_r; exact E|].
  replace (k + i) with (k + 1 + (i - 1)) by lia. apply IH. lia.
Qed.

Lemma hist_ejections_within_cap K ops op c sm :
  let st := final K init ops in let st' := step K st op in
  fired K st op = Some (c, sm) ->
  count_at (now st') (eps st') <=
  room (2 * length (eps sm)) (numej sm) (len (eps sm)) (maxpct c).
Proof.
  intros st st' Hf. destruct (fired_pre K st op c sm (reach_tinv K ops) Hf) as [Es [Hlt _]].
  unfold st'. rewrite Es, fire_now. apply fire_count. exact Hlt.
Qed.
