(* Proofs for C27 (model/Compress.v). *)
From Coq Require Import List ZArith Bool Lia.
From VLib Require Import Codec Machine.
From VModel Require Import Compress.
Import ListNotations.
Open Scope Z_scope.

Definition rule (enc len : Z) : Z := if negb (plain enc) && negb (len =? 0) then 1 else 0.

Lemma plain_false : forall n, plain n = false <-> n <> 0 /\ n <> 1.
Proof. intro n. unfold plain. rewrite orb_false_iff, !Z.eqb_neq. tauto. Qed.

Lemma plain_true : forall n, plain n = true <-> n = 0 \/ n = 1.
Proof. intro n. unfold plain. rewrite orb_true_iff, !Z.eqb_eq. tauto. Qed.

(* ---------- the compressed flag ---------- *)

(* requests: the flag is 1 exactly for non-empty messages under a non-identity grpc-encoding
   (no legacy Compressor pretends to be "identity") *)
Theorem flag_request : forall reg r rc l, client_send reg r = Some rc -> wc r <> 1 ->
  flag_of (client_codec r) l = rule rc l.
Proof.
  intros reg r rc l H Hw. unfold client_send, client_codec, flag_of, rule in *.
  destruct (use r =? 0) eqn:E0; cbn [negb] in *.
  - inversion H; subst rc. unfold plain.
    destruct (wc r =? 0) eqn:W0; cbn [negb andb orb]; [reflexivity|].
    replace (wc r =? 1) with false by lia. reflexivity.
  - destruct ((use r =? 1) || reg (use r)) eqn:E1; [|discriminate]. inversion H; subst rc.
    unfold plain. rewrite E0. cbn [orb]. destruct (use r =? 1) eqn:U1; cbn [negb andb]; [reflexivity|].
    rewrite E0. reflexivity.
Qed.

(* the compressor the client compresses with is the one it announces *)
Theorem client_codec_named : forall reg r rc, client_send reg r = Some rc -> wc r <> 1 ->
  client_codec r <> 0 -> client_codec r = rc /\ plain rc = false.
Proof.
  intros reg r rc H Hw Hc. unfold client_send, client_codec in *.
  destruct (use r =? 0) eqn:E0; cbn [negb] in *.
  - inversion H; subst. split; [reflexivity|]. apply plain_false. lia.
  - destruct ((use r =? 1) || reg (use r)); [|discriminate]. inversion H; subst.
    destruct (use r =? 1) eqn:U1; [lia|]. split; [reflexivity|]. apply plain_false. lia.
Qed.

Lemma set_valid_pre : forall reg r n,
  set_valid reg r n = true -> n = 1 \/ (reg n = true /\ adv reg r n = true).
Proof. intros reg r n. unfold set_valid. rewrite orb_true_iff, andb_true_iff, Z.eqb_eq. tauto. Qed.

(* the four outcomes of the server's choice of send compressor *)
Lemma server_send_cases : forall reg r rc v0 v1 ct, server_send reg r rc = (v0, v1, ct) ->
  (v0 = scp r /\ v1 = 0 /\ ct = scp r /\ scp r <> 0) \/
  (v0 = 0 /\ v1 = (if reg (setn r) then setn r else 0) /\ ct = setn r /\
   set_valid reg r (setn r) = true /\ setn r <> 0) \/
  (v0 = 0 /\ v1 = rc /\ ct = rc /\ plain rc = false /\ reg rc = true /\ scp r = 0) \/
  (v0 = 0 /\ v1 = 0 /\ ct = 0 /\ scp r = 0).
Proof.
  intros reg r rc v0 v1 ct H. unfold server_send, server_default in H.
  destruct (scp r =? 0) eqn:S0; cbn [negb] in H.
  - assert (S: scp r = 0) by lia.
    destruct (negb (plain rc) && reg rc) eqn:Erc.
    + apply andb_true_iff in Erc. destruct Erc as [Ep Er]. apply negb_true_iff in Ep.
      destruct (negb (setn r =? 0) && set_valid reg r (setn r)) eqn:V.
      * apply andb_true_iff in V. destruct V as [V0 V1]. apply negb_true_iff in V0.
        destruct (setn r =? rc) eqn:En; inversion H; subst.
        -- right; right; left. repeat split; auto.
        -- right; left. repeat split; auto; lia.
      * inversion H; subst. right; right; left. repeat split; auto.
    + destruct (negb (setn r =? 0) && set_valid reg r (setn r)) eqn:V.
      * apply andb_true_iff in V. destruct V as [V0 V1]. apply negb_true_iff in V0.
        destruct (setn r =? 0) eqn:En; [discriminate|]. inversion H; subst.
        right; left. repeat split; auto; lia.
      * inversion H; subst. right; right; right. repeat split; auto.
  - assert (S: scp r <> 0) by lia.
    destruct (negb (setn r =? 0) && set_valid reg r (setn r)) eqn:V.
    + apply andb_true_iff in V. destruct V as [V0 V1]. apply negb_true_iff in V0.
      destruct (setn r =? scp r) eqn:En; inversion H; subst.
      * left. repeat split; auto; lia.
      * right; left. repeat split; auto; lia.
    + inversion H; subst. left. repeat split; auto.
Qed.

Lemma flag_rule_nz : forall c n m, c <> 0 -> plain n = false -> flag_of c m = rule n m.
Proof. intros c n m Hc Hp. unfold flag_of, rule. rewrite Hp. replace (c =? 0) with false by lia. reflexivity. Qed.

Lemma flag_rule_z : forall n m, plain n = true -> flag_of 0 m = rule n m.
Proof. intros n m Hp. unfold flag_of, rule. rewrite Hp. reflexivity. Qed.

(* responses: the same, for every registry in which "" and "identity" are not compressors,
   every server default (legacy RPCCompressor included) and every SetSendCompressor *)
Theorem flag_response : forall reg r rc v0 v1 ct m, reg 0 = false -> reg 1 = false ->
  scp r <> 1 -> server_send reg r rc = (v0, v1, ct) ->
  flag_of (pick v0 v1) m = rule ct m.
Proof.
  intros reg r rc v0 v1 ct m R0 R1 Hs H.
  destruct (server_send_cases _ _ _ _ _ _ H) as [[A1 [A2 [A3 A4]]]|[[B1 [B2 [B3 [B4 B5]]]]|[[C1 [C2 [C3 [C4 [C5 C6]]]]]|[D1 [D2 [D3 D4]]]]]]; subst.
  - unfold pick. cbn [Z.eqb negb]. apply flag_rule_nz; [assumption|]. apply plain_false. lia.
  - apply set_valid_pre in B4. unfold pick. destruct (reg (setn r)) eqn:Rs.
    + assert (setn r <> 0 /\ setn r <> 1) by (split; intro Q; rewrite Q in Rs; congruence).
      replace (setn r =? 0) with false by lia. cbn [negb]. apply flag_rule_nz; [lia|]. apply plain_false. lia.
    + cbn [Z.eqb negb]. destruct B4 as [B4|[B4 _]]; [|congruence]. rewrite B4 in *.
      apply flag_rule_z. reflexivity.
  - apply plain_false in C4. unfold pick. replace (rc =? 0) with false by lia. cbn [negb].
    apply flag_rule_nz; [lia|]. apply plain_false. lia.
  - apply flag_rule_z. reflexivity.
Qed.

(* the compressor the server compresses with is the one named in the response header *)
Theorem server_codec_named : forall reg r rc v0 v1 ct, reg 0 = false -> reg 1 = false ->
  scp r <> 1 -> server_send reg r rc = (v0, v1, ct) -> pick v0 v1 <> 0 ->
  pick v0 v1 = ct /\ plain ct = false.
Proof.
  intros reg r rc v0 v1 ct R0 R1 Hs H Hp.
  pose proof (flag_response reg r rc v0 v1 ct 1 R0 R1 Hs H) as F. unfold flag_of, rule in F.
  replace (pick v0 v1 =? 0) with false in F by lia. cbn [negb andb Z.eqb] in F.
  destruct (plain ct) eqn:P; [cbn in F; discriminate|]. split; [|reflexivity].
  destruct (server_send_cases _ _ _ _ _ _ H) as [[A1 [A2 [A3 A4]]]|[[B1 [B2 [B3 [B4 B5]]]]|[[C1 [C2 [C3 [C4 [C5 C6]]]]]|[D1 [D2 [D3 D4]]]]]]; subst.
  - unfold pick. reflexivity.
  - unfold pick in *. destruct (reg (setn r)); cbn [Z.eqb negb] in *; [|congruence].
    destruct (setn r =? 0) eqn:E; cbn [negb] in *; [lia|reflexivity].
  - unfold pick in *. destruct (rc =? 0) eqn:E; cbn [negb] in *; [lia|reflexivity].
  - unfold pick in Hp. cbn in Hp. congruence.
Qed.

(* outside the class of clause 10 a PreparedMsg is compressed like any other message *)
Lemma server_codec_send : forall reg r rc, f10 reg r rc = false ->
  server_codec reg r rc = (let '(v0, v1, _) := server_send reg r rc in pick v0 v1).
Proof.
  intros reg r rc F. unfold server_codec. destruct (prep_s r) eqn:P; [|reflexivity].
  unfold f10 in F. rewrite P in F. cbn [andb] in F. unfold server_send.
  destruct (server_default reg r rc) as [[a b] n] eqn:D. cbn [snd] in F.
  destruct (negb (setn r =? 0) && set_valid reg r (setn r)) eqn:V; [|reflexivity].
  try rewrite V in F. cbn [andb] in F. apply negb_false_iff in F. rewrite F. reflexivity.
Qed.

(* PreparedMsg on the server after SetSendCompressor: REFUTED.  Encode still uses the
   compressors of stream creation: (a) the client used gzip, the handler selects identity ->
   header identity, body gzip, flag 1, client INTERNAL; (b) uncompressed request, handler
   selects gzip -> header gzip, 5-byte message sent with flag 0; (c) client used gzip,
   handler selects x-va -> header x-va, body gzip-compressed: the client cannot decode it *)
Theorem prepared_after_set_refuted :
  run_rpc reg0 (mkRpc 2 0 0 None 0 0 1 [(5, 5)] 2) = [cInternal; 1; 1; 2; 1; 1; 0; 1; 1; 1; 1] /\
  run_rpc reg0 (mkRpc 0 0 0 None 0 0 2 [(5, 5)] 2) = [0; 1; 1; 0; 2; 1; 1; 1; 0; 1; 0] /\
  run_rpc reg0 (mkRpc 2 0 0 None 0 0 3 [(5, 5)] 2) = [cInternal; 1; 1; 2; 3; 1; 0; 1; 1; 1; 1] /\
  server_codec reg0 (mkRpc 2 0 0 None 0 0 3 [(5, 5)] 2) 2 = 2 /\
  server_send reg0 (mkRpc 2 0 0 None 0 0 3 [(5, 5)] 2) 2 = (0, 3, 3).
Proof. vm_compute. repeat split. Qed.

(* the literal "flag iff non-identity encoding" is false for empty messages ... *)
Theorem flag_empty_refuted : exists r rc l,
  client_send reg0 r = Some rc /\ plain rc = false /\ l = 0 /\ flag_of (client_codec r) l = 0.
Proof. exists (mkRpc 2 0 0 None 0 0 0 [(0, 7)] 0), 2, 0. vm_compute. auto. Qed.

(* legacy RPCCompressor + SetSendCompressor("identity") (the repaired defect): the header says
   identity, the legacy compressor is dropped and no message is flagged; the old witness
   now completes with status OK *)
Theorem flag_legacy_identity_fixed : forall reg r rc m, reg 1 = false ->
  scp r <> 0 -> scp r <> 1 -> setn r = 1 ->
  server_send reg r rc = (0, 0, 1) /\ flag_of (pick 0 0) m = 0.
Proof.
  intros reg r rc m R1 H0 H1 Hs. split; [|reflexivity].
  unfold server_send, server_default, set_valid. rewrite Hs, R1.
  replace (scp r =? 0) with false by lia. cbn [negb andb orb]. change (1 =? 0) with false.
  change (1 =? 1) with true. cbn [negb andb orb].
  replace (1 =? scp r) with false by lia. reflexivity.
Qed.

Theorem legacy_identity_witness :
  run_rpc reg0 (mkRpc 0 0 0 None 3 0 1 [(5, 5)] 0) = [0; 1; 1; 0; 1; 1; 1; 1; 0; 1; 0].
Proof. vm_compute. reflexivity. Qed.

(* ---------- the server's choice ---------- *)

Theorem set_valid_spec : forall reg r n,
  set_valid reg r n = true <-> n = 1 \/ (reg n = true /\ adv reg r n = true).
Proof. intros. unfold set_valid. rewrite orb_true_iff, andb_true_iff, Z.eqb_eq. tauto. Qed.

(* without the legacy RPCCompressor the response encoding is absent/identity, advertised by
   the client, or the client's own encoding *)
Theorem server_choice : forall reg r rc v0 v1 ct, server_send reg r rc = (v0, v1, ct) ->
  scp r = 0 \/ ct <> scp r ->
  plain ct = true \/ adv reg r ct = true \/ ct = rc.
Proof.
  intros reg r rc v0 v1 ct H Hs.
  destruct (server_send_cases _ _ _ _ _ _ H) as [[A1 [A2 [A3 A4]]]|[[B1 [B2 [B3 [B4 B5]]]]|[[C1 [C2 [C3 [C4 [C5 C6]]]]]|[D1 [D2 [D3 D4]]]]]]; subst.
  - destruct Hs; congruence.
  - apply set_valid_pre in B4. destruct B4 as [B4|[_ B4]]; [left; apply plain_true; auto|auto].
  - auto.
  - left. reflexivity.
Qed.

(* with RPCCompressor the sentence is false: the client advertised gzip only and used no
   compression, the server answers with x-va *)
Theorem server_choice_legacy_refuted : exists r rc v0 v1 ct,
  client_send reg0 r = Some rc /\ server_send reg0 r rc = (v0, v1, ct) /\
  plain ct = false /\ adv reg0 r ct = false /\ ct <> rc.
Proof.
  exists (mkRpc 0 0 0 (Some (mask_has 1)) 3 0 0 [(5, 5)] 0), 0, 3, 0, 3. vm_compute.
  repeat split; congruence.
Qed.

(* default: the server answers with the client's encoding if it is registered *)
Theorem default_echo : forall reg r rc, scp r = 0 -> setn r = 0 ->
  server_send reg r rc =
  if negb (plain rc) && reg rc then (0, rc, rc) else (0, 0, 0).
Proof.
  intros reg r rc H1 H2. unfold server_send, server_default. rewrite H1, H2. cbn [Z.eqb negb andb].
  destruct (negb (plain rc) && reg rc); reflexivity.
Qed.

(* ---------- unsupported encodings ---------- *)

Theorem unsupported_server : forall reg r rc, client_send reg r = Some rc ->
  plain rc = false -> reg rc = false -> sdc r <> rc ->
  run_rpc reg r = obs_of cUnimplemented 0 0 rc 0 0 0 [] [].
Proof.
  intros reg r rc H Hp Hr Hd. unfold run_rpc. rewrite H. unfold server_accepts.
  rewrite Hp, Hr. replace (sdc r =? rc) with false by lia. rewrite andb_false_r. reflexivity.
Qed.

Theorem unsupported_use_compressor : forall reg r, use r <> 0 -> use r <> 1 -> reg (use r) = false ->
  run_rpc reg r = obs_of cInternal 0 0 0 0 0 0 [] [].
Proof.
  intros reg r H0 H1 Hr. unfold run_rpc, client_send.
  replace (use r =? 0) with false by lia. replace (use r =? 1) with false by lia. rewrite Hr. reflexivity.
Qed.

(* the client decodes with the compressor named by grpc-encoding or with nothing *)
Theorem client_decoder_named : forall reg r ct d, client_decoder reg r ct = Some d ->
  d = 0 \/ (d = ct /\ plain ct = false /\ (reg ct = true \/ wd r = ct)).
Proof.
  intros reg r ct d H. unfold client_decoder in H. destruct (plain ct) eqn:P; [inversion H; auto|].
  assert (G: (if negb (wd r =? 0) && (wd r =? ct) then ct else if reg ct then ct else 0) = d ->
             d = 0 \/ d = ct /\ false = false /\ (reg ct = true \/ wd r = ct)).
  { destruct (negb (wd r =? 0) && (wd r =? ct)) eqn:W.
    - apply andb_true_iff in W. intro; subst. right. repeat split; auto. right. lia.
    - destruct (reg ct) eqn:R; intro; subst; auto. }
  destruct (acc r) as [f|]; [destruct (f ct); [|discriminate]|]; inversion H; subst; apply G; reflexivity.
Qed.

(* a message is handed to the application only if it is not compressed or was compressed
   with exactly the decoder's (= the announced) compressor *)
Theorem client_takes_spec : forall ct d by_, client_takes ct d by_ = true ->
  by_ = 0 \/ (plain ct = false /\ d <> 0 /\ d = by_).
Proof.
  intros ct d b H. unfold client_takes in H. apply orb_true_iff in H. destruct H as [H|H]; [left; lia|].
  right. rewrite !andb_true_iff, !negb_true_iff in H. destruct H as [[H1 H2] H3]. repeat split; auto; lia.
Qed.

(* ---------- the ping-pong rounds ---------- *)

Definition row_ok (c : Z * Z * bool) : bool := is_finding_clause c || snd c.

Lemma play_codes : forall cc sc ct d rs code dq dr qs fs,
  play cc sc ct d rs = (code, dq, dr, qs, fs) ->
  let n := Z.of_nat (length rs) in
  let nq := Z.of_nat (length qs) in
  let nr := Z.of_nat (length fs) in
  0 <= dr /\ dr <= dq /\ dq = nq /\ nr = nq /\ nq <= n /\
  ((code = 0 /\ dr = n) \/ (code = cInternal /\ dr = nr - 1 /\ dr < n)).
Proof.
  intros cc sc ct d. induction rs as [|[l m] rs IH]; intros code dq dr qs fs H.
  - inversion H; subst. cbn. lia.
  - cbn [play] in H.
    destruct (client_takes ct d (if flag_of sc m =? 1 then sc else 0)).
    + destruct (play cc sc ct d rs) as [[[[c1 q1] r1] qs1] fs1] eqn:P. inversion H; subst.
      specialize (IH _ _ _ _ _ eq_refl). cbn [length] in *. cbv zeta in *. lia.
    + inversion H; subst. cbn [length]. cbv zeta. lia.
Qed.

(* a flagged response under an encoding the client cannot decode ends the RPC with INTERNAL
   and is not delivered *)
Lemma play_undecodable : forall cc sc ct d rs code dq dr qs fs,
  play cc sc ct d rs = (code, dq, dr, qs, fs) ->
  (plain ct = true \/ d = 0) -> existsb (fun f => f =? 1) fs = true ->
  code = cInternal /\ dr < Z.of_nat (length fs).
Proof.
  intros cc sc ct d. induction rs as [|[l m] rs IH]; intros code dq dr qs fs H U E.
  - inversion H; subst. cbn in E. discriminate.
  - pose proof (play_codes _ _ _ _ _ _ _ _ _ _ H) as PC. cbv zeta in PC.
    cbn [play] in H.
    destruct (client_takes ct d (if flag_of sc m =? 1 then sc else 0)) eqn:T.
    + destruct (play cc sc ct d rs) as [[[[c1 q1] r1] qs1] fs1] eqn:P. inversion H; subst.
      cbn [existsb] in E. apply orb_true_iff in E. destruct E as [E|E].
      * exfalso. rewrite E in T. apply client_takes_spec in T.
        unfold flag_of in E. destruct (negb (sc =? 0) && negb (m =? 0)) eqn:F; [|discriminate].
        apply andb_true_iff in F. destruct F as [F _]. apply negb_true_iff in F.
        destruct T as [T|[T1 [T2 T3]]]; [lia|]. destruct U; congruence.
      * destruct (IH _ _ _ _ _ eq_refl U E) as [I1 I2]. subst. cbn [length]. split; [reflexivity|lia].
    + inversion H; subst. cbn [length]. split; [reflexivity|lia].
Qed.

(* the exchange fails only on a flagged response that the client cannot decode *)
Lemma play_fail_reason : forall cc sc ct d,
  (sc <> 0 -> d <> 0 -> plain ct = false -> d = sc) ->
  forall rs code dq dr qs fs, play cc sc ct d rs = (code, dq, dr, qs, fs) -> code <> 0 ->
  existsb (fun f => f =? 1) fs = true /\ (plain ct = true \/ d = 0).
Proof.
  intros cc sc ct d Hn. induction rs as [|[l m] rs IH]; intros code dq dr qs fs H Hc.
  - inversion H; subst. congruence.
  - cbn [play] in H.
    destruct (client_takes ct d (if flag_of sc m =? 1 then sc else 0)) eqn:T.
    + destruct (play cc sc ct d rs) as [[[[c1 q1] r1] qs1] fs1] eqn:P. inversion H; subst.
      destruct (IH _ _ _ _ _ eq_refl Hc) as [I1 I2]. split; [|exact I2].
      cbn [existsb]. rewrite I1. apply orb_true_r.
    + inversion H; subst. unfold client_takes in T.
      destruct (flag_of sc m =? 1) eqn:F; [|cbn in T; discriminate].
      split; [cbn [existsb]; rewrite F; reflexivity|].
      unfold flag_of in F. destruct (negb (sc =? 0) && negb (m =? 0)) eqn:G; [|discriminate].
      apply andb_true_iff in G. destruct G as [G _]. apply negb_true_iff in G.
      replace (sc =? 0) with false in T by lia. cbn [orb] in T.
      destruct (plain ct) eqn:Pc; [auto|]. right. cbn [negb andb] in T.
      destruct (d =? 0) eqn:D0; [lia|]. cbn [negb andb] in T.
      assert (d = sc) by (apply Hn; lia). lia.
Qed.

Lemma flag_rows_10 : forall enc lens flags i, forallb row_ok (flag_rows 10 enc lens flags i) = true.
Proof.
  intros enc. induction lens as [|l ls IH]; intros flags i; [reflexivity|].
  destruct flags as [|f fs]; [reflexivity|]. cbn [flag_rows forallb]. rewrite forallb_app, IH.
  destruct (negb (plain enc) && (l =? 0)); reflexivity.
Qed.

Lemma play_qrows : forall cc sc ct d enc cl, (forall l, flag_of cc l = rule enc l) ->
  forall rs i code dq dr qs fs, play cc sc ct d rs = (code, dq, dr, qs, fs) ->
  forallb row_ok (flag_rows cl enc (map fst rs) qs i) = true.
Proof.
  intros cc sc ct d enc cl Hf. induction rs as [|[l m] rs IH]; intros i code dq dr qs fs H.
  - inversion H; subst. reflexivity.
  - cbn [play] in H. cbn [map fst].
    assert (Hrow: forall rest, forallb row_ok rest = true ->
      forallb row_ok ((cl, i, flag_of cc l =? (if negb (plain enc) && negb (l =? 0) then 1 else 0))
        :: (if negb (plain enc) && (l =? 0) then [(7, i, flag_of cc l =? 1)] else []) ++ rest) = true).
    { intros rest Hr. cbn [forallb]. unfold row_ok at 1. cbn [snd]. rewrite Hf. unfold rule.
      rewrite Z.eqb_refl, orb_true_r. cbn [andb]. rewrite forallb_app, Hr, andb_true_r.
      destruct (negb (plain enc) && (l =? 0)); reflexivity. }
    destruct (client_takes ct d (if flag_of sc m =? 1 then sc else 0)).
    + destruct (play cc sc ct d rs) as [[[[c1 q1] r1] qs1] fs1] eqn:P. inversion H; subst.
      cbn [flag_rows]. apply Hrow. eapply IH. reflexivity.
    + inversion H; subst. cbn [flag_rows]. apply Hrow. destruct (map fst rs); reflexivity.
Qed.

Lemma play_fs_zero : forall cc sc ct d, (forall m, flag_of sc m = 0) ->
  forall rs code dq dr qs fs, play cc sc ct d rs = (code, dq, dr, qs, fs) ->
  forallb (fun f => f =? 0) fs = true.
Proof.
  intros cc sc ct d Hz. induction rs as [|[l m] rs IH]; intros code dq dr qs fs H.
  - inversion H; subst. reflexivity.
  - cbn [play] in H. destruct (client_takes ct d (if flag_of sc m =? 1 then sc else 0)).
    + destruct (play cc sc ct d rs) as [[[[c1 q1] r1] qs1] fs1] eqn:P. inversion H; subst.
      cbn [forallb]. rewrite Hz. cbn. eapply IH. reflexivity.
    + inversion H; subst. cbn [forallb]. rewrite Hz. reflexivity.
Qed.

Lemma play_rrows : forall cc sc ct d enc cl, (forall l, flag_of sc l = rule enc l) ->
  forall rs i code dq dr qs fs, play cc sc ct d rs = (code, dq, dr, qs, fs) ->
  forallb row_ok (flag_rows cl enc (map snd rs) fs i) = true.
Proof.
  intros cc sc ct d enc cl Hf. induction rs as [|[l m] rs IH]; intros i code dq dr qs fs H.
  - inversion H; subst. reflexivity.
  - cbn [play] in H. cbn [map snd].
    assert (Hrow: forall rest, forallb row_ok rest = true ->
      forallb row_ok ((cl, i, flag_of sc m =? (if negb (plain enc) && negb (m =? 0) then 1 else 0))
        :: (if negb (plain enc) && (m =? 0) then [(7, i, flag_of sc m =? 1)] else []) ++ rest) = true).
    { intros rest Hr. cbn [forallb]. unfold row_ok at 1. cbn [snd]. rewrite Hf. unfold rule.
      rewrite Z.eqb_refl, orb_true_r. cbn [andb]. rewrite forallb_app, Hr, andb_true_r.
      destruct (negb (plain enc) && (m =? 0)); reflexivity. }
    destruct (client_takes ct d (if flag_of sc m =? 1 then sc else 0)).
    + destruct (play cc sc ct d rs) as [[[[c1 q1] r1] qs1] fs1] eqn:P. inversion H; subst.
      cbn [flag_rows]. apply Hrow. eapply IH. reflexivity.
    + inversion H; subst. cbn [flag_rows]. apply Hrow. destruct (map snd rs); reflexivity.
Qed.

(* ---------- the predicate evaluated on implementation traces holds on model traces ---- *)

Lemma take_n_app : forall (a t : list Z), take_n (length a) (a ++ t) = Some (a, t).
Proof. induction a as [|x a IH]; intro t; cbn; [reflexivity|]. rewrite IH. reflexivity. Qed.

Lemma get_put : forall (a t : list Z), get_bytes (put_bytes a ++ t) = Some (a, t).
Proof.
  intros a t. unfold put_bytes. cbn [app get_bytes].
  destruct (Z.ltb_spec (Z.of_nat (length a)) 0) as [L|L]; [lia|]. rewrite Nat2Z.id. apply take_n_app.
Qed.

Lemma get_put_nil : forall (a : list Z), get_bytes (put_bytes a) = Some (a, []).
Proof. intro a. rewrite <- (app_nil_r (put_bytes a)). apply get_put. Qed.

Definition rpc_wf (r : rpc) : Prop := wc r <> 1 /\ scp r <> 1 /\ rounds r <> [].

Lemma reg0_01 : reg0 0 = false /\ reg0 1 = false.
Proof. split; reflexivity. Qed.

Lemma accepts_row6 : forall reg r rc, server_accepts reg r rc = true ->
  negb (plain rc) && negb (reg rc) && negb (sdc r =? rc) = false.
Proof.
  intros reg r rc H. unfold server_accepts in H.
  destruct (plain rc); [reflexivity|]. destruct (reg rc); [reflexivity|].
  rewrite !orb_false_r in H. apply andb_true_iff in H. destruct H as [_ H]. rewrite H. reflexivity.
Qed.

Lemma decoder_zero : forall reg r ct d, client_decoder reg r ct = Some d ->
  plain ct || (negb (reg ct) && negb (wd r =? ct)) = true -> plain ct = true \/ d = 0.
Proof.
  intros reg r ct d H U. destruct (plain ct) eqn:P; [auto|]. right. cbn [orb] in U.
  apply andb_true_iff in U. destruct U as [U1 U2]. apply negb_true_iff in U1, U2.
  unfold client_decoder in H. rewrite P in H. rewrite U1, U2, andb_false_r in H.
  destruct (acc r) as [f|]; [destruct (f ct); [|discriminate]|]; inversion H; reflexivity.
Qed.

Lemma flag_rows_nil : forall cl enc lens i, flag_rows cl enc lens [] i = [].
Proof. intros. destruct lens; reflexivity. Qed.

Lemma clause_rpc_obs : forall reg r code reached setres reqEnc respEnc dq dr qs fs,
  clause_rpc reg r (obs_of code reached setres reqEnc respEnc dq dr qs fs) =
  clause_rows reg r code reached setres reqEnc respEnc dq dr qs fs.
Proof. intros. unfold obs_of, clause_rpc. cbn [app]. rewrite get_put, get_put_nil. reflexivity. Qed.

Lemma rows_resp_nil : forall reg r q e, rows_resp reg r q e [] = [].
Proof.
  intros. unfold rows_resp. destruct (f10 reg r q); [apply flag_rows_nil|].
  destruct (_ && _ && _); [reflexivity|apply flag_rows_nil].
Qed.

Definition reason (reg : Z -> bool) (r : rpc) (reqEnc respEnc : Z) (fs : list Z) : bool :=
  match client_send reg r with None => true | Some _ => false end ||
  negb (server_accepts reg r reqEnc) ||
  match client_decoder reg r respEnc with
  | None => true
  | Some d => existsb (fun f => f =? 1) fs && (plain respEnc || (d =? 0))
  end.

Lemma rows_done_ok : forall reg r code reqEnc respEnc dr fs,
  reason reg r reqEnc respEnc fs = true \/ (code = 0 /\ dr = Z.of_nat (length (rounds r))) ->
  forallb row_ok (rows_done reg r code reqEnc respEnc dr fs) = true.
Proof.
  intros reg r code reqEnc respEnc dr fs H. unfold rows_done. fold (reason reg r reqEnc respEnc fs).
  cbn [forallb]. rewrite andb_true_r. unfold row_ok. cbn [snd].
  destruct H as [H|[H1 H2]].
  - rewrite H. cbn [orb]. apply orb_true_r.
  - subst. rewrite !Z.eqb_refl. cbn [andb]. rewrite !orb_true_r. reflexivity.
Qed.

Lemma rows_set_ok : forall r reached,
  forallb row_ok (rows_set reg0 r reached
    (if reached =? 1 then (if setn r =? 0 then 0 else if set_valid reg0 r (setn r) then 1 else 2) else 0)) = true.
Proof.
  intros r reached. unfold rows_set. destruct (reached =? 1); cbn [andb]; [|reflexivity].
  destruct (setn r =? 0); cbn [negb]; [reflexivity|]. destruct (set_valid reg0 r (setn r)); reflexivity.
Qed.

Lemma rows_count_ok : forall r code dq dr nq nr, 0 <= dr -> dr <= dq -> dq <= nq -> dr <= nr -> nr <= nq ->
  nq <= Z.of_nat (length (rounds r)) -> (code = 0 \/ dr < Z.of_nat (length (rounds r))) ->
  forallb row_ok (rows_count r code dq dr nq nr) = true.
Proof.
  intros. unfold rows_count. cbn [forallb]. unfold row_ok. cbn [snd].
  replace (0 <=? dr) with true by lia. replace (dr <=? dq) with true by lia.
  replace (dq <=? nq) with true by lia. replace (dr <=? nr) with true by lia.
  replace (nr <=? nq) with true by lia. replace (nq <=? Z.of_nat (length (rounds r))) with true by lia.
  cbn [andb]. replace ((code =? 0) || (dr <? Z.of_nat (length (rounds r)))) with true.
  - rewrite orb_true_r. reflexivity.
  - symmetry. apply orb_true_iff. destruct H5; [left|right]; lia.
Qed.

Lemma row_ok_true : forall cl i, row_ok (cl, i, true) = true.
Proof. intros. unfold row_ok. cbn [snd]. apply orb_true_r. Qed.

Lemma early_holds : forall r code reqEnc, rounds r <> [] -> code <> 0 ->
  (negb (plain reqEnc) && negb (reg0 reqEnc) && negb (sdc r =? reqEnc) = true ->
   code = cUnimplemented) ->
  (client_send reg0 r = None \/ server_accepts reg0 r reqEnc = false) ->
  forallb row_ok (clause_rpc reg0 r (obs_of code 0 0 reqEnc 0 0 0 [] [])) = true.
Proof.
  intros r code reqEnc Hrs Hc H6 Hreason.
  assert (Hlen: 1 <= Z.of_nat (length (rounds r))) by (destruct (rounds r); [congruence|cbn [length]; lia]).
  rewrite clause_rpc_obs. unfold clause_rows. rewrite !forallb_app.
  unfold rows_req. rewrite flag_rows_nil, rows_resp_nil.
  pose proof (rows_set_ok r 0) as RS. change (0 =? 1) with false in RS. cbv iota in RS. rewrite RS.
  rewrite rows_count_ok by (cbn [length]; lia).
  rewrite rows_done_ok.
  2:{ left. unfold reason. destruct Hreason as [Q|Q]; rewrite Q; [reflexivity|]. cbn [negb]. rewrite orb_true_r. reflexivity. }
  unfold rows_choice, rows_unsupp. cbn [forallb existsb andb].
  change (plain 0) with true. cbn [orb]. rewrite row_ok_true.
  destruct (negb (plain reqEnc) && negb (reg0 reqEnc) && negb (sdc r =? reqEnc)) eqn:E.
  - rewrite (H6 eq_refl). reflexivity.
  - reflexivity.
Qed.

Theorem rpc_holds : forall r, rpc_wf r ->
  forallb row_ok (clause_rpc reg0 r (run_rpc reg0 r)) = true.
Proof.
  intros r [Hwc [Hscp Hrs]]. unfold run_rpc.
  assert (Hlen: 1 <= Z.of_nat (length (rounds r))) by (destruct (rounds r); [congruence|cbn [length]; lia]).
  destruct (client_send reg0 r) as [rc|] eqn:CS.
  2:{ apply early_holds; [assumption|unfold cInternal; lia| |left; assumption]. intro Q. cbn in Q. discriminate. }
  destruct (server_accepts reg0 r rc) eqn:SA; cbn [negb].
  2:{ apply early_holds; [assumption|unfold cUnimplemented; lia| |right; assumption]. intro Q. reflexivity. }
  destruct (server_send reg0 r rc) as [[v0 v1] ct] eqn:SS.
  pose proof (rows_set_ok r 1) as R4. change (1 =? 1) with true in R4. cbv iota in R4.
  remember (if setn r =? 0 then 0 else if set_valid reg0 r (setn r) then 1 else 2) as setres eqn:Hset.
  assert (R3: forallb row_ok (rows_choice reg0 r rc ct) = true).
  { unfold rows_choice. cbn [forallb]. rewrite andb_true_r.
    destruct (negb (scp r =? 0) && (ct =? scp r)) eqn:F9; [reflexivity|].
    assert (Hs: scp r = 0 \/ ct <> scp r).
    { apply andb_false_iff in F9. destruct F9 as [F|F]; [left; apply negb_false_iff in F; lia|right; lia]. }
    destruct (server_choice _ _ _ _ _ _ SS Hs) as [G|[G|G]].
    - rewrite G. apply row_ok_true.
    - rewrite G. rewrite orb_true_r. apply row_ok_true.
    - subst ct. rewrite Z.eqb_refl. rewrite orb_true_r. apply row_ok_true. }
  pose proof (accepts_row6 _ _ _ SA) as A6.
  assert (Hq: forall l0, flag_of (client_codec r) l0 = rule rc l0) by (intro l0; exact (flag_request _ _ _ l0 CS Hwc)).
  destruct (rounds r) as [|[l m] rs] eqn:RS; [congruence|]. rewrite <- RS in *.
  destruct (client_decoder reg0 r ct) as [d|] eqn:CD.
  2:{ rewrite clause_rpc_obs. unfold clause_rows. rewrite !forallb_app.
      rewrite rows_resp_nil, R3, R4. rewrite rows_count_ok by (cbn [length]; unfold cInternal; lia).
      rewrite rows_done_ok.
      2:{ left. unfold reason. rewrite CD. rewrite !orb_true_r. reflexivity. }
      unfold rows_unsupp. rewrite A6. cbn [existsb andb forallb]. rewrite row_ok_true.
      unfold rows_req. rewrite RS. cbn [map fst flag_rows]. rewrite flag_rows_nil, app_nil_r.
      rewrite Hq. unfold rule at 1. rewrite Z.eqb_refl. cbn [forallb]. rewrite row_ok_true.
      destruct (negb (plain rc) && (l =? 0)); reflexivity. }
  set (sc := server_codec reg0 r rc) in *.
  destruct (play (client_codec r) sc ct d (rounds r)) as [[[[code dq] dr] qs] fs] eqn:PL.
  rewrite clause_rpc_obs. unfold clause_rows. rewrite !forallb_app. rewrite R3, R4.
  pose proof (play_codes _ _ _ _ _ _ _ _ _ _ PL) as PC. cbv zeta in PC.
  destruct PC as [P1 [P2 [P3 [P4 [P5 P6]]]]].
  unfold rows_req. rewrite (play_qrows _ _ _ _ rc 1 Hq _ _ _ _ _ _ _ PL).
  rewrite rows_count_ok by (destruct P6; lia).
  destruct reg0_01 as [Q0 Q1].
  (* outside the class of clause 10 the server's codec is the announced one *)
  assert (Hsc: f10 reg0 r rc = false -> sc = pick v0 v1).
  { intro F. unfold sc. rewrite (server_codec_send _ _ _ F). rewrite SS. reflexivity. }
  assert (Hresp: forallb row_ok (rows_resp reg0 r rc ct fs) = true).
  { unfold rows_resp. destruct (f10 reg0 r rc) eqn:F10; [apply flag_rows_10|].
    assert (Hrule: forall l0, flag_of sc l0 = rule ct l0).
    { intro l0. rewrite (Hsc eq_refl). exact (flag_response reg0 r rc v0 v1 ct l0 Q0 Q1 Hscp SS). }
    destruct (negb (scp r =? 0) && (setn r =? 1) && plain ct) eqn:F8.
    - apply andb_true_iff in F8. destruct F8 as [_ Pc].
      assert (Hz: forall m0, flag_of sc m0 = 0).
      { intro m0. rewrite Hrule. unfold rule. rewrite Pc. reflexivity. }
      pose proof (play_fs_zero _ _ _ _ Hz _ _ _ _ _ _ PL) as Z0. clear - Z0.
      induction fs as [|f fs IH]; [reflexivity|]. cbn [forallb map] in *.
      apply andb_true_iff in Z0. destruct Z0 as [Z1 Z2]. rewrite Z1, (IH Z2).
      unfold row_ok. cbn [snd]. rewrite orb_true_r. reflexivity.
    - apply (play_rrows _ _ _ _ ct 2) with (rs := rounds r) (i := 0) in PL; [exact PL|exact Hrule]. }
  rewrite Hresp.
  assert (Hdone: forallb row_ok (rows_done reg0 r code rc ct dr fs) = true).
  { destruct (f10 reg0 r rc) eqn:F10.
    - unfold rows_done. rewrite F10. reflexivity.
    - apply rows_done_ok. destruct P6 as [[P6 P7]|[P6 [P7 P8]]]; [right; auto|left].
      unfold reason. rewrite CS, SA, CD. cbn [negb orb].
      assert (Hn: sc <> 0 -> d <> 0 -> plain ct = false -> d = sc).
      { intros S1 S2 S3. rewrite (Hsc eq_refl) in *.
        destruct (server_codec_named reg0 r rc v0 v1 ct Q0 Q1 Hscp SS S1) as [N1 _].
        destruct (client_decoder_named _ _ _ _ CD) as [N2|[N2 _]]; congruence. }
      assert (Hc: code <> 0) by (subst code; unfold cInternal; lia).
      destruct (play_fail_reason _ _ _ _ Hn _ _ _ _ _ _ PL Hc) as [E1 E2].
      rewrite E1. cbn [andb]. destruct E2 as [E2|E2]; [rewrite E2; reflexivity|].
      subst d. rewrite orb_true_r. reflexivity. }
  rewrite Hdone. unfold rows_unsupp. rewrite A6. cbn [andb forallb].
  assert (R6: (if existsb (fun f => f =? 1) fs &&
                  (plain ct || (negb (reg0 ct) && negb (wd r =? ct)))
               then (code =? cInternal) && (dr <? Z.of_nat (length fs)) else true) = true).
  { destruct (existsb (fun f => f =? 1) fs) eqn:EX; [|reflexivity]. cbn [andb].
    destruct (plain ct || (negb (reg0 ct) && negb (wd r =? ct))) eqn:U; [|reflexivity].
    destruct (play_undecodable _ _ _ _ _ _ _ _ _ _ PL (decoder_zero _ _ _ _ CD U) EX) as [G1 G2].
    subst code. rewrite Z.eqb_refl. cbn [andb]. lia. }
  rewrite R6. rewrite row_ok_true. reflexivity.
Qed.

Lemma parse_body_wf : forall md w r, parse_body md w = Some r -> rpc_wf r.
Proof.
  intros md w r H. unfold parse_body in H.
  destruct w as [|u [|c [|d [|am [|sc [|sd [|sn [|n rest]]]]]]]]; try discriminate.
  destruct (pairs rest) as [ps|]; [|discriminate].
  destruct ((Z.of_nat (length ps) =? n) && (1 <=? n) && (0 <=? am) && (am <=? 7) &&
            negb (c =? 1) && negb (sc =? 1)) eqn:E; [|discriminate].
  inversion H; subst; clear H. rewrite !andb_true_iff, !negb_true_iff in E.
  destruct E as [[[[[E1 E2] E3] E4] E5] E6]. unfold rpc_wf. cbn [wc scp rounds].
  apply Z.eqb_eq in E1. apply Z.leb_le in E2. apply Z.eqb_neq in E5, E6.
  repeat split; try lia. intro Q. subst ps. cbn [length] in E1. lia.
Qed.

Lemma parse_op_wf : forall w r, parse_op w = Some r -> rpc_wf r.
Proof.
  intros w r H. unfold parse_op in H.
  destruct w as [|t w]; [discriminate|].
  destruct (Z.eq_dec t 1) as [T1|T1]; [subst t; eapply parse_body_wf; eauto|].
  destruct (Z.eq_dec t 2) as [T2|T2].
  - subst t. destruct w as [|md b]; [discriminate|].
    destruct ((0 <=? md) && (md <=? 4)); [|discriminate].
    destruct (parse_body md b) as [r'|] eqn:P; [|discriminate].
    destruct ((md =? 4) && negb (Z.of_nat (length (rounds r')) =? 1)); [discriminate|].
    inversion H; subst. eapply parse_body_wf; eauto.
  - exfalso. destruct t as [|p|p]; try discriminate.
    destruct p as [p|p|]; try discriminate; try lia.
    destruct p as [p|p|]; try discriminate; try lia.
Qed.

Theorem model_trace_holds : forall ops, forallb op_wf ops = true ->
  exists obs, run ops = Some obs /\ holds_b ops obs = true.
Proof.
  induction ops as [|w k IH]; intro H.
  - exists []. split; reflexivity.
  - cbn [forallb] in H. apply andb_true_iff in H. destruct H as [Hw Hk].
    destruct (IH Hk) as [os [R1 R2]]. unfold op_wf in Hw.
    destruct (parse_op w) as [r|] eqn:P; [|discriminate].
    exists (run_rpc reg0 r :: os). split.
    + cbn [run]. rewrite P, R1. reflexivity.
    + unfold holds_b in *. cbn [clauses]. rewrite P. rewrite forallb_app. fold row_ok in *.
      rewrite (rpc_holds r (parse_op_wf _ _ P)). exact R2.
Qed.

(* the two finding clauses are false on the model's own trace of their witnesses; the
   repaired clause 8 is evaluated on its old witness and holds *)
Theorem finding_clauses_fail_on_model :
  let ops := [[1; 2; 0; 0; 0; 0; 0; 0; 1; 0; 7]; [1; 0; 0; 0; 0; 3; 0; 1; 1; 5; 5];
              [1; 0; 0; 0; 1; 3; 0; 0; 1; 5; 5]] in
  forallb op_wf ops = true /\
  exists obs, run ops = Some obs /\
    filter (fun c => negb (snd c)) (clauses ops obs) = [(7, 0, false); (9, 0, false)] /\
    existsb (fun c => (fst (fst c) =? 8) && snd c) (clauses ops obs) = true.
Proof. cbv zeta. split; [vm_compute; reflexivity|]. eexists. split; [vm_compute; reflexivity|]. split; vm_compute; reflexivity. Qed.

(* clause 10 is false on the model's own traces of the three PreparedMsg witnesses *)
Theorem finding_clause10_fails_on_model :
  let ops := [[2; 2; 2; 0; 0; 0; 0; 0; 1; 1; 5; 5]; [2; 2; 0; 0; 0; 0; 0; 0; 2; 1; 5; 5];
              [2; 2; 2; 0; 0; 0; 0; 0; 3; 1; 5; 5]] in
  forallb op_wf ops = true /\
  exists obs, run ops = Some obs /\
    filter (fun c => negb (snd c)) (clauses ops obs) = [(10, 0, false); (10, 0, false); (10, 0, false)].
Proof. cbv zeta. split; [vm_compute; reflexivity|]. eexists. split; vm_compute; reflexivity. Qed.
