From Coq Require Import List ZArith Bool Lia.
From VLib Require Import Codec Machine.
From VModel Require PctEnc Timeout.
From VModel Require Import StatusWire.
From VProof Require PctEnc_proofs Timeout_proofs.
Import ListNotations.
Open Scope Z_scope.

(* ---------- grpc-status: Itoa then ParseInt(_, 10, 32) ---------- *)

Lemma parse_format n : 0 <= n < 2 ^ 32 ->
  Timeout.parse_uint (Timeout.format_int n) = Some n.
Proof.
  intros Hn. unfold Timeout.format_int.
  assert (H20: 0 <= n < 10 ^ Z.of_nat 20) by (change (10 ^ Z.of_nat 20) with 100000000000000000000; change (2 ^ 32) with 4294967296 in Hn; lia).
  destruct (Timeout_proofs.fmt_dec_spec 20 n 0 ltac:(lia) H20) as (Hp & _ & Hlen & _).
  unfold Timeout.parse_uint. destruct (Timeout.fmt_dec 20 n) eqn:E; [cbn in Hlen; lia|].
  rewrite Hp. f_equal. all: lia.
Qed.

Lemma parse_int32_small n : 0 <= n <= max_i32 -> parse_int32 (Timeout.format_int n) = Some n.
Proof.
  intro H. unfold parse_int32. rewrite parse_format by (unfold max_i32 in H; lia).
  destruct (Z.leb_spec n max_i32); [reflexivity|lia].
Qed.

Lemma parse_int32_big n : max_i32 < n < 2 ^ 32 -> parse_int32 (Timeout.format_int n) = None.
Proof.
  intro H. unfold parse_int32. rewrite parse_format by (unfold max_i32 in H; lia).
  destruct (Z.leb_spec n max_i32); [lia|reflexivity].
Qed.

Lemma u32_small n : 0 <= n < 2 ^ 32 -> u32 n = n.
Proof. intro H. unfold u32. apply Z.mod_small, H. Qed.

Lemma i32_small n : 0 <= n <= max_i32 -> i32 n = n.
Proof. unfold i32, max_i32. intro H. rewrite Z.mod_small; lia. Qed.

(* ---------- the status as observed ---------- *)

Definition code_ok (s : hstatus) : Prop := 0 <= h_code s <= max_i32.
Definition msg_bytes (s : hstatus) : Prop := forallb PctEnc.is_byte (h_msg s) = true.

Lemma wire_ok_code s : h_code s = 0 -> wire s = mkres true 0 [] [].
Proof.
  intro E. unfold wire, handler_status. rewrite E. reflexivity.
Qed.

Lemma handler_nonzero s : h_code s <> 0 -> handler_status s = s.
Proof.
  intro N. unfold handler_status. destruct (Z.eqb_spec (h_code s) 0); [contradiction|reflexivity].
Qed.

Lemma max_i32_lt : max_i32 < 2 ^ 32. Proof. reflexivity. Qed.

Lemma wire_nil s : 0 <= h_code s < 2 ^ 32 -> r_nil (wire s) = (h_code s =? 0).
Proof.
  intro H. destruct (Z.eqb_spec (h_code s) 0) as [E|N]; [rewrite (wire_ok_code s E); reflexivity|].
  unfold wire. rewrite (handler_nonzero s N). unfold read_status, write_status. cbn [t_status t_message t_details].
  destruct (Z.leb_spec (h_code s) max_i32) as [Hs|Hb].
  - rewrite parse_int32_small by lia. rewrite u32_small by lia.
    assert (Hz: (h_code s =? 0) = false) by (apply Z.eqb_neq, N).
    destruct (h_details s); [cbn [r_nil of_status]; exact Hz|].
    destruct (marshalable s); [|cbn [r_nil of_status]; exact Hz].
    cbn [p_code p_msg p_details]. rewrite Z.eqb_refl. cbn [of_status r_nil].
    rewrite i32_small, u32_small by lia. exact Hz.
  - rewrite parse_int32_big by lia. reflexivity.
Qed.

Lemma wire_code s : code_ok s -> r_code (wire s) = h_code s.
Proof.
  unfold code_ok. intro H. pose proof max_i32_lt.
  destruct (Z.eq_dec (h_code s) 0) as [E|N]; [rewrite (wire_ok_code s E); cbn; lia|].
  unfold wire. rewrite (handler_nonzero s N). unfold read_status, write_status. cbn [t_status t_message t_details].
  rewrite parse_int32_small by lia. rewrite u32_small by lia.
  destruct (h_details s); [reflexivity|]. destruct (marshalable s); [|reflexivity].
  cbn [p_code p_msg p_details]. rewrite Z.eqb_refl. cbn [of_status r_code].
  rewrite i32_small, u32_small by lia. reflexivity.
Qed.

Lemma wire_msg s : code_ok s -> msg_bytes s -> h_code s <> 0 -> r_msg (wire s) = PctEnc.sanitize (h_msg s).
Proof.
  unfold code_ok, msg_bytes. intros H Hb N. pose proof max_i32_lt.
  unfold wire. rewrite (handler_nonzero s N). unfold read_status, write_status. cbn [t_status t_message t_details].
  rewrite parse_int32_small by lia. rewrite u32_small by lia.
  destruct (h_details s) eqn:Ed.
  - cbn [of_status r_msg]. apply PctEnc_proofs.roundtrip_any, Hb.
  - destruct (marshalable s) eqn:Em.
    + cbn [p_code p_msg p_details]. rewrite Z.eqb_refl. cbn [of_status r_msg].
      unfold marshalable in Em. apply andb_true_iff in Em as [Ev _].
      symmetry. apply PctEnc_proofs.sanitize_valid_id; assumption.
    + cbn [of_status r_msg]. apply PctEnc_proofs.roundtrip_any, Hb.
Qed.

Lemma wire_details s : code_ok s -> h_code s <> 0 -> (h_details s = [] \/ marshalable s = true) ->
  r_details (wire s) = h_details s.
Proof.
  unfold code_ok. intros H N Hd. pose proof max_i32_lt.
  unfold wire. rewrite (handler_nonzero s N). unfold read_status, write_status. cbn [t_status t_message t_details].
  rewrite parse_int32_small by lia. rewrite u32_small by lia.
  destruct (h_details s) eqn:Ed; [reflexivity|].
  destruct Hd as [Hd|Hd]; [discriminate|]. rewrite Hd.
  cbn [p_code p_msg p_details]. rewrite Z.eqb_refl. reflexivity.
Qed.

Theorem wire_expected s : code_ok s -> msg_bytes s ->
  (h_code s = 0 \/ h_details s = [] \/ marshalable s = true) -> wire s = expected s.
Proof.
  intros Hc Hb Hd. unfold expected.
  destruct (Z.eqb_spec (h_code s) 0) as [E|N]; [apply wire_ok_code, E|].
  assert (Hd': h_details s = [] \/ marshalable s = true) by tauto.
  pose proof (wire_nil s ltac:(unfold code_ok in Hc; pose proof max_i32_lt; lia)) as H1.
  pose proof (wire_code s Hc) as H2. pose proof (wire_msg s Hc Hb N) as H3.
  pose proof (wire_details s Hc N Hd') as H4.
  destruct (wire s) as [n c m d]. cbn [r_nil r_code r_msg r_details] in *. subst.
  f_equal. apply Z.eqb_neq, N.
Qed.

(* ---------- the two deviations ---------- *)

Lemma code_above_int32_refuted :
  wire (mkst (2 ^ 31) [98] []) =
    mkres false 2 (msg_malformed_pre ++ [50;49;52;55;52;56;51;54;52;56] ++ msg_malformed_post) [] /\
  expected (mkst (2 ^ 31) [98] []) = mkres false (2 ^ 31) [98] [].
Proof. vm_compute. split; reflexivity. Qed.

Lemma details_dropped_refuted :
  wire (mkst 5 [255] [([116], [118])]) = mkres false 5 [239; 191; 189] [] /\
  expected (mkst 5 [255] [([116], [118])]) = mkres false 5 [239; 191; 189] [([116], [118])].
Proof. vm_compute. split; reflexivity. Qed.

(* ---------- the executable predicate holds on every model trace ---------- *)

Definition st_wf (s : hstatus) : bool :=
  (h_code s <=? max_i32) && forallb PctEnc.is_byte (h_msg s) &&
  ((h_code s =? 0) || match h_details s with [] => true | _ => marshalable s end).
Definition op_wf (w : word) : bool :=
  match decode_op w with
  | Some s => st_wf s
  | None => match decode_stress w with Some (g, n, code) => code <=? max_i32 | None => false end
  end.

Lemma stress_bad_zero g n code : 1 <= code <= max_i32 -> stress_bad g n code = 0.
Proof.
  intro H. unfold stress_bad.
  rewrite (wire_expected (mkst code stress_msg [])).
  - assert (E: forall w, word_eqb w w = true).
    { induction w as [|x w IH]; cbn [word_eqb]; [reflexivity|]. rewrite Z.eqb_refl, IH. reflexivity. }
    rewrite E. reflexivity.
  - unfold code_ok. cbn [h_code]. lia.
  - reflexivity.
  - right. left. reflexivity.
Qed.

Lemma decode_stress_code w g n code : decode_stress w = Some (g, n, code) -> 1 <= code.
Proof.
  unfold decode_stress. destruct w as [|k [|g0 [|n0 [|c0 [|? ?]]]]]; try discriminate;
    try (destruct k as [|p|p]; try discriminate; destruct p as [p|p|]; try discriminate; destruct p; discriminate).
  destruct k as [|p|p]; try discriminate. destruct p as [p|p|]; try discriminate. destruct p; try discriminate.
  destruct ((g0 <? 0) || (n0 <? 0) || (c0 <? 1) || (c0 >? max_u32)) eqn:E; [discriminate|].
  apply orb_false_iff in E as [E _]. apply orb_false_iff in E as [_ E]. apply Z.ltb_ge in E.
  intro H. inversion H; subst. exact E.
Qed.

Lemma decode_op_code w s : decode_op w = Some s -> 0 <= h_code s.
Proof.
  unfold decode_op. destruct w as [|k [|mode [|code r]]]; try discriminate;
    destruct k as [|p|p]; try discriminate; destruct p as [p|p|]; try discriminate.
  destruct ((mode <? 0) || (mode >? 4) || (code <? 0) || (code >? max_u32)) eqn:E; [discriminate|].
  apply orb_false_iff in E as [E _]. apply orb_false_iff in E as [_ E]. apply Z.ltb_ge in E.
  destruct (get_bytes r) as [[msg [|n r']]|]; try discriminate.
  destruct (n <? 0); [discriminate|].
  destruct (get_details (Z.to_nat n) r') as [[ds [|? ?]]|]; try discriminate.
  intro H. inversion H; subst. exact E.
Qed.

Lemma word_eqb_refl w : word_eqb w w = true.
Proof. induction w as [|x w IH]; cbn [word_eqb]; [reflexivity|]. rewrite Z.eqb_refl, IH. reflexivity. Qed.

Lemma clause_op_model i w : op_wf w = true ->
  exists ob, run_op w = Some ob /\ forallb (fun c => snd c) (clause_op i w ob) = true.
Proof.
  unfold op_wf, run_op, clause_op. destruct (decode_op w) as [s|] eqn:D.
  2:{ destruct (decode_stress w) as [[[g n] code]|] eqn:DS; [|discriminate].
      intro H. apply Z.leb_le in H. pose proof (decode_stress_code w g n code DS).
      eexists; split; [reflexivity|]. rewrite stress_bad_zero by lia.
      destruct (Z.gtb_spec code max_i32); [lia|]. reflexivity. }
  intro H. unfold st_wf in H. apply andb_true_iff in H as [H Hd]. apply andb_true_iff in H as [Hc Hb].
  apply Z.leb_le in Hc. pose proof (decode_op_code w s D) as H0.
  assert (Hok: code_ok s) by (unfold code_ok; lia).
  assert (Hd': h_code s = 0 \/ h_details s = [] \/ marshalable s = true).
  { apply orb_true_iff in Hd as [Hd|Hd]; [left; apply Z.eqb_eq, Hd|].
    destruct (h_details s); [right; left; reflexivity | right; right; exact Hd]. }
  eexists; split; [reflexivity|].
  rewrite (wire_expected s Hok Hb Hd').
  destruct (Z.gtb_spec (h_code s) max_i32) as [G|_]; [lia|].
  assert (E98: (negb (h_code s =? 0) && match h_details s with [] => false | _ => negb (marshalable s) end) = false).
  { destruct Hd' as [E|[E|E]].
    - rewrite E. reflexivity.
    - rewrite E. apply andb_false_r.
    - rewrite E. destruct (h_details s); cbn; apply andb_false_r. }
  rewrite E98. cbn [forallb snd]. rewrite word_eqb_refl.
  unfold expected, obs_of. destruct (h_code s =? 0); cbn; reflexivity.
Qed.

Lemma model_trace_from ops : forall i, forallb op_wf ops = true ->
  exists obs, run ops = Some obs /\ forallb (fun c => snd c) (clauses_from i ops obs) = true.
Proof.
  induction ops as [|w ops IH]; intros i H; cbn [forallb run] in *.
  - exists []. split; reflexivity.
  - apply andb_true_iff in H as [Hw Hr].
    destruct (clause_op_model i w Hw) as (ob & Ho & Hc).
    destruct (IH (i + 1) Hr) as (obs & Hrun & Hcs).
    rewrite Ho, Hrun. exists (ob :: obs). split; [reflexivity|].
    cbn [clauses_from]. rewrite forallb_app, Hc, Hcs. reflexivity.
Qed.

Theorem model_trace_holds ops : forallb op_wf ops = true ->
  exists obs, run ops = Some obs /\ holds_b ops obs = true.
Proof. intro H. apply (model_trace_from ops 0 H). Qed.
