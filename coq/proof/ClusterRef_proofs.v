(* Proofs for the ClusterRef engine (C51). *)
From Coq Require Import List ZArith Bool Lia Arith.
From VLib Require Import Codec Machine.
From VModel Require Import ClusterRef.
Import ListNotations.
Open Scope Z_scope.

(* ------------------------------------------------------------------ basics *)
Lemma memb_In : forall x l, memb x l = true <-> In x l.
Proof.
  intros x l. unfold memb. rewrite existsb_exists. split.
  - intros [y [Hy He]]. apply Nat.eqb_eq in He. subst. exact Hy.
  - intro H. exists x. split; [exact H | apply Nat.eqb_refl].
Qed.

Lemma mapi_from_length : forall (A : Type) (f : nat -> A -> A) l i, length (mapi_from i f l) = length l.
Proof. induction l as [|x l IH]; intro i; cbn; [reflexivity | rewrite IH; reflexivity]. Qed.

Lemma mapi_length : forall (A : Type) (f : nat -> A -> A) l, length (mapi f l) = length l.
Proof. intros. apply mapi_from_length. Qed.

Lemma mapi_from_nth : forall (A : Type) (f : nat -> A -> A) (d : A) l i n, (n < length l)%nat ->
  nth n (mapi_from i f l) d = f (i + n)%nat (nth n l d).
Proof.
  induction l as [|x l IH]; intros i n Hn; cbn in Hn; [lia|].
  destruct n as [|n]; cbn [mapi_from nth].
  - rewrite Nat.add_0_r. reflexivity.
  - rewrite IH by lia. f_equal. lia.
Qed.

Lemma mapi_get : forall f h id, (id < length h)%nat -> get (mapi f h) id = f id (get h id).
Proof. intros f h id H. unfold get, mapi. rewrite mapi_from_nth by exact H. reflexivity. Qed.

Lemma get_app_l : forall h e id, (id < length h)%nat -> get (h ++ e) id = get h id.
Proof. intros. unfold get. apply app_nth1. assumption. Qed.

Lemma get_app_new : forall h c, get (h ++ [c]) (length h) = c.
Proof. intros. unfold get. rewrite app_nth2 by lia. rewrite Nat.sub_diag. reflexivity. Qed.

(* pointwise views of acquire / release / prune *)
Lemma acquire_length : forall set h, length (acquire set h) = length h.
Proof. intros. apply mapi_length. Qed.
Lemma release_length : forall set h, length (release set h) = length h.
Proof. intros. apply mapi_length. Qed.

Lemma acquire_ref : forall set h id, (id < length h)%nat ->
  ci_ref (get (acquire set h) id) = ci_ref (get h id) + b2z (memb id set).
Proof.
  intros set h id H. unfold acquire. rewrite mapi_get by exact H.
  destruct (memb id set); cbn [ci_ref b2z]; lia.
Qed.
Lemma acquire_key : forall set h id, (id < length h)%nat ->
  ci_key (get (acquire set h) id) = ci_key (get h id).
Proof.
  intros set h id H. unfold acquire. rewrite mapi_get by exact H. destruct (memb id set); reflexivity.
Qed.
Lemma release_ref : forall set h id, (id < length h)%nat ->
  ci_ref (get (release set h) id) = ci_ref (get h id) - b2z (memb id set).
Proof.
  intros set h id H. unfold release. rewrite mapi_get by exact H.
  destruct (memb id set); cbn [ci_ref b2z]; lia.
Qed.
Lemma release_key : forall set h id, (id < length h)%nat ->
  ci_key (get (release set h) id) = ci_key (get h id).
Proof.
  intros set h id H. unfold release. rewrite mapi_get by exact H. destruct (memb id set); reflexivity.
Qed.

Lemma prune_length : forall h a, length (fst (prune h a)) = length h.
Proof. intros. unfold prune. cbn [fst]. apply mapi_length. Qed.
Lemma prune_ref : forall h a id, (id < length h)%nat ->
  ci_ref (get (fst (prune h a)) id) = ci_ref (get h id).
Proof.
  intros h a id H. unfold prune. cbn [fst]. rewrite mapi_get by exact H.
  destruct (memb id a && (ci_ref (get h id) =? 0) && negb (is_plugin (ci_key (get h id)))); reflexivity.
Qed.
Lemma prune_key : forall h a id, (id < length h)%nat ->
  ci_key (get (fst (prune h a)) id) = ci_key (get h id).
Proof.
  intros h a id H. unfold prune. cbn [fst]. rewrite mapi_get by exact H.
  destruct (memb id a && (ci_ref (get h id) =? 0) && negb (is_plugin (ci_key (get h id)))); reflexivity.
Qed.
Lemma prune_active : forall h a id,
  In id (snd (prune h a)) <-> In id a /\ ci_ref (get h id) <> 0.
Proof.
  intros h a id. unfold prune. cbn [snd]. rewrite filter_In, negb_true_iff, Z.eqb_neq. tauto.
Qed.

(* sorting by key is a permutation as far as membership and length go *)
Lemma ins_id_In : forall h x l y, In y (ins_id h x l) <-> y = x \/ In y l.
Proof.
  induction l as [|z l IH]; intro y; cbn [ins_id].
  - cbn. intuition.
  - destruct (ci_key (get h x) <=? ci_key (get h z)); cbn [In]; [intuition|]. rewrite IH. intuition.
Qed.
Lemma sort_ids_In : forall h l y, In y (sort_ids h l) <-> In y l.
Proof.
  induction l as [|x l IH]; intro y; cbn [sort_ids]; [tauto|].
  rewrite ins_id_In, IH. cbn. intuition.
Qed.
Lemma ins_id_length : forall h x l, length (ins_id h x l) = S (length l).
Proof.
  induction l as [|z l IH]; cbn [ins_id]; [reflexivity|].
  destruct (ci_key (get h x) <=? ci_key (get h z)); cbn [length]; [reflexivity | rewrite IH; reflexivity].
Qed.
Lemma sort_ids_length : forall h l, length (sort_ids h l) = length l.
Proof. induction l as [|x l IH]; cbn [sort_ids]; [reflexivity | rewrite ins_id_length, IH; reflexivity]. Qed.

(* live RPCs *)
Lemma live_from_In : forall l i j r, In (j, r) (live_from i l) ->
  (i <= j)%nat /\ nth_error l (j - i) = Some r /\ rp_done r = false.
Proof.
  induction l as [|x l IH]; intros i j r H; cbn [live_from] in H; [destruct H|].
  destruct (rp_done x) eqn:Hd.
  - destruct (IH _ _ _ H) as [Hle [Hn Hf]]. split; [lia|]. split; [|exact Hf].
    replace (j - i)%nat with (S (j - S i)) by lia. exact Hn.
  - destruct H as [H | H].
    + inversion H; subst. split; [lia|]. rewrite Nat.sub_diag. split; [reflexivity | exact Hd].
    + destruct (IH _ _ _ H) as [Hle [Hn Hf]]. split; [lia|]. split; [|exact Hf].
      replace (j - i)%nat with (S (j - S i)) by lia. exact Hn.
Qed.
Lemma live_In : forall l j r, In (j, r) (live l) -> In r l /\ rp_done r = false.
Proof.
  intros l j r H. destruct (live_from_In _ _ _ _ H) as [_ [Hn Hf]].
  split; [exact (nth_error_In _ _ Hn) | exact Hf].
Qed.

(* words: pairs / triples of a flat list *)
Lemma pairs_flat : forall (A : Type) (f g : A -> Z) l,
  pairs (flat_map (fun x => [f x; g x]) l) = map (fun x => (f x, g x)) l.
Proof. induction l as [|x l IH]; cbn; [reflexivity | rewrite IH; reflexivity]. Qed.
Lemma triples_flat : forall (A : Type) (f g k : A -> Z) l,
  triples (flat_map (fun x => [f x; g x; k x]) l) = map (fun x => (f x, g x, k x)) l.
Proof. induction l as [|x l IH]; cbn; [reflexivity | rewrite IH; reflexivity]. Qed.
Lemma flat2_length : forall (A : Type) (f g : A -> Z) l,
  length (flat_map (fun x => [f x; g x]) l) = (2 * length l)%nat.
Proof. induction l as [|x l IH]; cbn [flat_map length app]; [reflexivity | rewrite IH; lia]. Qed.
Lemma flat3_length : forall (A : Type) (f g k : A -> Z) l,
  length (flat_map (fun x => [f x; g x; k x]) l) = (3 * length l)%nat.
Proof. induction l as [|x l IH]; cbn [flat_map length app]; [reflexivity | rewrite IH; lia]. Qed.
Lemma firstn_exact : forall (A : Type) (a b : list A) n, n = length a -> firstn n (a ++ b) = a.
Proof. intros A a b n H. subst. rewrite firstn_app, Nat.sub_diag, firstn_all. cbn. apply app_nil_r. Qed.
Lemma skipn_exact : forall (A : Type) (a b : list A) n, n = length a -> skipn n (a ++ b) = b.
Proof. intros A a b n H. subst. rewrite skipn_app, Nat.sub_diag, skipn_all. reflexivity. Qed.

(* ------------------------------------------------------------------ observed words *)
Definition good (c : Z * Z * bool) : bool := snd c.

Definition WInv (h : list ci) (a : list nat) (rs : list rpc) : Prop :=
  (forall id, In id a -> (id < length h)%nat) /\
  (forall id, (id < length h)%nat -> 0 <= ci_ref (get h id)) /\
  (forall r, In r rs -> rp_done r = false ->
     In (rp_ci r) a /\ 1 <= ci_ref (get h (rp_ci r)) /\ rp_key r = ci_key (get h (rp_ci r))).

Lemma WInv_prune : forall h a rs, WInv h a rs ->
  WInv (fst (prune h a)) (snd (prune h a)) rs /\
  (forall id, In id (snd (prune h a)) -> 1 <= ci_ref (get (fst (prune h a)) id)).
Proof.
  intros h a rs [Ha [Hr Hl]]. split; [split; [|split]|].
  - intros id Hin. apply prune_active in Hin. rewrite prune_length. apply Ha. tauto.
  - intros id Hid. rewrite prune_length in Hid. rewrite prune_ref by exact Hid. apply Hr. exact Hid.
  - intros r Hin Hd. destruct (Hl r Hin Hd) as [H1 [H2 H3]]. specialize (Ha _ H1).
    rewrite prune_ref, prune_key by exact Ha. split; [|split; assumption].
    apply prune_active. split; [exact H1 | lia].
  - intros id Hin. apply prune_active in Hin. destruct Hin as [Hin Hne]. specialize (Ha _ Hin).
    rewrite prune_ref by exact Ha. specialize (Hr _ Ha). lia.
Qed.

Lemma emit_normal_ok : forall i h a rs, WInv h a rs ->
  (forall id, In id a -> 1 <= ci_ref (get h id)) ->
  forallb good (clause_word i (emit true h a rs)) = true.
Proof.
  intros i h a rs [Ha [Hr Hl]] Hpos. unfold emit.
  set (X := flat_map (fun id => [ci_key (get h id); ci_ref (get h id)]) (sort_ids h a)).
  set (L := flat_map (fun p : nat * rpc => [Z.of_nat (fst p); rp_key (snd p)]) (live rs)).
  assert (HX : (2 * Z.to_nat (Z.of_nat (length a)))%nat = length X).
  { subst X. rewrite flat2_length, sort_ids_length, Nat2Z.id. reflexivity. }
  change (clause_word i (1 :: 1 :: Z.of_nat (length a) :: X ++ L)) with
    [(2, i, forallb (fun l => existsb (fun p => (fst p =? snd l) && (1 <=? snd p))
                                 (pairs (firstn (2 * Z.to_nat (Z.of_nat (length a))) (X ++ L))))
                    (pairs (skipn (2 * Z.to_nat (Z.of_nat (length a))) (X ++ L))));
     (4, i, forallb (fun p => 1 <=? snd p) (pairs (firstn (2 * Z.to_nat (Z.of_nat (length a))) (X ++ L))))].
  rewrite (firstn_exact _ X L _ HX), (skipn_exact _ X L _ HX). subst X L. rewrite !pairs_flat.
  cbn [forallb good fst snd]. rewrite !andb_true_r.
  apply andb_true_iff. split.
  - apply forallb_forall. intros l Hin. apply in_map_iff in Hin. destruct Hin as [[j r] [Hl' Hin]]. subst l.
    cbn [fst snd]. destruct (live_In _ _ _ Hin) as [Hr' Hd]. destruct (Hl r Hr' Hd) as [H1 [H2 H3]].
    apply existsb_exists. exists (ci_key (get h (rp_ci r)), ci_ref (get h (rp_ci r))). split.
    + apply in_map_iff. exists (rp_ci r). split; [reflexivity | apply sort_ids_In; exact H1].
    + cbn [fst snd]. rewrite H3, Z.eqb_refl. apply Z.leb_le. exact H2.
  - apply forallb_forall. intros p Hin. apply in_map_iff in Hin. destruct Hin as [id [Hp Hin]]. subst p.
    cbn [snd]. apply Z.leb_le. apply Hpos. apply sort_ids_In in Hin. exact Hin.
Qed.

Lemma emit_empty_ok : forall i h a rs, forallb good (clause_word i (emit false h a rs)) = true.
Proof.
  intros. unfold emit.
  set (L := flat_map (fun p : nat * rpc => [Z.of_nat (fst p); rp_key (snd p)]) (live rs)).
  change (clause_word i (1 :: 0 :: 0 :: L)) with (@nil (Z * Z * bool)).
  reflexivity.
Qed.

Lemma snapshot_ok : forall i s, WInv (heap s) (active s) (rpcs s) ->
  forallb good (clause_word i (snapshot s)) = true.
Proof.
  intros i s [Ha [Hr Hl]]. unfold snapshot.
  set (h := heap s) in *. set (a := active s) in *. set (rs := rpcs s) in *.
  set (L := flat_map (fun p : nat * rpc => [Z.of_nat (fst p); rp_key (snd p); 0]) (live rs)).
  set (X := flat_map (fun id => [ci_key (get h id); ci_ref (get h id); ci_unsub (get h id)]) (sort_ids h a)).
  assert (HL : (3 * Z.to_nat (Z.of_nat (length (live rs))))%nat = length L).
  { subst L. rewrite flat3_length, Nat2Z.id. reflexivity. }
  change (clause_word i (3 :: Z.of_nat (length (live rs)) :: L ++ X)) with
    [(2, i, forallb (fun l => existsb (fun t => (fst (fst t) =? snd (fst l)) && (1 <=? snd (fst t)))
                                 (triples (skipn (3 * Z.to_nat (Z.of_nat (length (live rs)))) (L ++ X))))
                    (triples (firstn (3 * Z.to_nat (Z.of_nat (length (live rs)))) (L ++ X))));
     (6, i, forallb (fun l => snd l =? 0) (triples (firstn (3 * Z.to_nat (Z.of_nat (length (live rs)))) (L ++ X))));
     (5, i, forallb (fun t => 0 <=? snd (fst t)) (triples (skipn (3 * Z.to_nat (Z.of_nat (length (live rs)))) (L ++ X))))].
  rewrite (firstn_exact _ L X _ HL), (skipn_exact _ L X _ HL). subst X L.
  rewrite (triples_flat _ (fun p : nat * rpc => Z.of_nat (fst p)) (fun p => rp_key (snd p)) (fun _ => 0)).
  rewrite (triples_flat _ (fun id => ci_key (get h id)) (fun id => ci_ref (get h id)) (fun id => ci_unsub (get h id))).
  cbn [forallb good fst snd]. rewrite !andb_true_r.
  rewrite !andb_true_iff. split; [|split].
  - apply forallb_forall. intros l Hin. apply in_map_iff in Hin. destruct Hin as [[j r] [Hl' Hin]]. subst l.
    cbn [fst snd]. destruct (live_In _ _ _ Hin) as [Hr' Hd]. destruct (Hl r Hr' Hd) as [H1 [H2 H3]].
    apply existsb_exists.
    exists (ci_key (get h (rp_ci r)), ci_ref (get h (rp_ci r)), ci_unsub (get h (rp_ci r))). split.
    + apply in_map_iff. exists (rp_ci r). split; [reflexivity | apply sort_ids_In; exact H1].
    + cbn [fst snd]. rewrite H3, Z.eqb_refl. apply Z.leb_le. exact H2.
  - apply forallb_forall. intros l Hin. apply in_map_iff in Hin. destruct Hin as [p [Hp _]]. subst l. reflexivity.
  - apply forallb_forall. intros t Hin. apply in_map_iff in Hin. destruct Hin as [id [Hp Hin]]. subst t.
    cbn [fst snd]. apply Z.leb_le. apply Hr. apply Ha. apply sort_ids_In in Hin. exact Hin.
Qed.

Lemma commit_word_ok : forall i first before after,
  (first = 1 -> after = before - 1) -> (first <> 1 -> after = before) ->
  forallb good (clause_word i [6; first; before; after]) = true.
Proof.
  intros i first before after H1 H0.
  change (clause_word i [6; first; before; after]) with
    [(3, i, if first =? 1 then after =? before - 1 else after =? before)].
  cbn [forallb good fst snd]. rewrite andb_true_r.
  destruct (first =? 1) eqn:E.
  - apply Z.eqb_eq in E. apply Z.eqb_eq. exact (H1 E).
  - apply Z.eqb_neq in E. apply Z.eqb_eq. exact (H0 E).
Qed.

Lemma select_word_ok : forall i ok k, forallb good (clause_word i [2; ok; k]) = true.
Proof. reflexivity. Qed.

(* ------------------------------------------------------------------ the accounting invariant *)
Definition in_sel (id : nat) (c : sel) : Z := b2z (memb id (sel_ids c)).
Definition holds_ci (id : nat) (r : rpc) : bool := negb (rp_done r) && Nat.eqb (rp_ci r) id.
Definition cnt_live (id : nat) (rs : list rpc) : Z := Z.of_nat (length (filter (holds_ci id) rs)).

Definition Inv (s : st) : Prop :=
  (forall id, (id < length (heap s))%nat ->
     ci_ref (get (heap s) id) = in_sel id (cur s) + cnt_live id (rpcs s)) /\
  (forall id, (id < length (heap s))%nat -> ci_ref (get (heap s) id) <> 0 -> In id (active s)) /\
  (forall id, In id (active s) -> (id < length (heap s))%nat) /\
  (forall id, In id (sel_ids (cur s)) -> (id < length (heap s))%nat) /\
  (forall r, In r (rpcs s) ->
     (rp_ci r < length (heap s))%nat /\ rp_key r = ci_key (get (heap s) (rp_ci r))).

Lemma b2z_range : forall b, 0 <= b2z b <= 1.
Proof. destruct b; cbn; lia. Qed.
Lemma in_sel_range : forall id c, 0 <= in_sel id c <= 1.
Proof. intros. apply b2z_range. Qed.
Lemma cnt_live_nonneg : forall id rs, 0 <= cnt_live id rs.
Proof. intros. unfold cnt_live. lia. Qed.

Lemma cnt_live_pos : forall r rs, In r rs -> rp_done r = false -> 1 <= cnt_live (rp_ci r) rs.
Proof.
  intros r rs Hin Hd. unfold cnt_live.
  assert (H : In r (filter (holds_ci (rp_ci r)) rs)).
  { apply filter_In. split; [exact Hin|]. unfold holds_ci. rewrite Hd, Nat.eqb_refl. reflexivity. }
  destruct (filter (holds_ci (rp_ci r)) rs); [destruct H | cbn [length]; lia].
Qed.

Lemma cnt_live_holder : forall id rs, cnt_live id rs <> 0 ->
  exists r, In r rs /\ rp_done r = false /\ rp_ci r = id.
Proof.
  intros id rs H. unfold cnt_live in H.
  destruct (filter (holds_ci id) rs) as [|r l] eqn:E; [cbn in H; lia|].
  assert (Hin : In r (filter (holds_ci id) rs)) by (rewrite E; left; reflexivity).
  apply filter_In in Hin. destruct Hin as [Hin Hh]. unfold holds_ci in Hh.
  apply andb_true_iff in Hh. destruct Hh as [Hd He]. apply negb_true_iff in Hd. apply Nat.eqb_eq in He.
  exists r. auto.
Qed.

Lemma cnt_live_app : forall id rs r,
  cnt_live id (rs ++ [r]) = cnt_live id rs + b2z (holds_ci id r).
Proof.
  intros. unfold cnt_live. rewrite filter_app, app_length. cbn [filter].
  destruct (holds_ci id r); cbn [length b2z]; lia.
Qed.

Lemma cnt_live_set_done : forall id rs j p, nth_error rs j = Some p -> rp_done p = false ->
  cnt_live id (set_done j rs) = cnt_live id rs - b2z (Nat.eqb (rp_ci p) id).
Proof.
  intros id. induction rs as [|x rs IH]; intros j p Hn Hd; [destruct j; discriminate|].
  destruct j as [|j]; cbn [nth_error] in Hn.
  - inversion Hn; subst x. cbn [set_done]. unfold cnt_live. cbn [filter].
    unfold holds_ci. cbn [rp_done rp_ci negb andb]. rewrite Hd. cbn [negb andb].
    destruct (Nat.eqb (rp_ci p) id); cbn [length b2z]; lia.
  - cbn [set_done]. specialize (IH _ _ Hn Hd). unfold cnt_live in *. cbn [filter].
    destruct (holds_ci id x); cbn [length]; lia.
Qed.

Lemma set_done_In : forall j rs r, In r (set_done j rs) ->
  exists r0, In r0 rs /\ rp_ci r = rp_ci r0 /\ rp_key r = rp_key r0.
Proof.
  induction j as [|j IH]; intros rs r H; destruct rs as [|x rs]; cbn [set_done] in H; try destruct H.
  - exists x. subst r. cbn. auto.
  - exists r. cbn. auto.
  - exists x. subst r. cbn. auto.
  - destruct (IH _ _ H) as [r0 [H0 He]]. exists r0. cbn. auto.
Qed.

Lemma Inv_WInv : forall s, Inv s -> WInv (heap s) (active s) (rpcs s).
Proof.
  intros s [I1 [I2 [I3 [I4 I5]]]]. split; [exact I3|]. split.
  - intros id Hid. rewrite (I1 id Hid). assert (A := in_sel_range id (cur s)).
    assert (B := cnt_live_nonneg id (rpcs s)). lia.
  - intros r Hin Hd. destruct (I5 r Hin) as [Hlt Hk].
    assert (Hc := cnt_live_pos r (rpcs s) Hin Hd). assert (A := in_sel_range (rp_ci r) (cur s)).
    assert (Hr : 1 <= ci_ref (get (heap s) (rp_ci r))) by (rewrite (I1 _ Hlt); lia).
    split; [apply (I2 _ Hlt); lia|]. split; assumption.
Qed.

Definition wok (w : word) : Prop := forall i, forallb good (clause_word i w) = true.

Lemma send_inv : forall s s' w, Inv s -> send s = (s', w) ->
  Inv s' /\ wok w /\ length (heap s') = length (heap s) /\
  (forall id, (id < length (heap s))%nat -> ci_ref (get (heap s') id) = ci_ref (get (heap s) id)) /\
  cur s' = cur s /\ rpcs s' = rpcs s.
Proof.
  intros s s' w HI H. unfold send in H.
  pose proof (prune_length (heap s) (active s)) as PL.
  pose proof (prune_ref (heap s) (active s)) as PR.
  pose proof (prune_key (heap s) (active s)) as PK.
  pose proof (prune_active (heap s) (active s)) as PA.
  pose proof (WInv_prune _ _ _ (Inv_WInv s HI)) as [PW PP].
  destruct (prune (heap s) (active s)) as [h a]. cbn [fst snd] in *.
  inversion H; subst s' w; clear H. cbn [heap active cur rpcs].
  destruct HI as [I1 [I2 [I3 [I4 I5]]]].
  split; [|split; [|split; [exact PL | split; [exact PR | split; reflexivity]]]].
  - unfold Inv. cbn [heap active cur rpcs]. rewrite PL. split; [|split; [|split; [|split]]].
    + intros id Hid. rewrite PR by exact Hid. apply I1. exact Hid.
    + intros id Hid Hne. rewrite PR in Hne by exact Hid. apply PA. split; [apply I2; assumption | exact Hne].
    + intros id Hin. apply PA in Hin. apply I3. tauto.
    + exact I4.
    + intros r Hin. destruct (I5 r Hin) as [Hlt Hk]. split; [exact Hlt|]. rewrite PK by exact Hlt. exact Hk.
  - intro i. destruct (cur_normal (cur s)).
    + apply emit_normal_ok; assumption.
    + apply emit_empty_ok.
Qed.

Lemma sends_inv : forall n s s' ws, Inv s -> sends n s = (s', ws) ->
  Inv s' /\ (forall w, In w ws -> wok w) /\ length (heap s') = length (heap s) /\
  (forall id, (id < length (heap s))%nat -> ci_ref (get (heap s') id) = ci_ref (get (heap s) id)) /\
  cur s' = cur s /\ rpcs s' = rpcs s.
Proof.
  induction n as [|n IH]; intros s s' ws HI H; cbn [sends] in H.
  - inversion H; subst. split; [exact HI|]. split; [intros w []|]. auto.
  - destruct (send s) as [s1 w] eqn:Hs. destruct (sends n s1) as [s2 ws2] eqn:Hss.
    inversion H; subst s' ws; clear H.
    destruct (send_inv _ _ _ HI Hs) as [HI1 [Hw [HL [HR [HC HP]]]]].
    destruct (IH _ _ _ HI1 Hss) as [HI2 [Hws [HL2 [HR2 [HC2 HP2]]]]].
    split; [exact HI2|]. split; [intros w0 [E | Hin]; [subst; exact Hw | exact (Hws _ Hin)]|].
    split; [congruence|]. split; [|split; congruence].
    intros id Hid. rewrite HR2 by (rewrite HL; exact Hid). apply HR. exact Hid.
Qed.

(* ------------------------------------------------------------------ newConfigSelector *)
Definition Ext (h : list ci) (a : list nat) (h1 : list ci) (a1 : list nat) : Prop :=
  (exists e, h1 = h ++ e /\ Forall (fun c => ci_ref c = 0) e) /\
  incl a a1 /\ (forall id, In id a1 -> (id < length h1)%nat).

Lemma Ext_refl : forall h a, (forall id, In id a -> (id < length h)%nat) -> Ext h a h a.
Proof.
  intros h a H. split; [exists []; rewrite app_nil_r; split; [reflexivity | constructor]|].
  split; [apply incl_refl | exact H].
Qed.

Lemma Ext_trans : forall h a h1 a1 h2 a2, Ext h a h1 a1 -> Ext h1 a1 h2 a2 -> Ext h a h2 a2.
Proof.
  intros h a h1 a1 h2 a2 [[e [He Hf]] [Hi Hl]] [[e2 [He2 Hf2]] [Hi2 Hl2]].
  split; [exists (e ++ e2); split; [subst; rewrite app_assoc; reflexivity | apply Forall_app; split; assumption]|].
  split; [exact (incl_tran Hi Hi2) | exact Hl2].
Qed.

Lemma add_or_get_ext : forall k h a id h1 a1, (forall x, In x a -> (x < length h)%nat) ->
  add_or_get k h a = (id, h1, a1) -> Ext h a h1 a1 /\ In id a1.
Proof.
  intros k h a id h1 a1 Hlt H. unfold add_or_get in H.
  destruct (find_active k h a) as [x|] eqn:Hf; inversion H; subst; clear H.
  - split; [apply Ext_refl; exact Hlt|]. unfold find_active in Hf. apply find_some in Hf. tauto.
  - split; [|apply in_or_app; right; left; reflexivity].
    split; [exists [mk_ci k 0 0]; split; [reflexivity | constructor; [reflexivity | constructor]]|].
    split; [apply incl_appl, incl_refl|].
    intros x Hin. rewrite app_length. cbn [length]. apply in_app_or in Hin.
    destruct Hin as [Hin | [E | []]]; [specialize (Hlt _ Hin); lia | subst; lia].
Qed.

Lemma Ext_lt : forall h a h1 a1, Ext h a h1 a1 -> forall x, In x a1 -> (x < length h1)%nat.
Proof. intros h a h1 a1 [_ [_ H]]. exact H. Qed.
Lemma Ext_incl : forall h a h1 a1, Ext h a h1 a1 -> incl a a1.
Proof. intros h a h1 a1 [_ [H _]]. exact H. Qed.

Lemma build_route_ext : forall ks h a ids h1 a1, (forall x, In x a -> (x < length h)%nat) ->
  build_route ks h a = (ids, h1, a1) -> Ext h a h1 a1 /\ (forall id, In id ids -> In id a1).
Proof.
  induction ks as [|k ks IH]; intros h a ids h1 a1 Hlt H; cbn [build_route] in H.
  - inversion H; subst. split; [apply Ext_refl; exact Hlt | intros id []].
  - destruct (add_or_get k h a) as [[id0 h0] a0] eqn:Ha.
    destruct (build_route ks h0 a0) as [[ids1 h2] a2] eqn:Hb. inversion H; subst; clear H.
    destruct (add_or_get_ext _ _ _ _ _ _ Hlt Ha) as [E0 Hin0].
    destruct (IH _ _ _ _ _ (Ext_lt _ _ _ _ E0) Hb) as [E1 Hin1].
    split; [exact (Ext_trans _ _ _ _ _ _ E0 E1)|].
    intros id [E | Hin]; [subst; apply (Ext_incl _ _ _ _ E1); exact Hin0 | exact (Hin1 _ Hin)].
Qed.

Lemma build_routes_ext : forall rs h a routes h1 a1, (forall x, In x a -> (x < length h)%nat) ->
  build_routes rs h a = (routes, h1, a1) ->
  Ext h a h1 a1 /\ (forall id, In id (concat routes) -> In id a1).
Proof.
  induction rs as [|ks rs IH]; intros h a routes h1 a1 Hlt H; cbn [build_routes] in H.
  - inversion H; subst. split; [apply Ext_refl; exact Hlt | intros id []].
  - destruct (build_route ks h a) as [[ids h0] a0] eqn:Ha.
    destruct (build_routes rs h0 a0) as [[rest h2] a2] eqn:Hb. inversion H; subst; clear H.
    destruct (build_route_ext _ _ _ _ _ _ Hlt Ha) as [E0 Hin0].
    destruct (IH _ _ _ _ _ (Ext_lt _ _ _ _ E0) Hb) as [E1 Hin1].
    split; [exact (Ext_trans _ _ _ _ _ _ E0 E1)|].
    intros id Hin. cbn [concat] in Hin. apply in_app_or in Hin.
    destruct Hin as [Hin | Hin]; [apply (Ext_incl _ _ _ _ E1); exact (Hin0 _ Hin) | exact (Hin1 _ Hin)].
Qed.

Lemma Ext_get_old : forall h a h1 a1 id, Ext h a h1 a1 -> (id < length h)%nat -> get h1 id = get h id.
Proof. intros h a h1 a1 id [[e [He _]] _] Hid. subst. apply get_app_l. exact Hid. Qed.
Lemma Ext_get_new : forall h a h1 a1 id, Ext h a h1 a1 -> (length h <= id < length h1)%nat ->
  ci_ref (get h1 id) = 0.
Proof.
  intros h a h1 a1 id [[e [He Hf]] _] Hid. subst. unfold get. rewrite app_nth2 by lia.
  rewrite app_length in Hid. rewrite Forall_forall in Hf. apply Hf. apply nth_In. lia.
Qed.
Lemma Ext_len : forall h a h1 a1, Ext h a h1 a1 -> (length h <= length h1)%nat.
Proof. intros h a h1 a1 [[e [He _]] _]. subst. rewrite app_length. lia. Qed.

Lemma cnt_live_out : forall id rs n, (forall r, In r rs -> (rp_ci r < n)%nat) -> (n <= id)%nat ->
  cnt_live id rs = 0.
Proof.
  intros id rs n H Hn. destruct (Z.eq_dec (cnt_live id rs) 0) as [E | E]; [exact E|].
  destruct (cnt_live_holder _ _ E) as [r [Hin [_ Hc]]]. specialize (H _ Hin). lia.
Qed.

Lemma memb_false_of : forall id l, ~ In id l -> memb id l = false.
Proof. intros id l H. destruct (memb id l) eqn:E; [apply memb_In in E; contradiction | reflexivity]. Qed.

(* ------------------------------------------------------------------ the steps *)
Lemma update_inv : forall rs s s' ws, Inv s -> do_update rs s = (s', ws) ->
  Inv s' /\ (forall w, In w ws -> wok w).
Proof.
  intros rs s s' ws HI H. unfold do_update in H.
  pose proof (Inv_WInv s HI) as [W1 [W2 W3]].
  destruct HI as [I1 [I2 [I3 [I4 I5]]]].
  destruct (build_routes rs (heap s) (active s)) as [[routes h1] a1] eqn:Hb.
  destruct (build_routes_ext _ _ _ _ _ _ I3 Hb) as [HE Hnew].
  pose proof (Ext_len _ _ _ _ HE) as HLen. pose proof (Ext_lt _ _ _ _ HE) as Hlt1.
  pose proof (Ext_incl _ _ _ _ HE) as Hinc.
  set (new := concat routes) in *. set (old := sel_ids (cur s)) in *.
  assert (A : forall id, (id < length h1)%nat ->
            ci_ref (get h1 id) = in_sel id (cur s) + cnt_live id (rpcs s)).
  { intros id Hid. destruct (lt_dec id (length (heap s))) as [Hl | Hl].
    - rewrite (Ext_get_old _ _ _ _ _ HE Hl). apply I1. exact Hl.
    - rewrite (Ext_get_new _ _ _ _ id HE) by lia.
      rewrite (cnt_live_out id (rpcs s) (length (heap s))); [|intros r Hr; apply (I5 r Hr) | lia].
      unfold in_sel. rewrite memb_false_of; [reflexivity|]. intro Hin. specialize (I4 _ Hin). lia. }
  assert (K : forall id, (id < length (heap s))%nat -> ci_key (get h1 id) = ci_key (get (heap s) id)).
  { intros id Hid. rewrite (Ext_get_old _ _ _ _ _ HE Hid). reflexivity. }
  set (h2 := acquire new h1) in *.
  assert (L2 : length h2 = length h1) by apply acquire_length.
  assert (R2 : forall id, (id < length h1)%nat -> ci_ref (get h2 id) = ci_ref (get h1 id) + b2z (memb id new))
    by (intros; apply acquire_ref; assumption).
  assert (K2 : forall id, (id < length h1)%nat -> ci_key (get h2 id) = ci_key (get h1 id))
    by (intros; apply acquire_key; assumption).
  (* the first emission *)
  assert (WI : WInv h2 a1 (rpcs s)).
  { split; [intros id Hin; rewrite L2; exact (Hlt1 _ Hin)|]. split.
    - intros id Hid. rewrite L2 in Hid. rewrite R2, A by exact Hid.
      assert (X := in_sel_range id (cur s)). assert (Y := cnt_live_nonneg id (rpcs s)).
      assert (Z0 := b2z_range (memb id new)). lia.
    - intros r Hin Hd. destruct (W3 r Hin Hd) as [Ha [Hr Hk]]. destruct (I5 r Hin) as [Hl _].
      assert (Hl1 : (rp_ci r < length h1)%nat) by lia.
      split; [apply Hinc; exact Ha|]. rewrite R2, K2 by exact Hl1.
      rewrite (Ext_get_old _ _ _ _ _ HE Hl). split; [|exact Hk].
      assert (Z0 := b2z_range (memb (rp_ci r) new)). lia. }
  pose proof (prune_length h2 a1) as PL. pose proof (prune_ref h2 a1) as PR.
  pose proof (prune_key h2 a1) as PK. pose proof (prune_active h2 a1) as PA.
  pose proof (WInv_prune _ _ _ WI) as [PW PP].
  destruct (prune h2 a1) as [h3 a3]. cbn [fst snd] in *.
  set (S1 := mk_st (release old h3) a3 (SCfg routes) (rpcs s)) in *.
  assert (LS : length (heap S1) = length h1) by (cbn [S1 heap]; rewrite release_length; lia).
  assert (RS : forall id, (id < length h1)%nat ->
            ci_ref (get (heap S1) id) = b2z (memb id new) + cnt_live id (rpcs s)).
  { intros id Hid. cbn [S1 heap]. rewrite release_ref by lia. rewrite PR by lia. rewrite R2, A by exact Hid.
    unfold in_sel. fold old. lia. }
  assert (HI1 : Inv S1).
  { unfold Inv. rewrite LS. cbn [active cur rpcs sel_ids]. fold new.
    split; [|split; [|split; [|split]]].
    - intros id Hid. rewrite RS by exact Hid. reflexivity.
    - intros id Hid Hne. rewrite RS in Hne by exact Hid. apply PA.
      assert (Hr2 : ci_ref (get h2 id) = b2z (memb id new) + cnt_live id (rpcs s) + in_sel id (cur s)).
      { rewrite R2, A by exact Hid. lia. }
      assert (X := in_sel_range id (cur s)). assert (Y := cnt_live_nonneg id (rpcs s)).
      assert (Z0 := b2z_range (memb id new)).
      split; [|lia].
      destruct (memb id new) eqn:Hm; [apply Hnew, memb_In; exact Hm|].
      cbn [b2z] in Hne. assert (Hc : cnt_live id (rpcs s) <> 0) by lia.
      destruct (cnt_live_holder _ _ Hc) as [r [Hin [Hd Hci]]]. subst id.
      apply Hinc. exact (proj1 (W3 r Hin Hd)).
    - intros id Hin. apply PA in Hin. apply Hlt1. tauto.
    - intros id Hin. apply Hlt1, Hnew. exact Hin.
    - intros r Hin. destruct (I5 r Hin) as [Hl Hk]. split; [lia|].
      cbn [S1 heap]. rewrite release_key by lia. rewrite PK by lia. rewrite K2 by lia. rewrite K by exact Hl.
      exact Hk. }
  destruct (sends (nsched old h3) S1) as [s2 ws2] eqn:Hs. inversion H; subst s' ws; clear H.
  destruct (sends_inv _ _ _ _ HI1 Hs) as [HI2 [Hws _]].
  split; [exact HI2|]. intros w [E | Hin]; [|exact (Hws _ Hin)].
  subst w. intro i. apply emit_normal_ok; assumption.
Qed.

Lemma error_inv : forall s s' ws, Inv s -> do_error s = (s', ws) ->
  Inv s' /\ (forall w, In w ws -> wok w).
Proof.
  intros s s' ws HI H. unfold do_error in H.
  pose proof (Inv_WInv s HI) as [W1 [W2 W3]].
  destruct HI as [I1 [I2 [I3 [I4 I5]]]].
  pose proof (prune_length (heap s) (active s)) as PL. pose proof (prune_ref (heap s) (active s)) as PR.
  pose proof (prune_key (heap s) (active s)) as PK. pose proof (prune_active (heap s) (active s)) as PA.
  destruct (prune (heap s) (active s)) as [h1 a1]. cbn [fst snd] in *.
  set (old := sel_ids (cur s)) in *.
  set (S1 := mk_st (release old h1) a1 SErr (rpcs s)) in *.
  assert (LS : length (heap S1) = length (heap s)) by (cbn [S1 heap]; rewrite release_length; lia).
  assert (RS : forall id, (id < length (heap s))%nat -> ci_ref (get (heap S1) id) = cnt_live id (rpcs s)).
  { intros id Hid. cbn [S1 heap]. rewrite release_ref by lia. rewrite PR by lia. rewrite I1 by exact Hid.
    unfold in_sel. fold old. lia. }
  assert (HI1 : Inv S1).
  { unfold Inv. rewrite LS. cbn [active cur rpcs sel_ids].
    split; [|split; [|split; [|split]]].
    - intros id Hid. rewrite RS by exact Hid. unfold in_sel. cbn. reflexivity.
    - intros id Hid Hne. rewrite RS in Hne by exact Hid. apply PA.
      assert (X := in_sel_range id (cur s)). assert (Y := cnt_live_nonneg id (rpcs s)).
      assert (Hr : ci_ref (get (heap s) id) <> 0) by (rewrite I1 by exact Hid; lia).
      split; [apply I2; assumption | exact Hr].
    - intros id Hin. apply PA in Hin. apply I3. tauto.
    - intros id [].
    - intros r Hin. destruct (I5 r Hin) as [Hl Hk]. split; [exact Hl|].
      cbn [S1 heap]. rewrite release_key by lia. rewrite PK by lia. exact Hk. }
  destruct (sends (nsched old h1) S1) as [s2 ws2] eqn:Hs. inversion H; subst s' ws; clear H.
  destruct (sends_inv _ _ _ _ HI1 Hs) as [HI2 [Hws _]].
  split; [exact HI2|]. intros w [E | Hin]; [|exact (Hws _ Hin)].
  subst w. intro i. exact (emit_empty_ok i h1 a1 (rpcs s)).
Qed.

Lemma nth_default_In : forall (A : Type) n (l : list A) d, In d l -> In (nth n l d) l.
Proof. intros A n l d H. destruct (nth_in_or_default n l d) as [Hi | He]; [exact Hi | rewrite He; exact H]. Qed.

Lemma select_inv : forall i c s s' ws, Inv s -> do_select i c s = (s', ws) ->
  Inv s' /\ (forall w, In w ws -> wok w).
Proof.
  intros i c s s' ws HI H. unfold do_select in H.
  assert (Hfail : forall w, In w [[2; 0; 0]] -> wok w).
  { intros w [E | []]. subst w. intro j. apply select_word_ok. }
  destruct (cur s) as [| |routes] eqn:Hc; try (inversion H; subst; split; [exact HI | exact Hfail]).
  destruct (i <? 0); [inversion H; subst; split; [exact HI | exact Hfail]|].
  destruct (nth_error routes (Z.to_nat i)) as [[|e es]|] eqn:Hn;
    try (inversion H; subst; split; [exact HI | exact Hfail]).
  set (ent := e :: es) in *.
  set (id := nth (Z.to_nat (c mod Z.of_nat (length ent))) ent e) in *.
  assert (Hent : In id ent) by (apply nth_default_In; left; reflexivity).
  assert (Hsel : In id (sel_ids (cur s))).
  { rewrite Hc. cbn [sel_ids]. apply in_concat. exists ent. split; [exact (nth_error_In _ _ Hn) | exact Hent]. }
  inversion H; subst s' ws; clear H.
  destruct HI as [I1 [I2 [I3 [I4 I5]]]]. pose proof (I4 _ Hsel) as Hid.
  split; [|intros w [E | []]; subst w; intro j; apply select_word_ok].
  unfold Inv. cbn [heap active cur rpcs]. rewrite acquire_length. rewrite <- Hc.
  split; [|split; [|split; [|split]]].
  - intros x Hx. rewrite acquire_ref by exact Hx. rewrite cnt_live_app, (I1 x Hx).
    unfold holds_ci. cbn [rp_done rp_ci negb andb memb existsb]. rewrite orb_false_r.
    rewrite (Nat.eqb_sym id x). lia.
  - intros x Hx Hne. rewrite acquire_ref in Hne by exact Hx. cbn [memb existsb] in Hne.
    rewrite orb_false_r in Hne. destruct (Nat.eqb x id) eqn:E.
    + apply Nat.eqb_eq in E. subst x. apply (I2 _ Hid). rewrite (I1 _ Hid).
      unfold in_sel. rewrite (proj2 (memb_In id _) Hsel). cbn [b2z].
      assert (Y := cnt_live_nonneg id (rpcs s)). lia.
    + cbn [b2z] in Hne. apply (I2 _ Hx). lia.
  - exact I3.
  - exact I4.
  - intros r Hin. apply in_app_or in Hin. destruct Hin as [Hin | [E | []]].
    + destruct (I5 r Hin) as [Hl Hk]. split; [exact Hl|]. rewrite acquire_key by exact Hl. exact Hk.
    + subst r. cbn [rp_ci rp_key]. split; [exact Hid|]. rewrite acquire_key by exact Hid. reflexivity.
Qed.

Lemma commit_inv : forall j s s' ws, Inv s -> do_commit j s = (s', ws) ->
  Inv s' /\ (forall w, In w ws -> wok w).
Proof.
  intros j s s' ws HI H. unfold do_commit in H.
  destruct (j <? 0); [inversion H; subst; split; [exact HI | intros w []]|].
  destruct (nth_error (rpcs s) (Z.to_nat j)) as [p|] eqn:Hn;
    [|inversion H; subst; split; [exact HI | intros w []]].
  destruct (rp_done p) eqn:Hd.
  - inversion H; subst; clear H. split; [exact HI|]. intros w [E | []]. subst w. intro i.
    apply commit_word_ok; [discriminate | reflexivity].
  - pose proof (nth_error_In _ _ Hn) as Hp.
    destruct HI as [I1 [I2 [I3 [I4 I5]]]]. destruct (I5 p Hp) as [Hpl Hpk].
    set (S1 := mk_st (release [rp_ci p] (heap s)) (active s) (cur s) (set_done (Z.to_nat j) (rpcs s))) in *.
    assert (RS : forall x, (x < length (heap s))%nat ->
              ci_ref (get (heap S1) x) = ci_ref (get (heap s) x) - b2z (Nat.eqb x (rp_ci p))).
    { intros x Hx. cbn [S1 heap]. rewrite release_ref by exact Hx. cbn [memb existsb].
      rewrite orb_false_r. reflexivity. }
    assert (HI1 : Inv S1).
    { unfold Inv. cbn [S1 heap active cur rpcs]. rewrite release_length. fold S1.
      split; [|split; [|split; [|split]]].
      - intros x Hx. change (release [rp_ci p] (heap s)) with (heap S1). rewrite RS by exact Hx.
        rewrite (cnt_live_set_done x _ _ _ Hn Hd), (I1 x Hx), (Nat.eqb_sym x). lia.
      - intros x Hx Hne. change (release [rp_ci p] (heap s)) with (heap S1) in Hne.
        rewrite RS in Hne by exact Hx. apply (I2 _ Hx).
        destruct (Nat.eqb x (rp_ci p)) eqn:E; cbn [b2z] in Hne; [|lia].
        apply Nat.eqb_eq in E. subst x. rewrite (I1 _ Hx).
        assert (X := in_sel_range (rp_ci p) (cur s)). assert (Y := cnt_live_pos p _ Hp Hd). lia.
      - exact I3.
      - exact I4.
      - intros r Hin. destruct (set_done_In _ _ _ Hin) as [r0 [H0 [Hc Hk]]].
        destruct (I5 r0 H0) as [Hl Hk0]. rewrite Hc, Hk. split; [exact Hl|].
        rewrite release_key by exact Hl. exact Hk0. }
    destruct (sends (nsched [rp_ci p] (heap s)) S1) as [s2 ws2] eqn:Hs.
    inversion H; subst s' ws; clear H.
    destruct (sends_inv _ _ _ _ HI1 Hs) as [HI2 [Hws [HL [HR _]]]].
    split; [exact HI2|]. intros w Hin. apply in_app_or in Hin.
    destruct Hin as [Hin | [E | []]]; [exact (Hws _ Hin)|]. subst w. intro i.
    apply commit_word_ok; [|intro Hx; exfalso; apply Hx; reflexivity].
    intros _. rewrite HR by (cbn [S1 heap]; rewrite release_length; exact Hpl).
    rewrite RS by exact Hpl. rewrite Nat.eqb_refl. cbn [b2z]. reflexivity.
Qed.

Lemma early_inv : forall i c s s' ws, Inv s -> do_early i c s = (s', ws) ->
  Inv s' /\ (forall w, In w ws -> wok w).
Proof.
  intros i c s s' ws HI H. unfold do_early in H.
  destruct (do_select i c s) as [s1 ws1] eqn:E1. destruct (select_inv _ _ _ _ _ HI E1) as [H1 Hw1].
  destruct (Nat.eqb (length (rpcs s1)) (length (rpcs s))); [inversion H; subst; split; assumption|].
  destruct (do_commit (Z.of_nat (length (rpcs s))) s1) as [s2 ws2] eqn:E2.
  destruct (commit_inv _ _ _ _ H1 E2) as [H2 Hw2]. inversion H; subst; clear H.
  split; [exact H2|]. intros w Hin. apply in_app_or in Hin.
  destruct Hin as [Hin | Hin]; [exact (Hw1 _ Hin) | exact (Hw2 _ Hin)].
Qed.

Lemma step_inv : forall s op s' ws, Inv s -> step s op = (s', ws) ->
  Inv s' /\ (forall w, In w ws -> wok w).
Proof.
  intros s op s' ws HI H. unfold step in H.
  assert (Hnop : forall w, In w (@nil word) -> wok w) by (intros w []).
  assert (Hsnap : forall t, Inv t -> wok (snapshot t)).
  { intros t Ht i. apply snapshot_ok. apply Inv_WInv. exact Ht. }
  destruct op as [|tag a]; [inversion H; subst; split; [exact HI | exact Hnop]|].
  destruct (tag =? 1).
  { destruct (do_update (map norm_route (split0 a [])) s) as [s1 ws1] eqn:E. inversion H; subst; clear H.
    destruct (update_inv _ _ _ _ HI E) as [H1 Hw]. split; [exact H1|].
    intros w Hin. apply in_app_or in Hin. destruct Hin as [Hin | [Ew | []]]; [exact (Hw _ Hin) | subst; exact (Hsnap _ H1)]. }
  destruct (tag =? 2).
  { destruct a as [|i [|c [|x a]]]; try (inversion H; subst; split; [exact HI | exact Hnop]).
    destruct (do_select i c s) as [s1 ws1] eqn:E. inversion H; subst; clear H.
    destruct (select_inv _ _ _ _ _ HI E) as [H1 Hw]. split; [exact H1|].
    intros w Hin. apply in_app_or in Hin. destruct Hin as [Hin | [Ew | []]]; [exact (Hw _ Hin) | subst; exact (Hsnap _ H1)]. }
  destruct (tag =? 3).
  { destruct a as [|j [|x a]]; try (inversion H; subst; split; [exact HI | exact Hnop]).
    destruct (do_commit j s) as [s1 ws1] eqn:E. inversion H; subst; clear H.
    destruct (commit_inv _ _ _ _ HI E) as [H1 Hw]. split; [exact H1|].
    intros w Hin. apply in_app_or in Hin. destruct Hin as [Hin | [Ew | []]]; [exact (Hw _ Hin) | subst; exact (Hsnap _ H1)]. }
  destruct (tag =? 4).
  { destruct a as [|x a]; try (inversion H; subst; split; [exact HI | exact Hnop]).
    destruct (do_error s) as [s1 ws1] eqn:E. inversion H; subst; clear H.
    destruct (error_inv _ _ _ HI E) as [H1 Hw]. split; [exact H1|].
    intros w Hin. apply in_app_or in Hin. destruct Hin as [Hin | [Ew | []]]; [exact (Hw _ Hin) | subst; exact (Hsnap _ H1)]. }
  destruct (tag =? 5).
  { destruct a as [|i [|c [|x a]]]; try (inversion H; subst; split; [exact HI | exact Hnop]).
    destruct (do_early i c s) as [s1 ws1] eqn:E. inversion H; subst; clear H.
    destruct (early_inv _ _ _ _ _ HI E) as [H1 Hw]. split; [exact H1|].
    intros w Hin. apply in_app_or in Hin. destruct Hin as [Hin | [Ew | []]]; [exact (Hw _ Hin) | subst; exact (Hsnap _ H1)]. }
  inversion H; subst. split; [exact HI | exact Hnop].
Qed.

Lemma Inv0 : Inv st0.
Proof.
  unfold Inv, st0. cbn. repeat split; try (intros; lia); try tauto.
Qed.

(* reachable states *)
Fixpoint state_after (s : st) (ops : list word) : st :=
  match ops with [] => s | op :: r => state_after (fst (step s op)) r end.

Lemma reach_inv : forall ops s, Inv s -> Inv (state_after s ops).
Proof.
  induction ops as [|op r IH]; intros s HI; cbn [state_after]; [exact HI|].
  destruct (step s op) as [s1 ws] eqn:E. cbn [fst]. apply IH. exact (proj1 (step_inv _ _ _ _ HI E)).
Qed.

Lemma run_from_wok : forall ops s, Inv s -> forall w, In w (run_from s ops) -> wok w.
Proof.
  induction ops as [|op r IH]; intros s HI w Hin; cbn [run_from] in Hin; [destruct Hin|].
  destruct (step s op) as [s1 ws] eqn:E. destruct (step_inv _ _ _ _ HI E) as [H1 Hw].
  apply in_app_or in Hin. destruct Hin as [Hin | Hin]; [exact (Hw _ Hin) | exact (IH _ H1 _ Hin)].
Qed.

Lemma clause_words_good : forall obs i, (forall w, In w obs -> wok w) ->
  forallb good (clause_words i obs) = true.
Proof.
  induction obs as [|w r IH]; intros i H; cbn [clause_words]; [reflexivity|].
  rewrite forallb_app, (H w (or_introl eq_refl) i), IH; [reflexivity|].
  intros w0 Hin. apply H. right. exact Hin.
Qed.

Lemma model_trace_holds : forall cfg ops,
  exists obs, run cfg ops = Some obs /\ holds_b cfg ops obs = true.
Proof.
  intros cfg ops. eexists. split; [reflexivity|]. unfold holds_b, clauses.
  change (fun c : Z * Z * bool => snd c) with good.
  apply clause_words_good. apply run_from_wok. exact Inv0.
Qed.

(* ------------------------------------------------------------------ readable statements *)
Definition reachable (s : st) : Prop := exists ops, s = state_after st0 ops.

Lemma reachable_inv : forall s, reachable s -> Inv s.
Proof. intros s [ops E]. subst. apply reach_inv. exact Inv0. Qed.

Lemma accounting : forall s, reachable s -> forall id, (id < length (heap s))%nat ->
  ci_ref (get (heap s) id) = in_sel id (cur s) + cnt_live id (rpcs s).
Proof. intros s Hr. exact (proj1 (reachable_inv s Hr)). Qed.

Lemma kept : forall s, reachable s -> forall r, In r (rpcs s) -> rp_done r = false ->
  In (rp_ci r) (active s) /\ 1 <= ci_ref (get (heap s) (rp_ci r)) /\
  rp_key r = ci_key (get (heap s) (rp_ci r)).
Proof. intros s Hr. exact (proj2 (proj2 (Inv_WInv s (reachable_inv s Hr)))). Qed.

(* sendNewServiceConfig from a reachable state keeps the cluster of every uncommitted RPC
   among the children it emits *)
Lemma kept_in_send : forall s, reachable s -> forall s' w, send s = (s', w) ->
  forall r, In r (rpcs s) -> rp_done r = false ->
  In (rp_ci r) (sort_ids (heap s') (active s')) /\ rp_key r = ci_key (get (heap s') (rp_ci r)).
Proof.
  intros s Hr s' w Hs r Hin Hd. pose proof (reachable_inv s Hr) as HI.
  destruct (send_inv _ _ _ HI Hs) as [HI' [_ [_ [_ [_ HP]]]]].
  rewrite <- HP in Hin. destruct (proj2 (proj2 (Inv_WInv s' HI')) r Hin Hd) as [Ha [_ Hk]].
  split; [apply sort_ids_In; exact Ha | exact Hk].
Qed.

Lemma sends_inv_cur : forall n s s' ws, sends n s = (s', ws) -> cur s' = cur s /\ rpcs s' = rpcs s.
Proof.
  induction n as [|n IH]; intros s s' ws H; cbn [sends] in H.
  - inversion H; subst. auto.
  - unfold send in H. destruct (prune (heap s) (active s)) as [h a].
    destruct (sends n (mk_st h a (cur s) (rpcs s))) as [s3 ws3] eqn:E. inversion H; subst.
    apply IH in E. cbn [cur rpcs] in E. exact E.
Qed.

Lemma commit_once : forall j s p, nth_error (rpcs s) (Z.to_nat j) = Some p -> rp_done p = true ->
  0 <= j -> do_commit j s = (s, [[6; 0; ci_ref (get (heap s) (rp_ci p)); ci_ref (get (heap s) (rp_ci p))]]).
Proof.
  intros j s p Hn Hd Hj. unfold do_commit.
  destruct (j <? 0) eqn:E; [apply Z.ltb_lt in E; lia|]. rewrite Hn, Hd. reflexivity.
Qed.

Lemma set_done_nth : forall j rs p, nth_error rs j = Some p ->
  nth_error (set_done j rs) j = Some (mk_rpc (rp_ci p) (rp_key p) true).
Proof.
  induction j as [|j IH]; intros rs p H; destruct rs as [|x rs]; cbn [nth_error] in H; try discriminate.
  - inversion H; subst. reflexivity.
  - cbn [set_done nth_error]. apply IH. exact H.
Qed.

Lemma commit_marks_done : forall j s s' ws p, Inv s -> 0 <= j ->
  nth_error (rpcs s) (Z.to_nat j) = Some p -> do_commit j s = (s', ws) ->
  exists p', nth_error (rpcs s') (Z.to_nat j) = Some p' /\ rp_done p' = true /\ rp_ci p' = rp_ci p.
Proof.
  intros j s s' ws p HI Hj Hn H. unfold do_commit in H.
  destruct (j <? 0) eqn:E; [apply Z.ltb_lt in E; lia|]. rewrite Hn in H.
  destruct (rp_done p) eqn:Hd.
  - inversion H; subst. exists p. auto.
  - destruct (sends (nsched [rp_ci p] (heap s))
        (mk_st (release [rp_ci p] (heap s)) (active s) (cur s) (set_done (Z.to_nat j) (rpcs s))))
      as [s2 ws2] eqn:Hs.
    inversion H; subst s' ws; clear H.
    assert (HP : rpcs s2 = set_done (Z.to_nat j) (rpcs s)) by exact (proj2 (sends_inv_cur _ _ _ _ Hs)).
    rewrite HP. exists (mk_rpc (rp_ci p) (rp_key p) true). split; [apply set_done_nth; exact Hn | auto].
Qed.

(* a clusterInfo that neither the current selector nor an uncommitted RPC references is
   absent from the next service config *)
Lemma dropped_at_send : forall s, reachable s -> forall id, (id < length (heap s))%nat ->
  in_sel id (cur s) = 0 -> cnt_live id (rpcs s) = 0 ->
  forall s' w, send s = (s', w) -> ~ In id (active s').
Proof.
  intros s Hr id Hid H1 H2 s' w Hs Hin. pose proof (accounting s Hr id Hid) as Ha.
  unfold send in Hs. pose proof (prune_active (heap s) (active s) id) as PA.
  destruct (prune (heap s) (active s)) as [h a]. cbn [snd] in PA. inversion Hs; subst s' w.
  cbn [active] in Hin. apply PA in Hin. lia.
Qed.

Lemma sends_active_incl : forall n s s' ws, sends n s = (s', ws) -> incl (active s') (active s).
Proof.
  induction n as [|n IH]; intros s s' ws H; cbn [sends] in H.
  - inversion H; subst. apply incl_refl.
  - unfold send in H. pose proof (prune_active (heap s) (active s)) as PA.
    destruct (prune (heap s) (active s)) as [h a]. cbn [snd] in PA.
    destruct (sends n (mk_st h a (cur s) (rpcs s))) as [s3 ws3] eqn:E. inversion H; subst.
    apply IH in E. cbn [active] in E. intros x Hx. apply E in Hx. apply PA in Hx. tauto.
Qed.

(* after a route update, activeClusters/activePlugins contain only what the new routes, the
   previous selector or an uncommitted RPC reference *)
Lemma update_drops : forall rs s s' ws, reachable s -> do_update rs s = (s', ws) ->
  forall id, In id (active s') ->
  In id (sel_ids (cur s')) \/ In id (sel_ids (cur s)) \/ cnt_live id (rpcs s) <> 0.
Proof.
  intros rs s s' ws Hr H id Hin. pose proof (reachable_inv s Hr) as HI.
  destruct HI as [I1 [I2 [I3 [I4 I5]]]]. unfold do_update in H.
  destruct (build_routes rs (heap s) (active s)) as [[routes h1] a1] eqn:Hb.
  destruct (build_routes_ext _ _ _ _ _ _ I3 Hb) as [HE Hnew].
  pose proof (prune_active (acquire (concat routes) h1) a1 id) as PA.
  destruct (prune (acquire (concat routes) h1) a1) as [h3 a3]. cbn [snd] in PA.
  destruct (sends (nsched (sel_ids (cur s)) h3)
             (mk_st (release (sel_ids (cur s)) h3) a3 (SCfg routes) (rpcs s))) as [s2 ws2] eqn:Hs.
  inversion H; subst s' ws; clear H.
  pose proof (sends_active_incl _ _ _ _ Hs) as Hinc. destruct (sends_inv_cur _ _ _ _ Hs) as [Hc _].
  rewrite Hc. cbn [cur sel_ids]. apply Hinc in Hin. cbn [active] in Hin. apply PA in Hin.
  destruct Hin as [Hin Hne]. pose proof (Ext_lt _ _ _ _ HE _ Hin) as Hlt.
  rewrite acquire_ref in Hne by exact Hlt.
  destruct (memb id (concat routes)) eqn:Hm; [left; apply memb_In; exact Hm|]. right.
  cbn [b2z] in Hne. destruct (lt_dec id (length (heap s))) as [Hl | Hl].
  - rewrite (Ext_get_old _ _ _ _ _ HE Hl), (I1 id Hl) in Hne. unfold in_sel in Hne.
    destruct (memb id (sel_ids (cur s))) eqn:Ho; [left; apply memb_In; exact Ho|]. right.
    cbn [b2z] in Hne. lia.
  - rewrite (Ext_get_new _ _ _ _ id HE) in Hne by lia. lia.
Qed.

(* scope note (NOT a violation of C51): a resource error is outside the property's
   quantification (route configuration updates removing / re-adding clusters).  On such an
   error the resolver pushes the empty service config while an RPC may be uncommitted; its
   refCount accounting is unaffected (the cluster stays active with its reference). *)
Definition w_ops : list word := [[1; 1]; [2; 0; 0]; [4]].

Lemma resource_error_scope_note :
  In [1; 0; 0; 0; 1] (run_from st0 w_ops) /\
  (exists r, In r (rpcs (state_after st0 w_ops)) /\ rp_done r = false /\ rp_key r = 1 /\
     In (rp_ci r) (active (state_after st0 w_ops)) /\
     ci_ref (get (heap (state_after st0 w_ops)) (rp_ci r)) = 1).
Proof.
  split; [vm_compute; tauto|]. exists (mk_rpc 0 1 false). vm_compute. tauto.
Qed.
