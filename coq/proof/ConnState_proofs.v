(* Proofs for model/ConnState.v (C30). *)
From Coq Require Import List ZArith Bool Lia.
From VLib Require Import Codec.
From VModel Require Import ConnState.
Import ListNotations.
Open Scope Z_scope.

Lemma word_eqb_refl : forall w, word_eqb w w = true.
Proof. induction w as [|x w IH]; cbn; [reflexivity|]. rewrite Z.eqb_refl, IH. reflexivity. Qed.

Lemma nth_error_upd_eq : forall A (l : list A) n x y,
  nth_error l n = Some y -> nth_error (upd l n x) n = Some x.
Proof. induction l as [|z l IH]; intros [|n] x y H; cbn in *; try discriminate; eauto. Qed.
Lemma Forall_upd : forall A (P : A -> Prop) l n x, Forall P l -> P x -> Forall P (upd l n x).
Proof.
  induction l as [|z l IH]; intros [|n] x HF Hx; cbn; auto; inversion HF; subst; constructor; auto.
Qed.
Lemma Forall_nth_error : forall A (P : A -> Prop) l n x, Forall P l -> nth_error l n = Some x -> P x.
Proof. intros A P l n x HF H. rewrite Forall_forall in HF. apply HF. eapply nth_error_In; eauto. Qed.
Lemma getw_nth : forall a w x, getw a w = Some x -> nth_error (ws a) (Z.to_nat w) = Some x.
Proof. intros a w x H. unfold getw in H. destruct (w <? 0); [discriminate|assumption]. Qed.

(* ================= Part A ================= *)
Definition published (c : Z) (o : aop) : Z :=
  match o with AUpdate s => if c =? 4 then c else s | _ => c end.

Lemma astep_cst : forall a o, cst (cm (astep a o)) = published (cst (cm a)) o.
Proof.
  intros a o. destruct o; cbn; try reflexivity.
  - unfold csm_update. destruct (cst (cm a) =? 4) eqn:E4; [reflexivity|].
    destruct (Z.eqb_spec (cst (cm a)) s); [congruence|]. destruct (nch (cm a)); reflexivity.
  - destruct (getw a w) as [x|]; [|reflexivity]. destruct (ph x =? 0); [|reflexivity].
    unfold csm_notify. destruct (nch (cm a)); reflexivity.
  - destruct (getw a w) as [x|]; [|reflexivity]. destruct (ph x =? 1); reflexivity.
  - destruct (getw a w) as [x|]; [|reflexivity]. destruct (wcan x); reflexivity.
Qed.

Theorem shutdown_absorbing : forall l a, cst (cm a) = 4 -> cst (cm (arun a l)) = 4.
Proof.
  induction l as [|o l IH]; intros a H; cbn; [exact H|]. apply IH. rewrite astep_cst.
  destruct o; cbn; auto. rewrite H. reflexivity.
Qed.

Theorem state_is_last_published : forall l a, cst (cm (arun a l)) = fold_left published l (cst (cm a)).
Proof. induction l as [|o l IH]; intros a; cbn; [reflexivity|]. rewrite IH, astep_cst. reflexivity. Qed.

Definition mok (m : csm) : Prop :=
  (forall c, nch m = Some c -> c < nextch m /\ mem c (closedch m) = false) /\
  (forall c, mem c (closedch m) = true -> c < nextch m).

Definition wok (m : csm) (x : watcher) : Prop :=
  (ph x = 0 \/ ph x = 1 \/ ph x = 2 \/ ph x = 3 \/ ph x = 4) /\
  (ph x = 1 \/ ph x = 2 -> wch x < nextch m /\
     (mem (wch x) (closedch m) = false -> nch m = Some (wch x) /\ wdiff x = negb (cst m =? wsrc x))) /\
  (ph x = 2 -> mem (wch x) (closedch m) = false /\ cst m = wsrc x /\ wcan x = false) /\
  (ph x = 4 -> wcan x = true /\ wdiff x = false).

Definition invA (a : stA) : Prop := mok (cm a) /\ Forall (wok (cm a)) (ws a).

Lemma mem_cons : forall c d l, mem c (d :: l) = (c =? d) || mem c l.
Proof. reflexivity. Qed.

Lemma wok_wake_same : forall m x, wok m x -> wok m (wake1 m x).
Proof.
  intros m x (W0 & W1 & W2 & W4). unfold wake1.
  destruct W0 as [P|[P|[P|[P|P]]]]; rewrite P; cbn [Z.eqb Z.ltb Z.compare Pos.compare Pos.eqb andb Pos.compare_cont].
  - unfold wok; cbn. repeat split; auto; intros; try lia; try (destruct H; lia).
  - assert (P1 : ph x = 1 \/ ph x = 2) by auto. destruct (W1 P1) as (L & U).
    unfold wok; cbn [ph wch wdiff wcan wsrc]. split; [auto|]. split; [|split; intros; lia].
    intros _. split; [exact L|]. intro C. destruct (U C) as (N & D). split; [exact N|]. rewrite D.
    destruct (negb (cst m =? wsrc x)); reflexivity.
  - assert (P1 : ph x = 1 \/ ph x = 2) by auto. destruct (W1 P1) as (L & U). destruct (W2 P) as (C & S & K).
    rewrite C. destruct (U C) as (N & D).
    unfold wok; cbn [ph wch wdiff wcan wsrc]. split; [auto|]. split; [|split; [|intros; lia]].
    + intros _. split; [exact L|]. intros _. split; [exact N|]. rewrite D. destruct (negb (cst m =? wsrc x)); reflexivity.
    + intros _. auto.
  - unfold wok; cbn. repeat split; auto; intros; try lia; try (destruct H; lia).
  - destruct (W4 P) as (K & D). unfold wok; cbn [ph wch wdiff wcan wsrc]. rewrite D. cbn.
    repeat split; auto; intros; try lia; try (destruct H; lia).
Qed.

Lemma wok_update : forall m s x, mok m -> wok m x -> wok (csm_update m s) (wake1 (csm_update m s) x).
Proof.
  intros m s x [M1 M2] Hw. pose proof Hw as (W0 & W1 & W2 & W4). unfold csm_update.
  destruct (Z.eqb_spec (cst m) 4) as [E4|E4]; [apply wok_wake_same; exact Hw|].
  destruct (Z.eqb_spec (cst m) s) as [Es|Es]; [apply wok_wake_same; exact Hw|].
  (* effective update: the current channel is closed *)
  destruct (nch m) as [c|] eqn:Hn.
  - unfold wake1; cbn [closedch cst]. destruct (Z.eqb_spec (ph x) 2) as [P2|P2]; cbn [andb].
    + destruct (W2 P2) as (C & S & K). destruct (W1 (or_intror P2)) as (L & U). destruct (U C) as (N & D).
      inversion N; subst c. rewrite mem_cons, Z.eqb_refl. cbn [orb].
      unfold wok; cbn. repeat split; auto; intros; try lia; try (destruct H; lia).
    + unfold wok; cbn [ph wch wdiff wcan wsrc nextch closedch nch cst]. split; [exact W0|]. split; [|split].
      * intros Hp. destruct (W1 Hp) as (L & U). split; [exact L|]. rewrite mem_cons. intro C.
        apply orb_false_iff in C. destruct C as [C1 C2]. destruct (U C2) as (N & _). inversion N; subst.
        rewrite Z.eqb_refl in C1. discriminate.
      * intro; contradiction.
      * intro Hp. destruct (W4 Hp) as (K & D). split; [exact K|]. rewrite D, Hp. reflexivity.
  - unfold wake1; cbn [closedch cst]. destruct (Z.eqb_spec (ph x) 2) as [P2|P2]; cbn [andb].
    + destruct (W2 P2) as (C & S & K). destruct (W1 (or_intror P2)) as (L & U). destruct (U C) as (N & D). discriminate.
    + unfold wok; cbn [ph wch wdiff wcan wsrc nextch closedch nch cst]. split; [exact W0|]. split; [|split].
      * intros Hp. destruct (W1 Hp) as (L & U). split; [exact L|]. intro C. destruct (U C) as (N & _). discriminate.
      * intro; contradiction.
      * intro Hp. destruct (W4 Hp) as (K & D). split; [exact K|]. rewrite D, Hp. reflexivity.
Qed.

Lemma mok_update : forall m s, mok m -> mok (csm_update m s).
Proof.
  intros m s [M1 M2]. unfold csm_update. destruct (cst m =? 4); [split; assumption|].
  destruct (cst m =? s); [split; assumption|]. destruct (nch m) as [c|] eqn:Hn; split; cbn [nch closedch nextch]; intros; try discriminate.
  - rewrite mem_cons in H. apply orb_prop in H. destruct H as [H|H]; [apply Z.eqb_eq in H; subst; apply (M1 c eq_refl) | auto].
  - auto.
Qed.

Lemma mok_notify : forall m, mok m -> mok (fst (csm_notify m)).
Proof.
  intros m HM. pose proof HM as [M1 M2]. unfold csm_notify. destruct (nch m) as [c|] eqn:Hn; cbn [fst]; [exact HM|].
  split; cbn [nch closedch nextch]; intros.
  - inversion H; subst. split; [lia|]. destruct (mem (nextch m) (closedch m)) eqn:E; [apply M2 in E; lia|reflexivity].
  - apply M2 in H. lia.
Qed.

Lemma wok_notify : forall m x, mok m -> wok m x -> wok (fst (csm_notify m)) x.
Proof.
  intros m x [M1 M2] Hw. pose proof Hw as (W0 & W1 & W2 & W4). unfold csm_notify. destruct (nch m) as [c|] eqn:Hn; cbn [fst].
  { exact Hw. }
  unfold wok; cbn. split; [exact W0|]. split; [|split; [exact W2|exact W4]].
  intros Hp. destruct (W1 Hp) as (L & U). split; [lia|]. intro C. destruct (U C) as (N & _). discriminate.
Qed.

Lemma astep_inv : forall a o, invA a -> invA (astep a o).
Proof.
  intros a o [HM HF]. destruct o; cbn [astep]; try (split; assumption).
  - split; [apply mok_update; exact HM|]. cbn. apply Forall_forall. intros y Hy. apply in_map_iff in Hy.
    destruct Hy as (x & <- & Hx). apply wok_update; [exact HM|]. rewrite Forall_forall in HF. auto.
  - destruct (getw a w) as [x|] eqn:Hx; [|split; assumption]. destruct (Z.eqb_spec (ph x) 0) as [P0|P0]; [|split; assumption].
    pose proof (mok_notify _ HM) as HM'. destruct (csm_notify (cm a)) as [m c] eqn:Hn. cbn [fst] in HM'.
    split; [exact HM'|]. cbn [cm ws]. apply Forall_upd.
    + apply Forall_forall. intros y Hy. rewrite Forall_forall in HF. pose proof (wok_notify _ _ HM (HF y Hy)) as Hw.
      rewrite Hn in Hw. exact Hw.
    + unfold wok; cbn. split; [auto|]. split; [|split; intro; discriminate].
      intros _. unfold csm_notify in Hn. destruct HM as [M1 M2].
      destruct (nch (cm a)) as [c0|] eqn:Hc; inversion Hn; subst; cbn.
      * destruct (M1 c eq_refl) as [L C]. split; [exact L|]. intros _. split; [exact Hc|reflexivity].
      * split; [lia|]. intros _. split; reflexivity.
  - destruct (getw a w) as [x|] eqn:Hx; [|split; assumption]. destruct (Z.eqb_spec (ph x) 1) as [P1|P1]; [|split; assumption].
    split; [exact HM|]. cbn [cm ws]. apply Forall_upd; [exact HF|].
    pose proof (Forall_nth_error _ _ _ _ _ HF (getw_nth _ _ _ Hx)) as (W0 & W1 & W2 & W4).
    destruct (W1 (or_introl P1)) as (L & U).
    destruct (Z.eqb_spec (cst (cm a)) (wsrc x)) as [Es|Es]; cbn [negb].
    + destruct (mem (wch x) (closedch (cm a))) eqn:C.
      * unfold wok; cbn [ph wsrc wch wcan wdiff]. split; [auto 6|]. split; [intros [Q|Q]; discriminate Q|].
        split; intro Q; discriminate Q.
      * destruct (U eq_refl) as (N & D). destruct (wcan x) eqn:K.
        -- unfold wok; cbn [ph wsrc wch wcan wdiff]. split; [auto 6|]. split; [intros [Q|Q]; discriminate Q|].
           split; [intro Q; discriminate Q|]. intros _. split; [reflexivity|exact D].
        -- unfold wok; cbn [ph wsrc wch wcan wdiff]. split; [auto 6|]. split; [|split].
           ++ intros _. split; [exact L|]. intros _. split; [exact N|]. rewrite D, Es, Z.eqb_refl. reflexivity.
           ++ intros _. auto.
           ++ intro Q; discriminate Q.
    + unfold wok; cbn [ph wsrc wch wcan wdiff]. split; [auto 6|]. split; [intros [Q|Q]; discriminate Q|].
      split; intro Q; discriminate Q.
  - destruct (getw a w) as [x|] eqn:Hx; [|split; assumption]. destruct (wcan x) eqn:K; [split; assumption|].
    split; [exact HM|]. cbn [cm ws]. apply Forall_upd; [exact HF|].
    pose proof (Forall_nth_error _ _ _ _ _ HF (getw_nth _ _ _ Hx)) as (W0 & W1 & W2 & W4).
    destruct (Z.eqb_spec (ph x) 2) as [P2|P2].
    + destruct (W2 P2) as (C & S & _). destruct (W1 (or_intror P2)) as (L & U). destruct (U C) as (N & D).
      unfold wok; cbn [ph wsrc wch wcan wdiff]. split; [auto 6|]. split; [intros [Q|Q]; discriminate Q|].
      split; [intro Q; discriminate Q|]. intros _. split; [reflexivity|].
      rewrite D, S, Z.eqb_refl. reflexivity.
    + unfold wok; cbn [ph wsrc wch wcan wdiff]. split; [exact W0|]. split; [exact W1|]. split; [intro; contradiction|].
      intro P4. destruct (W4 P4). congruence.
Qed.

Lemma arun_inv : forall l a, invA a -> invA (arun a l).
Proof. induction l as [|o l IH]; intros a H; cbn; [exact H|]. apply IH, astep_inv, H. Qed.

Definition initA (n : nat) : stA := mkA csm0 (repeat w0 n).
Lemma initA_inv : forall n, invA (initA n).
Proof.
  intro n. split.
  - split; cbn; intros; discriminate.
  - apply Forall_forall. intros x Hx. apply repeat_spec in Hx. subst. unfold wok; cbn.
    split; [auto|]. split; [intros [Q|Q]; discriminate Q|]. split; intro Q; discriminate Q.
Qed.

(* "WaitForStateChange(s) returns true whenever the state differs from s at or after the
   call": a watcher for which that happened (ghost wdiff) is never blocked and never returns
   false; if it is still between its two critical sections, its next step returns true. *)
Theorem wait_true_if_differs : forall n l x, In x (ws (arun (initA n) l)) -> wdiff x = true ->
  ph x <> 2 /\ ph x <> 4.
Proof.
  intros n l x Hx Hd. destruct (arun_inv l _ (initA_inv n)) as [HM HF].
  rewrite Forall_forall in HF. destruct (HF x Hx) as (W0 & W1 & W2 & W4). split; intro P.
  - destruct (W2 P) as (C & S & _). destruct (W1 (or_intror P)) as (_ & U). destruct (U C) as (_ & D).
    rewrite S, Z.eqb_refl in D. cbn in D. congruence.
  - destruct (W4 P). congruence.
Qed.

Theorem wait_second_step_true : forall n l w x, let a := arun (initA n) l in
  getw a w = Some x -> ph x = 1 -> wdiff x = true ->
  exists x', getw (astep a (AW2 w)) w = Some x' /\ ph x' = 3.
Proof.
  intros n l w x a Hx P1 Hd. destruct (arun_inv l _ (initA_inv n)) as [HM HF]. fold a in HM, HF.
  pose proof (Forall_nth_error _ _ _ _ _ HF (getw_nth _ _ _ Hx)) as (W0 & W1 & W2 & W4).
  destruct (W1 (or_introl P1)) as (L & U).
  cbn [astep]. rewrite Hx. rewrite P1. cbn [Z.eqb Pos.eqb].
  eexists. split.
  - unfold getw in *. destruct (w <? 0); [discriminate|]. cbn [ws]. eapply nth_error_upd_eq; eauto.
  - cbn. destruct (Z.eqb_spec (cst (cm a)) (wsrc x)) as [E|E]; cbn; [|reflexivity].
    destruct (mem (wch x) (closedch (cm a))) eqn:C; [reflexivity|]. destruct (U eq_refl) as (_ & D).
    cbn in D. congruence.
Qed.

(* a blocked watcher is released by the update that changes the state; false only by its context *)
Theorem blocked_released_by_change : forall n l s x, let a := arun (initA n) l in
  In x (ws a) -> ph x = 2 -> cst (cm a) <> 4 -> s <> cst (cm a) ->
  ph (wake1 (csm_update (cm a) s) x) = 3.
Proof.
  intros n l s x a Hx P2 H4 Hs. destruct (arun_inv l _ (initA_inv n)) as [HM HF]. fold a in HM, HF.
  rewrite Forall_forall in HF. destruct (HF x Hx) as (W0 & W1 & W2 & W4).
  destruct (W2 P2) as (C & S & K). destruct (W1 (or_intror P2)) as (L & U). destruct (U C) as (N & D).
  unfold csm_update. destruct (Z.eqb_spec (cst (cm a)) 4); [contradiction|].
  destruct (Z.eqb_spec (cst (cm a)) s); [congruence|]. rewrite N. unfold wake1; cbn.
  rewrite P2. cbn. rewrite Z.eqb_refl. reflexivity.
Qed.

Theorem false_only_if_cancelled : forall n l x, In x (ws (arun (initA n) l)) -> ph x = 4 -> wcan x = true.
Proof.
  intros n l x Hx P. destruct (arun_inv l _ (initA_inv n)) as [HM HF].
  rewrite Forall_forall in HF. destruct (HF x Hx) as (_ & _ & _ & W4). apply W4, P.
Qed.

(* ================= Part B ================= *)
Lemma allowed_spec : forall o n, allowed o n = true <->
  o <> 4 /\ o <> n /\ (n = 2 -> o = 1) /\ (o = 3 -> n = 0 \/ n = 4).
Proof.
  intros o n. unfold allowed.
  destruct (Z.eqb_spec o 4), (Z.eqb_spec o n), (Z.eqb_spec n 2), (Z.eqb_spec o 1), (Z.eqb_spec o 3),
    (Z.eqb_spec n 0), (Z.eqb_spec n 4); cbn; split; intro H; try discriminate; try reflexivity;
    try (repeat split; intros; lia); try (destruct H as (H1 & H2 & H3 & H4); lia).
Qed.

Lemma last_default : forall (l : list Z) x d1 d2, last (x :: l) d1 = last (x :: l) d2.
Proof. induction l as [|y l IH]; intros; [reflexivity|]. change (last (y :: l) d1 = last (y :: l) d2). apply IH. Qed.
Lemma last_cons : forall (l : list Z) x d, last (x :: l) d = last l x.
Proof. destruct l as [|y l]; intros; [reflexivity|]. change (last (y :: l) d = last (y :: l) x). apply last_default. Qed.

Lemma chain_ok_app : forall l o n, chain_ok o (l ++ [n]) = chain_ok o l && allowed (last l o) n.
Proof.
  induction l as [|x l IH]; intros o n; cbn [app chain_ok].
  - cbn. rewrite andb_true_r. reflexivity.
  - rewrite IH, last_cons. rewrite andb_assoc. reflexivity.
Qed.

Lemma chain_ok_split : forall a b o, chain_ok o (a ++ b) = chain_ok o a && chain_ok (last a o) b.
Proof.
  induction a as [|x a IH]; intros b o; cbn [app chain_ok].
  - reflexivity.
  - rewrite IH, last_cons, andb_assoc. reflexivity.
Qed.

Lemma chain_nothing_after_4 : forall l o r, chain_ok o (l ++ 4 :: r) = true -> r = [].
Proof.
  intros l o r H. rewrite chain_ok_split in H. apply andb_prop in H. destruct H as [_ H].
  destruct r as [|y r]; [reflexivity|]. cbn [chain_ok] in H.
  apply andb_prop in H. destruct H as [_ H]. apply andb_prop in H. destruct H as [H _].
  unfold allowed in H. cbn in H. discriminate.
Qed.

Lemma last_app1 : forall (l : list Z) x d, last (l ++ [x]) d = x.
Proof. induction l as [|y l IH]; intros; [reflexivity|]. cbn [app]. rewrite last_cons. apply IH. Qed.
Lemma last_app : forall (a b : list Z) d, last (a ++ b) d = last b (last a d).
Proof.
  induction a as [|x a IH]; intros b d; cbn [app]; [reflexivity|]. rewrite !last_cons. apply IH.
Qed.

Definition invB (b : stB) : Prop :=
  (phase b = 1 -> ast b = 1) /\ (phase b = 2 -> ast b = 3) /\ (phase b = 0 \/ phase b = 1 \/ phase b = 2) /\
  (ast b = 4 -> phase b = 0 /\ tr b = false) /\ (tr b = true -> ast b = 2) /\
  (lbopen b = true -> dl b ++ q b = hist b) /\ (exists rest, hist b = dl b ++ rest) /\
  chain_ok 0 (hist b) = true /\ ast b = last (hist b) 0 /\
  (ccclosed b = true -> chs b = 4 /\ lbopen b = false /\ ast b = 4).

(* emitting an allowed transition keeps the history a chain *)
Lemma emit_hist : forall b s, chain_ok 0 (hist b) = true -> ast b = last (hist b) 0 ->
  (ast b = s \/ allowed (ast b) s = true) ->
  chain_ok 0 (hist (emit b s)) = true /\ ast (emit b s) = last (hist (emit b s)) 0 /\ ast (emit b s) = s /\
  (lbopen b = true -> dl b ++ q b = hist b -> dl (emit b s) ++ q (emit b s) = hist (emit b s)) /\
  ((exists rest, hist b = dl b ++ rest) -> exists rest, hist (emit b s) = dl (emit b s) ++ rest) /\
  phase (emit b s) = phase b /\ tr (emit b s) = tr b /\ lbopen (emit b s) = lbopen b /\
  ccclosed (emit b s) = ccclosed b /\ chs (emit b s) = chs b /\ dl (emit b s) = dl b.
Proof.
  intros b s Hc Hl Ha. unfold emit. destruct (Z.eqb_spec (ast b) s) as [E|E].
  - repeat split; auto.
  - destruct Ha as [Ha|Ha]; [contradiction|]. cbn.
    split; [rewrite chain_ok_app, Hc, <- Hl, Ha; reflexivity|].
    split; [rewrite last_app1; reflexivity|]. split; [reflexivity|].
    split; [intros _ Hq; rewrite app_assoc, Hq; reflexivity|].
    split; [intros [rest Hr]; exists (rest ++ [s]); rewrite Hr, app_assoc; reflexivity|].
    repeat split; reflexivity.
Qed.

Lemma inv_emit_phase : forall b t s ph',
  invB b -> (ast b = s \/ allowed (ast b) s = true) ->
  (ph' = 1 -> s = 1) -> (ph' = 2 -> s = 3) -> (ph' = 0 \/ ph' = 1 \/ ph' = 2) ->
  (s = 4 -> ph' = 0 /\ t = false) -> (t = true -> s = 2) -> (ccclosed b = true -> s = 4) ->
  invB (set_phase (emit (set_tr b t) s) ph').
Proof.
  intros b t s ph' (I1&I2&I3&I4&I5&I6&I7&I8&I9&I10) Ha P1 P2 P3 P4 P5 P6.
  destruct (emit_hist (set_tr b t) s I8 I9 Ha) as (E1&E2&E3&E4&E5&E6&E7&E8&E9&E10&E11).
  unfold invB, set_phase; cbn [ast phase tr q lbopen dl hist chs ccclosed].
  rewrite E3, E7, E8, E9, E10. cbn [set_tr tr lbopen ccclosed chs].
  split; [exact P1|]. split; [exact P2|]. split; [exact P3|]. split; [exact P4|]. split; [exact P5|].
  split; [intro Ho; apply E4; [exact Ho|apply I6; exact Ho]|]. split; [apply E5; exact I7|].
  split; [exact E1|]. split; [rewrite <- E2; symmetry; exact E3|].
  intro Hc. destruct (I10 Hc) as (C1&C2&C3). split; [exact C1|]. split; [exact C2|]. apply P6, Hc.
Qed.

Lemma invB_same : forall b, invB b -> invB (set_phase (emit (set_tr b (tr b)) (ast b)) (phase b)).
Proof.
  intros b H. pose proof H as (I1&I2&I3&I4&I5&I6&I7&I8&I9&I10).
  apply inv_emit_phase; auto. intro Hc. apply I10, Hc.
Qed.

Lemma bstep_inv : forall b o, invB b -> invB (bstep b o).
Proof.
  intros b o H. pose proof H as (I1&I2&I3&I4&I5&I6&I7&I8&I9&I10).
  destruct o; cbn [bstep]; try exact H.
  - (* connect *)
    destruct (Z.eqb_spec (ast b) 0) as [E0|E0]; cbn [andb]; [|exact H].
    destruct (Z.eqb_spec (phase b) 0) as [P0|P0]; [|exact H].
    replace (emit b 1) with (emit (set_tr b (tr b)) 1) by (destruct b; reflexivity).
    apply inv_emit_phase; auto; try (intros; lia).
    + right. rewrite E0. reflexivity.
    + intro T. apply I5 in T. lia.
    + intro Hc. destruct (I10 Hc) as (_&_&?). lia.
  - (* dial result *)
    destruct (Z.eqb_spec (phase b) 1) as [P1|P1]; [|exact H]. specialize (I1 P1).
    destruct ok.
    + apply inv_emit_phase; auto; try (intros; lia).
      * right. rewrite I1. reflexivity.
      * intro Hc. destruct (I10 Hc) as (_&_&?). lia.
    + replace (emit b 3) with (emit (set_tr b (tr b)) 3) by (destruct b; reflexivity).
      apply inv_emit_phase; auto; try (intros; lia).
      * right. rewrite I1. reflexivity.
      * intro T. apply I5 in T. lia.
      * intro Hc. destruct (I10 Hc) as (_&_&?). lia.
  - (* server closes *)
    destruct (tr b) eqn:T; cbn [andb]; [|exact H]. destruct (Z.eqb_spec (ast b) 4) as [E4|E4]; [exact H|]. cbn [negb].
    specialize (I5 eq_refl).
    replace (emit (set_tr b false) 0) with (set_phase (emit (set_tr b false) 0) (phase b)) by (unfold emit, set_phase; cbn; destruct (ast b =? 0); reflexivity).
    assert (P0 : phase b = 0) by (destruct I3 as [?|[P|P]]; [assumption|apply I1 in P; lia|apply I2 in P; lia]).
    rewrite P0. apply inv_emit_phase; auto; try (intros; lia); try (intros; discriminate).
    + right. rewrite I5. reflexivity.
    + intro Hc. destruct (I10 Hc) as (_&_&?). lia.
  - (* timer *)
    destruct (Z.eqb_spec (phase b) 2) as [P2|P2]; [|exact H]. specialize (I2 P2).
    replace (emit b 0) with (emit (set_tr b (tr b)) 0) by (destruct b; reflexivity).
    apply inv_emit_phase; auto; try (intros; lia).
    + right. rewrite I2. reflexivity.
    + intro T. apply I5 in T. lia.
    + intro Hc. destruct (I10 Hc) as (_&_&?). lia.
  - (* SubConn.Shutdown *)
    unfold teardown. destruct (Z.eqb_spec (ast b) 4) as [E4|E4]; [exact H|].
    apply inv_emit_phase; auto; try (intros; lia); try (intros; discriminate).
    right. apply allowed_spec. repeat split; auto; intros; lia.
  - (* ClientConn.Close *)
    destruct (ccclosed b) eqn:Hcc; [exact H|].
    assert (Ht : invB (teardown b)).
    { unfold teardown. destruct (Z.eqb_spec (ast b) 4) as [E4|E4]; [exact H|].
      apply inv_emit_phase; auto; try (intros; lia); try (intros; discriminate).
      right. apply allowed_spec. repeat split; auto; intros; lia. }
    assert (H4 : ast (teardown b) = 4).
    { unfold teardown. destruct (Z.eqb_spec (ast b) 4) as [E4|E4]; [exact E4|].
      unfold set_phase, emit; cbn. destruct (Z.eqb_spec (ast b) 4); [contradiction|reflexivity]. }
    destruct Ht as (J1&J2&J3&J4&J5&J6&J7&J8&J9&J10).
    unfold invB; cbn [ast phase tr q lbopen dl hist chs ccclosed].
    repeat (split; [assumption|]). split; [intro; discriminate|]. repeat (split; [assumption|]).
    intros _. auto.
  - (* reset back-off *)
    destruct (Z.eqb_spec (phase b) 2) as [P2|P2]; [|exact H]. specialize (I2 P2).
    replace (emit b 0) with (emit (set_tr b (tr b)) 0) by (destruct b; reflexivity).
    apply inv_emit_phase; auto; try (intros; lia).
    + right. rewrite I2. reflexivity.
    + intro T. apply I5 in T. lia.
    + intro Hc. destruct (I10 Hc) as (_&_&?). lia.
  - (* updateAddrs *)
    destruct fresh; [|exact H]. destruct (Z.eqb_spec (ast b) 2) as [E2|E2]; [|exact H].
    apply inv_emit_phase; auto; try (intros; lia); try (intros; discriminate).
    + right. rewrite E2. reflexivity.
    + intro Hc. destruct (I10 Hc) as (_&_&?). lia.
  - (* deliver *)
    destruct (q b) as [|s r] eqn:Hq; [exact H|].
    destruct (lbopen b) eqn:Ho.
    + unfold invB; cbn [ast phase tr q lbopen dl hist chs ccclosed].
      repeat (split; [assumption|]).
      split; [intros _; rewrite <- app_assoc; cbn; apply I6; reflexivity|].
      split; [exists r; rewrite <- app_assoc; cbn; symmetry; apply I6; reflexivity|].
      repeat (split; [assumption|]). intro Hc. destruct (I10 Hc) as (_&?&_). discriminate.
    + unfold invB; cbn [ast phase tr q lbopen dl hist chs ccclosed].
      repeat (split; [assumption|]). split; [intro; discriminate|]. repeat (split; [assumption|]). exact I10.
Qed.

Lemma stB0_inv : invB stB0.
Proof.
  unfold invB, stB0; cbn. repeat split; auto; try (intros; discriminate). exists []. reflexivity.
Qed.

Lemma brun_inv : forall l b, invB b -> invB (brun b l).
Proof. induction l as [|o l IH]; intros b H; cbn; [exact H|]. apply IH, bstep_inv, H. Qed.

(* "sub-channel states only take allowed transitions": the sequence of all state updates the
   addrConn ever emits, starting from IDLE, is a chain of allowed transitions *)
Theorem ac_transitions_allowed : forall l, chain_ok 0 (hist (brun stB0 l)) = true.
Proof. intro l. destruct (brun_inv l _ stB0_inv) as (_&_&_&_&_&_&_&H&_). exact H. Qed.

(* "updates reach the LB policy in the order they happened": what was delivered is a prefix
   of what was emitted; and everything emitted is delivered or still queued while the
   balancer wrapper is open *)
Theorem lb_delivery_in_order : forall l, let b := brun stB0 l in
  (exists rest, hist b = dl b ++ rest) /\ (lbopen b = true -> dl b ++ q b = hist b).
Proof. intro l. destruct (brun_inv l _ stB0_inv) as (_&_&_&_&_&H6&H7&_). split; assumption. Qed.

(* "none arrive after the subchannel is shut down" *)
Theorem nothing_delivered_after_shutdown : forall l pre post, dl (brun stB0 l) = pre ++ 4 :: post -> post = [].
Proof.
  intros l pre post Hd. destruct (brun_inv l _ stB0_inv) as (_&_&_&_&_&_&(rest&Hr)&Hc&_).
  rewrite Hr, Hd, chain_ok_split in Hc. apply andb_prop in Hc. destruct Hc as [Hc _].
  eapply chain_nothing_after_4; eauto.
Qed.

(* "leaves TRANSIENT_FAILURE only to IDLE after backoff or to SHUTDOWN", "nothing leaves
   SHUTDOWN", "READY only from CONNECTING", per step in every reachable state *)
Lemma teardown_ast : forall b, ast (teardown b) = 4.
Proof.
  intro b. unfold teardown. destruct (Z.eqb_spec (ast b) 4) as [E|E]; [exact E|].
  unfold set_phase, emit; cbn. destruct (Z.eqb_spec (ast b) 4); [contradiction|reflexivity].
Qed.

Theorem tf_exits : forall l o, let b := brun stB0 l in ast b = 3 -> ast (bstep b o) <> 3 ->
  (ast (bstep b o) = 0 /\ (o = BTimer \/ o = BReset)) \/ (ast (bstep b o) = 4 /\ (o = BShutdown \/ o = BClose)).
Proof.
  intros l o b H3 Hn. pose proof (brun_inv l _ stB0_inv) as (I1&I2&I3&I4&I5&I6&I7&I8&I9&I10). fold b in I1, I2, I3, I4, I5, I10.
  destruct o; cbn [bstep] in *.
  - rewrite H3 in Hn. cbn in Hn. contradiction.
  - destruct (Z.eqb_spec (phase b) 1) as [P|P]; [apply I1 in P; lia|contradiction].
  - destruct (tr b) eqn:T; [specialize (I5 eq_refl); lia|]. cbn in Hn. contradiction.
  - destruct (Z.eqb_spec (phase b) 2) as [P|P]; [|contradiction]. left. split; [|auto].
    unfold set_phase, emit; cbn. rewrite H3. reflexivity.
  - right. split; [apply teardown_ast|auto].
  - right. destruct (ccclosed b) eqn:Hc; [destruct (I10 eq_refl) as (_&_&?); lia|]. split; [|auto].
    cbn. apply teardown_ast.
  - destruct (Z.eqb_spec (phase b) 2) as [P|P]; [|contradiction]. left. split; [|auto].
    unfold set_phase, emit; cbn. rewrite H3. reflexivity.
  - destruct fresh; [|contradiction]. rewrite H3 in Hn. cbn in Hn. contradiction.
  - destruct (q b); [contradiction|]. destruct (lbopen b); cbn in Hn; contradiction.
  - contradiction.
Qed.

(* an address update while the sub-channel is backing off (or IDLE, or SHUTDOWN) changes
   nothing that is reported: the back-off is not cut short *)
Theorem upd_addrs_not_connecting : forall b fresh, ast b = 3 \/ ast b = 0 \/ ast b = 4 ->
  bstep b (BUpdAddrs fresh) = b.
Proof.
  intros b fresh H. cbn [bstep]. destruct fresh; [|reflexivity].
  destruct (Z.eqb_spec (ast b) 2); [lia|reflexivity].
Qed.

Theorem shutdown_is_final : forall l o, let b := brun stB0 l in ast b = 4 -> ast (bstep b o) = 4.
Proof.
  intros l o b H4. pose proof (brun_inv l _ stB0_inv) as (I1&I2&I3&I4&I5&_). fold b in I1, I2, I3, I4, I5.
  destruct (I4 H4) as [P0 T]. destruct o; cbn [bstep].
  - rewrite H4. cbn. exact H4.
  - rewrite P0. exact H4.
  - rewrite T. exact H4.
  - rewrite P0. exact H4.
  - apply teardown_ast.
  - destruct (ccclosed b); [exact H4|]. cbn. apply teardown_ast.
  - rewrite P0. exact H4.
  - destruct fresh; [|exact H4]. rewrite H4. cbn. exact H4.
  - destruct (q b); [exact H4|]. destruct (lbopen b); exact H4.
  - exact H4.
Qed.

Theorem ready_only_from_connecting : forall l o, let b := brun stB0 l in
  ast b <> 2 -> ast (bstep b o) = 2 -> ast b = 1 /\ o = BDial true.
Proof.
  intros l o b Hn H2. pose proof (brun_inv l _ stB0_inv) as (I1&I2&I3&I4&I5&_). fold b in I1, I2, I3, I4, I5.
  destruct o; cbn [bstep] in H2.
  - destruct ((ast b =? 0) && (phase b =? 0)); [|contradiction]. unfold set_phase, emit in H2; cbn in H2.
    destruct (ast b =? 1); cbn in H2; lia.
  - destruct (Z.eqb_spec (phase b) 1) as [P|P]; [|contradiction]. split; [auto|]. destruct ok; [reflexivity|].
    unfold set_phase, emit in H2; cbn in H2. destruct (ast b =? 3); cbn in H2; lia.
  - destruct (tr b && negb (ast b =? 4)); [|contradiction]. unfold emit in H2; cbn in H2. destruct (ast b =? 0) eqn:E; cbn in H2; [apply Z.eqb_eq in E|]; lia.
  - destruct (phase b =? 2); [|contradiction]. unfold set_phase, emit in H2; cbn in H2. destruct (ast b =? 0) eqn:E; cbn in H2; [apply Z.eqb_eq in E|]; lia.
  - rewrite teardown_ast in H2. lia.
  - destruct (ccclosed b); [contradiction|]. cbn in H2. rewrite teardown_ast in H2. lia.
  - destruct (phase b =? 2); [|contradiction]. unfold set_phase, emit in H2; cbn in H2. destruct (ast b =? 0) eqn:E; cbn in H2; [apply Z.eqb_eq in E|]; lia.
  - destruct fresh; [|contradiction]. destruct (Z.eqb_spec (ast b) 2); [contradiction|]. contradiction.
  - destruct (q b); [contradiction|]. destruct (lbopen b); cbn in H2; contradiction.
  - contradiction.
Qed.

(* ================= bridge: clauses hold on model traces ================= *)
Lemma all2_id : forall f l, (forall x, In x l -> f x (ph x) = true) -> all2 f l (map ph l) = true.
Proof.
  intros f. induction l as [|x l IH]; intro H; cbn; [reflexivity|].
  rewrite H by (left; reflexivity). rewrite IH; [reflexivity|]. intros; apply H; right; assumption.
Qed.
Lemma all2_upd : forall f l n x x', nth_error l n = Some x ->
  (forall y, In y l -> f y (ph y) = true) -> f x (ph x') = true -> all2 f l (map ph (upd l n x')) = true.
Proof.
  intros f. induction l as [|y l IH]; intros [|n] x x' Hn Hid Hx; cbn in *; try discriminate.
  - inversion Hn; subst. rewrite Hx. cbn. apply all2_id. intros; apply Hid; right; assumption.
  - rewrite Hid by (left; reflexivity). cbn. apply (IH n x x' Hn); [intros; apply Hid; right; assumption|exact Hx].
Qed.
Lemma all2_map : forall f g l, (forall x, In x l -> f x (ph (g x)) = true) -> all2 f l (map ph (map g l)) = true.
Proof.
  intros f g. induction l as [|x l IH]; intro H; cbn; [reflexivity|].
  rewrite H by (left; reflexivity). rewrite IH; [reflexivity|]. intros; apply H; right; assumption.
Qed.
Lemma upd_upd : forall A (l : list A) n x y, upd (upd l n x) n y = upd l n y.
Proof. induction l as [|z l IH]; intros [|n] x y; cbn; auto. rewrite IH. reflexivity. Qed.

Lemma watch1_id : forall c op x, (ph x = 0 \/ ph x = 1 \/ ph x = 2 \/ ph x = 3 \/ ph x = 4) ->
  watch1 c c op x (ph x) = true.
Proof.
  intros c op x H. unfold watch1. rewrite Z.eqb_refl. cbn [negb].
  destruct (Z.eqb_spec (ph x) 2) as [E|E]; [rewrite E; reflexivity|].
  destruct (Z.eqb_spec (ph x) 0) as [E0|E0]; [rewrite E0; reflexivity|]. destruct (ph x =? 1); [reflexivity|apply Z.eqb_refl].
Qed.

Lemma decA_other : forall op, (forall s, op <> [1; s]) -> op <> [2] -> (forall w s, op <> [3; w; s]) ->
  (forall w, op <> [4; w]) -> decA op = [] /\ forall c, lastpub c op = c.
Proof.
  intros op H1 H2 H3 H4.
  destruct op as [|k [|a1 [|a2 [|a3 r]]]]; try (split; reflexivity);
    (destruct k as [|p|p]; [split; reflexivity| |split; reflexivity]);
    (destruct p as [p|p|]; try destruct p as [p|p|]; try destruct p as [p|p|]; try (split; reflexivity));
    try (exfalso; eapply H1; reflexivity); try (exfalso; apply H2; reflexivity);
    try (exfalso; eapply H3; reflexivity); try (exfalso; eapply H4; reflexivity).
Qed.

Lemma clausesA_same : forall a op, invA a -> arun a (decA op) = a -> lastpub (cst (cm a)) op = cst (cm a) ->
  forallb (fun c => snd c) (clausesA_op a op (obsA (arun a (decA op)))) = true.
Proof.
  intros a op [HM HF] Hr Hl. rewrite Hr. unfold clausesA_op, obsA. cbn [forallb snd]. rewrite Hl, Z.eqb_refl. cbn [andb].
  rewrite andb_true_r. apply all2_id. intros x Hx. apply watch1_id.
  rewrite Forall_forall in HF. destruct (HF x Hx) as (W0&_). exact W0.
Qed.

Lemma clausesA_step : forall a op, invA a ->
  forallb (fun c => snd c) (clausesA_op a op (obsA (arun a (decA op)))) = true.
Proof.
  intros a op Hinv. pose proof Hinv as [HM HF].
  assert (Hph : forall x, In x (ws a) -> ph x = 0 \/ ph x = 1 \/ ph x = 2 \/ ph x = 3 \/ ph x = 4).
  { intros x Hx. rewrite Forall_forall in HF. destruct (HF x Hx) as (W0&_). exact W0. }
  assert (Hnop : arun a (decA op) = a -> lastpub (cst (cm a)) op = cst (cm a) ->
                 forallb (fun c => snd c) (clausesA_op a op (obsA (arun a (decA op)))) = true)
    by (apply clausesA_same; exact Hinv).
  assert (Hcase : (exists s, op = [1; s]) \/ op = [2] \/ (exists w s, op = [3; w; s]) \/ (exists w, op = [4; w]) \/
                  ((forall s, op <> [1; s]) /\ op <> [2] /\ (forall w s, op <> [3; w; s]) /\ (forall w, op <> [4; w]))).
  { destruct op as [|k [|a1 [|a2 [|a3 r]]]].
    - right; right; right; right. repeat split; intros; discriminate.
    - destruct (Z.eq_dec k 2) as [->|K]; [auto|]. right; right; right; right. repeat split; intros; congruence.
    - destruct (Z.eq_dec k 1) as [->|K1]; [left; eauto|]. destruct (Z.eq_dec k 4) as [->|K4]; [right; right; right; left; eauto|].
      right; right; right; right. repeat split; intros; congruence.
    - destruct (Z.eq_dec k 3) as [->|K3]; [right; right; left; eauto|].
      right; right; right; right. repeat split; intros; congruence.
    - right; right; right; right. repeat split; intros; discriminate. }
  destruct Hcase as [(a1 & ->)|[->|[(a1 & a2 & ->)|[(a1 & ->)|(H1&H2&H3&H4)]]]].
  5:{ destruct (decA_other op H1 H2 H3 H4) as [Hd Hl]. apply Hnop; [rewrite Hd; reflexivity|apply Hl]. }
  2:{ apply Hnop; reflexivity. }
  - (* update *)
    destruct ((0 <=? a1) && (a1 <=? 4)) eqn:V.
    2:{ apply Hnop; [cbn [decA]; rewrite V; reflexivity|cbn [lastpub]; rewrite V; reflexivity]. }
    cbn [decA]. rewrite V. unfold clausesA_op, obsA. cbn [arun astep cm ws lastpub]. rewrite V. cbn [andb].
    set (m' := csm_update (cm a) a1).
    assert (Hc : cst m' = if cst (cm a) =? 4 then cst (cm a) else a1).
    { pose proof (astep_cst a (AUpdate a1)) as E. cbn in E. exact E. }
    cbn [forallb snd]. rewrite Hc.
    destruct (Z.eqb_spec (cst (cm a)) 4) as [E4|E4]; cbn [negb]; rewrite Z.eqb_refl; cbn [andb];
      rewrite andb_true_r; apply all2_map; intros x Hx; rewrite Forall_forall in HF;
      pose proof (HF x Hx) as Hw; pose proof Hw as (W0&W1&W2&W4).
    + (* shutdown: csm unchanged *)
      assert (Em : m' = cm a) by (unfold m', csm_update; destruct (Z.eqb_spec (cst (cm a)) 4); [reflexivity|contradiction]).
      rewrite Em. unfold wake1.
      destruct (Z.eqb_spec (ph x) 2) as [P2|P2]; cbn [andb].
      * destruct (W2 P2) as (C&_). rewrite C. cbn [ph]. apply watch1_id. auto.
      * cbn [ph]. apply watch1_id, W0.
    + destruct (Z.eqb_spec (cst (cm a)) a1) as [Es|Es].
      * assert (Em : m' = cm a).
        { unfold m', csm_update. destruct (cst (cm a) =? 4); [reflexivity|]. rewrite Es, Z.eqb_refl. reflexivity. }
        rewrite Em, <- Es. unfold wake1.
        destruct (Z.eqb_spec (ph x) 2) as [P2|P2]; cbn [andb].
        -- destruct (W2 P2) as (C&_). rewrite C. cbn [ph]. apply watch1_id. auto.
        -- cbn [ph]. apply watch1_id, W0.
      * unfold watch1. destruct (Z.eqb_spec (cst (cm a)) a1); [contradiction|]. cbn [negb].
        unfold wake1. destruct (Z.eqb_spec (ph x) 2) as [P2|P2]; cbn [andb].
        -- destruct (W2 P2) as (C&S&K). destruct (W1 (or_intror P2)) as (L&U). destruct (U C) as (N&D).
           unfold m', csm_update. destruct (Z.eqb_spec (cst (cm a)) 4); [contradiction|].
           destruct (Z.eqb_spec (cst (cm a)) a1); [contradiction|]. rewrite N. cbn [closedch].
           rewrite mem_cons, Z.eqb_refl. reflexivity.
        -- cbn [ph]. destruct (Z.eqb_spec (ph x) 0) as [P0|P0]; [try rewrite P0; reflexivity|destruct (ph x =? 1); [reflexivity|apply Z.eqb_refl]].
  - (* start a watcher *)
    destruct ((0 <=? a2) && (a2 <=? 4)) eqn:V; [|apply Hnop; [cbn [decA]; rewrite V; reflexivity|reflexivity]].
    destruct (getw a a1) as [x|] eqn:Hx.
    2:{ apply Hnop; [|reflexivity]. cbn [decA]. rewrite V. cbn [arun astep]. rewrite Hx. cbn [astep]. rewrite Hx. reflexivity. }
    pose proof (getw_nth _ _ _ Hx) as Hnx.
    destruct (Z.eqb_spec (ph x) 0) as [P0|P0].
    2:{ destruct (Z.eqb_spec (ph x) 1) as [P1|P1].
        2:{ apply Hnop; [|reflexivity]. cbn [decA]. rewrite V. cbn [arun astep]. rewrite Hx.
            destruct (Z.eqb_spec (ph x) 0); [contradiction|]. cbn [astep]. rewrite Hx.
            destruct (Z.eqb_spec (ph x) 1); [contradiction|reflexivity]. }
        cbn [decA]. rewrite V. cbn [arun astep]. rewrite Hx.
        destruct (Z.eqb_spec (ph x) 0); [contradiction|]. cbn [astep]. rewrite Hx.
        destruct (Z.eqb_spec (ph x) 1); [|contradiction].
        unfold clausesA_op, obsA. cbn [cm ws forallb snd lastpub]. rewrite Z.eqb_refl. cbn [andb]. rewrite andb_true_r.
        eapply all2_upd; [exact Hnx|intros y Hy; apply watch1_id, Hph, Hy|].
        unfold watch1. rewrite P1. reflexivity. }
    pose proof (mok_notify _ HM) as HM1.
    assert (Hcn : nch (fst (csm_notify (cm a))) = Some (snd (csm_notify (cm a))) /\
                  cst (fst (csm_notify (cm a))) = cst (cm a)).
    { unfold csm_notify. destruct (nch (cm a)) eqn:E; cbn; auto. }
    assert (Hlt : (a1 <? 0) = false) by (unfold getw in Hx; destruct (a1 <? 0); [discriminate|reflexivity]).
    cbn [decA]. rewrite V. cbn [arun astep]. rewrite Hx.
    destruct (Z.eqb_spec (ph x) 0); [|contradiction].
    destruct (csm_notify (cm a)) as [m1 c] eqn:Hn. cbn [fst snd] in *. destruct Hcn as [Hc1 Hc2].
    cbn [astep]. unfold getw. cbn [ws]. rewrite Hlt, (nth_error_upd_eq _ _ _ _ _ Hnx). cbn [ph Z.eqb Pos.eqb cm ws wsrc wch wcan].
    rewrite upd_upd. unfold clausesA_op, obsA. cbn [cm ws forallb snd lastpub]. rewrite Hc2, Z.eqb_refl. cbn [andb]. rewrite andb_true_r.
    unfold watch_ok. eapply all2_upd; [exact Hnx|intros y Hy; apply watch1_id, Hph, Hy|].
    cbn [ph]. unfold watch1. rewrite P0. cbn [Z.eqb]. rewrite V. cbn [andb].
    destruct HM1 as [N1 _]. destruct (N1 c Hc1) as [_ Cc]. rewrite Cc.
    destruct (Z.eqb_spec (cst (cm a)) a2) as [Es|Es]; cbn [negb].
    + destruct (wcan x); reflexivity.
    + reflexivity.
  - (* cancel *)
    destruct (getw a a1) as [x|] eqn:Hx.
    2:{ apply Hnop; [|reflexivity]. cbn [decA arun astep]. rewrite Hx. reflexivity. }
    destruct (wcan x) eqn:K.
    { apply Hnop; [|reflexivity]. cbn [decA arun astep]. rewrite Hx, K. reflexivity. }
    cbn [decA arun astep]. rewrite Hx, K.
    unfold clausesA_op, obsA. cbn [cm ws forallb snd lastpub]. rewrite Z.eqb_refl. cbn [andb].
    rewrite andb_true_r. pose proof (getw_nth _ _ _ Hx) as Hn.
    eapply all2_upd; [exact Hn| |].
    + intros y Hy. apply watch1_id, Hph, Hy.
    + cbn [ph]. unfold watch1. rewrite Z.eqb_refl. cbn [negb].
      destruct (Z.eqb_spec (ph x) 2) as [P2|P2]; [reflexivity|].
      destruct (Z.eqb_spec (ph x) 0) as [P0|P0]; [try rewrite P0; reflexivity|destruct (ph x =? 1); [reflexivity|apply Z.eqb_refl]].
Qed.

(* ---------- part B bridge ---------- *)
Lemma drain_facts : forall fuel b, (length (q b) < fuel)%nat ->
  q (drain fuel b) = [] /\ ast (drain fuel b) = ast b /\ lbopen (drain fuel b) = lbopen b /\
  ccclosed (drain fuel b) = ccclosed b /\ hist (drain fuel b) = hist b /\
  dl (drain fuel b) = dl b ++ (if lbopen b then q b else []).
Proof.
  induction fuel as [|f IH]; intros b Hf; [lia|]. cbn [drain].
  destruct (q b) as [|s r] eqn:Hq.
  - rewrite Hq. destruct (lbopen b); rewrite app_nil_r; repeat split; reflexivity.
  - cbn [bstep]. rewrite Hq. destruct (lbopen b) eqn:Ho.
    + match goal with |- context [drain f ?b'] => destruct (IH b') as (A1&A2&A3&A4&A5&A6); [cbn; cbn in Hf; lia|] end.
      cbn [q ast lbopen ccclosed hist dl] in *. rewrite A1, A2, A3, A4, A5, A6. rewrite <- app_assoc. repeat split; reflexivity.
    + match goal with |- context [drain f ?b'] => destruct (IH b') as (A1&A2&A3&A4&A5&A6); [cbn; cbn in Hf; lia|] end.
      cbn [q ast lbopen ccclosed hist dl] in *. rewrite A1, A2, A3, A4, A5, A6. repeat split; reflexivity.
Qed.

Lemma drain_inv : forall fuel b, invB b -> invB (drain fuel b).
Proof.
  induction fuel as [|f IH]; intros b H; cbn [drain]; [exact H|].
  destruct (q b); [exact H|]. apply IH. apply (bstep_inv b BDeliver H).
Qed.

Definition newl (b b' : stB) : list Z := if ast b' =? ast b then [] else [ast b'].

Lemma emit_new : forall b s, hist (emit b s) = hist b ++ newl b (emit b s) /\ q (emit b s) = q b ++ newl b (emit b s) /\
  dl (emit b s) = dl b /\ lbopen (emit b s) = lbopen b.
Proof.
  intros b s. unfold emit, newl. destruct (Z.eqb_spec (ast b) s) as [E|E].
  - rewrite Z.eqb_refl, !app_nil_r. auto.
  - cbn. destruct (Z.eqb_spec s (ast b)); [congruence|]. auto.
Qed.

(* one non-deliver step emits at most one update: the new state, if it changed *)
Lemma bstep_new : forall b o, o <> BDeliver ->
  hist (bstep b o) = hist b ++ newl b (bstep b o) /\ dl (bstep b o) = dl b /\
  (lbopen (bstep b o) = true -> q (bstep b o) = q b ++ newl b (bstep b o) /\ lbopen b = true) /\
  (lbopen b = false -> lbopen (bstep b o) = false).
Proof.
  intros b o Ho.
  assert (Hid : hist b = hist b ++ newl b b /\ dl b = dl b /\
                (lbopen b = true -> q b = q b ++ newl b b /\ lbopen b = true) /\ (lbopen b = false -> lbopen b = false)).
  { unfold newl. rewrite Z.eqb_refl, !app_nil_r. auto. }
  assert (Hem : forall t s ph', let b' := set_phase (emit (set_tr b t) s) ph' in
            hist b' = hist b ++ newl b b' /\ dl b' = dl b /\
            (lbopen b' = true -> q b' = q b ++ newl b b' /\ lbopen b = true) /\ (lbopen b = false -> lbopen b' = false)).
  { intros t s ph'. destruct (emit_new (set_tr b t) s) as (E1&E2&E3&E4). cbn [set_phase hist dl q lbopen ast].
    unfold newl in *. cbn [set_tr ast hist q dl lbopen] in *. rewrite E1, E2, E3, E4. auto. }
  destruct o; cbn [bstep]; try exact Hid; try congruence.
  - destruct ((ast b =? 0) && (phase b =? 0)); [|exact Hid].
    replace (emit b 1) with (emit (set_tr b (tr b)) 1) by (destruct b; reflexivity). apply Hem.
  - destruct (phase b =? 1); [|exact Hid]. destruct ok; [apply Hem|].
    replace (emit b 3) with (emit (set_tr b (tr b)) 3) by (destruct b; reflexivity). apply Hem.
  - destruct (tr b && negb (ast b =? 4)); [|exact Hid].
    replace (emit (set_tr b false) 0) with (set_phase (emit (set_tr b false) 0) (phase b))
      by (unfold emit, set_phase; cbn; destruct (ast b =? 0); reflexivity). apply Hem.
  - destruct (phase b =? 2); [|exact Hid].
    replace (emit b 0) with (emit (set_tr b (tr b)) 0) by (destruct b; reflexivity). apply Hem.
  - unfold teardown. destruct (ast b =? 4); [exact Hid|apply Hem].
  - destruct (ccclosed b); [exact Hid|].
    assert (Ht : hist (teardown b) = hist b ++ newl b (teardown b) /\ dl (teardown b) = dl b).
    { unfold teardown. destruct (ast b =? 4) eqn:E; [unfold newl; rewrite Z.eqb_refl, app_nil_r; auto|].
      destruct (Hem false 4 0) as (A&B&_). auto. }
    destruct Ht as [T1 T2]. cbn [hist dl lbopen q ast]. unfold newl in *. cbn [ast]. rewrite T1, T2.
    split; [reflexivity|]. split; [reflexivity|]. split; intros; [discriminate|reflexivity].
  - destruct (phase b =? 2); [|exact Hid].
    replace (emit b 0) with (emit (set_tr b (tr b)) 0) by (destruct b; reflexivity). apply Hem.
  - destruct fresh; [|exact Hid]. destruct (ast b =? 2); [apply Hem|exact Hid].
Qed.

Lemma decB_not_deliver : forall op, decB op <> BDeliver.
Proof.
  intro op. unfold decB.
  repeat match goal with
         | |- context [match ?x with _ => _ end] => destruct x
         end; discriminate.
Qed.

Lemma tf_exits_inv : forall b o, invB b -> ast b = 3 -> ast (bstep b o) <> 3 ->
  (ast (bstep b o) = 0 /\ (o = BTimer \/ o = BReset)) \/ (ast (bstep b o) = 4 /\ (o = BShutdown \/ o = BClose)).
Proof.
  intros b o (I1&I2&I3&I4&I5&I6&I7&I8&I9&I10) H3 Hn.
  destruct o; cbn [bstep] in *.
  - rewrite H3 in Hn. cbn in Hn. contradiction.
  - destruct (Z.eqb_spec (phase b) 1) as [P|P]; [apply I1 in P; lia|contradiction].
  - destruct (tr b) eqn:T; [specialize (I5 eq_refl); lia|]. cbn in Hn. contradiction.
  - destruct (Z.eqb_spec (phase b) 2) as [P|P]; [|contradiction]. left. split; [|auto].
    unfold set_phase, emit; cbn. rewrite H3. reflexivity.
  - right. split; [apply teardown_ast|auto].
  - right. destruct (ccclosed b) eqn:Hc; [destruct (I10 eq_refl) as (_&_&?); lia|]. split; [|auto].
    cbn. apply teardown_ast.
  - destruct (Z.eqb_spec (phase b) 2) as [P|P]; [|contradiction]. left. split; [|auto].
    unfold set_phase, emit; cbn. rewrite H3. reflexivity.
  - destruct fresh; [|contradiction]. rewrite H3 in Hn. cbn in Hn. contradiction.
  - destruct (q b); [contradiction|]. destruct (lbopen b); cbn in Hn; contradiction.
  - contradiction.
Qed.

Lemma shutdown_final_inv : forall b o, invB b -> ast b = 4 -> ast (bstep b o) = 4.
Proof.
  intros b o (I1&I2&I3&I4&I5&_) H4.
  destruct (I4 H4) as [P0 T]. destruct o; cbn [bstep].
  - rewrite H4. cbn. exact H4.
  - rewrite P0. exact H4.
  - rewrite T. exact H4.
  - rewrite P0. exact H4.
  - apply teardown_ast.
  - destruct (ccclosed b); [exact H4|]. cbn. apply teardown_ast.
  - rewrite P0. exact H4.
  - destruct fresh; [|exact H4]. rewrite H4. cbn. exact H4.
  - destruct (q b); [exact H4|]. destruct (lbopen b); exact H4.
  - exact H4.
Qed.

Lemma skipn_app_len : forall (a b : list Z), skipn (length a) (a ++ b) = b.
Proof. induction a; intros; cbn; auto. Qed.

Lemma take_n_app : forall a b, take_n (length a) (a ++ b) = Some (a, b).
Proof. induction a as [|x a IH]; intro b; cbn; [reflexivity|]. rewrite IH. reflexivity. Qed.

Lemma emit_lbopen : forall b s, lbopen (emit b s) = lbopen b.
Proof. intros. unfold emit. destruct (ast b =? s); reflexivity. Qed.
Lemma teardown_lbopen : forall b, lbopen (teardown b) = lbopen b.
Proof. intro b. unfold teardown. destruct (ast b =? 4); [reflexivity|]. cbn. rewrite emit_lbopen. reflexivity. Qed.

Lemma bstep_lbopen : forall b o, o <> BDeliver -> (o = BClose -> ccclosed b = true) ->
  lbopen (bstep b o) = lbopen b.
Proof.
  intros b o Hd Hc. destruct o; cbn [bstep]; try reflexivity; try congruence.
  - destruct ((ast b =? 0) && (phase b =? 0)); [|reflexivity]. cbn. apply emit_lbopen.
  - destruct (phase b =? 1); [|reflexivity]. destruct ok; cbn; rewrite emit_lbopen; reflexivity.
  - destruct (tr b && negb (ast b =? 4)); [|reflexivity]. rewrite emit_lbopen. reflexivity.
  - destruct (phase b =? 2); [|reflexivity]. cbn. apply emit_lbopen.
  - apply teardown_lbopen.
  - rewrite (Hc eq_refl). reflexivity.
  - destruct (phase b =? 2); [|reflexivity]. cbn. apply emit_lbopen.
  - destruct fresh; [|reflexivity]. destruct (ast b =? 2); [|reflexivity]. cbn. rewrite emit_lbopen. reflexivity.
Qed.

Lemma stepB_facts : forall b op, invB b -> q b = [] -> let b0 := bstep b (decB op) in let b1 := stepB b op in
  invB b1 /\ q b1 = [] /\ ast b1 = ast b0 /\ lbopen b1 = lbopen b0 /\ ccclosed b1 = ccclosed b0 /\
  dl b1 = dl b ++ (if lbopen b0 then newl b b0 else []).
Proof.
  intros b op Hi Hq b0 b1. pose proof (bstep_new b (decB op) (decB_not_deliver op)) as (N1&N2&N3&N4). fold b0 in N1, N2, N3, N4.
  unfold b1, stepB. fold b0.
  destruct (drain_facts (S (length (q b0))) b0) as (D1&D2&D3&D4&D5&D6); [lia|].
  split; [apply drain_inv, bstep_inv, Hi|]. split; [exact D1|]. split; [exact D2|]. split; [exact D3|]. split; [exact D4|].
  rewrite D6, N2. destruct (lbopen b0) eqn:Ho; [|reflexivity]. destruct (N3 eq_refl) as [Q _]. rewrite Q, Hq. reflexivity.
Qed.

Lemma clausesB_step : forall b op, invB b -> q b = [] ->
  forallb (fun c => snd c) (clausesB_op b op (obsB b (stepB b op))) = true.
Proof.
  intros b op Hi Hq. destruct (stepB_facts b op Hi Hq) as (Hi1&Hq1&Ha&Ho&Hc&Hd).
  set (b0 := bstep b (decB op)) in *. set (b1 := stepB b op) in *.
  set (d := if lbopen b0 then newl b b0 else []) in *.
  unfold clausesB_op, obsB. rewrite Hd, skipn_app_len.
  replace (Z.of_nat (length d) <? 0) with false by (symmetry; apply Z.ltb_ge; lia).
  rewrite Nat2Z.id, take_n_app.
  pose proof Hi as (I1&I2&I3&I4&I5&I6&I7&I8&I9&I10).
  pose proof Hi1 as (J1&J2&J3&J4&J5&J6&J7&J8&J9&J10).
  cbn [forallb snd]. rewrite andb_true_r.
  (* nothing leaves SHUTDOWN *)
  assert (H5 : (if (ast b =? 4) || mem 4 d then ast b1 =? 4 else true) = true).
  { destruct (Z.eqb_spec (ast b) 4) as [E4|E4]; cbn [orb].
    - apply Z.eqb_eq. rewrite Ha. apply shutdown_final_inv; assumption.
    - destruct (mem 4 d) eqn:Hm; [|reflexivity]. apply Z.eqb_eq. rewrite Ha.
      unfold d in Hm. destruct (lbopen b0); [|discriminate]. unfold newl in Hm.
      destruct (ast b0 =? ast b); [discriminate|]. unfold mem in Hm. cbn [existsb] in Hm. rewrite orb_false_r in Hm.
      apply Z.eqb_eq in Hm. symmetry. exact Hm. }
  rewrite H5, andb_true_r.
  (* delivered so far is a chain *)
  assert (Hch : chain_ok (last (dl b) 0) d = true).
  { destruct J7 as [rest Hr]. rewrite Hr, Hd, chain_ok_split in J8. apply andb_prop in J8. destruct J8 as [J8 _].
    rewrite chain_ok_split in J8. apply andb_prop in J8. tauto. }
  unfold last_or. rewrite Hch. cbn [andb].
  apply andb_true_intro. split; [|apply andb_true_intro; split].
  - (* IDLE after TF only when the back-off ended *)
    destruct (Z.eqb_spec (last (dl b) 0) 3) as [P3|P3]; cbn [andb]; [|reflexivity].
    destruct d as [|[|p|p] d'] eqn:Ed; try reflexivity.
    unfold d in Ed. destruct (lbopen b0) eqn:Hob; [|discriminate].
    destruct (bstep_new b (decB op) (decB_not_deliver op)) as (_&_&N3&_). fold b0 in N3. destruct (N3 Hob) as [_ Hb].
    assert (A3 : ast b = 3). { rewrite I9, <- (I6 Hb), Hq, app_nil_r. exact P3. }
    unfold newl in Ed. destruct (Z.eqb_spec (ast b0) (ast b)) as [E|E]; [discriminate|]. inversion Ed as [[E0 E1]].
    assert (Hn3 : ast (bstep b (decB op)) <> 3) by (fold b0; lia).
    destruct (tf_exits_inv b (decB op) Hi A3 Hn3) as [[_ [Eo|Eo]]|[E4 _]]; [rewrite Eo; reflexivity|rewrite Eo; reflexivity|].
    unfold b0 in E0. lia.
  - destruct (lbopen b && negb match decB op with BClose => negb (ccclosed b) | _ => false end) eqn:Hcond; [|reflexivity].
    apply andb_prop in Hcond. destruct Hcond as [Hb Hcl].
    assert (Hob : lbopen b0 = true).
    { unfold b0. rewrite bstep_lbopen; [exact Hb|apply decB_not_deliver|].
      intro Eo. rewrite Eo in Hcl. cbn in Hcl. destruct (ccclosed b); [reflexivity|discriminate]. }
    apply Z.eqb_eq. rewrite <- last_app, <- Hd. rewrite J9. rewrite <- (J6 (eq_trans Ho Hob)), Hq1, app_nil_r. reflexivity.
  - fold b0. destruct (ccclosed b0) eqn:Hcc; [|reflexivity]. destruct (J10 Hc) as (C&_). apply Z.eqb_eq, C.
Qed.

Lemma walkA_exec : forall ops a, invA a -> forallb (fun c => snd c) (walkA a ops (execA a ops)) = true.
Proof.
  induction ops as [|op ops IH]; intros a Hi; [reflexivity|].
  cbn [execA walkA]. rewrite forallb_app, (clausesA_step a op Hi), word_eqb_refl. cbn [andb].
  apply IH. apply arun_inv, Hi.
Qed.

Lemma walkB_exec : forall ops b, invB b -> q b = [] -> forallb (fun c => snd c) (walkB b ops (execB b ops)) = true.
Proof.
  induction ops as [|op ops IH]; intros b Hi Hq; [reflexivity|].
  cbn [execB walkB]. rewrite forallb_app, (clausesB_step b op Hi Hq), word_eqb_refl. cbn [andb].
  destruct (stepB_facts b op Hi Hq) as (Hi1&Hq1&_). apply IH; assumption.
Qed.

Definition cfg_wf (cfg : word) : bool :=
  match cfg with
  | [0; n] => (0 <=? n) && (n <=? 6)
  | [1] => true
  | _ => false
  end.

Theorem model_trace_holds : forall cfg ops, cfg_wf cfg = true ->
  exists obs, run cfg ops = Some obs /\ holds_b cfg ops obs = true.
Proof.
  intros cfg ops Hw. unfold run, holds_b, clauses.
  destruct cfg as [|k [|n [|x r]]]; try discriminate.
  - destruct k as [|p|p]; try discriminate. destruct p as [p|p|]; try discriminate; try (destruct p; discriminate).
    eexists. split; [reflexivity|]. apply walkB_exec; [apply stB0_inv|reflexivity].
  - destruct k as [|p|p]; try discriminate; try (destruct p; discriminate).
    cbn in Hw. rewrite Hw. eexists. split; [reflexivity|]. apply walkA_exec. apply (initA_inv (Z.to_nat n)).
  - cbn in Hw. destruct k as [|p|p]; try discriminate; destruct p as [p|p|]; try discriminate; destruct p; discriminate.
Qed.
