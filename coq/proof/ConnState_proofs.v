(* Proofs for model/ConnState.v (C30). *)
From Coq Require Import List ZArith Bool Lia.
From VLib Require Import Codec.
From VModel Require Import ConnState.
Import ListNotations.
Open Scope Z_scope.

Lemma word_eqb_refl : forall w, word_eqb w w = true.
Proof. induction w as [|x w IH]; cbn; [reflexivity|]. rewrite Z.eqb_refl, IH. reflexivity. Qed.

Lemma nth_error_upd_eq : forall A (l : list A) n x y,
  nth_error l n = Some y -> nth_error (upd l n x) n = Some x.
Proof. induction l as [|z l IH]; intros [|n] x y H; cbn in *; try discriminate; eauto. Qed.
Lemma Forall_upd : forall A (P : A -> Prop) l n x, Forall P l -> P x -> Forall P (upd l n x).
Proof.
  induction l as [|z l IH]; intros [|n] x HF Hx; cbn; auto; inversion HF; subst; constructor; auto.
Qed.
Lemma Forall_nth_error : forall A (P : A -> Prop) l n x, Forall P l -> nth_error l n = Some x -> P x.
Proof. intros A P l n x HF H. rewrite Forall_forall in HF. apply HF. eapply nth_error_In; eauto. Qed.
Lemma getw_nth : forall a w x, getw a w = Some x -> nth_error (ws a) (Z.to_nat w) = Some x.
Proof. intros a w x H. unfold getw in H. destruct (w <? 0); [discriminate|assumption]. Qed.

(* ================= Part A ================= *)
Definition published (c : Z) (o : aop) : Z :=
  match o with AUpdate s => if c =? 4 then c else s | _ => c end.

Lemma astep_cst : forall a o, cst (cm (astep a o)) = published (cst (cm a)) o.
Proof.
  intros a o. destruct o; cbn; try reflexivity.
  - unfold csm_update. destruct (cst (cm a) =? 4) eqn:E4; [reflexivity|].
    destruct (Z.eqb_spec (cst (cm a)) s); [congruence|]. destruct (nch (cm a)); reflexivity.
  - destruct (getw a w) as [x|]; [|reflexivity]. destruct (ph x =? 0); [|reflexivity].
    unfold csm_notify. destruct (nch (cm a)); reflexivity.
  - destruct (getw a w) as [x|]; [|reflexivity]. destruct (ph x =? 1); reflexivity.
  - destruct (getw a w) as [x|]; [|reflexivity]. destruct (wcan x); reflexivity.
Qed.

Theorem shutdown_absorbing : forall l a, cst (cm a) = 4 -> cst (cm (arun a l)) = 4.
Proof.
  induction l as [|o l IH]; intros a H; cbn; [exact H|]. apply IH. rewrite astep_cst.
  destruct o; cbn; auto. rewrite H. reflexivity.
Qed.

Theorem state_is_last_published : forall l a, cst (cm (arun a l)) = fold_left published l (cst (cm a)).
Proof. induction l as [|o l IH]; intros a; cbn; [reflexivity|]. rewrite IH, astep_cst. reflexivity. Qed.

Definition mok (m : csm) : Prop :=
  (forall c, nch m = Some c -> c < nextch m /\ mem c (closedch m) = false) /\
  (forall c, mem c (closedch m) = true -> c < nextch m).

Definition wok (m : csm) (x : watcher) : Prop :=
  (ph x = 0 \/ ph x = 1 \/ ph x = 2 \/ ph x = 3 \/ ph x = 4) /\
  (ph x = 1 \/ ph x = 2 -> wch x < nextch m /\
     (mem (wch x) (closedch m) = false -> nch m = Some (wch x) /\ wdiff x = negb (cst m =? wsrc x))) /\
  (ph x = 2 -> mem (wch x) (closedch m) = false /\ cst m = wsrc x /\ wcan x = false) /\
  (ph x = 4 -> wcan x = true /\ wdiff x = false).

Definition invA (a : stA) : Prop := mok (cm a) /\ Forall (wok (cm a)) (ws a).

Lemma mem_cons : forall c d l, mem c (d :: l) = (c =? d) || mem c l.
Proof. reflexivity. Qed.

Lemma wok_wake_same : forall m x, wok m x -> wok m (wake1 m x).
Proof.
  intros m x (W0 & W1 & W2 & W4). unfold wake1.
  destruct W0 as [P|[P|[P|[P|P]]]]; rewrite P; cbn [Z.eqb Z.ltb Z.compare Pos.compare Pos.eqb andb Pos.compare_cont].
  - unfold wok; cbn. repeat split; auto; intros; try lia; try (destruct H; lia).
  - assert (P1 : ph x = 1 \/ ph x = 2) by auto. destruct (W1 P1) as (L & U).
    unfold wok; cbn [ph wch wdiff wcan wsrc]. split; [auto|]. split; [|split; intros; lia].
    intros _. split; [exact L|]. intro C. destruct (U C) as (N & D). split; [exact N|]. rewrite D.
    destruct (negb (cst m =? wsrc x)); reflexivity.
  - assert (P1 : ph x = 1 \/ ph x = 2) by auto. destruct (W1 P1) as (L & U). destruct (W2 P) as (C & S & K).
    rewrite C. destruct (U C) as (N & D).
    unfold wok; cbn [ph wch wdiff wcan wsrc]. split; [auto|]. split; [|split; [|intros; lia]].
    + intros _. split; [exact L|]. intros _. split; [exact N|]. rewrite D. destruct (negb (cst m =? wsrc x)); reflexivity.
    + intros _. auto.
  - unfold wok; cbn. repeat split; auto; intros; try lia; try (destruct H; lia).
  - destruct (W4 P) as (K & D). unfold wok; cbn [ph wch wdiff wcan wsrc]. rewrite D. cbn.
    repeat split; auto; intros; try lia; try (destruct H; lia).
Qed.

Lemma wok_update : forall m s x, mok m -> wok m x -> wok (csm_update m s) (wake1 (csm_update m s) x).
Proof.
  intros m s x [M1 M2] Hw. pose proof Hw as (W0 & W1 & W2 & W4). unfold csm_update.
  destruct (Z.eqb_spec (cst m) 4) as [E4|E4]; [apply wok_wake_same; exact Hw|].
  destruct (Z.eqb_spec (cst m) s) as [Es|Es]; [apply wok_wake_same; exact Hw|].
  (* effective update: the current channel is closed *)
  destruct (nch m) as [c|] eqn:Hn.
  - unfold wake1; cbn [closedch cst]. destruct (Z.eqb_spec (ph x) 2) as [P2|P2]; cbn [andb].
    + destruct (W2 P2) as (C & S & K). destruct (W1 (or_intror P2)) as (L & U). destruct (U C) as (N & D).
      inversion N; subst c. rewrite mem_cons, Z.eqb_refl. cbn [orb].
      unfold wok; cbn. repeat split; auto; intros; try lia; try (destruct H; lia).
    + unfold wok; cbn [ph wch wdiff wcan wsrc nextch closedch nch cst]. split; [exact W0|]. split; [|split].
      * intros Hp. destruct (W1 Hp) as (L & U). split; [exact L|]. rewrite mem_cons. intro C.
        apply orb_false_iff in C. destruct C as [C1 C2]. destruct (U C2) as (N & _). inversion N; subst.
        rewrite Z.eqb_refl in C1. discriminate.
      * intro; contradiction.
      * intro Hp. destruct (W4 Hp) as (K & D). split; [exact K|]. rewrite D, Hp. reflexivity.
  - unfold wake1; cbn [closedch cst]. destruct (Z.eqb_spec (ph x) 2) as [P2|P2]; cbn [andb].
    + destruct (W2 P2) as (C & S & K). destruct (W1 (or_intror P2)) as (L & U). destruct (U C) as (N & D). discriminate.
    + unfold wok; cbn [ph wch wdiff wcan wsrc nextch closedch nch cst]. split; [exact W0|]. split; [|split].
      * intros Hp. destruct (W1 Hp) as (L & U). split; [exact L|]. intro C. destruct (U C) as (N & _). discriminate.
      * intro; contradiction.
      * intro Hp. destruct (W4 Hp) as (K & D). split; [exact K|]. rewrite D, Hp. reflexivity.
Qed.

Lemma mok_update : forall m s, mok m -> mok (csm_update m s).
Proof.
  intros m s [M1 M2]. unfold csm_update. destruct (cst m =? 4); [split; assumption|].
  destruct (cst m =? s); [split; assumption|]. destruct (nch m) as [c|] eqn:Hn; split; cbn [nch closedch nextch]; intros; try discriminate.
  - rewrite mem_cons in H. apply orb_prop in H. destruct H as [H|H]; [apply Z.eqb_eq in H; subst; apply (M1 c eq_refl) | auto].
  - auto.
Qed.

Lemma mok_notify : forall m, mok m -> mok (fst (csm_notify m)).
Proof.
  intros m HM. pose proof HM as [M1 M2]. unfold csm_notify. destruct (nch m) as [c|] eqn:Hn; cbn [fst]; [exact HM|].
  split; cbn [nch closedch nextch]; intros.
  - inversion H; subst. split; [lia|]. destruct (mem (nextch m) (closedch m)) eqn:E; [apply M2 in E; lia|reflexivity].
  - apply M2 in H. lia.
Qed.

Lemma wok_notify : forall m x, mok m -> wok m x -> wok (fst (csm_notify m)) x.
Proof.
  intros m x [M1 M2] Hw. pose proof Hw as (W0 & W1 & W2 & W4). unfold csm_notify. destruct (nch m) as [c|] eqn:Hn; cbn [fst].
  { exact Hw. }
  unfold wok; cbn. split; [exact W0|]. split; [|split; [exact W2|exact W4]].
  intros Hp. destruct (W1 Hp) as (L & U). split; [lia|]. intro C. destruct (U C) as (N & _). discriminate.
Qed.

Lemma astep_inv : forall a o, invA a -> invA (astep a o).
Proof.
  intros a o [HM HF]. destruct o; cbn [astep]; try (split; assumption).
  - split; [apply mok_update; exact HM|]. cbn. apply Forall_forall. intros y Hy. apply in_map_iff in Hy.
    destruct Hy as (x & <- & Hx). apply wok_update; [exact HM|]. rewrite Forall_forall in HF. auto.
  - destruct (getw a w) as [x|] eqn:Hx; [|split; assumption]. destruct (Z.eqb_spec (ph x) 0) as [P0|P0]; [|split; assumption].
    pose proof (mok_notify _ HM) as HM'. destruct (csm_notify (cm a)) as [m c] eqn:Hn. cbn [fst] in HM'.
    split; [exact HM'|]. cbn [cm ws]. apply Forall_upd.
    + apply Forall_forall. intros y Hy. rewrite Forall_forall in HF. pose proof (wok_notify _ _ HM (HF y Hy)) as Hw.
      rewrite Hn in Hw. exact Hw.
    + unfold wok; cbn. split; [auto|]. split; [|split; intro; discriminate].
      intros _. unfold csm_notify in Hn. destruct HM as [M1 M2].
      destruct (nch (cm a)) as [c0|] eqn:Hc; inversion Hn; subst; cbn.
      * destruct (M1 c eq_refl) as [L C]. split; [exact L|]. intros _. split; [exact Hc|reflexivity].
      * split; [lia|]. intros _. split; reflexivity.
  - destruct (getw a w) as [x|] eqn:Hx; [|split; assumption]. destruct (Z.eqb_spec (ph x) 1) as [P1|P1]; [|split; assumption].
    split; [exact HM|]. cbn [cm ws]. apply Forall_upd; [exact HF|].
    pose proof (Forall_nth_error _ _ _ _ _ HF (getw_nth _ _ _ Hx)) as (W0 & W1 & W2 & W4).
    destruct (W1 (or_introl P1)) as (L & U).
    destruct (Z.eqb_spec (cst (cm a)) (wsrc x)) as [Es|Es]; cbn [negb].
    + destruct (mem (wch x) (closedch (cm a))) eqn:C.
      * unfold wok; cbn [ph wsrc wch wcan wdiff]. split; [auto 6|]. split; [intros [Q|Q]; discriminate Q|].
        split; intro Q; discriminate Q.
      * destruct (U eq_refl) as (N & D). destruct (wcan x) eqn:K.
        -- unfold wok; cbn [ph wsrc wch wcan wdiff]. split; [auto 6|]. split; [intros [Q|Q]; discriminate Q|].
           split; [intro Q; discriminate Q|]. intros _. split; [reflexivity|exact D].
        -- unfold wok; cbn [ph wsrc wch wcan wdiff]. split; [auto 6|]. split; [|split].
           ++ intros _. split; [exact L|]. intros _. split; [exact N|]. rewrite D, Es, Z.eqb_refl. reflexivity.
           ++ intros _. auto.
           ++ intro Q; discriminate Q.
    + unfold wok; cbn [ph wsrc wch wcan wdiff]. split; [auto 6|]. split; [intros [Q|Q]; discriminate Q|].
      split; intro Q; discriminate Q.
  - destruct (getw a w) as [x|] eqn:Hx; [|split; assumption]. destruct (wcan x) eqn:K; [split; assumption|].
    split; [exact HM|]. cbn [cm ws]. apply Forall_upd; [exact HF|].
    pose proof (Forall_nth_error _ _ _ _ _ HF (getw_nth _ _ _ Hx)) as (W0 & W1 & W2 & W4).
    destruct (Z.eqb_spec (ph x) 2) as [P2|P2].
    + destruct (W2 P2) as (C & S & _). destruct (W1 (or_intror P2)) as (L & U). destruct (U C) as (N & D).
      unfold wok; cbn [ph wsrc wch wcan wdiff]. split; [auto 6|]. split; [intros [Q|Q]; discriminate Q|].
      split; [intro Q; discriminate Q|]. intros _. split; [reflexivity|].
      rewrite D, S, Z.eqb_refl. reflexivity.
    + unfold wok; cbn [ph wsrc wch wcan wdiff]. split; [exact W0|]. split; [exact W1|]. split; [intro; contradiction|].
      intro P4. destruct (W4 P4). congruence.
Qed.

Lemma arun_inv : forall l a, invA a -> invA (arun a l).
Proof. induction l as [|o l IH]; intros a H; cbn; [exact H|]. apply IH, astep_inv, H. Qed.

Definition initA (n : nat) : stA := mkA csm0 (repeat w0 n).
Lemma initA_inv : forall n, invA (initA n).
Proof.
  intro n. split.
  - split; cbn; intros; discriminate.
  - apply Forall_forall. intros x Hx. apply repeat_spec in Hx. subst. unfold wok; cbn.
    split; [auto|]. split; [intros [Q|Q]; discriminate Q|]. split; intro Q; discriminate Q.
Qed.

(* "WaitForStateChange(s) returns true whenever the state differs from s at or after the
   call": a watcher for which that happened (ghost wdiff) is never blocked and never returns
   false; if it is still between its two critical sections, its next step returns true. *)
Theorem wait_true_if_differs : forall n l x, In x (ws (arun (initA n) l)) -> wdiff x = true ->
  ph x <> 2 /\ ph x <> 4.
Proof.
  intros n l x Hx Hd. destruct (arun_inv l _ (initA_inv n)) as [HM HF].
  rewrite Forall_forall in HF. destruct (HF x Hx) as (W0 & W1 & W2 & W4). split; intro P.
  - destruct (W2 P) as (C & S & _). destruct (W1 (or_intror P)) as (_ & U). destruct (U C) as (_ & D).
    rewrite S, Z.eqb_refl in D. cbn in D. congruence.
  - destruct (W4 P). congruence.
Qed.

Theorem wait_second_step_true : forall n l w x, let a := arun (initA n) l in
  getw a w = Some x -> ph x = 1 -> wdiff x = true ->
  exists x', getw (astep a (AW2 w)) w = Some x' /\ ph x' = 3.
Proof.
  intros n l w x a Hx P1 Hd. destruct (arun_inv l _ (initA_inv n)) as [HM HF]. fold a in HM, HF.
  pose proof (Forall_nth_error _ _ _ _ _ HF (getw_nth _ _ _ Hx)) as (W0 & W1 & W2 & W4).
  destruct (W1 (or_introl P1)) as (L & U).
  cbn [astep]. rewrite Hx. rewrite P1. cbn [Z.eqb Pos.eqb].
  eexists. split.
  - unfold getw in *. destruct (w <? 0); [discriminate|]. cbn [ws]. eapply nth_error_upd_eq; eauto.
  - cbn. destruct (Z.eqb_spec (cst (cm a)) (wsrc x)) as [E|E]; cbn; [|reflexivity].
    destruct (mem (wch x) (closedch (cm a))) eqn:C; [reflexivity|]. destruct (U eq_refl) as (_ & D).
    cbn in D. congruence.
Qed.

(* a blocked watcher is released by the update that changes the state; false only by its context *)
Theorem blocked_released_by_change : forall n l s x, let a := arun (initA n) l in
  In x (ws a) -> ph x = 2 -> cst (cm a) <> 4 -> s <> cst (cm a) ->
  ph (wake1 (csm_update (cm a) s) x) = 3.
Proof.
  intros n l s x a Hx P2 H4 Hs. destruct (arun_inv l _ (initA_inv n)) as [HM HF]. fold a in HM, HF.
  rewrite Forall_forall in HF. destruct (HF x Hx) as (W0 & W1 & W2 & W4).
  destruct (W2 P2) as (C & S & K). destruct (W1 (or_intror P2)) as (L & U). destruct (U C) as (N & D).
  unfold csm_update. destruct (Z.eqb_spec (cst (cm a)) 4); [contradiction|].
  destruct (Z.eqb_spec (cst (cm a)) s); [congruence|]. rewrite N. unfold wake1; cbn.
  rewrite P2. cbn. rewrite Z.eqb_refl. reflexivity.
Qed.

Theorem false_only_if_cancelled : forall n l x, In x (ws (arun (initA n) l)) -> ph x = 4 -> wcan x = true.
Proof.
  intros n l x Hx P. destruct (arun_inv l _ (initA_inv n)) as [HM HF].
  rewrite Forall_forall in HF. destruct (HF x Hx) as (_ & _ & _ & W4). apply W4, P.
Qed.

(* ================= Part B ================= *)
Lemma allowed_spec : forall o n, allowed o n = true <->
  o <> 4 /\ o <> n /\ (n = 2 -> o = 1) /\ (o = 3 -> n = 0 \/ n = 4).
Proof.
  intros o n. unfold allowed.
  destruct (Z.eqb_spec o 4), (Z.eqb_spec o n), (Z.eqb_spec n 2), (Z.eqb_spec o 1), (Z.eqb_spec o 3),
    (Z.eqb_spec n 0), (Z.eqb_spec n 4); cbn; split; intro H; try discriminate; try reflexivity;
    try (repeat split; intros; lia); try (destruct H as (H1 & H2 & H3 & H4); lia).
Qed.

Lemma last_default : forall (l : list Z) x d1 d2, last (x :: l) d1 = last (x :: l) d2.
Proof. induction l as [|y l IH]; intros; [reflexivity|]. change (last (y :: l) d1 = last (y :: l) d2). apply IH. Qed.
Lemma last_cons : forall (l : list Z) x d, last (x :: l) d = last l x.
Proof. destruct l as [|y l]; intros; [reflexivity|]. change (last (y :: l) d = last (y :: l) x). apply last_default. Qed.

Lemma chain_ok_app : forall l o n, chain_ok o (l ++ [n]) = chain_ok o l && allowed (last l o) n.
Proof.
  induction l as [|x l IH]; intros o n; cbn [app chain_ok].
  - cbn. rewrite andb_true_r. reflexivity.
  - rewrite IH, last_cons. rewrite andb_assoc. reflexivity.
Qed.

Lemma chain_ok_split : forall a b o, chain_ok o (a ++ b) = chain_ok o a && chain_ok (last a o) b.
Proof.
  induction a as [|x a IH]; intros b o; cbn [app chain_ok].
  - reflexivity.
  - rewrite IH, last_cons, andb_assoc. reflexivity.
Qed.

Lemma chain_nothing_after_4 : forall l o r, chain_ok o (l ++ 4 :: r) = true -> r = [].
Proof.
  intros l o r H. rewrite chain_ok_split in H. apply andb_prop in H. destruct H as [_ H].
  destruct r as [|y r]; [reflexivity|]. cbn [chain_ok] in H.
  apply andb_prop in H. destruct H as [_ H]. apply andb_prop in H. destruct H as [H _].
  unfold allowed in H. cbn in H. discriminate.
Qed.

Lemma last_app1 : forall (l : list Z) x d, last (l ++ [x]) d = x.
Proof. induction l as [|y l IH]; intros; [reflexivity|]. cbn [app]. rewrite last_cons. apply IH. Qed.
Lemma last_app : forall (a b : list Z) d, last (a ++ b) d = last b (last a d).
Proof.
  induction a as [|x a IH]; intros b d; cbn [app]; [reflexivity|]. rewrite !last_cons. apply IH.
Qed.

(* ---- the relation extended by health checking ---- *)
Lemma allowedR_false : forall o n, allowedR false o n = allowed o n.
Proof. intros. unfold allowedR. cbn. apply orb_false_r. Qed.
Lemma chain_okR_false : forall l o, chain_okR false o l = chain_ok o l.
Proof. induction l as [|n l IH]; intro o; cbn [chain_okR chain_ok]; [reflexivity|]. rewrite allowedR_false, IH. reflexivity. Qed.
Lemma allowedR_weaken : forall f g o n, (f = true -> g = true) -> allowedR f o n = true -> allowedR g o n = true.
Proof.
  intros f g o n Hfg H. unfold allowedR in *. apply orb_true_iff in H. apply orb_true_iff.
  destruct H as [H|H]; [left; exact H|right]. destruct f; [|discriminate]. rewrite (Hfg eq_refl). exact H.
Qed.
Lemma chain_okR_weaken : forall f g l o, (f = true -> g = true) -> chain_okR f o l = true -> chain_okR g o l = true.
Proof.
  intros f g. induction l as [|n l IH]; intros o Hfg H; cbn [chain_okR] in *; [reflexivity|].
  apply andb_prop in H. destruct H as [H1 H2]. rewrite (allowedR_weaken f g o n Hfg H1). cbn. apply IH; assumption.
Qed.
Lemma allowedR_spec : forall f o n, allowedR f o n = true <->
  allowed o n = true \/ (f = true /\ o = 3 /\ (n = 2 \/ n = 1)).
Proof.
  intros f o n. unfold allowedR. rewrite orb_true_iff. split; intros [H|H]; auto; right.
  - apply andb_prop in H. destruct H as [H H2]. apply andb_prop in H. destruct H as [H0 H1].
    apply Z.eqb_eq in H1. apply orb_prop in H2. rewrite !Z.eqb_eq in H2. auto.
  - destruct H as (-> & -> & [-> | ->]); reflexivity.
Qed.
Lemma allowedR_from4 : forall f n, allowedR f 4 n = false.
Proof. intros. unfold allowedR, allowed. cbn. rewrite andb_false_r. reflexivity. Qed.

Lemma chain_okR_app : forall f l o n, chain_okR f o (l ++ [n]) = chain_okR f o l && allowedR f (last l o) n.
Proof.
  intro f. induction l as [|x l IH]; intros o n; cbn [app chain_okR].
  - cbn. rewrite andb_true_r. reflexivity.
  - rewrite IH, last_cons. rewrite andb_assoc. reflexivity.
Qed.
Lemma chain_okR_split : forall f a b o, chain_okR f o (a ++ b) = chain_okR f o a && chain_okR f (last a o) b.
Proof.
  intro f. induction a as [|x a IH]; intros b o; cbn [app chain_okR].
  - reflexivity.
  - rewrite IH, last_cons, andb_assoc. reflexivity.
Qed.
Lemma chainR_nothing_after_4 : forall f l o r, chain_okR f o (l ++ 4 :: r) = true -> r = [].
Proof.
  intros f l o r H. rewrite chain_okR_split in H. apply andb_prop in H. destruct H as [_ H].
  destruct r as [|y r]; [reflexivity|]. cbn [chain_okR] in H.
  apply andb_prop in H. destruct H as [_ H]. apply andb_prop in H. destruct H as [H _].
  rewrite allowedR_from4 in H. discriminate.
Qed.
Lemma chainR_mem4_last : forall f e o, chain_okR f o e = true -> mem 4 e = true -> last e o = 4.
Proof.
  intros f. induction e as [|x e IH]; intros o Hc Hm; [discriminate|].
  cbn [chain_okR] in Hc. apply andb_prop in Hc. destruct Hc as [_ Hc]. rewrite last_cons.
  rewrite mem_cons in Hm. destruct (mem 4 e) eqn:Me.
  - apply IH; [exact Hc|reflexivity].
  - rewrite orb_false_r in Hm. apply Z.eqb_eq in Hm. subst x.
    destruct e as [|y e]; [reflexivity|]. cbn [chain_okR] in Hc. rewrite allowedR_from4 in Hc. discriminate.
Qed.

Definition invB (b : stB) : Prop :=
  (phase b = 1 -> ast b = 1) /\ (phase b = 2 -> ast b = 3) /\ (phase b = 0 \/ phase b = 1 \/ phase b = 2) /\
  (ast b = 4 -> phase b = 0 /\ tr b = false) /\
  (tr b = true -> phase b = 0 /\ if hcf b then ast b = 1 \/ ast b = 2 \/ ast b = 3 else ast b = 2) /\
  (lbopen b = true -> dl b ++ q b = hist b) /\ (exists rest, hist b = dl b ++ rest) /\
  chain_okR (hcf b) 0 (hist b) = true /\ ast b = last (hist b) 0 /\
  (ccclosed b = true -> chs b = 4 /\ lbopen b = false /\ ast b = 4) /\
  (hph b <> 0 -> tr b = true /\ hcf b = true) /\ (ast b = 2 -> tr b = true).

(* every non-deliver step of the addrConn has the shape G: set the health checker's phase,
   ac.transport, one updateConnectivityState, the connect goroutine's phase *)
Definition G (b : stB) (hp : Z) (hm : bool) (t : bool) (s ph' : Z) : stB :=
  set_phase (emit (set_tr (set_h b hp hm) t) s) ph'.
Definition eff (b : stB) (s : Z) : list Z := if ast b =? s then [] else [s].

Lemma G_ext : forall b hp hm t s ph', let b' := G b hp hm t s ph' in
  hist b' = hist b ++ eff b s /\ q b' = q b ++ eff b s /\ dl b' = dl b /\ lbopen b' = lbopen b /\
  ast b' = s /\ hcf b' = hcf b /\ ccclosed b' = ccclosed b /\ chs b' = chs b /\ tr b' = t /\
  phase b' = ph' /\ hph b' = hp /\ hmsg b' = hm.
Proof.
  intros b hp hm t s ph'. unfold G, eff, emit, set_phase, set_tr, set_h. cbn [ast].
  destruct (Z.eqb_spec (ast b) s) as [E|E]; cbn; rewrite ?app_nil_r; repeat split; auto.
Qed.

Ltac nrm := unfold G, kill_h, emit, set_phase, set_tr, set_h;
  match goal with x : stB |- _ => destruct x end; cbn; rewrite ?Z.eqb_refl;
  repeat match goal with |- context [if ?c then _ else _] => destruct c end; reflexivity.
Lemma G_keep : forall x hp hm s, G x hp hm (tr x) s (phase x) = emit (set_h x hp hm) s.
Proof. intros. nrm. Qed.
Lemma G_ph : forall x s p, G x (hph x) (hmsg x) (tr x) s p = set_phase (emit x s) p.
Proof. intros. nrm. Qed.
Lemma G_tr : forall x t s p, G x (hph x) (hmsg x) t s p = set_phase (emit (set_tr x t) s) p.
Proof. intros. nrm. Qed.
Lemma G_kill_ph : forall x t s, G x 0 false t s (phase x) = emit (set_tr (kill_h x) t) s.
Proof. intros. nrm. Qed.
Lemma G_noemit : forall x hp hm t p, G x hp hm t (ast x) p = set_phase (set_h (set_tr x t) hp hm) p.
Proof. intros. nrm. Qed.
Lemma set_h_emit : forall x s hp hm, set_h (emit x s) hp hm = emit (set_h x hp hm) s.
Proof. intros. nrm. Qed.

Definition idle_ok (b : stB) (s : Z) (o : bop) : Prop :=
  ast b = 3 -> s = 0 -> match o with BTimer | BReset => True | BServerClose _ => hmanaged b = true | _ => False end.

(* what the bridge needs of one step: e = the updates it emits *)
Definition stepfacts (b b' : stB) (o : bop) (e : list Z) : Prop :=
  hist b' = hist b ++ e /\ dl b' = dl b /\ (lbopen b' = true -> q b' = q b ++ e /\ lbopen b = true) /\
  (lbopen b = false -> lbopen b' = false) /\ ast b' = last e (ast b) /\
  chain_okR (hmanaged b) (ast b) e = true /\ idle_rule (hmanaged b) (ast b) e o = true.

Lemma hmanaged_hcf : forall b, hmanaged b = true -> hcf b = true.
Proof. intros b H. unfold hmanaged in H. apply andb_prop in H. tauto. Qed.

Lemma G_sound : forall b o hp hm t s ph',
  invB b -> (ast b = s \/ allowedR (hmanaged b) (ast b) s = true) ->
  (ph' = 1 -> s = 1) -> (ph' = 2 -> s = 3) -> (ph' = 0 \/ ph' = 1 \/ ph' = 2) ->
  (s = 4 -> ph' = 0 /\ t = false) ->
  (t = true -> ph' = 0 /\ if hcf b then s = 1 \/ s = 2 \/ s = 3 else s = 2) ->
  (ccclosed b = true -> s = 4) -> (hp <> 0 -> t = true /\ hcf b = true) -> (s = 2 -> t = true) ->
  idle_ok b s o ->
  invB (G b hp hm t s ph') /\ stepfacts b (G b hp hm t s ph') o (eff b s).
Proof.
  intros b o hp hm t s ph' (I1&I2&I3&I4&I5&I6&I7&I8&I9&I10&I11&I12) Ha P1 P2 P3 P4 P5 P6 P7 P8 P9.
  destruct (G_ext b hp hm t s ph') as (E1&E2&E3&E4&E5&E6&E7&E8&E9&E10&E11&E12).
  set (b' := G b hp hm t s ph') in *.
  assert (Hch : chain_okR (hmanaged b) (ast b) (eff b s) = true).
  { unfold eff. destruct (Z.eqb_spec (ast b) s) as [E|E]; [reflexivity|]. destruct Ha as [Ha|Ha]; [contradiction|].
    cbn. rewrite Ha. reflexivity. }
  split.
  - unfold invB. rewrite E1, E2, E3, E4, E5, E6, E7, E8, E9, E10, E11.
    split; [exact P1|]. split; [exact P2|]. split; [exact P3|]. split; [exact P4|]. split; [exact P5|].
    split; [intro Ho; rewrite app_assoc, (I6 Ho); reflexivity|].
    split; [destruct I7 as [rest Hr]; exists (rest ++ eff b s); rewrite Hr, app_assoc; reflexivity|].
    split.
    { rewrite chain_okR_split, I8, <- I9. cbn [andb]. eapply chain_okR_weaken; [|exact Hch]. apply hmanaged_hcf. }
    split.
    { unfold eff. destruct (Z.eqb_spec (ast b) s) as [E|E]; [rewrite app_nil_r, <- I9; symmetry; exact E|].
      rewrite last_app1. reflexivity. }
    split; [intro Hc; destruct (I10 Hc) as (C1&C2&C3); split; [exact C1|]; split; [exact C2|]; apply P6, Hc|].
    split; [exact P7|exact P8].
  - unfold stepfacts. rewrite E1, E2, E3, E4, E5.
    split; [reflexivity|]. split; [reflexivity|]. split; [intro Ho; split; [reflexivity|exact Ho]|].
    split; [auto|]. split.
    { unfold eff. destruct (Z.eqb_spec (ast b) s) as [E|E]; [symmetry; exact E|reflexivity]. }
    split; [exact Hch|].
    unfold idle_rule, eff. destruct (Z.eqb_spec (ast b) 3) as [A3|A3]; cbn [andb]; [|reflexivity].
    destruct (Z.eqb_spec (ast b) s) as [E|E]; [reflexivity|]. destruct s as [|p|p]; try reflexivity.
    specialize (P9 A3 eq_refl). destruct o; try contradiction; try reflexivity. exact P9.
Qed.

Lemma same_sound : forall b o, invB b -> invB b /\ stepfacts b b o [].
Proof.
  intros b o H. split; [exact H|]. unfold stepfacts. rewrite !app_nil_r. cbn.
  repeat split; auto. unfold idle_rule. destruct (ast b =? 3); reflexivity.
Qed.

Lemma teardown_sound : forall b o, invB b -> (o = BShutdown \/ o = BClose) ->
  invB (teardown b) /\ stepfacts b (teardown b) o (eff b 4).
Proof.
  intros b o H Ho. pose proof H as (I1&I2&I3&I4&I5&I6&I7&I8&I9&I10&I11&I12).
  destruct (Z.eqb_spec (ast b) 4) as [E4|E4].
  - unfold teardown, eff. destruct (Z.eqb_spec (ast b) 4); [|contradiction]. apply same_sound, H.
  - replace (teardown b) with (G b 0 false false 4 0)
      by (unfold teardown; destruct (Z.eqb_spec (ast b) 4); [contradiction|reflexivity]).
    apply G_sound; auto; try (intros; lia); try (intros; discriminate); try (intros; contradiction).
    right. apply allowedR_spec. left. apply allowed_spec. repeat split; auto; intros; lia.
Qed.

Lemma teardown_ast : forall b, ast (teardown b) = 4.
Proof.
  intro b. unfold teardown. destruct (Z.eqb_spec (ast b) 4) as [E|E]; [exact E|].
  unfold set_phase, emit; cbn. destruct (Z.eqb_spec (ast b) 4); [contradiction|reflexivity].
Qed.

Lemma managed_ast : forall b, invB b -> hmanaged b = true -> phase b = 0 /\ (ast b = 1 \/ ast b = 2 \/ ast b = 3) /\ tr b = true /\ hcf b = true.
Proof.
  intros b (I1&I2&I3&I4&I5&_) H. unfold hmanaged in H. apply andb_prop in H. destruct H as [Hh Ht].
  destruct (I5 Ht) as [P A]. rewrite Hh in A. auto.
Qed.

Ltac sc := try solve [auto]; try solve [intros; lia]; try solve [intros; discriminate];
  try solve [intros; congruence];
  try solve [unfold idle_ok; intros; first [lia | discriminate | exact I]].
(* the transition is in the un-extended relation *)
Ltac strict := right; apply allowedR_spec; left; apply allowed_spec; repeat split; intros; lia.

Ltac fin :=
  first [ solve [strict]
        | solve [intros _; match goal with Hh : hcf _ = _ |- _ => rewrite Hh end; auto]
        | solve [let Hc := fresh in intro Hc; match goal with Hcc : ccclosed _ = true -> ast _ = 4 |- _ => specialize (Hcc Hc) end; lia]
        | solve [let T := fresh in intro T; match goal with Htr : tr _ = true -> _ /\ _ |- _ => destruct (Htr T) end; lia] ].

Lemma bstep_sound : forall b o, invB b -> o <> BDeliver ->
  invB (bstep b o) /\ exists e, stepfacts b (bstep b o) o e.
Proof.
  intros b o H Hnd. pose proof H as (I1&I2&I3&I4&I5&I6&I7&I8&I9&I10&I11&I12).
  assert (Hsame : invB b /\ exists e, stepfacts b b o e) by (destruct (same_sound b o H); eauto).
  assert (HG : forall hp hm t s ph', invB (G b hp hm t s ph') /\ stepfacts b (G b hp hm t s ph') o (eff b s) ->
                 invB (G b hp hm t s ph') /\ exists e, stepfacts b (G b hp hm t s ph') o e) by (intros; split; [tauto|eexists; apply H0]).
  assert (Hcc : ccclosed b = true -> ast b = 4) by (intro Hc; destruct (I10 Hc) as (_&_&?); assumption).
  assert (Htr : tr b = true -> phase b = 0 /\ (ast b = 1 \/ ast b = 2 \/ ast b = 3)).
  { intro T. destruct (I5 T) as [P A]. split; [exact P|]. destruct (hcf b); auto. }
  destruct o; cbn [bstep]; try exact Hsame; try congruence.
  - (* connect *)
    destruct (Z.eqb_spec (ast b) 0) as [E0|E0]; cbn [andb]; [|exact Hsame].
    destruct (Z.eqb_spec (phase b) 0) as [P0|P0]; [|exact Hsame].
    rewrite <- G_ph.
    apply HG, G_sound; sc; fin.
  - (* dial result *)
    destruct (Z.eqb_spec (phase b) 1) as [P1|P1]; [|exact Hsame]. specialize (I1 P1).
    assert (T : tr b = false) by (destruct (tr b) eqn:T; [destruct (Htr eq_refl); lia|reflexivity]).
    destruct ok.
    + destruct (hcf b) eqn:Hh.
      * rewrite <- G_noemit.
        apply HG, G_sound; sc; fin.
      * rewrite <- G_tr.
        apply HG, G_sound; sc; fin.
    + rewrite <- G_ph.
      apply HG, G_sound; sc; fin.
  - (* connection lost / GOAWAY *)
    destruct (tr b) eqn:T; cbn [andb]; [|exact Hsame]. destruct (Z.eqb_spec (ast b) 4) as [E4|E4]; [exact Hsame|]. cbn [negb].
    destruct (Htr eq_refl) as [P0 A].
    rewrite <- G_kill_ph.
    apply HG, G_sound; sc; try fin.
    intros A3 _. unfold hmanaged. rewrite T. destruct (hcf b) eqn:Hh; [reflexivity|]. destruct (I5 eq_refl) as [_ A2]. lia.
  - (* timer *)
    destruct (Z.eqb_spec (phase b) 2) as [P2|P2]; [|exact Hsame]. specialize (I2 P2).
    rewrite <- G_ph.
    apply HG, G_sound; sc; fin.
  - (* connected and lost before createTransport finished *)
    destruct (Z.eqb_spec (phase b) 1) as [P1|P1]; [|exact Hsame]. specialize (I1 P1).
    rewrite <- G_ph.
    apply HG, G_sound; sc; fin.
  - (* SubConn.Shutdown *)
    destruct (teardown_sound b BShutdown H (or_introl eq_refl)). eauto.
  - (* ClientConn.Close *)
    destruct (ccclosed b) eqn:Hcl; [exact Hsame|].
    destruct (teardown_sound b BClose H (or_intror eq_refl)) as [Ht Hf].
    pose proof (teardown_ast b) as H4.
    destruct Ht as (J1&J2&J3&J4&J5&J6&J7&J8&J9&J10&J11&J12).
    split.
    + unfold invB; cbn [ast phase tr q lbopen dl hist chs ccclosed hcf hph hmsg].
      repeat (split; [assumption|]). split; [intro; discriminate|]. repeat (split; [assumption|]).
      split; [intros _; auto|]. split; assumption.
    + exists (eff b 4). destruct Hf as (F1&F2&F3&F4&F5&F6&F7). unfold stepfacts. cbn [ast phase tr q lbopen dl hist chs ccclosed hcf hph hmsg].
      split; [exact F1|]. split; [exact F2|]. split; [intro; discriminate|]. split; [reflexivity|].
      split; [exact F5|]. split; [exact F6|exact F7].
  - (* reset back-off *)
    destruct (Z.eqb_spec (phase b) 2) as [P2|P2]; [|exact Hsame]. specialize (I2 P2).
    rewrite <- G_ph.
    apply HG, G_sound; sc; fin.
  - (* updateAddrs *)
    destruct fresh; [|exact Hsame].
    destruct ((ast b =? 2) || (ast b =? 1)) eqn:E21; [|exact Hsame].
    apply orb_prop in E21. rewrite !Z.eqb_eq in E21.
    change (set_phase (emit (set_tr (kill_h b) false) 1) 1) with (G b 0 false false 1 1).
    apply HG, G_sound; sc; try fin.
    destruct E21 as [E|E]; [strict|left; exact E].
  - (* health report *)
    destruct (Z.eqb_spec (hph b) 1) as [Hp|Hp]; [|exact Hsame].
    destruct (I11 ltac:(lia)) as [T Hh]. destruct (Htr T) as [P0 A].
    assert (Hm : hmanaged b = true) by (unfold hmanaged; rewrite T, Hh; reflexivity).
    assert (HA : forall s, s = 1 \/ s = 2 \/ s = 3 -> ast b = s \/ allowedR (hmanaged b) (ast b) s = true).
    { intros s Hs. rewrite Hm. destruct A as [A|[A|A]]; rewrite A; destruct Hs as [->|[-> | ->]];
        first [left; reflexivity|right; reflexivity]. }
    assert (HT : forall s, s = 1 \/ s = 2 \/ s = 3 -> tr b = true -> phase b = 0 /\ if hcf b then s = 1 \/ s = 2 \/ s = 3 else s = 2).
    { intros s Hs _. rewrite Hh. auto. }
    assert (HC : forall s, s = 1 \/ s = 2 \/ s = 3 -> ccclosed b = true -> s = 4).
    { intros s Hs Hc. specialize (Hcc Hc). lia. }
    destruct (Z.eqb_spec k 1) as [K1|K1].
    { rewrite <- G_keep.
      apply HG, G_sound; sc; first [apply HA|apply HT|apply HC]; auto. }
    destruct (Z.eqb_spec k 0) as [K0|K0].
    { rewrite <- G_keep.
      apply HG, G_sound; sc; first [apply HA|apply HT|apply HC]; auto. }
    destruct (Z.eqb_spec k 3) as [K3|K3].
    { rewrite <- G_keep.
      apply HG, G_sound; sc; first [apply HA|apply HT|apply HC]; auto. }
    destruct (Z.eqb_spec k 2) as [K2|K2]; [|exact Hsame].
    destruct (hmsg b) eqn:Hmsg.
    2:{ rewrite set_h_emit, <- G_keep.
        apply HG, G_sound; sc; first [apply HA|apply HT|apply HC]; auto. }
    (* TRANSIENT_FAILURE, then CONNECTING at once: two updates *)
    set (b1 := G b (hph b) (hmsg b) (tr b) 3 (phase b)).
    assert (Eb1 : emit b 3 = b1) by (unfold b1; rewrite G_ph; unfold set_phase, emit; destruct (ast b =? 3); destruct b; reflexivity).
    rewrite Eb1.
    destruct (G_ext b (hph b) (hmsg b) (tr b) 3 (phase b)) as (X1&X2&X3&X4&X5&X6&X7&X8&X9&X10&X11&X12). fold b1 in X1, X2, X3, X4, X5, X6, X7, X8, X9, X10, X11, X12.
    rewrite <- G_keep, X9, X10.
    assert (S1 : invB b1 /\ stepfacts b b1 (BHealth k) (eff b 3)).
    { unfold b1. apply G_sound; sc; first [apply HA|apply HT|apply HC]; auto. }
    destruct S1 as [Hi1 (F1&F2&F3&F4&F5&F6&F7)].
    assert (Hm1 : hmanaged b1 = true) by (unfold hmanaged; rewrite X6, X9, T, Hh; reflexivity).
    assert (S2 : invB (G b1 1 false (tr b) 1 (phase b)) /\ stepfacts b1 (G b1 1 false (tr b) 1 (phase b)) (BHealth k) (eff b1 1)).
    { apply G_sound; sc.
      - right. rewrite Hm1, X5. reflexivity.
      - intros _. rewrite X6, Hh. auto.
      - rewrite X7. intro Hc. specialize (Hcc Hc). lia.
      - rewrite X6. auto. }
    destruct S2 as [Hi2 (N1&N2&N3&N4&N5&N6&N7)]. split; [exact Hi2|].
    exists (eff b 3 ++ eff b1 1). unfold stepfacts.
    split; [rewrite N1, F1, app_assoc; reflexivity|]. split; [rewrite N2, F2; reflexivity|].
    split; [intro Ho; destruct (N3 Ho) as [Q1 O1]; destruct (F3 O1) as [Q2 O2]; split; [rewrite Q1, Q2, app_assoc; reflexivity|exact O2]|].
    split; [auto|]. split; [rewrite N5, F5, last_app; reflexivity|].
    split; [rewrite chain_okR_split, F6, <- F5; cbn [andb]; rewrite Hm; rewrite Hm1 in N6; exact N6|].
    unfold idle_rule. destruct (Z.eqb_spec (ast b) 3) as [A3|A3]; cbn [andb]; [|reflexivity].
    unfold eff at 1. rewrite A3. cbn [Z.eqb Pos.eqb app]. unfold eff. rewrite X5. cbn. reflexivity.
  - (* the checker's back-off ends *)
    destruct (Z.eqb_spec (hph b) 2) as [Hp|Hp]; [|exact Hsame].
    destruct (I11 ltac:(lia)) as [T Hh]. destruct (Htr T) as [P0 A].
    assert (Hm : hmanaged b = true) by (unfold hmanaged; rewrite T, Hh; reflexivity).
    rewrite <- G_keep.
    apply HG, G_sound; sc.
    + rewrite Hm. destruct A as [A|[A|A]]; rewrite A; first [left; reflexivity|right; reflexivity].
    + intros _. rewrite Hh. auto.
    + intro Hc. specialize (Hcc Hc). lia.
Qed.

Lemma bstep_inv : forall b o, invB b -> invB (bstep b o).
Proof.
  intros b o H. destruct o; try (apply bstep_sound; [exact H|discriminate]).
  pose proof H as (I1&I2&I3&I4&I5&I6&I7&I8&I9&I10&I11&I12). cbn [bstep].
  destruct (q b) as [|s r] eqn:Hq; [exact H|].
  destruct (lbopen b) eqn:Ho.
  + unfold invB; cbn [ast phase tr q lbopen dl hist chs ccclosed hcf hph hmsg].
    repeat (split; [assumption|]).
    split; [intros _; rewrite <- app_assoc; cbn; apply I6; reflexivity|].
    split; [exists r; rewrite <- app_assoc; cbn; symmetry; apply I6; reflexivity|].
    repeat (split; [assumption|]). split; [intro Hc; destruct (I10 Hc) as (_&?&_); discriminate|]. split; assumption.
  + unfold invB; cbn [ast phase tr q lbopen dl hist chs ccclosed hcf hph hmsg].
    repeat (split; [assumption|]). split; [intro; discriminate|]. repeat (split; [assumption|]). assumption.
Qed.

Lemma emit_hcf : forall b s, hcf (emit b s) = hcf b.
Proof. intros. unfold emit. destruct (ast b =? s); reflexivity. Qed.
Lemma emit_ast : forall b s, ast (emit b s) = s.
Proof. intros. unfold emit. destruct (Z.eqb_spec (ast b) s); [assumption|reflexivity]. Qed.
Lemma teardown_hcf : forall b, hcf (teardown b) = hcf b.
Proof. intro b. unfold teardown. destruct (ast b =? 4); [reflexivity|]. cbn [set_phase hcf]. rewrite emit_hcf. reflexivity. Qed.

Lemma bstep_hcf : forall b o, hcf (bstep b o) = hcf b.
Proof.
  intros b o. destruct o; cbn [bstep]; try reflexivity;
    try (destruct (q b); [reflexivity|]; destruct (lbopen b); reflexivity);
    repeat match goal with |- context [if ?c then _ else _] => destruct c eqn:? end;
    cbn [set_phase set_h set_tr kill_h hcf]; rewrite ?emit_hcf; cbn [set_phase set_h set_tr kill_h hcf]; rewrite ?emit_hcf;
    cbn [set_phase set_h set_tr kill_h hcf]; rewrite ?teardown_hcf; congruence.
Qed.

Lemma stBi_inv : forall h, invB (stBi h).
Proof.
  intro h. unfold invB, stBi; cbn. repeat split; auto; try (intros; discriminate); try (intros; lia).
  exists []. reflexivity.
Qed.
Lemma stB0_inv : invB stB0.
Proof. apply stBi_inv. Qed.

Lemma brun_inv : forall l b, invB b -> invB (brun b l).
Proof. induction l as [|o l IH]; intros b H; cbn; [exact H|]. apply IH, bstep_inv, H. Qed.
Lemma brun_hcf : forall l b, hcf (brun b l) = hcf b.
Proof. induction l as [|o l IH]; intro b; cbn; [reflexivity|]. rewrite IH. apply bstep_hcf. Qed.

(* "sub-channel states only take allowed transitions": the sequence of all state updates the
   addrConn ever emits, starting from IDLE, is a chain of allowed transitions (no client-side
   health checking) *)
Theorem ac_transitions_allowed : forall l, chain_ok 0 (hist (brun stB0 l)) = true.
Proof.
  intro l. destruct (brun_inv l _ stB0_inv) as (_&_&_&_&_&_&_&H&_).
  rewrite brun_hcf in H. cbn in H. rewrite chain_okR_false in H. exact H.
Qed.
(* with health checking configured: a chain of the relation extended by gRFC A17 ... *)
Theorem ac_transitions_allowed_health : forall h l, chain_okR h 0 (hist (brun (stBi h) l)) = true.
Proof. intros h l. destruct (brun_inv l _ (stBi_inv h)) as (_&_&_&_&_&_&_&H&_). rewrite brun_hcf in H. exact H. Qed.
(* ... and the extension is used only by steps taken while the health checker manages the
   state (health checking configured and a transport present): every other step emits
   updates that continue the un-extended chain, IDLE after TRANSIENT_FAILURE only when the
   back-off ends *)
Theorem strict_unless_health_managed : forall h l o, let b := brun (stBi h) l in
  o <> BDeliver -> hmanaged b = false ->
  exists e, hist (bstep b o) = hist b ++ e /\ chain_ok (ast b) e = true /\ idle_rule false (ast b) e o = true.
Proof.
  intros h l o b Ho Hm. destruct (bstep_sound b o (brun_inv l _ (stBi_inv h)) Ho) as [_ (e & F1&_&_&_&_&F6&F7)].
  exists e. rewrite Hm, chain_okR_false in F6. rewrite Hm in F7. auto.
Qed.

(* "updates reach the LB policy in the order they happened": what was delivered is a prefix
   of what was emitted; and everything emitted is delivered or still queued while the
   balancer wrapper is open *)
Theorem lb_delivery_in_order : forall h l, let b := brun (stBi h) l in
  (exists rest, hist b = dl b ++ rest) /\ (lbopen b = true -> dl b ++ q b = hist b).
Proof. intros h l. destruct (brun_inv l _ (stBi_inv h)) as (_&_&_&_&_&H6&H7&_). split; assumption. Qed.

(* "none arrive after the subchannel is shut down" *)
Theorem nothing_delivered_after_shutdown : forall h l pre post, dl (brun (stBi h) l) = pre ++ 4 :: post -> post = [].
Proof.
  intros h l pre post Hd. destruct (brun_inv l _ (stBi_inv h)) as (_&_&_&_&_&_&(rest&Hr)&Hc&_).
  rewrite Hr, Hd, chain_okR_split in Hc. apply andb_prop in Hc. destruct Hc as [Hc _].
  eapply chainR_nothing_after_4; eauto.
Qed.

Ltac astc := unfold kill_h; repeat (cbn [ast set_phase set_tr set_h] || rewrite emit_ast).

(* "leaves TRANSIENT_FAILURE only to IDLE after backoff or to SHUTDOWN"; what client-side
   health checking adds (third alternative, only while the checker manages the state) *)
Lemma tf_exits_inv : forall b o, invB b -> ast b = 3 -> ast (bstep b o) <> 3 ->
  (ast (bstep b o) = 0 /\ (o = BTimer \/ o = BReset)) \/ (ast (bstep b o) = 4 /\ (o = BShutdown \/ o = BClose)) \/
  (hmanaged b = true /\
   ((ast (bstep b o) = 2 /\ (o = BHealth 1 \/ o = BHealth 3)) \/
    (ast (bstep b o) = 1 /\ (o = BHealth 2 \/ o = BHBackoff)) \/
    (ast (bstep b o) = 0 /\ exists g, o = BServerClose g))).
Proof.
  intros b o (I1&I2&I3&I4&I5&I6&I7&I8&I9&I10&I11&I12) H3 Hn.
  assert (Hman : tr b = true -> hmanaged b = true).
  { intro T. unfold hmanaged. rewrite T. destruct (I5 T) as [_ A]. destruct (hcf b); [reflexivity|lia]. }
  destruct o; cbn [bstep] in *.
  - rewrite H3 in Hn. cbn in Hn. contradiction.
  - destruct (Z.eqb_spec (phase b) 1) as [P|P]; [apply I1 in P; lia|contradiction].
  - destruct (tr b) eqn:T; [|cbn in Hn; contradiction]. rewrite H3 in *. cbn [Z.eqb Pos.eqb negb andb] in *.
    right; right. split; [auto|]. right; right. split; [astc; reflexivity|eauto].
  - destruct (Z.eqb_spec (phase b) 2) as [P|P]; [|contradiction]. left. split; [astc; reflexivity|auto].
  - destruct (Z.eqb_spec (phase b) 1) as [P|P]; [apply I1 in P; lia|contradiction].
  - right; left. split; [apply teardown_ast|auto].
  - right; left. destruct (ccclosed b) eqn:Hc; [destruct (I10 eq_refl) as (_&_&?); lia|]. split; [|auto].
    cbn. apply teardown_ast.
  - destruct (Z.eqb_spec (phase b) 2) as [P|P]; [|contradiction]. left. split; [astc; reflexivity|auto].
  - destruct fresh; [|contradiction]. rewrite H3 in Hn. cbn in Hn. contradiction.
  - destruct (Z.eqb_spec (hph b) 1) as [Hp|Hp]; [|contradiction].
    destruct (I11 ltac:(lia)) as [T _]. right; right. split; [auto|].
    destruct (Z.eqb_spec k 1) as [->|K1]; [left; split; [astc; reflexivity|auto]|].
    destruct (Z.eqb_spec k 0) as [->|K0]; [exfalso; apply Hn; astc; reflexivity|].
    destruct (Z.eqb_spec k 3) as [->|K3]; [left; split; [astc; reflexivity|auto]|].
    destruct (Z.eqb_spec k 2) as [->|K2]; [|contradiction].
    destruct (hmsg b); [right; left; split; [astc; reflexivity|auto]|exfalso; apply Hn; astc; reflexivity].
  - destruct (Z.eqb_spec (hph b) 2) as [Hp|Hp]; [|contradiction].
    destruct (I11 ltac:(lia)) as [T _]. right; right. split; [auto|]. right; left. split; [astc; reflexivity|auto].
  - destruct (q b); [contradiction|]. destruct (lbopen b); cbn in Hn; contradiction.
  - contradiction.
Qed.

Theorem tf_exits : forall l o, let b := brun stB0 l in ast b = 3 -> ast (bstep b o) <> 3 ->
  (ast (bstep b o) = 0 /\ (o = BTimer \/ o = BReset)) \/ (ast (bstep b o) = 4 /\ (o = BShutdown \/ o = BClose)).
Proof.
  intros l o b H3 Hn. destruct (tf_exits_inv b o (brun_inv l _ stB0_inv) H3 Hn) as [E|[E|[Hm _]]]; auto.
  unfold hmanaged, b in Hm. rewrite brun_hcf in Hm. discriminate.
Qed.
Theorem tf_exits_health : forall h l o, let b := brun (stBi h) l in ast b = 3 -> ast (bstep b o) <> 3 ->
  (ast (bstep b o) = 0 /\ (o = BTimer \/ o = BReset)) \/ (ast (bstep b o) = 4 /\ (o = BShutdown \/ o = BClose)) \/
  (hmanaged b = true /\
   ((ast (bstep b o) = 2 /\ (o = BHealth 1 \/ o = BHealth 3)) \/
    (ast (bstep b o) = 1 /\ (o = BHealth 2 \/ o = BHBackoff)) \/
    (ast (bstep b o) = 0 /\ exists g, o = BServerClose g))).
Proof. intros h l o b. apply tf_exits_inv, brun_inv, stBi_inv. Qed.

(* an address update while the sub-channel is backing off (or IDLE, or SHUTDOWN) changes
   nothing that is reported: the back-off is not cut short *)
Theorem upd_addrs_not_connecting : forall b fresh, ast b = 3 \/ ast b = 0 \/ ast b = 4 ->
  bstep b (BUpdAddrs fresh) = b.
Proof.
  intros b fresh H. cbn [bstep]. destruct fresh; [|reflexivity].
  destruct (Z.eqb_spec (ast b) 2); [lia|]. destruct (Z.eqb_spec (ast b) 1); [lia|reflexivity].
Qed.

Lemma shutdown_final_inv : forall b o, invB b -> ast b = 4 -> ast (bstep b o) = 4.
Proof.
  intros b o (I1&I2&I3&I4&I5&I6&I7&I8&I9&I10&I11&I12) H4.
  destruct (I4 H4) as [P0 T].
  assert (Hp : hph b = 0) by (destruct (Z.eq_dec (hph b) 0) as [E|E]; [exact E|destruct (I11 E); congruence]).
  destruct o; cbn [bstep].
  - rewrite H4. cbn. exact H4.
  - rewrite P0. exact H4.
  - rewrite T. exact H4.
  - rewrite P0. exact H4.
  - rewrite P0. exact H4.
  - apply teardown_ast.
  - destruct (ccclosed b); [exact H4|]. cbn. apply teardown_ast.
  - rewrite P0. exact H4.
  - destruct fresh; [|exact H4]. rewrite H4. cbn. exact H4.
  - rewrite Hp. exact H4.
  - rewrite Hp. exact H4.
  - destruct (q b); [exact H4|]. destruct (lbopen b); exact H4.
  - exact H4.
Qed.
Theorem shutdown_is_final : forall h l o, let b := brun (stBi h) l in ast b = 4 -> ast (bstep b o) = 4.
Proof. intros h l o b. apply shutdown_final_inv, brun_inv, stBi_inv. Qed.

(* "reaches READY only from CONNECTING": by a successful dial when no health checking is
   configured; with health checking, by the checker's report SERVING / Unimplemented, from
   CONNECTING or - the deviation - from TRANSIENT_FAILURE *)
Lemma ready_from_inv : forall b o, invB b -> ast b <> 2 -> ast (bstep b o) = 2 ->
  (ast b = 1 /\ o = BDial true /\ hcf b = false) \/
  (hmanaged b = true /\ (ast b = 1 \/ ast b = 3) /\ (o = BHealth 1 \/ o = BHealth 3)).
Proof.
  intros b o (I1&I2&I3&I4&I5&I6&I7&I8&I9&I10&I11&I12) Hn H2.
  destruct o; cbn [bstep] in H2.
  - destruct ((ast b =? 0) && (phase b =? 0)); [|contradiction]. revert H2. astc. lia.
  - destruct (Z.eqb_spec (phase b) 1) as [P|P]; [|contradiction]. destruct ok.
    + destruct (hcf b) eqn:Hh; [revert H2; astc; intro; contradiction|]. left. auto.
    + revert H2. astc. lia.
  - destruct (tr b && negb (ast b =? 4)); [|contradiction]. revert H2. astc. lia.
  - destruct (phase b =? 2); [|contradiction]. revert H2. astc. lia.
  - destruct (phase b =? 1); [|contradiction]. revert H2. astc. lia.
  - rewrite teardown_ast in H2. lia.
  - destruct (ccclosed b); [contradiction|]. cbn in H2. rewrite teardown_ast in H2. lia.
  - destruct (phase b =? 2); [|contradiction]. revert H2. astc. lia.
  - destruct fresh; [|contradiction]. destruct ((ast b =? 2) || (ast b =? 1)); [|contradiction]. revert H2. astc. lia.
  - destruct (Z.eqb_spec (hph b) 1) as [Hp|Hp]; [|contradiction].
    destruct (I11 ltac:(lia)) as [T Hh]. destruct (I5 T) as [_ A]. rewrite Hh in A.
    right. split; [unfold hmanaged; rewrite T, Hh; reflexivity|]. split; [lia|].
    destruct (Z.eqb_spec k 1) as [->|K1]; [auto|].
    destruct (Z.eqb_spec k 0) as [->|K0]; [revert H2; astc; lia|].
    destruct (Z.eqb_spec k 3) as [->|K3]; [auto|].
    destruct (Z.eqb_spec k 2) as [->|K2]; [|contradiction].
    destruct (hmsg b); revert H2; astc; lia.
  - destruct (hph b =? 2); [|contradiction]. revert H2. astc. lia.
  - destruct (q b); [contradiction|]. destruct (lbopen b); cbn in H2; contradiction.
  - contradiction.
Qed.
Theorem ready_only_from_connecting : forall l o, let b := brun stB0 l in
  ast b <> 2 -> ast (bstep b o) = 2 -> ast b = 1 /\ o = BDial true.
Proof.
  intros l o b Hn H2. destruct (ready_from_inv b o (brun_inv l _ stB0_inv) Hn H2) as [(A&B&_)|(Hm&_)]; [auto|].
  unfold hmanaged, b in Hm. rewrite brun_hcf in Hm. discriminate.
Qed.
Theorem ready_from_health : forall h l o, let b := brun (stBi h) l in
  ast b <> 2 -> ast (bstep b o) = 2 ->
  (ast b = 1 /\ o = BDial true /\ hcf b = false) \/
  (hmanaged b = true /\ (ast b = 1 \/ ast b = 3) /\ (o = BHealth 1 \/ o = BHealth 3)).
Proof. intros h l o b. apply ready_from_inv, brun_inv, stBi_inv. Qed.

(* GOAWAY or a lost connection: a READY sub-channel goes IDLE, drops its transport and stops
   its health checker; both events are the same step; a second one changes nothing *)
Theorem server_close_ready_to_idle : forall h l g, let b := brun (stBi h) l in
  ast b = 2 -> let b' := bstep b (BServerClose g) in
  ast b' = 0 /\ tr b' = false /\ hph b' = 0 /\ bstep b' (BServerClose g) = b' /\ bstep b (BServerClose g) = bstep b (BServerClose (negb g)).
Proof.
  intros h l g b H2 b'. destruct (brun_inv l _ (stBi_inv h)) as (_&_&_&_&_&_&_&_&_&_&_&I12). fold b in I12.
  unfold b'. cbn [bstep]. rewrite (I12 H2), H2. cbn [Z.eqb Pos.eqb negb andb].
  unfold emit, kill_h, set_tr, set_h. cbn [ast]. rewrite H2. cbn. repeat split; reflexivity.
Qed.

(* the health checker's reports are dropped once its transport is gone *)
Theorem health_report_dropped_without_checker : forall b k, hph b = 0 -> bstep b (BHealth k) = b /\ bstep b BHBackoff = b.
Proof. intros b k H. cbn [bstep]. rewrite H. split; reflexivity. Qed.
Theorem no_checker_without_transport : forall h l, let b := brun (stBi h) l in hph b <> 0 -> tr b = true /\ hcf b = true.
Proof. intros h l b. destruct (brun_inv l _ (stBi_inv h)) as (_&_&_&_&_&_&_&_&_&_&I11&_). exact I11. Qed.

(* NOTE (client-side health checking is outside the event kinds C30 quantifies over; gRFC A17
   behaviour): a health-managed sub-channel reaches READY from TRANSIENT_FAILURE, and leaves
   TRANSIENT_FAILURE to CONNECTING *)
Theorem health_tf_to_ready_note : exists l, let b := brun (stBi true) l in
  ast b = 3 /\ ast (bstep b (BHealth 1)) = 2 /\ hist (bstep b (BHealth 1)) = [1; 3; 2].
Proof. exists [BConnect; BDial true; BHealth 0]. vm_compute. repeat split; reflexivity. Qed.
Theorem health_tf_to_connecting_note : exists l, let b := brun (stBi true) l in
  ast b = 3 /\ ast (bstep b BHBackoff) = 1.
Proof. exists [BConnect; BDial true; BHealth 2]. vm_compute. split; reflexivity. Qed.

(* ================= bridge: clauses hold on model traces ================= *)
Lemma all2_id : forall f l, (forall x, In x l -> f x (ph x) = true) -> all2 f l (map ph l) = true.
Proof.
  intros f. induction l as [|x l IH]; intro H; cbn; [reflexivity|].
  rewrite H by (left; reflexivity). rewrite IH; [reflexivity|]. intros; apply H; right; assumption.
Qed.
Lemma all2_upd : forall f l n x x', nth_error l n = Some x ->
  (forall y, In y l -> f y (ph y) = true) -> f x (ph x') = true -> all2 f l (map ph (upd l n x')) = true.
Proof.
  intros f. induction l as [|y l IH]; intros [|n] x x' Hn Hid Hx; cbn in *; try discriminate.
  - inversion Hn; subst. rewrite Hx. cbn. apply all2_id. intros; apply Hid; right; assumption.
  - rewrite Hid by (left; reflexivity). cbn. apply (IH n x x' Hn); [intros; apply Hid; right; assumption|exact Hx].
Qed.
Lemma all2_map : forall f g l, (forall x, In x l -> f x (ph (g x)) = true) -> all2 f l (map ph (map g l)) = true.
Proof.
  intros f g. induction l as [|x l IH]; intro H; cbn; [reflexivity|].
  rewrite H by (left; reflexivity). rewrite IH; [reflexivity|]. intros; apply H; right; assumption.
Qed.
Lemma upd_upd : forall A (l : list A) n x y, upd (upd l n x) n y = upd l n y.
Proof. induction l as [|z l IH]; intros [|n] x y; cbn; auto. rewrite IH. reflexivity. Qed.

Lemma watch1_id : forall c op x, (ph x = 0 \/ ph x = 1 \/ ph x = 2 \/ ph x = 3 \/ ph x = 4) ->
  watch1 c c op x (ph x) = true.
Proof.
  intros c op x H. unfold watch1. rewrite Z.eqb_refl. cbn [negb].
  destruct (Z.eqb_spec (ph x) 2) as [E|E]; [rewrite E; reflexivity|].
  destruct (Z.eqb_spec (ph x) 0) as [E0|E0]; [rewrite E0; reflexivity|]. destruct (ph x =? 1); [reflexivity|apply Z.eqb_refl].
Qed.

Lemma decA_other : forall op, (forall s, op <> [1; s]) -> op <> [2] -> (forall w s, op <> [3; w; s]) ->
  (forall w, op <> [4; w]) -> decA op = [] /\ forall c, lastpub c op = c.
Proof.
  intros op H1 H2 H3 H4.
  destruct op as [|k [|a1 [|a2 [|a3 r]]]]; try (split; reflexivity);
    (destruct k as [|p|p]; [split; reflexivity| |split; reflexivity]);
    (destruct p as [p|p|]; try destruct p as [p|p|]; try destruct p as [p|p|]; try (split; reflexivity));
    try (exfalso; eapply H1; reflexivity); try (exfalso; apply H2; reflexivity);
    try (exfalso; eapply H3; reflexivity); try (exfalso; eapply H4; reflexivity).
Qed.

Lemma clausesA_same : forall a op, invA a -> arun a (decA op) = a -> lastpub (cst (cm a)) op = cst (cm a) ->
  forallb (fun c => snd c) (clausesA_op a op (obsA (arun a (decA op)))) = true.
Proof.
  intros a op [HM HF] Hr Hl. rewrite Hr. unfold clausesA_op, obsA. cbn [forallb snd]. rewrite Hl, Z.eqb_refl. cbn [andb].
  rewrite andb_true_r. apply all2_id. intros x Hx. apply watch1_id.
  rewrite Forall_forall in HF. destruct (HF x Hx) as (W0&_). exact W0.
Qed.

Lemma clausesA_step : forall a op, invA a ->
  forallb (fun c => snd c) (clausesA_op a op (obsA (arun a (decA op)))) = true.
Proof.
  intros a op Hinv. pose proof Hinv as [HM HF].
  assert (Hph : forall x, In x (ws a) -> ph x = 0 \/ ph x = 1 \/ ph x = 2 \/ ph x = 3 \/ ph x = 4).
  { intros x Hx. rewrite Forall_forall in HF. destruct (HF x Hx) as (W0&_). exact W0. }
  assert (Hnop : arun a (decA op) = a -> lastpub (cst (cm a)) op = cst (cm a) ->
                 forallb (fun c => snd c) (clausesA_op a op (obsA (arun a (decA op)))) = true)
    by (apply clausesA_same; exact Hinv).
  assert (Hcase : (exists s, op = [1; s]) \/ op = [2] \/ (exists w s, op = [3; w; s]) \/ (exists w, op = [4; w]) \/
                  ((forall s, op <> [1; s]) /\ op <> [2] /\ (forall w s, op <> [3; w; s]) /\ (forall w, op <> [4; w]))).
  { destruct op as [|k [|a1 [|a2 [|a3 r]]]].
    - right; right; right; right. repeat split; intros; discriminate.
    - destruct (Z.eq_dec k 2) as [->|K]; [auto|]. right; right; right; right. repeat split; intros; congruence.
    - destruct (Z.eq_dec k 1) as [->|K1]; [left; eauto|]. destruct (Z.eq_dec k 4) as [->|K4]; [right; right; right; left; eauto|].
      right; right; right; right. repeat split; intros; congruence.
    - destruct (Z.eq_dec k 3) as [->|K3]; [right; right; left; eauto|].
      right; right; right; right. repeat split; intros; congruence.
    - right; right; right; right. repeat split; intros; discriminate. }
  destruct Hcase as [(a1 & ->)|[->|[(a1 & a2 & ->)|[(a1 & ->)|(H1&H2&H3&H4)]]]].
  5:{ destruct (decA_other op H1 H2 H3 H4) as [Hd Hl]. apply Hnop; [rewrite Hd; reflexivity|apply Hl]. }
  2:{ apply Hnop; reflexivity. }
  - (* update *)
    destruct ((0 <=? a1) && (a1 <=? 4)) eqn:V.
    2:{ apply Hnop; [cbn [decA]; rewrite V; reflexivity|cbn [lastpub]; rewrite V; reflexivity]. }
    cbn [decA]. rewrite V. unfold clausesA_op, obsA. cbn [arun astep cm ws lastpub]. rewrite V. cbn [andb].
    set (m' := csm_update (cm a) a1).
    assert (Hc : cst m' = if cst (cm a) =? 4 then cst (cm a) else a1).
    { pose proof (astep_cst a (AUpdate a1)) as E. cbn in E. exact E. }
    cbn [forallb snd]. rewrite Hc.
    destruct (Z.eqb_spec (cst (cm a)) 4) as [E4|E4]; cbn [negb]; rewrite Z.eqb_refl; cbn [andb];
      rewrite andb_true_r; apply all2_map; intros x Hx; rewrite Forall_forall in HF;
      pose proof (HF x Hx) as Hw; pose proof Hw as (W0&W1&W2&W4).
    + (* shutdown: csm unchanged *)
      assert (Em : m' = cm a) by (unfold m', csm_update; destruct (Z.eqb_spec (cst (cm a)) 4); [reflexivity|contradiction]).
      rewrite Em. unfold wake1.
      destruct (Z.eqb_spec (ph x) 2) as [P2|P2]; cbn [andb].
      * destruct (W2 P2) as (C&_). rewrite C. cbn [ph]. apply watch1_id. auto.
      * cbn [ph]. apply watch1_id, W0.
    + destruct (Z.eqb_spec (cst (cm a)) a1) as [Es|Es].
      * assert (Em : m' = cm a).
        { unfold m', csm_update. destruct (cst (cm a) =? 4); [reflexivity|]. rewrite Es, Z.eqb_refl. reflexivity. }
        rewrite Em, <- Es. unfold wake1.
        destruct (Z.eqb_spec (ph x) 2) as [P2|P2]; cbn [andb].
        -- destruct (W2 P2) as (C&_). rewrite C. cbn [ph]. apply watch1_id. auto.
        -- cbn [ph]. apply watch1_id, W0.
      * unfold watch1. destruct (Z.eqb_spec (cst (cm a)) a1); [contradiction|]. cbn [negb].
        unfold wake1. destruct (Z.eqb_spec (ph x) 2) as [P2|P2]; cbn [andb].
        -- destruct (W2 P2) as (C&S&K). destruct (W1 (or_intror P2)) as (L&U). destruct (U C) as (N&D).
           unfold m', csm_update. destruct (Z.eqb_spec (cst (cm a)) 4); [contradiction|].
           destruct (Z.eqb_spec (cst (cm a)) a1); [contradiction|]. rewrite N. cbn [closedch].
           rewrite mem_cons, Z.eqb_refl. reflexivity.
        -- cbn [ph]. destruct (Z.eqb_spec (ph x) 0) as [P0|P0]; [try rewrite P0; reflexivity|destruct (ph x =? 1); [reflexivity|apply Z.eqb_refl]].
  - (* start a watcher *)
    destruct ((0 <=? a2) && (a2 <=? 4)) eqn:V; [|apply Hnop; [cbn [decA]; rewrite V; reflexivity|reflexivity]].
    destruct (getw a a1) as [x|] eqn:Hx.
    2:{ apply Hnop; [|reflexivity]. cbn [decA]. rewrite V. cbn [arun astep]. rewrite Hx. cbn [astep]. rewrite Hx. reflexivity. }
    pose proof (getw_nth _ _ _ Hx) as Hnx.
    destruct (Z.eqb_spec (ph x) 0) as [P0|P0].
    2:{ destruct (Z.eqb_spec (ph x) 1) as [P1|P1].
        2:{ apply Hnop; [|reflexivity]. cbn [decA]. rewrite V. cbn [arun astep]. rewrite Hx.
            destruct (Z.eqb_spec (ph x) 0); [contradiction|]. cbn [astep]. rewrite Hx.
            destruct (Z.eqb_spec (ph x) 1); [contradiction|reflexivity]. }
        cbn [decA]. rewrite V. cbn [arun astep]. rewrite Hx.
        destruct (Z.eqb_spec (ph x) 0); [contradiction|]. cbn [astep]. rewrite Hx.
        destruct (Z.eqb_spec (ph x) 1); [|contradiction].
        unfold clausesA_op, obsA. cbn [cm ws forallb snd lastpub]. rewrite Z.eqb_refl. cbn [andb]. rewrite andb_true_r.
        eapply all2_upd; [exact Hnx|intros y Hy; apply watch1_id, Hph, Hy|].
        unfold watch1. rewrite P1. reflexivity. }
    pose proof (mok_notify _ HM) as HM1.
    assert (Hcn : nch (fst (csm_notify (cm a))) = Some (snd (csm_notify (cm a))) /\
                  cst (fst (csm_notify (cm a))) = cst (cm a)).
    { unfold csm_notify. destruct (nch (cm a)) eqn:E; cbn; auto. }
    assert (Hlt : (a1 <? 0) = false) by (unfold getw in Hx; destruct (a1 <? 0); [discriminate|reflexivity]).
    cbn [decA]. rewrite V. cbn [arun astep]. rewrite Hx.
    destruct (Z.eqb_spec (ph x) 0); [|contradiction].
    destruct (csm_notify (cm a)) as [m1 c] eqn:Hn. cbn [fst snd] in *. destruct Hcn as [Hc1 Hc2].
    cbn [astep]. unfold getw. cbn [ws]. rewrite Hlt, (nth_error_upd_eq _ _ _ _ _ Hnx). cbn [ph Z.eqb Pos.eqb cm ws wsrc wch wcan].
    rewrite upd_upd. unfold clausesA_op, obsA. cbn [cm ws forallb snd lastpub]. rewrite Hc2, Z.eqb_refl. cbn [andb]. rewrite andb_true_r.
    unfold watch_ok. eapply all2_upd; [exact Hnx|intros y Hy; apply watch1_id, Hph, Hy|].
    cbn [ph]. unfold watch1. rewrite P0. cbn [Z.eqb]. rewrite V. cbn [andb].
    destruct HM1 as [N1 _]. destruct (N1 c Hc1) as [_ Cc]. rewrite Cc.
    destruct (Z.eqb_spec (cst (cm a)) a2) as [Es|Es]; cbn [negb].
    + destruct (wcan x); reflexivity.
    + reflexivity.
  - (* cancel *)
    destruct (getw a a1) as [x|] eqn:Hx.
    2:{ apply Hnop; [|reflexivity]. cbn [decA arun astep]. rewrite Hx. reflexivity. }
    destruct (wcan x) eqn:K.
    { apply Hnop; [|reflexivity]. cbn [decA arun astep]. rewrite Hx, K. reflexivity. }
    cbn [decA arun astep]. rewrite Hx, K.
    unfold clausesA_op, obsA. cbn [cm ws forallb snd lastpub]. rewrite Z.eqb_refl. cbn [andb].
    rewrite andb_true_r. pose proof (getw_nth _ _ _ Hx) as Hn.
    eapply all2_upd; [exact Hn| |].
    + intros y Hy. apply watch1_id, Hph, Hy.
    + cbn [ph]. unfold watch1. rewrite Z.eqb_refl. cbn [negb].
      destruct (Z.eqb_spec (ph x) 2) as [P2|P2]; [reflexivity|].
      destruct (Z.eqb_spec (ph x) 0) as [P0|P0]; [try rewrite P0; reflexivity|destruct (ph x =? 1); [reflexivity|apply Z.eqb_refl]].
Qed.

(* ---------- part B bridge ---------- *)
Lemma drain_facts : forall fuel b, (length (q b) < fuel)%nat ->
  q (drain fuel b) = [] /\ ast (drain fuel b) = ast b /\ lbopen (drain fuel b) = lbopen b /\
  ccclosed (drain fuel b) = ccclosed b /\ hist (drain fuel b) = hist b /\
  dl (drain fuel b) = dl b ++ (if lbopen b then q b else []).
Proof.
  induction fuel as [|f IH]; intros b Hf; [lia|]. cbn [drain].
  destruct (q b) as [|s r] eqn:Hq.
  - rewrite Hq. destruct (lbopen b); rewrite app_nil_r; repeat split; reflexivity.
  - cbn [bstep]. rewrite Hq. destruct (lbopen b) eqn:Ho.
    + match goal with |- context [drain f ?b'] => destruct (IH b') as (A1&A2&A3&A4&A5&A6); [cbn; cbn in Hf; lia|] end.
      cbn [q ast lbopen ccclosed hist dl] in *. rewrite A1, A2, A3, A4, A5, A6. rewrite <- app_assoc. repeat split; reflexivity.
    + match goal with |- context [drain f ?b'] => destruct (IH b') as (A1&A2&A3&A4&A5&A6); [cbn; cbn in Hf; lia|] end.
      cbn [q ast lbopen ccclosed hist dl] in *. rewrite A1, A2, A3, A4, A5, A6. repeat split; reflexivity.
Qed.

Lemma drain_inv : forall fuel b, invB b -> invB (drain fuel b).
Proof.
  induction fuel as [|f IH]; intros b H; cbn [drain]; [exact H|].
  destruct (q b); [exact H|]. apply IH. apply (bstep_inv b BDeliver H).
Qed.

Lemma decB_not_deliver : forall op, decB op <> BDeliver.
Proof.
  intro op. unfold decB.
  repeat match goal with
         | |- context [match ?x with _ => _ end] => destruct x
         end; discriminate.
Qed.

Lemma skipn_app_len : forall (a b : list Z), skipn (length a) (a ++ b) = b.
Proof. induction a; intros; cbn; auto. Qed.

Lemma take_n_app : forall a b, take_n (length a) (a ++ b) = Some (a, b).
Proof. induction a as [|x a IH]; intro b; cbn; [reflexivity|]. rewrite IH. reflexivity. Qed.

Lemma emit_lbopen : forall b s, lbopen (emit b s) = lbopen b.
Proof. intros. unfold emit. destruct (ast b =? s); reflexivity. Qed.
Lemma teardown_lbopen : forall b, lbopen (teardown b) = lbopen b.
Proof. intro b. unfold teardown. destruct (ast b =? 4); [reflexivity|]. cbn. rewrite emit_lbopen. reflexivity. Qed.

Lemma bstep_lbopen : forall b o, o <> BDeliver -> (o = BClose -> ccclosed b = true) ->
  lbopen (bstep b o) = lbopen b.
Proof.
  intros b o Hd Hc. destruct o; cbn [bstep]; try reflexivity; try congruence;
    try (rewrite (Hc eq_refl); reflexivity); try apply teardown_lbopen;
    repeat match goal with |- context [if ?c then _ else _] => destruct c end;
    cbn [set_phase set_h set_tr kill_h lbopen]; rewrite ?emit_lbopen; cbn [set_phase set_h set_tr kill_h lbopen]; rewrite ?emit_lbopen;
    reflexivity.
Qed.

Lemma stepB_facts : forall b op, invB b -> q b = [] -> let b0 := bstep b (decB op) in let b1 := stepB b op in
  invB b1 /\ q b1 = [] /\ ast b1 = ast b0 /\ lbopen b1 = lbopen b0 /\ ccclosed b1 = ccclosed b0 /\
  exists e, dl b1 = dl b ++ (if lbopen b0 then e else []) /\ stepfacts b b0 (decB op) e.
Proof.
  intros b op Hi Hq b0 b1. destruct (bstep_sound b (decB op) Hi (decB_not_deliver op)) as [_ (e & Hf)]. fold b0 in Hf.
  pose proof Hf as (N1&N2&N3&N4&_).
  unfold b1, stepB. fold b0.
  destruct (drain_facts (S (length (q b0))) b0) as (D1&D2&D3&D4&D5&D6); [lia|].
  split; [apply drain_inv, bstep_inv, Hi|]. split; [exact D1|]. split; [exact D2|]. split; [exact D3|]. split; [exact D4|].
  exists e. split; [|exact Hf].
  rewrite D6, N2. destruct (lbopen b0) eqn:Ho; [|reflexivity]. destruct (N3 eq_refl) as [Q _]. rewrite Q, Hq. reflexivity.
Qed.

Lemma clausesB_step : forall b op, invB b -> q b = [] ->
  forallb (fun c => snd c) (clausesB_op b op (obsB b (stepB b op))) = true.
Proof.
  intros b op Hi Hq. destruct (stepB_facts b op Hi Hq) as (Hi1&Hq1&Ha&Ho&Hc&(e&Hd&Hf)).
  set (b0 := bstep b (decB op)) in *. set (b1 := stepB b op) in *.
  set (d := if lbopen b0 then e else []) in *.
  destruct Hf as (F1&F2&F3&F4&F5&F6&F7).
  unfold clausesB_op, obsB. rewrite Hd, skipn_app_len.
  replace (Z.of_nat (length d) <? 0) with false by (symmetry; apply Z.ltb_ge; lia).
  rewrite Nat2Z.id, take_n_app.
  pose proof Hi as (I1&I2&I3&I4&I5&I6&I7&I8&I9&I10&I11&I12).
  pose proof Hi1 as (J1&J2&J3&J4&J5&J6&J7&J8&J9&J10&J11&J12).
  cbn [forallb fst snd]. rewrite andb_true_r.
  (* no READY for a connection that was lost before createTransport finished *)
  assert (H6 : match decB op with BDialLost => negb (mem 2 d) | _ => true end = true).
  { destruct (decB op) eqn:Eo; try reflexivity.
    unfold d. destruct (lbopen b0); [|reflexivity].
    assert (He : e = [] \/ e = [0]).
    { unfold b0 in F1. try rewrite Eo in F1. cbn [bstep] in F1.
      destruct (phase b =? 1).
      - cbn [set_phase hist] in F1. unfold emit in F1. destruct (ast b =? 0); cbn [hist] in F1.
        + left. apply (app_inv_head (hist b)). rewrite app_nil_r. symmetry. exact F1.
        + right. apply (app_inv_head (hist b)). symmetry. exact F1.
      - left. apply (app_inv_head (hist b)). rewrite app_nil_r. symmetry. exact F1. }
    destruct He as [-> | ->]; reflexivity. }
  rewrite H6, andb_true_r.
  (* when something is delivered, the wrapper was open and the last delivered state is ac.state *)
  assert (Hprev : lbopen b0 = true -> last (dl b) 0 = ast b).
  { intro Hob. destruct (F3 Hob) as [_ Hb]. rewrite I9, <- (I6 Hb), Hq, app_nil_r. reflexivity. }
  (* nothing leaves SHUTDOWN *)
  assert (H5 : (if (ast b =? 4) || mem 4 d then ast b1 =? 4 else true) = true).
  { destruct (Z.eqb_spec (ast b) 4) as [E4|E4]; cbn [orb].
    - apply Z.eqb_eq. rewrite Ha. apply shutdown_final_inv; assumption.
    - destruct (mem 4 d) eqn:Hm; [|reflexivity]. apply Z.eqb_eq. rewrite Ha.
      unfold d in Hm. destruct (lbopen b0); [|discriminate]. rewrite F5. eapply chainR_mem4_last; eauto. }
  rewrite H5, andb_true_r.
  unfold last_or.
  assert (H3 : chain_okR (hmanaged b) (last (dl b) 0) d && idle_rule (hmanaged b) (last (dl b) 0) d (decB op) = true).
  { unfold d. destruct (lbopen b0) eqn:Hob.
    - rewrite (Hprev eq_refl), F6, F7. reflexivity.
    - cbn. unfold idle_rule. rewrite andb_false_r. reflexivity. }
  rewrite H3. cbn [andb].
  apply andb_true_intro. split.
  - destruct (lbopen b && negb match decB op with BClose => negb (ccclosed b) | _ => false end) eqn:Hcond; [|reflexivity].
    apply andb_prop in Hcond. destruct Hcond as [Hb Hcl].
    assert (Hob : lbopen b0 = true).
    { unfold b0. rewrite bstep_lbopen; [exact Hb|apply decB_not_deliver|].
      intro Eo. rewrite Eo in Hcl. cbn in Hcl. destruct (ccclosed b); [reflexivity|discriminate]. }
    apply Z.eqb_eq. rewrite <- last_app, <- Hd. rewrite J9. rewrite <- (J6 (eq_trans Ho Hob)), Hq1, app_nil_r. reflexivity.
  - fold b0. destruct (ccclosed b0) eqn:Hcc; [|reflexivity]. destruct (J10 Hc) as (C&_). apply Z.eqb_eq, C.
Qed.

Lemma walkA_exec : forall ops a, invA a ->
  forallb (fun c => snd c) (walkA a ops (execA a ops)) = true.
Proof.
  induction ops as [|op ops IH]; intros a Hi; [reflexivity|].
  cbn [execA walkA]. rewrite forallb_app, word_eqb_refl.
  rewrite (clausesA_step a op Hi). cbn [andb]. apply IH. apply arun_inv, Hi.
Qed.

Lemma walkB_exec : forall ops b, invB b -> q b = [] ->
  forallb (fun c => snd c) (walkB b ops (execB b ops)) = true.
Proof.
  induction ops as [|op ops IH]; intros b Hi Hq; [reflexivity|].
  cbn [execB walkB]. rewrite forallb_app, (clausesB_step b op Hi Hq), word_eqb_refl. cbn [andb].
  destruct (stepB_facts b op Hi Hq) as (Hi1&Hq1&_). apply IH; assumption.
Qed.

Definition cfg_wf (cfg : word) : bool :=
  match cfg with
  | [0; n] => (0 <=? n) && (n <=? 6)
  | [1] => true
  | [1; h] => (h =? 0) || (h =? 1)
  | _ => false
  end.

Theorem model_trace_holds : forall cfg ops, cfg_wf cfg = true ->
  exists obs, run cfg ops = Some obs /\ holds_b cfg ops obs = true.
Proof.
  intros cfg ops Hw. unfold run, holds_b, clauses.
  destruct cfg as [|k [|n [|x r]]]; try discriminate.
  - destruct k as [|p|p]; try discriminate. destruct p as [p|p|]; try discriminate; try (destruct p; discriminate).
    eexists. split; [reflexivity|]. apply walkB_exec; [apply stB0_inv|reflexivity].
  - destruct k as [|p|p]; try discriminate.
    + cbn in Hw. rewrite Hw. eexists. split; [reflexivity|]. apply walkA_exec. apply (initA_inv (Z.to_nat n)).
    + destruct p as [p|p|]; try discriminate; try (destruct p; discriminate).
      cbn in Hw. rewrite Hw. eexists. split; [reflexivity|]. apply walkB_exec; [apply stBi_inv|reflexivity].
  - cbn in Hw. destruct k as [|p|p]; try discriminate; destruct p as [p|p|]; try discriminate; destruct p; discriminate.
Qed.

(* NOTE: the health-managed history the driver replays on the real code as case 9 (NOT_SERVING then
   SERVING: the LB policy receives CONNECTING, TRANSIENT_FAILURE, READY) is a model trace on
   which every clause holds - health checking is outside C30's quantifier, the extended
   relation of clause 3 accepts gRFC A17 transitions while the checker manages the state *)
Theorem health_managed_transitions_note : exists cfg ops obs, cfg_wf cfg = true /\
  run cfg ops = Some obs /\ holds_b cfg ops obs = true /\ all_fails (clauses cfg ops obs) = [] /\
  obs = [[1;1;1;1;0]; [0;1;1;1]; [1;3;3;3;1]; [1;2;2;2;1]].
Proof.
  exists [1; 1], [[1]; [2; 1]; [10; 0]; [10; 1]], [[1;1;1;1;0]; [0;1;1;1]; [1;3;3;3;1]; [1;2;2;2;1]].
  vm_compute. repeat split; reflexivity.
Qed.

(* "READY only with a live transport": a connection that is established and lost again before
   createTransport has installed it takes a CONNECTING sub-channel to IDLE - no transport, no
   connect goroutine left, READY is not reported - and is a no-op in every other state *)
Theorem dial_lost_never_ready : forall b, invB b ->
  let b' := bstep b BDialLost in
  tr b' = tr b /\ ast b' <> 2 \/ b' = b.
Proof.
  intros b H. cbn [bstep]. destruct (Z.eqb_spec (phase b) 1) as [P|P]; [|right; reflexivity].
  left. split; [unfold set_phase, emit; destruct (ast b =? 0); reflexivity|].
  cbn [set_phase ast]. rewrite emit_ast. lia.
Qed.
Theorem dial_lost_goes_idle : forall b, phase b = 1 ->
  ast (bstep b BDialLost) = 0 /\ phase (bstep b BDialLost) = 0 /\ tr (bstep b BDialLost) = tr b.
Proof.
  intros b P. cbn [bstep]. rewrite P. cbn [Z.eqb Pos.eqb]. cbn [set_phase ast phase tr]. rewrite emit_ast.
  split; [reflexivity|]. split; [reflexivity|]. unfold emit. destruct (ast b =? 0); reflexivity.
Qed.
