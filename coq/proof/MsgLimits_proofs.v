From Coq Require Import List ZArith Bool Lia.
From VLib Require Import Codec.
From VModel Require Import MsgLimits.
Import ListNotations.
Open Scope Z_scope.

(* ---------- the min rule ---------- *)

Lemma minPointers_min a b : minPointers a b = Z.min a b.
Proof. unfold minPointers. destruct (Z.ltb_spec a b); lia. Qed.

Lemma getMaxSize_none def : getMaxSize None None def = def.
Proof. reflexivity. Qed.
Lemma getMaxSize_mc a def : getMaxSize (Some a) None def = a.
Proof. reflexivity. Qed.
Lemma getMaxSize_dopt b def : getMaxSize None (Some b) def = b.
Proof. reflexivity. Qed.
Lemma getMaxSize_both a b def : getMaxSize (Some a) (Some b) def = Z.min a b.
Proof. apply minPointers_min. Qed.

Lemma getMaxSize_spec mc d def : getMaxSize mc d def = spec_limit mc d def.
Proof. destruct mc, d; cbn [getMaxSize spec_limit]; auto using minPointers_min. Qed.

Lemma client_limit_spec sc dial call def :
  client_limit sc dial call def = spec_limit sc (spec_opt dial call) def.
Proof. unfold client_limit. rewrite getMaxSize_spec. reflexivity. Qed.

(* the per-call option replaces the dial-time default option (it is not min-ed with it) *)
Lemma call_option_overrides sc dial c def :
  client_limit sc dial (Some c) def = getMaxSize sc (Some c) def.
Proof. reflexivity. Qed.

Lemma dial_option_used sc d def :
  client_limit sc (Some d) None def = getMaxSize sc (Some d) def.
Proof. reflexivity. Qed.

(* ---------- the guards ---------- *)

Lemma payload_len_wire cp n pat : payload_len cp n pat = wire_size cp n pat.
Proof. reflexivity. Qed.

Lemma send_fails_eq cp n pat lim : send_fails cp n pat lim = (lim <? wire_size cp n pat).
Proof. unfold send_fails. rewrite Z.gtb_ltb. reflexivity. Qed.

Lemma recv_fails_eq cp n pat lim : recv_fails cp n pat lim = too_big_recv cp n pat lim.
Proof. unfold recv_fails, too_big_recv. rewrite !Z.gtb_ltb. reflexivity. Qed.

(* without compression the payload is the message; with it, a run of n > 0 equal bytes is 10
   bytes and any other non-empty message n + 1 bytes; an empty message is never compressed *)
Lemma payload_len_plain n pat : payload_len false n pat = n.
Proof. reflexivity. Qed.
Lemma payload_len_empty cp pat : payload_len cp 0 pat = 0.
Proof. destruct cp; reflexivity. Qed.

Lemma send_fails_iff cp n pat lim : send_fails cp n pat lim = true <-> payload_len cp n pat > lim.
Proof. unfold send_fails. rewrite Z.gtb_lt. lia. Qed.

Lemma recv_fails_iff cp n pat lim : recv_fails cp n pat lim = true <->
  payload_len cp n pat > lim \/ (cp = true /\ 0 < n /\ n > lim).
Proof.
  unfold recv_fails. rewrite orb_true_iff, !andb_true_iff, !Z.gtb_lt, Z.ltb_lt. intuition lia.
Qed.

(* ---------- the exchange ---------- *)

Definition req_send_fails c := send_fails (comp c) (n_req c) (pat_req c) (eff_send c).
Definition req_recv_fails c := recv_fails (comp c) (n_req c) (pat_req c) (eff_srv_recv c).
Definition resp_send_fails c := send_fails (comp c) (n_resp c) (pat_resp c) (eff_srv_send c).
Definition resp_recv_fails c := recv_fails (comp c) (n_resp c) (pat_resp c) (eff_recv c).

Lemma exchange_unfold c : exchange c =
  if req_send_fails c then mkout 8 false false false false false else
  if req_recv_fails c then mkout 8 false true false false false else
  if resp_send_fails c then mkout 8 true false false true false else
  if resp_recv_fails c then mkout 8 true false true false false else
  mkout 0 true false true false true.
Proof. reflexivity. Qed.

(* request larger than the client's send limit: RESOURCE_EXHAUSTED, never transmitted *)
Theorem client_send_guard c : req_send_fails c = true ->
  code (exchange c) = 8 /\ srv_got (exchange c) = false /\ srv_recv_exh (exchange c) = false /\
  cli_got (exchange c) = false.
Proof. intros H. rewrite exchange_unfold, H. auto. Qed.

(* request that the server may not receive: RESOURCE_EXHAUSTED at the server and the client *)
Theorem server_recv_guard c : req_send_fails c = false -> req_recv_fails c = true ->
  code (exchange c) = 8 /\ srv_got (exchange c) = false /\ srv_recv_exh (exchange c) = true /\
  cli_got (exchange c) = false.
Proof. intros H1 H2. rewrite exchange_unfold, H1, H2. auto. Qed.

(* response larger than the server's send limit: the server's SendMsg fails, nothing is sent *)
Theorem server_send_guard c : req_send_fails c = false -> req_recv_fails c = false ->
  resp_send_fails c = true ->
  code (exchange c) = 8 /\ srv_got (exchange c) = true /\ srv_sent (exchange c) = false /\
  srv_send_exh (exchange c) = true /\ cli_got (exchange c) = false.
Proof. intros H1 H2 H3. rewrite exchange_unfold, H1, H2, H3. auto. Qed.

(* response that the client may not receive *)
Theorem client_recv_guard c : req_send_fails c = false -> req_recv_fails c = false ->
  resp_send_fails c = false -> resp_recv_fails c = true ->
  code (exchange c) = 8 /\ srv_got (exchange c) = true /\ srv_sent (exchange c) = true /\
  cli_got (exchange c) = false.
Proof. intros H1 H2 H3 H4. rewrite exchange_unfold, H1, H2, H3, H4. auto. Qed.

(* everything within the limits: delivered both ways, status OK *)
Theorem within_limits_delivered c : req_send_fails c = false -> req_recv_fails c = false ->
  resp_send_fails c = false -> resp_recv_fails c = false ->
  exchange c = mkout 0 true false true false true.
Proof. intros H1 H2 H3 H4. rewrite exchange_unfold, H1, H2, H3, H4. reflexivity. Qed.

Theorem code_ok_iff c : code (exchange c) = 0 <->
  req_send_fails c = false /\ req_recv_fails c = false /\ resp_send_fails c = false /\ resp_recv_fails c = false.
Proof.
  rewrite exchange_unfold.
  destruct (req_send_fails c), (req_recv_fails c), (resp_send_fails c), (resp_recv_fails c);
    cbn [code]; split; intros H; try discriminate; try tauto; destruct H as (?&?&?&?); discriminate.
Qed.

Theorem code_cases c : code (exchange c) = 0 \/ code (exchange c) = 8.
Proof.
  rewrite exchange_unfold.
  destruct (req_send_fails c), (req_recv_fails c), (resp_send_fails c), (resp_recv_fails c); cbn [code]; auto.
Qed.

(* a delivered request respected every limit on its way *)
Theorem delivered_request_within_limits c : srv_got (exchange c) = true ->
  payload_len (comp c) (n_req c) (pat_req c) <= eff_send c /\
  payload_len (comp c) (n_req c) (pat_req c) <= eff_srv_recv c /\
  (comp c = true -> 0 < n_req c -> n_req c <= eff_srv_recv c).
Proof.
  rewrite exchange_unfold.
  destruct (req_send_fails c) eqn:E1; [discriminate|].
  destruct (req_recv_fails c) eqn:E2; [discriminate|]. intros _.
  unfold req_send_fails in E1. unfold req_recv_fails in E2.
  assert (H1: ~ payload_len (comp c) (n_req c) (pat_req c) > eff_send c)
    by (intros H; apply send_fails_iff in H; congruence).
  assert (H2: ~ (payload_len (comp c) (n_req c) (pat_req c) > eff_srv_recv c \/
                 (comp c = true /\ 0 < n_req c /\ n_req c > eff_srv_recv c)))
    by (intros H; apply recv_fails_iff in H; congruence).
  repeat split; try lia. intros Hc Hn.
  destruct (Z_le_gt_dec (n_req c) (eff_srv_recv c)); [assumption|]. exfalso. apply H2. right. auto.
Qed.

Theorem delivered_response_within_limits c : cli_got (exchange c) = true ->
  payload_len (comp c) (n_resp c) (pat_resp c) <= eff_srv_send c /\
  payload_len (comp c) (n_resp c) (pat_resp c) <= eff_recv c /\
  (comp c = true -> 0 < n_resp c -> n_resp c <= eff_recv c).
Proof.
  rewrite exchange_unfold.
  destruct (req_send_fails c); [discriminate|]. destruct (req_recv_fails c); [discriminate|].
  destruct (resp_send_fails c) eqn:E1; [discriminate|].
  destruct (resp_recv_fails c) eqn:E2; [discriminate|]. intros _.
  unfold resp_send_fails in E1. unfold resp_recv_fails in E2.
  assert (H1: ~ payload_len (comp c) (n_resp c) (pat_resp c) > eff_srv_send c)
    by (intros H; apply send_fails_iff in H; congruence).
  assert (H2: ~ (payload_len (comp c) (n_resp c) (pat_resp c) > eff_recv c \/
                 (comp c = true /\ 0 < n_resp c /\ n_resp c > eff_recv c)))
    by (intros H; apply recv_fails_iff in H; congruence).
  repeat split; try lia. intros Hc Hn.
  destruct (Z_le_gt_dec (n_resp c) (eff_recv c)); [assumption|]. exfalso. apply H2. right. auto.
Qed.

(* the client's limits are the min rule over service config and options; the server's are its
   options (or the defaults) *)
Theorem eff_send_spec c :
  eff_send c = spec_limit (sc_req c) (spec_opt (dial_send c) (call_send c)) 2147483647.
Proof. apply client_limit_spec. Qed.
Theorem eff_recv_spec c :
  eff_recv c = spec_limit (sc_resp c) (spec_opt (dial_recv c) (call_recv c)) 4194304.
Proof. apply client_limit_spec. Qed.
Theorem eff_srv_spec c :
  eff_srv_recv c = match srv_recv c with Some v => v | None => 4194304 end /\
  eff_srv_send c = match srv_send c with Some v => v | None => 2147483647 end.
Proof. split; reflexivity. Qed.

(* ---------- the executable predicate holds on every model trace ---------- *)

Definition op_wf (op : word) : bool :=
  match run_op op with Some _ => true | None => false end.

Lemma b2z_eqb1 b : (b2z b =? 1) = b. Proof. destruct b; reflexivity. Qed.
Lemma b2z_eqb0 b : (b2z b =? 0) = negb b. Proof. destruct b; reflexivity. Qed.

Lemma clause_exchange_model k c : forallb (fun x => snd x) (clause_exchange k c (obs_of c)) = true.
Proof.
  unfold obs_of, clause_exchange. rewrite exchange_unfold.
  unfold req_send_fails, req_recv_fails, resp_send_fails, resp_recv_fails.
  rewrite !send_fails_eq, !recv_fails_eq.
  destruct (eff_srv_spec c) as [Hsr Hss]. rewrite Hsr, Hss, (eff_send_spec c), (eff_recv_spec c).
  cbn [forallb snd]. rewrite !Z.eqb_refl. cbn [andb].
  set (ls := spec_limit (sc_req c) (spec_opt (dial_send c) (call_send c)) 2147483647).
  set (lr := spec_limit (sc_resp c) (spec_opt (dial_recv c) (call_recv c)) 4194304).
  set (lsr := match srv_recv c with Some v => v | None => 4194304 end).
  set (lss := match srv_send c with Some v => v | None => 2147483647 end).
  destruct (ls <? wire_size (comp c) (n_req c) (pat_req c)); [reflexivity|].
  destruct (too_big_recv (comp c) (n_req c) (pat_req c) lsr); [reflexivity|].
  destruct (lss <? wire_size (comp c) (n_resp c) (pat_resp c)); [reflexivity|].
  destruct (too_big_recv (comp c) (n_resp c) (pat_resp c) lr); reflexivity.
Qed.

Lemma clause_op_model k op o : run_op op = Some o -> forallb (fun x => snd x) (clause_op k op o) = true.
Proof.
  destruct op as [|t r]; [discriminate|].
  destruct (Z.eq_dec t 1) as [->|N1].
  - destruct r as [|ms [|m [|ds [|d [|def [|? ?]]]]]]; try discriminate. cbn [run_op clause_op].
    intros H. inversion H; subst. cbn [forallb snd]. rewrite getMaxSize_spec, Z.eqb_refl. reflexivity.
  - destruct (Z.eq_dec t 2) as [->|N2].
    + cbn [run_op clause_op]. destruct (get_cfg r) as [c|]; [|discriminate].
      intros H. inversion H; subst. apply clause_exchange_model.
    + intros H. exfalso. destruct t as [|p|p]; try discriminate H.
      destruct p as [[p|p|]|[p|p|]|]; try discriminate H; congruence.
Qed.

Lemma clauses_from_model ops : forall k, forallb op_wf ops = true ->
  exists obs, run_ops ops = Some obs /\ forallb (fun x => snd x) (clauses_from k ops obs) = true.
Proof.
  induction ops as [|op r IH]; intros k Hwf; cbn [forallb] in Hwf.
  - exists []. split; reflexivity.
  - apply andb_true_iff in Hwf as [Hop Hr]. destruct (IH (k + 1) Hr) as (obs & Hrun & Hh).
    unfold op_wf in Hop. destruct (run_op op) as [o|] eqn:Eo; [|discriminate].
    cbn [run_ops]. rewrite Eo, Hrun. exists (o :: obs). split; [reflexivity|].
    cbn [clauses_from]. rewrite forallb_app, (clause_op_model k op o Eo). exact Hh.
Qed.

Theorem model_trace_holds cfg ops : forallb op_wf ops = true ->
  exists obs, run cfg ops = Some obs /\ holds_b cfg ops obs = true.
Proof. intros H. exact (clauses_from_model ops 0 H). Qed.
